(* Concrete histories used as satisfiability examples and refutation witnesses (C16-C18). *)
From stdpp Require Import gmap.
From Coq Require Import ZArith.
From RevmV Require Import Model.Bundle Spec.BundleSpec Spec.BundleHist.
Local Open Scope Z_scope.

Definition pe : plain := mkPlain ∅ ∅.
Lemma pe_wf : plain_wf pe.
Proof. intros a k _. unfold stor_get, pe; simpl. rewrite lookup_empty. reflexivity. Qed.

Lemma plain_nocode_list (l : list (Z * info)) s :
  forallb (fun x => match i_code x.2 with None => true | Some _ => false end) l = true ->
  plain_nocode (mkPlain (list_to_map l) s).
Proof.
  intros H a i Hi. unfold acc_get in Hi; simpl in Hi. apply elem_of_list_to_map_2 in Hi.
  apply elem_of_list_In in Hi. rewrite forallb_forall in H. specialize (H _ Hi). simpl in H.
  destruct (i_code i); [discriminate|reflexivity].
Qed.
Lemma pe_nocode : plain_nocode pe.
Proof. apply (plain_nocode_list [] ∅). reflexivity. Qed.

Definition ci (bal : Z) : info := mkInfo bal 1 7 (Some 7).          (* a contract, code hash 7 *)
Definition sto (l : list (Z * (Z * Z))) : gmap Z slot :=
  list_to_map (map (fun x => (x.1, mkSlot x.2.1 x.2.2)) l).
(* single transitions of account 1 *)
Definition t_create (l : list (Z * (Z * Z))) (prev : status) : tacc :=
  mkTA (Some (ci 4)) (if was_destroyed prev then DestroyedChanged else InMemoryChange) None prev (sto l) false.
Definition t_destroy (prev : status) : tacc :=
  mkTA None (if was_destroyed prev then DestroyedAgain else Destroyed) (Some (ci 4)) prev ∅ true.
Definition t_write (l : list (Z * (Z * Z))) (st : status) : tacc :=
  mkTA (Some (ci 4)) st (Some (ci 4)) st (sto l) false.

(* W1: create with slot 1 = 4 | selfdestruct *)
Definition w1 : list (list txout) :=
  [ [[(1, t_create [(1, (0, 4))] LoadedNotExisting)]]; [[(1, t_destroy InMemoryChange)]] ].
(* W2: create, destroy, re-create with slot 2 = 6 (three groups) then write slot 1 = 4 *)
Definition w2a : list (list txout) :=
  [ [[(1, t_create [(2, (0, 6))] LoadedNotExisting)]]; [[(1, t_destroy InMemoryChange)]];
    [[(1, t_create [(2, (0, 6))] Destroyed)]] ].
Definition w2b : list (list txout) := [ [[(1, t_write [(1, (0, 4))] DestroyedChanged)]] ].
(* W3: same first part, then selfdestruct again *)
Definition w3b : list (list txout) := [ [[(1, t_destroy DestroyedChanged)]] ].
(* W4: create with slot 3 = 6 | (selfdestruct ; re-create writing slots 1 and 3) in one group *)
Definition w4a : list (list txout) := [ [[(1, t_create [(3, (0, 6))] LoadedNotExisting)]] ].
Definition w4b : list (list txout) :=
  [ [[(1, t_destroy InMemoryChange)]; [(1, t_create [(1, (0, 3)); (3, (0, 6))] Destroyed)]] ].
(* W5: a longer well-formed history over three accounts: transfer creating 2, contract 1 created,
   written back to the original value, destroyed, re-created, empty account 3 touched away *)
Definition eoa (bal n : Z) : info := mkInfo bal n KECCAK_EMPTY None.
Definition p5 : plain :=
  mkPlain (list_to_map [(3, eoa 0 0); (5, mkInfo 1 1 9 None)])
          (list_to_map [(5, list_to_map [(1, 7); (2, 5)])]).
Lemma p5_wf : plain_wf p5.
Proof.
  intros a k Ha. unfold stor_get. destruct (p_stor p5 !! a) as [m|] eqn:E; [|reflexivity].
  unfold p5 in *; simpl in *.
  destruct (decide (a = 5)) as [->|Hne].
  - vm_compute in Ha. discriminate.
  - rewrite lookup_insert_ne in E by congruence. rewrite lookup_empty in E. discriminate.
Qed.
Lemma p5_nocode : plain_nocode p5.
Proof. apply plain_nocode_list. reflexivity. Qed.
Definition w5 : list (list txout) :=
  [ [[(2, mkTA (Some (eoa 5 0)) InMemoryChange None LoadedNotExisting ∅ false);
      (5, mkTA (Some (mkInfo 2 1 9 None)) Changed (Some (mkInfo 1 1 9 None)) Loaded (sto [(1, (7, 8))]) false)];
     [(5, mkTA (Some (mkInfo 2 1 9 None)) Changed (Some (mkInfo 2 1 9 None)) Changed (sto [(1, (8, 7)); (3, (0, 1))]) false);
      (3, mkTA None Destroyed (Some (eoa 0 0)) LoadedEmptyEIP161 ∅ true)]];
    [[(1, t_create [(1, (0, 4))] LoadedNotExisting)];
     [(1, t_destroy InMemoryChange); (5, mkTA None Destroyed (Some (mkInfo 2 1 9 None)) Changed ∅ true)]];
    [[(1, t_create [(2, (0, 6))] Destroyed)];
     [(5, mkTA (Some (eoa 3 0)) DestroyedChanged None Destroyed ∅ false)]] ].

(* the model's bundles for the witness histories *)
Definition bof (g : list (list txout)) : bundle := default bundle_empty (bundle_of true g).
Definition bw1 := bof w1.
Definition bw2a := bof w2a.  Definition bw2b := bof w2b.  Definition bw3b := bof w3b.
Definition bw23 := bof (w2a ++ w3b).
Definition bw4a := bof w4a.  Definition bw4b := bof w4b.  Definition bw4 := bof (w4a ++ w4b).

(* [bundle_of] is defined on a history: shown through a boolean so that the (proof-carrying)
   normal form of the bundle never has to be read back *)
Lemma bof_some g :
  (match bundle_of true g with Some _ => true | None => false end) = true ->
  bundle_of true g = Some (bof g).
Proof. unfold bof. destruct (bundle_of true g); [reflexivity|discriminate]. Qed.

(* W6: a contract that exists in the pre-state with slot 2 = 5 is selfdestructed | re-created
   writing slot 2 = 9 *)
Definition p6 : plain := mkPlain (list_to_map [(1, strip (ci 4))]) (list_to_map [(1, list_to_map [(2, 5)])]).
Lemma p6_wf : plain_wf p6.
Proof.
  intros a k Ha. unfold stor_get. destruct (p_stor p6 !! a) as [m|] eqn:E; [|reflexivity].
  unfold p6 in *; simpl in *.
  destruct (decide (a = 1)) as [->|Hne].
  - vm_compute in Ha. discriminate.
  - rewrite lookup_insert_ne in E by congruence. rewrite lookup_empty in E. discriminate.
Qed.
Lemma p6_nocode : plain_nocode p6.
Proof. apply plain_nocode_list. reflexivity. Qed.
Definition w6 : list (list txout) :=
  [ [[(1, t_destroy Loaded)]]; [[(1, t_create [(2, (0, 9))] Destroyed)]] ].
Definition bw6 := bof w6.

(* W7: account 1 carries its byte code in the pre-state (plain_nocode fails) and is touched
   without being changed *)
Definition p7 : plain := mkPlain (list_to_map [(1, ci 4)]) ∅.
Lemma p7_wf : plain_wf p7.
Proof. intros a k _. unfold stor_get, p7; simpl. rewrite lookup_empty. reflexivity. Qed.
Definition w7 : list (list txout) :=
  [ [[(1, mkTA (Some (ci 4)) Changed (Some (ci 4)) Loaded ∅ false)]] ].
