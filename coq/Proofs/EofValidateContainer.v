(* Soundness of the EOF validator model: lifting from one code section to every code section of
   the container (worklist loop of validate_eof_codes) and to every nested sub-container (stack
   loop of validate_eof_inner). *)
From RevmV Require Import Model.Eof Model.EofValidate Proofs.EofProofs Proofs.EofValidateProofs
  Proofs.EofValidateTables Proofs.EofValidateStep Proofs.EofValidateDispatch Proofs.EofValidateProofs2
  Proofs.EofValidateSection.
From Coq Require Import ZArith List Lia Bool.
Import ListNotations.
Local Open Scope Z_scope.

(* ------------------------------------------------------------------------------------------ *)
(* what decode guarantees about the sections' bytes                                            *)
(* ------------------------------------------------------------------------------------------ *)
Lemma bytes_ok_concat (l : list bytes) : bytes_ok (concat l) -> Forall bytes_ok l.
Proof.
  induction l as [|x l IH]; cbn [concat]; intros H; [constructor|].
  apply bytes_ok_app in H. destruct H. constructor; auto.
Qed.
Lemma len_concat_ge (l : list bytes) c : In c l -> len c <= len (concat l).
Proof.
  induction l as [|x l IH]; cbn [concat In]; [intros []|]. rewrite len_app.
  pose proof (len_nonneg x). pose proof (len_nonneg (concat l)). intros [->|Hin]; [lia|]. specialize (IH Hin). lia.
Qed.

Lemma decode_sections_bytes bs e :
  bytes_ok bs -> decode bs = Ok e ->
  Forall bytes_ok (code_section (body e)) /\
  Forall (fun c => bytes_ok c /\ len c < len bs) (container_section (body e)).
Proof.
  intros Hb H. destruct (decode_roundtrip bs e Hb H) as (Eenc & _ & _).
  unfold encode_slow, body_encode in Eenc. rewrite <- Eenc in Hb.
  apply bytes_ok_app in Hb. destruct Hb as (_ & Hb).
  apply bytes_ok_app in Hb. destruct Hb as (_ & Hb).
  apply bytes_ok_app in Hb. destruct Hb as (Hc & Hb).
  apply bytes_ok_app in Hb. destruct Hb as (Hk & _).
  split; [apply bytes_ok_concat; exact Hc|].
  apply bytes_ok_concat in Hk. rewrite Forall_forall in *. intros c Hin. split; [apply Hk; exact Hin|].
  rewrite <- Eenc. rewrite !len_app. pose proof (len_concat_ge _ _ Hin).
  assert (2 <= len (header_encode (header e))).
  { unfold header_encode. rewrite len_app. change (len [239; 0]) with 2.
    match goal with |- 2 <= 2 + len ?x => pose proof (len_nonneg x) end. lia. }
  pose proof (len_nonneg (flat_map types_encode (types_section (body e)))).
  pose proof (len_nonneg (concat (code_section (body e)))).
  pose proof (len_nonneg (data_section (body e))). lia.
Qed.

(* ------------------------------------------------------------------------------------------ *)
(* one container                                                                               *)
(* ------------------------------------------------------------------------------------------ *)
(* EOFCREATE / RETURNCONTRACT / RETURN / STOP against the kinds recorded for the sub-containers
   ([cts]) and for this container ([kind]) *)
Definition sub_marks (code : bytes) (cts : list CodeType) (kind : option CodeType) : Prop :=
  forall p op, is_start code p -> get code p = Some op ->
  (op = OP_EOFCREATE -> exists x, get code (p + 1) = Some x /\ nth_z cts x = Some ReturnContract) /\
  (op = OP_RETURNCONTRACT -> kind = Some ReturnContract /\
     exists x, get code (p + 1) = Some x /\ nth_z cts x = Some ReturnOrStop) /\
  ((op = OP_RETURN \/ op = OP_STOP) -> kind = Some ReturnOrStop).

Definition codes_safe (e : Eof) (k : option CodeType) (cts : list CodeType) : Prop :=
  let b := body e in
  len (code_section b) = len (types_section b) /\ 1 <= len (code_section b) /\
  (exists t0, nth_z (types_section b) 0 = Some t0 /\ inputs t0 = 0 /\ outputs t0 = 128) /\
  length cts = length (container_section b) /\
  exists kind, (forall c, k = Some c -> kind = Some c) /\
    (kind = Some ReturnContract -> is_data_filled b = true) /\
    forall idx code, nth_z (code_section b) idx = Some code ->
      section_ok code (types_section b) idx (len (container_section b)) (data_size (header e)) /\
      sub_marks code cts kind.

Definition tr_mono (a b : Tracker) : Prop :=
  length (codes b) = length (codes a) /\ length (subs b) = length (subs a) /\
  (forall c, this_type a = Some c -> this_type b = Some c) /\
  (forall x c, nth_z (subs a) x = Some (Some c) -> nth_z (subs b) x = Some (Some c)) /\
  (forall k, nth_z (codes a) k = Some true -> nth_z (codes b) k = Some true).

Lemma tr_le_mono a b : tr_le a b -> tr_mono a b.
Proof. intros (A1 & A2 & A3 & A4 & A5 & _). unfold tr_mono. auto. Qed.
Lemma tr_mono_refl a : tr_mono a a.
Proof. unfold tr_mono. auto. Qed.
Lemma tr_mono_trans a b c : tr_mono a b -> tr_mono b c -> tr_mono a c.
Proof.
  intros (A1 & A2 & A3 & A4 & A5) (B1 & B2 & B3 & B4 & B5). unfold tr_mono. repeat split; try congruence; auto.
Qed.

Lemma tracker_marks_mono' code p a b : tr_mono a b -> tracker_marks code p a -> tracker_marks code p b.
Proof.
  intros (A1 & A2 & A3 & A4 & A5) M op E. destruct (M op E) as (M1 & M2 & M3 & M4).
  split; [|split; [|split]].
  - intros X. destruct (M1 X) as (x & Y1 & Y2). exists x. split; auto.
  - intros X. destruct (M2 X) as (x & Y1 & Y2). exists x. split; auto.
  - intros X. destruct (M3 X) as (Y0 & x & Y1 & Y2). split; [auto|]. exists x. split; auto.
  - intros X. auto.
Qed.

Definition SecDone (e : Eof) (tr : Tracker) (k : Z) : Prop :=
  exists code, nth_z (code_section (body e)) k = Some code /\
    section_ok code (types_section (body e)) k (len (container_section (body e))) (data_size (header e)) /\
    sec_marks code tr.

Definition LInv (e : Eof) (tr : Tracker) : Prop :=
  forall k, nth_z (codes tr) k = Some true -> In k (pstack tr) \/ SecDone e tr k.

Lemma SecDone_mono e a b k : tr_mono a b -> SecDone e a k -> SecDone e b k.
Proof.
  intros M (code & E & S & K). exists code. split; [exact E|]. split; [exact S|].
  intros p Hp. eapply tracker_marks_mono'; [exact M|]. apply K. exact Hp.
Qed.

Lemma sections_loop_sound e : Forall bytes_ok (code_section (body e)) ->
  forall fuel tr trf, LInv e tr -> sections_loop fuel e tr = VOk trf ->
    LInv e trf /\ pstack trf = [] /\ tr_mono tr trf.
Proof.
  intros Hcs. induction fuel as [|f IH]; intros tr trf HI H; cbn [sections_loop] in H.
  - destruct (pstack tr) eqn:Ep; [|discriminate]. inversion H. subst trf.
    split; [exact HI|]. split; [exact Ep|apply tr_mono_refl].
  - destruct (pstack tr) as [|index rest] eqn:Ep.
    { inversion H. subst trf. split; [exact HI|]. split; [exact Ep|apply tr_mono_refl]. }
    destruct (nth_z (code_section (body e)) index) as [code|] eqn:Ec; cbn [vidx vbind] in H; [|discriminate].
    destruct (validate_eof_code _ _ _ _ _ _) as [tr2| | |] eqn:Ev; cbn [vbind] in H; try discriminate.
    assert (Hbc : bytes_ok code) by (rewrite Forall_forall in Hcs; apply Hcs; eapply nth_z_In; exact Ec).
    destruct (validate_eof_code_sound _ _ _ _ _ _ _ Hbc Ev) as (Sok & Hle & Hmk).
    set (tr1 := mkTracker (this_type tr) (codes tr) rest (subs tr)) in *.
    assert (M1 : tr_mono tr tr1) by (unfold tr_mono, tr1; cbn [codes subs this_type]; auto).
    assert (M2 : tr_mono tr tr2) by (eapply tr_mono_trans; [exact M1|apply tr_le_mono; exact Hle]).
    destruct (IH tr2 trf) as (R1 & R2 & R3); [|exact H|].
    + intros k Hk. destruct Hle as (_ & _ & _ & _ & _ & L6 & L7).
      destruct (L6 k Hk) as [X|X]; [|left; exact X].
      change (codes tr1) with (codes tr) in X. destruct (HI k X) as [Y|Y].
      * rewrite Ep in Y. destruct Y as [<-|Y].
        -- right. exists code. split; [exact Ec|]. split; [exact Sok|exact Hmk].
        -- left. apply L7. exact Y.
      * right. eapply SecDone_mono; [exact M2|exact Y].
    + split; [exact R1|]. split; [exact R2|]. eapply tr_mono_trans; eassumption.
Qed.

Lemma unwrap_all_map l cts : unwrap_all l = Some cts -> l = map Some cts.
Proof.
  revert cts. induction l as [|[c|] l IH]; intros cts H; cbn [unwrap_all] in H.
  - inversion H. reflexivity.
  - destruct (unwrap_all l) as [r|]; [|discriminate]. inversion H. cbn [map]. f_equal. apply IH. reflexivity.
  - discriminate.
Qed.
Lemma nth_z_map {A B} (f : A -> B) l j : nth_z (map f l) j = option_map f (nth_z l j).
Proof. unfold nth_z. destruct (0 <=? j); [|reflexivity]. apply nth_error_map. Qed.

Lemma forallb_id_nth l k : forallb (fun x : bool => x) l = true -> 0 <= k < len l -> nth_z l k = Some true.
Proof.
  intros H B. destruct (nth_z_defined l k B) as (x & E). rewrite E. f_equal.
  rewrite forallb_forall in H. apply H. eapply nth_z_In. exact E.
Qed.

Theorem validate_eof_codes_sound e k cts :
  Forall bytes_ok (code_section (body e)) -> validate_eof_codes e k = VOk cts -> codes_safe e k cts.
Proof.
  intros Hcs H. pose proof H as Htop.
  unfold validate_eof_codes in H.
  destruct (len (code_section (body e)) =? len (types_section (body e))); cbn [negb] in H; [|discriminate].
  destruct (len (code_section (body e)) =? 0); [discriminate|].
  destruct (nth_z (types_section (body e)) 0) as [t0|]; cbn [vidx vbind] in H; [|discriminate].
  destruct (negb (inputs t0 =? 0) || negb (is_non_returning t0)); [discriminate|].
  destruct (tracker_new k _ _) as [tr0| | |] eqn:Enew; cbn [vbind] in H; try discriminate.
  destruct (sections_loop _ e tr0) as [trf| | |] eqn:Eloop; cbn [vbind] in H; try discriminate.
  destruct (forallb (fun x => x) (codes trf)) eqn:Eall; cbn [negb] in H; [|discriminate].
  destruct (unwrap_all (subs trf)) as [l|] eqn:Eun; [|discriminate].
  unfold tracker_new in Enew. destruct (length (code_section (body e))) as [|n] eqn:Elen; [discriminate|].
  inversion Enew. clear Enew.
  apply (sections_loop_sound e Hcs) in Eloop.
  2:{ intros j Hj. subst tr0. cbn [codes pstack] in *. left. left.
      unfold nth_z in Hj. destruct (Z.leb_spec 0 j) as [Hj0|]; [|discriminate].
      destruct (Z.to_nat j) as [|m] eqn:Em; [lia|]. cbn [nth_error] in Hj.
      apply nth_error_In in Hj. apply repeat_spec in Hj. discriminate. }
  destruct Eloop as (LI & Ps & (M1 & M2 & M3 & M4 & M5)).
  assert (Lc : length (codes trf) = length (code_section (body e))).
  { rewrite M1. subst tr0. cbn [codes length]. rewrite repeat_length. congruence. }
  assert (Ls : length (subs trf) = length (container_section (body e))).
  { rewrite M2. subst tr0. cbn [subs]. apply repeat_length. }
  apply unwrap_all_map in Eun.
  assert (Hdf : this_type trf = Some ReturnContract -> is_data_filled (body e) = true).
  { intros X. rewrite X in H. destruct (is_data_filled (body e)); [reflexivity|discriminate]. }
  assert (Ecl : l = cts).
  { destruct (match this_type trf with Some ReturnContract => negb (is_data_filled (body e)) | _ => false end);
      [discriminate|]. inversion H. reflexivity. }
  subst l. pose proof (validate_eof_codes_top _ _ _ Htop) as (T1 & T2 & T3).
  unfold codes_safe. split; [exact T1|]. split; [exact T2|]. split; [exact T3|].
  split; [rewrite <- Ls, Eun; symmetry; apply map_length|].
  exists (this_type trf). split; [|split; [exact Hdf|]].
  - intros c Hc. apply M3. subst tr0. cbn [this_type]. exact Hc.
  - intros idx code Ec. pose proof (nth_z_lt _ _ _ Ec) as Bi.
    assert (Hacc : nth_z (codes trf) idx = Some true).
    { apply forallb_id_nth; [exact Eall|]. unfold len in *. lia. }
    destruct (LI idx Hacc) as [X|(code' & Ec' & Sok & Smk)]; [rewrite Ps in X; destruct X|].
    rewrite Ec in Ec'. inversion Ec'. subst code'. split; [exact Sok|].
    intros p op Hp Eop. destruct (Smk p Hp op Eop) as (K1 & K2 & K3 & K4).
    split; [|split].
    + intros X. destruct (K2 X) as (x & Ex & Es). exists x. split; [exact Ex|].
      rewrite Eun, nth_z_map in Es. destruct (nth_z cts x); cbn [option_map] in Es; congruence.
    + intros X. destruct (K3 X) as (Kt & x & Ex & Es). split; [exact Kt|]. exists x. split; [exact Ex|].
      rewrite Eun, nth_z_map in Es. destruct (nth_z cts x); cbn [option_map] in Es; congruence.
    + exact K4.
Qed.

(* ------------------------------------------------------------------------------------------ *)
(* nested containers                                                                           *)
(* ------------------------------------------------------------------------------------------ *)
(* [container_valid e k]: every code section of [e] is safe, EOFCREATE / RETURNCONTRACT operands
   name sub-containers of the matching kind, a container used as init code has its data filled
   and never executes RETURN / STOP (and runtime code never executes RETURNCONTRACT); every
   sub-container decodes and is, recursively, valid with the kind recorded for it *)
Inductive container_valid : Eof -> option CodeType -> Prop :=
| CV e k cts :
    codes_safe e k cts ->
    Forall2 (fun c ct => exists e', decode c = Ok e' /\ container_valid e' (Some ct))
            (container_section (body e)) cts ->
    container_valid e k.

Definition decoded (p : Eof * option CodeType) : Prop := exists bs, bytes_ok bs /\ decode bs = Ok (fst p).

Lemma zip_push_spec (Q : Eof * option CodeType -> Prop) : forall conts cts stack stack',
  length conts = length cts -> zip_push conts cts stack = VOk stack' ->
  (Forall Q stack' -> Forall Q stack /\
     Forall2 (fun c ct => exists e', decode c = Ok e' /\ Q (e', Some ct)) conts cts) /\
  (Forall bytes_ok conts -> Forall decoded stack -> Forall decoded stack').
Proof.
  induction conts as [|c cr IH]; intros cts stack stack' L H; destruct cts as [|t tr]; cbn [length] in L; try discriminate;
    cbn [zip_push] in H.
  - inversion H. subst stack'. split; [intros F; split; [exact F|constructor]|auto].
  - destruct (decode c) as [e'| |] eqn:Ed; try discriminate.
    apply IH in H; [|lia]. destruct H as (H1 & H2). split.
    + intros F. destruct (H1 F) as (F1 & F2). inversion F1. subst. split; [assumption|].
      constructor; [|exact F2]. exists e'. split; [exact Ed|assumption].
    + intros Fb Fd. inversion Fb. subst. apply H2; [assumption|]. constructor; [|exact Fd].
      exists c. split; [assumption|exact Ed].
Qed.

Lemma containers_loop_sound : forall fuel stack,
  Forall decoded stack -> containers_loop fuel stack = VOk tt ->
  Forall (fun p => container_valid (fst p) (snd p)) stack.
Proof.
  induction fuel as [|f IH]; intros stack Hd H; cbn [containers_loop] in H.
  - destruct stack as [|[e ct] rest]; [constructor|discriminate].
  - destruct stack as [|[e ct] rest]; [constructor|].
    destruct (validate_eof_codes e ct) as [cts| | |] eqn:Ev; cbn [vbind] in H; try discriminate.
    destruct (zip_push _ cts rest) as [stack'| | |] eqn:Ez; cbn [vbind] in H; try discriminate.
    inversion Hd as [|x l (bs & Hb & Edec) Hdr]. subst. cbn [fst] in Edec.
    destruct (decode_sections_bytes _ _ Hb Edec) as (Bc & Bk).
    pose proof (validate_eof_codes_sound _ _ _ Bc Ev) as Cs.
    assert (L : length (container_section (body e)) = length cts).
    { destruct Cs as (_ & _ & _ & L & _). symmetry. exact L. }
    destruct (zip_push_spec (fun p => container_valid (fst p) (snd p)) _ _ _ _ L Ez) as (Z1 & Z2).
    assert (Hd' : Forall decoded stack').
    { apply Z2; [|exact Hdr]. rewrite Forall_forall in *. intros c Hc. apply Bk. exact Hc. }
    destruct (Z1 (IH _ Hd' H)) as (F1 & F2).
    constructor; [|exact F1]. cbn [fst snd]. econstructor; [exact Cs|exact F2].
Qed.

Theorem validate_raw_eof_inner_sound bs k :
  bytes_ok bs -> validate_raw_eof_inner_r bs k = VOk tt ->
  exists e, decode bs = Ok e /\ is_data_filled (body e) = true /\ container_valid e k.
Proof.
  intros Hb H. unfold validate_raw_eof_inner_r in H.
  destruct (len bs >? MAX_INITCODE_SIZE); [discriminate|].
  destruct (decode bs) as [e| |] eqn:Ed; try discriminate.
  exists e. split; [reflexivity|].
  unfold validate_eof_inner in H.
  destruct (is_data_filled (body e)) eqn:Ef; cbn [negb] in H; [|discriminate].
  split; [reflexivity|].
  destruct (decode_sections_bytes _ _ Hb Ed) as (Bc & Bk).
  destruct (Z.eqb_spec (len (container_section (body e))) 0) as [E0|].
  - destruct (validate_eof_codes e k) as [cts| | |] eqn:Ev; cbn [vbind] in H; try discriminate.
    pose proof (validate_eof_codes_sound _ _ _ Bc Ev) as Cs.
    econstructor; [exact Cs|]. destruct Cs as (_ & _ & _ & L & _).
    apply len_0_nil in E0. rewrite E0 in *. destruct cts; [constructor|discriminate].
  - apply containers_loop_sound in H.
    + inversion H. assumption.
    + constructor; [|constructor]. exists bs. split; assumption.
Qed.
