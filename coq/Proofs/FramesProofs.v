(* C07: every frame function is a sequence of journaled-state operations (hops); hence the
   invariants of histories (Proofs/HostMain.v) apply: depth = depth at start + open frames. *)
From RevmV Require Import Base.Word Model.Host Model.Frames Proofs.HostView Proofs.HostUndo
  Proofs.HostGood Proofs.HostOps Proofs.HostRevert Proofs.HostMain.
Local Open Scope Z_scope.

(* the journaled-state calls an event performs, in order (data dependent) *)
Definition call_tail (d : db) (ci : call_inputs) (s3 : jstate) : list hop :=
  match (if ci_ext_delegate ci then None else ci_precompile ci) with
  | Some true => [HCommit]
  | Some false => [HRevert]
  | None =>
      let '(s4, _) := load_code d s3 (ci_bytecode ci) in
      HLoad (ci_bytecode ci) ::
      match st s4 (ci_bytecode ci) with
      | None => []
      | Some acc =>
          if ci_ext_delegate ci && negb (ci_code_is_eof ci) then [HRevert]
          else if a_code acc =? 0 then [HCommit]
          else match db_delegate d (a_code acc) with Some t => [HLoad t] | None => [] end
      end
  end.

Definition hops_of_call (d : db) (s : jstate) (ci : call_inputs) : list hop :=
  if depth s >? CALL_STACK_LIMIT then [] else
  let '(s1, _, _, _) := load_account_delegated d s (ci_bytecode ci) in
  let '(s2, cp) := checkpoint s1 in
  let pre := [HLoadDelegated (ci_bytecode ci); HCheckpoint] in
  match ci_value ci with
  | Transfer v =>
      if v =? 0 then
        pre ++ [HLoad (ci_target ci); HTouch (ci_target ci)] ++
        call_tail d ci (touch (fst (load_account d s2 (ci_target ci))) (ci_target ci))
      else
        match transfer d s2 (ci_caller ci) (ci_target ci) v with
        | Some (s3, XferOk) => pre ++ [HTransfer (ci_caller ci) (ci_target ci) v] ++ call_tail d ci s3
        | Some (s3, _) => pre ++ [HTransfer (ci_caller ci) (ci_target ci) v; HRevert]
        | None => pre ++ [HTransfer (ci_caller ci) (ci_target ci) v]
        end
  | Apparent _ => pre ++ call_tail d ci s2
  end.

Definition hops_of_create (d : db) (s : jstate) (cr : create_inputs) : list hop :=
  if depth s >? CALL_STACK_LIMIT then [] else
  if cr_init_is_ef00 cr then [] else
  let '(s1, _) := load_account d s (cr_caller cr) in
  match st s1 (cr_caller cr) with
  | None => [HLoad (cr_caller cr)]
  | Some cacc =>
      if a_bal cacc <? cr_value cr then [HLoad (cr_caller cr)] else
      match inc_nonce s1 (cr_caller cr) with
      | Some (s2, Some _) =>
          if cr_created_is_precompile cr then [HLoad (cr_caller cr); HIncNonce (cr_caller cr)]
          else [HLoad (cr_caller cr); HIncNonce (cr_caller cr); HLoad (cr_created cr);
                HCreate (cr_caller cr) (cr_created cr) (cr_has_storage cr) (cr_value cr)]
      | _ => [HLoad (cr_caller cr); HIncNonce (cr_caller cr)]
      end
  end.

Definition hops_of_event (d : db) (sc : st_sc) (e : fevent) : list hop :=
  match e with
  | EHop o => [o]
  | ECall ci => hops_of_call d (fst sc) ci
  | ECallReturn ok => [if ok then HCommit else HRevert]
  | ECreate cr => hops_of_create d (fst sc) cr
  | ECreateReturn a r => match r with CRFail => [HRevert] | CRCommit c => [HCommit; HSetCode a c] end
  end.

Lemma run_hops_app d h1 : forall sc h2,
  run_hops d sc (h1 ++ h2) = match run_hops d sc h1 with Some sc' => run_hops d sc' h2 | None => None end.
Proof.
  induction h1 as [|o r IH]; intros sc h2; cbn [app run_hops]; [reflexivity|].
  destruct (run_hop d sc o); [apply IH|reflexivity].
Qed.

Lemma call_as_hops d s cps ci sc' r :
  make_call_frame d (s, cps) ci = Some (sc', r) ->
  run_hops d (s, cps) (hops_of_call d s ci) = Some sc'.
Proof.
  unfold make_call_frame, hops_of_call.
  destruct (depth s >? CALL_STACK_LIMIT); [intros [= <- _]; reflexivity|].
  destruct (load_account_delegated d s (ci_bytecode ci)) as [[[s1 c1] e1] dc1] eqn:L1.
  destruct (checkpoint s1) as [s2 cp] eqn:CP.
  assert (Pre : forall rest, run_hops d (s, cps) ([HLoadDelegated (ci_bytecode ci); HCheckpoint] ++ rest)
                             = run_hops d (s2, cp :: cps) rest).
  { intros rest. cbn [app run_hops run_hop]. rewrite L1. cbn [run_hops run_hop]. rewrite CP. reflexivity. }
  assert (Tail : forall s3 sc'' r'',
    match (if ci_ext_delegate ci then None else ci_precompile ci) with
    | Some true => Some ((checkpoint_commit s3, cps), FResult (RPrecompile true))
    | Some false => match checkpoint_revert s3 cp with Some s4 => Some ((s4, cps), FResult (RPrecompile false)) | None => None end
    | None =>
        let '(s4, _) := load_code d s3 (ci_bytecode ci) in
        match st s4 (ci_bytecode ci) with
        | None => None
        | Some acc =>
            if ci_ext_delegate ci && negb (ci_code_is_eof ci) then
              match checkpoint_revert s4 cp with
              | Some s5 => Some ((s5, cps), FResult RInvalidExtDelegateCallTarget) | None => None end
            else if a_code acc =? 0 then Some ((checkpoint_commit s4, cps), FResult RStop)
            else Some ((match db_delegate d (a_code acc) with Some t => fst (load_code d s4 t) | None => s4 end,
                        cp :: cps), FFrame cp)
        end
    end = Some (sc'', r'') -> run_hops d (s3, cp :: cps) (call_tail d ci s3) = Some sc'').
  { intros s3 sc'' r''. unfold call_tail. destruct (if ci_ext_delegate ci then None else ci_precompile ci) as [[|]|].
    - intros [= <- _]. reflexivity.
    - cbn [run_hops run_hop]. destruct (checkpoint_revert s3 cp); [intros [= <- _]; reflexivity|discriminate].
    - unfold load_code. destruct (load_account d s3 (ci_bytecode ci)) as [s4 c4] eqn:L4.
      cbn [run_hops run_hop]. rewrite L4. cbn [fst].
      destruct (st s4 (ci_bytecode ci)) as [acc|]; [|discriminate].
      destruct (ci_ext_delegate ci && negb (ci_code_is_eof ci)).
      + cbn [run_hops run_hop]. destruct (checkpoint_revert s4 cp); [intros [= <- _]; reflexivity|discriminate].
      + destruct (a_code acc =? 0); [intros [= <- _]; reflexivity|].
        destruct (db_delegate d (a_code acc)); intros [= <- _]; reflexivity. }
  destruct (ci_value ci) as [v|v].
  - destruct (v =? 0).
    + intros H. rewrite Pre. cbn [app run_hops run_hop]. eapply Tail. exact H.
    + destruct (transfer d s2 (ci_caller ci) (ci_target ci) v) as [[s3 [| |]]|] eqn:T; [| | |discriminate].
      * intros H. rewrite Pre. cbn [app run_hops run_hop]. rewrite T. eapply Tail. exact H.
      * rewrite Pre. cbn [app run_hops run_hop]. rewrite T. cbn [run_hops run_hop].
        destruct (checkpoint_revert s3 cp); [intros [= <- _]; reflexivity|discriminate].
      * rewrite Pre. cbn [app run_hops run_hop]. rewrite T. cbn [run_hops run_hop].
        destruct (checkpoint_revert s3 cp); [intros [= <- _]; reflexivity|discriminate].
  - intros H. rewrite Pre. eapply Tail. exact H.
Qed.

Lemma create_as_hops d s cps cr sc' r :
  make_create_frame d (s, cps) cr = Some (sc', r) ->
  run_hops d (s, cps) (hops_of_create d s cr) = Some sc'.
Proof.
  unfold make_create_frame, hops_of_create.
  destruct (depth s >? CALL_STACK_LIMIT); [intros [= <- _]; reflexivity|].
  destruct (cr_init_is_ef00 cr); [intros [= <- _]; reflexivity|].
  destruct (load_account d s (cr_caller cr)) as [s1 c1] eqn:L1.
  destruct (st s1 (cr_caller cr)) as [cacc|]; [|discriminate].
  destruct (a_bal cacc <? cr_value cr).
  { intros [= <- _]. cbn [run_hops run_hop]. rewrite L1. reflexivity. }
  destruct (inc_nonce s1 (cr_caller cr)) as [[s2 [n|]]|] eqn:N; [| |discriminate].
  - destruct (cr_created_is_precompile cr).
    { intros [= <- _]. repeat (cbn [run_hops run_hop fst]; rewrite ?L1, ?N). reflexivity. }
    destruct (load_account d s2 (cr_created cr)) as [s3 c3] eqn:L3.
    destruct (create_account_checkpoint s3 (cr_caller cr) (cr_created cr) (cr_has_storage cr) (cr_value cr) (spurious s3))
      as [[s4 [cp| |]]|] eqn:C; [| | |discriminate];
      intros [= <- _]; repeat (cbn [run_hops run_hop fst]; rewrite ?L1, ?N, ?L3, ?C); reflexivity.
  - intros [= <- _]. repeat (cbn [run_hops run_hop fst]; rewrite ?L1, ?N). reflexivity.
Qed.

Lemma fstep_as_hops d sc e sc' r :
  fstep d sc e = Some (sc', r) -> run_hops d sc (hops_of_event d sc e) = Some sc'.
Proof.
  destruct sc as [s cps]. destruct e; cbn [fstep hops_of_event fst].
  - destruct (plain_hop o); [|discriminate]. cbn [run_hops].
    destruct (run_hop d (s, cps) o); [intros [= <- _]; reflexivity|discriminate].
  - destruct (make_call_frame d (s, cps) ci) as [[sc1 r1]|] eqn:M; [|discriminate]. intros [= <- _].
    eapply call_as_hops; eauto.
  - unfold call_return. destruct cps as [|cp rest]; [discriminate|]. destruct ok.
    + intros [= <- _]. reflexivity.
    + cbn [run_hops run_hop]. destruct (checkpoint_revert s cp); [intros [= <- _]; reflexivity|discriminate].
  - destruct (make_create_frame d (s, cps) cr) as [[sc1 r1]|] eqn:M; [|discriminate]. intros [= <- _].
    eapply create_as_hops; eauto.
  - unfold create_return. destruct cps as [|cp rest]; [discriminate|]. destruct r0.
    + cbn [run_hops run_hop]. destruct (checkpoint_revert s cp); [intros [= <- _]; reflexivity|discriminate].
    + cbn [run_hops run_hop]. destruct (set_code (checkpoint_commit s) created code); [intros [= <- _]; reflexivity|discriminate].
Qed.

(* the contract of a list of events: the contract of the journaled-state calls they issue *)
Fixpoint econtract (d : db) (sc : st_sc) (es : list fevent) : Prop :=
  match es with
  | [] => True
  | e :: r => contract d sc (hops_of_event d sc e) /\
              match fstep d sc e with Some (sc', _) => econtract d sc' r | None => True end
  end.

Definition tx_start (d : db) (s : jstate) : Prop := WF d s /\ journal s = [[]] /\ depth s = 0.

Definition virtual0 (s : jstate) : jstate := reframe s (logs s) (depth s - 1) [].

Lemma Inv_tx_start d s : tx_start d s -> Inv d (virtual0 s) s [].
Proof.
  intros (W & J & D). exists [[]]. split; [congruence|]. split; [rewrite J; reflexivity|].
  split; [exists s; split; reflexivity|]. split; [exists []; cbn; rewrite app_nil_r; reflexivity|].
  split; [repeat split|]. split; [exact W|constructor].
Qed.

Lemma contract_app d h1 : forall sc h2 sc1,
  contract d sc h1 -> run_hops d sc h1 = Some sc1 -> contract d sc1 h2 -> contract d sc (h1 ++ h2).
Proof.
  induction h1 as [|o r IH]; intros sc h2 sc1 C1 R C2; cbn [app contract run_hops] in *.
  - injection R as <-. exact C2.
  - destruct C1 as [Hok C1]. split; [exact Hok|].
    destruct (run_hop d sc o) as [sc'|]; [|discriminate]. eapply IH; eauto.
Qed.

Lemma frun_inv d s0 es : forall s cps s' cps',
  Inv d s0 s cps -> depth s = depth s0 + 1 + Z.of_nat (length cps) ->
  econtract d (s, cps) es -> frun d (s, cps) es = Some (s', cps') ->
  Inv d s0 s' cps' /\ depth s' = depth s0 + 1 + Z.of_nat (length cps').
Proof.
  induction es as [|e r IH]; intros s cps s' cps' I D C R; cbn [frun econtract] in *.
  - injection R as <- <-. auto.
  - destruct C as [Ch C]. destruct (fstep d (s, cps) e) as [[[s1 cps1] r1]|] eqn:F; [|discriminate].
    pose proof (fstep_as_hops _ _ _ _ _ F) as H.
    eapply IH; [eapply Inv_hops; eauto|eapply depth_hops; eauto|exact C|exact R].
Qed.

Theorem depth_is_open_frames d s es s' cps' :
  tx_start d s -> econtract d (s, []) es -> frun d (s, []) es = Some (s', cps') ->
  depth s' = Z.of_nat (length cps').
Proof.
  intros T C R. pose proof T as (_ & _ & D0).
  destruct (frun_inv d (virtual0 s) es s [] s' cps' (Inv_tx_start d s T)) as [_ D]; auto.
  - cbn. lia.
  - rewrite D. cbn. lia.
Qed.

(* a frame function that does not create a frame leaves the depth where it was; one that creates a
   frame adds one level, and the matching return removes it — whatever the outcome *)
Theorem event_depth d s0 s cps e s' cps' r :
  Inv d s0 s cps -> depth s = depth s0 + 1 + Z.of_nat (length cps) ->
  contract d (s, cps) (hops_of_event d (s, cps) e) ->
  fstep d (s, cps) e = Some ((s', cps'), r) ->
  depth s' = depth s + Z.of_nat (length cps') - Z.of_nat (length cps) /\
  match e, r with
  | ECall _, Some (FResult _) | ECreate _, Some (FResult _) => cps' = cps
  | ECall _, Some (FFrame cp) | ECreate _, Some (FFrame cp) => cps' = cp :: cps
  | ECallReturn _, _ | ECreateReturn _ _, _ => exists cp, cps = cp :: cps'
  | _, _ => True
  end.
Proof.
  intros I D C F. pose proof (fstep_as_hops _ _ _ _ _ F) as H.
  pose proof (depth_hops d s0 _ s cps s' cps' I C H D) as D'.
  split; [lia|].
  destruct e; cbn [fstep] in F.
  - destruct (plain_hop o); [|discriminate]. destruct (run_hop d (s, cps) o); [|discriminate].
    injection F as _ <-. exact Logic.I.
  - destruct (make_call_frame d (s, cps) ci) as [[sc1 r1]|] eqn:M; [|discriminate].
    injection F as E1 <-. subst sc1. unfold make_call_frame in M.
    repeat match type of M with
           | (if ?c then _ else _) = _ => destruct c
           | (let '(_, _) := ?x in _) = _ => destruct x
           | match ?x with _ => _ end = _ => destruct x
           end; try discriminate; injection M as _ <- <-; reflexivity.
  - unfold call_return in F. destruct cps as [|cp rest]; [discriminate|].
    destruct ok; [injection F as _ <- _; eauto|].
    destruct (checkpoint_revert s cp); [injection F as _ <- _; eauto|discriminate].
  - destruct (make_create_frame d (s, cps) cr) as [[sc1 r1]|] eqn:M; [|discriminate].
    injection F as E1 <-. subst sc1. unfold make_create_frame in M.
    repeat match type of M with
           | (if ?c then _ else _) = _ => destruct c
           | (let '(_, _) := ?x in _) = _ => destruct x
           | match ?x with _ => _ end = _ => destruct x
           end; try discriminate; injection M as _ <- <-; reflexivity.
  - unfold create_return in F. destruct cps as [|cp rest]; [discriminate|]. destruct r0.
    + destruct (checkpoint_revert s cp); [injection F as _ <- _; eauto|discriminate].
    + destruct (set_code (checkpoint_commit s) created code); [injection F as _ <- _; eauto|discriminate].
Qed.

(* the depth check rejects exactly when more than 1024 frames are open below the call *)
Theorem too_deep_iff d s cps ci sc' r :
  make_call_frame d (s, cps) ci = Some (sc', r) -> (r = FResult RCallTooDeep <-> depth s > CALL_STACK_LIMIT).
Proof.
  unfold make_call_frame. destruct (depth s >? CALL_STACK_LIMIT) eqn:G.
  - intros [= _ <-]. apply Z.gtb_lt in G. split; [lia|reflexivity].
  - assert (~ depth s > CALL_STACK_LIMIT) as NG by (intros X; apply Z.gt_lt, Z.gtb_lt in X; congruence).
    intros M. split; [|contradiction]. intros ->. exfalso.
    destruct (load_account_delegated d s (ci_bytecode ci)) as [[[s1 ?] ?] ?].
    destruct (checkpoint s1) as [s2 cp].
    destruct (ci_value ci) as [v|v];
      [destruct (v =? 0); [|destruct (transfer d s2 (ci_caller ci) (ci_target ci) v) as [[s3 [| |]]|]]|];
    repeat match type of M with
           | (if ?c then _ else _) = _ => destruct c
           | (let '(_, _) := ?x in _) = _ => destruct x
           | match ?x with _ => _ end = _ => destruct x
           end; discriminate.
Qed.
