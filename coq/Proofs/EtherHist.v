(* C08 part 3: every history conserves phi = total + ether burnt according to the journal.
   Reverts are handled through the C06 invariant: for every open checkpoint the state before it
   is kept as a ghost g with [Inv d g s (the checkpoints opened after it)]; reverting gives back
   the observation and the journal of g, hence phi g. *)
From Coq Require Import FunctionalExtensionality Lia.
From RevmV Require Import Base.Word Model.Host Model.Ether Proofs.HostView Proofs.HostUndo Proofs.HostGood
  Proofs.HostOps Proofs.HostOps2 Proofs.HostOps3 Proofs.HostOps4 Proofs.HostRevert Proofs.HostMain
  Proofs.EtherProofs Proofs.EtherOps.
Local Open Scope Z_scope.

(* the contract of C06 plus: the creator holds the endowment (checked by create_inner before it
   calls create_account_checkpoint), and the beneficiary of a self-destruct does not overflow
   (finding F13: the code wraps silently there) *)
Definition hop_ok8 (d : db) (s : jstate) (o : hop) : Prop :=
  hop_ok d s o /\
  match o with
  | HCreate c a hs v => v <= bal d s c
  | HSelfdestruct a t => a <> t -> bal d s t + bal d s a < pow256
  | _ => True
  end.

Fixpoint contract8 (d : db) (sc : jstate * list checkpoint_t) (h : list hop) : Prop :=
  match h with
  | [] => True
  | o :: r => hop_ok8 d (fst sc) o /\
              match run_hop d sc o with Some sc' => contract8 d sc' r | None => True end
  end.

Definition covers (us : list Z) (h : list hop) : Prop := forall a, In a (hist_addrs h) -> In a us.

(* ------------------------------------------------------------------ one operation other than revert *)
Lemma phi_hop_plain d us s cps o s' cps' :
  WF d s -> hop_ok8 d s o -> NoDup us -> (forall a, In a (hop_addrs o) -> In a us) ->
  o <> HRevert -> run_hop d (s, cps) o = Some (s', cps') -> phi d us s' = phi d us s.
Proof.
  intros W [Hok H8] ND Cov NR. pose proof (proj2 (proj2 W)) as N.
  destruct o; cbn [run_hop hop_ok hop_addrs] in *.
  - intros [= <- <-]. apply same8_phi, same8_load; exact N.
  - destruct (load_account_delegated d s a) as [[[s1 c] e] dc] eqn:L. intros [= <- <-].
    eapply same8_phi, same8_load_delegated; eauto.
  - intros [= <- <-]. apply same8_phi, same8_touch; exact N.
  - destruct (inc_nonce s a) as [[s1 r]|] eqn:L; [|discriminate]. intros [= <- <-].
    eapply same8_phi, same8_inc_nonce; eauto.
  - destruct (set_code s a c) as [s1|] eqn:L; [|discriminate]. intros [= <- <-].
    eapply same8_phi, same8_set_code; eauto.
  - destruct (transfer d s f t v) as [[s1 r]|] eqn:L; [|discriminate]. intros [= <- <-].
    destruct (transfer_total d s f t v s1 r us W Hok ND) as [A B]; [apply Cov; cbn; auto|apply Cov; cbn; auto|exact L|].
    unfold phi. lia.
  - destruct (create_account_checkpoint s caller addr has_storage v (spurious s)) as [[s1 r]|] eqn:L; [|discriminate].
    destruct (create_total d s caller addr has_storage v s1 r us W Hok H8 ND) as [A B];
      [apply Cov; cbn; auto|apply Cov; cbn; auto|exact L|].
    destruct r; intros [= <- <-]; unfold phi; lia.
  - destruct (sload d s a k) as [[[s1 v] c]|] eqn:L; [|discriminate]. intros [= <- <-].
    eapply same8_phi, same8_sload; eauto.
  - destruct (sstore d s a k v) as [[[[s1 o] p] c]|] eqn:L; [|discriminate]. intros [= <- <-].
    eapply same8_phi, same8_sstore; eauto.
  - intros [= <- <-]. reflexivity.
  - intros [= <- <-]. apply same8_phi, same8_tstore; exact N.
  - intros [= <- <-]. apply same8_phi, same8_log.
  - destruct (selfdestruct d s a t) as [[[[[s1 hv] te] pd] c]|] eqn:L; [|discriminate]. intros [= <- <-].
    destruct (Z.eq_dec a t) as [->|Nat].
    + destruct (selfdestruct_self_total d s t s1 hv te pd c us W ND) as [A B]; [apply Cov; cbn; auto|exact L|].
      unfold phi. lia.
    + destruct (selfdestruct_other_total d s a t s1 hv te pd c us W ND) as [A B];
        [apply Cov; cbn; auto|apply Cov; cbn; auto|exact Nat|exact L|].
      specialize (H8 Nat).
      destruct (pow256 <=? bal d s t + bal d s a) eqn:O; [apply Z.leb_le in O; lia|].
      unfold phi. lia.
  - intros [= <- <-]. apply same8_phi, same8_checkpoint.
  - destruct cps as [|cp r]; intros [= <- <-]; [reflexivity|apply same8_phi, same8_commit].
  - congruence.
Qed.

(* well-formedness is kept by every operation that closes no checkpoint *)
Lemma WF_commit d s : WF d s -> WF d (checkpoint_commit s).
Proof. intros (A & B & C). split; [exact A|]. split; [exact B|exact C]. Qed.
Lemma WF_log d s l : WF d s -> WF d (log s l).
Proof. intros (A & B & C). split; [exact A|]. split; [exact B|exact C]. Qed.

Lemma WF_hop_nopop d s cps o s' cps' :
  WF d s -> hop_ok d s o -> o <> HCommit -> o <> HRevert ->
  run_hop d (s, cps) o = Some (s', cps') -> WF d s'.
Proof.
  intros W Hok NC NR. destruct o; cbn [run_hop hop_ok] in *.
  - intros [= <- <-]. apply WF_load; exact W.
  - destruct (load_account_delegated d s a) as [[[s1 c] e] dc] eqn:L. intros [= <- <-].
    eapply WF_load_delegated; eauto.
  - intros [= <- <-]. apply WF_touch; exact W.
  - destruct (inc_nonce s a) as [[s1 r]|] eqn:L; [|discriminate]. intros [= <- <-]. eapply WF_inc_nonce; eauto.
  - destruct (set_code s a c) as [s1|] eqn:L; [|discriminate]. intros [= <- <-]. eapply WF_set_code; eauto.
  - destruct (transfer d s f t v) as [[s1 r]|] eqn:L; [|discriminate]. intros [= <- <-].
    exact (proj2 (Good_transfer d s f t v s1 r W Hok L)).
  - destruct (create_account_checkpoint s caller addr has_storage v (spurious s)) as [[s1 r]|] eqn:L; [|discriminate].
    destruct (create_spec d s caller addr has_storage v s1 r W Hok L) as (sB & G & WB & R).
    destruct r as [cp'| |].
    + destruct R as [-> ->]. intros [= <- <-]. exact WB.
    + intros [= <- <-]. exact (proj2 (proj2 (revert_after_good d s sB s1 W G WB R))).
    + intros [= <- <-]. exact (proj2 (proj2 (revert_after_good d s sB s1 W G WB R))).
  - destruct (sload d s a k) as [[[s1 v] c]|] eqn:L; [|discriminate]. intros [= <- <-]. eapply WF_sload; eauto.
  - destruct (sstore d s a k v) as [[[[s1 o] p] c]|] eqn:L; [|discriminate]. intros [= <- <-]. eapply WF_sstore; eauto.
  - intros [= <- <-]. exact W.
  - intros [= <- <-]. apply WF_tstore; exact W.
  - intros [= <- <-]. apply WF_log; exact W.
  - destruct (selfdestruct d s a t) as [[[[[s1 hv] te] pd] c]|] eqn:L; [|discriminate]. intros [= <- <-].
    exact (proj2 (Good_selfdestruct d s a t s1 hv te pd c W L)).
  - intros [= <- <-]. apply WF_checkpoint; exact W.
  - congruence.
  - congruence.
Qed.

(* how an operation that closes no checkpoint acts on the stack of open checkpoints *)
Lemma run_hop_nopop d s cps o s' cps' :
  o <> HCommit -> o <> HRevert -> run_hop d (s, cps) o = Some (s', cps') ->
  exists p, cps' = p ++ cps /\ (forall c, run_hop d (s, c) o = Some (s', p ++ c)) /\
    (p = [] \/
     (p = [cp_of s] /\ o = HCheckpoint) \/
     (exists cp c a hs v, p = [cp] /\ o = HCreate c a hs v /\
        create_account_checkpoint s c a hs v (spurious s) = Some (s', CreateOk cp))).
Proof.
  intros NC NR. destruct o; cbn [run_hop]; try congruence.
  - intros [= <- <-]. exists []. auto.
  - destruct (load_account_delegated d s a) as [[[s1 c] e] dc]. intros [= <- <-]. exists []. auto.
  - intros [= <- <-]. exists []. auto.
  - destruct (inc_nonce s a) as [[s1 r]|]; [|discriminate]. intros [= <- <-]. exists []. auto.
  - destruct (set_code s a c) as [s1|]; [|discriminate]. intros [= <- <-]. exists []. auto.
  - destruct (transfer d s f t v) as [[s1 r]|]; [|discriminate]. intros [= <- <-]. exists []. auto.
  - destruct (create_account_checkpoint s caller addr has_storage v (spurious s)) as [[s1 r]|] eqn:L; [|discriminate].
    destruct r as [cp| |]; intros [= <- <-].
    + exists [cp]. split; [reflexivity|]. split; [reflexivity|]. right. right.
      exists cp, caller, addr, has_storage, v. auto.
    + exists []. auto.
    + exists []. auto.
  - destruct (sload d s a k) as [[[s1 v] c]|]; [|discriminate]. intros [= <- <-]. exists []. auto.
  - destruct (sstore d s a k v) as [[[[s1 o] p] c]|]; [|discriminate]. intros [= <- <-]. exists []. auto.
  - intros [= <- <-]. exists []. auto.
  - intros [= <- <-]. exists []. auto.
  - intros [= <- <-]. exists []. auto.
  - destruct (selfdestruct d s a t) as [[[[[s1 hv] te] pd] c]|]; [|discriminate]. intros [= <- <-]. exists []. auto.
  - intros [= <- <-]. exists [cp_of s]. split; [reflexivity|]. split; [reflexivity|]. right. left. auto.
Qed.

(* ------------------------------------------------------------------ ghosts of the open checkpoints *)
Fixpoint GSt (d : db) (s : jstate) (pre cps : list checkpoint_t) (gs : list jstate) : Prop :=
  match cps, gs with
  | [], [] => True
  | cp :: r, g :: gr => Inv d g s pre /\ cp = cp_of g /\ journal g <> [] /\ GSt d s (pre ++ [cp]) r gr
  | _, _ => False
  end.

Lemma GSt_push d s s' o p :
  (forall c, run_hop d (s, c) o = Some (s', p ++ c)) -> hop_ok d s o ->
  forall cps gs pre, GSt d s pre cps gs -> GSt d s' (p ++ pre) cps gs.
Proof.
  intros R Hok. induction cps as [|cp r IH]; intros gs pre; destruct gs as [|g gr]; cbn [GSt]; auto.
  intros (I & E & N & G). split; [|split; [exact E|split; [exact N|]]].
  - eapply Inv_hop; [exact I|exact Hok|apply R].
  - rewrite <- app_assoc. apply IH. exact G.
Qed.

Lemma GSt_pop d s s' o cp :
  (forall c, run_hop d (s, cp :: c) o = Some (s', c)) -> hop_ok d s o ->
  forall cps gs pre, GSt d s (cp :: pre) cps gs -> GSt d s' pre cps gs.
Proof.
  intros R Hok. induction cps as [|cp2 r IH]; intros gs pre; destruct gs as [|g gr]; cbn [GSt]; auto.
  intros (I & E & N & G). split; [|split; [exact E|split; [exact N|]]].
  - eapply Inv_hop; [exact I|exact Hok|apply R].
  - apply IH. exact G.
Qed.

Lemma hop_eq_dec_commit o : {o = HCommit} + {o <> HCommit}.
Proof. destruct o; (left; reflexivity) || (right; discriminate). Qed.
Lemma hop_eq_dec_revert o : {o = HRevert} + {o <> HRevert}.
Proof. destruct o; (left; reflexivity) || (right; discriminate). Qed.

Definition I8 (d : db) (us : list Z) (s0 s : jstate) (cps : list checkpoint_t) : Prop :=
  exists gs, GSt d s [] cps gs /\ Forall (fun g => phi d us g = phi d us s0) gs /\
             phi d us s = phi d us s0 /\ WF d s.

Lemma I8_init d us s : WF d s -> I8 d us s s [].
Proof. intros W. exists []. cbn. auto. Qed.

Lemma I8_hop d us s0 s cps o s' cps' :
  NoDup us -> (forall a, In a (hop_addrs o) -> In a us) ->
  I8 d us s0 s cps -> hop_ok8 d s o -> run_hop d (s, cps) o = Some (s', cps') -> I8 d us s0 s' cps'.
Proof.
  intros ND Cov (gs & G & F & P & W) Hok8 R. pose proof (proj1 Hok8) as Hok.
  destruct (hop_eq_dec_commit o) as [->|NC].
  { (* commit *)
    cbn [run_hop] in R. destruct cps as [|cp r].
    - injection R as <- <-. exists gs. auto.
    - injection R as <- <-. destruct gs as [|g gr]; [destruct G|]. destruct G as (I & -> & N & G).
      inversion F as [|? ? Fg Fr]; subst. exists gr.
      split; [eapply (GSt_pop d s (checkpoint_commit s) HCommit (cp_of g)); [intros c; reflexivity|exact Hok|exact G] |].
      split; [exact Fr|]. split; [rewrite (same8_phi d us s _ (same8_commit d s)); exact P|apply WF_commit; exact W]. }
  destruct (hop_eq_dec_revert o) as [->|NR].
  { (* revert *)
    cbn [run_hop] in R. destruct cps as [|cp r].
    - injection R as <- <-. exists gs. auto.
    - destruct gs as [|g gr]; [destruct G|]. destruct G as (I & -> & N & G).
      inversion F as [|? ? Fg Fr]; subst.
      destruct (Inv_revert_base d g s [] I N) as (s3 & R3 & V & J & W3 & _).
      rewrite R3 in R. injection R as <- <-. exists gr.
      split; [eapply (GSt_pop d s s3 HRevert (cp_of g)); [intros c; cbn [run_hop]; rewrite R3; reflexivity|exact Hok|exact G]|].
      split; [exact Fr|]. split; [|exact W3].
      unfold phi. rewrite (total_of_cview d g s3 us V), J. exact Fg. }
  (* every other operation *)
  pose proof (phi_hop_plain d us s cps o s' cps' W Hok8 ND Cov NR R) as P'.
  pose proof (WF_hop_nopop d s cps o s' cps' W Hok NC NR R) as W'.
  destruct (run_hop_nopop d s cps o s' cps' NC NR R) as (p & -> & Rp & Hp).
  pose proof (GSt_push d s s' o p Rp Hok cps gs [] G) as G'. rewrite app_nil_r in G'.
  destruct Hp as [->|[[-> ->]|(cp & c & a & hs & v & -> & -> & L)]].
  - exists gs. split; [exact G'|]. split; [exact F|]. split; [congruence|exact W'].
  - (* checkpoint: the state before it becomes a ghost *)
    exists (s :: gs).
    assert (Es : s' = fst (checkpoint s)) by (cbn [run_hop checkpoint] in R; unfold checkpoint; cbn [fst]; congruence).
    subst s'.
    split; [cbn [GSt app]; split; [apply Inv_after_checkpoint; exact W|split; [reflexivity|split; [apply W|exact G']]]|].
    split; [constructor; [exact P|exact F]|]. split; [congruence|exact W'].
  - (* successful create: likewise *)
    destruct (create_spec d s c a hs v s' (CreateOk cp) W Hok L) as (sB & Gd & WB & -> & ->).
    exists (s :: gs).
    split; [cbn [GSt app]; split; [exact (Inv_good d s _ sB [] (Inv_after_checkpoint d s W) Gd WB)|split; [reflexivity|split; [apply W|exact G']]]|].
    split; [constructor; [exact P|exact F]|]. split; [congruence|exact W'].
Qed.

Lemma covers_cons us o r : covers us (o :: r) -> (forall a, In a (hop_addrs o) -> In a us) /\ covers us r.
Proof.
  unfold covers. cbn [hist_addrs]. intros H. split; intros a Ha; apply H; apply in_or_app; auto.
Qed.

Lemma I8_hops d us s0 h : forall s cps s' cps',
  NoDup us -> covers us h -> I8 d us s0 s cps -> contract8 d (s, cps) h ->
  run_hops d (s, cps) h = Some (s', cps') -> I8 d us s0 s' cps'.
Proof.
  induction h as [|o r IH]; intros s cps s' cps' ND Cov I C R; cbn [run_hops contract8] in *.
  - injection R as <- <-. exact I.
  - destruct C as [Hok C]. cbn [fst] in Hok. destruct (covers_cons us o r Cov) as [Co Cr].
    destruct (run_hop d (s, cps) o) as [[s1 cps1]|] eqn:E; [|discriminate].
    eapply IH; [exact ND|exact Cr|eapply I8_hop; eauto|exact C|exact R].
Qed.

(* the contract of C08 contains the contract of C06 *)
Lemma contract8_contract d h : forall sc, contract8 d sc h -> contract d sc h.
Proof.
  induction h as [|o r IH]; intros sc; cbn [contract8 contract]; [auto|].
  intros [[H _] C]. split; [exact H|]. destruct (run_hop d sc o); [apply IH; exact C|exact I].
Qed.

(* (c) every history: the total drops by exactly what the self-destructs recorded in the journal
   have burnt, where reverted burns have left the journal with their entries *)
Theorem history_conserves d us s h s' cps' :
  WF d s -> NoDup us -> covers us h -> contract8 d (s, []) h ->
  run_hops d (s, []) h = Some (s', cps') ->
  total d s' us = total d s us - (jburn (journal s') - jburn (journal s)) /\ WF d s'.
Proof.
  intros W ND Cov C R.
  destruct (I8_hops d us s h s [] s' cps' ND Cov (I8_init d us s W) C R) as (gs & _ & _ & P & W').
  split; [unfold phi in P; lia|exact W'].
Qed.

(* (a) operations that move no ether leave every observed balance as it is *)
Definition moves_no_ether (o : hop) : Prop :=
  match o with HTransfer _ _ _ | HCreate _ _ _ _ | HSelfdestruct _ _ | HRevert => False | _ => True end.

Lemma plain_hop_same8 d s cps o s' cps' :
  journal s <> [] -> moves_no_ether o -> run_hop d (s, cps) o = Some (s', cps') -> same8 d s s'.
Proof.
  intros N M. destruct o; cbn [run_hop moves_no_ether] in *; try contradiction.
  - intros [= <- <-]. apply same8_load; exact N.
  - destruct (load_account_delegated d s a) as [[[s1 c] e] dc] eqn:L. intros [= <- <-].
    eapply same8_load_delegated; eauto.
  - intros [= <- <-]. apply same8_touch; exact N.
  - destruct (inc_nonce s a) as [[s1 r]|] eqn:L; [|discriminate]. intros [= <- <-]. eapply same8_inc_nonce; eauto.
  - destruct (set_code s a c) as [s1|] eqn:L; [|discriminate]. intros [= <- <-]. eapply same8_set_code; eauto.
  - destruct (sload d s a k) as [[[s1 v] c]|] eqn:L; [|discriminate]. intros [= <- <-]. eapply same8_sload; eauto.
  - destruct (sstore d s a k v) as [[[[s1 o] p] c]|] eqn:L; [|discriminate]. intros [= <- <-]. eapply same8_sstore; eauto.
  - intros [= <- <-]. apply same8_refl.
  - intros [= <- <-]. apply same8_tstore; exact N.
  - intros [= <- <-]. apply same8_log.
  - intros [= <- <-]. apply same8_checkpoint.
  - destruct cps as [|cp r]; intros [= <- <-]; [apply same8_refl|apply same8_commit].
Qed.

(* revert, by C06: the whole observation comes back, hence every balance; the journal too, hence
   the burnt amount. Needs only the C06 contract: a wrapped self-destruct credit is undone as well. *)
Lemma revert_restores_total d us s h s1 cp s2 cps :
  WF d s -> checkpoint s = (s1, cp) -> contract d (s1, []) h -> run_hops d (s1, []) h = Some (s2, cps) ->
  exists s3, checkpoint_revert s2 cp = Some s3 /\ (forall x, bal d s3 x = bal d s x) /\
             total d s3 us = total d s us /\ jburn (journal s3) = jburn (journal s).
Proof.
  intros W CP C R.
  destruct (revert_restores d s h s1 cp s2 cps W CP C R) as (s3 & R3 & V & _ & J & _).
  exists s3. split; [exact R3|]. split; [apply bal_of_cview; exact V|].
  split; [apply total_of_cview; exact V|congruence].
Qed.
