(* Proofs for C25 (control-flow bound, termination, stack-length invariant of the frame machine). *)
From Coq Require Import ZifyBool.
From RevmV Require Import Base.Word Model.Jump Model.Gas Spec.JumpSpec Proofs.JumpProofs Gen.OpInfo Model.ControlFlow.
Local Open Scope Z_scope.

(* ---- the buffer ---------------------------------------------------------------------------- *)
Lemma code_buffer_eq code : code_buffer code = code ++ padding.
Proof. reflexivity. Qed.

Lemma code_buffer_length code : zlen (code_buffer code) = zlen code + 33.
Proof. rewrite code_buffer_eq. unfold zlen. rewrite app_length. change (length padding) with 33%nat. lia. Qed.

Lemma fetch_inside code pc :
  0 <= pc < zlen code -> fetch code pc = nth (Z.to_nat pc) code 0.
Proof.
  unfold fetch, zlen. intros H. rewrite code_buffer_eq. apply app_nth1. lia.
Qed.

Lemma fetch_padding code pc : zlen code <= pc -> fetch code pc = 0.
Proof.
  unfold fetch, zlen. intros H. rewrite code_buffer_eq. rewrite app_nth2 by lia. apply nth_padding.
Qed.

Lemma bytes_ok_nth code i : bytes_ok code -> (i < length code)%nat -> byte_ok (nth i code 0).
Proof. intros Hb Hi. apply (proj1 (Forall_nth byte_ok code) Hb i 0 Hi). Qed.

(* ---- opcode classes -------------------------------------------------------------------------- *)
Lemma legacy_imm_range op : 0 <= legacy_imm op <= 32.
Proof.
  unfold legacy_imm, advance, push_offset.
  destruct (op =? OP_JUMPDEST); [cbn; lia|].
  destruct ((op - OP_PUSH1) mod 256 <? 32) eqn:E; [|cbn; lia].
  apply Z.ltb_lt in E. assert (0 <= (op - OP_PUSH1) mod 256) by (apply Z.mod_pos_bound; lia). lia.
Qed.

Lemma class_seq_imm op imm : cf_class_of op = CSeq imm -> imm = legacy_imm op.
Proof.
  unfold cf_class_of. destruct (op_row op) as [[[[[i o] m] ne] t]|]; [|discriminate].
  destruct t; [discriminate|]. destruct (op =? OP_JUMP); [discriminate|].
  destruct (op =? OP_JUMPI); [discriminate|].
  destruct (m =? legacy_imm op) eqn:E; [|discriminate].
  intros H. inversion H. subst. apply Z.eqb_eq in E. exact E.
Qed.

Lemma class_jumpi_op op : cf_class_of op = CJumpI -> op = OP_JUMPI.
Proof.
  unfold cf_class_of. destruct (op_row op) as [[[[[i o] m] ne] t]|]; [|discriminate].
  destruct t; [discriminate|]. destruct (op =? OP_JUMP); [discriminate|].
  destruct (op =? OP_JUMPI) eqn:E; [intros _; apply Z.eqb_eq in E; exact E|].
  destruct (m =? legacy_imm op); discriminate.
Qed.

Lemma class_jump_op op : cf_class_of op = CJump -> op = OP_JUMP.
Proof.
  unfold cf_class_of. destruct (op_row op) as [[[[[i o] m] ne] t]|]; [|discriminate].
  destruct t; [discriminate|]. destruct (op =? OP_JUMP) eqn:E; [intros _; apply Z.eqb_eq in E; exact E|].
  destruct (op =? OP_JUMPI); [discriminate|]. destruct (m =? legacy_imm op); discriminate.
Qed.

(* byte 0 is STOP and STOP is terminating: read off the reflected table *)
Lemma class_zero : cf_class_of 0 = CTerm.
Proof. vm_compute. reflexivity. Qed.

(* a fetch at or beyond the original length reads 0 = STOP: the run ends *)
Lemma no_step_in_padding code pc pc' : zlen code <= pc -> ~ cf_step code pc pc'.
Proof.
  intros H Hs. assert (E := fetch_padding code pc H).
  inversion Hs; subst; rewrite E, class_zero in *; discriminate.
Qed.

(* ---- instruction starts ---------------------------------------------------------------------- *)
Lemma pushlen_le o : (pushlen o <= 32)%nat.
Proof.
  unfold pushlen. destruct ((96 <=? o) && (o <=? 127)) eqn:E; [|lia].
  apply andb_true_iff in E. destruct E as [E1 E2]. apply Z.leb_le in E1. apply Z.leb_le in E2. lia.
Qed.

Lemma IS_bound code j : InstrStart code j -> (j <= length code + 32)%nat.
Proof.
  intros H. inversion H as [|i Hi Hlen]; [lia|]. pose proof (pushlen_le (nth i code 0)). lia.
Qed.

(* every step from an instruction start inside the buffer lands on an instruction start *)
Lemma step_preserves_IS code pc pc' :
  bytes_ok code -> code_fits code ->
  0 <= pc -> InstrStart code (Z.to_nat pc) -> cf_step code pc pc' ->
  0 <= pc' /\ InstrStart code (Z.to_nat pc') /\ pc < zlen code.
Proof.
  intros Hb Hf Hpc HIS Hs.
  assert (Hin : pc < zlen code).
  { destruct (Z.lt_ge_cases pc (zlen code)) as [|Hge]; [assumption|].
    exfalso. exact (no_step_in_padding code pc pc' Hge Hs). }
  assert (Hlt : (Z.to_nat pc < length code)%nat) by (unfold zlen in Hin; lia).
  assert (Hfe : fetch code pc = nth (Z.to_nat pc) code 0) by (apply fetch_inside; lia).
  assert (Hbyte : byte_ok (nth (Z.to_nat pc) code 0)) by (apply bytes_ok_nth; assumption).
  inversion Hs as [p imm H0 Hc|p t H0 Hc Ht Hj|p t H0 Hc Ht Hj|p H0 Hc]; subst.
  - (* sequential *)
    apply class_seq_imm in Hc. subst imm. rewrite Hfe. unfold legacy_imm.
    rewrite (advance_pushlen _ Hbyte).
    split; [lia|]. split; [|assumption].
    replace (Z.to_nat (pc + 1 + Z.of_nat (pushlen (nth (Z.to_nat pc) code 0))))
      with (Z.to_nat pc + 1 + pushlen (nth (Z.to_nat pc) code 0%Z))%nat by lia.
    apply IS_next; assumption.
  - apply (jump_ok_iff code pc' Hb Hf Ht) in Hj. destruct Hj as (H1 & H2 & H3).
    split; [lia|]. split; assumption.
  - apply (jump_ok_iff code pc' Hb Hf Ht) in Hj. destruct Hj as (H1 & H2 & H3).
    split; [lia|]. split; assumption.
  - apply class_jumpi_op in Hc. rewrite Hfe in Hc.
    split; [lia|]. split; [|assumption].
    replace (Z.to_nat (pc + 1)) with (Z.to_nat pc + 1 + pushlen (nth (Z.to_nat pc) code 0%Z))%nat.
    + apply IS_next; assumption.
    + rewrite Hc. change (pushlen OP_JUMPI) with 0%nat. lia.
Qed.

Lemma reach_IS code pc :
  bytes_ok code -> code_fits code -> cf_reach code pc ->
  0 <= pc /\ InstrStart code (Z.to_nat pc).
Proof.
  intros Hb Hf H. induction H as [|pc pc' Hr IH Hs].
  - split; [lia|]. change (Z.to_nat 0) with 0%nat. constructor.
  - destruct IH as [H0 HIS].
    destruct (step_preserves_IS code pc pc' Hb Hf H0 HIS Hs) as (A & B & _). split; assumption.
Qed.

(* (a) the opcode fetch reads inside the padded buffer *)
Theorem reach_in_buffer code pc :
  bytes_ok code -> code_fits code -> cf_reach code pc ->
  0 <= pc < zlen (code_buffer code).
Proof.
  intros Hb Hf H. destruct (reach_IS code pc Hb Hf H) as [H0 HIS].
  apply IS_bound in HIS. rewrite code_buffer_length. unfold zlen. lia.
Qed.

Theorem reach_le_len32 code pc :
  bytes_ok code -> code_fits code -> cf_reach code pc -> 0 <= pc <= zlen code + 32.
Proof.
  intros Hb Hf H. destruct (reach_IS code pc Hb Hf H) as [H0 HIS].
  apply IS_bound in HIS. unfold zlen. lia.
Qed.

(* the instruction pointer is representable: pc < 2^64 *)
Theorem reach_usize code pc :
  bytes_ok code -> code_fits code -> cf_reach code pc -> 0 <= pc < pow64.
Proof.
  intros Hb Hf H. pose proof (reach_le_len32 code pc Hb Hf H). unfold code_fits in Hf. lia.
Qed.

(* (a') in the padding the fetched byte is STOP and no step follows *)
Theorem reach_padding_stops code pc :
  zlen code <= pc -> fetch code pc = 0 /\ cf_class_of (fetch code pc) = CTerm /\ forall pc', ~ cf_step code pc pc'.
Proof.
  intros H. split; [apply fetch_padding; assumption|].
  split; [rewrite fetch_padding by assumption; exact class_zero|].
  intros pc'. apply no_step_in_padding. assumption.
Qed.

(* (b) the immediate bytes of an instruction that continues lie inside the buffer *)
Theorem reach_immediate_in_buffer code pc imm :
  bytes_ok code -> code_fits code -> cf_reach code pc ->
  cf_class_of (fetch code pc) = CSeq imm ->
  0 <= imm <= 32 /\ pc < zlen code /\ pc + 1 + imm <= zlen (code_buffer code) /\
  Z.of_nat (length (push_read code pc imm)) = imm.
Proof.
  intros Hb Hf H Hc.
  destruct (reach_IS code pc Hb Hf H) as [H0 HIS].
  assert (Hs : cf_step code pc (pc + 1 + imm)) by (constructor; assumption).
  destruct (step_preserves_IS code pc _ Hb Hf H0 HIS Hs) as (_ & _ & Hin).
  pose proof (class_seq_imm _ _ Hc) as E. pose proof (legacy_imm_range (fetch code pc)) as R.
  rewrite <- E in R. rewrite code_buffer_length.
  split; [lia|]. split; [lia|]. split; [lia|].
  unfold push_read. rewrite firstn_length, skipn_length.
  pose proof (code_buffer_length code) as L. unfold zlen in *. lia.
Qed.

(* (c) a step is sequential or lands on a JUMPDEST of the original code that is an instruction start *)
Theorem step_targets code pc pc' :
  bytes_ok code -> code_fits code -> cf_reach code pc -> cf_step code pc pc' ->
  pc' = pc + 1 + legacy_imm (fetch code pc) \/
  (0 <= pc' < zlen code /\ fetch code pc' = 0x5b /\ InstrStart code (Z.to_nat pc')).
Proof.
  intros Hb Hf H Hs.
  inversion Hs as [p imm H0 Hc|p t H0 Hc Ht Hj|p t H0 Hc Ht Hj|p H0 Hc]; subst.
  - left. apply class_seq_imm in Hc. subst. reflexivity.
  - right. apply (jump_ok_iff code pc' Hb Hf Ht) in Hj. destruct Hj as (H1 & H2 & H3).
    split; [unfold zlen; lia|]. split; [|assumption]. rewrite fetch_inside by (unfold zlen; lia). assumption.
  - right. apply (jump_ok_iff code pc' Hb Hf Ht) in Hj. destruct Hj as (H1 & H2 & H3).
    split; [unfold zlen; lia|]. split; [|assumption]. rewrite fetch_inside by (unfold zlen; lia). assumption.
  - left. apply class_jumpi_op in Hc. rewrite Hc. change (legacy_imm OP_JUMPI) with 0. lia.
Qed.

(* ---- the executable successor check is the relation -------------------------------------------- *)
Lemma cf_succ_ok_spec code pc pc' :
  pc' < pow256 -> (cf_succ_ok code pc pc' = true <-> cf_step code pc pc').
Proof.
  intros Hlt. unfold cf_succ_ok. split.
  - intros H. apply andb_true_iff in H. destruct H as [H0 H]. apply Z.leb_le in H0.
    destruct (cf_class_of (fetch code pc)) eqn:Hc; try discriminate.
    + apply andb_true_iff in H. destruct H as [H1 H2]. apply Z.leb_le in H1.
      apply S_jump; try assumption. lia.
    + apply orb_true_iff in H. destruct H as [H|H].
      * apply Z.eqb_eq in H. subst. apply S_jumpi_fall; assumption.
      * apply andb_true_iff in H. destruct H as [H1 H2]. apply Z.leb_le in H1.
        apply S_jumpi_taken; try assumption. lia.
    + apply Z.eqb_eq in H. subst. apply S_seq; assumption.
  - intros Hs. inversion Hs as [p imm H0 Hc|p t H0 Hc Ht Hj|p t H0 Hc Ht Hj|p H0 Hc]; subst;
      rewrite Hc; apply andb_true_iff; (split; [apply Z.leb_le; assumption|]).
    + apply Z.eqb_refl.
    + apply andb_true_iff. split; [apply Z.leb_le; lia|assumption].
    + apply orb_true_iff. right. apply andb_true_iff. split; [apply Z.leb_le; lia|assumption].
    + apply orb_true_iff. left. apply Z.eqb_refl.
Qed.

(* an accepted trace consists of reachable program counters *)
Lemma cf_trace_from_reach code pc rest :
  Forall (fun p => p < pow256) rest ->
  cf_reach code pc -> cf_trace_from code pc rest = true -> Forall (cf_reach code) rest.
Proof.
  revert pc. induction rest as [|p r IH]; intros pc Hb Hr H; [constructor|].
  cbn [cf_trace_from] in H. apply andb_true_iff in H. destruct H as [H1 H2].
  inversion Hb as [|x l Hp Hr']; subst.
  apply (cf_succ_ok_spec code pc p Hp) in H1.
  assert (Hrp : cf_reach code p) by (eapply R_step; eassumption).
  constructor; [assumption|]. apply (IH p); assumption.
Qed.

Lemma cf_trace_ok_reach code pcs :
  Forall (fun p => p < pow256) pcs -> cf_trace_ok code pcs = true -> Forall (cf_reach code) pcs.
Proof.
  destruct pcs as [|p r]; intros Hb H; [constructor|].
  cbn [cf_trace_ok] in H. apply andb_true_iff in H. destruct H as [H1 H2]. apply Z.eqb_eq in H1. subst p.
  inversion Hb; subst.
  constructor; [constructor|]. apply (cf_trace_from_reach code 0); try assumption. constructor.
Qed.

(* ---- the frame machine ------------------------------------------------------------------------- *)
Definition lb_pos (lb : Z -> option Z) : Prop := forall op m, lb op = Some m -> 1 <= m.

Definition cfg_inv (code : list Z) (s : cfg) : Prop :=
  cf_reach code (c_pc s) /\ 0 <= remaining (c_gas s) /\ 0 <= c_slen s <= STACK_LIMIT.

Lemma stack_effect_range i o len len' :
  0 <= i -> 0 <= o -> 0 <= len <= STACK_LIMIT -> stack_effect i o len = Some len' ->
  0 <= len' <= STACK_LIMIT /\ i <= len /\ len' = len - i + o.
Proof.
  unfold stack_effect. intros Hi Ho Hl H.
  destruct (len <? i) eqn:E1; [discriminate|]. destruct (STACK_LIMIT <? len - i + o) eqn:E2; [discriminate|].
  inversion H. subst. lia.
Qed.

(* reflected facts: inputs and outputs are non-negative *)
Lemma op_io_nonneg op : 0 <= op_inputs op /\ 0 <= op_outputs op.
Proof.
  unfold op_inputs, op_outputs, op_row.
  destruct ((0 <=? op) && (op <? 256)) eqn:E; [|cbn; lia].
  assert (H : forallb (fun r => match r with Some (i, o, _, _, _) => (0 <=? i) && (0 <=? o) | None => true end)
                      op_info_table = true) by (vm_compute; reflexivity).
  rewrite forallb_forall in H.
  destruct (nth_in_or_default (Z.to_nat op) op_info_table None) as [Hin|Hd].
  - specialize (H _ Hin). destruct (nth (Z.to_nat op) op_info_table None) as [[[[[i o] m] ne] t]|]; [|lia].
    apply andb_true_iff in H. destruct H as [H1 H2]. apply Z.leb_le in H1. apply Z.leb_le in H2. lia.
  - rewrite Hd. lia.
Qed.

Lemma m_step_inv lb code s s' :
  lb_pos lb -> cfg_inv code s -> m_step lb code s s' ->
  cfg_inv code s' /\ remaining (c_gas s') <= remaining (c_gas s) - 1 /\ limit (c_gas s') = limit (c_gas s).
Proof.
  intros Hlb (Hr & Hg & Hsl) Hs. inversion Hs as [s0 pc' m cost g' sl' Hcf Hm Hle Hrc Hse]; subst.
  apply Hlb in Hm. unfold record_cost in Hrc.
  destruct (cost <=? remaining (c_gas s)) eqn:E; [|inversion Hrc].
  apply Z.leb_le in E. inversion Hrc. subst g'. unfold cfg_inv. cbn [c_pc c_gas c_slen remaining limit].
  destruct (op_io_nonneg (fetch code (c_pc s))) as [Hi Ho].
  destruct (stack_effect_range _ _ _ _ Hi Ho Hsl Hse) as (A & _ & _).
  split; [|split; [clear - Hm Hle; lia|reflexivity]].
  split; [eapply R_step; eassumption|]. split; [clear - E; lia|exact A].
Qed.

(* (d) n continuing steps cost at least n gas: a frame with gas g performs at most g continuing
   steps, i.e. at most g + 1 opcode fetches *)
Theorem m_run_bound lb code n s s' :
  lb_pos lb -> cfg_inv code s -> m_run lb code n s s' ->
  cfg_inv code s' /\ remaining (c_gas s') + Z.of_nat n <= remaining (c_gas s) /\
  limit (c_gas s') = limit (c_gas s).
Proof.
  intros Hlb Hinv H. induction H as [s|n s s1 s2 Hs Hr IH].
  - split; [assumption|]. split; [lia|reflexivity].
  - destruct (m_step_inv lb code s s1 Hlb Hinv Hs) as (I1 & G1 & L1).
    destruct (IH I1) as (I2 & G2 & L2). split; [assumption|]. split; [lia|congruence].
Qed.

Lemma cfg_init_inv code g : 0 <= g -> cfg_inv code (cfg_init g).
Proof.
  intros H. unfold cfg_inv, cfg_init. cbn [c_pc c_gas c_slen gas_new remaining].
  split; [constructor|]. unfold STACK_LIMIT. lia.
Qed.

Theorem m_run_from_init lb code n g s' :
  lb_pos lb -> 0 <= g -> m_run lb code n (cfg_init g) s' ->
  Z.of_nat n <= g /\ cf_reach code (c_pc s') /\ 0 <= remaining (c_gas s') <= g - Z.of_nat n /\
  0 <= c_slen s' <= STACK_LIMIT.
Proof.
  intros Hlb Hg H.
  destruct (m_run_bound lb code n _ s' Hlb (cfg_init_inv code g Hg) H) as ((A & B & C) & D & _).
  cbn [cfg_init c_gas gas_new remaining] in D. repeat split; try assumption; lia.
Qed.
