(* C02 main theorems: the validation pipeline accepts exactly the transactions that satisfy
   Spec.valid; a rejection leaves the instance as it was. Stage lemmas: Proofs/EnvelopeProofs.v *)
From RevmV Require Import Base.Word Model.Envelope Spec.ValidSpec Model.TypedTx Proofs.EnvelopeProofs.
Local Open Scope Z_scope.

(* ------------------------------------------------------------------ fee rule: the wrapping sum *)
(* effective_gas_price computes min(max_fee, (basefee + priority) mod 2^256). When the sum wraps,
   the code answers GasPriceLessThanBasefee although max_fee >= basefee; such a transaction is
   invalid anyway: max_fee >= 2^255 and gas_limit >= 21000 exceed every balance. *)
Lemma fee_model_of_valid spec c b t s :
  wf_block b -> wf_tx t -> wf_sender s ->
  Spec.fee_ok (ctx_of spec c b s) t -> Spec.gas_limit_ok (ctx_of spec c b s) t ->
  Spec.sender_ok (ctx_of spec c b s) t ->
  fee_model spec c b t.
Proof.
  intros (_ & Wbf & _) WT (_ & Wbal) FO GO SO. pose proof (intrinsic_ge_21000 spec t WT) as I21.
  destruct WT as (_ & Wg & Wv & _ & Wf & Wp & _ & _ & Wm).
  unfold fee_model. intros HL. unfold Spec.fee_ok in FO.
  replace (Spec.fork (ctx_of spec c b s)) with spec in * by reflexivity.
  replace (Spec.base_fee (ctx_of spec c b s)) with (b_basefee b) in * by reflexivity.
  unfold LONDON in HL. unfold Spec.LONDON in FO. destruct (FO HL) as [FB FP]. split; [exact FP|].
  unfold effective_gas_price. cbn [e_tx e_block].
  replace (tx_gas_priority_fee (to_tx_env t)) with (Spec.priority_of t) by reflexivity.
  replace (tx_gas_price (to_tx_env t)) with (Spec.max_fee_of t) by reflexivity.
  destruct (Spec.priority_of t) as [p|]; [|exact FB].
  destruct (Z_lt_le_dec (b_basefee b + p) pow256) as [NW|WR].
  - unfold wrap256. rewrite Z.mod_small by (unfold_pows; lia). unfold_pows. lia.
  - exfalso. destruct GO as (_ & GI & _). destruct SO as (_ & _ & _ & MC).
    replace (Spec.fork (ctx_of spec c b s)) with spec in * by reflexivity.
    replace (Spec.sender_balance (ctx_of spec c b s)) with (s_balance s) in * by reflexivity.
    unfold Spec.max_cost in MC.
    assert (0 <= Spec.max_blob_fee t).
    { destruct t; cbn [Spec.max_blob_fee]; try lia. unfold Spec.blob_gas.
      apply Z.mul_nonneg_nonneg; unfold_pows; lia. }
    assert (pow255 <= Spec.max_fee_of t) by (unfold_pows; lia).
    assert (21000 * pow255 <= Spec.gas_limit (Spec.common_of t) * Spec.max_fee_of t).
    { apply Z.mul_le_mono_nonneg; unfold_pows; lia. }
    unfold_pows. lia.
Qed.

Lemma fee_ok_of_model spec c b t s :
  wf_block b -> wf_tx t -> fee_model spec c b t -> Spec.fee_ok (ctx_of spec c b s) t.
Proof.
  intros (_ & Wbf & _) WT FM. unfold Spec.fee_ok.
  replace (Spec.fork (ctx_of spec c b s)) with spec by reflexivity.
  replace (Spec.base_fee (ctx_of spec c b s)) with (b_basefee b) by reflexivity.
  unfold Spec.LONDON. intros HL. destruct (FM HL) as [FP FE]. split; [|exact FP].
  unfold effective_gas_price in FE. cbn [e_tx e_block] in FE.
  replace (tx_gas_priority_fee (to_tx_env t)) with (Spec.priority_of t) in FE by reflexivity.
  replace (tx_gas_price (to_tx_env t)) with (Spec.max_fee_of t) in FE by reflexivity.
  destruct (Spec.priority_of t); lia.
Qed.

(* ------------------------------------------------------------------ main equivalence *)
Theorem preverify_ok_iff_valid spec c b t s :
  wf_cfg c -> wf_block b -> wf_tx t -> wf_sender s -> in_domain spec t ->
  (preverify spec (mkEnv c b (to_tx_env t)) s = VOk <-> Spec.valid (ctx_of spec c b s) t).
Proof.
  intros WC WB WT WS DOM.
  pose proof (stage_block spec c b t s) as SB.
  pose proof (stage_tx spec c b t s WC WT WB) as ST.
  pose proof (stage_gas spec c b t WT) as SG.
  pose proof (stage_sender spec c b t s WC WT WS) as SS.
  unfold preverify, validate_env, Spec.valid.
  set (e := mkEnv c b (to_tx_env t)) in *. set (x := ctx_of spec c b s) in *.
  assert (BC : Spec.blob_ok x t -> match t with Spec.Eip4844 _ _ _ _ _ _ _ => CANCUN <= spec | _ => True end).
  { unfold Spec.blob_ok. destruct t; tauto. }
  unfold Spec.gas_limit_ok.
  replace (Spec.block_gas_limit x) with (b_gas_limit b) by reflexivity.
  replace (Spec.fork x) with spec by reflexivity.
  split.
  - intros H.
    destruct (validate_block_env spec e) eqn:VB; [discriminate H|].
    destruct (validate_tx spec e) eqn:VT; try discriminate H.
    destruct (validate_initial_tx_gas spec e) eqn:VG; [discriminate H|].
    destruct (validate_tx_against_state spec e s) as [er|bal] eqn:VS; [discriminate H|].
    assert (BO : Spec.block_ok x) by (apply SB; reflexivity).
    destruct (proj1 (ST BO DOM) eq_refl) as (A1 & A2 & A3 & A4 & A5 & A6 & A7 & A8).
    destruct (proj1 SG eq_refl) as (G1 & G2).
    assert (SO : Spec.sender_ok x t) by (apply (SS (BC A7)); exists bal; reflexivity).
    exact (conj BO (conj A1 (conj (conj A2 (conj G1 G2)) (conj A3 (conj A4
      (conj (fee_ok_of_model spec c b t s WB WT A5) (conj A6 (conj A7 (conj A8 SO))))))))).
  - intros (V1 & V2 & (V3a & V3b & V3c) & V4 & V5 & V6 & V7 & V8 & V9 & V10).
    rewrite (proj2 SB V1).
    assert (FM : fee_model spec c b t).
    { apply (fee_model_of_valid spec c b t s); try assumption. unfold Spec.gas_limit_ok. auto. }
    rewrite (proj2 (ST V1 DOM) (conj V2 (conj V3a (conj V4 (conj V5 (conj FM (conj V7 (conj V8 V9)))))))).
    rewrite (proj2 SG (conj V3b V3c)).
    destruct (proj2 (SS (BC V8)) V10) as [bal Hb]. rewrite Hb. reflexivity.
Qed.

Corollary preverify_rejects_iff_invalid spec c b t s :
  wf_cfg c -> wf_block b -> wf_tx t -> wf_sender s -> in_domain spec t ->
  (preverify spec (mkEnv c b (to_tx_env t)) s <> VOk <-> ~ Spec.valid (ctx_of spec c b s) t).
Proof. intros. pose proof (preverify_ok_iff_valid spec c b t s) as P. tauto. Qed.

(* ------------------------------------------------------------------ no `expect` fires *)
(* validate_tx's `.expect("already checked")` on the blob gas price cannot fire behind
   validate_block_env, for every (also untyped) environment *)
Lemma validate_env_no_panic spec e : validate_env spec e <> VPanic.
Proof.
  unfold validate_env. destruct (validate_block_env spec e) eqn:VB; [discriminate|].
  unfold validate_block_env in VB.
  destruct (enabled spec MERGE && negb (b_prevrandao_set (e_block e))); [discriminate VB|].
  unfold validate_tx.
  destruct (b_blob_gasprice (e_block e)) eqn:BP.
  - repeat match goal with
      | |- context [if ?c then _ else _] =>
          lazymatch c with context [if _ then _ else _] => fail | context [match _ with _ => _ end] => fail
                         | _ => destruct c end
      | |- context [match ?c with Some _ => _ | None => _ end] =>
          lazymatch c with context [if _ then _ else _] => fail | context [match _ with _ => _ end] => fail
                         | _ => destruct c end
      end; discriminate.
  - destruct (enabled spec CANCUN) eqn:EC; [discriminate VB|]. cbn [negb andb].
    repeat match goal with
      | |- context [if ?c then _ else _] =>
          lazymatch c with context [if _ then _ else _] => fail | context [match _ with _ => _ end] => fail
                         | _ => destruct c eqn:? end
      | |- context [match ?c with Some _ => _ | None => _ end] =>
          lazymatch c with context [if _ then _ else _] => fail | context [match _ with _ => _ end] => fail
                         | _ => destruct c eqn:? end
      end; try discriminate;
    cbn [is_some is_nil orb negb] in *; try discriminate.
Qed.
Lemma preverify_no_panic spec e a : preverify spec e a <> VPanic.
Proof.
  unfold preverify. pose proof (validate_env_no_panic spec e).
  destruct (validate_env spec e); try assumption; try discriminate.
  destruct (validate_initial_tx_gas spec e); [discriminate|].
  destruct (validate_tx_against_state spec e a); discriminate.
Qed.

(* ------------------------------------------------------------------ a rejection has no effect *)
Section Reject.
  Variable D : Type.
  Variable db_basic : D -> Z -> D * option sender.
  Variable db_code_by_hash : D -> Z -> D.
  Notation inst := (inst D).
  Notation transact_validate := (transact_validate D db_basic db_code_by_hash).

  Lemma clear_idle (i : inst) : idle D (clear D i).
  Proof. split; reflexivity. Qed.
  (* Evm::builder().build(): JournaledState::new(LATEST, {}), error Ok *)
  Lemma fresh_idle (d : D) : idle D (mkInst D (js_new 255) false d []).
  Proof. split; reflexivity. Qed.

  Theorem reject_no_effect spec e caller (i i' : inst) o :
    idle D i ->
    transact_validate spec e caller i = inl (i', o) ->
    o <> VOk /\
    i_js D i' = i_js D i /\ i_error D i' = i_error D i /\
    (exists reads, i_calls D i' = reads ++ i_calls D i /\ only_reads reads /\
                   Forall (fun cl => cl = DbBasic caller \/ cl = DbCodeByHash caller) reads) /\
    (i_db D i' = i_db D i \/
     i_db D i' = fst (db_basic (i_db D i) caller) \/
     i_db D i' = db_code_by_hash (fst (db_basic (i_db D i) caller)) caller).
  Proof.
    intros [IJ IE] H. unfold transact_validate, Envelope.transact_validate in H.
    assert (CL : i_js D (clear D i) = i_js D i).
    { unfold clear. cbn [i_js]. unfold js_clear. symmetry. exact IJ. }
    assert (NOREAD : forall o', o' <> VOk ->
              o' <> VOk /\ i_js D (clear D i) = i_js D i /\ i_error D (clear D i) = i_error D i /\
              (exists reads, i_calls D (clear D i) = reads ++ i_calls D i /\ only_reads reads /\
                   Forall (fun cl => cl = DbBasic caller \/ cl = DbCodeByHash caller) reads) /\
              (i_db D (clear D i) = i_db D i \/
               i_db D (clear D i) = fst (db_basic (i_db D i) caller) \/
               i_db D (clear D i) = db_code_by_hash (fst (db_basic (i_db D i) caller)) caller)).
    { intros o' Ho. split; [exact Ho|]. split; [exact CL|]. split; [cbn; congruence|].
      split; [exists []; repeat split; constructor | left; reflexivity]. }
    destruct (validate_env spec e) eqn:VE;
      try (injection H as <- <-; apply NOREAD; discriminate).
    destruct (validate_initial_tx_gas spec e) eqn:VG;
      [injection H as <- <-; apply NOREAD; discriminate|].
    unfold load_code in H. rewrite IJ in H. cbn [js_state lookup js_new] in H.
    destruct (db_basic (i_db D i) caller) as [d1 oa] eqn:DB.
    set (a := match oa with Some a => a | None => not_existing end) in *.
    cbn [js_warm js_journal existsb negb push_journal rev app js_logs js_transient js_depth js_spec] in H.
    destruct (s_code a) eqn:SC;
      (destruct (validate_tx_against_state spec e a) eqn:VS; [|discriminate H]);
      injection H as <- <-; (split; [discriminate|]);
      unfold clear; cbn [i_js i_error i_db i_calls js_clear js_spec];
      (split; [symmetry; exact IJ|]); (split; [symmetry; exact IE|]); cbn [fst].
    - split; [exists [DbBasic caller]; split; [reflexivity|]; split;
               [constructor; [discriminate|constructor] | constructor; [left; reflexivity|constructor]]
             | right; left; reflexivity].
    - split; [exists [DbCodeByHash caller; DbBasic caller]; split; [reflexivity|]; split;
               [constructor; [discriminate|constructor; [discriminate|constructor]]
               |constructor; [right; reflexivity|constructor; [left; reflexivity|constructor]]]
             | right; right; reflexivity].
    - split; [exists [DbCodeByHash caller; DbBasic caller]; split; [reflexivity|]; split;
               [constructor; [discriminate|constructor; [discriminate|constructor]]
               |constructor; [right; reflexivity|constructor; [left; reflexivity|constructor]]]
             | right; right; reflexivity].
  Qed.

  (* with a database whose reads do not change it (a DatabaseRef, or a cache up to its cached
     reads) the instance after a rejected transaction is the instance before it *)
  Corollary reject_identity spec e caller (i i' : inst) o :
    (forall d a, fst (db_basic d a) = d) -> (forall d a, db_code_by_hash d a = d) ->
    idle D i -> transact_validate spec e caller i = inl (i', o) ->
    i_js D i' = i_js D i /\ i_error D i' = i_error D i /\ i_db D i' = i_db D i.
  Proof.
    intros P1 P2 I H. destruct (reject_no_effect spec e caller i i' o I H) as (_ & A & B & _ & C).
    split; [exact A|]. split; [exact B|]. rewrite P2, P1 in C. tauto.
  Qed.

  (* the decision of transact is the decision of preverify on the account the database holds *)
  Lemma transact_validate_decision spec e caller (i : inst) :
    idle D i ->
    let a := match snd (db_basic (i_db D i) caller) with Some a => a | None => not_existing end in
    match transact_validate spec e caller i with
    | inl (_, o) => preverify spec e a = o
    | inr _ => preverify spec e a = VOk
    end.
  Proof.
    intros [IJ IE] a. unfold transact_validate, Envelope.transact_validate, preverify.
    destruct (validate_env spec e); try reflexivity.
    destruct (validate_initial_tx_gas spec e); [reflexivity|].
    unfold load_code. rewrite IJ. cbn [js_state lookup js_new].
    destruct (db_basic (i_db D i) caller) as [d1 oa] eqn:DB. cbn [snd] in a.
    fold a. destruct (s_code a); destruct (validate_tx_against_state spec e a); reflexivity.
  Qed.
End Reject.
