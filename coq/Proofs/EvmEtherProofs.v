(* C08 composed with the reference interpreter (Model/Step.v, Model/Evm.v): the executions of
   the (create-free) interpreter are inside the C08 contract, hence conserve ether.

   Proofs/EvmHistoryProofs.v shows that a frame run by [exec_nc] acts on the journaled state as a
   well-bracketed history h of operations with [Forall okhop h].  The C08 contract (contract8,
   Proofs/EtherHist.v) asks in addition, at every self-destruct a -> t with a <> t, that the
   credit does not wrap: bal t + bal a < 2^256 (finding F13).  That is a property of the states
   the history runs through; it is derived here from one hypothesis on the state the frame starts
   from: the ether supply is below 2^256,
       SB d s  :=  forall duplicate-free us, total d s us < 2^256.
   SB is an invariant of every operation inside the contract (the total never grows), and of
   reverts (which restore the observation of a state that satisfied it). *)
From Coq Require Import FunctionalExtensionality Lia.
From RevmV Require Import Base.Word Model.Gas Model.Envelope Model.Settlement Proofs.SettlementProofs.
From RevmV Require Import Model.Host Model.Ether Proofs.HostView Proofs.HostUndo Proofs.HostGood
  Proofs.HostOps Proofs.HostOps2 Proofs.HostOps3 Proofs.HostOps4 Proofs.HostRevert Proofs.HostMain
  Proofs.FramesProofs Proofs.EtherProofs Proofs.EtherOps Proofs.EtherHist Proofs.EtherFrames Proofs.EtherTx.
From RevmV Require Import Model.Step Model.Evm Proofs.EvmHistoryProofs.
Local Open Scope Z_scope.

(* ------------------------------------------------------------------ sums over address lists *)
Lemma sumf_app f l1 l2 : sumf f (l1 ++ l2) = sumf f l1 + sumf f l2.
Proof. induction l1 as [|x r IH]; cbn [app sumf]; [reflexivity|rewrite IH; lia]. Qed.

Lemma sumf_nonneg f l : (forall a, 0 <= f a) -> 0 <= sumf f l.
Proof. intros H. induction l as [|x r IH]; cbn [sumf]; [lia|specialize (H x); lia]. Qed.

(* a duplicate-free list whose members lie in us' or carry nothing sums to at most us' *)
Lemma sumf_incl f : (forall a, 0 <= f a) ->
  forall us us', NoDup us -> (forall a, In a us -> In a us' \/ f a = 0) -> sumf f us <= sumf f us'.
Proof.
  intros Hf. induction us as [|x r IH]; intros us' ND Hin; cbn [sumf].
  - apply sumf_nonneg; exact Hf.
  - inversion ND as [|? ? Nx Nr]; subst.
    destruct (Hin x (or_introl eq_refl)) as [Ix|Zx].
    + destruct (in_split x us' Ix) as (l1 & l2 & ->).
      rewrite sumf_app. cbn [sumf].
      assert (sumf f r <= sumf f (l1 ++ l2)).
      { apply IH; [exact Nr|]. intros a Ha. destruct (Hin a (or_intror Ha)) as [Ia|Za]; [left|right; exact Za].
        apply in_app_or in Ia. apply in_or_app. destruct Ia as [Ia|[->|Ia]]; auto. contradiction. }
      rewrite sumf_app in H. lia.
    + rewrite Zx. transitivity (sumf f r); [lia|].
      apply IH; [exact Nr|]. intros a Ha. apply Hin. right. exact Ha.
Qed.

Lemma NoDup_app_intro (l1 l2 : list Z) :
  NoDup l1 -> NoDup l2 -> (forall a, In a l1 -> ~ In a l2) -> NoDup (l1 ++ l2).
Proof.
  induction l1 as [|x r IH]; intros N1 N2 D; cbn [app]; [exact N2|].
  inversion N1 as [|? ? Nx Nr]; subst. constructor.
  - intros H. apply in_app_or in H. destruct H as [H|H]; [contradiction|]. exact (D x (or_introl eq_refl) H).
  - apply IH; [exact Nr|exact N2|]. intros a Ha. apply D. right. exact Ha.
Qed.

(* a duplicate-free list that extends us by the members of A *)
Definition extend (us A : list Z) : list Z :=
  us ++ filter (fun a => negb (existsb (Z.eqb a) us)) (nodup Z.eq_dec A).

Lemma existsb_eqb_In a us : existsb (Z.eqb a) us = true <-> In a us.
Proof.
  rewrite existsb_exists. split.
  - intros (x & Hx & E). apply Z.eqb_eq in E. subst. exact Hx.
  - intros H. exists a. split; [exact H|apply Z.eqb_refl].
Qed.

Lemma extend_NoDup us A : NoDup us -> NoDup (extend us A).
Proof.
  intros N. apply NoDup_app_intro; [exact N|apply NoDup_filter, NoDup_nodup|].
  intros a Ha Hf. apply filter_In in Hf. destruct Hf as [_ Hf].
  apply (proj2 (existsb_eqb_In a us)) in Ha. rewrite Ha in Hf. discriminate.
Qed.

Lemma extend_incl_l us A a : In a us -> In a (extend us A).
Proof. intros H. apply in_or_app. left. exact H. Qed.

Lemma extend_incl_r us A a : In a A -> In a (extend us A).
Proof.
  intros H. unfold extend. apply in_or_app.
  destruct (existsb (Z.eqb a) us) eqn:E; [left; apply existsb_eqb_In; exact E|right].
  apply filter_In. split; [apply nodup_In; exact H|rewrite E; reflexivity].
Qed.

Lemma extend_new us A a : In a (filter (fun a => negb (existsb (Z.eqb a) us)) (nodup Z.eq_dec A)) -> ~ In a us.
Proof.
  intros Hf Ha. apply filter_In in Hf. destruct Hf as [_ Hf].
  apply (proj2 (existsb_eqb_In a us)) in Ha. rewrite Ha in Hf. discriminate.
Qed.

(* ------------------------------------------------------------------ the supply bound *)
Definition SB (d : db) (s : jstate) : Prop := forall us, NoDup us -> total d s us < pow256.

Lemma SB_ext d s s' : (forall x, bal d s' x = bal d s x) -> SB d s -> SB d s'.
Proof. intros H B us N. rewrite (total_ext d s s' us H). apply B; exact N. Qed.

Lemma bal_nonneg d s : WF d s -> forall a, 0 <= bal d s a.
Proof. intros W a. pose proof (bal_range d s a W) as R. unfold in_u256 in R. lia. Qed.

(* under the supply bound no two distinct balances overflow together *)
Lemma SB_pair d s a t : WF d s -> SB d s -> a <> t -> bal d s t + bal d s a < pow256.
Proof.
  intros W B N.
  assert (ND : NoDup [t; a]).
  { constructor; [intros [H|[]]; congruence|]. constructor; [intros []|constructor]. }
  specialize (B [t; a] ND). unfold total in B. cbn [sumf] in B. lia.
Qed.

(* finitely many funded accounts whose balances sum to less than 2^256 *)
Lemma SB_support d s L :
  (forall a, 0 <= bal d s a) -> (forall a, ~ In a L -> bal d s a = 0) -> total d s L < pow256 -> SB d s.
Proof.
  intros Hn Hz HL us N. unfold total in *.
  assert (sumf (bal d s) us <= sumf (bal d s) L); [|lia].
  apply sumf_incl; [exact Hn|exact N|]. intros a _.
  destruct (in_dec Z.eq_dec a L) as [I|NI]; [left; exact I|right; apply Hz; exact NI].
Qed.

(* ------------------------------------------------------------------ the effect of one operation *)
(* every operation other than revert takes x >= 0 wei out of the total and records x as burnt *)
Lemma same8_effect d us s s' :
  same8 d s s' -> exists x, 0 <= x /\ total d s' us = total d s us - x /\ jburn (journal s') = jburn (journal s) + x.
Proof. intros S. exists 0. rewrite (same8_total d s s' us S). destruct S as [_ ->]. lia. Qed.

Lemma hop_effect d us s cps o s' cps' :
  WF d s -> hop_ok8 d s o -> NoDup us -> (forall a, In a (hop_addrs o) -> In a us) ->
  o <> HRevert -> run_hop d (s, cps) o = Some (s', cps') ->
  exists x, 0 <= x /\ total d s' us = total d s us - x /\ jburn (journal s') = jburn (journal s) + x.
Proof.
  intros W [Hok H8] ND Cov NR. pose proof (proj2 (proj2 W)) as N.
  destruct o; cbn [run_hop hop_ok hop_addrs] in *.
  - intros [= <- <-]. apply same8_effect, same8_load; exact N.
  - destruct (load_account_delegated d s a) as [[[s1 c] e] dc] eqn:L. intros [= <- <-].
    eapply same8_effect, same8_load_delegated; eauto.
  - intros [= <- <-]. apply same8_effect, same8_touch; exact N.
  - destruct (inc_nonce s a) as [[s1 r]|] eqn:L; [|discriminate]. intros [= <- <-].
    eapply same8_effect, same8_inc_nonce; eauto.
  - destruct (set_code s a c) as [s1|] eqn:L; [|discriminate]. intros [= <- <-].
    eapply same8_effect, same8_set_code; eauto.
  - destruct (transfer d s f t v) as [[s1 r]|] eqn:L; [|discriminate]. intros [= <- <-].
    destruct (transfer_total d s f t v s1 r us W Hok ND) as [A B]; [apply Cov; cbn; auto|apply Cov; cbn; auto|exact L|].
    exists 0. lia.
  - destruct (create_account_checkpoint s caller addr has_storage v (spurious s)) as [[s1 r]|] eqn:L; [|discriminate].
    destruct (create_total d s caller addr has_storage v s1 r us W Hok H8 ND) as [A B];
      [apply Cov; cbn; auto|apply Cov; cbn; auto|exact L|].
    destruct r; intros [= <- <-]; exists 0; lia.
  - destruct (sload d s a k) as [[[s1 v] c]|] eqn:L; [|discriminate]. intros [= <- <-].
    eapply same8_effect, same8_sload; eauto.
  - destruct (sstore d s a k v) as [[[[s1 o] p] c]|] eqn:L; [|discriminate]. intros [= <- <-].
    eapply same8_effect, same8_sstore; eauto.
  - intros [= <- <-]. apply same8_effect, same8_refl.
  - intros [= <- <-]. apply same8_effect, same8_tstore; exact N.
  - intros [= <- <-]. apply same8_effect, same8_log.
  - destruct (selfdestruct d s a t) as [[[[[s1 hv] te] pd] c]|] eqn:L; [|discriminate]. intros [= <- <-].
    destruct (Z.eq_dec a t) as [->|Nat].
    + destruct (selfdestruct_self_total d s t s1 hv te pd c us W ND) as [A B]; [apply Cov; cbn; auto|exact L|].
      exists (if sd_deletes s t then bal d s t else 0).
      split; [destruct (sd_deletes s t); [apply bal_nonneg; exact W|lia]|]. split; assumption.
    + destruct (selfdestruct_other_total d s a t s1 hv te pd c us W ND) as [A B];
        [apply Cov; cbn; auto|apply Cov; cbn; auto|exact Nat|exact L|].
      specialize (H8 Nat).
      destruct (pow256 <=? bal d s t + bal d s a) eqn:O; [apply Z.leb_le in O; lia|].
      exists 0. lia.
  - intros [= <- <-]. apply same8_effect, same8_checkpoint.
  - destruct cps as [|cp r]; intros [= <- <-]; [apply same8_effect, same8_refl|apply same8_effect, same8_commit].
  - congruence.
Qed.

(* the supply bound is kept by every operation inside the C08 contract other than revert *)
Lemma SB_hop d s cps o s' cps' :
  WF d s -> WF d s' -> hop_ok8 d s o -> o <> HRevert -> run_hop d (s, cps) o = Some (s', cps') ->
  SB d s -> SB d s'.
Proof.
  intros W W' Hok NR R B us ND.
  set (us' := extend us (hop_addrs o)).
  assert (ND' : NoDup us') by (apply extend_NoDup; exact ND).
  destruct (hop_effect d us' s cps o s' cps' W Hok ND' (fun a Ha => extend_incl_r us _ a Ha) NR R) as (x & Hx & T & _).
  assert (total d s' us <= total d s' us').
  { unfold total. apply sumf_incl; [apply bal_nonneg; exact W'|exact ND|]. intros a Ha. left. apply extend_incl_l; exact Ha. }
  specialize (B us' ND'). lia.
Qed.

(* ------------------------------------------------------------------ loaded accounts stay loaded *)
Definition ld (s s' : jstate) : Prop := forall a, st s a <> None -> st s' a <> None.

Lemma ld_refl s : ld s s. Proof. intros a H. exact H. Qed.
Lemma ld_trans s1 s2 s3 : ld s1 s2 -> ld s2 s3 -> ld s1 s3.
Proof. intros A B a H. apply B, A, H. Qed.
Lemma Good_ld d s s' : Good d s s' -> ld s s'.
Proof. intros (E & _ & _ & (S & _) & _). exact S. Qed.
Lemma revert_ld s cp s' : checkpoint_revert s cp = Some s' -> ld s s'.
Proof.
  unfold checkpoint_revert. destruct (undo_list _ _ s) as [u|] eqn:U; [|discriminate]. intros [= <-].
  destruct (undo_list_frame _ _ _ _ U) as (_ & _ & _ & _ & _ & _ & (S & _) & _). exact S.
Qed.

Lemma hop_ld d s cps o s' cps' :
  WF d s -> hop_ok d s o -> run_hop d (s, cps) o = Some (s', cps') -> ld s s'.
Proof.
  intros W Hok. pose proof (proj2 (proj2 W)) as N.
  destruct o; cbn [run_hop hop_ok] in *.
  - intros [= <- <-]. eapply (Good_ld d), Good_load; exact N.
  - destruct (load_account_delegated d s a) as [[[s1 c] e] dc] eqn:L. intros [= <- <-].
    eapply (Good_ld d), Good_load_delegated; eauto.
  - intros [= <- <-]. eapply (Good_ld d), Good_touch; exact N.
  - destruct (inc_nonce s a) as [[s1 r]|] eqn:L; [|discriminate]. intros [= <- <-].
    eapply (Good_ld d), Good_inc_nonce; eauto.
  - destruct (set_code s a c) as [s1|] eqn:L; [|discriminate]. intros [= <- <-].
    destruct Hok as (acc & Ea & Ec). eapply (Good_ld d), Good_set_code; eauto.
  - destruct (transfer d s f t v) as [[s1 r]|] eqn:L; [|discriminate]. intros [= <- <-].
    exact (Good_ld d s s1 (proj1 (Good_transfer d s f t v s1 r W Hok L))).
  - destruct (create_account_checkpoint s caller addr has_storage v (spurious s)) as [[s1 r]|] eqn:L; [|discriminate].
    destruct (create_spec d s caller addr has_storage v s1 r W Hok L) as (sB & G & WB & R).
    assert (LB : ld s sB) by (intros a Ha; apply (Good_ld _ _ _ G); exact Ha).
    destruct r as [cp'| |].
    + destruct R as [-> ->]. intros [= <- <-]. exact LB.
    + intros [= <- <-]. eapply ld_trans; [exact LB|eapply revert_ld; exact R].
    + intros [= <- <-]. eapply ld_trans; [exact LB|eapply revert_ld; exact R].
  - destruct (sload d s a k) as [[[s1 v] c]|] eqn:L; [|discriminate]. intros [= <- <-].
    eapply (Good_ld d), Good_sload; eauto.
  - destruct (sstore d s a k v) as [[[[s1 o] p] c]|] eqn:L; [|discriminate]. intros [= <- <-].
    eapply (Good_ld d), Good_sstore; eauto.
  - intros [= <- <-]. (intros x Hx; exact Hx).
  - intros [= <- <-]. eapply (Good_ld d), Good_tstore; exact N.
  - intros [= <- <-]. (intros x Hx; exact Hx).
  - destruct (selfdestruct d s a t) as [[[[[s1 hv] te] pd] c]|] eqn:L; [|discriminate]. intros [= <- <-].
    exact (Good_ld d s s1 (proj1 (Good_selfdestruct d s a t s1 hv te pd c W L))).
  - intros [= <- <-]. (intros x Hx; exact Hx).
  - destruct cps as [|cp r]; intros [= <- <-]; (intros x Hx; exact Hx).
  - destruct cps as [|cp r]; [intros [= <- <-]; (intros x Hx; exact Hx)|].
    destruct (checkpoint_revert s cp) as [s1|] eqn:R; [|discriminate]. intros [= <- <-]. eapply revert_ld; exact R.
Qed.

(* an account that is not loaded at the end was never loaded: its balance is the database's *)
Lemma ld_outside d s s' a : ld s s' -> st s' a = None -> bal d s' a = bal d s a.
Proof.
  intros L E. unfold bal. rewrite E. destruct (st s a) as [acc|] eqn:Ea; [|reflexivity].
  exfalso. apply (L a); [rewrite Ea; discriminate|exact E].
Qed.

(* ------------------------------------------------------------------ the invariant of a history *)
(* the supply bound holds now and held at every open checkpoint (ghost states as in I8) *)
Definition I9 (d : db) (s : jstate) (cps : list checkpoint_t) : Prop :=
  exists gs, GSt d s [] cps gs /\ Forall (SB d) gs /\ SB d s /\ WF d s.

Lemma I9_init d s : WF d s -> SB d s -> I9 d s [].
Proof. intros W B. exists []. cbn. auto. Qed.

Lemma I9_hop d s cps o s' cps' :
  I9 d s cps -> hop_ok8 d s o -> run_hop d (s, cps) o = Some (s', cps') -> I9 d s' cps'.
Proof.
  intros (gs & G & F & B & W) Hok8 R. pose proof (proj1 Hok8) as Hok.
  destruct (hop_eq_dec_commit o) as [->|NC].
  { cbn [run_hop] in R. destruct cps as [|cp r].
    - injection R as <- <-. exists gs. auto.
    - injection R as <- <-. destruct gs as [|g gr]; [destruct G|]. destruct G as (I & -> & N & G).
      inversion F as [|? ? Fg Fr]; subst. exists gr.
      split; [eapply (GSt_pop d s (checkpoint_commit s) HCommit (cp_of g)); [intros c; reflexivity|exact Hok|exact G] |].
      split; [exact Fr|]. split; [|apply WF_commit; exact W].
      eapply SB_ext; [|exact B]. intros x. apply (proj1 (same8_commit d s)). }
  destruct (hop_eq_dec_revert o) as [->|NR].
  { cbn [run_hop] in R. destruct cps as [|cp r].
    - injection R as <- <-. exists gs. auto.
    - destruct gs as [|g gr]; [destruct G|]. destruct G as (I & -> & N & G).
      inversion F as [|? ? Fg Fr]; subst.
      destruct (Inv_revert_base d g s [] I N) as (s3 & R3 & V & J & W3 & _).
      rewrite R3 in R. injection R as <- <-. exists gr.
      split; [eapply (GSt_pop d s s3 HRevert (cp_of g)); [intros c; cbn [run_hop]; rewrite R3; reflexivity|exact Hok|exact G]|].
      split; [exact Fr|]. split; [|exact W3].
      eapply SB_ext; [|exact Fg]. apply bal_of_cview. exact V. }
  pose proof (WF_hop_nopop d s cps o s' cps' W Hok NC NR R) as W'.
  pose proof (SB_hop d s cps o s' cps' W W' Hok8 NR R B) as B'.
  destruct (run_hop_nopop d s cps o s' cps' NC NR R) as (p & -> & Rp & Hp).
  pose proof (GSt_push d s s' o p Rp Hok cps gs [] G) as G'. rewrite app_nil_r in G'.
  destruct Hp as [->|[[-> ->]|(cp & c & a & hs & v & -> & -> & L)]].
  - exists gs. auto.
  - exists (s :: gs).
    assert (Es : s' = fst (checkpoint s)) by (cbn [run_hop checkpoint] in R; unfold checkpoint; cbn [fst]; congruence).
    subst s'.
    split; [cbn [GSt app]; split; [apply Inv_after_checkpoint; exact W|split; [reflexivity|split; [apply W|exact G']]]|].
    split; [constructor; [exact B|exact F]|]. split; [exact B'|exact W'].
  - destruct (create_spec d s c a hs v s' (CreateOk cp) W Hok L) as (sB & Gd & WB & -> & ->).
    exists (s :: gs).
    split; [cbn [GSt app]; split; [exact (Inv_good d s _ sB [] (Inv_after_checkpoint d s W) Gd WB)|split; [reflexivity|split; [apply W|exact G']]]|].
    split; [constructor; [exact B|exact F]|]. split; [exact B'|exact W'].
Qed.

(* okhop (Proofs/EvmHistoryProofs.v): everything except create_account_checkpoint and set_code
   (issued by CREATE / CREATE2 only), transfers of non-negative amounts: the C08 contract of such
   an operation follows from the supply bound *)
Lemma okhop_ok8 d s o : okhop o -> WF d s -> SB d s -> hop_ok8 d s o.
Proof.
  intros Ho W B. split.
  - destruct o; cbn in *; auto; contradiction.
  - destruct o; cbn in *; auto; try contradiction. intros N. apply SB_pair; assumption.
Qed.

(* a history of such operations from a state under the supply bound is inside the C08 contract,
   and the bound holds again at its end *)
Lemma I9_hops d h : forall s cps s' cps',
  Forall okhop h -> I9 d s cps -> run_hops d (s, cps) h = Some (s', cps') ->
  contract8 d (s, cps) h /\ I9 d s' cps' /\ ld s s'.
Proof.
  induction h as [|o r IH]; intros s cps s' cps' HF I R; cbn [run_hops contract8] in *.
  - injection R as <- <-. split; [exact Logic.I|split; [exact I|apply ld_refl]].
  - inversion HF as [|? ? Ho Hr]; subst.
    assert (Wf : WF d s) by (destruct I as (gs & _ & _ & _ & W); exact W).
    assert (Hok : hop_ok8 d s o).
    { destruct I as (gs & _ & _ & B & W). apply okhop_ok8; assumption. }
    destruct (run_hop d (s, cps) o) as [[s1 cps1]|] eqn:E; [|discriminate].
    destruct (IH s1 cps1 s' cps' Hr (I9_hop d s cps o s1 cps1 I Hok E) R) as (C & I' & L').
    cbn [fst]. split; [split; [exact Hok|exact C]|]. split; [exact I'|].
    eapply ld_trans; [exact (hop_ld d s cps o s1 cps1 Wf (proj1 Hok) E)|exact L'].
Qed.

(* ------------------------------------------------------------------ conservation *)
(* balances of addresses the history does not name stay: compare the universes A and a :: A *)
Lemma outside_unchanged d s h s' cps' a :
  WF d s -> contract8 d (s, []) h -> run_hops d (s, []) h = Some (s', cps') ->
  ~ In a (hist_addrs h) -> bal d s' a = bal d s a.
Proof.
  intros W C R NI.
  set (A := nodup Z.eq_dec (hist_addrs h)).
  assert (NA : NoDup A) by apply NoDup_nodup.
  assert (CA : covers A h) by (intros x Hx; apply nodup_In; exact Hx).
  assert (NaA : ~ In a A) by (intros H; apply nodup_In in H; contradiction).
  assert (NA' : NoDup (a :: A)) by (constructor; assumption).
  assert (CA' : covers (a :: A) h) by (intros x Hx; right; apply CA; exact Hx).
  destruct (history_conserves d A s h s' cps' W NA CA C R) as [T1 _].
  destruct (history_conserves d (a :: A) s h s' cps' W NA' CA' C R) as [T2 _].
  unfold total in *. cbn [sumf] in T2. lia.
Qed.

(* conservation over any universe outside of which no balance has changed *)
Lemma history_conserves_outside d s h s' cps' us :
  WF d s -> contract8 d (s, []) h -> run_hops d (s, []) h = Some (s', cps') ->
  NoDup us -> (forall a, ~ In a us -> bal d s' a = bal d s a) ->
  total d s' us = total d s us - (jburn (journal s') - jburn (journal s)).
Proof.
  intros W C R ND Out.
  set (us' := extend us (hist_addrs h)).
  assert (ND' : NoDup us') by (apply extend_NoDup; exact ND).
  assert (Cov : covers us' h) by (intros x Hx; apply extend_incl_r; exact Hx).
  destruct (history_conserves d us' s h s' cps' W ND' Cov C R) as [T _].
  unfold us', extend, total in T. rewrite !sumf_app in T.
  rewrite (sumf_ext (bal d s') (bal d s) (filter _ _)) in T.
  - unfold total. lia.
  - intros a Ha. apply Out. eapply extend_new; exact Ha.
Qed.

(* ------------------------------------------------------------------ segments *)
(* what a segment (a well-bracketed history of okhop operations, run on top of any stack of open
   checkpoints) does, from a well-formed state under the supply bound *)
Record seg_facts (d : db) (s s' : jstate) (h : list hop) : Prop := mkSegFacts {
  sf_contract : contract8 d (s, []) h;
  sf_run : run_hops d (s, []) h = Some (s', []);
  sf_wf : WF d s';
  sf_sb : SB d s';
  sf_ld : ld s s'
}.

Lemma seg_conserves d s cps s' cps' h :
  WF d s -> SB d s -> Forall okhop h -> wbh 0 h = Some 0%nat ->
  run_hops d (s, cps) h = Some (s', cps') -> cps' = cps /\ seg_facts d s s' h.
Proof.
  intros W B HF WB R.
  destruct (run_hops_base d cps h s [] s' cps' 0%nat WB R) as (cps1 & E1 & L1 & R0).
  destruct cps1; [|discriminate]. cbn [app] in E1.
  destruct (I9_hops d h s [] s' [] HF (I9_init d s W B) R0) as (C & (gs & _ & _ & B' & W') & L).
  split; [exact E1|]. constructor; assumption.
Qed.

(* ------------------------------------------------------------------ the interpreter *)
(* what an interpreter transition G -> G' that is a segment does to the ether, from a well-formed
   state under the supply bound: its history lies inside the C08 contract (exec_hist of
   Proofs/EtherTx.v), the code table and the stack of open checkpoints are as before,
   well-formedness and the supply bound hold again *)
Record conserves (W : world) (G G' : gstate) : Prop := mkConserves {
  cv_codes : g_codes G' = g_codes G;
  cv_stack : snd (g_sc G') = snd (g_sc G);
  cv_hist : exists h, Forall okhop h /\ wbh 0 h = Some 0%nat /\
                      contract8 (gdb W G) (gs G, []) h /\ run_hops (gdb W G) (gs G, []) h = Some (gs G', []);
  cv_wf : WF (gdb W G) (gs G');
  cv_sb : SB (gdb W G) (gs G');
  cv_ld : ld (gs G) (gs G')
}.

Lemma gseg_conserves W G G' :
  WF (gdb W G) (gs G) -> SB (gdb W G) (gs G) -> gseg W G G' -> conserves W G G'.
Proof.
  intros Wf B [C (h & HF & WB & R)].
  assert (E1 : g_sc G = (gs G, snd (g_sc G))) by (unfold gs; destruct (g_sc G); reflexivity).
  assert (E2 : g_sc G' = (gs G', snd (g_sc G'))) by (unfold gs; destruct (g_sc G'); reflexivity).
  rewrite E1, E2 in R.
  destruct (seg_conserves (gdb W G) _ _ _ _ h Wf B HF WB R) as [E [A1 A2 A3 A4 A5]].
  constructor; auto. exists h. auto.
Qed.

(* a frame of the create-free interpreter *)
Theorem frame_conserves W f G F I G' r :
  WF (gdb W G) (gs G) -> SB (gdb W G) (gs G) ->
  exec_nc f W G F I = XDone (G', r) -> conserves W G G'.
Proof. intros Wf B E. apply gseg_conserves; [exact Wf|exact B|]. exact (exec_nc_seg W f G F I G' r E). Qed.

(* a call (make_call_frame, the callee's frames, call_return) *)
Theorem call_conserves W f G c G' r :
  WF (gdb W G) (gs G) -> SB (gdb W G) (gs G) -> (cq_transfers c = true -> 0 <= cq_value c) ->
  do_call W (exec_nc f W) G c = XDone (G', r) -> conserves W G G'.
Proof.
  intros Wf B V E. apply gseg_conserves; [exact Wf|exact B|].
  exact (do_call_seg W (exec_nc f W) G c G' r (exec_nc_seg W f) V E).
Qed.

(* the history of a segment as an execution of the transaction theorems (exec_hist) *)
Lemma conserves_in_contract W G G' :
  conserves W G G' ->
  (exists h, exec_hist (gdb W G) h (gs G) (gs G') /\ run_hops (gdb W G) (gs G, []) h = Some (gs G', [])) /\
  snd (g_sc G') = snd (g_sc G) /\ gdb W G' = gdb W G /\ WF (gdb W G) (gs G') /\ SB (gdb W G) (gs G').
Proof.
  intros [C S (h & _ & _ & C8 & R) W' B' _].
  split; [exists h; split; [split; [exact C8|eexists; exact R]|exact R]|].
  split; [exact S|]. split; [unfold gdb; rewrite C; reflexivity|]. split; assumption.
Qed.

(* the total over any universe outside of which no balance has changed *)
Lemma conserves_total W G G' us :
  WF (gdb W G) (gs G) -> conserves W G G' -> NoDup us ->
  (forall a, ~ In a us -> bal (gdb W G) (gs G') a = bal (gdb W G) (gs G) a) ->
  total (gdb W G) (gs G') us =
    total (gdb W G) (gs G) us - (jburn (journal (gs G')) - jburn (journal (gs G))).
Proof.
  intros Wf [_ _ (h & _ & _ & C & R) _ _ _] ND Out.
  eapply history_conserves_outside; eauto.
Qed.

(* such universes exist: only finitely many balances change *)
Lemma conserves_footprint W G G' :
  WF (gdb W G) (gs G) -> conserves W G G' ->
  exists L, NoDup L /\ forall a, ~ In a L -> bal (gdb W G) (gs G') a = bal (gdb W G) (gs G) a.
Proof.
  intros Wf [_ _ (h & _ & _ & C & R) _ _ _].
  exists (nodup Z.eq_dec (hist_addrs h)). split; [apply NoDup_nodup|].
  intros a Ha. eapply outside_unchanged; eauto. intros H. apply Ha. apply nodup_In. exact H.
Qed.


(* the natural universe: every account that is loaded in the final state *)
Lemma conserves_total_loaded W G G' us :
  WF (gdb W G) (gs G) -> conserves W G G' -> NoDup us ->
  (forall a, st (gs G') a <> None -> In a us) ->
  total (gdb W G) (gs G') us =
    total (gdb W G) (gs G) us - (jburn (journal (gs G')) - jburn (journal (gs G))).
Proof.
  intros Wf Cv ND Ld. apply conserves_total; [exact Wf|exact Cv|exact ND|].
  intros a Ha. apply ld_outside; [exact (cv_ld _ _ _ Cv)|].
  destruct (st (gs G') a) as [acc|] eqn:E; [|reflexivity].
  exfalso. apply Ha, Ld. rewrite E. discriminate.
Qed.

(* the interpreter itself, on the runs on which the create-free interpreter completes *)
Lemma exec_conserves_partial W f G F I G' r us :
  WF (gdb W G) (gs G) -> SB (gdb W G) (gs G) -> exec f W G F I = XDone (G', r) ->
  (exists x, exec_nc f W G F I = XDone x) ->
  NoDup us -> (forall a, st (gs G') a <> None -> In a us) ->
  total (gdb W G) (gs G') us = total (gdb W G) (gs G) us - (jburn (journal (gs G')) - jburn (journal (gs G))) /\
  WF (gdb W G) (gs G') /\ SB (gdb W G) (gs G').
Proof.
  intros Wf B E [x Hx] ND Ld.
  pose proof (exec_nc_sound W f G F I x Hx) as E'. rewrite E in E'. injection E' as <-.
  pose proof (frame_conserves W f G F I G' r Wf B Hx) as Cv.
  split; [apply conserves_total_loaded; assumption|]. split; [exact (cv_wf _ _ _ Cv)|exact (cv_sb _ _ _ Cv)].
Qed.

(* ================================================================== the transaction *)

(* phases that move no ether and keep well-formedness: every observed balance and the burnt
   amount stay, hence also the supply bound *)
Definition keeps (d : db) (s s' : jstate) : Prop := same8 d s s' /\ WF d s'.

Lemma keeps_trans d s1 s2 s3 : keeps d s1 s2 -> keeps d s2 s3 -> keeps d s1 s3.
Proof. intros [A _] [B C]. split; [eapply same8_trans; eauto|exact C]. Qed.
Lemma keeps_refl d s : WF d s -> keeps d s s.
Proof. intros W. split; [apply same8_refl|exact W]. Qed.
Lemma keeps_SB d s s' : keeps d s s' -> SB d s -> SB d s'.
Proof. intros [[A _] _]. apply SB_ext. exact A. Qed.
Lemma keeps_load d s a : WF d s -> keeps d s (fst (load_account d s a)).
Proof. intros W. split; [apply same8_load; apply W|apply WF_load; exact W]. Qed.

(* the database of the interpreter depends on the code table through db_delegate only *)
Lemma WF_codes W cs1 cs2 s : WF (the_db W cs1) s -> WF (the_db W cs2) s.
Proof. intros H. exact H. Qed.
Lemma bal_codes W cs1 cs2 s a : bal (the_db W cs1) s a = bal (the_db W cs2) s a.
Proof. reflexivity. Qed.
Lemma load_codes W cs1 cs2 s a : load_account (the_db W cs1) s a = load_account (the_db W cs2) s a.
Proof. reflexivity. Qed.
Lemma total_codes W cs1 cs2 s us : total (the_db W cs1) s us = total (the_db W cs2) s us.
Proof. apply sumf_ext. intros a _. apply bal_codes. Qed.
Lemma SB_codes W cs1 cs2 s : SB (the_db W cs1) s -> SB (the_db W cs2) s.
Proof. intros B us N. rewrite (total_codes W cs2 cs1). apply B; exact N. Qed.
Lemma same8_codes W cs1 cs2 s s' : same8 (the_db W cs1) s s' -> same8 (the_db W cs2) s s'.
Proof. intros H. exact H. Qed.
Lemma keeps_codes W cs1 cs2 s s' : keeps (the_db W cs1) s s' -> keeps (the_db W cs2) s s'.
Proof. intros H. exact H. Qed.

(* rewriting a loaded account without touching its balance or its created flag *)
Lemma keeps_put d s a acc acc' :
  WF d s -> st s a = Some acc -> a_bal acc' = a_bal acc -> (a_created acc' = true -> a_created acc = true) ->
  keeps d s (put s a acc').
Proof.
  intros W E Hb Hc. split.
  - apply same8_put. rewrite Hb. symmetry. apply bal_present. exact E.
  - eapply WF_put_bal; [exact W|exact E| |exact Hc]. rewrite Hb. destruct W as ((A & _) & _). eapply A; eauto.
Qed.

(* ---- load_access_list *)
Lemma preload_bal d a keys : forall acc,
  a_bal (preload_slots d a acc keys) = a_bal acc /\ a_created (preload_slots d a acc keys) = a_created acc.
Proof.
  induction keys as [|k r IH]; intros acc; cbn [preload_slots]; [auto|].
  destruct (a_storage acc k); [apply IH|]. destruct (IH (acc_storage acc (upd (a_storage acc) k (Some (mkSlot (db_storage d a k) (db_storage d a k) false))))) as [A B].
  rewrite A, B. auto.
Qed.

Lemma keeps_initial_load d s a keys : WF d s -> keeps d s (initial_account_load d s a keys).
Proof.
  intros W. unfold initial_account_load. destruct (st s a) as [acc|] eqn:E.
  - destruct (preload_bal d a keys acc) as [A B]. eapply keeps_put; eauto; intros H; congruence.
  - destruct (preload_bal d a keys (account_from_db d a)) as [A B]. split.
    + apply same8_put. rewrite A. unfold bal. rewrite E. reflexivity.
    + destruct W as (Wb & Cz & N). split; [|split; [|exact N]].
      * apply WFb_put; [exact Wb|]. rewrite A. eapply from_db_bal; eauto.
      * intros x ac. rewrite st_put. destruct (x =? a) eqn:X; [|apply Cz].
        intros [= <-]. rewrite B. unfold account_from_db. destruct (db_basic d a) as [[[? ?] ?]|]; discriminate.
Qed.

Lemma load_access_list_keeps W l : forall G,
  WF (gdb W G) (gs G) ->
  let G' := fold_left (fun G it => set_s G (initial_account_load (gdb W G) (gs G) (fst it) (snd it))) l G in
  keeps (gdb W G) (gs G) (gs G') /\ g_codes G' = g_codes G /\ snd (g_sc G') = snd (g_sc G).
Proof.
  induction l as [|it r IH]; intros G Wf; cbn [fold_left].
  - split; [apply keeps_refl; exact Wf|auto].
  - pose proof (keeps_initial_load (gdb W G) (gs G) (fst it) (snd it) Wf) as K.
    set (G1 := set_s G (initial_account_load (gdb W G) (gs G) (fst it) (snd it))) in *.
    assert (E1 : gs G1 = initial_account_load (gdb W G) (gs G) (fst it) (snd it)) by reflexivity.
    assert (C1 : gdb W G1 = gdb W G) by reflexivity.
    destruct (IH G1) as (K2 & C2 & S2); [rewrite C1, E1; apply K|].
    rewrite C1, E1 in K2. split; [eapply keeps_trans; eauto|]. split; [rewrite C2; reflexivity|rewrite S2; reflexivity].
Qed.

(* ---- deduct_caller *)
Lemma sat256_le b c : 0 <= b -> 0 <= c -> sat256 (b - c) <= b.
Proof.
  intros Hb Hc. unfold sat256. destruct (b - c <? 0) eqn:A; [lia|].
  destruct (b - c <? pow256) eqn:B; [lia|]. apply Z.ltb_ge in B. lia.
Qed.
Lemma sat256_nonneg x : 0 <= sat256 x.
Proof. pose proof (sat256_range x) as R. unfold in_u256 in R. lia. Qed.
Lemma deduct_le spec e b b1 : 0 <= b -> deduct_caller_inner spec e b = Some b1 -> b1 <= b.
Proof.
  intros Hb. unfold deduct_caller_inner. destruct (enabled spec CANCUN).
  - destruct (calc_data_fee e); [|discriminate]. intros [= <-]. apply sat256_le; [exact Hb|apply sat256_nonneg].
  - intros [= <-]. apply sat256_le; [exact Hb|apply sat256_nonneg].
Qed.

(* lowering one balance keeps the supply bound *)
Lemma SB_put_le d s a acc' : SB d s -> a_bal acc' <= bal d s a -> SB d (put s a acc').
Proof.
  intros B Hle us N. specialize (B us N).
  destruct (in_dec Z.eq_dec a us) as [I|NI].
  - rewrite (total_put d s a acc' us N I). lia.
  - assert (total d (put s a acc') us = total d s us); [|lia].
    apply sumf_ext. intros x Hx. rewrite bal_put. rewrite (eqb_ne x a); [reflexivity|]. intros ->. contradiction.
Qed.

Lemma deduct_caller_facts W G G1 :
  Evm.deduct_caller W G = Some G1 ->
  exists facc facc1 b1,
    st (fst (load_account (gdb W G) (gs G) (w_caller W))) (w_caller W) = Some facc /\
    deduct_caller_inner (w_spec W) (w_env W) (a_bal facc) = Some b1 /\
    a_bal facc1 = b1 /\ (a_created facc1 = true -> a_created facc = true) /\
    gs G1 = put (fst (load_account (gdb W G) (gs G) (w_caller W))) (w_caller W) facc1 /\
    g_codes G1 = g_codes G /\ snd (g_sc G1) = snd (g_sc G).
Proof.
  unfold Evm.deduct_caller. destruct (H.load_account (gdb W G) (gs G) (w_caller W)) as [s1 c] eqn:L. cbn [fst].
  destruct (H.st s1 (w_caller W)) as [acc|] eqn:Ea; [|discriminate].
  destruct (St.deduct_caller_inner (w_spec W) (w_env W) (H.a_bal acc)) as [b|] eqn:Ed; [|discriminate].
  intros [= <-].
  eexists acc, _, b. split; [reflexivity|]. split; [exact Ed|].
  split; [|split; [|split; [reflexivity|split; reflexivity]]].
  - destruct (w_to W); reflexivity.
  - destruct (w_to W); cbn; auto.
Qed.

(* ---- apply_eip7702_auth_list *)
Lemma add_code_sc G b : g_sc (fst (add_code G b)) = g_sc G.
Proof. unfold add_code. destruct (code_id b =? 0); reflexivity. Qed.

Lemma apply_auths_keeps W l : forall G n G' n',
  WF (gdb W G) (gs G) -> apply_auths W G l n = (G', n') ->
  keeps (gdb W G) (gs G) (gs G') /\ snd (g_sc G') = snd (g_sc G).
Proof.
  induction l as [|[[[authority chain_id] address] nonce] rest IH]; intros G n G' n' Wf HA; cbn [apply_auths] in HA.
  - injection HA as <- _. split; [apply keeps_refl; exact Wf|reflexivity].
  - destruct (negb (chain_id =? 0) && negb (chain_id =? E.c_chain_id (E.e_cfg (w_env W)))); [eapply IH; eauto|].
    destruct (nonce =? pow64 - 1); [eapply IH; eauto|].
    destruct authority as [au|]; [|eapply IH; eauto].
    destruct (H.load_code (gdb W G) (gs G) au) as [s1 c] eqn:L.
    pose proof (keeps_load (gdb W G) (gs G) au Wf) as K1. unfold H.load_code in L. rewrite L in K1. cbn [fst] in K1.
    assert (Step1 : forall m, apply_auths W (set_s G s1) rest m = (G', n') ->
                    keeps (gdb W G) (gs G) (gs G') /\ snd (g_sc G') = snd (g_sc G)).
    { intros m Hm. destruct (IH (set_s G s1) m G' n') as [K2 S2]; [exact (proj2 K1)|exact Hm|].
      split; [eapply keeps_trans; [exact K1|exact K2]|exact S2]. }
    destruct (H.st s1 au) as [acc|] eqn:Ea; [|eapply Step1; eauto].
    cbv zeta in HA.
    match type of HA with (if ?b then _ else _) = _ => destruct b end; [eapply Step1; eauto|].
    match type of HA with (if ?b then _ else _) = _ => destruct b end; [eapply Step1; eauto|].
    match type of HA with (let '(G2, id) := ?p in _) = _ => destruct p as [G2 id] eqn:EA end.
    assert (SC : g_sc G2 = (s1, snd (g_sc G))).
    { destruct (address =? 0); [injection EA as <- _; reflexivity|].
      pose proof (add_code_sc (set_s G s1) (eip7702_code address)) as Q. rewrite EA in Q. exact Q. }
    assert (E2 : gs G2 = s1) by (unfold gs; rewrite SC; reflexivity).
    rewrite E2 in HA.
    match type of HA with apply_auths W (set_s G2 (H.put s1 au ?a')) _ _ = _ => set (acc' := a') in * end.
    assert (K2 : keeps (gdb W G) s1 (put s1 au acc')).
    { eapply keeps_put; [exact (proj2 K1)|exact Ea|reflexivity|cbn; auto]. }
    assert (K3S : keeps (gdb W (set_s G2 (H.put s1 au acc'))) (gs (set_s G2 (H.put s1 au acc'))) (gs G') /\
                  snd (g_sc G') = snd (g_sc (set_s G2 (H.put s1 au acc')))).
    { eapply IH; [|exact HA]. apply (WF_codes W (g_codes G) (g_codes G2)). exact (proj2 K2). }
    destruct K3S as [K3 S3]. split.
    + eapply keeps_trans; [exact K1|]. eapply keeps_trans; [exact K2|].
      apply (keeps_codes W (g_codes G2) (g_codes G)). exact K3.
    + rewrite S3. cbn [set_s g_sc snd]. rewrite SC. reflexivity.
Qed.

(* ---- reimburse_caller, reward_beneficiary *)
Lemma settle_facts W G g G4 :
  Evm.settle W G g = Some G4 ->
  exists cacc b bacc bb,
    let d := gdb W G in
    let s2 := fst (load_account d (gs G) (w_caller W)) in
    let s3 := put s2 (w_caller W) (acc_bal cacc b) in
    let s3l := fst (load_account d s3 (w_coinbase W)) in
    st s2 (w_caller W) = Some cacc /\ reimburse_caller (w_env W) g (a_bal cacc) = Some b /\
    st s3l (w_coinbase W) = Some bacc /\ reward_beneficiary (w_spec W) (w_env W) g (a_bal bacc) = Some bb /\
    gs G4 = put s3l (w_coinbase W) (acc_bal (acc_touched bacc true) bb) /\ g_codes G4 = g_codes G.
Proof.
  unfold Evm.settle. destruct (H.load_account (gdb W G) (gs G) (w_caller W)) as [s1 c1] eqn:L1.
  destruct (H.st s1 (w_caller W)) as [cacc|] eqn:Ec; [|discriminate].
  destruct (St.reimburse_caller (w_env W) g (H.a_bal cacc)) as [b|] eqn:Er; [|discriminate].
  destruct (H.load_account (gdb W G) (H.put s1 (w_caller W) (H.acc_bal cacc b)) (w_coinbase W)) as [s3 c3] eqn:L3.
  destruct (H.st s3 (w_coinbase W)) as [bacc|] eqn:Eb; [|discriminate].
  destruct (St.reward_beneficiary (w_spec W) (w_env W) g (H.a_bal bacc)) as [bb|] eqn:Ew; [|discriminate].
  intros [= <-]. exists cacc, b, bacc, bb. cbn zeta. cbn [fst]. rewrite L3. cbn [fst].
  repeat split; assumption.
Qed.

(* ---- transact_preverified_inner for a call transaction *)
Definition tx_call (W : world) (to : Z) : callreq :=
  mkCall SchCall (E.tx_gas_limit (E.e_tx (w_env W)) - fst (E.initial_and_floor (w_spec W) (w_env W)))
         to (w_caller W) to (w_value W) true false (w_data W) 0 0.
Definition tx_frame (r : iresult) : frame_result :=
  mkFrame (Evm.frame_class (ir_res r)) (Gas.remaining (ir_gas r)) (Gas.refunded (ir_gas r)).
Definition auth_refund (ra : Z) : Z := ra * (G.PER_EMPTY_ACCOUNT_COST - G.PER_AUTH_BASE_COST).

(* the pre-execution of run_tx: access list, deduct_caller, authorization list *)
Definition tx_pre (W : world) (G1 G2 : gstate) (ra : Z) : Prop :=
  Evm.deduct_caller W (load_access_list W (gstate_new W)) = Some G1 /\
  (if en (w_spec W) E.PRAGUE then apply_auths W G1 (w_auth_list W) 0 else (G1, 0)) = (G2, ra).

Lemma run_tx_unfold fuel W to G1 G2 ra G3 r res :
  w_to W = Some to -> tx_pre W G1 G2 ra ->
  do_call W (exec_nc fuel W) G2 (tx_call W to) = XDone (G3, r) ->
  run_tx fuel W = XDone res ->
  exists g1 g2 G4 used refd,
    last_frame_return (w_env W) (tx_frame r) = Some g1 /\
    refund (w_spec W) g1 (auth_refund ra) = Some g2 /\
    Evm.settle W G3 (floor_step g2 (snd (E.initial_and_floor (w_spec W) (w_env W)))) = Some G4 /\
    output_gas (floor_step g2 (snd (E.initial_and_floor (w_spec W) (w_env W)))) = Some (used, refd) /\
    tr_state res = gs G4 /\ tr_gas_used res = used.
Proof.
  intros Hto [HD HA] HC R.
  pose proof (do_call_impl W (exec_nc fuel W) (exec fuel W) G2 (tx_call W to) (G3, r) (exec_nc_sound W fuel) HC) as HC'.
  unfold run_tx in R. unfold tx_call in HC'.
  destruct (E.initial_and_floor (w_spec W) (w_env W)) as [ini flo] eqn:EI. cbn [fst snd] in *.
  rewrite HD in R. cbv zeta in R. rewrite HA in R. rewrite Hto in R. rewrite HC' in R.
  fold (tx_frame r) in R. fold (auth_refund ra) in R.
  destruct (St.last_frame_return (w_env W) (tx_frame r)) as [g1|] eqn:HL; [|discriminate].
  destruct (St.refund (w_spec W) g1 (auth_refund ra)) as [g2|] eqn:HR; [|discriminate].
  destruct (Evm.settle W G3 (St.floor_step g2 flo)) as [G4|] eqn:HS; [|discriminate].
  destruct (St.output_gas (St.floor_step g2 flo)) as [[used refd]|] eqn:HO; [|discriminate].
  injection R as <-. exists g1, g2, G4, used, refd. cbn [tr_state tr_gas_used]. repeat split; solve [assumption|reflexivity].
Qed.

(* the interpreter's call transaction passes through the five stations of C08's transaction
   model (tx_stations, Proofs/EtherTx.v), with the create-free execution of the first frame as
   the execution between deduct_caller and reimburse_caller; hence C08's transaction equation *)
Lemma run_tx_ether fuel W to G1 G2 ra G3 r res :
  let d := gdb W (gstate_new W) in
  let s00 := gs (gstate_new W) in
  let spec := w_spec W in let e := w_env W in
  let caller := w_caller W in let cb := w_coinbase W in
  let initial := fst (E.initial_and_floor spec e) in
  let floor := snd (E.initial_and_floor spec e) in
  w_to W = Some to -> tx_pre W G1 G2 ra ->
  do_call W (exec_nc fuel W) G2 (tx_call W to) = XDone (G3, r) ->
  run_tx fuel W = XDone res ->
  WF d s00 -> SB d s00 -> 0 <= w_value W ->
  (st (tr_state res) caller <> None /\ st (tr_state res) cb <> None) /\
  (exists L, NoDup L /\ forall a, a <> caller -> a <> cb -> ~ In a L -> bal d (tr_state res) a = bal d s00 a) /\
  (forall us,
    NoDup us -> In caller us -> In cb us -> caller <> cb ->
    (forall a, ~ In a us -> bal d (tr_state res) a = bal d s00 a) ->
    validated spec e initial floor (tx_frame r) (auth_refund ra)
              (bal d s00 caller) (bal d (gs G3) caller - bal d (gs G1) caller) (bal d (gs G3) cb) ->
    bal d (gs G3) cb + tip spec e * tr_gas_used res < pow256 ->
    total d (tr_state res) us =
      total d s00 us
      - (if enabled spec LONDON then b_basefee (e_block e) * tr_gas_used res else 0)
      - blob_fee spec e
      - jburn (journal (tr_state res))).
Proof.
  intros d s00 spec e caller cb initial floor Hto HP HC R Wf B Hv.
  destruct (run_tx_unfold fuel W to G1 G2 ra G3 r res Hto HP HC R) as (g1 & g2 & G4 & used & refd & HL & HR & HS & HO & ES & EU).
  destruct HP as [HD HA]. fold spec e floor in HL, HR, HS, HO.
  (* access list *)
  destruct (load_access_list_keeps W (w_access_list W) (gstate_new W) Wf) as (K0 & C0 & S0).
  change (fold_left _ (w_access_list W) (gstate_new W)) with (load_access_list W (gstate_new W)) in K0, C0, S0.
  set (G0 := load_access_list W (gstate_new W)) in *. fold d s00 in K0.
  assert (D0 : gdb W G0 = d) by (unfold gdb, d; rewrite C0; reflexivity).
  (* deduct_caller *)
  destruct (deduct_caller_facts W G0 G1 HD) as (facc & facc1 & b1 & E0 & Ed & Hb1 & Hcr & E1 & C1 & S1).
  rewrite D0 in E0, E1. fold caller spec e in E0, Ed, E1.
  set (s0 := fst (load_account d (gs G0) caller)) in *.
  pose proof (keeps_load d (gs G0) caller (proj2 K0)) as K0l. fold s0 in K0l.
  pose proof (proj2 K0l) as W0.
  pose proof (keeps_SB d _ _ K0l (keeps_SB d _ _ K0 B)) as B0.
  assert (W1 : WF d (gs G1)).
  { rewrite E1. eapply WF_put_bal; [exact W0|exact E0| |exact Hcr]. rewrite Hb1. eapply deduct_range; eauto. }
  assert (B1 : SB d (gs G1)).
  { rewrite E1. apply SB_put_le; [exact B0|]. rewrite Hb1, (bal_present d s0 caller facc E0).
    eapply deduct_le; [|exact Ed]. rewrite <- (bal_present d s0 caller facc E0). apply bal_nonneg; exact W0. }
  assert (D1 : gdb W G1 = d) by (unfold gdb; rewrite C1; exact D0).
  (* authorization list *)
  assert (K2 : keeps d (gs G1) (gs G2)).
  { destruct (en (w_spec W) E.PRAGUE).
    - destruct (apply_auths_keeps W (w_auth_list W) G1 0 G2 ra) as [K S]; [rewrite D1; exact W1|exact HA|]. rewrite D1 in K. exact K.
    - injection HA as <- _. apply keeps_refl; exact W1. }
  pose proof (proj2 K2) as W2. pose proof (keeps_SB d _ _ K2 B1) as B2.
  (* the first frame *)
  assert (CV : conserves W G2 G3).
  { apply (call_conserves W fuel G2 (tx_call W to) G3 r);
      [apply (WF_codes W (g_codes (gstate_new W))); exact W2|apply (SB_codes W (g_codes (gstate_new W))); exact B2| |exact HC].
    intros _. exact Hv. }
  assert (W3 : WF d (gs G3)) by (apply (WF_codes W (g_codes G2)); exact (cv_wf _ _ _ CV)).
  (* settlement *)
  destruct (settle_facts W G3 _ G4 HS) as (cacc & b & bacc & bb & Ec & Er & Eb & Ew & E4 & C4). cbv zeta in Ec, Eb, E4.
  fold caller cb spec e in Ec, Er, Eb, Ew, E4.
  set (s2 := fst (load_account d (gs G3) caller)).
  assert (Es2 : fst (load_account (gdb W G3) (gs G3) caller) = s2) by reflexivity.
  rewrite Es2 in Ec, Eb, E4.
  set (s3 := put s2 caller (acc_bal cacc b)) in *.
  assert (Es3 : fst (load_account (gdb W G3) s3 cb) = fst (load_account d s3 cb)) by reflexivity.
  rewrite Es3 in Eb, E4. set (s3l := fst (load_account d s3 cb)) in *.
  pose proof (keeps_load d (gs G3) caller W3) as K3l. fold s2 in K3l.
  assert (N3 : journal s3 <> []) by (unfold s3; rewrite journal_put; apply (proj2 K3l)).
  pose proof (same8_load d s3 cb N3) as S3l. fold s3l in S3l.
  (* balances of the accounts that the handler does not write *)
  assert (Phases : forall a, a <> caller -> a <> cb ->
            bal d (tr_state res) a = bal d (gs G3) a /\ bal d (gs G2) a = bal d s00 a).
  { intros a Nc Nb. split.
    - rewrite ES, E4, bal_put, (eqb_ne a cb Nb), (proj1 S3l). unfold s3.
      rewrite bal_put, (eqb_ne a caller Nc). apply (proj1 (proj1 K3l)).
    - rewrite (proj1 (proj1 K2)), E1, bal_put, (eqb_ne a caller Nc), (proj1 (proj1 K0l)). apply (proj1 (proj1 K0)). }
  split.
  { rewrite ES, E4. split.
    - rewrite st_put. destruct (caller =? cb); [discriminate|].
      apply (Good_ld d s3 s3l (Good_load d s3 cb N3)). unfold s3. rewrite st_put, Z.eqb_refl. discriminate.
    - rewrite st_put, Z.eqb_refl. discriminate. }
  split.
  { destruct (conserves_footprint W G2 G3) as (L & NL & HL23); [apply (WF_codes W (g_codes (gstate_new W))); exact W2|exact CV|].
    exists L. split; [exact NL|]. intros a Nc Nb Ha. destruct (Phases a Nc Nb) as [P1 P2].
    rewrite P1, <- P2. apply (HL23 a Ha). }
  intros us ND Ic Ib Ncb Out V NS.
  (* balances the settlement reads *)
  assert (Bs0 : bal d s0 caller = bal d s00 caller).
  { rewrite (proj1 (proj1 K0l)). apply (proj1 (proj1 K0)). }
  assert (Bs1 : bal d (gs G1) caller = b1) by (rewrite E1, bal_put, Z.eqb_refl; exact Hb1).
  assert (Bs2c : bal d s2 caller = bal d (gs G3) caller) by apply (proj1 (proj1 K3l)).
  assert (Bs2b : bal d s2 cb = bal d (gs G3) cb) by apply (proj1 (proj1 K3l)).
  assert (Bcacc : a_bal cacc = bal d s2 caller) by (symmetry; apply bal_present; exact Ec).
  assert (Bbacc : a_bal bacc = bal d s2 cb).
  { rewrite <- (bal_present d s3l cb bacc Eb), (proj1 S3l). unfold s3. rewrite bal_put, (eqb_ne cb caller) by congruence. reflexivity. }
  set (stl := mkSettle (floor_step g2 floor) used refd b bb).
  assert (TS : tx_stations d spec e floor (tx_frame r) (auth_refund ra) caller cb true
                           (fun x y => x = gs G1 /\ y = s2) s0 (gs G1) s2 s3 (gs G4) stl).
  { constructor.
    - exists facc, facc1, b1. auto.
    - split; reflexivity.
    - unfold St.settle. rewrite (bal_present d s0 caller facc E0), Ed, HL, HR. fold floor.
      rewrite Bs1. replace (b1 + (bal d s2 caller - b1)) with (a_bal cacc) by lia.
      rewrite Er. rewrite <- Bbacc, Ew, HO. reflexivity.
    - exists cacc. split; [exact Ec|reflexivity].
    - exists bacc. split; [exact Eb|exact E4]. }
  assert (V' : validated spec e initial floor (tx_frame r) (auth_refund ra)
                         (bal d s0 caller) (bal d s2 caller - bal d (gs G1) caller) (bal d s2 cb)).
  { rewrite Bs0, Bs2c, Bs2b. exact V. }
  assert (NS' : bal d s2 cb + tip spec e * st_gas_used stl < pow256).
  { rewrite Bs2b. cbn [stl st_gas_used]. rewrite <- EU. exact NS. }
  (* balances outside the universe *)
  assert (Out23 : forall a, ~ In a us -> bal d (gs G3) a = bal d (gs G2) a).
  { intros a Ha.
    assert (Nc : a <> caller) by (intros ->; contradiction).
    assert (Nb : a <> cb) by (intros ->; contradiction).
    destruct (Phases a Nc Nb) as [P1 P2]. rewrite <- P1, P2. apply (Out a Ha). }
  (* the execution between the stations conserves *)
  assert (Hex : forall x y, WF d x -> (fun x y => x = gs G1 /\ y = s2) x y ->
                 total d y us = total d x us - (jburn (journal y) - jburn (journal x)) /\ WF d y).
  { intros x y _ [-> ->]. split; [|exact (proj2 K3l)].
    pose proof (conserves_total W G2 G3 us) as T.
    rewrite (total_codes W (g_codes G2) (g_codes (gstate_new W))) in T.
    rewrite (total_codes W (g_codes G2) (g_codes (gstate_new W)) (gs G2)) in T.
    fold d in T. rewrite (same8_total d _ _ us (proj1 K3l)), (proj2 (proj1 K3l)).
    rewrite <- (same8_total d _ _ us (proj1 K2)), <- (proj2 (proj1 K2)).
    apply T; [apply (WF_codes W (g_codes (gstate_new W))); exact W2|exact CV|exact ND|].
    intros a Ha. apply (Out23 a Ha). }
  pose proof (tx_conserves_gen d us spec e initial floor (tx_frame r) (auth_refund ra) caller cb true _
                               s0 (gs G1) s2 s3 (gs G4) stl Hex W0 ND Ic Ib Ncb TS V' NS') as T.
  rewrite ES, T. cbn [stl st_gas_used]. rewrite EU.
  rewrite (same8_total d _ _ us (proj1 K0l)), (same8_total d _ _ us (proj1 K0)).
  assert (J0 : jburn (journal s0) = 0).
  { rewrite (proj2 (proj1 K0l)), (proj2 (proj1 K0)). reflexivity. }
  assert (J4 : jburn (journal (gs G4)) = jburn (journal s2)).
  { rewrite E4, journal_put, (proj2 S3l). reflexivity. }
  rewrite J0, J4. lia.
Qed.

Theorem run_tx_conserves fuel W to G1 G2 ra G3 r res us :
  let d := gdb W (gstate_new W) in
  let s00 := gs (gstate_new W) in
  let spec := w_spec W in let e := w_env W in
  let caller := w_caller W in let cb := w_coinbase W in
  let initial := fst (E.initial_and_floor spec e) in
  let floor := snd (E.initial_and_floor spec e) in
  w_to W = Some to -> tx_pre W G1 G2 ra ->
  do_call W (exec_nc fuel W) G2 (tx_call W to) = XDone (G3, r) ->
  run_tx fuel W = XDone res ->
  WF d s00 -> SB d s00 -> 0 <= w_value W ->
  NoDup us -> In caller us -> In cb us -> caller <> cb ->
  (forall a, ~ In a us -> bal d (tr_state res) a = bal d s00 a) ->
  validated spec e initial floor (tx_frame r) (auth_refund ra)
            (bal d s00 caller) (bal d (gs G3) caller - bal d (gs G1) caller) (bal d (gs G3) cb) ->
  bal d (gs G3) cb + tip spec e * tr_gas_used res < pow256 ->
  total d (tr_state res) us =
    total d s00 us
    - (if enabled spec LONDON then b_basefee (e_block e) * tr_gas_used res else 0)
    - blob_fee spec e
    - jburn (journal (tr_state res)).
Proof.
  intros d s00 spec e caller cb initial floor Hto HP HC R Wf B Hv.
  exact (proj2 (proj2 (run_tx_ether fuel W to G1 G2 ra G3 r res Hto HP HC R Wf B Hv)) us).
Qed.

(* universes as the theorem asks for exist: the transaction changes finitely many balances *)
Theorem run_tx_footprint fuel W to G1 G2 ra G3 r res :
  let d := gdb W (gstate_new W) in
  let s00 := gs (gstate_new W) in
  w_to W = Some to -> tx_pre W G1 G2 ra ->
  do_call W (exec_nc fuel W) G2 (tx_call W to) = XDone (G3, r) ->
  run_tx fuel W = XDone res ->
  WF d s00 -> SB d s00 -> 0 <= w_value W ->
  exists us, NoDup us /\ In (w_caller W) us /\ In (w_coinbase W) us /\
             forall a, ~ In a us -> bal d (tr_state res) a = bal d s00 a.
Proof.
  intros d s00 Hto HP HC R Wf B Hv.
  destruct (proj1 (proj2 (run_tx_ether fuel W to G1 G2 ra G3 r res Hto HP HC R Wf B Hv))) as (L & NL & HL).
  exists (extend L [w_caller W; w_coinbase W]).
  split; [apply extend_NoDup; exact NL|].
  split; [apply extend_incl_r; cbn; auto|]. split; [apply extend_incl_r; cbn; auto|].
  intros a Ha. apply HL.
  - intros ->. apply Ha. apply extend_incl_r. cbn; auto.
  - intros ->. apply Ha. apply extend_incl_r. cbn; auto.
  - intros H. apply Ha. apply extend_incl_l. exact H.
Qed.

(* the natural universe: every account of the final journaled state (the sender and the
   beneficiary are among them) *)
Theorem run_tx_conserves_loaded fuel W to G1 G2 ra G3 r res us :
  let d := gdb W (gstate_new W) in
  let s00 := gs (gstate_new W) in
  let spec := w_spec W in let e := w_env W in
  let caller := w_caller W in let cb := w_coinbase W in
  let initial := fst (E.initial_and_floor spec e) in
  let floor := snd (E.initial_and_floor spec e) in
  w_to W = Some to -> tx_pre W G1 G2 ra ->
  do_call W (exec_nc fuel W) G2 (tx_call W to) = XDone (G3, r) ->
  run_tx fuel W = XDone res ->
  WF d s00 -> SB d s00 -> 0 <= w_value W ->
  NoDup us -> (forall a, st (tr_state res) a <> None -> In a us) -> caller <> cb ->
  validated spec e initial floor (tx_frame r) (auth_refund ra)
            (bal d s00 caller) (bal d (gs G3) caller - bal d (gs G1) caller) (bal d (gs G3) cb) ->
  bal d (gs G3) cb + tip spec e * tr_gas_used res < pow256 ->
  total d (tr_state res) us =
    total d s00 us
    - (if enabled spec LONDON then b_basefee (e_block e) * tr_gas_used res else 0)
    - blob_fee spec e
    - jburn (journal (tr_state res)).
Proof.
  intros d s00 spec e caller cb initial floor Hto HP HC R Wf B Hv ND Ld Ncb V NS.
  destruct (run_tx_ether fuel W to G1 G2 ra G3 r res Hto HP HC R Wf B Hv) as ((Lc & Lb) & _ & T).
  apply T; auto.
  intros a Ha. unfold bal. destruct (st (tr_state res) a) as [acc|] eqn:E; [|reflexivity].
  exfalso. apply Ha, Ld. rewrite E. discriminate.
Qed.
