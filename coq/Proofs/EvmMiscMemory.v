(* Composition of C11 (per-frame memory) with the reference interpreter (Model/Step.v, Model/Evm.v).
   In Model/Evm.v every frame carries its own memory value ([i_mem], a Model/Memory.v [smem] that
   starts as [mem_new] and never has an open context), and the caller's [istate] is simply kept
   while the child runs: that a child cannot touch the parent's memory is therefore true BY
   CONSTRUCTION of the interpreter (that the one shared buffer of the code behaves like that is
   the component theorem C11_child_frame_restores_parent).  What has content here:
     - along a frame the memory stays word-aligned and only grows, for every instruction;
     - growth happens only through resize_memory! and exposes zeros;
     - the only effect of a completed call on the caller's memory is the copy of the return data
       into [ret_off, ret_off + min(ret_len, |return data|)), size unchanged. *)
From Coq Require Import ZifyBool.
From RevmV Require Import Base.Word Model.Step Model.Evm Proofs.StepProofs Proofs.EvmProofs Proofs.EvmMiscProofs Proofs.EvmMiscStack.
From RevmV Require Model.Memory Proofs.MemoryProofs Proofs.MemoryOpsProofs Model.Arith Spec.GateSpec Proofs.JumpProofs.
Local Open Scope Z_scope.

Module MP := MemoryProofs.
Module MO := MemoryOpsProofs.

(* a frame's own memory: no open context, word-aligned *)
Definition mem_ok (m : M.smem) : Prop :=
  M.cps m = [] /\ M.last_cp m = 0 /\ M.mlen m mod 32 = 0.
Lemma mem_ok_new : mem_ok M.mem_new.
Proof. split; [reflexivity|]. split; reflexivity. Qed.
Lemma mem_ok_inv m : mem_ok m -> MP.inv m /\ 0 <= M.mlen m.
Proof.
  intros (A & B & C). unfold MP.inv, M.mlen, M.blen. rewrite A, B. cbn [last].
  pose proof (MP.zlen_nonneg (M.buf m)). lia.
Qed.

(* m' is a later state of the memory m of the same frame: still a frame memory, not smaller *)
Definition mgrow (m m' : M.smem) : Prop := mem_ok m -> mem_ok m' /\ M.mlen m <= M.mlen m'.
Lemma mgrow_refl m : mgrow m m. Proof. intros H. split; [exact H|lia]. Qed.
Lemma mgrow_trans a b c : mgrow a b -> mgrow b c -> mgrow a c.
Proof. intros AB BC H. destruct (AB H) as [H1 L1]. destruct (BC H1) as [H2 L2]. split; [exact H2|lia]. Qed.

Lemma keeps_mgrow m m' : (MP.inv m -> MO.keeps m m') -> mgrow m m'.
Proof.
  intros K H. destruct (mem_ok_inv m H) as [I _]. destruct (K I) as (I' & (F1 & F2 & _) & L).
  destruct H as (A & B & C). split; [|lia]. split; [congruence|]. split; [congruence|]. rewrite L. exact C.
Qed.

Lemma write_mgrow m off v m' p : M.write m off v = (m', p) -> mgrow m m'.
Proof. intros E. apply keeps_mgrow. intros I. replace m' with (fst (M.write m off v)) by (rewrite E; reflexivity). apply MO.write_keeps, I. Qed.
Lemma set_mgrow m off v m' p : M.set m off v = (m', p) -> mgrow m m'.
Proof. intros E. apply keeps_mgrow. intros I. replace m' with (fst (M.set m off v)) by (rewrite E; reflexivity). apply MO.set_keeps, I. Qed.
Lemma set_u256_mgrow m off v m' p : M.set_u256 m off v = (m', p) -> mgrow m m'.
Proof. apply set_mgrow. Qed.
Lemma set_byte_mgrow m off v m' p : M.set_byte m off v = (m', p) -> mgrow m m'.
Proof. apply set_mgrow. Qed.
Lemma set_data_mgrow m a b c d m' p : M.set_data m a b c d = (m', p) -> mgrow m m'.
Proof. intros E. apply keeps_mgrow. intros I. replace m' with (fst (M.set_data m a b c d)) by (rewrite E; reflexivity). apply MO.set_data_keeps, I. Qed.
Lemma copy_mgrow m a b c m' p : M.copy m a b c = (m', p) -> mgrow m m'.
Proof. intros E. apply keeps_mgrow. intros I. replace m' with (fst (M.copy m a b c)) by (rewrite E; reflexivity). apply MO.copy_keeps, I. Qed.

(* resize_memory!: the memory grows to a whole number of words (or stays), and what appears is zero *)
Lemma resize_macro_grow m g off len m' g' c :
  M.resize_macro m g off len = Some (m', g', c) ->
  mem_ok m ->
  mem_ok m' /\ M.mlen m <= M.mlen m' /\ M.ctx m' = M.ctx m ++ M.zeros (M.mlen m' - M.mlen m).
Proof.
  intros E H. destruct (mem_ok_inv m H) as [I L0]. pose proof H as (A & B & C).
  assert (SAME : mem_ok m /\ M.mlen m <= M.mlen m /\ M.ctx m = M.ctx m ++ M.zeros (M.mlen m - M.mlen m)).
  { split; [exact H|]. split; [lia|]. rewrite Z.sub_diag. unfold M.zeros. cbn. rewrite app_nil_r. reflexivity. }
  unfold M.resize_macro in E.
  destruct (Z.gtb_spec (sat64 (off + len)) (M.mlen m)) as [N|N].
  2:{ injection E as <- <- <-. exact SAME. }
  pose proof (MO.sat64_bounds (off + len)) as SB.
  destruct (MO.words_cover (M.mlen m) (sat64 (off + len)) L0 C N ltac:(lia)) as (W0 & W1 & W2).
  unfold M.resize_memory in E. set (nw := M.num_words (sat64 (off + len))) in *.
  destruct (_ <? 0); [discriminate|]. destruct (_ <=? g).
  - injection E as <- <- <-.
    destruct (MP.resize_frame m (nw * 32) I ltac:(lia)) as (I' & (F1 & F2 & _) & L).
    split; [|split; [lia|]].
    + split; [congruence|]. split; [congruence|]. rewrite L. apply Z.mod_mul. lia.
    + rewrite L. apply MP.resize_grow_zero; [exact I|lia].
  - injection E as <- <- <-. exact SAME.
Qed.
Lemma resize_macro_mgrow m g off len m' g' c : M.resize_macro m g off len = Some (m', g', c) -> mgrow m m'.
Proof. intros E H. destruct (resize_macro_grow _ _ _ _ _ _ _ E H) as (A & B & _). auto. Qed.

(* ---------------------------------------------------------------- one instruction *)
Definition MQ (m0 : M.smem) (x : sres) : Prop :=
  match x with
  | SNext I' | SEnd _ _ I' | SCall _ I' | SCreate _ I' => mgrow m0 (i_mem I')
  | SBad _ => True
  end.

Ltac mfacts :=
  repeat match goal with
  | H : M.resize_macro _ _ _ _ = Some _ |- _ => apply resize_macro_mgrow in H
  | H : M.set_data _ _ _ _ _ = (_, _) |- _ => apply set_data_mgrow in H
  | H : M.set_u256 _ _ _ = (_, _) |- _ => apply set_u256_mgrow in H
  | H : M.set_byte _ _ _ = (_, _) |- _ => apply set_byte_mgrow in H
  | H : M.copy _ _ _ _ = (_, _) |- _ => apply copy_mgrow in H
  | H : M.set _ _ _ = (_, _) |- _ => apply set_mgrow in H
  end.
Ltac chain :=
  first [exact Logic.I | apply mgrow_refl | eassumption
        | eapply mgrow_trans; [eassumption|]; first [eassumption | eapply mgrow_trans; eassumption]].
Ltac finM := cbn [MQ i_stk i_pc i_mem i_gas i_rd set_gas set_stk set_mem set_pc set_rd fst snd]; mfacts; chain.

Ltac unfold_ops :=
  unfold op_arith, op_keccak256, op_push_env, op_calldataload, op_copy, op_returndatacopy, op_pop, op_mload,
    op_mstore, op_mstore8, op_mcopy, op_jump, op_jumpi, op_pushn, op_dup, op_swap, op_return, op_blobhash,
    op_blockhash, op_balance, op_selfbalance, op_extcodesize, op_extcodehash, op_extcodecopy, op_sload,
    op_sstore, op_tload, op_tstore, op_selfdestruct, op_create in *; unfold host_code in *.

Lemma call_mem_M I off len :
  match call_mem I off len with
  | inl e => MQ (i_mem I) e
  | inr (I2, _, _) => mgrow (i_mem I) (i_mem I2)
  end.
Proof. unfold call_mem. brk; finM. Qed.

Lemma op_log_M W G F I n : MQ (i_mem I) (snd (finish_pre W G F (op_log F n I))).
Proof. unfold op_log. brk; cbn [finish_pre]; finM. Qed.

Lemma op_call_post_M W G F c I m0 : mgrow m0 (i_mem I) -> MQ m0 (snd (op_call_post W G F c I)).
Proof. intros H0. unfold op_call_post. brk; finM. Qed.

Lemma finish_call_M W G F I sch : MQ (i_mem I) (snd (finish_pre W G F (op_call_pre F sch I))).
Proof.
  unfold op_call_pre.
  destruct (i_stk I) as [|lg [|to r]]; try (cbn; apply mgrow_refl).
  match goal with |- context [match ?o with Some _ => _ | None => _ end] => destruct o as [[value r1]|] end; [|cbn; apply mgrow_refl].
  destruct (value <? 0); [exact Logic.I|].
  match goal with |- context [if ?b then _ else _] => destruct b end; [cbn; apply mgrow_refl|].
  cbn [set_stk i_stk]. destruct r1 as [|io [|il [|oo [|ol r2]]]]; try (cbn; apply mgrow_refl).
  match goal with |- context [call_mem ?J io il] => pose proof (call_mem_M J io il) as C1; destruct (call_mem J io il) as [e|[[I2 io'] il']] end;
    [exact C1|].
  cbn [set_stk i_mem] in C1.
  match goal with |- context [match ?o with Some _ => _ | None => _ end] => destruct o end; [|exact Logic.I].
  pose proof (call_mem_M I2 oo ol) as C2. destruct (call_mem I2 oo ol) as [e|[[I3 oo'] ol']].
  - cbn [finish_pre snd]. destruct e; try exact Logic.I; cbn [MQ] in *; eapply mgrow_trans; eassumption.
  - cbn [finish_pre]. apply op_call_post_M. eapply mgrow_trans; eassumption.
Qed.

(* every instruction, every outcome: the frame's memory stays a word-aligned frame memory and does
   not shrink *)
Theorem step_mem W G F I : MQ (i_mem I) (snd (step W G F I)).
Proof.
  unfold step. cbv zeta. set (op := opcode_at F (i_pc I)). clearbody op.
  destruct (_ && f_static F); [cbn; apply mgrow_refl|].
  destruct (_ =? GateSpec.C_LATER); [cbn; apply mgrow_refl|].
  destruct (_ =? GateSpec.C_UNDEFINED); [cbn; apply mgrow_refl|].
  destruct (_ =? GateSpec.C_EOF_ONLY); [cbn; apply mgrow_refl|].
  destruct (_ =? GateSpec.C_INVALID); [cbn; apply mgrow_refl|].
  destruct (negb _); [exact Logic.I|].
  repeat match goal with
  | |- MQ _ (snd (if ?b then _ else _)) => destruct b
  end;
  first [ apply op_log_M | apply finish_call_M | (cbn [snd]; unfold_ops; brk; finM) ].
Qed.

Theorem step_mem_ok W G F I G' x :
  step W G F I = (G', x) -> mem_ok (i_mem I) ->
  match x with
  | SNext I' | SEnd _ _ I' | SCall _ I' | SCreate _ I' => mem_ok (i_mem I') /\ M.mlen (i_mem I) <= M.mlen (i_mem I')
  | SBad _ => True
  end.
Proof.
  intros E H. pose proof (step_mem W G F I) as S. rewrite E in S. cbn [snd] in S.
  destruct x; try exact Logic.I; exact (S H).
Qed.

(* ---------------------------------------------------------------- the return-data window *)
Lemma nth_zfirstn (l : list Z) n j d : (j < n)%nat -> nth j (firstn n l) d = nth j l d.
Proof.
  intros L. destruct (Nat.lt_ge_cases j (length l)) as [H|H].
  - rewrite <- (firstn_skipn n l) at 2. rewrite app_nth1; [reflexivity|]. rewrite firstn_length. lia.
  - rewrite (nth_overflow l) by lia. apply nth_overflow. rewrite firstn_length. lia.
Qed.

(* insert_call_outcome on the caller: size, alignment and context structure unchanged; the context
   afterwards is  old prefix ++ copied return data ++ old suffix  with the copy at ret_off, of
   length min(ret_len, |return data|) — or untouched when that is empty or the result is neither
   ok nor a revert *)
Theorem call_outcome_memory I c r I2 :
  insert_call_outcome I c r = Some I2 -> mem_ok (i_mem I) ->
  let v := firstn (Z.to_nat (Z.min (cq_ret_len c) (zlen (ir_out r)))) (ir_out r) in
  mem_ok (i_mem I2) /\ M.mlen (i_mem I2) = M.mlen (i_mem I) /\
  ((v = [] \/ (is_ok (ir_res r) || is_revert (ir_res r)) = false) /\ M.ctx (i_mem I2) = M.ctx (i_mem I) \/
   (v <> [] /\ (is_ok (ir_res r) || is_revert (ir_res r)) = true /\
    0 <= cq_ret_off c /\ cq_ret_off c + zlen v <= M.mlen (i_mem I) /\
    M.ctx (i_mem I2) = M.zfirstn (cq_ret_off c) (M.ctx (i_mem I)) ++ v ++ M.zskipn (cq_ret_off c + zlen v) (M.ctx (i_mem I)))).
Proof.
  intros E H. cbv zeta. set (v := firstn _ _).
  destruct (mem_ok_inv _ H) as [INV L0].
  assert (PM : forall I3 flag I4, i_mem I3 = i_mem I ->
    (let '(m', panicked) := M.set (i_mem I3) (cq_ret_off c) v in
     if panicked then None else Some (set_stk (set_mem I3 m') (flag :: i_stk I3))) = Some I4 ->
    mem_ok (i_mem I4) /\ M.mlen (i_mem I4) = M.mlen (i_mem I) /\
    ((v = [] /\ M.ctx (i_mem I4) = M.ctx (i_mem I)) \/
     (v <> [] /\ 0 <= cq_ret_off c /\ cq_ret_off c + zlen v <= M.mlen (i_mem I) /\
      M.ctx (i_mem I4) = M.zfirstn (cq_ret_off c) (M.ctx (i_mem I)) ++ v ++ M.zskipn (cq_ret_off c + zlen v) (M.ctx (i_mem I))))).
  { intros I3 flag I4 EM. rewrite EM. destruct (M.set (i_mem I) (cq_ret_off c) v) as [m' p] eqn:ES. destruct p; [discriminate|].
    intros E4. injection E4 as <-. cbn [set_stk set_mem i_mem].
    pose proof (set_mgrow _ _ _ _ _ ES H) as [OK _].
    unfold M.set in ES. destruct v as [|b v'] eqn:EV.
    - injection ES as <-. split; [exact H|]. split; [reflexivity|]. left. split; reflexivity.
    - rewrite <- EV in *. assert (P : snd (M.write (i_mem I) (cq_ret_off c) v) = false) by (rewrite ES; reflexivity).
      pose proof (MP.write_window _ _ _ INV P) as WW. cbv zeta in WW. rewrite ES in WW. cbn [fst] in WW. destruct WW as [WL WC].
      split; [exact OK|]. split; [exact WL|]. right. split; [rewrite EV; discriminate|].
      unfold M.write in ES. destruct ((0 <=? cq_ret_off c) && _ && _) eqn:B; [|injection ES as _ X; discriminate].
      split; [lia|]. split; [unfold Step.zlen, M.zlen in *; lia|exact WC]. }
  unfold insert_call_outcome in E. fold v in E.
  destruct (is_ok (ir_res r)) eqn:OK.
  - destruct (Gas.erase_cost _ _); [|discriminate]. destruct (Gas.record_refund _ _); [|discriminate].
    apply PM in E; [|reflexivity]. destruct E as (A & B & [[C1 C2]|(C1 & C2 & C3 & C4)]).
    + split; [exact A|]. split; [exact B|]. left. split; [left; exact C1|exact C2].
    + split; [exact A|]. split; [exact B|]. right. cbn [orb]. repeat split; assumption.
  - destruct (is_revert (ir_res r)) eqn:RV.
    + destruct (Gas.erase_cost _ _); [|discriminate].
      apply PM in E; [|reflexivity]. destruct E as (A & B & [[C1 C2]|(C1 & C2 & C3 & C4)]).
      * split; [exact A|]. split; [exact B|]. left. split; [left; exact C1|exact C2].
      * split; [exact A|]. split; [exact B|]. right. cbn [orb]. repeat split; assumption.
    + injection E as <-. cbn [set_stk set_pc set_rd i_mem]. split; [exact H|]. split; [reflexivity|].
      left. split; [right; reflexivity|reflexivity].
Qed.

(* byte by byte: outside the window every byte of the caller's memory is what it was; inside it
   is the return data *)
Corollary call_outcome_bytes I c r I2 :
  insert_call_outcome I c r = Some I2 -> mem_ok (i_mem I) ->
  let n := Z.min (cq_ret_len c) (zlen (ir_out r)) in
  forall j : nat,
    (Z.of_nat j < cq_ret_off c \/ cq_ret_off c + Z.max n 0 <= Z.of_nat j ->
       nth j (M.ctx (i_mem I2)) 0 = nth j (M.ctx (i_mem I)) 0) /\
    (cq_ret_off c <= Z.of_nat j < cq_ret_off c + n ->
       nth j (M.ctx (i_mem I2)) 0 = nth j (M.ctx (i_mem I)) 0 \/
       nth j (M.ctx (i_mem I2)) 0 = nth (j - Z.to_nat (cq_ret_off c)) (ir_out r) 0).
Proof.
  intros E H n j. destruct (call_outcome_memory I c r I2 E H) as (OK2 & LEN & W). cbv zeta in W. fold n in W.
  set (v := firstn (Z.to_nat n) (ir_out r)) in *.
  assert (LV : zlen v = Z.max (Z.min n (zlen (ir_out r))) 0).
  { unfold v, Step.zlen. rewrite firstn_length. lia. }
  assert (LV2 : zlen v = Z.max n 0) by (unfold n in *; lia).
  destruct W as [[_ ->]|(NE & _ & O0 & O1 & ->)]; [split; intros; [reflexivity|left; reflexivity]|].
  destruct (mem_ok_inv _ H) as [INV L0]. pose proof (MO.zlen_ctx _ INV) as LC.
  set (l := M.ctx (i_mem I)) in *. unfold M.zfirstn, M.zskipn.
  assert (LF : length (firstn (Z.to_nat (cq_ret_off c)) l) = Z.to_nat (cq_ret_off c)).
  { rewrite firstn_length. unfold M.zlen, Step.zlen in *. lia. }
  split.
  - intros [Lt|Ge].
    + rewrite app_nth1 by lia. apply nth_zfirstn. lia.
    + rewrite app_nth2 by lia. rewrite app_nth2 by (unfold Step.zlen in *; lia).
      rewrite LF. rewrite <- JumpProofs.nth_skipn_add. f_equal. unfold Step.zlen in *. lia.
  - intros Rg. right. rewrite app_nth2 by lia. rewrite app_nth1 by (unfold Step.zlen in *; lia).
    rewrite LF. unfold v. apply nth_zfirstn. lia.
Qed.

(* a create leaves the caller's memory alone *)
Lemma create_outcome_memory I r a I2 : insert_create_outcome I r a = Some I2 -> i_mem I2 = i_mem I.
Proof.
  unfold insert_create_outcome. destruct (is_ok _).
  - destruct (Gas.erase_cost _ _); [|discriminate]. destruct (Gas.record_refund _ _); [|discriminate].
    intros E. injection E as <-. reflexivity.
  - destruct (is_revert _).
    + destruct (Gas.erase_cost _ _); [|discriminate]. intros E. injection E as <-. reflexivity.
    + intros E. injection E as <-. reflexivity.
Qed.

(* ---------------------------------------------------------------- along a run *)
(* every state of every frame of a run: a word-aligned frame memory; children start empty *)
Theorem reach_mem_ok W f G F I Gx Fx Ix :
  reach W f G F I Gx Fx Ix -> mem_ok (i_mem I) -> mem_ok (i_mem Ix).
Proof.
  apply (reach_inv W (fun _ _ I0 => mem_ok (i_mem I0))).
  - intros G0 F0 I0 G1 I1 HP ES. exact (proj1 (step_mem_ok W G0 F0 I0 G1 _ ES HP)).
  - intros G0 F0 I0 G1 c I1 Gc Fc Ic _ _ EC. apply call_child_new in EC. destruct EC as [-> _]. apply mem_ok_new.
  - intros f0 G0 F0 I0 G1 c I1 G2 r I2 HP ES _ EI. pose proof (step_mem_ok W G0 F0 I0 G1 _ ES HP) as [S _].
    exact (proj1 (call_outcome_memory I1 c r I2 EI S)).
  - intros G0 F0 I0 G1 c I1 Gc Fc Ic _ _ EC. apply create_child_new in EC. destruct EC as [-> _]. apply mem_ok_new.
  - intros f0 G0 F0 I0 G1 c I1 G2 r a I2 HP ES _ EI. pose proof (step_mem_ok W G0 F0 I0 G1 _ ES HP) as [S _].
    apply create_outcome_memory in EI. rewrite EI. exact S.
Qed.

(* the later states of ONE frame (not of its children) *)
Inductive frame_reach (W : world) : nat -> gstate -> fctx -> istate -> gstate -> istate -> Prop :=
| FHere f G F I : frame_reach W f G F I G I
| FNext f G F I G1 I1 Gx Ix :
    step W G F I = (G1, SNext I1) -> frame_reach W f G1 F I1 Gx Ix -> frame_reach W (S f) G F I Gx Ix
| FCall f G F I G1 c I1 G2 r I2 Gx Ix :
    step W G F I = (G1, SCall c I1) -> do_call W (exec f W) G1 c = XDone (G2, r) ->
    insert_call_outcome I1 c r = Some I2 ->
    frame_reach W f G2 F I2 Gx Ix -> frame_reach W (S f) G F I Gx Ix
| FCreate f G F I G1 c I1 G2 r a I2 Gx Ix :
    step W G F I = (G1, SCreate c I1) -> do_create W (exec f W) G1 c = XDone (G2, r, a) ->
    insert_create_outcome I1 r a = Some I2 ->
    frame_reach W f G2 F I2 Gx Ix -> frame_reach W (S f) G F I Gx Ix.

(* along a frame — across its own instructions and across complete calls and creates, whatever
   the children did — the memory never shrinks and stays word-aligned *)
Theorem frame_memory_grows W f G F I Gx Ix :
  frame_reach W f G F I Gx Ix -> mem_ok (i_mem I) ->
  mem_ok (i_mem Ix) /\ M.mlen (i_mem I) <= M.mlen (i_mem Ix).
Proof.
  induction 1 as [f G F I|f G F I G1 I1 Gx Ix ES _ IH|f G F I G1 c I1 G2 r I2 Gx Ix ES ED EI _ IH
                 |f G F I G1 c I1 G2 r a I2 Gx Ix ES ED EI _ IH]; intros HP.
  - split; [exact HP|lia].
  - destruct (step_mem_ok W G F I G1 _ ES HP) as [S L]. destruct (IH S). split; [assumption|lia].
  - destruct (step_mem_ok W G F I G1 _ ES HP) as [S L].
    destruct (call_outcome_memory I1 c r I2 EI S) as (S2 & L2 & _). destruct (IH S2). split; [assumption|lia].
  - destruct (step_mem_ok W G F I G1 _ ES HP) as [S L].
    apply create_outcome_memory in EI. rewrite EI in IH. destruct (IH S). split; [assumption|lia].
Qed.
