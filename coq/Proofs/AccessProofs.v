(* C34: cold/warm answers of the journaled state against the observation of Proofs/HostView.v. *)
From Coq Require Import FunctionalExtensionality.
From RevmV Require Import Base.Word Model.Host Proofs.HostView Proofs.HostUndo Proofs.HostGood
  Proofs.HostOps Proofs.HostOps3 Proofs.HostRevert Proofs.HostMain.
Local Open Scope Z_scope.

Definition acc_warm (d : db) (s : jstate) (a : Z) : bool := v_warm (view_acc d s a).
Definition slot_warm (d : db) (s : jstate) (a k : Z) : bool := snd (v_slot (view_acc d s a) k).

(* the first access is cold exactly when the address is not warm; afterwards it is warm, and no
   other address or slot changes its status *)
Lemma view_absent d s a : st s a = None ->
  view_acc d s a = mkAV (a_bal (account_from_db d a)) (a_nonce (account_from_db d a)) (a_code (account_from_db d a))
                        false false false (a_lane (account_from_db d a)) (warm_pre s a)
                        (fun k => (db_storage d a k, db_storage d a k, false)).
Proof. intros E. unfold view_acc. rewrite E. reflexivity. Qed.

Lemma from_db_view d sp a :
  view_of_acc d sp a (account_from_db d a) =
  mkAV (a_bal (account_from_db d a)) (a_nonce (account_from_db d a)) (a_code (account_from_db d a))
       false false false (a_lane (account_from_db d a)) true
       (fun k => (db_storage d a k, db_storage d a k, false)).
Proof.
  unfold view_of_acc, account_from_db, seen_touched, slot_view.
  destruct (db_basic d a) as [[[b n] c]|]; cbn; destruct (sp && _); reflexivity.
Qed.

Lemma load_cold_iff d s a :
  snd (load_account d s a) = negb (acc_warm d s a) /\
  acc_warm d (fst (load_account d s a)) a = true /\
  (forall x, x <> a -> acc_warm d (fst (load_account d s a)) x = acc_warm d s x) /\
  (forall x k, slot_warm d (fst (load_account d s a)) x k = slot_warm d s x k).
Proof.
  unfold acc_warm, slot_warm, load_account. destruct (st s a) as [acc|] eqn:E.
  - destruct (a_cold acc) eqn:C; cbn [fst snd].
    + split; [rewrite (view_acc_present d s a acc E); cbn; rewrite C; reflexivity|].
      split; [rewrite view_acc_push, view_acc_put, Z.eqb_refl; reflexivity|].
      split.
      * intros x Hx. rewrite view_acc_push, view_acc_put, (eqb_ne x a Hx). reflexivity.
      * intros x k. rewrite view_acc_push, view_acc_put. destruct (x =? a) eqn:X; [|reflexivity].
        apply Z.eqb_eq in X. subst. rewrite (view_acc_present d s a acc E). reflexivity.
    + split; [rewrite (view_acc_present d s a acc E); cbn; rewrite C; reflexivity|].
      split; [rewrite (view_acc_present d s a acc E); cbn; rewrite C; reflexivity|]. auto.
  - destruct (warm_pre s a) eqn:W; cbn [fst snd].
    + split; [rewrite (view_absent d s a E); cbn; rewrite W; reflexivity|].
      split; [rewrite view_acc_put, Z.eqb_refl, from_db_view; reflexivity|].
      split.
      * intros x Hx. rewrite view_acc_put, (eqb_ne x a Hx). reflexivity.
      * intros x k. rewrite view_acc_put. destruct (x =? a) eqn:X; [|reflexivity].
        apply Z.eqb_eq in X. subst. rewrite from_db_view, (view_absent d s a E). reflexivity.
    + split; [rewrite (view_absent d s a E); cbn; rewrite W; reflexivity|].
      split; [rewrite view_acc_push, view_acc_put, Z.eqb_refl, from_db_view; reflexivity|].
      split.
      * intros x Hx. rewrite view_acc_push, view_acc_put, (eqb_ne x a Hx). reflexivity.
      * intros x k. rewrite view_acc_push, view_acc_put. destruct (x =? a) eqn:X; [|reflexivity].
        apply Z.eqb_eq in X. subst. rewrite from_db_view, (view_absent d s a E). reflexivity.
Qed.

Lemma sload_cold_iff d s a k s' v c :
  sload d s a k = Some (s', v, c) ->
  c = negb (slot_warm d s a k) /\ slot_warm d s' a k = true /\
  (forall x, acc_warm d s' x = acc_warm d s x) /\
  (forall x j, (x, j) <> (a, k) -> slot_warm d s' x j = slot_warm d s x j).
Proof.
  unfold sload, slot_warm, acc_warm. destruct (st s a) as [acc|] eqn:E; [|discriminate].
  assert (Gen : forall sl', 
    let s1 := push (put s a (acc_storage acc (upd (a_storage acc) k (Some sl')))) (StorageWarmed a k) in
    s_cold sl' = false ->
    snd (v_slot (view_acc d s1 a) k) = true /\
    (forall x, v_warm (view_acc d s1 x) = v_warm (view_acc d s x)) /\
    (forall x j, (x, j) <> (a, k) -> snd (v_slot (view_acc d s1 x) j) = snd (v_slot (view_acc d s x) j))).
  { intros sl' s1 Hc. unfold s1. split; [|split].
    - rewrite view_acc_push, view_acc_put, Z.eqb_refl. cbn. rewrite slot_view_upd, upd_same. cbn. rewrite Hc. reflexivity.
    - intros x. rewrite view_acc_push, view_acc_put. destruct (x =? a) eqn:X; [|reflexivity].
      apply Z.eqb_eq in X. subst. rewrite (view_acc_present d s a acc E). reflexivity.
    - intros x j Hn. rewrite view_acc_push, view_acc_put. destruct (x =? a) eqn:X; [|reflexivity].
      apply Z.eqb_eq in X. subst. rewrite (view_acc_present d s a acc E). cbn. rewrite slot_view_upd.
      unfold upd. destruct (j =? k) eqn:J; [|reflexivity]. apply Z.eqb_eq in J. subst. congruence. }
  rewrite (view_acc_present d s a acc E). cbn [v_slot view_of_acc]. unfold slot_view at 1.
  destruct (a_storage acc k) as [sl|] eqn:K.
  - destruct (s_cold sl) eqn:C; intros [= <- <- <-].
    + cbn. split; [reflexivity|]. apply (Gen (mkSlot (s_orig sl) (s_pres sl) false)). reflexivity.
    + cbn. split; [reflexivity|]. rewrite (view_acc_present d s a acc E). cbn. unfold slot_view. rewrite K, C. auto.
  - intros [= <- <- <-]. cbn. split; [reflexivity|].
    apply (Gen (mkSlot (if a_created acc then 0 else db_storage d a k) (if a_created acc then 0 else db_storage d a k) false)). reflexivity.
Qed.

(* transaction-level pre-warming: pre-warmed addresses are warm before they are ever loaded *)
Lemma preloaded_is_warm d s a : st s a = None -> acc_warm d s a = warm_pre s a.
Proof. unfold acc_warm, view_acc. intros ->. reflexivity. Qed.

(* access-list entries: after initial_account_load the address and the listed slots are warm *)
Lemma preload_slots_spec d a ks : forall acc k,
  match a_storage (preload_slots d a acc ks) k with
  | Some sl => (exists sl0, a_storage acc k = Some sl0 /\ sl = sl0) \/
               (a_storage acc k = None /\ In k ks /\ s_cold sl = false)
  | None => a_storage acc k = None /\ ~ In k ks
  end.
Proof.
  induction ks as [|k0 r IH]; intros acc k; cbn [preload_slots].
  - destruct (a_storage acc k) eqn:E; [left; eauto|split; auto].
  - specialize (IH (match a_storage acc k0 with
                    | Some _ => acc
                    | None => acc_storage acc (upd (a_storage acc) k0 (Some (mkSlot (db_storage d a k0) (db_storage d a k0) false)))
                    end) k).
    destruct (a_storage (preload_slots d a _ r) k) as [sl|] eqn:P.
    + destruct IH as [(sl0 & H0 & ->)|(H0 & Hin & Hc)].
      * destruct (a_storage acc k0) eqn:K0; [left; eauto|].
        cbn [a_storage acc_storage] in H0. unfold upd in H0. destruct (k =? k0) eqn:X.
        -- apply Z.eqb_eq in X. subst. injection H0 as <-. right. split; [exact K0|]. split; [left; reflexivity|reflexivity].
        -- left. eauto.
      * destruct (a_storage acc k0) eqn:K0; [right; split; [exact H0|split; [right; exact Hin|exact Hc]]|].
        cbn [a_storage acc_storage] in H0. unfold upd in H0. destruct (k =? k0); [discriminate|].
        right. split; [exact H0|]. split; [right; exact Hin|exact Hc].
    + destruct IH as [H0 Hn]. destruct (a_storage acc k0) eqn:K0.
      * split; [exact H0|]. intros [->|Hi]; [congruence|contradiction].
      * cbn [a_storage acc_storage] in H0. unfold upd in H0. destruct (k =? k0) eqn:X; [discriminate|].
        split; [exact H0|]. intros [<-|Hi]; [rewrite Z.eqb_refl in X; discriminate|contradiction].
Qed.

Lemma initial_load_warms d s a ks :
  st s a = None ->
  acc_warm d (initial_account_load d s a ks) a = true /\
  forall k, In k ks -> slot_warm d (initial_account_load d s a ks) a k = true.
Proof.
  intros E. unfold initial_account_load, acc_warm, slot_warm, view_acc. rewrite E, st_put, Z.eqb_refl. cbn.
  assert (Hc : forall acc, a_cold (preload_slots d a acc ks) = a_cold acc).
  { clear. induction ks as [|k r IH]; intros acc; cbn [preload_slots]; [reflexivity|].
    rewrite IH. destruct (a_storage acc k); reflexivity. }
  split.
  - rewrite Hc. unfold account_from_db. destruct (db_basic d a) as [[[b n] c]|]; reflexivity.
  - intros k Hin. unfold slot_view. pose proof (preload_slots_spec d a ks (account_from_db d a) k) as P.
    destruct (a_storage (preload_slots d a (account_from_db d a) ks) k) as [sl|].
    + destruct P as [(sl0 & H0 & _)|(_ & _ & Hcold)].
      * unfold account_from_db in H0. destruct (db_basic d a) as [[[b n] c]|]; discriminate.
      * cbn. rewrite Hcold. reflexivity.
    + destruct P as [_ Hn]. contradiction.
Qed.
