From stdpp Require Import gmap.
From Coq Require Import ZArith Lia.
From RevmV Require Import Spec.DbSpec Model.Db Proofs.DbProofs Model.CreateCollision.
Local Open Scope Z_scope.

Lemma checks_reach e : checks_pass e ->
  make_create_frame e =
  create_account_checkpoint e (mkAcct (t_nonce (e_caller e) + 1) (t_balance (e_caller e)) (t_code_hash (e_caller e))).
Proof.
  intros (Hd & He & Hv & Hn & Hp). unfold make_create_frame.
  destruct (Z.ltb_spec CALL_STACK_LIMIT (e_depth e)); [lia|]. rewrite He.
  destruct (Z.ltb_spec (t_balance (e_caller e)) (e_value e)); [lia|].
  destruct (Z.eqb_spec (t_nonce (e_caller e)) U64_MAX); [contradiction|]. rewrite Hp. reflexivity.
Qed.
Lemma collision_iff e : checks_pass e -> (p_res (make_create_frame e) = RCreateCollision <-> occupied e).
Proof.
  intros Hc. rewrite (checks_reach e Hc). unfold create_account_checkpoint, occupied.
  destruct (Z.eqb_spec (t_code_hash (e_target e)) KECCAK_EMPTY_);
  destruct (Z.eqb_spec (t_nonce (e_target e)) 0); destruct (e_has_storage e); cbn;
    try (split; [intros _; tauto|reflexivity]).
  destruct (pow256_ <=? _); cbn; split; try discriminate; intros [?|[?|?]]; congruence.
Qed.
Lemma collision_effects e : p_res (make_create_frame e) = RCreateCollision ->
  gas_given_back (p_res (make_create_frame e)) (e_gas_limit e) = 0 /\
  p_target (make_create_frame e) = e_target e /\ p_target_created (make_create_frame e) = false /\
  t_nonce (p_caller (make_create_frame e)) = t_nonce (e_caller e) + 1 /\
  t_balance (p_caller (make_create_frame e)) = t_balance (e_caller e).
Proof.
  intros Hr. rewrite Hr. split; [reflexivity|]. revert Hr. unfold make_create_frame, create_account_checkpoint.
  repeat match goal with |- context [if ?b then _ else _] => destruct b end; cbn; try discriminate; auto.
Qed.

(* the has_storage answer of the database layers (C20) *)
Lemma cache_layer_collides H u c s e : has_sound u -> R H u c s -> checks_pass e ->
  forall t, p_has_storage s t = true -> e_has_storage e = has_storage_ref u c t ->
  p_res (make_create_frame e) = RCreateCollision.
Proof.
  intros Hs HR Hc t Hp He. apply collision_iff; [exact Hc|]. right; right. rewrite He.
  apply p_has_storage_true in Hp as (k & Hk). rewrite <- (R_storage _ _ _ _ HR) in Hk. eapply has_ref_sound; eauto.
Qed.
Lemma state_layer_has u qs t : wf_data u -> has_sound u ->
  st_has_storage u (st_after u state_new qs) t = u_has u t.
Proof.
  intros Hwf Hs. pose proof (SInv_after u Hwf Hs qs state_new (SInv_new u)) as HI.
  destruct (st_query_ok u _ (QHas t) Hwf Hs HI) as [_ [He|[_ []]]]. cbn in He. congruence.
Qed.
