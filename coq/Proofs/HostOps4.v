(* Good-ness of selfdestruct. *)
From Coq Require Import FunctionalExtensionality.
From RevmV Require Import Base.Word Model.Host Proofs.HostView Proofs.HostUndo Proofs.HostGood
  Proofs.HostOps Proofs.HostOps2 Proofs.HostOps3.
Local Open Scope Z_scope.

Lemma wrap0 b : in_u256 b -> wrap256 (0 + b) = b.
Proof. intros H. rewrite Z.add_0_l. apply wrap256_id. exact H. Qed.

Lemma WF_put_bal d s a acc acc' :
  WF d s -> st s a = Some acc -> in_u256 (a_bal acc') -> (a_created acc' = true -> a_created acc = true) ->
  WF d (put s a acc').
Proof.
  intros (A & B & C) E R H. split; [apply WFb_put; assumption|]. split; [eapply CZ_put; eauto|exact C].
Qed.

Lemma Good_selfdestruct d s a t s' hv te pd c :
  WF d s -> selfdestruct d s a t = Some (s', hv, te, pd, c) -> Good d s s' /\ WF d s'.
Proof.
  intros W. unfold selfdestruct.
  pose proof (Good_load d s t (proj2 (proj2 W))) as G1. pose proof (WF_load d s t W) as W1.
  destruct (load_account d s t) as [s1 cold]. cbn [fst] in *.
  destruct (st s1 t) as [tacc0|] eqn:Et0; [|discriminate].
  destruct (Z.eq_dec a t) as [->|Nat].
  - (* beneficiary = self *)
    rewrite Z.eqb_refl, Et0.
    assert (Rb : in_u256 (a_bal tacc0)) by (destruct W1 as [[A _] _]; eapply A; eauto).
    destruct (a_created tacc0 || negb (cancun s1)) eqn:D.
    + intros [= <- _ _ _ _]. split.
      * eapply Good_trans; [exact G1|].
        eapply (Good_one d s1 t tacc0 (acc_bal (acc_selfd tacc0 true) 0)
                  (acc_bal (acc_selfd (acc_bal (acc_selfd tacc0 true) 0) (a_selfd tacc0)) (wrap256 (0 + a_bal tacc0))));
          [exact Et0|auto|reflexivity| |].
        -- cbn [undo]. rewrite st_push, st_put, !Z.eqb_refl. cbn [a_bal acc_bal acc_selfd]. reflexivity.
        -- rewrite (wrap0 _ Rb). unfold view_of_acc. cbn. reflexivity.
      * apply WF_push. eapply WF_put_bal; eauto. cbn. unfold_pows. lia.
    + intros [= <- _ _ _ _]. split; assumption.
  - (* beneficiary <> self *)
    rewrite (eqb_ne a t Nat).
    destruct (st s1 a) as [acc|] eqn:Ea; [|discriminate].
    pose proof (Good_touch_account d s1 t tacc0 (proj2 (proj2 W1)) Et0) as G2.
    pose proof (WF_touch_account d s1 t tacc0 W1 Et0) as W2.
    set (s2 := touch_account s1 t tacc0) in *.
    destruct (st s2 t) as [tacc|] eqn:Et; [|discriminate].
    assert (Ea2 : st s2 a = Some acc).
    { unfold s2. rewrite touch_account_st, (eqb_ne a t Nat). cbn. exact Ea. }
    rewrite st_put, (eqb_ne a t Nat), Ea2.
    assert (Ra : in_u256 (a_bal acc)) by (destruct W2 as [[A _] _]; eapply A; eauto).
    assert (Rt : in_u256 (a_bal tacc)) by (destruct W2 as [[A _] _]; eapply A; eauto).
    assert (G12 : Good d s s2) by (eapply Good_trans; eauto).
    set (tb' := acc_bal tacc (wrap256 (a_bal tacc + a_bal acc))).
    assert (Wt : WF d (put s2 t tb')).
    { eapply WF_put_bal; eauto. cbn. apply wrap256_range. }
    assert (Ea3 : st (put s2 t tb') a = Some acc) by (rewrite st_put, (eqb_ne a t Nat); exact Ea2).
    cbn [cancun put set_st].
    destruct (a_created acc || negb (cancun s2)) eqn:D.
    + intros [= <- _ _ _ _]. split.
      * eapply Good_trans; [exact G12|].
        eapply (Good_two d s2 t a _ tacc acc tb' (acc_bal (acc_selfd acc true) 0)
                  (acc_bal tb' (wrap256 (a_bal tb' - a_bal acc)))
                  (acc_bal (acc_selfd (acc_bal (acc_selfd acc true) 0) (a_selfd acc)) (wrap256 (0 + a_bal acc))));
          [congruence|exact Et|exact Ea2|reflexivity|reflexivity|reflexivity| | |].
        -- cbn [undo]. rewrite st_push, !st_put, Z.eqb_refl. cbn [a_bal acc_bal acc_selfd].
           rewrite (eqb_ne a t Nat). rewrite !st_put, st_push, !st_put.
           assert ((t =? a) = false) as -> by (apply eqb_ne; congruence). rewrite Z.eqb_refl.
           f_equal. apply put_put_comm. exact Nat.
        -- unfold tb'. cbn [a_bal acc_bal]. rewrite wrap_wrap_add_sub by exact Rt.
           unfold view_of_acc. cbn. reflexivity.
        -- rewrite (wrap0 _ Ra). unfold view_of_acc. cbn. reflexivity.
      * apply WF_push. eapply WF_put_bal; eauto. cbn. unfold_pows. lia.
    + destruct (negb (a =? t)) eqn:Q; [|rewrite (eqb_ne a t Nat) in Q; discriminate].
      intros [= <- _ _ _ _]. split.
      * eapply Good_trans; [exact G12|].
        replace (put (put s2 t tb') a (acc_bal acc 0))
          with (put (put s2 a (acc_bal acc 0)) t (acc_bal tacc (wrap256 (a_bal tacc + a_bal acc))))
          by (apply put_put_comm; exact Nat).
        apply Good_xfer_ne; auto.
        -- apply wrap0. exact Ra.
        -- apply wrap_wrap_add_sub. exact Rt.
      * apply WF_push. eapply WF_put_bal; eauto. cbn. unfold_pows. lia.
Qed.
