(* C16 preservation, part 3: from one address to the whole bundle (the loop of
   apply_transitions_and_create_reverts is a per-key merge), from one group to a history
   (induction over the groups, for every grouping), and the theorem. *)
From stdpp Require Import gmap.
From Coq Require Import ZArith Lia.
From RevmV Require Import Model.Bundle Spec.BundleSpec Spec.BundleHist Proofs.BundleProofs
  Proofs.BundleProofsBase Proofs.BundleProofsAcct.
Local Open Scope Z_scope.

(* the bundle and the history state agree on every address *)
Definition binv (b : bundle) (p0 : plain) (h : hstate) : Prop :=
  forall a, acct_inv2 p0 (h_plain h) a (status_at (h_st h) (h_plain h) a) (bs_state b !! a).

Lemma binv_empty p0 : binv bundle_empty p0 (h0 p0).
Proof.
  intros a. unfold bundle_empty; cbn [bs_state h0 h_plain h_st]. rewrite lookup_empty.
  cbn [acct_inv2]. split; [reflexivity|]. split; [reflexivity|].
  unfold status_at. rewrite lookup_empty. unfold load_status.
  destruct (acc_get p0 a) as [i|]; [destruct (info_is_empty i)|]; discriminate.
Qed.

Lemma binv_bundle_inv b p0 h : binv b p0 h -> bundle_inv b p0 (h_plain h).
Proof. intros H a. apply (acct_inv2_inv _ _ _ _ _ (H a)). Qed.

Lemma acct_inv2_ext p0 p p' a s ob :
  acc_get p' a = acc_get p a -> (forall k, stor_get p' a k = stor_get p a k) ->
  acct_inv2 p0 p a s ob -> acct_inv2 p0 p' a s ob.
Proof.
  intros Ha Hk. destruct ob as [b|]; cbn [acct_inv2].
  - intros (H1 & H2 & H3 & H4). split; [rewrite Ha; exact H1|]. split; [exact H2|].
    split; [intros k; rewrite Hk; apply H3 | exact H4].
  - intros (H1 & H2 & H3). split; [rewrite Ha; exact H1|]. split; [|exact H3].
    intros k. rewrite Hk. apply H2.
Qed.

(* what one address sees of apply_transitions_and_create_reverts *)
Definition state_of (r : option (option bacc * option arevert)) : option bacc :=
  match r with Some (Some ba, _) => Some ba | _ => None end.
Definition revert_of (r : option (option bacc * option arevert)) : option arevert :=
  match r with Some (_, Some ar) => Some ar | _ => None end.

Lemma apply_pointwise b p0 h1 h2 (m : gmap Z tacc) a :
  hinv h1 -> binv b p0 h1 -> ginv h1 h2 m ->
  exists ob', acct_inv2 p0 (h_plain h2) a (status_at (h_st h2) (h_plain h2) a) ob' /\
    (diag_None apply_merge (bs_state b !! a) (m !! a) = None /\ ob' = None
     \/ exists r, diag_None apply_merge (bs_state b !! a) (m !! a) = Some (Some (ob', r))).
Proof.
  intros Hh Hb Hg. specialize (Hb a). specialize (Hg a). unfold ginv, tstate in *.
  destruct (m !! a) as [t|] eqn:Em.
  - destruct Hg as (Hm & Hp & Hs).
    rewrite <- Hp in Hb.
    assert (Hgone : is_gone (t_pstatus t) = true <-> acc_get (h_plain h1) a = None)
      by (rewrite Hp; apply status_at_gone, Hh).
    assert (Hz : acc_get (h_plain h1) a = None -> forall k, stor_get (h_plain h1) a k = 0)
      by (intros H k; apply (proj1 Hh), H).
    destruct (acct_step _ _ _ _ _ _ Hb Hm Hgone Hz) as (ob' & r & Ha & Hi).
    exists ob'. split.
    + unfold status_at. rewrite Hs. exact Hi.
    + right. exists r. destruct (bs_state b !! a); cbn [diag_None apply_merge]; rewrite Ha; reflexivity.
  - destruct Hg as (Ha & Hk & Hs).
    assert (Hst : status_at (h_st h2) (h_plain h2) a = status_at (h_st h1) (h_plain h1) a)
      by (unfold status_at; rewrite Hs, Ha; reflexivity).
    exists (bs_state b !! a). split.
    + rewrite Hst. apply (acct_inv2_ext _ (h_plain h1)); assumption.
    + destruct (bs_state b !! a) as [ba|]; cbn [diag_None apply_merge].
      * right. exists None. reflexivity.
      * left. auto.
Qed.

Lemma binv_group b p0 h1 h2 m retain :
  hinv h1 -> binv b p0 h1 -> ginv h1 h2 m ->
  exists b', apply_transitions_and_create_reverts b m retain = Some b' /\ binv b' p0 h2.
Proof.
  intros Hh Hb Hg. unfold apply_transitions_and_create_reverts, tstate in *.
  rewrite bool_decide_eq_true_2.
  - eexists. split; [reflexivity|]. intros a. cbn [bs_state].
    rewrite lookup_omap, lookup_merge.
    destruct (apply_pointwise b p0 h1 h2 m a Hh Hb Hg) as (ob' & Hi & [(-> & ->)|(r & ->)]).
    + exact Hi.
    + cbn. destruct ob'; exact Hi.
  - apply map_Forall_lookup. intros a x. rewrite lookup_merge.
    destruct (apply_pointwise b p0 h1 h2 m a Hh Hb Hg) as (ob' & Hi & [(-> & ->)|(r & ->)]).
    + discriminate.
    + intros [= <-]. eexists. reflexivity.
Qed.

Lemma flat_cons g gs : flat (g :: gs) = concat g ++ flat gs.
Proof. unfold flat. simpl. apply concat_app. Qed.

Lemma bundle_from_cons retain b g gs :
  bundle_from retain b (g :: gs) =
  match apply_transitions_and_create_reverts b (group_tstate g) retain with
  | Some b' => bundle_from retain b' gs
  | None => None
  end.
Proof.
  unfold bundle_from. simpl.
  destruct (apply_transitions_and_create_reverts b (group_tstate g) retain); [reflexivity|].
  induction gs; simpl; auto.
Qed.

(* the whole history, for every grouping *)
Lemma binv_history p0 retain groups : forall b h,
  hinv h -> binv b p0 h -> hist_ok h (flat groups) = true ->
  exists b', bundle_from retain b groups = Some b'
             /\ binv b' p0 (hist_run h (flat groups)) /\ hinv (hist_run h (flat groups)).
Proof.
  induction groups as [|g gs IH]; intros b h Hh Hb Hok.
  - exists b. split; [reflexivity|]. split; assumption.
  - rewrite flat_cons in *. rewrite hist_ok_app in Hok. apply andb_true_iff in Hok as [Hg Hr].
    destruct (ginv_group h g Hh Hg) as (Hh' & Hgi).
    destruct (binv_group b p0 h _ _ retain Hh Hb Hgi) as (b1 & Hb1 & Hbi).
    destruct (IH b1 _ Hh' Hbi Hr) as (b' & Hb' & Hfin).
    exists b'. split; [|rewrite hist_run_app; exact Hfin].
    rewrite bundle_from_cons, Hb1. exact Hb'.
Qed.

Lemma plain_nocode_nocode p : plain_nocode p -> nocode p.
Proof. intros H a i Hi. specialize (H a i Hi). destruct i; simpl in *. subst. reflexivity. Qed.

Theorem bundle_preservation p0 groups retain :
  HistOK p0 groups ->
  exists b, bundle_of retain groups = Some b /\ bundle_inv b p0 (plain_after p0 groups).
Proof.
  intros (Hw & Hn & Hok). apply plain_nocode_nocode in Hn.
  destruct (binv_history p0 retain groups bundle_empty (h0 p0) (hinv_h0 _ Hw Hn) (binv_empty p0) Hok)
    as (b & Hb & Hi & _).
  exists b. split; [exact Hb|]. apply binv_bundle_inv, Hi.
Qed.

Theorem changeset_correct p0 groups retain known :
  HistOK p0 groups ->
  exists b, bundle_of retain groups = Some b /\
    plain_equiv (apply_changeset (to_plain_state b known) p0) (plain_after p0 groups).
Proof.
  intros Hok. destruct (bundle_preservation p0 groups retain Hok) as (b & Hb & Hi).
  exists b. split; [exact Hb|]. apply changeset_of_inv, Hi.
Qed.
