(* Proofs about Model/Handler.v: the reward switch is invariant under reconfiguration, the
   documented resets turn it on, settlement with the switch off skips exactly the reward step. *)
From RevmV Require Import Base.Word Model.Gas Model.Handler.
Local Open Scope Z_scope.

(* ------------------------------------------------------------------ registers re-applied *)

Lemma reward_on_append h r :
  reward_on (append_handler_register h r) = apply_flag (r_eff r) (reward_on h).
Proof. unfold reward_on, append_handler_register. cbn. destruct (r_eff r); reflexivity. Qed.

Lemma reapply_cons base r t : reapply base (r :: t) = reapply (append_handler_register base r) t.
Proof. reflexivity. Qed.

Lemma reapply_spec regs : forall base, h_spec (reapply base regs) = h_spec base.
Proof. induction regs as [|r t IH]; intros base; [reflexivity|]. rewrite reapply_cons, IH. reflexivity. Qed.

Lemma reapply_optimism regs : forall base, h_optimism (reapply base regs) = h_optimism base.
Proof. induction regs as [|r t IH]; intros base; [reflexivity|]. rewrite reapply_cons, IH. reflexivity. Qed.

Lemma reapply_regs regs : forall base, h_regs (reapply base regs) = h_regs base ++ regs.
Proof.
  induction regs as [|r t IH]; intros base.
  - cbn. rewrite app_nil_r. reflexivity.
  - rewrite reapply_cons, IH. cbn. rewrite <- app_assoc. reflexivity.
Qed.

Lemma reapply_flag regs : forall base, reward_on (reapply base regs) = fold_flag regs (reward_on base).
Proof.
  induction regs as [|r t IH]; intros base; [reflexivity|].
  rewrite reapply_cons, IH, reward_on_append. reflexivity.
Qed.

Lemma fold_flag_cons r t b : fold_flag (r :: t) b = fold_flag t (apply_flag (r_eff r) b).
Proof. reflexivity. Qed.

Lemma fold_flag_app l1 l2 b : fold_flag (l1 ++ l2) b = fold_flag l2 (fold_flag l1 b).
Proof. unfold fold_flag. apply fold_left_app. Qed.

(* re-applying a register list is the identity or a constant on the flag *)
Lemma fold_flag_shape regs :
  (forall b, fold_flag regs b = b) \/ (exists c, forall b, fold_flag regs b = c).
Proof.
  induction regs as [|r t IH].
  - left. reflexivity.
  - destruct IH as [Hid | [c Hc]].
    + destruct (r_eff r) as [|o] eqn:E.
      * left. intros b. rewrite fold_flag_cons, Hid, E. reflexivity.
      * right. exists (is_some o). intros b. rewrite fold_flag_cons, Hid, E. reflexivity.
    + right. exists c. intros b. rewrite fold_flag_cons. apply Hc.
Qed.

Lemma fold_flag_idem regs b : fold_flag regs (fold_flag regs b) = fold_flag regs b.
Proof.
  destruct (fold_flag_shape regs) as [Hid | [c Hc]].
  - rewrite !Hid. reflexivity.
  - rewrite !Hc. reflexivity.
Qed.

Lemma eff_ok_apply b e : eff_ok b e = true -> apply_flag e b = b.
Proof. destruct e as [|o]; cbn; [reflexivity|]. intros H. apply Bool.eqb_prop in H. exact H. Qed.

Lemma regs_ok_fold b regs : regs_ok b regs = true -> fold_flag regs b = b.
Proof.
  induction regs as [|r t IH]; [reflexivity|].
  unfold regs_ok. cbn [forallb]. rewrite andb_true_iff. intros [Hr Ht].
  rewrite fold_flag_cons, (eff_ok_apply _ _ Hr). apply IH. exact Ht.
Qed.

Lemma regs_ok_app b l1 l2 : regs_ok b (l1 ++ l2) = regs_ok b l1 && regs_ok b l2.
Proof. unfold regs_ok. apply forallb_app. Qed.

Lemma regs_ok_removelast b l : regs_ok b l = true -> regs_ok b (removelast l) = true.
Proof.
  induction l as [|r t IH]; [reflexivity|].
  unfold regs_ok in *. cbn [forallb]. rewrite andb_true_iff. intros [Hr Ht].
  destruct t as [|r' t']; [reflexivity|].
  change (removelast (r :: r' :: t')) with (r :: removelast (r' :: t')).
  cbn [forallb]. rewrite Hr. cbn [andb]. apply IH. exact Ht.
Qed.

Lemma reward_on_mainnet fe s b : reward_on (mainnet_with_spec fe s b) = b.
Proof. destruct b; reflexivity. Qed.

Lemma regs_mainnet fe s b : h_regs (mainnet_with_spec fe s b) = [].
Proof. reflexivity. Qed.

Lemma reward_on_optimism fe s b : reward_on (optimism_with_spec fe s b) = b.
Proof. destruct b; reflexivity. Qed.

Lemma reward_on_handler_new fe s o : reward_on (handler_new fe s o) = true.
Proof. unfold handler_new. destruct (f_optimism fe && o); reflexivity. Qed.

(* the rebuilt handler: base = mainnet with the flag in force, then the registers *)
Lemma rebuild_flag fe s h regs :
  reward_on (reapply (mainnet_with_spec fe s (reward_on h)) regs) = fold_flag regs (reward_on h).
Proof. rewrite reapply_flag, reward_on_mainnet. reflexivity. Qed.

Lemma rebuild_regs fe s b regs : h_regs (reapply (mainnet_with_spec fe s b) regs) = regs.
Proof. rewrite reapply_regs. reflexivity. Qed.

(* ------------------------------------------------------------------ wf: compatible registers *)

Lemma wf_mainnet fe s b : wf (mainnet_with_spec fe s b) = true.
Proof. reflexivity. Qed.

Lemma wf_optimism fe s b : wf (optimism_with_spec fe s b) = true.
Proof. destruct b; reflexivity. Qed.

Lemma wf_handler_new fe s o : wf (handler_new fe s o) = true.
Proof. unfold handler_new. destruct (f_optimism fe && o); reflexivity. Qed.

Lemma modify_spec_id_flag_regs fe h s :
  reward_on (modify_spec_id fe h s) = (if h_spec h =? s then reward_on h else fold_flag (h_regs h) (reward_on h))
  /\ h_regs (modify_spec_id fe h s) = h_regs h.
Proof.
  unfold modify_spec_id. destruct (h_spec h =? s); [split; reflexivity|].
  split.
  - rewrite <- (rebuild_flag fe s h (h_regs h)). reflexivity.
  - cbn [h_regs]. apply rebuild_regs.
Qed.

Lemma pop_flag_regs fe h :
  reward_on (fst (pop_handle_register fe h)) =
    (match h_regs h with [] => reward_on h | _ => fold_flag (removelast (h_regs h)) (reward_on h) end)
  /\ h_regs (fst (pop_handle_register fe h)) = removelast (h_regs h).
Proof.
  unfold pop_handle_register. destruct (h_regs h) as [|r t] eqn:E.
  - cbn [fst]. rewrite E. split; reflexivity.
  - cbn [fst]. split; [apply rebuild_flag | apply rebuild_regs].
Qed.

Lemma create_generic_flag_regs fe h s :
  reward_on (fst (create_handle_generic fe h s)) = fold_flag (h_regs h) (reward_on h)
  /\ h_regs (fst (create_handle_generic fe h s)) = h_regs h.
Proof. unfold create_handle_generic. cbn [fst]. split; [apply rebuild_flag | apply rebuild_regs]. Qed.

(* one non-reset step keeps the flag and well-formedness *)
Lemma step_keeps fe h o :
  wf h = true -> ops_ok (reward_on h) [o] = true ->
  reward_on (step fe h o) = installed_flag (reward_on h) [o] /\ wf (step fe h o) = true.
Proof.
  intros Hwf Hok. unfold wf in *.
  destruct o as [rt s | rt r | | s | | h' | k]; cbn [step installed_flag].
  - destruct (modify_spec_id_flag_regs fe h s) as [Hf Hr]. rewrite Hr.
    assert (Hf' : reward_on (modify_spec_id fe h s) = reward_on h).
    { rewrite Hf. destruct (h_spec h =? s); [reflexivity|]. apply regs_ok_fold. exact Hwf. }
    rewrite Hf'. split; [reflexivity | exact Hwf].
  - cbn [ops_ok] in Hok. rewrite andb_true_r in Hok.
    rewrite reward_on_append, (eff_ok_apply _ _ Hok). split; [reflexivity|].
    cbn [append_handler_register h_regs]. rewrite regs_ok_app, Hwf. cbn. rewrite Hok. reflexivity.
  - destruct (pop_flag_regs fe h) as [Hf Hr]. rewrite Hr.
    assert (Hf' : reward_on (fst (pop_handle_register fe h)) = reward_on h).
    { rewrite Hf. destruct (h_regs h) as [|r t] eqn:E; [reflexivity|].
      apply regs_ok_fold. apply regs_ok_removelast. exact Hwf. }
    rewrite Hf'. split; [reflexivity|]. apply regs_ok_removelast. exact Hwf.
  - destruct (create_generic_flag_regs fe h s) as [Hf Hr]. rewrite Hr, Hf.
    rewrite (regs_ok_fold _ _ Hwf). split; [reflexivity | exact Hwf].
  - split; [reflexivity | exact Hwf].
  - cbn [ops_ok] in Hok. rewrite andb_true_iff in Hok. destruct Hok as [Hw _].
    split; [reflexivity | exact Hw].
  - cbn [ops_ok] in Hok. discriminate.
Qed.

Lemma ops_ok_cons b o t :
  ops_ok b (o :: t) = ops_ok b [o] && ops_ok (installed_flag b [o]) t.
Proof.
  destruct o as [rt s | rt r | | s | | h' | k]; cbn [ops_ok installed_flag]; try reflexivity.
  - rewrite andb_true_r. reflexivity.
  - rewrite andb_true_r. reflexivity.
Qed.

Lemma installed_flag_cons b o t : installed_flag b (o :: t) = installed_flag (installed_flag b [o]) t.
Proof. destruct o; reflexivity. Qed.

Theorem reward_flag_invariant fe : forall ops h,
  wf h = true -> ops_ok (reward_on h) ops = true ->
  reward_on (run fe h ops) = installed_flag (reward_on h) ops /\ wf (run fe h ops) = true.
Proof.
  induction ops as [|o t IH]; intros h Hwf Hok.
  - split; [reflexivity | exact Hwf].
  - rewrite ops_ok_cons, andb_true_iff in Hok. destruct Hok as [Ho Ht].
    destruct (step_keeps fe h o Hwf Ho) as [Hf Hw].
    change (run fe h (o :: t)) with (run fe (step fe h o) t).
    rewrite installed_flag_cons, <- Hf. apply IH; [exact Hw|]. rewrite Hf. exact Ht.
Qed.

Lemma ops_ok_app b l1 l2 : ops_ok b (l1 ++ l2) = true -> ops_ok b l1 = true.
Proof.
  revert b. induction l1 as [|o t IH]; intros b H; [reflexivity|].
  rewrite <- app_comm_cons, ops_ok_cons, andb_true_iff in H. destruct H as [Ho Ht].
  rewrite ops_ok_cons, Ho. cbn [andb]. apply (IH _ Ht).
Qed.

(* ... hence after every prefix of the sequence *)
Theorem reward_flag_invariant_prefix fe ops1 ops2 h :
  wf h = true -> ops_ok (reward_on h) (ops1 ++ ops2) = true ->
  reward_on (run fe h ops1) = installed_flag (reward_on h) ops1.
Proof.
  intros Hwf Hok. apply (reward_flag_invariant fe ops1 h Hwf). apply (ops_ok_app _ _ _ Hok).
Qed.

(* ------------------------------------------------------------------ arbitrary registers *)

Lemma consistent_mainnet fe s b : consistent (mainnet_with_spec fe s b).
Proof. unfold consistent. reflexivity. Qed.

Lemma consistent_optimism fe s b : consistent (optimism_with_spec fe s b).
Proof. unfold consistent. destruct b; reflexivity. Qed.

Lemma consistent_handler_new fe s o : consistent (handler_new fe s o).
Proof. unfold handler_new. destruct (f_optimism fe && o); [apply consistent_optimism | apply consistent_mainnet]. Qed.

Lemma consistent_append h r : consistent h -> consistent (append_handler_register h r).
Proof.
  unfold consistent. intros H. rewrite reward_on_append. cbn [append_handler_register h_regs].
  rewrite fold_flag_app. destruct (r_eff r) as [|o] eqn:E.
  - cbn [apply_flag]. rewrite H. unfold fold_flag. cbn. rewrite E. reflexivity.
  - unfold fold_flag at 1. cbn. rewrite E. reflexivity.
Qed.

Lemma consistent_rebuild fe s b regs : consistent (reapply (mainnet_with_spec fe s b) regs).
Proof.
  unfold consistent. rewrite rebuild_regs, reapply_flag, reward_on_mainnet. apply fold_flag_idem.
Qed.

Lemma consistent_modify fe h s : consistent h -> consistent (modify_spec_id fe h s).
Proof.
  intros H. unfold modify_spec_id. destruct (h_spec h =? s); [exact H|].
  pose proof (consistent_rebuild fe s (reward_on h) (h_regs h)) as C. exact C.
Qed.

Lemma consistent_pop fe h : consistent h -> consistent (fst (pop_handle_register fe h)).
Proof.
  intros H. unfold pop_handle_register. destruct (h_regs h) eqn:E; [exact H|].
  cbn [fst]. apply consistent_rebuild.
Qed.

Lemma consistent_create fe h s : consistent (fst (create_handle_generic fe h s)).
Proof. unfold create_handle_generic. cbn [fst]. apply consistent_rebuild. Qed.

Lemma consistent_reset fe h k : consistent (reset fe h k).
Proof.
  destruct k; cbn [reset]; auto using consistent_handler_new, consistent_optimism, consistent_mainnet.
Qed.

Fixpoint installs_consistent (ops : list op) : Prop :=
  match ops with
  | [] => True
  | Install h :: t => consistent h /\ installs_consistent t
  | _ :: t => installs_consistent t
  end.

Lemma consistent_step fe h o : consistent h -> installs_consistent [o] -> consistent (step fe h o).
Proof.
  intros H Hi. destruct o; cbn [step].
  - apply consistent_modify; exact H.
  - apply consistent_append; exact H.
  - apply consistent_pop; exact H.
  - apply consistent_create.
  - exact H.
  - cbn in Hi. tauto.
  - apply consistent_reset.
Qed.

Theorem consistent_run fe : forall ops h,
  consistent h -> installs_consistent ops -> consistent (run fe h ops).
Proof.
  induction ops as [|o t IH]; intros h H Hi; [exact H|].
  change (run fe h (o :: t)) with (run fe (step fe h o) t). apply IH.
  - apply consistent_step; [exact H|]. destruct o; cbn in *; tauto.
  - destruct o; cbn in *; tauto.
Qed.

(* spec change and generic rebuild keep the flag whatever the registers do *)
Theorem modify_spec_id_keeps_flag fe h s : consistent h -> reward_on (modify_spec_id fe h s) = reward_on h.
Proof.
  intros H. destruct (modify_spec_id_flag_regs fe h s) as [Hf _]. rewrite Hf.
  destruct (h_spec h =? s); [reflexivity | exact H].
Qed.

Theorem create_handle_generic_keeps_flag fe h s :
  consistent h -> reward_on (fst (create_handle_generic fe h s)) = reward_on h.
Proof. intros H. destruct (create_generic_flag_regs fe h s) as [Hf _]. rewrite Hf. exact H. Qed.

(* popping a register that does not assign the reward handle keeps the flag *)
Theorem pop_neutral_keeps_flag fe h regs r :
  consistent h -> h_regs h = regs ++ [r] -> r_eff r = KeepsReward ->
  reward_on (fst (pop_handle_register fe h)) = reward_on h.
Proof.
  intros H E Hr. destruct (pop_flag_regs fe h) as [Hf _]. rewrite Hf, E.
  rewrite removelast_last.
  unfold consistent in H. rewrite E, fold_flag_app in H.
  unfold fold_flag at 1 in H. cbn in H. rewrite Hr in H. cbn in H.
  destruct (regs ++ [r]) eqn:E2; [destruct regs; discriminate|]. exact H.
Qed.

(* ------------------------------------------------------------------ other components *)

Theorem modify_spec_id_sets_spec fe h s : h_spec (modify_spec_id fe h s) = s.
Proof. unfold modify_spec_id. destruct (h_spec h =? s) eqn:E; [apply Z.eqb_eq; exact E | reflexivity]. Qed.

Theorem modify_spec_id_keeps_optimism fe h s : h_optimism (modify_spec_id fe h s) = h_optimism h.
Proof. unfold modify_spec_id. destruct (h_spec h =? s); reflexivity. Qed.

(* ------------------------------------------------------------------ documented resets *)

Theorem reset_turns_reward_on fe h k : reward_on (reset fe h k) = true.
Proof.
  destruct k; cbn [reset]; auto using reward_on_handler_new, reward_on_optimism, reward_on_mainnet.
Qed.

(* ------------------------------------------------------------------ settlement *)

Lemma jget_jset s a v a' : jget (jset s a v) a' = if a' =? a then Some v else jget s a'.
Proof.
  induction s as [|[k w] t IH]; cbn [jset jget].
  - rewrite (Z.eqb_sym a a'). reflexivity.
  - destruct (k =? a) eqn:E; cbn [jget].
    + apply Z.eqb_eq in E. subst k. rewrite (Z.eqb_sym a a'). destruct (a' =? a); reflexivity.
    + destruct (k =? a') eqn:E2.
      * apply Z.eqb_eq in E2. subst k. rewrite E. reflexivity.
      * exact IH.
Qed.

Definition cur_bal (db : Z -> Z) (s : jstate) (a : Z) : Z :=
  match jget s a with Some v => a_bal v | None => db a end.

Lemma load_account_get db s a :
  jget (fst (load_account db s a)) a = Some (snd (load_account db s a))
  /\ a_bal (snd (load_account db s a)) = cur_bal db s a
  /\ forall a', a' <> a -> jget (fst (load_account db s a)) a' = jget s a'.
Proof.
  unfold load_account, cur_bal. destruct (jget s a) as [v|] eqn:E; cbn [fst snd].
  - split; [exact E|]. split; [reflexivity|]. intros a' Hne. reflexivity.
  - split; [rewrite jget_jset, Z.eqb_refl; reflexivity|]. split; [reflexivity|].
    intros a' Hne. rewrite jget_jset. apply Z.eqb_neq in Hne. rewrite Hne. reflexivity.
Qed.

Lemma credit_touch_sat_get db s a amt :
  jget (credit_touch_sat db s a amt) a = Some (mkAcct (sat256 (cur_bal db s a + amt)) true)
  /\ forall a', a' <> a -> jget (credit_touch_sat db s a amt) a' = jget s a'.
Proof.
  unfold credit_touch_sat. destruct (load_account_get db s a) as [_ [Hb Ho]].
  destruct (load_account db s a) as [s1 c]. cbn [fst snd] in *. split.
  - rewrite jget_jset, Z.eqb_refl, Hb. reflexivity.
  - intros a' Hne. rewrite jget_jset. pose proof Hne as Hne'. apply Z.eqb_neq in Hne'. rewrite Hne'. apply Ho. exact Hne.
Qed.

Lemma credit_touch_wrap_get db s a amt :
  jget (credit_touch_wrap db s a amt) a = Some (mkAcct (wrap256 (cur_bal db s a + amt)) true)
  /\ forall a', a' <> a -> jget (credit_touch_wrap db s a amt) a' = jget s a'.
Proof.
  unfold credit_touch_wrap. destruct (load_account_get db s a) as [_ [Hb Ho]].
  destruct (load_account db s a) as [s1 c]. cbn [fst snd] in *. split.
  - rewrite jget_jset, Z.eqb_refl, Hb. reflexivity.
  - intros a' Hne. rewrite jget_jset. pose proof Hne as Hne'. apply Z.eqb_neq in Hne'. rewrite Hne'. apply Ho. exact Hne.
Qed.

(* the reward step writes only the beneficiaries *)
Lemma reward_step_frame custom db e used r s a :
  (forall id, r <> Some (CustomReward id)) ->
  ~ In a (beneficiaries e r) -> jget (reward_step custom db e used r s) a = jget s a.
Proof.
  intros Hc Hn. unfold reward_step. destruct (p_reward_disabled e); [reflexivity|].
  destruct r as [[| |id]|]; cbn [beneficiaries] in *.
  - unfold mainnet_reward. apply credit_touch_sat_get. intros ->. apply Hn. left. reflexivity.
  - unfold optimism_reward. destruct (p_deposit e); [reflexivity|].
    cbn [In] in Hn.
    rewrite (proj2 (credit_touch_wrap_get db _ OPERATOR_FEE_RECIPIENT _)) by (intros ->; tauto).
    rewrite (proj2 (credit_touch_wrap_get db _ BASE_FEE_RECIPIENT _)) by (intros ->; tauto).
    rewrite (proj2 (credit_touch_wrap_get db _ L1_FEE_RECIPIENT _)) by (intros ->; tauto).
    unfold mainnet_reward. apply credit_touch_sat_get. intros ->. tauto.
  - exfalso. apply (Hc id). reflexivity.
  - reflexivity.
Qed.

(* post-execution with a reward handle = post-execution without it, followed by the reward step
   on the same gas figure: gas used, refund and every earlier write are the same function of the
   same inputs *)
Theorem post_execution_factor custom db e r g x fl s :
  post_execution custom db e r g x fl s =
  (let '(used, refd, s_off) := post_execution custom db e None g x fl s in
   (used, refd, reward_step custom db e used r s_off)).
Proof. unfold post_execution, reward_step. destruct (p_reward_disabled e); reflexivity. Qed.

Theorem settlement_off_vs_on custom db e r g x fl s :
  (forall id, r <> Some (CustomReward id)) ->
  let '(u_on, rf_on, s_on) := post_execution custom db e r g x fl s in
  let '(u_off, rf_off, s_off) := post_execution custom db e None g x fl s in
  u_on = u_off /\ rf_on = rf_off /\
  (forall a, ~ In a (beneficiaries e r) -> jget s_on a = jget s_off a).
Proof.
  intros Hc. rewrite post_execution_factor.
  destruct (post_execution custom db e None g x fl s) as [[u rf] s_off].
  split; [reflexivity|]. split; [reflexivity|].
  intros a Hn. apply reward_step_frame; assumption.
Qed.

(* mainnet: the two final states differ exactly by the coinbase credit *)
Theorem settlement_mainnet_coinbase custom db e g x fl s :
  p_reward_disabled e = false ->
  let '(u, _, s_on) := post_execution custom db e (Some MainnetReward) g x fl s in
  let '(_, _, s_off) := post_execution custom db e None g x fl s in
  jget s_on (p_coinbase e) =
    Some (mkAcct (sat256 (cur_bal db s_off (p_coinbase e) + wrap256 (coinbase_gas_price e * u))) true)
  /\ (forall a, a <> p_coinbase e -> jget s_on a = jget s_off a).
Proof.
  intros Hd. rewrite post_execution_factor.
  destruct (post_execution custom db e None g x fl s) as [[u rf] s_off].
  unfold reward_step. rewrite Hd. unfold mainnet_reward. apply credit_touch_sat_get.
Qed.

(* the configuration flag alone switches the reward off, whatever handle is installed *)
Theorem settlement_cfg_disabled custom db e r g x fl s :
  p_reward_disabled e = true ->
  post_execution custom db e r g x fl s = post_execution custom db e None g x fl s.
Proof.
  intros Hd. rewrite post_execution_factor.
  destruct (post_execution custom db e None g x fl s) as [[u rf] s_off].
  unfold reward_step. rewrite Hd. reflexivity.
Qed.

(* with the handle absent nobody is credited: the state is the one reimburse_caller left *)
Theorem settlement_off_skips custom db e g x fl s :
  snd (post_execution custom db e None g x fl s) =
  reimburse_caller db e (refund_and_floor g x fl (p_london e)) s.
Proof. unfold post_execution, reward_step. destruct (p_reward_disabled e); reflexivity. Qed.
