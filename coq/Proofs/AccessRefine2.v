(* C34 refinement, part 2: the effect of every operation on the warm status. *)
From Coq Require Import FunctionalExtensionality.
From RevmV Require Import Base.Word Model.Host Spec.AccessSpec Proofs.HostView Proofs.HostUndo
  Proofs.HostGood Proofs.HostOps Proofs.HostOps2 Proofs.HostOps3 Proofs.HostOps4 Proofs.HostRevert
  Proofs.HostMain Proofs.AccessProofs Proofs.AccessRefine.
Local Open Scope Z_scope.

Lemma eff_load d s a w :
  R d s w ->
  R d (fst (load_account d s a)) (fst (acc_access w a)) /\
  snd (load_account d s a) = snd (acc_access w a).
Proof.
  intros [A B]. destruct (load_cold_iff d s a) as (C1 & C2 & C3 & C4).
  unfold acc_access. cbn [fst snd]. split; [|rewrite C1, A; reflexivity].
  split.
  - intros x. cbn [as_acc]. unfold upd. destruct (x =? a) eqn:X.
    + apply Z.eqb_eq in X. subst. exact C2.
    + rewrite C3, A; [reflexivity|]. intros ->. rewrite Z.eqb_refl in X. discriminate.
  - intros x k. cbn [as_slot]. rewrite C4. apply B.
Qed.

Lemma eff_sload d s a k s' v c w :
  R d s w -> sload d s a k = Some (s', v, c) ->
  R d s' (fst (slot_access w a k)) /\ c = snd (slot_access w a k).
Proof.
  intros [A B] L. destruct (sload_cold_iff d s a k s' v c L) as (C1 & C2 & C3 & C4).
  unfold slot_access. cbn [fst snd]. split; [|rewrite C1, B; reflexivity].
  split.
  - intros x. cbn [as_acc]. rewrite C3. apply A.
  - intros x j. cbn [as_slot]. unfold upd2. destruct ((x =? a) && (j =? k)) eqn:X.
    + apply andb_true_iff in X. destruct X as [X1 X2]. apply Z.eqb_eq in X1, X2. subst. exact C2.
    + rewrite C4, B; [reflexivity|]. intros [= -> ->]. rewrite !Z.eqb_refl in X. discriminate.
Qed.

Lemma sw_sstore_tail d s a k new s' o p c :
  sstore d s a k new = Some (s', o, p, c) ->
  exists s1 v, sload d s a k = Some (s1, v, c) /\ same_warm d s1 s'.
Proof.
  unfold sstore. destruct (sload d s a k) as [[[s1 present] cold]|] eqn:L; [|discriminate].
  destruct (st s1 a) as [acc|] eqn:E; [|discriminate].
  destruct (a_storage acc k) as [sl|] eqn:K; [|discriminate].
  destruct (present =? new).
  - intros [= <- _ _ <-]. exists s1, present. split; [reflexivity|apply sw_refl].
  - intros [= <- _ _ <-]. exists s1, present. split; [reflexivity|].
    eapply sw_trans; [apply (sw_push d s1 (StorageChanged a k present))|].
    apply (sw_put d _ a acc); [rewrite st_push; exact E|reflexivity|].
    intros j. rewrite slot_view_upd. unfold upd. destruct (j =? k) eqn:J; [|reflexivity].
    apply Z.eqb_eq in J. subst. unfold slot_view. rewrite K. reflexivity.
Qed.

Lemma sw_put_bal d s a acc b : st s a = Some acc -> same_warm d s (put s a (acc_bal acc b)).
Proof. intros E. apply (sw_put_same_storage d s a acc); auto. Qed.

Lemma sw_transfer d s f t v s' r :
  transfer d s f t v = Some (s', r) ->
  same_warm d (fst (load_account d (fst (load_account d s f)) t)) s'.
Proof.
  unfold transfer. destruct (load_account d s f) as [s1 c1]. cbn [fst]. destruct (load_account d s1 t) as [s2 c2].
  cbn [fst]. destruct (st s2 f) as [fa|] eqn:Ef; [|discriminate].
  pose proof (sw_touch_account d s2 f fa Ef) as S3. set (s3 := touch_account s2 f fa) in *.
  destruct (st s3 f) as [fa3|] eqn:Ef3; [|discriminate].
  destruct (a_bal fa3 <? v); [intros [= <- _]; exact S3|].
  pose proof (sw_put_bal d s3 f fa3 (a_bal fa3 - v) Ef3) as S4. set (s4 := put s3 f _) in *.
  destruct (st s4 t) as [ta|] eqn:Et; [|discriminate].
  pose proof (sw_touch_account d s4 t ta Et) as S5. set (s5 := touch_account s4 t ta) in *.
  destruct (st s5 t) as [ta5|] eqn:Et5; [|discriminate].
  assert (S25 : same_warm d s2 s5) by (eapply sw_trans; [exact S3|]; eapply sw_trans; [exact S4|exact S5]).
  destruct (pow256 <=? a_bal ta5 + v).
  - destruct (st s5 f) as [fa5|] eqn:Ef5; [|discriminate]. intros [= <- _].
    eapply sw_trans; [exact S25|]. apply sw_put_bal. exact Ef5.
  - intros [= <- _]. eapply sw_trans; [exact S25|].
    eapply sw_trans; [apply sw_put_bal; exact Et5|]. apply sw_push.
Qed.

Lemma sw_selfdestruct d s a t s' hv te pd c :
  selfdestruct d s a t = Some (s', hv, te, pd, c) ->
  same_warm d (fst (load_account d s t)) s' /\ c = snd (load_account d s t).
Proof.
  unfold selfdestruct. destruct (load_account d s t) as [s1 cold]. cbn [fst snd].
  destruct (st s1 t) as [tacc0|] eqn:Et0; [|discriminate].
  assert (Tail : forall s3, same_warm d s1 s3 ->
    match st s3 a with
    | Some acc =>
        Some (if a_created acc || negb (cancun s3)
              then push (put s3 a (acc_bal (acc_selfd acc true) 0)) (AccountDestroyed a t (a_selfd acc) (a_bal acc))
              else if negb (a =? t) then push (put s3 a (acc_bal acc 0)) (BalanceTransfer a t (a_bal acc)) else s3,
              negb (a_bal acc =? 0), negb (state_clear_aware_is_empty s1 tacc0), a_selfd acc, cold)
    | None => None
    end = Some (s', hv, te, pd, c) -> same_warm d s1 s' /\ c = cold).
  { intros s3 S3. destruct (st s3 a) as [acc|] eqn:Ea; [|discriminate].
    intros [= <- _ _ _ <-]. split; [|reflexivity].
    destruct (a_created acc || negb (cancun s3)).
    - eapply sw_trans; [exact S3|]. eapply sw_trans; [|apply sw_push].
      apply (sw_put_same_storage d s3 a acc); auto.
    - destruct (negb (a =? t)); [|exact S3].
      eapply sw_trans; [exact S3|]. eapply sw_trans; [|apply sw_push]. apply sw_put_bal. exact Ea. }
  destruct (a =? t).
  - apply Tail. apply sw_refl.
  - destruct (st s1 a) as [acc|] eqn:Ea; [|discriminate].
    pose proof (sw_touch_account d s1 t tacc0 Et0) as S2. set (s2 := touch_account s1 t tacc0) in *.
    destruct (st s2 t) as [tacc|] eqn:Et; [|discriminate].
    apply Tail. eapply sw_trans; [exact S2|]. apply sw_put_bal. exact Et.
Qed.

Lemma sw_inc_nonce d s a s' r : inc_nonce s a = Some (s', r) -> same_warm d s s'.
Proof.
  unfold inc_nonce. destruct (st s a) as [acc|] eqn:E; [|discriminate].
  destruct (a_nonce acc =? U64MAX); [intros [= <- _]; apply sw_refl|].
  pose proof (sw_touch_account d s a acc E) as S1.
  destruct (st (touch_account s a acc) a) as [acc1|] eqn:E1; [|discriminate]. intros [= <- _].
  eapply sw_trans; [exact S1|]. eapply sw_trans; [apply (sw_push d _ (NonceChange a))|].
  apply (sw_put_same_storage d _ a acc1); [rewrite st_push; exact E1|reflexivity|reflexivity].
Qed.

Lemma sw_set_code d s a c s' : set_code s a c = Some s' -> same_warm d s s'.
Proof.
  unfold set_code. destruct (st s a) as [acc|] eqn:E; [|discriminate].
  pose proof (sw_touch_account d s a acc E) as S1.
  destruct (st (touch_account s a acc) a) as [acc1|] eqn:E1; [|discriminate]. intros [= <-].
  eapply sw_trans; [exact S1|]. eapply sw_trans; [apply (sw_push d _ (CodeChange a))|].
  apply (sw_put_same_storage d _ a acc1); [rewrite st_push; exact E1|reflexivity|reflexivity].
Qed.

Lemma sw_touch d s a : same_warm d s (touch s a).
Proof. unfold touch. destruct (st s a) eqn:E; [apply sw_touch_account; exact E|apply sw_refl]. Qed.

Lemma sw_set_ts d s f : same_warm d s (set_ts s f).
Proof. split; reflexivity. Qed.
Lemma sw_tstore d s a k v : same_warm d s (tstore s a k v).
Proof.
  unfold tstore. destruct (v =? 0); destruct (_ =? _);
    try (eapply sw_trans; [apply sw_set_ts|apply sw_push]); apply sw_set_ts.
Qed.
Lemma sw_log d s l : same_warm d s (log s l).
Proof. split; reflexivity. Qed.
Lemma sw_reframe d s l dp j : same_warm d s (reframe s l dp j).
Proof. split; reflexivity. Qed.

(* a successful create_account_checkpoint changes no warm status *)
Lemma sw_create_ok d s c a hs v sp s' cp :
  create_account_checkpoint s c a hs v sp = Some (s', CreateOk cp) -> same_warm d s s'.
Proof.
  unfold create_account_checkpoint. destruct (checkpoint s) as [s1 cp1] eqn:CP.
  assert (S1 : same_warm d s s1) by (unfold checkpoint in CP; injection CP as <- _; split; reflexivity).
  destruct (st s1 a) as [acc|] eqn:Ea; [|discriminate].
  destruct (negb (a_code acc =? 0) || negb (a_nonce acc =? 0) || hs).
  { destruct (checkpoint_revert s1 cp1); discriminate. }
  set (s2 := push (put s1 a (acc_created acc true)) (AccountCreated a)).
  assert (S2 : same_warm d s1 s2).
  { eapply sw_trans; [|apply sw_push]. apply (sw_put_same_storage d s1 a acc); auto. }
  assert (E2 : st s2 a = Some (acc_created acc true)) by (unfold s2; rewrite st_push, st_put, Z.eqb_refl; reflexivity).
  rewrite E2. pose proof (sw_touch_account d s2 a _ E2) as S3. set (s3 := touch_account s2 a _) in *.
  destruct (st s3 a) as [acc3|] eqn:E3; [|discriminate].
  destruct (pow256 <=? a_bal acc3 + v); [destruct (checkpoint_revert s3 cp1); discriminate|].
  set (acc5 := if sp then _ else _).
  assert (S5 : same_warm d s3 (put s3 a acc5)).
  { apply (sw_put_same_storage d s3 a acc3 acc5 E3); unfold acc5; destruct sp; reflexivity. }
  destruct (st (put s3 a acc5) c) as [cacc|] eqn:Ec; [|discriminate]. intros [= <- _].
  eapply sw_trans; [exact S1|]. eapply sw_trans; [exact S2|]. eapply sw_trans; [exact S3|].
  eapply sw_trans; [exact S5|]. eapply sw_trans; [|apply sw_push]. apply sw_put_bal. exact Ec.
Qed.
