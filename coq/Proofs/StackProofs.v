From RevmV Require Import Base.Word Model.Stack Spec.StackSpec.
Local Open Scope Z_scope.

(* ------------------------------------------------------------------ big-endian values *)
Lemma fold_be_acc l : forall a,
  fold_left (fun a b => a * 256 + b) l a = a * 256 ^ Z.of_nat (length l) + be_bytes l.
Proof.
  unfold be_bytes. induction l as [|b l IH]; intros a.
  - simpl. lia.
  - cbn [fold_left length]. rewrite IH. rewrite (IH (0 * 256 + b)).
    rewrite Nat2Z.inj_succ, Z.pow_succ_r by lia. ring.
Qed.

Lemma be_bytes_cons b l : be_bytes (b :: l) = b * 256 ^ Z.of_nat (length l) + be_bytes l.
Proof. unfold be_bytes at 1. cbn [fold_left]. rewrite fold_be_acc. ring. Qed.

(* Horner evaluation (u64::from_be_bytes / U256::from_be_bytes) = the positional sum *)
Lemma be_bytes_value l : be_bytes l = be_value l.
Proof. induction l as [|b l IH]; [reflexivity|]. rewrite be_bytes_cons, IH. reflexivity. Qed.

Lemma be_bytes_app a b : be_bytes (a ++ b) = be_bytes a * 256 ^ Z.of_nat (length b) + be_bytes b.
Proof.
  induction a as [|x a IH]; [cbn [app]; change (be_bytes []) with 0; lia|].
  rewrite <- app_comm_cons, !be_bytes_cons, IH, app_length, Nat2Z.inj_add, Z.pow_add_r by lia. ring.
Qed.

Lemma be_bytes_zeros k : be_bytes (zeros k) = 0.
Proof. induction k as [|k IH]; [reflexivity|]. unfold zeros in *. cbn [repeat]. rewrite be_bytes_cons, IH. lia. Qed.

(* left-padding with zero bytes does not change the value: "right-aligned" *)
Lemma be_bytes_left_pad k l : be_bytes (zeros k ++ l) = be_bytes l.
Proof. rewrite be_bytes_app, be_bytes_zeros. lia. Qed.

Lemma be_bytes_range l : Forall is_byte l -> 0 <= be_bytes l < 256 ^ Z.of_nat (length l).
Proof.
  induction 1 as [|b l Hb Hl IH]; [cbn; lia|].
  rewrite be_bytes_cons. cbn [length]. rewrite Nat2Z.inj_succ, Z.pow_succ_r by lia.
  unfold is_byte in Hb. nia.
Qed.

(* ------------------------------------------------------------------ chunking *)
Lemma chunks_f_nil f k : chunks_f f k [] = [].
Proof. destruct f; reflexivity. Qed.

Definition opt_chunk (r : list Z) : list (list Z) := match r with [] => [] | _ => [r] end.

Lemma shorter_spec l k : shorter l k = (length l <? k)%nat.
Proof.
  unfold shorter. rewrite firstn_length.
  destruct (Nat.ltb_spec (length l) k); destruct (Nat.ltb_spec (Nat.min k (length l)) k); lia.
Qed.

Lemma chunks_exact_f_spec k : (0 < k)%nat -> forall f l, (length l <= f)%nat ->
  let '(cs, r) := chunks_exact_f f k l in
  chunks_f f k l = cs ++ opt_chunk r /\ Forall (fun c => length c = k) cs /\ (length r < k)%nat
  /\ l = concat cs ++ r.
Proof.
  intros Hk. induction f as [|f IH]; intros l Hl.
  - destruct l; [|simpl in Hl; lia]. cbn. repeat split; auto.
  - cbn [chunks_exact_f chunks_f]. rewrite shorter_spec. destruct (Nat.ltb_spec (length l) k) as [Hlt|Hge].
    + destruct l as [|x l'].
      * cbn. repeat split; auto.
      * rewrite firstn_all2 by lia. rewrite skipn_all2 by lia. rewrite chunks_f_nil.
        cbn. repeat split; auto.
    + specialize (IH (skipn k l)). rewrite skipn_length in IH.
      destruct (chunks_exact_f f k (skipn k l)) as [cs r].
      destruct IH as (E & F & R & C); [lia|].
      destruct l as [|x l']; [simpl in Hge; lia|].
      rewrite E. repeat split; auto.
      * constructor; auto. rewrite firstn_length. lia.
      * cbn [concat]. rewrite <- app_assoc, <- C. symmetry. apply firstn_skipn.
Qed.

Lemma chunks_exact_spec l :
  let '(cs, r) := chunks_exact 32 l in
  chunks 32 l = cs ++ opt_chunk r /\ Forall (fun c => length c = 32%nat) cs /\ (length r < 32)%nat
  /\ l = concat cs ++ r.
Proof. unfold chunks_exact, chunks. apply chunks_exact_f_spec; lia. Qed.

(* ------------------------------------------------------------------ limbs *)
Ltac destruct_list l n :=
  match n with
  | O => destruct l; [|simpl in *; try lia; try discriminate]
  | S ?n' => destruct l as [|? l]; [simpl in *; try lia; try discriminate | destruct_list l n']
  end.

(* a full 32-byte word: the four limbs written by the inner loop recombine to its value *)
Lemma full_word_limbs w : length w = 32%nat ->
  exists l0 l1 l2 l3, map be_bytes (fst (rchunks_exact 8 w)) = [l0; l1; l2; l3] /\
                      word_of_limbs l0 l1 l2 l3 = be_bytes w.
Proof.
  intros H.
  do 32 (destruct w as [|? w]; [discriminate H|]). destruct w; [|discriminate H].
  cbn -[Z.mul Z.add be_bytes].
  do 4 eexists. split; [reflexivity|].
  unfold word_of_limbs, pow64, pow128, be_bytes. cbn [fold_left]. ring.
Qed.

Definition tail_limbs (p : list Z) : list Z :=
  let '(limbs, pl) := rchunks_exact 8 p in
  map be_bytes limbs ++
  match pl with [] => [] | _ => [be_bytes (zeros (8 - length pl) ++ pl)] end.

Definition pad4 (t : list Z) : list Z :=
  t ++ match (length t mod 4)%nat with O => [] | m => zeros (4 - m) end.

(* a short last chunk (1..31 bytes): limbs + zero fill recombine to its big-endian value,
   i.e. the chunk is right-aligned in the word *)
Lemma partial_word_limbs p : (0 < length p < 32)%nat ->
  words_of_limbs (pad4 (tail_limbs p)) = [be_bytes p].
Proof.
  intros H.
  destruct p as [|? p]; [simpl in H; lia|].
  do 31 (try (destruct p as [|? p];
    [ unfold pad4, tail_limbs; cbn -[Z.mul Z.add be_bytes]; f_equal;
      unfold word_of_limbs, pow64, pow128, be_bytes; cbn [fold_left app zeros repeat]; ring | ])).
  simpl in H. lia.
Qed.

Definition word_limbs (w : list Z) : list Z := map be_bytes (fst (rchunks_exact 8 w)).

Lemma words_full cs : Forall (fun c => length c = 32%nat) cs -> forall rest,
  words_of_limbs (flat_map word_limbs cs ++ rest) = map be_bytes cs ++ words_of_limbs rest
  /\ length (flat_map word_limbs cs) = (length cs * 4)%nat.
Proof.
  induction 1 as [|c cs Hc Hcs IH]; intros rest; [split; reflexivity|].
  cbn [flat_map map length].
  destruct (full_word_limbs c Hc) as (l0 & l1 & l2 & l3 & E & W).
  unfold word_limbs at 1 3. rewrite E. destruct (IH rest) as [IH1 IH2].
  split.
  - cbn [app words_of_limbs]. rewrite IH1, W. reflexivity.
  - cbn [app length]. rewrite IH2. lia.
Qed.

Lemma push_slice_limbs_words bs :
  words_of_limbs (push_slice_limbs bs) = map be_bytes (chunks 32 bs).
Proof.
  unfold push_slice_limbs. pose proof (chunks_exact_spec bs) as S.
  destruct (chunks_exact 32 bs) as [cs r]. destruct S as (E & F & R & C).
  rewrite E, map_app. fold word_limbs.
  destruct r as [|x r'].
  - cbn [opt_chunk map]. rewrite <- (app_nil_r (flat_map word_limbs cs)).
    rewrite (proj1 (words_full cs F [])). reflexivity.
  - set (p := x :: r') in *. cbn [opt_chunk map].
    pose proof (partial_word_limbs p) as P. unfold pad4, tail_limbs in P.
    destruct (rchunks_exact 8 p) as [limbs pl].
    set (t1 := map be_bytes limbs) in *.
    set (t2 := match pl with [] => [] | _ => [be_bytes (zeros (8 - length pl) ++ pl)] end) in *.
    destruct (words_full cs F []) as [_ L]. rewrite L.
    replace ((length cs * 4 + length t1 + length t2) mod 4)%nat with (length (t1 ++ t2) mod 4)%nat.
    2:{ rewrite app_length.
        replace (length cs * 4 + length t1 + length t2)%nat with ((length t1 + length t2) + length cs * 4)%nat by lia.
        rewrite Nat.mod_add by lia. reflexivity. }
    replace (t1 ++ t2 ++ match (length (t1 ++ t2) mod 4)%nat with O => [] | S _ => zeros (4 - length (t1 ++ t2) mod 4) end)
      with ((t1 ++ t2) ++ match (length (t1 ++ t2) mod 4)%nat with O => [] | S n => zeros (4 - S n) end).
    2:{ rewrite <- app_assoc. do 2 f_equal. destruct (length (t1 ++ t2) mod 4)%nat; reflexivity. }
    rewrite (proj1 (words_full cs F _)). rewrite P; [reflexivity|].
    unfold p in *. cbn [length] in *. lia.
Qed.

(* number of words = ceil(len / 32): the debug_assert of push_slice as a lemma *)
Lemma chunks_f_length f : forall l, (length l <= f)%nat ->
  Z.of_nat (length (chunks_f f 32 l)) = (Z.of_nat (length l) + 31) / 32.
Proof.
  induction f as [|f IH]; intros l Hl.
  - destruct l; [reflexivity|simpl in Hl; lia].
  - destruct l as [|x l']; [reflexivity|]. cbn [chunks_f]. set (l := x :: l') in *.
    cbn [length]. rewrite Nat2Z.inj_succ, IH by (rewrite skipn_length; lia).
    rewrite skipn_length. destruct (Nat.le_gt_cases 32 (length l)) as [G|G].
    + rewrite Nat2Z.inj_sub by lia.
      replace (Z.of_nat (length l) + 31) with ((Z.of_nat (length l) - Z.of_nat 32 + 31) + 1 * 32) by lia.
      rewrite Z.div_add by lia. lia.
    + replace (length l - 32)%nat with O by lia.
      assert (0 < Z.of_nat (length l)) by (unfold l; cbn [length]; lia).
      change ((Z.of_nat 0 + 31) / 32) with 0.
      assert ((Z.of_nat (length l) + 31) / 32 = 1); [|lia].
      symmetry. apply Z.div_unique with (r := Z.of_nat (length l) - 1); lia.
Qed.

Lemma chunks_length bs : Z.of_nat (length (chunks 32 bs)) = n_words bs.
Proof. unfold chunks, n_words. apply chunks_f_length. lia. Qed.

Lemma push_slice_limbs_count bs :
  Z.of_nat (length (words_of_limbs (push_slice_limbs bs))) = n_words bs.
Proof. rewrite push_slice_limbs_words, map_length. apply chunks_length. Qed.

(* ------------------------------------------------------------------ list plumbing *)
Lemma slen_rev l : slen (rev l) = Z.of_nat (length l).
Proof. unfold slen. rewrite rev_length. reflexivity. Qed.

Lemma rev_mid (p q : list Z) x : rev (p ++ x :: q) = rev q ++ x :: rev p.
Proof. rewrite rev_app_distr. cbn [rev]. rewrite <- app_assoc. reflexivity. Qed.

Lemma split_at (l : list Z) k : (k < length l)%nat ->
  exists p x q, l = p ++ x :: q /\ length p = k.
Proof. intros H. destruct (nth_split l 0 H) as (p & q & E & L). eauto. Qed.

Lemma upd_nat_mid p : forall x q v, upd_nat (length p) v (p ++ x :: q) = p ++ v :: q.
Proof. induction p as [|y p IH]; intros; cbn; [reflexivity|]. rewrite IH. reflexivity. Qed.
Lemma set_nth_mid p : forall x q v, set_nth (length p) v (p ++ x :: q) = p ++ v :: q.
Proof. induction p as [|y p IH]; intros; cbn; [reflexivity|]. rewrite IH. reflexivity. Qed.
Lemma nth_error_mid (p : list Z) x q : nth_error (p ++ x :: q) (length p) = Some x.
Proof. rewrite nth_error_app2 by lia. rewrite Nat.sub_diag. reflexivity. Qed.
Lemma znth_mid p x q : znth (Z.of_nat (length p)) (p ++ x :: q) = x.
Proof. unfold znth. rewrite Nat2Z.id. apply nth_middle. Qed.
Lemma zupd_mid p x q v : zupd (Z.of_nat (length p)) v (p ++ x :: q) = p ++ v :: q.
Proof. unfold zupd. destruct (Z.ltb_spec (Z.of_nat (length p)) 0); [lia|]. rewrite Nat2Z.id. apply upd_nat_mid. Qed.

Lemma nth_error_mid2 (p1 : list Z) a p2 b p3 :
  nth_error ((p1 ++ a :: p2) ++ b :: p3) (length p1) = Some a.
Proof. rewrite <- app_assoc, <- app_comm_cons. apply nth_error_mid. Qed.
Lemma set_nth_mid2 p1 a p2 b p3 v :
  set_nth (length p1) v ((p1 ++ a :: p2) ++ b :: p3) = (p1 ++ v :: p2) ++ b :: p3.
Proof. rewrite <- !app_assoc, <- !app_comm_cons. apply set_nth_mid. Qed.

Lemma pop_snoc d v : pop (d ++ [v]) = (d, Ok v).
Proof.
  unfold pop. destruct (d ++ [v]) eqn:E; [destruct d; discriminate|].
  rewrite <- E, removelast_last, last_last. reflexivity.
Qed.
Lemma pop_unsafe_snoc d v : pop_unsafe (d ++ [v]) = (d, Ok v).
Proof.
  unfold pop_unsafe. destruct (d ++ [v]) eqn:E; [destruct d; discriminate|].
  rewrite <- E, removelast_last, last_last. reflexivity.
Qed.

Lemma lookup_eq (l : lifo) n : 0 <= n -> lookup l n = nth_error l (Z.to_nat n).
Proof.
  intros H. unfold lookup. destruct (Z.leb_spec 0 n); [|lia]. cbn [andb].
  destruct (Z.ltb_spec n (Z.of_nat (length l))); [reflexivity|].
  symmetry. apply nth_error_None. lia.
Qed.

(* ------------------------------------------------------------------ refinement, per method *)
Section Refinement.
Variable l : lifo.
Hypothesis Hlen : (length l <= LIMIT)%nat.

Lemma push_refines v : push (rev l) v = (rev (fst (a_push l v)), snd (a_push l v)).
Proof.
  unfold push, a_push, STACK_LIMIT, LIMIT in *. rewrite slen_rev.
  destruct (Z.eqb_spec (Z.of_nat (length l)) 1024) as [E|E];
    destruct (Nat.ltb_spec (length l) 1024) as [F|F]; try lia; reflexivity.
Qed.

Lemma pop_refines : stack_step (rev l) OPop = (rev (fst (a_step l OPop)), snd (a_step l OPop)).
Proof. cbn [stack_step a_step]. destruct l as [|v r]; [reflexivity|]. cbn [rev fst snd]. apply pop_snoc. Qed.

Lemma peek_refines n : in_u64 n ->
  peek (rev l) n = (rev (fst (a_step l (OPeek n))), snd (a_step l (OPeek n))).
Proof.
  intros [Hn _]. unfold peek. cbn [a_step]. rewrite slen_rev, lookup_eq by lia.
  destruct (Z.gtb_spec (Z.of_nat (length l)) n) as [G|G].
  - destruct (split_at l (Z.to_nat n)) as (p & x & q & -> & L); [lia|].
    assert (n = Z.of_nat (length p)) as -> by lia. rewrite Nat2Z.id, nth_error_mid. cbn [fst snd].
    rewrite rev_mid. do 2 f_equal.
    replace (Z.of_nat (length (p ++ x :: q)) - Z.of_nat (length p) - 1) with (Z.of_nat (length (rev q)))
      by (rewrite rev_length, app_length; cbn [length]; lia).
    apply znth_mid.
  - destruct (nth_error l (Z.to_nat n)) eqn:E; [|reflexivity].
    assert (nth_error l (Z.to_nat n) <> None) as K by congruence. apply nth_error_Some in K. lia.
Qed.

Lemma set_refines n v : in_u64 n ->
  set (rev l) n v = (rev (fst (a_step l (OSet n v))), snd (a_step l (OSet n v))).
Proof.
  intros [Hn _]. unfold set. cbn [a_step]. rewrite slen_rev.
  destruct (Z.leb_spec 0 n); [|lia]. cbn [andb].
  destruct (Z.gtb_spec (Z.of_nat (length l)) n) as [G|G];
    destruct (Z.ltb_spec n (Z.of_nat (length l))) as [F|F]; try lia; [|reflexivity].
  destruct (split_at l (Z.to_nat n)) as (p & x & q & -> & L); [lia|].
  assert (n = Z.of_nat (length p)) as -> by lia. rewrite Nat2Z.id, set_nth_mid. cbn [fst snd].
  rewrite !rev_mid. do 1 f_equal.
  replace (Z.of_nat (length (p ++ x :: q)) - Z.of_nat (length p) - 1) with (Z.of_nat (length (rev q)))
    by (rewrite rev_length, app_length; cbn [length]; lia).
  apply zupd_mid.
Qed.

Lemma dup_refines n : in_u64 n ->
  dup (rev l) n = (rev (fst (a_step l (ODup n))), snd (a_step l (ODup n))).
Proof.
  intros [Hn _]. unfold dup, dup_src. cbn [a_step]. rewrite slen_rev.
  destruct (Z.gtb_spec n 0) as [G|G]; destruct (Z.leb_spec n 0) as [G'|G']; try lia; [|reflexivity].
  rewrite lookup_eq by lia.
  destruct (Z.ltb_spec (Z.of_nat (length l)) n) as [U|U].
  - destruct (nth_error l (Z.to_nat (n - 1))) eqn:E; [|reflexivity].
    assert (nth_error l (Z.to_nat (n - 1)) <> None) as K by congruence. apply nth_error_Some in K. lia.
  - destruct (split_at l (Z.to_nat (n - 1))) as (p & x & q & -> & L); [lia|].
    assert (n = Z.of_nat (length p) + 1) as -> by lia.
    replace (Z.of_nat (length p) + 1 - 1) with (Z.of_nat (length p)) by lia.
    rewrite Nat2Z.id, nth_error_mid. unfold a_push, STACK_LIMIT. unfold LIMIT in *.
    destruct (Z.gtb_spec (Z.of_nat (length (p ++ x :: q)) + 1) 1024) as [O|O];
      destruct (Nat.ltb_spec (length (p ++ x :: q)) 1024) as [O'|O']; try lia; [reflexivity|].
    cbn [fst snd rev]. do 3 f_equal. rewrite rev_mid.
    replace (Z.of_nat (length (p ++ x :: q)) - (Z.of_nat (length p) + 1)) with (Z.of_nat (length (rev q)))
      by (rewrite rev_length, app_length; cbn [length]; lia).
    apply znth_mid.
Qed.

Lemma exchange_refines n m : in_u64 n -> in_u64 m ->
  exchange (rev l) n m = (rev (fst (a_exchange l n m)), snd (a_exchange l n m)).
Proof.
  intros [Hn Hn'] [Hm Hm']. unfold exchange, a_exchange, exch_i1, exch_i2, checked64, is_u64. rewrite slen_rev.
  destruct (Z.gtb_spec m 0) as [G|G]; destruct (Z.leb_spec m 0) as [G'|G']; try lia; [|reflexivity].
  cbn [orb].
  destruct (Z.leb_spec pow64 (n + m)) as [W|W].
  - destruct (Z.leb_spec 0 (n + m)); [|lia]. destruct (Z.ltb_spec (n + m) pow64); [lia|]. reflexivity.
  - destruct (Z.leb_spec 0 (n + m)); [|lia]. destruct (Z.ltb_spec (n + m) pow64); [|lia]. cbn [andb].
    rewrite !lookup_eq by lia.
    destruct (Z.geb_spec (n + m) (Z.of_nat (length l))) as [U|U].
    + destruct (nth_error l (Z.to_nat n)); [|reflexivity].
      destruct (nth_error l (Z.to_nat (n + m))) eqn:E; [|reflexivity].
      assert (nth_error l (Z.to_nat (n + m)) <> None) as K by congruence. apply nth_error_Some in K. lia.
    + destruct (split_at l (Z.to_nat (n + m))) as (P & b & p3 & -> & L); [lia|].
      destruct (split_at P (Z.to_nat n)) as (p1 & a & p2 & -> & L1); [lia|].
      assert (n = Z.of_nat (length p1)) as -> by lia.
      assert (Z.of_nat (length p1) + m = Z.of_nat (length (p1 ++ a :: p2))) as -> by lia.
      rewrite !Nat2Z.id. rewrite nth_error_mid, nth_error_mid2, set_nth_mid2.
      replace (length (p1 ++ a :: p2)) with (length (p1 ++ b :: p2)) by (rewrite !app_length; reflexivity).
      rewrite set_nth_mid. cbn [fst snd].
      rewrite !rev_mid.
      replace (Z.of_nat (length ((p1 ++ a :: p2) ++ b :: p3)) - 1 - Z.of_nat (length (p1 ++ b :: p2)))
        with (Z.of_nat (length (rev p3))) by (rewrite rev_length, !app_length; cbn [length]; lia).
      replace (Z.of_nat (length ((p1 ++ a :: p2) ++ b :: p3)) - 1 - Z.of_nat (length p1))
        with (Z.of_nat (length (rev p3 ++ b :: rev p2)))
        by (repeat (progress (rewrite ?app_length, ?rev_length; cbn [length])); lia).
      rewrite znth_mid.
      replace (rev p3 ++ b :: rev p2 ++ a :: rev p1) with ((rev p3 ++ b :: rev p2) ++ a :: rev p1)
        by (rewrite <- app_assoc; reflexivity).
      rewrite znth_mid, zupd_mid. rewrite <- app_assoc, <- app_comm_cons.
      rewrite zupd_mid. reflexivity.
Qed.

Lemma push_slice_refines bs :
  push_slice (rev l) bs = (rev (fst (a_step l (OPushSlice bs))), snd (a_step l (OPushSlice bs))).
Proof.
  unfold push_slice. cbn [a_step]. unfold a_push_words. rewrite map_length.
  unfold LIMIT in *. destruct bs as [|b bs'].
  - cbn [chunks chunks_f length]. destruct (Nat.leb_spec (length l + 0) 1024); [|lia]. reflexivity.
  - set (bs := b :: bs') in *. rewrite slen_rev, <- chunks_length. unfold STACK_LIMIT.
    destruct (Z.gtb_spec (Z.of_nat (length l) + Z.of_nat (length (chunks 32 bs))) 1024) as [O|O];
      destruct (Nat.leb_spec (length l + length (chunks 32 bs)) 1024) as [O'|O']; try lia; [reflexivity|].
    cbn [fst snd]. rewrite rev_app_distr, rev_involutive, push_slice_limbs_words.
    do 2 f_equal. apply map_ext. apply be_bytes_value.
Qed.

Lemma pop_unsafe_refines :
  pop_unsafe (rev l) = (rev (fst (a_step l OPopUnsafe)), snd (a_step l OPopUnsafe)).
Proof. cbn [a_step]. destruct l as [|v r]; [reflexivity|]. cbn [rev fst snd]. apply pop_unsafe_snoc. Qed.

Lemma top_write_refines v :
  top_unsafe_write (rev l) v = (rev (fst (a_step l (OTopWrite v))), snd (a_step l (OTopWrite v))).
Proof.
  cbn [a_step]. destruct l as [|t r]; [reflexivity|]. cbn [rev fst snd]. unfold top_unsafe_write.
  destruct (rev r ++ [t]) eqn:E; [destruct (rev r); discriminate|]. rewrite <- E.
  replace (slen (rev r ++ [t]) - 1) with (Z.of_nat (length (rev r)))
    by (unfold slen; rewrite app_length; cbn [length]; lia).
  rewrite zupd_mid, znth_mid. reflexivity.
Qed.

Lemma pop_top_write_refines v :
  pop_top_unsafe_write (rev l) v =
  (rev (fst (a_step l (OPopTopWrite v))), snd (a_step l (OPopTopWrite v))).
Proof.
  cbn [a_step]. unfold pop_top_unsafe_write. rewrite slen_rev.
  destruct l as [|a [|b r]]; try reflexivity. cbn [rev fst snd].
  destruct (Z.geb_spec (Z.of_nat (length (a :: b :: r))) 2) as [G|G]; [|cbn [length] in G; lia].
  rewrite removelast_last, last_last.
  replace (slen (rev r ++ [b]) - 1) with (Z.of_nat (length (rev r)))
    by (unfold slen; rewrite app_length; cbn [length]; lia).
  rewrite zupd_mid. reflexivity.
Qed.

Theorem step_refines o : op_wf o ->
  stack_step (rev l) o = (rev (fst (a_step l o)), snd (a_step l o)).
Proof.
  destruct o; cbn [op_wf]; intros W.
  - apply push_refines.
  - apply pop_refines.
  - apply peek_refines; assumption.
  - apply set_refines; tauto.
  - apply dup_refines; assumption.
  - cbn [stack_step a_step]. unfold swap. apply exchange_refines; [unfold_pows; lia|assumption].
  - apply exchange_refines; tauto.
  - apply push_slice_refines.
  - cbn [stack_step a_step]. unfold push_b256. rewrite be_bytes_value. apply push_refines.
  - apply pop_unsafe_refines.
  - apply top_write_refines.
  - apply pop_top_write_refines.
Qed.
End Refinement.

(* ------------------------------------------------------------------ length invariant *)
Lemma upd_nat_length i v : forall d, length (upd_nat i v d) = length d.
Proof. induction i as [|i IH]; intros [|x d]; cbn; auto. Qed.
Lemma zupd_length i v d : slen (zupd i v d) = slen d.
Proof. unfold zupd, slen. destruct (i <? 0); [reflexivity|]. rewrite upd_nat_length. reflexivity. Qed.
Lemma slen_app d e : slen (d ++ e) = slen d + slen e.
Proof. unfold slen. rewrite app_length. lia. Qed.
Lemma slen_removelast d : slen (removelast d) <= slen d.
Proof.
  unfold slen. destruct d as [|x d0]; [cbn; lia|].
  destruct (@exists_last _ (x :: d0)) as (d' & a & E); [discriminate|].
  rewrite E, removelast_last, app_length. cbn [length]. lia.
Qed.
Lemma slen_nonneg d : 0 <= slen d. Proof. unfold slen. lia. Qed.

Lemma step_len d o : slen d <= STACK_LIMIT -> slen (fst (stack_step d o)) <= STACK_LIMIT.
Proof.
  unfold STACK_LIMIT. intros H.
  destruct o; cbn [stack_step];
    unfold push_b256, swap, push, pop, peek, set, dup, exchange, push_slice, pop_unsafe, top_unsafe_write,
      pop_top_unsafe_write, STACK_LIMIT;
    repeat match goal with
    | |- context [if ?c then _ else _] => destruct c eqn:?
    | |- context [match checked64 ?x with _ => _ end] => destruct (checked64 x)
    | |- context [match ?x with [] => _ | _ => _ end] => destruct x eqn:?
    end; cbn [fst]; try assumption;
    rewrite ?zupd_length, ?slen_app; try (change (slen [?v]) with 1); try lia.
  - (* push *) pose proof (slen_removelast (z :: s)). lia.
  - (* push_slice *) unfold slen at 2. rewrite push_slice_limbs_count. lia.
  - pose proof (slen_removelast (z :: s)). lia.
  - pose proof (slen_removelast d). lia.
Qed.

Lemma run_len h : forall d, slen d <= STACK_LIMIT -> slen (stack_run d h) <= STACK_LIMIT.
Proof.
  unfold stack_run. induction h as [|o h IH]; intros d H; [exact H|].
  cbn [fold_left]. apply IH. apply step_len. exact H.
Qed.

(* ------------------------------------------------------------------ errors change nothing *)
Lemma step_error_unchanged d o d' r :
  stack_step d o = (d', r) -> (forall v, r <> Ok v) -> d' = d.
Proof.
  destruct o; cbn [stack_step];
    unfold push_b256, swap, push, pop, peek, set, dup, exchange, push_slice, pop_unsafe, top_unsafe_write,
      pop_top_unsafe_write;
    repeat match goal with
    | |- context [if ?c then _ else _] => destruct c eqn:?
    | |- context [match checked64 ?x with _ => _ end] => destruct (checked64 x)
    | |- context [match ?x with [] => _ | _ => _ end] => destruct x eqn:?
    end; intros E N; inversion E; subst; try reflexivity; exfalso; eapply N; reflexivity.
Qed.

(* ------------------------------------------------------------------ history refinement *)
Lemma a_step_len l o : (length l <= LIMIT)%nat -> op_wf o -> (length (fst (a_step l o)) <= LIMIT)%nat.
Proof.
  intros H W. pose proof (step_refines l H o W) as R.
  assert (slen (rev l) <= STACK_LIMIT) as H' by (rewrite slen_rev; unfold STACK_LIMIT, LIMIT in *; lia).
  pose proof (step_len (rev l) o H') as S. rewrite R in S. cbn [fst] in S.
  rewrite slen_rev in S. unfold STACK_LIMIT, LIMIT in *. lia.
Qed.

Lemma run_refines h : forall l, (length l <= LIMIT)%nat -> Forall op_wf h ->
  stack_run (rev l) h = rev (a_run l h).
Proof.
  unfold stack_run, a_run. induction h as [|o h IH]; intros l H W; [reflexivity|].
  inversion W as [|? ? Wo Wh]; subst. cbn [fold_left].
  rewrite (step_refines l H o Wo). cbn [fst]. apply IH; [|exact Wh]. apply a_step_len; assumption.
Qed.

(* ------------------------------------------------------------------ index bounds of the raw-pointer code *)
Lemma dup_indices d n : snd (dup d n) = Ok 0 ->
  0 <= dup_src d n < slen d /\ dup_dst d < STACK_LIMIT /\ dup_src d n <> dup_dst d.
Proof.
  unfold dup, dup_src, dup_dst, STACK_LIMIT.
  destruct (Z.gtb_spec n 0); [|discriminate].
  destruct (Z.ltb_spec (slen d) n); [discriminate|].
  destruct (Z.gtb_spec (slen d + 1) 1024); [discriminate|]. intros _. lia.
Qed.

Lemma exchange_indices d n m : in_u64 n -> in_u64 m -> snd (exchange d n m) = Ok 0 ->
  0 <= exch_i1 d n < slen d /\ 0 <= exch_i2 d n m < slen d /\ exch_i1 d n <> exch_i2 d n m.
Proof.
  unfold exchange, exch_i1, exch_i2, checked64, is_u64. intros [Hn _] [Hm _].
  destruct (Z.gtb_spec m 0); [|discriminate].
  destruct ((0 <=? n + m) && (n + m <? pow64)); [|discriminate].
  destruct (Z.geb_spec (n + m) (slen d)); [discriminate|]. intros _. lia.
Qed.

Lemma peek_index d n : in_u64 n -> slen d > n -> 0 <= slen d - n - 1 < slen d.
Proof. intros [Hn _]. lia. Qed.

Lemma partial_limbs_count p : (0 < length p < 32)%nat -> length (pad4 (tail_limbs p)) = 4%nat.
Proof.
  intros H.
  destruct p as [|? p]; [simpl in H; lia|].
  do 31 (try (destruct p as [|? p]; [reflexivity|])).
  simpl in H. lia.
Qed.

(* number of limbs written = 4 * n_words: nothing is written past the new length *)
Lemma push_slice_limbs_length bs : bs <> [] ->
  Z.of_nat (length (push_slice_limbs bs)) = 4 * n_words bs.
Proof.
  intros NE. rewrite <- chunks_length.
  unfold push_slice_limbs. pose proof (chunks_exact_spec bs) as S.
  destruct (chunks_exact 32 bs) as [cs r]. destruct S as (E & F & R & C).
  rewrite E, app_length. fold word_limbs. destruct (words_full cs F []) as [_ L].
  destruct r as [|x r'].
  - rewrite L. cbn [opt_chunk length]. lia.
  - set (p := x :: r') in *. cbn [opt_chunk].
    pose proof (partial_limbs_count p) as P. unfold pad4, tail_limbs in P.
    destruct (rchunks_exact 8 p) as [limbs pl].
    set (t1 := map be_bytes limbs) in *.
    set (t2 := match pl with [] => [] | _ => [be_bytes (zeros (8 - length pl) ++ pl)] end) in *.
    rewrite L.
    replace ((length cs * 4 + length t1 + length t2) mod 4)%nat with (length (t1 ++ t2) mod 4)%nat.
    2:{ rewrite app_length.
        replace (length cs * 4 + length t1 + length t2)%nat with ((length t1 + length t2) + length cs * 4)%nat by lia.
        rewrite Nat.mod_add by lia. reflexivity. }
    replace (t1 ++ t2 ++ match (length (t1 ++ t2) mod 4)%nat with O => [] | S _ => zeros (4 - length (t1 ++ t2) mod 4) end)
      with ((t1 ++ t2) ++ match (length (t1 ++ t2) mod 4)%nat with O => [] | S n => zeros (4 - S n) end).
    2:{ rewrite <- app_assoc. do 2 f_equal. destruct (length (t1 ++ t2) mod 4)%nat; reflexivity. }
    rewrite app_length, L, P; [unfold p; cbn [opt_chunk length]; lia|]. subst p. cbn [length] in *. lia.
Qed.

(* ------------------------------------------------------------------ push_slice, closed form *)
Lemma push_slice_exact d bs : slen d <= STACK_LIMIT ->
  push_slice d bs =
  if slen d + (Z.of_nat (length bs) + 31) / 32 <=? STACK_LIMIT
  then (d ++ map be_value (chunks 32 bs), Ok 0) else (d, Err StackOverflow).
Proof.
  intros H. unfold push_slice. destruct bs as [|b bs'].
  - cbn [length chunks chunks_f map]. change ((Z.of_nat 0 + 31) / 32) with 0.
    destruct (Z.leb_spec (slen d + 0) STACK_LIMIT); [|lia]. rewrite app_nil_r. reflexivity.
  - set (bs := b :: bs'). fold (n_words bs).
    destruct (Z.gtb_spec (slen d + n_words bs) STACK_LIMIT); destruct (Z.leb_spec (slen d + n_words bs) STACK_LIMIT); try lia;
      [reflexivity|].
    rewrite push_slice_limbs_words. do 2 f_equal. apply map_ext, be_bytes_value.
Qed.

(* a short last chunk is right-aligned: its word is the word of the chunk left-padded with
   zero bytes to 32 bytes; all pushed words are 256-bit *)
Lemma be_value_right_aligned c : (length c <= 32)%nat ->
  be_value c = be_value (zeros (32 - length c) ++ c).
Proof. intros _. rewrite <- !be_bytes_value, be_bytes_left_pad. reflexivity. Qed.

Lemma be_value_u256 c : Forall is_byte c -> (length c <= 32)%nat -> in_u256 (be_value c).
Proof.
  intros F L. rewrite <- be_bytes_value. pose proof (be_bytes_range c F) as R.
  unfold in_u256. rewrite pow256_eq. split; [lia|].
  eapply Z.lt_le_trans; [apply R|]. change 256 with (2 ^ 8). rewrite <- Z.pow_mul_r by lia.
  apply Z.pow_le_mono_r; lia.
Qed.
