(* Proofs about the composed reference interpreter (Model/Step.v, Model/Evm.v). *)
From RevmV Require Import Base.Word Model.Step Model.Evm Proofs.StepProofs.
From RevmV Require Model.Frames Model.Settlement Model.Jump Proofs.JumpProofs Spec.GateSpec.
Local Open Scope Z_scope.

(* ================================================================ fuel monotonicity *)
(* r2 answers like r1 wherever r1 has an answer *)
Definition rec_le (r1 r2 : rec_t) : Prop :=
  forall G F I, r1 G F I <> XOutOfFuel -> r2 G F I = r1 G F I.

Lemma do_call_mono W r1 r2 G c :
  rec_le r1 r2 -> do_call W r1 G c <> XOutOfFuel -> do_call W r2 G c = do_call W r1 G c.
Proof.
  intros L. unfold do_call.
  destruct (Fr.make_call_frame _ _ _) as [[sc1 [r|cp]]|]; try reflexivity.
  destruct (code_of_account _ _ _); try reflexivity.
  intros N. rewrite (L _ _ _); [reflexivity|].
  intros E. rewrite E in N. apply N. reflexivity.
Qed.

Lemma do_create_mono W r1 r2 G c :
  rec_le r1 r2 -> do_create W r1 G c <> XOutOfFuel -> do_create W r2 G c = do_create W r1 G c.
Proof.
  intros L. unfold do_create.
  destruct (H.load_account _ _ _) as [s1 cold].
  destruct (Fr.make_create_frame _ _ _) as [[sc1 [r|cp]]|]; try reflexivity.
  intros N. rewrite (L _ _ _); [reflexivity|].
  intros E. rewrite E in N. apply N. reflexivity.
Qed.

Lemma exec_mono_step f W :
  rec_le (exec f W) (exec (S f) W).
Proof.
  induction f as [|f IH]; intros G F I N.
  - exfalso. apply N. reflexivity.
  - remember (S f) as f1 eqn:Ef1.
    rewrite Ef1 at 2. rewrite Ef1 in N.
    cbn [exec] in N |- *.
    change (exec (S f1) W G F I) with
      (match step W G F I with
       | (G1, SNext I1) => exec f1 W G1 F I1
       | (G1, SEnd r out I1) => XDone (G1, mkIR r out (i_gas I1))
       | (G1, SCall c I1) =>
           match do_call W (exec f1 W) G1 c with
           | XDone (G2, r) =>
               match insert_call_outcome I1 c r with
               | Some I2 => exec f1 W G2 F I2
               | None => XBad BAD_PANIC
               end
           | XOutOfFuel => XOutOfFuel
           | XBad k => XBad k
           end
       | (G1, SCreate c I1) =>
           match do_create W (exec f1 W) G1 c with
           | XDone (G2, r, a) =>
               match insert_create_outcome I1 r a with
               | Some I2 => exec f1 W G2 F I2
               | None => XBad BAD_PANIC
               end
           | XOutOfFuel => XOutOfFuel
           | XBad k => XBad k
           end
       | (G1, SBad k) => XBad k
       end).
    subst f1.
    destruct (step W G F I) as [G1 [I1|r out I1|c I1|c I1|k]]; try reflexivity.
    + apply IH. exact N.
    + assert (NC : do_call W (exec f W) G1 c <> XOutOfFuel).
      { intros E. rewrite E in N. apply N. reflexivity. }
      rewrite (do_call_mono W _ _ G1 c IH NC).
      destruct (do_call W (exec f W) G1 c) as [[G2 r]| |k]; try reflexivity.
      destruct (insert_call_outcome I1 c r); try reflexivity.
      apply IH. exact N.
    + assert (NC : do_create W (exec f W) G1 c <> XOutOfFuel).
      { intros E. rewrite E in N. apply N. reflexivity. }
      rewrite (do_create_mono W _ _ G1 c IH NC).
      destruct (do_create W (exec f W) G1 c) as [[[G2 r] a]| |k]; try reflexivity.
      destruct (insert_create_outcome I1 r a); try reflexivity.
      apply IH. exact N.
Qed.

Theorem exec_fuel_mono f k W G F I :
  exec f W G F I <> XOutOfFuel -> exec (f + k) W G F I = exec f W G F I.
Proof.
  induction k as [|k IH]; intros N.
  - rewrite Nat.add_0_r. reflexivity.
  - rewrite Nat.add_succ_r. rewrite (exec_mono_step (f + k) W G F I).
    + apply IH. exact N.
    + rewrite (IH N). exact N.
Qed.

Lemma exec_rec_le f k W : rec_le (exec f W) (exec (f + k) W).
Proof. intros G F I N. apply exec_fuel_mono. exact N. Qed.

Theorem run_tx_fuel_mono f k W :
  run_tx f W <> XOutOfFuel -> run_tx (f + k) W = run_tx f W.
Proof.
  unfold run_tx.
  destruct (E.initial_and_floor _ _) as [ig fg].
  destruct (deduct_caller _ _) as [G1|]; [|reflexivity].
  destruct (if en (w_spec W) E.PRAGUE then _ else _) as [G2 ra].
  destruct (w_to W) as [to|].
  - intros N.
    assert (NC : do_call W (exec f W) G2
        (mkCall SchCall (E.tx_gas_limit (E.e_tx (w_env W)) - ig) to (w_caller W) to (w_value W) true false (w_data W) 0 0) <> XOutOfFuel).
    { intros E. rewrite E in N. apply N. reflexivity. }
    rewrite (do_call_mono W _ _ G2 _ (exec_rec_le f k W) NC). reflexivity.
  - intros N.
    assert (NC : do_create W (exec f W) G2
        (mkCreate (w_caller W) None (w_value W) (w_data W) (E.tx_gas_limit (E.e_tx (w_env W)) - ig)) <> XOutOfFuel).
    { intros E. rewrite E in N. apply N. reflexivity. }
    rewrite (do_create_mono W _ _ G2 _ (exec_rec_le f k W) NC). reflexivity.
Qed.

(* ================================================================ termination and the gas bound *)

Definition okrev (r : iresult) : bool := is_ok (ir_res r) || is_revert (ir_res r).

(* what the induction carries: a frame started with less than n gas ends, and hands back no
   more gas than it was given *)
Definition rec_ok (n : Z) (rec : rec_t) : Prop :=
  forall G F I, 0 <= rem I -> rem I < n ->
    rec G F I <> XOutOfFuel /\
    forall G' r, rec G F I = XDone (G', r) -> okrev r = true -> 0 <= Gas.remaining (ir_gas r) <= rem I.

Lemma gas_new_rem gl : Gas.remaining (Gas.gas_new gl) = gl. Proof. reflexivity. Qed.

Lemma precompile_result_bound gl o :
  0 <= gl -> 0 <= Gas.remaining (ir_gas (precompile_result gl o)) <= gl.
Proof.
  intros P. unfold precompile_result. destruct o as [used out| |]; cbn [ir_gas]; try (rewrite gas_new_rem; lia).
  destruct (used <? 0) eqn:U; cbn [ir_gas]; [rewrite gas_new_rem; lia|]. apply Z.ltb_ge in U.
  destruct (Gas.record_cost _ _) as [g' ok] eqn:E. destruct ok; cbn [ir_gas]; [|rewrite gas_new_rem; lia].
  apply record_cost_true in E. destruct E as (_ & Rm & Le & _). rewrite gas_new_rem in *. lia.
Qed.

Lemma do_call_ok W n rec G c :
  rec_ok n rec -> 0 <= cq_gas_limit c -> cq_gas_limit c < n ->
  do_call W rec G c <> XOutOfFuel /\
  forall G' r, do_call W rec G c = XDone (G', r) -> okrev r = true ->
    0 <= Gas.remaining (ir_gas r) <= cq_gas_limit c.
Proof.
  intros HR P L. unfold do_call.
  destruct (Fr.make_call_frame _ _ _) as [[sc1 [r|cp]]|]; [| |split; [discriminate|intros; discriminate]].
  - destruct r; try (split; [discriminate|intros G' r0 E; try discriminate; injection E as <- <-; cbn [ir_gas]; rewrite gas_new_rem; lia]).
    destruct (match (if is_precompile W (cq_bytecode c) then _ else None) with Some (Some o) => _ | _ => None end) as [pr|] eqn:EP;
      [|split; [discriminate|intros; discriminate]].
    split; [discriminate|]. intros G' r0 E _. injection E as <- <-.
    destruct (if is_precompile W (cq_bytecode c) then _ else None) as [[o|]|]; try discriminate.
    injection EP as <-. apply precompile_result_bound, P.
  - destruct (code_of_account _ _ _) as [code|]; [|split; [discriminate|intros; discriminate]].
    destruct (HR (set_sc G sc1) (mk_fctx code (cq_input c) (cq_target c) (cq_caller c) (cq_value c) (cq_static c))
                 (istate_new (cq_gas_limit c))) as [N B]; [exact P|exact L|].
    destruct (rec _ _ _) as [[G2 r]| |k]; [|exfalso; apply N; reflexivity|split; [discriminate|intros; discriminate]].
    destruct (Fr.call_return _ _); [|split; [discriminate|intros; discriminate]].
    split; [discriminate|]. intros G' r0 E OK. injection E as <- <-. apply (B G2 r eq_refl OK).
Qed.

Lemma create_return_cases W G created r G' r' :
  create_return W G created r = Some (G', r') ->
  (okrev r' = true -> okrev r = true) /\
  (0 <= Gas.remaining (ir_gas r) -> 0 <= Gas.remaining (ir_gas r') <= Gas.remaining (ir_gas r)).
Proof.
  unfold create_return. intros E.
  assert (FAIL : forall r1, match Fr.create_return (g_sc G) created Fr.CRFail with
            | Some sc => Some (set_sc G sc, r1) | None => None end = Some (G', r') -> r' = r1).
  { intros r1. destruct (Fr.create_return _ _ _); [|discriminate]. congruence. }
  destruct (negb (is_ok (ir_res r))) eqn:OK.
  { apply FAIL in E. subst. split; [auto|lia]. }
  apply negb_false_iff in OK.
  assert (OKR : okrev r = true) by (unfold okrev; rewrite OK; reflexivity).
  destruct (_ && _). { apply FAIL in E. subst. cbn [ir_gas]. split; [auto|lia]. }
  destruct (_ && _). { apply FAIL in E. subst. cbn [ir_gas]. split; [auto|lia]. }
  destruct (Gas.record_cost _ _) as [g' ok] eqn:ER.
  assert (GB : 0 <= Gas.remaining (ir_gas r) -> 0 <= Gas.remaining g' <= Gas.remaining (ir_gas r)).
  { intros P. unfold Gas.record_cost in ER. assert (0 <= zlen (ir_out r) * G.CODEDEPOSIT) by (unfold zlen; change G.CODEDEPOSIT with 200; lia).
    destruct (_ <=? _) eqn:LE; injection ER as <- <-; cbn; [apply Z.leb_le in LE|]; lia. }
  destruct (negb ok && _). { apply FAIL in E. subst. cbn [ir_gas]. split; [auto|lia]. }
  destruct (add_code G _) as [G1 id]. destruct (Fr.create_return _ _ _); [|discriminate].
  injection E as <- <-. cbn [ir_gas]. split; [auto|exact GB].
Qed.

Lemma do_create_ok W n rec G c :
  rec_ok n rec -> 0 <= kq_gas_limit c -> kq_gas_limit c < n ->
  do_create W rec G c <> XOutOfFuel /\
  forall G' r a, do_create W rec G c = XDone (G', r, a) -> okrev r = true ->
    0 <= Gas.remaining (ir_gas r) <= kq_gas_limit c.
Proof.
  intros HR P L. unfold do_create. destruct (H.load_account _ _ _) as [s1 cold].
  destruct (Fr.make_create_frame _ _ _) as [[sc1 [r|cp]]|]; [| |split; [discriminate|intros; discriminate]].
  - destruct r; try (split; [discriminate|intros G' r0 a E; try discriminate; injection E as <- <- <-; cbn [ir_gas Gas.remaining Gas.gas_new]; lia]).
  - match goal with |- context [rec ?g ?f ?i] => destruct (HR g f i) as [N B]; [exact P|exact L|]; destruct (rec g f i) as [[G2 r]| |k] end;
      [|exfalso; apply N; reflexivity|split; [discriminate|intros; discriminate]].
    destruct (create_return W G2 _ r) as [[G3 r']|] eqn:ECR; [|split; [discriminate|intros; discriminate]].
    split; [discriminate|]. intros G' r0 a E OK. injection E as <- <- <-.
    destruct (create_return_cases _ _ _ _ _ _ ECR) as [OK1 GB].
    destruct (B G2 r eq_refl (OK1 OK)) as [B1 B2]. destruct (GB B1).
    unfold rem in *. cbn [istate_new i_gas Gas.remaining Gas.gas_new] in *. lia.
Qed.

Lemma erase_cost_some g x g' : Gas.erase_cost g x = Some g' -> Gas.remaining g' = Gas.remaining g + x.
Proof. unfold Gas.erase_cost. destruct (checked64 _) as [y|] eqn:E; [|discriminate]. apply checked64_some in E. intros H. assert (g' = Gas.mkGas (Gas.limit g) y (Gas.refunded g)) by congruence. subst. cbn. lia. Qed.

Lemma insert_call_rem I1 c r I2 :
  insert_call_outcome I1 c r = Some I2 ->
  rem I2 = rem I1 + (if okrev r then Gas.remaining (ir_gas r) else 0).
Proof.
  unfold insert_call_outcome, okrev.
  assert (PM : forall I3 flag I4,
    (let '(m', panicked) := M.set (i_mem I3) (cq_ret_off c) (firstn (Z.to_nat (Z.min (cq_ret_len c) (zlen (ir_out r)))) (ir_out r)) in
     if panicked then None else Some (set_stk (set_mem I3 m') (flag :: i_stk I3))) = Some I4 -> rem I4 = rem I3).
  { intros I3 flag I4. destruct (M.set _ _ _) as [m' p]. destruct p; [discriminate|]. intros H. injection H as <-. reflexivity. }
  destruct (is_ok (ir_res r)).
  - cbn [orb]. destruct (Gas.erase_cost _ _) as [g1|] eqn:E1; [|discriminate].
    destruct (Gas.record_refund g1 _) as [g2|] eqn:E2; [|discriminate].
    intros H. apply PM in H. rewrite H. unfold rem. cbn [set_gas set_pc set_rd i_gas].
    apply erase_cost_some in E1. apply record_refund_some in E2. cbn [set_pc set_rd i_gas] in E1. destruct E2. lia.
  - cbn [orb]. destruct (is_revert (ir_res r)).
    + destruct (Gas.erase_cost _ _) as [g1|] eqn:E1; [|discriminate].
      intros H. apply PM in H. rewrite H. unfold rem. cbn [set_gas set_pc set_rd i_gas].
      apply erase_cost_some in E1. cbn [set_pc set_rd i_gas] in E1. lia.
    + intros H. injection H as <-. unfold rem. cbn [set_stk set_pc set_rd i_gas]. lia.
Qed.

Lemma insert_create_rem I1 r a I2 :
  insert_create_outcome I1 r a = Some I2 ->
  rem I2 = rem I1 + (if okrev r then Gas.remaining (ir_gas r) else 0).
Proof.
  unfold insert_create_outcome, okrev.
  destruct (is_ok (ir_res r)).
  - cbn [orb]. destruct (Gas.erase_cost _ _) as [g1|] eqn:E1; [|discriminate].
    destruct (Gas.record_refund g1 _) as [g2|] eqn:E2; [|discriminate].
    intros H. injection H as <-. unfold rem. cbn [set_gas set_stk set_pc set_rd i_gas].
    apply erase_cost_some in E1. apply record_refund_some in E2. cbn [set_pc set_rd i_gas] in E1. destruct E2. lia.
  - cbn [orb]. destruct (is_revert (ir_res r)).
    + destruct (Gas.erase_cost _ _) as [g1|] eqn:E1; [|discriminate].
      intros H. injection H as <-. unfold rem. cbn [set_gas set_stk set_pc set_rd i_gas].
      apply erase_cost_some in E1. cbn [set_pc set_rd i_gas] in E1. lia.
    + intros H. injection H as <-. unfold rem. cbn [set_stk set_pc set_rd i_gas]. lia.
Qed.

Theorem exec_ok W : forall f, rec_ok (Z.of_nat f) (exec f W).
Proof.
  induction f as [|f IH]; intros G F I P L.
  - cbn in L. lia.
  - rewrite Nat2Z.inj_succ in L. cbn [exec].
    destruct (step W G F I) as [G1 [I1|r out I1|c I1|c I1|k]] eqn:ES.
    + destruct (step_next_gas _ _ _ _ _ _ ES P) as (_ & P1 & D).
      destruct (IH G1 F I1 P1) as [N B]; [lia|]. split; [exact N|].
      intros G' r E OK. specialize (B G' r E OK). lia.
    + split; [discriminate|]. intros G' r0 E OK. injection E as <- <-. cbn [ir_gas].
      unfold okrev in OK. cbn [ir_res] in OK. destruct (step_end_gas _ _ _ _ _ _ _ _ ES OK P). unfold rem in *. lia.
    + destruct (step_call_gas _ _ _ _ _ _ _ ES P) as (_ & P1 & PG & D).
      destruct (do_call_ok W _ _ G1 c IH PG) as [N B]; [lia|].
      destruct (do_call W (exec f W) G1 c) as [[G2 r]| |k]; [|exfalso; apply N; reflexivity|split; [discriminate|intros; discriminate]].
      destruct (insert_call_outcome I1 c r) as [I2|] eqn:EI; [|split; [discriminate|intros; discriminate]].
      apply insert_call_rem in EI.
      assert (RB : 0 <= rem I2 /\ rem I2 + 1 <= rem I).
      { destruct (okrev r) eqn:OK; [destruct (B G2 r eq_refl OK)|]; lia. }
      destruct (IH G2 F I2) as [N2 B2]; [lia|lia|]. split; [exact N2|].
      intros G' r0 E OK. specialize (B2 G' r0 E OK). lia.
    + destruct (step_create_gas _ _ _ _ _ _ _ ES P) as (_ & P1 & PG & D).
      destruct (do_create_ok W _ _ G1 c IH PG) as [N B]; [lia|].
      destruct (do_create W (exec f W) G1 c) as [[[G2 r] a]| |k]; [|exfalso; apply N; reflexivity|split; [discriminate|intros; discriminate]].
      destruct (insert_create_outcome I1 r a) as [I2|] eqn:EI; [|split; [discriminate|intros; discriminate]].
      apply insert_create_rem in EI.
      assert (RB : 0 <= rem I2 /\ rem I2 + 1 <= rem I).
      { destruct (okrev r) eqn:OK; [destruct (B G2 r a eq_refl OK)|]; lia. }
      destruct (IH G2 F I2) as [N2 B2]; [lia|lia|]. split; [exact N2|].
      intros G' r0 E OK. specialize (B2 G' r0 E OK). lia.
    + split; [discriminate|intros; discriminate].
Qed.

(* every frame ends: fuel above the frame's gas is enough, whatever the program, the state and
   the depth of the calls and creates it makes *)
Theorem exec_terminates f W G F I :
  0 <= rem I -> rem I < Z.of_nat f -> exec f W G F I <> XOutOfFuel.
Proof. intros P L. exact (proj1 (exec_ok W f G F I P L)). Qed.

(* a frame never hands back more gas than it was given (nested calls, creates, stipends and
   precompiles included) *)
Theorem exec_gas_bound f W G F I G' r :
  0 <= rem I -> exec f W G F I = XDone (G', r) -> okrev r = true ->
  0 <= Gas.remaining (ir_gas r) <= rem I.
Proof.
  intros P E OK.
  set (k := S (Z.to_nat (rem I))).
  assert (E2 : exec (f + k) W G F I = XDone (G', r)).
  { rewrite exec_fuel_mono; [exact E|rewrite E; discriminate]. }
  refine (proj2 (exec_ok W (f + k) G F I P _) G' r E2 OK). unfold k. lia.
Qed.

(* the whole transaction: fuel above the gas handed to the first frame suffices *)
Theorem run_tx_terminates f W :
  let gl := E.tx_gas_limit (E.e_tx (w_env W)) - fst (E.initial_and_floor (w_spec W) (w_env W)) in
  0 <= gl -> gl < Z.of_nat f -> run_tx f W <> XOutOfFuel.
Proof.
  intros gl P L. unfold run_tx. fold gl.
  destruct (E.initial_and_floor _ _) as [ig fg] eqn:EI. cbn [fst] in gl.
  destruct (deduct_caller _ _) as [G1|]; [|discriminate].
  destruct (if en (w_spec W) E.PRAGUE then _ else _) as [G2 ra].
  destruct (w_to W) as [to|].
  - match goal with |- context [do_call W ?rec ?g ?c] =>
      destruct (do_call_ok W _ _ g c (exec_ok W f) P L) as [N _]; destruct (do_call W rec g c) as [[G3 r]| |k] end;
      [|exfalso; apply N; reflexivity|discriminate].
    repeat match goal with |- context [match ?x with Some _ => _ | None => _ end] => destruct x end; try discriminate.
    all: repeat match goal with |- context [let (_, _) := ?x in _] => destruct x end; discriminate.
  - match goal with |- context [do_create W ?rec ?g ?c] =>
      destruct (do_create_ok W _ _ g c (exec_ok W f) P L) as [N _]; destruct (do_create W rec g c) as [[[G3 r] a]| |k] end;
      [|exfalso; apply N; reflexivity|discriminate].
    repeat match goal with |- context [match ?x with Some _ => _ | None => _ end] => destruct x end; try discriminate.
    all: repeat match goal with |- context [let (_, _) := ?x in _] => destruct x end; discriminate.
Qed.

(* ================================================================ the program counter *)

Lemma opcode_beyond code input t c v st pc :
  zlen code <= pc -> opcode_at (mk_fctx code input t c v st) pc = 0.
Proof.
  intros L. unfold opcode_at, mk_fctx, padded_of, Jump.contract_new, Jump.to_analysed. cbn [f_bc Jump.la_bytecode].
  unfold zlen in L. rewrite app_nth2 by lia. apply JumpProofs.nth_padding.
Qed.

(* the byte 0 is STOP (or not yet an instruction): the frame does not continue past it *)
Lemma step_op0 W G F I :
  opcode_at F (i_pc I) = 0 ->
  match snd (step W G F I) with SNext _ | SCall _ _ | SCreate _ _ => False | _ => True end.
Proof.
  intros H0. unfold step. rewrite H0. cbv zeta.
  change ((0 =? 0xf5) && f_static F) with false. cbv iota.
  unfold GateSpec.gate. change (0 =? GateSpec.INVALID) with false. change (GateSpec.eof_only 0) with false.
  change (GateSpec.legacy_intro 0) with (Some GateSpec.FRONTIER). cbv iota.
  destruct (GateSpec.enabled (w_spec W) GateSpec.FRONTIER); vm_compute; exact Logic.I.
Qed.

(* the frame-level invariant: the program counter stays inside the padded code *)
Definition pc_ok (code : list Z) (I : istate) : Prop := 0 <= i_pc I <= zlen code + 32.

Lemma jump_ok_range code t :
  Jump.bytes_ok code -> JumpProofs.code_fits code ->
  Jump.jump_ok (Jump.contract_new (Jump.LegacyRaw code)) t = true -> 0 <= t < zlen code.
Proof.
  intros Hb Hf J.
  assert (0 <= t < pow64).
  { unfold Jump.jump_ok, Jump.as_usize in J. destruct (t <? pow64) eqn:A; [|discriminate]. apply Z.ltb_lt in A.
    unfold Jump.is_valid_jump in J. destruct (Jump.legacy_jump_table _); [|discriminate].
    unfold Jump.jt_is_valid in J. destruct ((0 <=? t) && _) eqn:B; [|discriminate].
    apply andb_prop in B. destruct B as [B _]. apply Z.leb_le in B. lia. }
  destruct (Z_lt_le_dec t (zlen code)) as [|Hge]; [lia|]. exfalso.
  unfold Jump.contract_new in J. rewrite (JumpProofs.padding_targets_invalid code t Hb Hf) in J; [discriminate|]. unfold Jump.zlen, zlen, pow64, pow256 in *. lia.
Qed.

Theorem step_pc_ok W G code input t c v st I :
  let F := mk_fctx code input t c v st in
  Jump.bytes_ok code -> JumpProofs.code_fits code -> pc_ok code I ->
  match snd (step W G F I) with
  | SNext I' => pc_ok code I'
  | SCall _ I' | SCreate _ I' => i_pc I' = i_pc I /\ i_pc I + 1 <= zlen code
  | _ => True
  end.
Proof.
  intros F Hb Hf [P0 P1].
  destruct (Z_lt_le_dec (i_pc I) (zlen code)) as [Lt|Ge].
  2:{ pose proof (step_op0 W G F I (opcode_beyond code input t c v st _ Ge)) as H0. fold F in H0.
      destruct (snd (step W G F I)); try exact Logic.I; destruct H0. }
  pose proof (step_Q W G F I) as HQ. destruct (step W G F I) as [G' r] eqn:ES. cbn [snd] in *.
  destruct r as [I'|r out I'|q I'|q I'|k]; try exact Logic.I.
  - destruct HQ as (PM & _). unfold pc_ok. destruct PM as [E|n Ho -> E|J].
    + lia.
    + lia.
    + apply (jump_ok_range code _ Hb Hf) in J. lia.
  - destruct HQ as ((A & _) & _). split; [exact A|lia].
  - destruct HQ as (A & _). split; [exact A|lia].
Qed.
