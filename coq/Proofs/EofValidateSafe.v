(* Soundness of the EOF validator model against the independent safety predicate of
   Spec/EofSafe.v: an accepted container satisfies [container_safe]. *)
From RevmV Require Import Model.Eof Model.EofValidate Spec.EofSafe Proofs.EofProofs Proofs.EofValidateProofs
  Proofs.EofValidateTables Proofs.EofValidateStep Proofs.EofValidateDispatch Proofs.EofValidateProofs2
  Proofs.EofValidateSection Proofs.EofValidateContainer.
From Coq Require Import ZArith List Lia Bool.
Import ListNotations.
Local Open Scope Z_scope.

(* ---- the readers of the specification are the readers of the model ---- *)
Lemma byte_at_get code i : byte_at code i = get code i.
Proof.
  unfold byte_at, get. destruct (Z.ltb_spec i 0); destruct (Z.leb_spec 0 i); try lia; cbn [andb]; [reflexivity|].
  destruct (Z.ltb_spec i (len code)) as [|Hge]; [reflexivity|]. apply nth_error_None. unfold len in Hge. lia.
Qed.
Lemma u16_at_rd code i : u16_at code i = rd_u16 code i.
Proof. unfold u16_at, rd_u16. rewrite !byte_at_get. reflexivity. Qed.
Lemma i16_at_rd code i : i16_at code i = rd_i16 code i.
Proof. unfold i16_at, rd_i16. rewrite u16_at_rd. reflexivity. Qed.

Lemma instr_at_of_model code p op o n :
  get code p = Some op -> op_info op = Some o -> op_not_eof o = false -> next_pc code p = Some n ->
  exists m, instr_at code p = Some (op, m, op_term o) /\ n = p + 1 + m.
Proof.
  intros Eop Eo Ene En. unfold instr_at. rewrite byte_at_get, Eop.
  unfold next_pc in En. rewrite Eop, Eo in En.
  pose proof Eo as Eo'. unfold op_info in Eo'.
  destruct (nth_error eof_op_table (Z.to_nat op)) as [[[[[[i oo] m] ne] t]|]|]; try discriminate.
  inversion Eo'. subst o. cbn [op_not_eof op_term op_imm] in *. subst ne.
  destruct (Z.eqb_spec op OP_RJUMPV) as [->|].
  - rewrite byte_at_get. destruct (get code (p + 1)) as [mx|]; [|discriminate].
    pose proof (op_info_rjumpv_imm _ Eo) as Ei. cbn [op_imm] in Ei. subst m.
    eexists. split; [reflexivity|]. inversion En. lia.
  - eexists. split; [reflexivity|]. inversion En. lia.
Qed.

Lemma instr_at_to_model code p op m term :
  instr_at code p = Some (op, m, term) ->
  get code p = Some op /\ exists o, op_info op = Some o /\ op_not_eof o = false /\ term = op_term o /\
    next_pc code p = Some (p + 1 + m).
Proof.
  unfold instr_at. rewrite byte_at_get. destruct (get code p) as [op'|] eqn:Eop; [|discriminate].
  unfold next_pc. rewrite Eop. unfold op_info.
  destruct (nth_error eof_op_table (Z.to_nat op')) as [[[[[[i oo] m'] ne] t]|]|] eqn:Et; try discriminate.
  destruct ne; [discriminate|].
  destruct (Z.eqb_spec op' OP_RJUMPV) as [->|Hne].
  - rewrite byte_at_get. destruct (get code (p + 1)) as [mx|]; [|discriminate]. intros H.
    assert (Hm : op = OP_RJUMPV /\ m = 1 + 2 * (mx + 1) /\ term = t) by (inversion H; repeat split; reflexivity).
    clear H. destruct Hm as (-> & -> & ->).
    split; [reflexivity|]. exists (mkOp i oo m' false t). split; [rewrite Et; reflexivity|]. cbn [op_not_eof op_term op_imm].
    assert (m' = 1) by (vm_compute in Et; inversion Et; reflexivity). subst m'.
    change (OP_RJUMPV =? OP_RJUMPV) with true. cbv iota.
    split; [reflexivity|]. split; [reflexivity|]. f_equal. lia.
  - intros H. injection H as E1 E2 E3. subst op m term. split; [reflexivity|].
    exists (mkOp i oo m' false t). split; [rewrite Et; reflexivity|].
    cbn [op_not_eof op_term op_imm].
    split; [reflexivity|]. split; reflexivity.
Qed.

(* ---- scan lists exactly the instruction starts ---- *)
Definition entry (code : bytes) (p : Z) : option (Z * Z * Z * bool) :=
  match instr_at code p with Some (op, m, term) => Some (p, op, m, term) | None => None end.

Definition has_instr (code : bytes) : Prop :=
  forall p, is_start code p -> exists op o n, get code p = Some op /\ op_info op = Some o /\
    op_not_eof o = false /\ next_pc code p = Some n /\ n <= len code.

Lemma scan_ok code : bytes_ok code -> has_instr code ->
  forall fuel i, reach code i -> i <= len code -> len code - i < Z.of_nat fuel ->
  exists r, scan fuel code i = Some r /\
    forall x, In x r <-> exists p, is_start code p /\ i <= p /\ entry code p = Some x.
Proof.
  intros Hb Hi. induction fuel as [|f IH]; intros i Ri Li Lf; cbn [scan];
    destruct (Z.eqb_spec i (len code)) as [E|E].
  - exists []. split; [reflexivity|]. intros x. split; [intros []|]. intros (p & (_ & B) & C & _). lia.
  - lia.
  - exists []. split; [reflexivity|]. intros x. split; [intros []|]. intros (p & (_ & B) & C & _). lia.
  - pose proof (reach_nonneg _ _ Hb Ri) as I0.
    assert (Si : is_start code i) by (split; [exact Ri|lia]).
    destruct (Hi i Si) as (op & o & n & Eop & Eo & Ene & En & Bn).
    destruct (instr_at_of_model _ _ _ _ _ Eop Eo Ene En) as (m & Eat & Enm).
    rewrite Eat. pose proof (next_pc_gt _ _ _ Hb En) as Gn.
    destruct (Z.leb_spec (i + 1 + m) (len code)); [|lia].
    destruct (IH (i + 1 + m)) as (r & Er & Hr); [subst n; eapply reach_next; [exact Ri|lia|exact En]|lia|lia|].
    rewrite Er. eexists. split; [reflexivity|]. intros x. cbn [In]. rewrite Hr. split.
    + intros [<-|(p & Sp & Bp & Ep)].
      * exists i. split; [exact Si|]. split; [lia|]. unfold entry. rewrite Eat. reflexivity.
      * exists p. split; [exact Sp|]. split; [lia|exact Ep].
    + intros (p & Sp & Bp & Ep). destruct (Z.eq_dec p i) as [->|Hne].
      * left. unfold entry in Ep. rewrite Eat in Ep. inversion Ep. reflexivity.
      * right. exists p. split; [exact Sp|]. split; [|exact Ep].
        destruct Sp as (Rp & _). pose proof (reach_linear code Hb p i n Rp Ri ltac:(lia) En). lia.
Qed.

Lemma scan_last code : forall fuel i r, scan fuel code i = Some r -> i <> len code ->
  exists r' p op m term, r = r' ++ [(p, op, m, term)] /\ p + 1 + m = len code /\ instr_at code p = Some (op, m, term).
Proof.
  induction fuel as [|f IH]; intros i r H Hne; cbn [scan] in H;
    destruct (Z.eqb_spec i (len code)) as [E|E]; try lia; try discriminate.
  destruct (instr_at code i) as [[[op m] term]|] eqn:Eat; [|discriminate].
  destruct (i + 1 + m <=? len code); [|discriminate].
  destruct (scan f code (i + 1 + m)) as [r1|] eqn:Es; [|discriminate]. inversion H. subst r.
  destruct (Z.eq_dec (i + 1 + m) (len code)) as [El|Hl].
  - assert (r1 = []).
    { destruct f; cbn [scan] in Es; rewrite El, Z.eqb_refl in Es; inversion Es; reflexivity. }
    subst r1. exists [], i, op, m, term. auto.
  - destruct (IH _ _ Es Hl) as (r' & p & op' & m' & term' & -> & A & B).
    exists ((i, op, m, term) :: r'), p, op', m', term'. auto.
Qed.

Lemma is_start_spec code (ins : list (Z * Z * Z * bool)) t :
  (forall x, In x ins <-> exists p, is_start code p /\ 0 <= p /\ entry code p = Some x) ->
  has_instr code ->
  (EofSafe.is_start ins t = true <-> is_start code t).
Proof.
  intros Hins Hi. unfold EofSafe.is_start. rewrite existsb_exists. split.
  - intros ([[[p op] m] term] & Hin & E). apply Z.eqb_eq in E. subst p.
    apply Hins in Hin. destruct Hin as (p & Sp & _ & Ep). unfold entry in Ep.
    destruct (instr_at code p) as [[[a b] c]|]; [|discriminate]. inversion Ep. subst. exact Sp.
  - intros St. destruct (Hi t St) as (op & o & n & Eop & Eo & Ene & En & Bn).
    destruct (instr_at_of_model _ _ _ _ _ Eop Eo Ene En) as (m & Eat & Enm).
    exists (t, op, m, op_term o). split; [|apply Z.eqb_refl].
    apply Hins. exists t. split; [exact St|]. split; [destruct St; lia|]. unfold entry. rewrite Eat. reflexivity.
Qed.

Lemma rjumpv_tg_nth code base : forall cnt tbl tg, rjumpv_tg code base tbl cnt = Some tg ->
  forall k, (k < cnt)%nat -> exists off, rd_i16 code (tbl + 2 * Z.of_nat k) = Some off /\ In (base + off) tg.
Proof.
  induction cnt as [|c IH]; intros tbl tg H k Hk; [lia|]. cbn [rjumpv_tg] in H.
  destruct (rd_i16 code tbl) as [off|] eqn:E; [|discriminate].
  destruct (rjumpv_tg code base (tbl + 2) c) as [r|] eqn:Er; [|discriminate]. inversion H. subst tg.
  destruct k as [|k].
  - exists off. replace (tbl + 2 * Z.of_nat 0) with tbl by lia. split; [exact E|left; reflexivity].
  - destruct (IH _ _ Er k ltac:(lia)) as (off' & E' & I'). exists off'.
    replace (tbl + 2 * Z.of_nat (S k)) with (tbl + 2 + 2 * Z.of_nat k) by lia. split; [exact E'|right; exact I'].
Qed.

Theorem walk_safe_section_safe code ntypes ncont ds :
  bytes_ok code -> walk_safe code ntypes ncont ds -> section_safe ntypes ncont ds code = true.
Proof.
  intros Hb (Wr & Wi & (pl & Spl & Npl & (opl & ol & Eopl & Eol & Tl))).
  assert (Hi : has_instr code).
  { intros p Sp. destruct (Wi p Sp) as ((X & _) & _). exact X. }
  unfold section_safe.
  destruct (scan_ok code Hb Hi (S (length code)) 0) as (ins & Es & Hins);
    [constructor|apply len_nonneg|unfold len; lia|].
  rewrite Es. apply andb_true_intro. split.
  - apply forallb_forall. intros [[[p op] m] term] Hin.
    apply Hins in Hin. destruct Hin as (p' & Sp & _ & Ep). unfold entry in Ep.
    destruct (instr_at code p') as [[[a b] c]|] eqn:Eat; [|discriminate]. inversion Ep. subst p' a b c. clear Ep.
    destruct (instr_at_to_model _ _ _ _ _ Eat) as (Eop & o & Eo & Ene & Et & En).
    destruct (Wi p Sp) as ((_ & Hop & Hdl) & tg & Etg & Htg).
    unfold instr_ok. unfold jump_targets in Etg. rewrite Eop in Etg.
    destruct ((op =? OP_RJUMP) || (op =? OP_RJUMPI)) eqn:B1.
    { rewrite i16_at_rd. destruct (rd_i16 code (p + 1)) as [off|]; [|discriminate]. inversion Etg. subst tg.
      apply (is_start_spec code ins); [exact Hins|exact Hi|]. apply Htg. left. reflexivity. }
    destruct (op =? OP_RJUMPV) eqn:B2.
    { rewrite byte_at_get. destruct (get code (p + 1)) as [mx|] eqn:Emx; [|discriminate].
      apply Z.eqb_eq in B2. subst op.
      assert (Em : m = 1 + 2 * (mx + 1)).
      { unfold instr_at in Eat. rewrite byte_at_get, Eop in Eat.
        destruct (nth_error eof_op_table (Z.to_nat OP_RJUMPV)) as [[[[[[i0 oo] m'] ne] t]|]|]; try discriminate.
        destruct ne; [discriminate|]. change (OP_RJUMPV =? OP_RJUMPV) with true in Eat. cbv iota in Eat.
        rewrite byte_at_get, Emx in Eat. inversion Eat. reflexivity. }
      pose proof (rjumpv_tg_nth _ _ _ _ _ Etg) as Hk.
      assert (G : forall k, (k <= Z.to_nat (mx + 1))%nat -> rjumpv_ok code ins p m k = true).
      { induction k as [|k IHk]; intros Hle; [reflexivity|]. cbn [rjumpv_ok].
        destruct (Hk k ltac:(lia)) as (off & Eoff & Ioff). rewrite i16_at_rd, Eoff.
        apply andb_true_intro. split; [|apply IHk; lia].
        apply (is_start_spec code ins); [exact Hins|exact Hi|].
        replace (p + 1 + m + off) with (p + 2 + 2 * (mx + 1) + off) by lia. apply Htg. exact Ioff. }
      apply G. lia. }
    destruct (Hop op Eop) as (Hcf & Hec).
    destruct ((op =? OP_CALLF) || (op =? OP_JUMPF)) eqn:B3.
    { apply orb_true_iff in B3. rewrite !Z.eqb_eq in B3. destruct (Hcf B3) as (x & Ex & Bx).
      apply read_u16_rd in Ex. rewrite u16_at_rd, Ex. apply Z.ltb_lt. lia. }
    destruct ((op =? OP_EOFCREATE) || (op =? OP_RETURNCONTRACT)) eqn:B4.
    { apply orb_true_iff in B4. rewrite !Z.eqb_eq in B4. destruct (Hec B4) as (x & Ex & Bx).
      rewrite byte_at_get, Ex. apply Z.ltb_lt. exact Bx. }
    destruct (op =? OP_DATALOADN) eqn:B5; [|reflexivity].
    apply Z.eqb_eq in B5. subst op. destruct (Hdl Eop) as (x & Ex & Bx).
    rewrite u16_at_rd, Ex. apply Z.leb_le. exact Bx.
  - assert (Hne : 0 <> len code) by (destruct Spl; lia).
    destruct (scan_last _ _ _ _ Es Hne) as (r' & p & op & m & term & -> & El & Eat).
    unfold last_terminates. rewrite rev_unit.
    destruct (instr_at_to_model _ _ _ _ _ Eat) as (Eop & o & Eo & Ene & Et & En).
    assert (Sp : is_start code p).
    { assert (Hin : In (p, op, m, term) (r' ++ [(p, op, m, term)])) by (apply in_or_app; right; left; reflexivity).
      apply Hins in Hin. destruct Hin as (p' & Sp' & _ & Ep). unfold entry in Ep.
      destruct (instr_at code p') as [[[a b] c]|]; [|discriminate]. inversion Ep. subst. exact Sp'. }
    assert (p = pl).
    { destruct Sp as (Rp & Bp). destruct Spl as (Rl & Bl). rewrite El in En.
      destruct (Z.lt_trichotomy p pl) as [C|[C|C]]; [|exact C|].
      - pose proof (reach_linear code Hb pl p _ Rl Rp C En). lia.
      - pose proof (reach_linear code Hb p pl _ Rp Rl C Npl). lia. }
    subst pl. rewrite Eop in Eopl. inversion Eopl. subst opl. rewrite Eo in Eol. inversion Eol. subst ol.
    rewrite Et. exact Tl.
Qed.

(* operands of EOFCREATE instructions, as the specification collects them *)
Lemma eofcreate_targets_spec code ntypes ncont ds t :
  bytes_ok code -> walk_safe code ntypes ncont ds -> In t (eofcreate_targets code) ->
  exists p, is_start code p /\ get code p = Some OP_EOFCREATE /\ get code (p + 1) = Some t.
Proof.
  intros Hb (Wr & Wi & _) Hin.
  assert (Hi : has_instr code).
  { intros p Sp. destruct (Wi p Sp) as ((X & _) & _). exact X. }
  unfold eofcreate_targets in Hin.
  destruct (scan_ok code Hb Hi (S (length code)) 0) as (ins & Es & Hins);
    [constructor|apply len_nonneg|unfold len; lia|].
  rewrite Es in Hin. apply in_flat_map in Hin. destruct Hin as ([[[p op] m] term] & Hx & Ht).
  apply Hins in Hx. destruct Hx as (p' & Sp & _ & Ep). unfold entry in Ep.
  destruct (instr_at code p') as [[[a b] c]|] eqn:Eat; [|discriminate]. inversion Ep. subst p' a b c.
  destruct (instr_at_to_model _ _ _ _ _ Eat) as (Eop & _).
  destruct (Z.eqb_spec op OP_EOFCREATE) as [->|]; [|destruct Ht].
  rewrite byte_at_get in Ht. destruct (get code (p + 1)) as [s|] eqn:Es1; [|destruct Ht].
  destruct Ht as [<-|[]]. exists p. auto.
Qed.

Lemma Forall2_nth_z_l {A B} (R : A -> B -> Prop) l1 l2 x a :
  Forall2 R l1 l2 -> nth_z l1 x = Some a -> exists b, nth_z l2 x = Some b /\ R a b.
Proof.
  intros F. unfold nth_z. destruct (0 <=? x); [|discriminate]. generalize (Z.to_nat x). clear x.
  induction F as [|a0 b0 l1 l2 Hab F IH]; intros [|n] H; cbn [nth_error] in *; try discriminate.
  - inversion H. subst. eauto.
  - apply IH. exact H.
Qed.
Lemma Forall2_nth_z_r {A B} (R : A -> B -> Prop) l1 l2 x b :
  Forall2 R l1 l2 -> nth_z l2 x = Some b -> exists a, nth_z l1 x = Some a /\ R a b.
Proof.
  intros F. unfold nth_z. destruct (0 <=? x); [|discriminate]. generalize (Z.to_nat x). clear x.
  induction F as [|a0 b0 l1 l2 Hab F IH]; intros [|n] H; cbn [nth_error] in *; try discriminate.
  - inversion H. subst. eauto.
  - apply IH. exact H.
Qed.

Theorem container_valid_safe : forall fuel bs e k,
  bytes_ok bs -> decode bs = Ok e -> container_valid e k -> len bs < Z.of_nat fuel ->
  container_safe fuel e = true.
Proof.
  induction fuel as [|f IH]; intros bs e k Hb Ed V Hf.
  - pose proof (len_nonneg bs). lia.
  - inversion V as [e2 k2 cts Cs F2]. subst e2 k2.
    destruct (decode_sections_bytes _ _ Hb Ed) as (Bc & Bk).
    destruct Cs as (C1 & C2 & C3 & C4 & kind & K1 & K2 & Csec).
    cbn [container_safe]. repeat (apply andb_true_intro; split).
    + apply Z.eqb_eq. exact C1.
    + apply Z.leb_le. lia.
    + apply forallb_forall. intros code Hin. destruct (In_nth_z _ _ Hin) as (idx & Eidx).
      destruct (Csec idx code Eidx) as ((W & _) & _).
      apply walk_safe_section_safe; [|exact W]. rewrite Forall_forall in Bc. apply Bc. exact Hin.
    + apply forallb_forall. intros c Hin. destruct (In_nth_z _ _ Hin) as (x & Ex).
      destruct (Forall2_nth_z_l _ _ _ _ _ F2 Ex) as (ct & _ & e' & Ed' & V').
      rewrite Ed'. rewrite Forall_forall in Bk. destruct (Bk c Hin) as (Bc' & Lc').
      apply (IH c e' (Some ct)); [exact Bc'|exact Ed'|exact V'|lia].
    + apply forallb_forall. intros t Hin. apply in_flat_map in Hin. destruct Hin as (code & Hc & Ht).
      destruct (In_nth_z _ _ Hc) as (idx & Eidx). destruct (Csec idx code Eidx) as ((W & _) & Sm).
      assert (Hbc : bytes_ok code) by (rewrite Forall_forall in Bc; apply Bc; exact Hc).
      destruct (eofcreate_targets_spec _ _ _ _ _ Hbc W Ht) as (p & Sp & Eop & Et).
      destruct (Sm p _ Sp Eop) as (S1 & _). destruct (S1 eq_refl) as (x & Ex & Ecx).
      rewrite Et in Ex. inversion Ex. subst x.
      destruct (Forall2_nth_z_r _ _ _ _ _ F2 Ecx) as (c & Ec & e' & Ed' & V').
      assert (Hn : nth_error (container_section (body e)) (Z.to_nat t) = Some c).
      { unfold nth_z in Ec. destruct (0 <=? t); [exact Ec|discriminate]. }
      rewrite Hn, Ed'. inversion V' as [e2 k2 cts' Cs' F']. subst e2 k2.
      destruct Cs' as (_ & _ & _ & _ & kind' & K1' & K2' & _). apply K2'. apply K1'. reflexivity.
Qed.

Theorem validate_raw_eof_inner_container_safe bs k :
  bytes_ok bs -> validate_raw_eof_inner_r bs k = VOk tt ->
  exists e, decode bs = Ok e /\ container_safe (S (length bs)) e = true.
Proof.
  intros Hb H. destruct (validate_raw_eof_inner_sound _ _ Hb H) as (e & Ed & _ & V).
  exists e. split; [exact Ed|]. apply (container_valid_safe _ bs e k Hb Ed V). unfold len. lia.
Qed.

(* ---- per-section corollaries in unfolded form ---- *)
Theorem validate_eof_code_jump_targets code ds idx nc types tr tr' :
  bytes_ok code -> validate_eof_code code ds idx nc types tr = VOk tr' ->
  (forall p, is_start code p ->
     exists tg, jump_targets code p = Some tg /\ forall t, In t tg -> is_start code t) /\
  (exists p, is_start code p /\ next_pc code p = Some (len code) /\ term_at code p).
Proof.
  intros Hb H. destruct (validate_eof_code_walk_safe _ _ _ _ _ _ _ Hb H) as (_ & Wi & Wl).
  split; [|exact Wl]. intros p Sp. destruct (Wi p Sp) as (_ & X). exact X.
Qed.

Theorem validate_eof_code_heights code ds idx nc types tr tr' :
  bytes_ok code -> validate_eof_code code ds idx nc types tr = VOk tr' ->
  exists tt, nth_z types idx = Some tt /\
    (outputs tt = 128 -> forall p, is_start code p -> ~ instr_returns code types p) /\
    forall p h, hreach code types tt p h -> is_start code p ->
      h <= max_stack_size tt /\
      exists req diff, instr_stack code types tt p = Some (req, diff) /\ req <= h /\
        instr_limits code types tt p h /\ (get code p = Some OP_RETF -> h = outputs tt).
Proof.
  intros Hb H. destruct (validate_eof_code_sound _ _ _ _ _ _ _ Hb H) as ((_ & tt & Ett & lo & hi & C) & _).
  exists tt. split; [exact Ett|]. split; [destruct C as (_ & X & _); exact X|].
  intros p h Hr Sp. eapply stack_cert_at; eassumption.
Qed.

Theorem container_valid_unfold e k :
  container_valid e k ->
  exists cts, codes_safe e k cts /\
    Forall2 (fun c ct => exists e', decode c = Ok e' /\ container_valid e' (Some ct))
            (container_section (body e)) cts.
Proof. intros V. inversion V as [e2 k2 cts Cs F2]. subst. eauto. Qed.
