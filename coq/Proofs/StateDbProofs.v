(* Per-account refinement between a cached account of [State] and the plain reference account
   (C15). All statements are about the model of Model/StateDb.v. *)
From RevmV Require Import Model.AcctStatus Model.StateDb Spec.PlainStateSpec.
Local Open Scope Z_scope.

(* ------------------------------------------------------------------ association lists *)
Lemma aget_app {A} k (a b : list (Z * A)) :
  aget k (a ++ b) = match aget k a with Some v => Some v | None => aget k b end.
Proof.
  induction a as [|[k' v] a IH]; simpl; [reflexivity|].
  destruct (k =? k'); [reflexivity|exact IH].
Qed.

Definition keys_distinct (l : list eslot) : Prop := NoDup (map s_key l).
Lemma keys_distinctb_ok l : keys_distinctb l = true -> keys_distinct l.
Proof.
  unfold keys_distinct. induction l as [|s r IH]; simpl; intro H; [constructor|].
  apply andb_true_iff in H as [H1 H2]. constructor; [|auto].
  intro Hin. apply in_map_iff in Hin as [t [Hk Ht]].
  apply negb_true_iff in H1. assert (existsb (fun t => s_key t =? s_key s) r = true); [|congruence].
  apply existsb_exists. exists t. split; [exact Ht|]. apply Z.eqb_eq. exact Hk.
Qed.

Lemma find_key_none l k :
  find (fun s => s_key s =? k) l = None -> forall s, In s l -> s_key s <> k.
Proof.
  intros H s Hin Hk. apply (find_none _ _ H) in Hin. apply Z.eqb_neq in Hin. contradiction.
Qed.

Lemma sget_present_none l k :
  (forall s, In s l -> s_key s <> k) -> sget k (present_map l) = None.
Proof.
  induction l as [|s r IH]; simpl; intro H; [reflexivity|].
  unfold sget in *. simpl. destruct (k =? s_key s) eqn:E.
  - apply Z.eqb_eq in E. exfalso. apply (H s); [left; reflexivity|symmetry; exact E].
  - apply IH. intros t Ht. apply H. right. exact Ht.
Qed.

(* the cache applies only the changed slots, the reference writes every listed slot *)
Lemma changed_vs_all l f k :
  keys_distinct l ->
  (forall s, In s l -> slot_changed s = false -> s_present s = f (s_key s)) ->
  match sget k (present_map (changed_slots l)) with Some v => v | None => f k end
  = write_slots l f k.
Proof.
  unfold write_slots, keys_distinct. induction l as [|s r IH]; simpl; intros Hnd Hun; [reflexivity|].
  inversion Hnd as [|x xs Hnotin Hnd']; subst.
  destruct (s_key s =? k) eqn:Ek.
  - apply Z.eqb_eq in Ek. destruct (slot_changed s) eqn:Ec.
    + unfold sget. simpl. rewrite <- Ek, Z.eqb_refl. reflexivity.
    + assert (Hn : sget k (present_map (changed_slots r)) = None).
      { apply sget_present_none. intros t Ht Hk. apply Hnotin. apply in_map_iff. exists t.
        split; [congruence|]. unfold changed_slots in Ht. apply filter_In in Ht. tauto. }
      rewrite Hn. rewrite <- Ek. symmetry. apply Hun; [left; reflexivity|exact Ec].
  - destruct (slot_changed s) eqn:Ec.
    + unfold sget. simpl. rewrite Z.eqb_sym, Ek. apply IH; [exact Hnd'|].
      intros t Ht. apply Hun. right. exact Ht.
    + apply IH; [exact Hnd'|]. intros t Ht. apply Hun. right. exact Ht.
Qed.

Lemma write_slots_id l f k :
  (forall s, In s l -> s_present s = f (s_key s)) -> write_slots l f k = f k.
Proof.
  unfold write_slots. intro H. destruct (find (fun s => s_key s =? k) l) eqn:E; [|reflexivity].
  apply find_some in E as [Hin Hk]. apply Z.eqb_eq in Hk. rewrite <- Hk. apply H. exact Hin.
Qed.

Lemma write_slots_zero l f k :
  (forall s, In s l -> s_present s = 0) -> f k = 0 -> write_slots l f k = 0.
Proof.
  unfold write_slots. intros H H0. destruct (find (fun s => s_key s =? k) l) eqn:E; [|exact H0].
  apply find_some in E as [Hin _]. apply H. exact Hin.
Qed.

Lemma present_changed_zero l k :
  (forall s, In s l -> s_present s = 0) ->
  match sget k (present_map (changed_slots l)) with Some v => v | None => 0 end = 0.
Proof.
  intro H. induction l as [|s r IH]; simpl; [reflexivity|].
  destruct (slot_changed s); [|apply IH; intros; apply H; right; assumption].
  unfold sget. simpl. destruct (k =? s_key s).
  - apply H. left. reflexivity.
  - apply IH. intros. apply H. right. assumption.
Qed.

Lemma forallb_In {A} (p : A -> bool) l : forallb p l = true -> forall x, In x l -> p x = true.
Proof. intro H. apply forallb_forall. exact H. Qed.

(* ------------------------------------------------------------------ info facts *)
Lemma empty_no_cn i : i_code_hash i <> 0 -> info_is_empty i = true -> has_no_code_and_nonce i = true.
Proof.
  unfold info_is_empty, has_no_code_and_nonce, is_empty_code_hash. intros Hh H.
  apply andb_true_iff in H as [H Hn]. apply andb_true_iff in H as [H Hb].
  apply orb_true_iff in H as [H|H]; [rewrite H, Hn; reflexivity|].
  apply Z.eqb_eq in H. contradiction.
Qed.
Lemma empty_same_default i :
  i_code_hash i <> 0 -> info_is_empty i = true -> info_same info_default i.
Proof.
  unfold info_is_empty, is_empty_code_hash, info_same. intros Hh H.
  apply andb_true_iff in H as [H Hn]. apply andb_true_iff in H as [H Hb].
  apply Z.eqb_eq in Hn, Hb. simpl. repeat split; try congruence.
  apply orb_true_iff in H as [H|H]; apply Z.eqb_eq in H; [congruence|contradiction].
Qed.
Lemma same_empty a b : info_same a b -> info_is_empty a = info_is_empty b.
Proof. unfold info_same, info_is_empty, is_empty_code_hash. intros [H1 [H2 H3]]. rewrite H1, H2, H3. reflexivity. Qed.
Lemma same_no_cn a b : info_same a b -> has_no_code_and_nonce a = has_no_code_and_nonce b.
Proof. unfold info_same, has_no_code_and_nonce, is_empty_code_hash. intros [H1 [H2 H3]]. rewrite H2, H3. reflexivity. Qed.
Lemma same_refl a : info_same a a.
Proof. unfold info_same. tauto. Qed.
Lemma same_set_balance a b v : info_same a b -> info_same (set_balance a v) (set_balance b v).
Proof. unfold info_same. simpl. tauto. Qed.
Lemma same_add_balance a b n : info_same a b -> info_same (add_balance_sat a n) (add_balance_sat b n).
Proof. unfold info_same, add_balance_sat. simpl. intros [H1 [H2 H3]]. rewrite H1. tauto. Qed.
Lemma no_cn_set_balance a v : has_no_code_and_nonce (set_balance a v) = has_no_code_and_nonce a.
Proof. reflexivity. Qed.
Lemma no_cn_default : has_no_code_and_nonce info_default = true.
Proof. reflexivity. Qed.

(* ------------------------------------------------------------------ the invariant *)
Section Account.
Variable ds : Z -> Z.    (* the underlying database's storage of this address *)

Definition storage_view (c : cacc) (k : Z) : Z :=
  match ca_account c with
  | None => 0
  | Some p => match sget k (p_storage p) with
              | Some v => v
              | None => if is_storage_known (ca_status c) then 0 else ds k
              end
  end.
Lemma cacc_storage_view c k : snd (cacc_storage ds c k) = storage_view c k.
Proof.
  unfold cacc_storage, storage_view. destruct (ca_account c) as [p|]; [|reflexivity].
  destruct (sget k (p_storage p)); reflexivity.
Qed.
Lemma cacc_storage_keeps c k k' :
  storage_view (fst (cacc_storage ds c k)) k' = storage_view c k'.
Proof.
  unfold cacc_storage, storage_view. destruct (ca_account c) as [p|] eqn:Ea; simpl; [|rewrite Ea; reflexivity].
  destruct (sget k (p_storage p)) eqn:Es; simpl; [rewrite Ea; reflexivity|].
  unfold sget in *. simpl. destruct (k' =? k) eqn:Ek; [|reflexivity].
  apply Z.eqb_eq in Ek. subst. rewrite Es. reflexivity.
Qed.

Definition shape_ok (c : cacc) : Prop :=
  match ca_status c with
  | LoadedNotExisting | Destroyed | DestroyedAgain => ca_account c = None
  | _ => ca_account c <> None
  end.

Definition info_rel (c : cacc) (r : option rplain) : Prop :=
  match ca_account c, r with
  | None, None => True
  | Some p, Some q => info_same (p_info p) (r_info q)
  | _, _ => False
  end.

Record Inv (c : cacc) (r : option rplain) : Prop := mkInv {
  inv_shape : shape_ok c;
  inv_info : info_rel c r;
  inv_stor : forall k, storage_view c k = ref_storage r k;
  inv_orphan : forall q, r = Some q -> has_no_code_and_nonce (r_info q) = true -> forall k, r_storage q k = 0;
  inv_loaded : ca_status c = Loaded -> forall q, r = Some q -> info_is_empty (r_info q) = false;
  inv_changed : ca_status c = Changed -> forall q, r = Some q -> has_no_code_and_nonce (r_info q) = false;
  inv_lempty : ca_status c = LoadedEmptyEIP161 -> forall q, r = Some q -> info_is_empty (r_info q) = true;
  inv_hash : forall q, r = Some q -> i_code_hash (r_info q) <> 0 }.

(* ---- the reference side of a per-account history *)
Definition spec_step (r : option rplain) (o : aop) : option rplain :=
  match o with
  | ACommit clear e => spec_commit clear r e
  | AIncr n => spec_increment r n
  | ADrain => spec_drain r
  | AStorage _ | ABasic => r
  end.
Definition op_ok (r : option rplain) (o : aop) : bool :=
  match o with
  | ACommit clear e => EvmOutOK clear r e
  | ADrain => match r with Some q => i_balance (r_info q) <? pow128 | None => true end
  | _ => true
  end.
Fixpoint spec_run (r : option rplain) (h : list aop) : option rplain :=
  match h with [] => r | o :: t => spec_run (spec_step r o) t end.
Fixpoint hist_ok (r : option rplain) (h : list aop) : Prop :=
  match h with [] => True | o :: t => op_ok r o = true /\ hist_ok (spec_step r o) t end.

(* ---- reads preserve the invariant *)
Lemma inv_read c r k : Inv c r -> Inv (fst (cacc_storage ds c k)) r.
Proof.
  intros [Hs Hi Hst Ho Hl Hc Hle Hh].
  assert (Est : ca_status (fst (cacc_storage ds c k)) = ca_status c).
  { unfold cacc_storage. destruct (ca_account c) as [p|]; [|reflexivity]. destruct (sget k (p_storage p)); reflexivity. }
  assert (Eac : match ca_account (fst (cacc_storage ds c k)), ca_account c with
                | Some p', Some p => p_info p' = p_info p | None, None => True | _, _ => False end).
  { unfold cacc_storage. destruct (ca_account c) as [p|] eqn:E; simpl; [|rewrite E; exact I].
    destruct (sget k (p_storage p)); simpl; [rewrite E|]; reflexivity. }
  constructor; try assumption.
  - unfold shape_ok in *. rewrite Est. destruct (ca_account (fst (cacc_storage ds c k))), (ca_account c); try contradiction;
      destruct (ca_status c); try assumption; try discriminate; try (intro; discriminate); try (exfalso; apply Hs; reflexivity).
  - unfold info_rel in *. destruct (ca_account (fst (cacc_storage ds c k))), (ca_account c); try contradiction.
    + rewrite Eac. exact Hi.
    + exact Hi.
  - intro k'. rewrite cacc_storage_keeps. apply Hst.
  - rewrite Est. exact Hl.
  - rewrite Est. exact Hc.
  - rewrite Est. exact Hle.
Qed.

Lemma inv_some c r : Inv c r -> ca_account c <> None -> exists q, r = Some q.
Proof.
  intros H Hn. destruct H as [_ Hi _ _ _ _ _ _]. unfold info_rel in Hi.
  destruct (ca_account c); [|contradiction]. destruct r as [q|]; [eauto|contradiction].
Qed.
Lemma inv_none c r : Inv c r -> ca_account c = None -> r = None.
Proof.
  intros H Hn. destruct H as [_ Hi _ _ _ _ _ _]. unfold info_rel in Hi. rewrite Hn in Hi.
  destruct r; [contradiction|reflexivity].
Qed.

(* ---- an account that becomes absent *)
Lemma inv_gone s : (s = LoadedNotExisting \/ s = Destroyed \/ s = DestroyedAgain) -> Inv (mkCacc None s) None.
Proof.
  intro Hs. constructor; simpl; try (intros; discriminate); try exact I; try reflexivity;
    try (unfold shape_ok; simpl; destruct Hs as [->|[->| ->]]; reflexivity);
    try (destruct Hs as [->|[->| ->]]; discriminate).
Qed.

Lemma step_selfdestruct c r : Inv c r -> Inv (fst (selfdestruct c)) None.
Proof.
  intros _. unfold selfdestruct. simpl. apply inv_gone. destruct (ca_status c); simpl; tauto.
Qed.

(* ---- creation *)
Lemma step_created c r i st :
  Inv c r -> i_code_hash i <> 0 -> keys_distinct st ->
  (forall s, In s st -> s_orig s = 0) ->
  (has_no_code_and_nonce i = true -> forall s, In s st -> s_present s = 0) ->
  Inv (fst (newly_created c i (changed_slots st))) (Some (mkR i (write_slots st (fun _ => 0)))).
Proof.
  intros _ Hh Hnd Ho Horph. unfold newly_created. simpl.
  assert (Hk : is_storage_known (on_created (ca_status c)) = true) by (destruct (ca_status c); reflexivity).
  constructor; simpl.
  - unfold shape_ok. simpl. destruct (ca_status c); simpl; discriminate.
  - unfold info_rel. simpl. apply same_refl.
  - intro k. unfold storage_view. simpl. rewrite Hk.
    apply (changed_vs_all st (fun _ => 0) k Hnd). intros s Hin Hc.
    unfold slot_changed in Hc. apply negb_false_iff, Z.eqb_eq in Hc. rewrite <- Hc. apply Ho. exact Hin.
  - intros q Hq Hn k. inversion Hq; subst; simpl in *. apply write_slots_zero; [|reflexivity]. apply Horph. exact Hn.
  - destruct (ca_status c); discriminate.
  - destruct (ca_status c); discriminate.
  - destruct (ca_status c); discriminate.
  - intros q Hq. inversion Hq; subst. exact Hh.
Qed.

(* facts drawn from the relation between the reference account and a non-created output *)
Definition out_rel (r : option rplain) (i : info) : Prop :=
  forall q, r = Some q ->
    (has_no_code_and_nonce (r_info q) = false -> has_no_code_and_nonce i = false) /\
    (info_is_empty (r_info q) = false -> info_is_empty i = false).

Lemma not_loaded_changed c r i :
  Inv c r -> out_rel r i -> i_code_hash i <> 0 -> info_is_empty i = true ->
  ca_status c <> Loaded /\ ca_status c <> Changed.
Proof.
  intros HI Hrel Hh He. split; intro Hs.
  - destruct (inv_some c r HI) as [q Hq].
    { pose proof (inv_shape _ _ HI) as S. unfold shape_ok in S. rewrite Hs in S. exact S. }
    pose proof (inv_loaded _ _ HI Hs q Hq) as Hne. destruct (Hrel q Hq) as [_ H2]. rewrite (H2 Hne) in He. discriminate.
  - destruct (inv_some c r HI) as [q Hq].
    { pose proof (inv_shape _ _ HI) as S. unfold shape_ok in S. rewrite Hs in S. exact S. }
    pose proof (inv_changed _ _ HI Hs q Hq) as Hcn. destruct (Hrel q Hq) as [H1 _].
    rewrite (empty_no_cn i Hh He) in H1. specialize (H1 Hcn). discriminate.
Qed.

(* ---- EIP-161 touch of an empty account *)
Lemma step_touch_empty c r i :
  Inv c r -> out_rel r i -> i_code_hash i <> 0 -> info_is_empty i = true ->
  exists c' t, touch_empty_eip161 c = Some (c', t) /\ Inv c' None.
Proof.
  intros HI Hrel Hh He. destruct (not_loaded_changed c r i HI Hrel Hh He) as [H1 H2].
  unfold touch_empty_eip161.
  destruct (ca_status c) eqn:Es; try congruence; simpl; eexists; eexists; (split; [reflexivity|]); apply inv_gone; tauto.
Qed.

Lemma same_sym a b : info_same a b -> info_same b a.
Proof. unfold info_same. intuition congruence. Qed.
Lemma same_trans a b c : info_same a b -> info_same b c -> info_same a c.
Proof. unfold info_same. intuition congruence. Qed.

(* the reference account is empty and holds no storage *)
Lemma ref_empty_zero c r q :
  Inv c r -> r = Some q -> info_is_empty (r_info q) = true -> forall k, r_storage q k = 0.
Proof.
  intros HI Hq He. apply (inv_orphan _ _ HI q Hq). apply empty_no_cn; [|exact He]. apply (inv_hash _ _ HI q Hq).
Qed.

(* ---- pre-EIP-161 touch of an empty account *)
Lemma step_touch_create c r i st :
  Inv c r -> out_rel r i -> i_code_hash i <> 0 -> info_is_empty i = true ->
  (forall s, In s st -> s_present s = 0) ->
  exists c' t, touch_create_pre_eip161 c (changed_slots st) = Some (c', t) /\
               Inv c' (Some (mkR i (write_slots st (ref_storage r)))).
Proof.
  intros HI Hrel Hh He Hz. destruct (not_loaded_changed c r i HI Hrel Hh He) as [H1 H2].
  assert (Hkeep : forall q, r = Some q -> info_is_empty (r_info q) = true ->
                  Inv c (Some (mkR i (write_slots st (ref_storage r))))).
  { intros q Hq Hqe. subst r. pose proof (ref_empty_zero c _ q HI eq_refl Hqe) as Hz0.
    destruct HI as [Hs Hi Hst Ho Hl Hc Hle Hhh]. constructor; try assumption.
    - unfold info_rel in *. destruct (ca_account c) as [p|]; [|contradiction]. simpl in *.
      apply (same_trans _ (r_info q)); [exact Hi|].
      apply (same_trans _ info_default); [apply same_sym, empty_same_default; [apply (Hhh q eq_refl)|exact Hqe]|].
      apply empty_same_default; assumption.
    - intro k. rewrite Hst. simpl. rewrite Hz0. symmetry. apply write_slots_zero; [exact Hz|apply Hz0].
    - intros q' Hq' _ k. inversion Hq'; subst; simpl. apply write_slots_zero; [exact Hz|apply Hz0].
    - intros Hs' q' Hq'. congruence.
    - intros Hs' q' Hq'. congruence.
    - intros _ q' Hq'. inversion Hq'; subst; simpl. exact He.
    - intros q' Hq'. inversion Hq'; subst; simpl. exact Hh. }
  assert (Hfresh : forall s', (s' = InMemoryChange \/ s' = DestroyedChanged) ->
                   (forall k, ref_storage r k = 0) ->
                   Inv (mkCacc (Some (mkPlain info_default (present_map (changed_slots st)))) s')
                       (Some (mkR i (write_slots st (ref_storage r))))).
  { intros s' Hs' Hr0. constructor; simpl.
    - unfold shape_ok. simpl. destruct Hs' as [-> | ->]; discriminate.
    - unfold info_rel. simpl. apply empty_same_default; assumption.
    - intro k. unfold storage_view. simpl.
      replace (is_storage_known s') with true by (destruct Hs' as [-> | ->]; reflexivity).
      rewrite (present_changed_zero st k Hz). symmetry. apply write_slots_zero; [exact Hz|apply Hr0].
    - intros q Hq _ k. inversion Hq; subst; simpl. apply write_slots_zero; [exact Hz|apply Hr0].
    - destruct Hs' as [-> | ->]; discriminate.
    - destruct Hs' as [-> | ->]; discriminate.
    - destruct Hs' as [-> | ->]; discriminate.
    - intros q Hq. inversion Hq; subst; simpl. exact Hh. }
  pose proof (inv_shape _ _ HI) as Hshape. unfold shape_ok in Hshape.
  unfold touch_create_pre_eip161.
  destruct (ca_status c) eqn:Es; try congruence; simpl.
  - (* LoadedNotExisting *)
    eexists; eexists; split; [reflexivity|]. apply Hfresh; [tauto|].
    rewrite (inv_none c r HI Hshape). reflexivity.
  - (* LoadedEmptyEIP161 *)
    destruct (inv_some c r HI Hshape) as [q Hq].
    eexists; eexists; split; [reflexivity|]. apply (Hkeep q Hq). apply (inv_lempty _ _ HI Es q Hq).
  - (* InMemoryChange *)
    destruct (inv_some c r HI Hshape) as [q Hq].
    eexists; eexists; split; [reflexivity|]. apply Hfresh; [tauto|].
    assert (Hqe : info_is_empty (r_info q) = true).
    { destruct (info_is_empty (r_info q)) eqn:E; [reflexivity|]. destruct (Hrel q Hq) as [_ H]. rewrite (H E) in He. discriminate. }
    intro k. rewrite Hq. simpl. apply (ref_empty_zero c r q HI Hq Hqe).
  - (* Destroyed *)
    eexists; eexists; split; [reflexivity|]. apply Hfresh; [tauto|].
    rewrite (inv_none c r HI Hshape). reflexivity.
  - (* DestroyedChanged *)
    destruct (inv_some c r HI Hshape) as [q Hq].
    destruct (ca_account c) as [p|] eqn:Ea; [|contradiction].
    assert (Hpq : info_same (p_info p) (r_info q)).
    { pose proof (inv_info _ _ HI) as Hi. unfold info_rel in Hi. rewrite Ea, Hq in Hi. exact Hi. }
    assert (Hqe : info_is_empty (r_info q) = true).
    { destruct (info_is_empty (r_info q)) eqn:E; [reflexivity|]. destruct (Hrel q Hq) as [_ H]. rewrite (H E) in He. discriminate. }
    rewrite (same_empty _ _ Hpq), Hqe. simpl.
    eexists; eexists; split; [reflexivity|]. apply (Hkeep q Hq Hqe).
  - (* DestroyedAgain *)
    eexists; eexists; split; [reflexivity|]. apply Hfresh; [tauto|].
    rewrite (inv_none c r HI Hshape). reflexivity.
Qed.

(* ---- the storage view after a change of info that keeps the cached slots:
   status moves by [on_changed]; unread slots keep their meaning *)
Lemma view_after_on_changed c r p :
  Inv c r -> ca_account c = Some p -> forall k, sget k (p_storage p) = None ->
  (if is_storage_known (on_changed (ca_status c) (has_no_code_and_nonce (p_info p))) then 0 else ds k)
  = ref_storage r k.
Proof.
  intros HI Ea k Hk.
  pose proof (inv_stor _ _ HI k) as Hst. unfold storage_view in Hst. rewrite Ea, Hk in Hst.
  pose proof (inv_shape _ _ HI) as Hshape. unfold shape_ok in Hshape. rewrite Ea in Hshape.
  destruct (inv_some c r HI) as [q Hq]; [rewrite Ea; discriminate|].
  assert (Hpq : info_same (p_info p) (r_info q)).
  { pose proof (inv_info _ _ HI) as Hi. unfold info_rel in Hi. rewrite Ea, Hq in Hi. exact Hi. }
  destruct (ca_status c) eqn:Es; simpl in *; try discriminate; try exact Hst.
  - (* Loaded *)
    destruct (has_no_code_and_nonce (p_info p)) eqn:Ecn; simpl; [|exact Hst].
    rewrite Hq. simpl. symmetry. apply (inv_orphan _ _ HI q Hq). rewrite <- (same_no_cn _ _ Hpq). exact Ecn.
  - (* LoadedEmptyEIP161 *)
    rewrite Hq. simpl. symmetry. apply (ref_empty_zero c r q HI Hq). apply (inv_lempty _ _ HI Es q Hq).
Qed.

(* ---- CacheAccount::change *)
Lemma step_change c r i st :
  Inv c r -> out_rel r i -> i_code_hash i <> 0 -> info_is_empty i = false -> keys_distinct st ->
  (forall s, In s st -> s_orig s = ref_storage r (s_key s)) ->
  (has_no_code_and_nonce i = true -> forall s, In s st -> s_present s = 0) ->
  Inv (fst (change c i (changed_slots st))) (Some (mkR i (write_slots st (ref_storage r)))).
Proof.
  intros HI Hrel Hh Hne Hnd Horig Horph. unfold change. simpl.
  pose proof (inv_shape _ _ HI) as Hshape. unfold shape_ok in Hshape.
  constructor; simpl.
  - unfold shape_ok. simpl. destruct (ca_status c); simpl; try discriminate.
    destruct (match opt_info c with Some i0 => has_no_code_and_nonce i0 | None => false end); discriminate.
  - unfold info_rel. simpl. apply same_refl.
  - intro k. unfold storage_view. simpl. unfold sget. rewrite aget_app.
    rewrite <- (changed_vs_all st (ref_storage r) k Hnd).
    2:{ intros s Hin Hc. unfold slot_changed in Hc. apply negb_false_iff, Z.eqb_eq in Hc. rewrite <- Hc. apply Horig. exact Hin. }
    unfold sget. destruct (aget k (present_map (changed_slots st))) as [v|] eqn:Ech; [reflexivity|].
    unfold opt_info. destruct (ca_account c) as [p|] eqn:Ea; simpl.
    + destruct (aget k (p_storage p)) as [v|] eqn:Eo.
      * pose proof (inv_stor _ _ HI k) as Hst. unfold storage_view, sget in Hst. rewrite Ea, Eo in Hst. exact Hst.
      * apply (view_after_on_changed c r p HI Ea k Eo).
    + rewrite (inv_none c r HI Ea). simpl.
      destruct (ca_status c); simpl; try reflexivity; try (exfalso; apply Hshape; reflexivity).
  - intros q Hq Hn k. inversion Hq; subst; simpl in *. apply write_slots_zero; [apply Horph; exact Hn|].
    destruct r as [q0|]; [|reflexivity]. simpl.
    apply (inv_orphan _ _ HI q0 eq_refl). destruct (has_no_code_and_nonce (r_info q0)) eqn:E; [reflexivity|].
    destruct (Hrel q0 eq_refl) as [H1 _]. rewrite (H1 E) in Hn. discriminate.
  - destruct (ca_status c); simpl; try discriminate.
    destruct (match opt_info c with Some i0 => has_no_code_and_nonce i0 | None => false end); discriminate.
  - intros Hs q Hq. inversion Hq; subst; simpl.
    unfold opt_info in Hs. destruct (ca_account c) as [p|] eqn:Ea; simpl in Hs.
    + destruct (inv_some c r HI) as [q0 Hq0]; [rewrite Ea; discriminate|].
      assert (Hpq : info_same (p_info p) (r_info q0)).
      { pose proof (inv_info _ _ HI) as Hi. unfold info_rel in Hi. rewrite Ea, Hq0 in Hi. exact Hi. }
      destruct (Hrel q0 Hq0) as [H1 _]. apply H1.
      destruct (ca_status c) eqn:Es; simpl in Hs; try discriminate.
      * rewrite <- (same_no_cn _ _ Hpq). destruct (has_no_code_and_nonce (p_info p)); [discriminate|reflexivity].
      * apply (inv_changed _ _ HI Es q0 Hq0).
    + destruct (ca_status c); simpl in Hs; try discriminate; exfalso; apply Hshape; reflexivity.
  - destruct (ca_status c); simpl; try discriminate.
    destruct (match opt_info c with Some i0 => has_no_code_and_nonce i0 | None => false end); discriminate.
  - intros q Hq. inversion Hq; subst; simpl. exact Hh.
Qed.

(* ---- CacheAccount::account_info_change (increment_balance / drain_balance) *)
Definition info_map_ok (f : info -> info) : Prop :=
  (forall a b, info_same a b -> info_same (f a) (f b)) /\
  (forall a, has_no_code_and_nonce (f a) = has_no_code_and_nonce a) /\
  (forall a, i_code_hash (f a) = i_code_hash a).

Lemma step_info_change c r f :
  info_map_ok f -> Inv c r ->
  Inv (fst (account_info_change c f))
      (Some (match r with
             | Some q => mkR (f (r_info q)) (r_storage q)
             | None => mkR (f info_default) (fun _ => 0)
             end)).
Proof.
  intros [Hf1 [Hf2 Hf3]] HI. unfold account_info_change. simpl.
  pose proof (inv_shape _ _ HI) as Hshape. unfold shape_ok in Hshape.
  unfold opt_info. destruct (ca_account c) as [p|] eqn:Ea; simpl.
  - destruct (inv_some c r HI) as [q Hq]; [rewrite Ea; discriminate|]. subst r.
    assert (Hpq : info_same (p_info p) (r_info q)).
    { pose proof (inv_info _ _ HI) as Hi. unfold info_rel in Hi. rewrite Ea in Hi. exact Hi. }
    constructor; simpl.
    + unfold shape_ok. simpl. destruct (ca_status c); simpl; try discriminate.
      destruct (has_no_code_and_nonce (p_info p)); discriminate.
    + unfold info_rel. simpl. apply Hf1. exact Hpq.
    + intro k. unfold storage_view. simpl. destruct (sget k (p_storage p)) as [v|] eqn:Eo.
      * pose proof (inv_stor _ _ HI k) as Hst. unfold storage_view in Hst. rewrite Ea, Eo in Hst. exact Hst.
      * apply (view_after_on_changed c (Some q) p HI Ea k Eo).
    + intros q' Hq' Hn k. inversion Hq'; subst; simpl in *. rewrite Hf2 in Hn. apply (inv_orphan _ _ HI q eq_refl Hn).
    + destruct (ca_status c); simpl; try discriminate. destruct (has_no_code_and_nonce (p_info p)); discriminate.
    + intros Hs q' Hq'. inversion Hq'; subst; simpl. rewrite Hf2.
      destruct (ca_status c) eqn:Es; simpl in Hs; try discriminate.
      * rewrite <- (same_no_cn _ _ Hpq). destruct (has_no_code_and_nonce (p_info p)); [discriminate|reflexivity].
      * apply (inv_changed _ _ HI Es q eq_refl).
    + destruct (ca_status c); simpl; try discriminate. destruct (has_no_code_and_nonce (p_info p)); discriminate.
    + intros q' Hq'. inversion Hq'; subst; simpl. rewrite Hf3. apply (inv_hash _ _ HI q eq_refl).
  - rewrite (inv_none c r HI Ea).
    assert (Hst : ca_status c = LoadedNotExisting \/ ca_status c = Destroyed \/ ca_status c = DestroyedAgain).
    { destruct (ca_status c); try tauto; exfalso; apply Hshape; reflexivity. }
    constructor; simpl.
    + unfold shape_ok. simpl. destruct Hst as [-> | [-> | ->]]; discriminate.
    + unfold info_rel. simpl. apply same_refl.
    + intro k. unfold storage_view. simpl. destruct Hst as [-> | [-> | ->]]; reflexivity.
    + intros q' Hq' _ k. inversion Hq'; subst; reflexivity.
    + destruct Hst as [-> | [-> | ->]]; discriminate.
    + destruct Hst as [-> | [-> | ->]]; discriminate.
    + destruct Hst as [-> | [-> | ->]]; discriminate.
    + intros q' Hq'. inversion Hq'; subst; simpl. rewrite Hf3. discriminate.
Qed.

Lemma add_balance_map_ok n : info_map_ok (fun i => add_balance_sat i n).
Proof. split; [|split]; intros; [apply same_add_balance; assumption|reflexivity|reflexivity]. Qed.
Lemma set_balance_map_ok v : info_map_ok (fun i => set_balance i v).
Proof. split; [|split]; intros; [apply same_set_balance; assumption|reflexivity|reflexivity]. Qed.

End Account.

(* ------------------------------------------------------------------ one operation *)
Section Steps.
Variable ds : Z -> Z.

Lemma out_rel_of r i :
  match r with
  | Some q => (if has_cn (r_info q) then has_cn i else true)
              && (if info_is_empty (r_info q) then true else negb (info_is_empty i))
  | None => true
  end = true -> out_rel r i.
Proof.
  intros H q Hq. subst r. apply andb_true_iff in H as [H1 H2]. unfold has_cn in *. split; intro E.
  - rewrite E in H1. simpl in H1. apply negb_true_iff in H1. exact H1.
  - rewrite E in H2. apply negb_true_iff in H2. exact H2.
Qed.

Lemma step_commit c r clear e :
  Inv ds c r -> EvmOutOK clear r e = true ->
  exists c', acc_step ds c (ACommit clear e) = Some c' /\ Inv ds c' (spec_commit clear r e).
Proof.
  intros HI Hok. unfold EvmOutOK, evm_out_core, evm_out_no_orphan_storage in Hok.
  unfold acc_step, apply_account_state, spec_commit.
  destruct (e_touched e); simpl in *; [|exists c; split; [reflexivity|exact HI]].
  destruct (e_selfdestructed e); simpl in *.
  { eexists. split; [reflexivity|]. apply (step_selfdestruct ds c r HI). }
  apply andb_true_iff in Hok as [Hcore Horph].
  apply andb_true_iff in Hcore as [Hcore Hkind]. apply andb_true_iff in Hcore as [Hh Hnd].
  apply negb_true_iff, Z.eqb_neq in Hh. apply keys_distinctb_ok in Hnd.
  assert (Horph' : has_no_code_and_nonce (e_info e) = true -> forall s, In s (e_storage e) -> s_present s = 0).
  { intros Hn s Hin. rewrite Hn in Horph. apply Z.eqb_eq. apply (forallb_In _ _ Horph s Hin). }
  destruct (e_created e).
  - apply andb_true_iff in Hkind as [Ho Hne]. apply negb_true_iff in Hne. rewrite Hne.
    eexists. split; [reflexivity|].
    apply (step_created ds c r (e_info e) (e_storage e) HI Hh Hnd); [|exact Horph'].
    intros s Hin. apply Z.eqb_eq. apply (forallb_In _ _ Ho s Hin).
  - apply andb_true_iff in Hkind as [Ho Hrel]. apply out_rel_of in Hrel.
    assert (Ho' : forall s, In s (e_storage e) -> s_orig s = ref_storage r (s_key s)).
    { intros s Hin. apply Z.eqb_eq. apply (forallb_In _ _ Ho s Hin). }
    destruct (info_is_empty (e_info e)) eqn:He.
    + pose proof (Horph' (empty_no_cn _ Hh He)) as Hz. destruct clear; simpl.
      * destruct (step_touch_empty ds c r (e_info e) HI Hrel Hh He) as [c' [t [E HI']]].
        rewrite E. exists c'. split; [reflexivity|exact HI'].
      * destruct (step_touch_create ds c r (e_info e) (e_storage e) HI Hrel Hh He Hz) as [c' [t [E HI']]].
        rewrite E. exists c'. split; [reflexivity|exact HI'].
    + rewrite andb_false_r. eexists. split; [reflexivity|].
      apply (step_change ds c r (e_info e) (e_storage e) HI Hrel Hh He Hnd Ho' Horph').
Qed.

Lemma step_any c r o :
  Inv ds c r -> op_ok r o = true ->
  exists c', acc_step ds c o = Some c' /\ Inv ds c' (spec_step r o).
Proof.
  intros HI Hok. destruct o as [clear e|n| |k|]; simpl in *.
  - apply step_commit; assumption.
  - unfold increment_balance, spec_increment. destruct (n =? 0); [exists c; split; [reflexivity|exact HI]|].
    eexists. split; [reflexivity|].
    pose proof (step_info_change ds c r _ (add_balance_map_ok n) HI) as H. destruct r; exact H.
  - unfold drain_balance, spec_drain.
    assert (Hb : (match ca_account c with Some p => i_balance (p_info p) | None => 0 end <? pow128) = true).
    { pose proof (inv_info _ _ _ HI) as Hi. unfold info_rel in Hi. destruct (ca_account c) as [p|]; [|reflexivity].
      destruct r as [q|]; [|contradiction]. destruct Hi as [Hbal _]. rewrite Hbal. exact Hok. }
    rewrite Hb. eexists. split; [reflexivity|].
    pose proof (step_info_change ds c r _ (set_balance_map_ok 0) HI) as H. destruct r; exact H.
  - eexists. split; [reflexivity|]. apply inv_read. exact HI.
  - exists c. split; [reflexivity|exact HI].
Qed.

(* ---- any history *)
Lemma run_any h : forall c r,
  Inv ds c r -> hist_ok r h ->
  exists c', acc_run ds c h = Some c' /\ Inv ds c' (spec_run r h).
Proof.
  induction h as [|o t IH]; intros c r HI Hh; simpl in *.
  - exists c. split; [reflexivity|exact HI].
  - destruct Hh as [Hok Ht]. destruct (step_any c r o HI Hok) as [c1 [E HI1]]. rewrite E.
    apply IH; assumption.
Qed.

End Steps.

(* ------------------------------------------------------------------ loading from the database *)
Definition ds_of (d : option dbacc) : Z -> Z :=
  fun k => match d with Some d => match sget k (d_storage d) with Some v => v | None => 0 end | None => 0 end.
Definition load_acc (d : option dbacc) : cacc :=
  match option_map d_info d with
  | None => new_loaded_not_existing
  | Some i => if info_is_empty i then new_loaded_empty_eip161 [] else new_loaded i []
  end.
(* the database holds canonical code hashes and (the F15 class excluded) no storage under an
   account that has neither code nor nonce *)
Definition DbAccOK (d : option dbacc) : Prop :=
  match d with
  | Some d => db_acc_core d = true /\ db_acc_no_orphan_storage d = true
  | None => True
  end.

Lemma sget_forall_zero m k : forallb (fun kv : Z * Z => snd kv =? 0) m = true ->
  match sget k m with Some v => v | None => 0 end = 0.
Proof.
  unfold sget. induction m as [|[k' v] m IH]; simpl; intro H; [reflexivity|].
  apply andb_true_iff in H as [H1 H2]. destruct (k =? k'); [apply Z.eqb_eq; exact H1|auto].
Qed.

(* semantic form of the same hypothesis (used by C19, where the database is a merged one) *)
Definition DbAccOKs (d : option dbacc) : Prop :=
  match d with
  | Some d => i_code_hash (d_info d) <> 0 /\
              (has_no_code_and_nonce (d_info d) = true -> forall k, ds_of (Some d) k = 0)
  | None => True
  end.

Lemma load_inv_sem d : DbAccOKs d -> Inv (ds_of d) (load_acc d) (option_map ref_of_dbacc d).
Proof.
  unfold load_acc. destruct d as [d|]; simpl; [|intros _; apply inv_gone; tauto].
  intros [Hc Horph].
  destruct (info_is_empty (d_info d)) eqn:He.
  - constructor; simpl.
    + unfold shape_ok. simpl. discriminate.
    + unfold info_rel. simpl. apply empty_same_default; assumption.
    + intro k. reflexivity.
    + intros q Hq. inversion Hq; subst. exact Horph.
    + intros; discriminate.
    + intros; discriminate.
    + intros _ q Hq. inversion Hq; subst. exact He.
    + intros q Hq. inversion Hq; subst. exact Hc.
  - constructor; simpl.
    + unfold shape_ok. simpl. discriminate.
    + unfold info_rel. simpl. apply same_refl.
    + intro k. reflexivity.
    + intros q Hq. inversion Hq; subst. exact Horph.
    + intros _ q Hq. inversion Hq; subst. exact He.
    + intros; discriminate.
    + intros; discriminate.
    + intros q Hq. inversion Hq; subst. exact Hc.
Qed.

Lemma DbAccOK_sem d : DbAccOK d -> DbAccOKs d.
Proof.
  destruct d as [d|]; simpl; [|tauto]. intros [Hc Ho]. unfold db_acc_core in Hc.
  apply negb_true_iff, Z.eqb_neq in Hc. split; [exact Hc|].
  intros Hn k. unfold db_acc_no_orphan_storage in Ho. rewrite Hn in Ho. apply sget_forall_zero. exact Ho.
Qed.

Lemma load_inv d : DbAccOK d -> Inv (ds_of d) (load_acc d) (option_map ref_of_dbacc d).
Proof. intro H. apply load_inv_sem, DbAccOK_sem, H. Qed.

(* ------------------------------------------------------------------ the C15 statements *)
Definition oinfo_same (a b : option info) : Prop :=
  match a, b with Some x, Some y => info_same x y | None, None => True | _, _ => False end.

Lemma inv_reads ds c r : Inv ds c r ->
  oinfo_same (cacc_basic c) (ref_basic r) /\ forall k, snd (cacc_storage ds c k) = ref_storage r k.
Proof.
  intro HI. split.
  - pose proof (inv_info _ _ _ HI) as Hi. unfold info_rel, cacc_basic, opt_info, ref_basic, oinfo_same in *.
    destruct (ca_account c), r; simpl; assumption.
  - intro k. rewrite cacc_storage_view. apply (inv_stor _ _ _ HI).
Qed.

Theorem account_refinement :
  forall (d : option dbacc) (h : list aop),
    DbAccOK d -> hist_ok (option_map ref_of_dbacc d) h ->
    exists c, acc_run (ds_of d) (load_acc d) h = Some c /\
      oinfo_same (cacc_basic c) (ref_basic (spec_run (option_map ref_of_dbacc d) h)) /\
      forall k, snd (cacc_storage (ds_of d) c k) = ref_storage (spec_run (option_map ref_of_dbacc d) h) k.
Proof.
  intros d h Hd Hh. destruct (run_any (ds_of d) h _ _ (load_inv d Hd) Hh) as [c [E HI]].
  exists c. split; [exact E|]. apply inv_reads. exact HI.
Qed.

Lemma spec_run_last_clear h e : forall r,
  e_touched e = true -> info_is_empty (e_info e) = true -> spec_run r (h ++ [ACommit true e]) = None.
Proof.
  induction h as [|o t IH]; intros r Ht He; simpl.
  - unfold spec_commit. rewrite Ht, He. simpl. destruct (e_selfdestructed e); reflexivity.
  - apply IH; assumption.
Qed.

(* touched empty accounts are absent once state clearing is active *)
Theorem touched_empty_removed :
  forall (d : option dbacc) (h : list aop) (e : eacc),
    DbAccOK d -> hist_ok (option_map ref_of_dbacc d) (h ++ [ACommit true e]) ->
    e_touched e = true -> info_is_empty (e_info e) = true ->
    exists c, acc_run (ds_of d) (load_acc d) (h ++ [ACommit true e]) = Some c /\ cacc_basic c = None.
Proof.
  intros d h e Hd Hh Ht He.
  destruct (run_any (ds_of d) _ _ _ (load_inv d Hd) Hh) as [c [E HI]]. exists c. split; [exact E|].
  pose proof (spec_run_last_clear h e (option_map ref_of_dbacc d) Ht He) as Hr.
  rewrite Hr in HI. pose proof (inv_info _ _ _ HI) as Hi. unfold info_rel in Hi.
  unfold cacc_basic, opt_info. destruct (ca_account c); [contradiction|reflexivity].
Qed.

(* ------------------------------------------------------------------ the model panics only in a
   panicking status cell (or in the u128 conversion of drain_balance) *)
Lemma commit_none_is_panic_cell ds c clear e :
  acc_step ds c (ACommit clear e) = None ->
  on_touched_empty_post_eip161 (ca_status c) = None \/
  exists b, on_touched_created_pre_eip161 (ca_status c) b = None.
Proof.
  unfold acc_step, apply_account_state.
  destruct (e_touched e); simpl; [|discriminate]. destruct (e_selfdestructed e); simpl; [discriminate|].
  destruct (e_created e); simpl; [discriminate|]. destruct (info_is_empty (e_info e)); simpl; [|discriminate].
  destruct clear.
  - unfold touch_empty_eip161. destruct (on_touched_empty_post_eip161 (ca_status c)); [discriminate|]. tauto.
  - unfold touch_create_pre_eip161. intro H. right. eexists.
    destruct (on_touched_created_pre_eip161 (ca_status c) _) as [[s|]|] eqn:E; try discriminate. exact E.
Qed.

(* histories whose outputs satisfy everything except the orphan-storage clause *)
Definition op_core_ok (r : option rplain) (o : aop) : bool :=
  match o with ACommit clear e => evm_out_core clear r e | _ => op_ok r o end.
Fixpoint hist_core_ok (r : option rplain) (h : list aop) : Prop :=
  match h with [] => True | o :: t => op_core_ok r o = true /\ hist_core_ok (spec_step r o) t end.
