From RevmV Require Import Base.Word Model.Gas.
Local Open Scope Z_scope.

Lemma gas_new_inv l : in_u64 l -> gas_inv (gas_new l).
Proof. unfold gas_inv, gas_new; simpl. unfold_pows. lia. Qed.

Lemma record_cost_fail g c :
  snd (record_cost g c) = false -> fst (record_cost g c) = g /\ remaining g < c.
Proof. unfold record_cost. destruct (c <=? remaining g) eqn:E; simpl; [discriminate|].
  intros _. split; [reflexivity|]. apply Z.leb_gt in E. lia. Qed.

Lemma record_cost_ok g c :
  snd (record_cost g c) = true ->
  c <= remaining g /\
  remaining (fst (record_cost g c)) = remaining g - c /\
  limit (fst (record_cost g c)) = limit g /\ refunded (fst (record_cost g c)) = refunded g.
Proof. unfold record_cost. destruct (c <=? remaining g) eqn:E; simpl; [|discriminate].
  intros _. apply Z.leb_le in E. auto. Qed.

Lemma record_cost_iff g c : snd (record_cost g c) = true <-> c <= remaining g.
Proof. unfold record_cost. destruct (c <=? remaining g) eqn:E; simpl.
  - apply Z.leb_le in E. tauto.
  - apply Z.leb_gt in E. split; [discriminate|lia]. Qed.

Lemma step_inv g o g' :
  gas_inv g -> op_ok g o -> gas_step g o = Some g' -> gas_inv g' /\ limit g' = limit g.
Proof.
  unfold gas_inv. intros (Hl & Hr & Hf) Hok Hs. destruct o; simpl in *.
  - injection Hs as <-. unfold record_cost. destruct (c <=? remaining g) eqn:E; simpl.
    + apply Z.leb_le in E. unfold_pows. lia.
    + auto.
  - unfold erase_cost, checked64 in Hs. destruct (is_u64 _) eqn:E; [|discriminate].
    injection Hs as <-. simpl. apply is_u64_spec in E. unfold_pows. lia.
  - unfold record_refund in Hs. destruct (is_i64 _) eqn:E; [|discriminate].
    injection Hs as <-. simpl. apply is_i64_spec in E. auto.
  - unfold set_final_refund_chk in Hs. destruct (remaining g <=? limit g); [|discriminate].
    injection Hs as <-. simpl. split; [|reflexivity]. split; [exact Hl|]. split; [exact Hr|]. apply to_i64_range.
  - injection Hs as <-. simpl. unfold_pows. lia.
  - injection Hs as <-. simpl. pose proof (sat64_range (limit g - s)) as R.
    unfold sat64 in *. unfold_pows.
    destruct (limit g - s <? 0) eqn:A; [lia|].
    destruct (limit g - s <? 18446744073709551616) eqn:B; [|lia].
    apply Z.ltb_ge in A. lia.
  - injection Hs as <-. simpl. tauto.
Qed.

(* Under the contract no step overflows: the panic / wrap points are unreachable. *)
Lemma step_defined g o : gas_inv g -> op_ok g o -> exists g', gas_step g o = Some g'.
Proof.
  unfold gas_inv. intros (Hl & Hr & Hf) Hok. destruct o; simpl in *; eauto.
  - unfold erase_cost, checked64. destruct (is_u64 _) eqn:E; eauto.
    exfalso. assert (in_u64 (remaining g + r)) as K by (unfold_pows; lia).
    apply is_u64_spec in K. congruence.
  - unfold record_refund. destruct (is_i64 _) eqn:E; eauto.
    exfalso. destruct Hok as [_ K]. apply is_i64_spec in K. congruence.
  - unfold set_final_refund_chk. destruct (remaining g <=? limit g) eqn:E; eauto.
    apply Z.leb_gt in E. lia.
Qed.

Lemma run_inv h : forall g g',
  gas_inv g -> contract g h -> gas_run g h = Some g' -> gas_inv g' /\ limit g' = limit g.
Proof.
  induction h as [|o h IH]; simpl; intros g g' Hi Hc Hr.
  - injection Hr as <-. auto.
  - destruct Hc as [Hok Hc]. destruct (gas_step g o) as [g1|] eqn:E; [|contradiction].
    destruct (step_inv g o g1 Hi Hok E) as [Hi1 Hl1].
    destruct (IH g1 g' Hi1 Hc Hr) as [Hi' Hl']. split; [exact Hi'|congruence].
Qed.

Lemma run_defined h : forall g, gas_inv g -> contract g h -> exists g', gas_run g h = Some g'.
Proof.
  induction h as [|o h IH]; simpl; intros g Hi Hc; eauto.
  destruct Hc as [Hok Hc]. destruct (gas_step g o) as [g1|] eqn:E; [|contradiction].
  destruct (step_inv g o g1 Hi Hok E) as [Hi1 _]. eauto.
Qed.

Lemma history_inv l h g :
  in_u64 l -> contract (gas_new l) h -> gas_run (gas_new l) h = Some g ->
  0 <= remaining g <= limit g /\ limit g = l /\ spent g = limit g - remaining g /\
  in_u64 (spent g).
Proof.
  intros Hl Hc Hr. destruct (run_inv h _ _ (gas_new_inv l Hl) Hc Hr) as [(A & B & C) D].
  simpl in D. unfold spent. repeat split; try lia. unfold_pows. lia.
Qed.

(* final refund *)
Lemma final_refund_nonneg g b :
  gas_inv g -> 0 <= refunded g ->
  refunded (set_final_refund g b) = Z.min (refunded g) (spent g / (if b then 5 else 2)).
Proof.
  unfold gas_inv, set_final_refund, i64_as_u64, spent. intros (Hl & Hr & Hf) Hn. simpl.
  assert (refunded g mod pow64 = refunded g) as -> by (apply Z.mod_small; unfold_pows; lia).
  apply to_i64_id. unfold_pows.
  assert (0 <= (limit g - remaining g) / (if b then 5 else 2) <= limit g - remaining g).
  { destruct b; split; try (apply Z.div_pos; lia); apply Z.div_le_upper_bound; lia. }
  lia.
Qed.

(* documented behaviour outside the contract: a negative recorded refund is cast to a huge
   u64 and the cap wins *)
Lemma final_refund_negative g b :
  gas_inv g -> refunded g < 0 ->
  refunded (set_final_refund g b) = spent g / (if b then 5 else 2).
Proof.
  unfold gas_inv, set_final_refund, i64_as_u64, spent. intros (Hl & Hr & Hf) Hn. simpl.
  assert (refunded g mod pow64 = refunded g + pow64) as ->.
  { symmetry. apply Z.mod_unique with (q := -1); unfold_pows; lia. }
  assert (0 <= (limit g - remaining g) / (if b then 5 else 2) <= (limit g - remaining g)/2).
  { destruct b; split; try (apply Z.div_pos; lia); try lia.
    apply Z.div_le_lower_bound; try lia.
    pose proof (Z.mul_div_le (limit g - remaining g) 5 ltac:(lia)).
    pose proof (Z.div_pos (limit g - remaining g) 5 ltac:(lia) ltac:(lia)). lia. }
  assert ((limit g - remaining g)/2 < pow63).
  { apply Z.div_lt_upper_bound; unfold_pows; lia. }
  rewrite Z.min_r by (unfold_pows; lia).
  apply to_i64_id. unfold_pows. lia.
Qed.

Lemma final_refund_cap g b :
  gas_inv g -> 0 <= refunded (set_final_refund g b) <= spent g / (if b then 5 else 2)
               \/ refunded g < 0.
Proof.
  intros Hi. destruct (Z_lt_le_dec (refunded g) 0) as [N|N]; [right; exact N|left].
  rewrite final_refund_nonneg by assumption.
  destruct Hi as (Hl & Hr & Hf). unfold spent.
  assert (0 <= (limit g - remaining g) / (if b then 5 else 2)).
  { destruct b; apply Z.div_pos; lia. }
  lia.
Qed.

Lemma spend_all_spent g : spent (spend_all g) = limit g.
Proof. unfold spent, spend_all; simpl; lia. Qed.
