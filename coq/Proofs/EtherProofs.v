(* C08: ether conservation on the journaled-state model (Model/Host.v, Model/Ether.v).
   Part 1: the total over a finite universe, the effect of every operation on it. *)
From Coq Require Import FunctionalExtensionality Lia.
From RevmV Require Import Base.Word Model.Host Model.Ether Proofs.HostView Proofs.HostUndo Proofs.HostGood
  Proofs.HostOps Proofs.HostOps2 Proofs.HostOps3 Proofs.HostOps4 Proofs.HostRevert Proofs.HostMain.
Local Open Scope Z_scope.

(* ------------------------------------------------------------------ bal, sumf, total *)
Lemma bal_view d s a : bal d s a = v_bal (view_acc d s a).
Proof. unfold bal, view_acc. destruct (st s a); reflexivity. Qed.

Lemma bal_of_cview d s s' : cview_of d s' = cview_of d s -> forall a, bal d s' a = bal d s a.
Proof.
  intros H a. rewrite !bal_view.
  change (view_acc d s' a) with (cv_acc (cview_of d s') a). rewrite H. reflexivity.
Qed.

Lemma sumf_ext f g us : (forall a, In a us -> f a = g a) -> sumf f us = sumf g us.
Proof.
  induction us as [|x r IH]; intros H; cbn [sumf]; [reflexivity|].
  rewrite (H x (or_introl eq_refl)), IH; [reflexivity|]. intros a Ha. apply H. right. exact Ha.
Qed.

Lemma total_ext d s s' us : (forall a, bal d s' a = bal d s a) -> total d s' us = total d s us.
Proof. intros H. apply sumf_ext. intros a _. apply H. Qed.

Lemma total_of_cview d s s' us : cview_of d s' = cview_of d s -> total d s' us = total d s us.
Proof. intros H. apply total_ext. apply bal_of_cview. exact H. Qed.

Lemma sumf_upd_notin f a v us :
  ~ In a us -> sumf (fun x => if x =? a then v else f x) us = sumf f us.
Proof.
  intros H. apply sumf_ext. intros x Hx. destruct (x =? a) eqn:E; [|reflexivity].
  apply Z.eqb_eq in E. subst. contradiction.
Qed.

Lemma sumf_upd f a v us :
  NoDup us -> In a us -> sumf (fun x => if x =? a then v else f x) us = sumf f us - f a + v.
Proof.
  induction us as [|x r IH]; intros N I; [destruct I|].
  inversion N as [|? ? Nx Nr]; subst. cbn [sumf]. destruct I as [->|I].
  - rewrite Z.eqb_refl, (sumf_upd_notin f a v r Nx). lia.
  - assert (x <> a) by (intros ->; contradiction).
    rewrite (eqb_ne x a H), (IH Nr I). lia.
Qed.

Lemma bal_present d s a acc : st s a = Some acc -> bal d s a = a_bal acc.
Proof. unfold bal. intros ->. reflexivity. Qed.

Lemma bal_put d s a acc x : bal d (put s a acc) x = if x =? a then a_bal acc else bal d s x.
Proof. unfold bal. rewrite st_put. destruct (x =? a); reflexivity. Qed.

Lemma bal_push d s e x : bal d (push s e) x = bal d s x.
Proof. unfold bal. rewrite st_push. reflexivity. Qed.

(* writing account a changes the total by the difference of the balances *)
Lemma total_put d s a acc us :
  NoDup us -> In a us -> total d (put s a acc) us = total d s us - bal d s a + a_bal acc.
Proof.
  intros N I. unfold total.
  rewrite (sumf_ext (bal d (put s a acc)) (fun x => if x =? a then a_bal acc else bal d s x) us).
  - apply sumf_upd; assumption.
  - intros x _. apply bal_put.
Qed.

Lemma total_push d s e us : total d (push s e) us = total d s us.
Proof. apply total_ext. intros a. apply bal_push. Qed.

(* ------------------------------------------------------------------ steps that keep every balance
   and burn nothing *)
Definition same8 (d : db) (s s' : jstate) : Prop :=
  (forall x, bal d s' x = bal d s x) /\ jburn (journal s') = jburn (journal s).

Lemma same8_refl d s : same8 d s s. Proof. split; reflexivity. Qed.
Lemma same8_trans d s1 s2 s3 : same8 d s1 s2 -> same8 d s2 s3 -> same8 d s1 s3.
Proof. intros [A B] [C D]. split; [intros x; rewrite C; apply A|congruence]. Qed.

Lemma journal_put s a acc : journal (put s a acc) = journal s. Proof. reflexivity. Qed.

Lemma jburn_push s e : journal s <> [] -> jburn (journal (push s e)) = eburn e + jburn (journal s).
Proof.
  intros N. unfold push. destruct (journal s) as [|f r] eqn:J; [congruence|].
  cbn [journal set_journal jburn fburn]. lia.
Qed.

Lemma journal_push_ne s e : journal (push s e) <> [].
Proof. unfold push. destruct (journal s); cbn; congruence. Qed.

(* put of an account whose balance is the observed one *)
Lemma same8_put d s a acc : a_bal acc = bal d s a -> same8 d s (put s a acc).
Proof.
  intros H. split; [|reflexivity]. intros x. rewrite bal_put.
  destruct (x =? a) eqn:E; [apply Z.eqb_eq in E; subst; exact H|reflexivity].
Qed.

Lemma same8_push d s e : journal s <> [] -> eburn e = 0 -> same8 d s (push s e).
Proof. intros N H. split; [intros x; apply bal_push|]. rewrite jburn_push by exact N. lia. Qed.

Lemma same8_touch_account d s a acc :
  journal s <> [] -> st s a = Some acc -> same8 d s (touch_account s a acc).
Proof.
  intros N E. unfold touch_account. destruct (a_touched acc); [apply same8_refl|].
  eapply same8_trans; [apply (same8_push d s (AccountTouched a) N); reflexivity|].
  apply same8_put. cbn. rewrite bal_push. symmetry. apply bal_present. exact E.
Qed.

Lemma touch_account_journal_ne s a acc : journal s <> [] -> journal (touch_account s a acc) <> [].
Proof.
  intros N. unfold touch_account. destruct (a_touched acc); [exact N|].
  rewrite journal_put. apply journal_push_ne.
Qed.

Lemma same8_load d s a : journal s <> [] -> same8 d s (fst (load_account d s a)).
Proof.
  intros N. unfold load_account. destruct (st s a) as [acc|] eqn:E.
  - destruct (a_cold acc); cbn [fst]; [|apply same8_refl].
    eapply same8_trans; [apply (same8_put d s a (acc_cold acc false)); cbn; symmetry; apply bal_present; exact E|].
    apply same8_push; [rewrite journal_put; exact N|reflexivity].
  - assert (P : same8 d s (put s a (account_from_db d a))).
    { apply same8_put. unfold bal. rewrite E. reflexivity. }
    destruct (warm_pre s a); cbn [fst]; [exact P|].
    eapply same8_trans; [exact P|]. apply same8_push; [rewrite journal_put; exact N|reflexivity].
Qed.

Lemma load_journal_ne d s a : journal s <> [] -> journal (fst (load_account d s a)) <> [].
Proof.
  intros N. unfold load_account. destruct (st s a) as [acc|].
  - destruct (a_cold acc); cbn [fst]; [apply journal_push_ne|exact N].
  - destruct (warm_pre s a); cbn [fst]; [rewrite journal_put; exact N|apply journal_push_ne].
Qed.

Lemma same8_total d s s' us : same8 d s s' -> total d s' us = total d s us.
Proof. intros [A _]. apply total_ext. exact A. Qed.

(* ------------------------------------------------------------------ the operations that move no ether *)
Lemma same8_touch d s a : journal s <> [] -> same8 d s (touch s a).
Proof. intros N. unfold touch. destruct (st s a) eqn:E; [apply same8_touch_account; assumption|apply same8_refl]. Qed.

Lemma same8_load_delegated d s a s' c e dc :
  journal s <> [] -> load_account_delegated d s a = (s', c, e, dc) -> same8 d s s'.
Proof.
  intros N. unfold load_account_delegated, load_code.
  pose proof (same8_load d s a N) as S1. pose proof (load_journal_ne d s a N) as N1.
  destruct (load_account d s a) as [s1 c1]. cbn [fst] in *.
  destruct (st s1 a) as [acc|]; [|intros [= <- _ _ _]; exact S1].
  destruct (db_delegate d (a_code acc)) as [t|]; [|intros [= <- _ _ _]; exact S1].
  pose proof (same8_load d s1 t N1) as S2.
  destruct (load_account d s1 t) as [s2 c2]. cbn [fst] in *. intros [= <- _ _ _].
  eapply same8_trans; eauto.
Qed.

Lemma same8_inc_nonce d s a s' r : journal s <> [] -> inc_nonce s a = Some (s', r) -> same8 d s s'.
Proof.
  intros N. unfold inc_nonce. destruct (st s a) as [acc|] eqn:E; [|discriminate].
  destruct (a_nonce acc =? U64MAX); [intros [= <- _]; apply same8_refl|].
  pose proof (same8_touch_account d s a acc N E) as S1.
  pose proof (touch_account_journal_ne s a acc N) as N1.
  destruct (st (touch_account s a acc) a) as [acc1|] eqn:E1; [|discriminate]. intros [= <- _].
  eapply same8_trans; [exact S1|].
  eapply same8_trans; [apply (same8_push d _ (NonceChange a)); [exact N1|reflexivity]|].
  apply same8_put. cbn. rewrite bal_push. symmetry. apply bal_present. exact E1.
Qed.

Lemma same8_set_code d s a c s' : journal s <> [] -> set_code s a c = Some s' -> same8 d s s'.
Proof.
  intros N. unfold set_code. destruct (st s a) as [acc|] eqn:E; [|discriminate].
  pose proof (same8_touch_account d s a acc N E) as S1.
  pose proof (touch_account_journal_ne s a acc N) as N1.
  destruct (st (touch_account s a acc) a) as [acc1|] eqn:E1; [|discriminate]. intros [= <-].
  eapply same8_trans; [exact S1|].
  eapply same8_trans; [apply (same8_push d _ (CodeChange a)); [exact N1|reflexivity]|].
  apply same8_put. cbn. rewrite bal_push. symmetry. apply bal_present. exact E1.
Qed.

Lemma same8_sload d s a k s' v c : journal s <> [] -> sload d s a k = Some (s', v, c) -> same8 d s s'.
Proof.
  intros N. unfold sload. destruct (st s a) as [acc|] eqn:E; [|discriminate].
  assert (P : forall f, same8 d s (put s a (acc_storage acc f))).
  { intros f. apply same8_put. cbn. symmetry. apply bal_present. exact E. }
  destruct (a_storage acc k) as [sl|].
  - destruct (s_cold sl); intros [= <- _ _]; [|apply same8_refl].
    eapply same8_trans; [apply P|]. apply same8_push; [rewrite journal_put; exact N|reflexivity].
  - intros [= <- _ _].
    eapply same8_trans; [apply P|]. apply same8_push; [rewrite journal_put; exact N|reflexivity].
Qed.

Lemma sload_journal_ne d s a k s' v c : journal s <> [] -> sload d s a k = Some (s', v, c) -> journal s' <> [].
Proof.
  intros N. unfold sload. destruct (st s a) as [acc|]; [|discriminate].
  destruct (a_storage acc k) as [sl|].
  - destruct (s_cold sl); intros [= <- _ _]; [apply journal_push_ne|exact N].
  - intros [= <- _ _]. apply journal_push_ne.
Qed.

Lemma same8_sstore d s a k new s' o p c : journal s <> [] -> sstore d s a k new = Some (s', o, p, c) -> same8 d s s'.
Proof.
  intros N. unfold sstore. destruct (sload d s a k) as [[[s1 pres] cold]|] eqn:L; [|discriminate].
  pose proof (same8_sload d s a k s1 pres cold N L) as S1.
  pose proof (sload_journal_ne d s a k s1 pres cold N L) as N1.
  destruct (st s1 a) as [acc|] eqn:E; [|discriminate].
  destruct (a_storage acc k) as [sl|]; [|discriminate].
  destruct (pres =? new); intros [= <- _ _ _]; [exact S1|].
  eapply same8_trans; [exact S1|].
  eapply same8_trans; [apply (same8_push d _ (StorageChanged a k pres)); [exact N1|reflexivity]|].
  apply same8_put. cbn. rewrite bal_push. symmetry. apply bal_present. exact E.
Qed.

Lemma same8_set_ts d s f : same8 d s (set_ts s f).
Proof. split; reflexivity. Qed.

Lemma same8_tstore d s a k new : journal s <> [] -> same8 d s (tstore s a k new).
Proof.
  intros N. unfold tstore.
  assert (P : forall e, eburn e = 0 -> same8 d s (push (set_ts s (upd2 (ts s) a k new)) e)).
  { intros e He. eapply same8_trans; [apply same8_set_ts|]. apply same8_push; [exact N|exact He]. }
  destruct (new =? 0); [destruct (ts s a k =? 0)|destruct (ts s a k =? new)];
    try apply same8_set_ts; apply P; reflexivity.
Qed.

Lemma same8_log d s l : same8 d s (log s l).
Proof. split; reflexivity. Qed.

Lemma same8_checkpoint d s : same8 d s (fst (checkpoint s)).
Proof. split; [reflexivity|]. cbn. lia. Qed.

Lemma same8_commit d s : same8 d s (checkpoint_commit s).
Proof. split; reflexivity. Qed.
