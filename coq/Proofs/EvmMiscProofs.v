(* Composition of C04 (jump destinations) and C07 (call depth) with the reference interpreter
   (Model/Step.v, Model/Evm.v), and the vocabulary shared by the composition files of C11 / C12:
   the states a run of [exec] executes an instruction from ([reach]) and the induction principle
   for invariants along a run. *)
From Coq Require Import ZifyBool.
From RevmV Require Import Base.Word Model.Step Model.Evm Proofs.StepProofs Proofs.EvmProofs Proofs.EvmFrameProofs.
From RevmV Require Model.Frames Model.Host Model.Jump Spec.JumpSpec Proofs.JumpProofs Spec.GateSpec Proofs.FramesProofs Proofs.EvmGasProofs.
Local Open Scope Z_scope.

(* ================================================================ Part 0: the states of a run *)

(* the CallInputs / CreateInputs that do_call / do_create hand to the frame functions *)
Definition call_ci (W : world) (c : callreq) : Fr.call_inputs :=
  let gl := cq_gas_limit c in
  let oracle := if is_precompile W (cq_bytecode c)
                then Some (pre_lookup (w_pre W) (cq_bytecode c) gl (cq_input c)) else None in
  let pres := match oracle with
              | Some (Some o) => Some (precompile_result gl o)
              | _ => None end in
  Fr.mkCI (cq_caller c) (cq_target c) (cq_bytecode c)
    (if cq_transfers c then Fr.Transfer (cq_value c) else Fr.Apparent (cq_value c)) false
    (match oracle with
     | Some _ => Some (match pres with Some r => is_ok (ir_res r) | None => false end)
     | None => None end) false.

Definition create_address_of (W : world) (G : gstate) (c : createreq) : Z :=
  let caller := kq_caller c in
  let s1 := fst (H.load_account (gdb W G) (gs G) caller) in
  let nonce := match H.st s1 caller with Some a => H.a_nonce a | None => 0 end in
  match kq_salt c with
  | None => create_address caller nonce
  | Some salt => create2_address caller salt (Keccak.keccak256 (kq_init c))
  end.
Definition create_ci (W : world) (G : gstate) (c : createreq) : Fr.create_inputs :=
  let created := create_address_of W G c in
  Fr.mkCR (kq_caller c) (kq_value c) created false (is_precompile W created) (has_storage W created).

(* the first state of the child frame a call / create opens ([None]: no frame is opened) *)
Definition call_child (W : world) (G : gstate) (c : callreq) : option (gstate * fctx * istate) :=
  match Fr.make_call_frame (gdb W G) (g_sc G) (call_ci W c) with
  | Some (sc1, Fr.FFrame _) =>
      match code_of_account (set_sc G sc1) (fst sc1) (cq_bytecode c) with
      | Some code =>
          Some (set_sc G sc1,
                mk_fctx code (cq_input c) (cq_target c) (cq_caller c) (cq_value c) (cq_static c),
                istate_new (cq_gas_limit c))
      | None => None
      end
  | _ => None
  end.
Definition create_child (W : world) (G : gstate) (c : createreq) : option (gstate * fctx * istate) :=
  match Fr.make_create_frame (gdb W G) (g_sc G) (create_ci W G c) with
  | Some (sc1, Fr.FFrame _) =>
      Some (set_sc G sc1,
            mk_fctx (kq_init c) [] (create_address_of W G c) (kq_caller c) (kq_value c) false,
            istate_new (kq_gas_limit c))
  | _ => None
  end.

(* do_call / do_create run the child exactly from that state, and nothing else *)
Lemma do_call_child_some W rec G c G1 F1 I1 :
  call_child W G c = Some (G1, F1, I1) ->
  do_call W rec G c =
    match rec G1 F1 I1 with
    | XDone (G2, r) =>
        match Fr.call_return (g_sc G2) (is_ok (ir_res r)) with
        | Some sc3 => XDone (set_sc G2 sc3, r)
        | None => XBad BAD_PANIC
        end
    | XOutOfFuel => XOutOfFuel
    | XBad k => XBad k
    end.
Proof.
  unfold call_child, do_call. fold (call_ci W c).
  destruct (Fr.make_call_frame _ _ _) as [[sc1 [r|cp]]|]; try discriminate.
  destruct (code_of_account _ _ _); [|discriminate]. intros E. injection E as <- <- <-. reflexivity.
Qed.
Lemma do_call_child_none W r1 r2 G c :
  call_child W G c = None -> do_call W r1 G c = do_call W r2 G c.
Proof.
  unfold call_child, do_call. fold (call_ci W c).
  destruct (Fr.make_call_frame _ _ _) as [[sc1 [r|cp]]|]; try reflexivity.
  destruct (code_of_account _ _ _); [discriminate|reflexivity].
Qed.
Lemma do_create_child_some W rec G c G1 F1 I1 :
  create_child W G c = Some (G1, F1, I1) ->
  do_create W rec G c =
    match rec G1 F1 I1 with
    | XDone (G2, r) =>
        match create_return W G2 (create_address_of W G c) r with
        | Some (G3, r') => XDone (G3, r', Some (create_address_of W G c))
        | None => XBad BAD_PANIC
        end
    | XOutOfFuel => XOutOfFuel
    | XBad k => XBad k
    end.
Proof.
  unfold create_child, do_create, create_ci, create_address_of.
  destruct (H.load_account _ _ _) as [s1 cold]. cbn [fst].
  destruct (Fr.make_create_frame _ _ _) as [[sc1 [r|cp]]|]; try discriminate.
  intros E. injection E as <- <- <-. reflexivity.
Qed.
Lemma do_create_child_none W r1 r2 G c :
  create_child W G c = None -> do_create W r1 G c = do_create W r2 G c.
Proof.
  unfold create_child, do_create, create_ci, create_address_of.
  destruct (H.load_account _ _ _) as [s1 cold]. cbn [fst].
  destruct (Fr.make_create_frame _ _ _) as [[sc1 [r|cp]]|]; try reflexivity. discriminate.
Qed.

(* [reach W f G F I Gx Fx Ix]: the run [exec f W G F I] executes an instruction from the state
   (Gx, Fx, Ix) — of the frame itself or of any frame below it.  Written independently of
   [exec]'s result: the frame continues after an instruction, enters the child a call / create
   opens, or resumes after a child that completed. *)
Inductive reach (W : world) : nat -> gstate -> fctx -> istate -> gstate -> fctx -> istate -> Prop :=
| RHere f G F I : reach W (S f) G F I G F I
| RNext f G F I G1 I1 Gx Fx Ix :
    step W G F I = (G1, SNext I1) -> reach W f G1 F I1 Gx Fx Ix -> reach W (S f) G F I Gx Fx Ix
| RCallIn f G F I G1 c I1 Gc Fc Ic Gx Fx Ix :
    step W G F I = (G1, SCall c I1) -> call_child W G1 c = Some (Gc, Fc, Ic) ->
    reach W f Gc Fc Ic Gx Fx Ix -> reach W (S f) G F I Gx Fx Ix
| RCallOut f G F I G1 c I1 G2 r I2 Gx Fx Ix :
    step W G F I = (G1, SCall c I1) -> do_call W (exec f W) G1 c = XDone (G2, r) ->
    insert_call_outcome I1 c r = Some I2 ->
    reach W f G2 F I2 Gx Fx Ix -> reach W (S f) G F I Gx Fx Ix
| RCreateIn f G F I G1 c I1 Gc Fc Ic Gx Fx Ix :
    step W G F I = (G1, SCreate c I1) -> create_child W G1 c = Some (Gc, Fc, Ic) ->
    reach W f Gc Fc Ic Gx Fx Ix -> reach W (S f) G F I Gx Fx Ix
| RCreateOut f G F I G1 c I1 G2 r a I2 Gx Fx Ix :
    step W G F I = (G1, SCreate c I1) -> do_create W (exec f W) G1 c = XDone (G2, r, a) ->
    insert_create_outcome I1 r a = Some I2 ->
    reach W f G2 F I2 Gx Fx Ix -> reach W (S f) G F I Gx Fx Ix.

(* invariants along a run *)
Section ReachInv.
  Variable W : world.
  Variable P : gstate -> fctx -> istate -> Prop.
  Hypothesis Hnext : forall G F I G1 I1, P G F I -> step W G F I = (G1, SNext I1) -> P G1 F I1.
  Hypothesis Hcall_in : forall G F I G1 c I1 Gc Fc Ic,
    P G F I -> step W G F I = (G1, SCall c I1) -> call_child W G1 c = Some (Gc, Fc, Ic) -> P Gc Fc Ic.
  Hypothesis Hcall_out : forall f G F I G1 c I1 G2 r I2,
    P G F I -> step W G F I = (G1, SCall c I1) -> do_call W (exec f W) G1 c = XDone (G2, r) ->
    insert_call_outcome I1 c r = Some I2 -> P G2 F I2.
  Hypothesis Hcreate_in : forall G F I G1 c I1 Gc Fc Ic,
    P G F I -> step W G F I = (G1, SCreate c I1) -> create_child W G1 c = Some (Gc, Fc, Ic) -> P Gc Fc Ic.
  Hypothesis Hcreate_out : forall f G F I G1 c I1 G2 r a I2,
    P G F I -> step W G F I = (G1, SCreate c I1) -> do_create W (exec f W) G1 c = XDone (G2, r, a) ->
    insert_create_outcome I1 r a = Some I2 -> P G2 F I2.

  Lemma reach_inv f G F I Gx Fx Ix : reach W f G F I Gx Fx Ix -> P G F I -> P Gx Fx Ix.
  Proof.
    induction 1 as [f G F I|f G F I G1 I1 Gx Fx Ix ES _ IH|f G F I G1 c I1 Gc Fc Ic Gx Fx Ix ES EC _ IH
                   |f G F I G1 c I1 G2 r I2 Gx Fx Ix ES ED EI _ IH|f G F I G1 c I1 Gc Fc Ic Gx Fx Ix ES EC _ IH
                   |f G F I G1 c I1 G2 r a I2 Gx Fx Ix ES ED EI _ IH]; intros HP.
    - exact HP.
    - apply IH. eapply Hnext; eassumption.
    - apply IH. eapply Hcall_in; eassumption.
    - apply IH. eapply Hcall_out; eassumption.
    - apply IH. eapply Hcreate_in; eassumption.
    - apply IH. eapply Hcreate_out; eassumption.
  Qed.
End ReachInv.

(* [reach] is not too small: the instruction a completed frame ends with is executed from a state
   of [reach], in the frame itself *)
Theorem exec_end_reached W : forall f G F I G' r,
  exec f W G F I = XDone (G', r) ->
  exists Gx Ix Ix', reach W f G F I Gx F Ix /\
                    step W Gx F Ix = (G', SEnd (ir_res r) (ir_out r) Ix') /\ ir_gas r = i_gas Ix'.
Proof.
  induction f as [|f IH]; intros G F I G' r E; [discriminate|].
  cbn [exec] in E. destruct (step W G F I) as [G1 [I1|r1 out I1|c I1|c I1|k]] eqn:ES.
  - destruct (IH _ _ _ _ _ E) as (Gx & Ix & Ix' & HR & HS & HG). exists Gx, Ix, Ix'. split; [exact (RNext W f G F I G1 I1 Gx F Ix ES HR)|split; assumption].
  - injection E as <- <-. exists G, I, I1. split; [apply RHere|]. split; [exact ES|reflexivity].
  - destruct (do_call W (exec f W) G1 c) as [[G2 r2]| |k] eqn:ED; try discriminate.
    destruct (insert_call_outcome I1 c r2) as [I2|] eqn:EI; [|discriminate].
    destruct (IH _ _ _ _ _ E) as (Gx & Ix & Ix' & HR & HS & HG). exists Gx, Ix, Ix'. split; [exact (RCallOut W f G F I G1 c I1 G2 r2 I2 Gx F Ix ES ED EI HR)|split; assumption].
  - destruct (do_create W (exec f W) G1 c) as [[[G2 r2] a]| |k] eqn:ED; try discriminate.
    destruct (insert_create_outcome I1 r2 a) as [I2|] eqn:EI; [|discriminate].
    destruct (IH _ _ _ _ _ E) as (Gx & Ix & Ix' & HR & HS & HG). exists Gx, Ix, Ix'. split; [exact (RCreateOut W f G F I G1 c I1 G2 r2 a I2 Gx F Ix ES ED EI HR)|split; assumption].
  - discriminate.
Qed.

(* where the caller resumes *)
Lemma insert_call_pc I c r I2 : insert_call_outcome I c r = Some I2 -> i_pc I2 = i_pc I + 1.
Proof.
  unfold insert_call_outcome.
  assert (PM : forall I3 flag I4,
    (let '(m', panicked) := M.set (i_mem I3) (cq_ret_off c) (firstn (Z.to_nat (Z.min (cq_ret_len c) (zlen (ir_out r)))) (ir_out r)) in
     if panicked then None else Some (set_stk (set_mem I3 m') (flag :: i_stk I3))) = Some I4 -> i_pc I4 = i_pc I3).
  { intros I3 flag I4. destruct (M.set _ _ _) as [m' p]. destruct p; [discriminate|]. intros E. injection E as <-. reflexivity. }
  destruct (is_ok _).
  - destruct (Gas.erase_cost _ _); [|discriminate]. destruct (Gas.record_refund _ _); [|discriminate].
    intros E. apply PM in E. exact E.
  - destruct (is_revert _).
    + destruct (Gas.erase_cost _ _); [|discriminate]. intros E. apply PM in E. exact E.
    + intros E. injection E as <-. reflexivity.
Qed.
Lemma insert_create_pc I r a I2 : insert_create_outcome I r a = Some I2 -> i_pc I2 = i_pc I + 1.
Proof.
  unfold insert_create_outcome. destruct (is_ok _).
  - destruct (Gas.erase_cost _ _); [|discriminate]. destruct (Gas.record_refund _ _); [|discriminate].
    intros E. injection E as <-. reflexivity.
  - destruct (is_revert _).
    + destruct (Gas.erase_cost _ _); [|discriminate]. intros E. injection E as <-. reflexivity.
    + intros E. injection E as <-. reflexivity.
Qed.

Lemma call_child_new W G c Gc Fc Ic :
  call_child W G c = Some (Gc, Fc, Ic) ->
  Ic = istate_new (cq_gas_limit c) /\ f_bc Fc = Jump.contract_new (Jump.LegacyRaw (f_code Fc)).
Proof.
  unfold call_child. destruct (Fr.make_call_frame _ _ _) as [[sc1 [r|cp]]|]; try discriminate.
  destruct (code_of_account _ _ _); [|discriminate]. intros E. injection E as <- <- <-. split; reflexivity.
Qed.
Lemma create_child_new W G c Gc Fc Ic :
  create_child W G c = Some (Gc, Fc, Ic) ->
  Ic = istate_new (kq_gas_limit c) /\ f_bc Fc = Jump.contract_new (Jump.LegacyRaw (f_code Fc)).
Proof.
  unfold create_child. destruct (Fr.make_create_frame _ _ _) as [[sc1 [r|cp]]|]; try discriminate.
  intros E. injection E as <- <- <-. split; reflexivity.
Qed.

(* ================================================================ Part 1: C04 on the interpreter *)
Import JumpSpec JumpProofs.

(* the frame's code as Contract::new holds it: analysed lazily from the raw bytes; the bytes
   are bytes and the padded code is addressable (the hypotheses of C04) *)
Definition code_ok (F : fctx) : Prop :=
  f_bc F = Jump.contract_new (Jump.LegacyRaw (f_code F)) /\ Jump.bytes_ok (f_code F) /\ code_fits (f_code F).

Lemma code_ok_mk F : f_bc F = Jump.contract_new (Jump.LegacyRaw (f_code F)) ->
  F = mk_fctx (f_code F) (f_input F) (f_target F) (f_caller F) (f_value F) (f_static F).
Proof. destruct F as [code bc inp t c v st]. cbn. intros ->. reflexivity. Qed.
Lemma code_ok_padded F : code_ok F -> padded_of (f_bc F) = f_code F ++ Jump.padding.
Proof. intros (E & _). rewrite E. reflexivity. Qed.

(* C04's equivalence without a range hypothesis on the target: Jump.jump_inner itself rejects what
   does not fit *)
Lemma jump_ok_valid code t :
  Jump.bytes_ok code -> code_fits code ->
  (Jump.jump_ok (Jump.contract_new (Jump.LegacyRaw code)) t = true <-> ValidDest code t).
Proof.
  intros Hb Hf. split.
  - intros J. pose proof (jump_ok_range code t Hb Hf J) as Rg.
    apply (jump_ok_iff code t Hb Hf); [|exact J]. unfold code_fits, Jump.zlen, Step.zlen, pow64, pow256 in *. lia.
  - intros V. apply (jump_ok_iff code t Hb Hf); [|exact V].
    destruct V as (Rg & _). unfold code_fits, Jump.zlen, pow64, pow256 in *. lia.
Qed.

(* what the gate lets through for the two jump opcodes *)
Lemma step_at_jump W G F I :
  opcode_at F (i_pc I) = 0x56 ->
  step W G F I = (G, op_jump F I) \/ step W G F I = (G, halt R_NotActivated I).
Proof.
  intros H0. unfold step. rewrite H0. cbv zeta.
  change ((0x56 =? 0xf5) && f_static F) with false. cbv iota.
  unfold GateSpec.gate. change (0x56 =? GateSpec.INVALID) with false. change (GateSpec.eof_only 0x56) with false.
  change (GateSpec.legacy_intro 0x56) with (Some GateSpec.FRONTIER). cbv iota.
  destruct (GateSpec.enabled (w_spec W) GateSpec.FRONTIER); [left|right]; reflexivity.
Qed.
Lemma step_at_jumpi W G F I :
  opcode_at F (i_pc I) = 0x57 ->
  step W G F I = (G, op_jumpi F I) \/ step W G F I = (G, halt R_NotActivated I).
Proof.
  intros H0. unfold step. rewrite H0. cbv zeta.
  change ((0x57 =? 0xf5) && f_static F) with false. cbv iota.
  unfold GateSpec.gate. change (0x57 =? GateSpec.INVALID) with false. change (GateSpec.eof_only 0x57) with false.
  change (GateSpec.legacy_intro 0x57) with (Some GateSpec.FRONTIER). cbv iota.
  destruct (GateSpec.enabled (w_spec W) GateSpec.FRONTIER); [left|right]; reflexivity.
Qed.

(* JUMP: continues exactly onto a valid destination of the frame's code with the target popped;
   otherwise the frame ends — InvalidJump exactly for a target that is not a valid destination —
   and in every case the transaction state is untouched *)
Theorem step_jump_spec W G F I G' x :
  code_ok F -> opcode_at F (i_pc I) = 0x56 -> step W G F I = (G', x) ->
  G' = G /\
  match x with
  | SNext I' =>
      exists t r, i_stk I = t :: r /\ ValidDest (f_code F) t /\ i_pc I' = t /\ i_stk I' = r /\
                  i_mem I' = i_mem I /\ i_rd I' = i_rd I
  | SEnd res out I' =>
      out = [] /\
      (res = R_InvalidJump -> exists t r, i_stk I = t :: r /\ ~ ValidDest (f_code F) t) /\
      (res = R_StackUnderflow -> i_stk I = []) /\
      (res = R_InvalidJump \/ res = R_StackUnderflow \/ res = R_OutOfGas \/ res = R_NotActivated)
  | _ => False
  end.
Proof.
  intros (EB & Hb & Hf) H0 ES.
  destruct (step_at_jump W G F I H0) as [E|E]; rewrite E in ES; injection ES as <- <-; (split; [reflexivity|]).
  2:{ cbn. split; [reflexivity|]. split; [discriminate|]. split; [discriminate|]. auto. }
  unfold op_jump, with_gas. destruct (Gas.record_cost _ _) as [g' ok]. destruct ok.
  2:{ cbn. split; [reflexivity|]. split; [discriminate|]. split; [discriminate|]. auto. }
  cbn [set_gas i_stk i_pc]. destruct (i_stk I) as [|t r].
  { cbn. split; [reflexivity|]. split; [discriminate|]. split; [reflexivity|]. auto. }
  unfold Jump.op_jump, Jump.jump_inner. rewrite EB.
  destruct (Jump.jump_ok _ t) eqn:J.
  - apply (jump_ok_valid _ _ Hb Hf) in J. exists t, r. cbn. split; [reflexivity|]. split; [exact J|]. repeat split.
  - cbn. split; [reflexivity|]. split; [|split; [discriminate|auto]].
    intros _. exists t, r. split; [reflexivity|]. intros V. apply (jump_ok_valid _ _ Hb Hf) in V. congruence.
Qed.

(* JUMPI: condition 0 falls through to the next instruction without looking at the target; a
   non-zero condition behaves like JUMP *)
Theorem step_jumpi_spec W G F I G' x :
  code_ok F -> opcode_at F (i_pc I) = 0x57 -> step W G F I = (G', x) ->
  G' = G /\
  match x with
  | SNext I' =>
      exists t c r, i_stk I = t :: c :: r /\ i_stk I' = r /\ i_mem I' = i_mem I /\ i_rd I' = i_rd I /\
        ((c = 0 /\ i_pc I' = i_pc I + 1) \/ (c <> 0 /\ ValidDest (f_code F) t /\ i_pc I' = t))
  | SEnd res out I' =>
      out = [] /\
      (res = R_InvalidJump -> exists t c r, i_stk I = t :: c :: r /\ c <> 0 /\ ~ ValidDest (f_code F) t) /\
      (res = R_StackUnderflow -> (length (i_stk I) < 2)%nat) /\
      (res = R_InvalidJump \/ res = R_StackUnderflow \/ res = R_OutOfGas \/ res = R_NotActivated)
  | _ => False
  end.
Proof.
  intros (EB & Hb & Hf) H0 ES.
  destruct (step_at_jumpi W G F I H0) as [E|E]; rewrite E in ES; injection ES as <- <-; (split; [reflexivity|]).
  2:{ cbn. split; [reflexivity|]. split; [discriminate|]. split; [discriminate|]. auto. }
  unfold op_jumpi, with_gas. destruct (Gas.record_cost _ _) as [g' ok]. destruct ok.
  2:{ cbn. split; [reflexivity|]. split; [discriminate|]. split; [discriminate|]. auto. }
  cbn [set_gas i_stk i_pc]. destruct (i_stk I) as [|t [|c r]].
  1,2: cbn; split; [reflexivity|]; split; [discriminate|]; split; [intros _; lia|]; auto.
  unfold Jump.op_jumpi, Jump.jump_inner. rewrite EB. destruct (c =? 0) eqn:C.
  - exists t, c, r. cbn. repeat split; try reflexivity. left. split; [lia|reflexivity].
  - destruct (Jump.jump_ok _ t) eqn:J.
    + apply (jump_ok_valid _ _ Hb Hf) in J. exists t, c, r. cbn. repeat split; try reflexivity.
      right. split; [lia|]. split; [exact J|reflexivity].
    + cbn. split; [reflexivity|]. split; [|split; [discriminate|auto]].
      intros _. exists t, c, r. split; [reflexivity|]. split; [lia|].
      intros V. apply (jump_ok_valid _ _ Hb Hf) in V. congruence.
Qed.

(* a PUSH1..PUSH32 byte is executed by op_pushn: the frame ends, or continues behind the data *)
Lemma step_push_shape W G F I :
  0x60 <= opcode_at F (i_pc I) <= 0x7f ->
  match snd (step W G F I) with
  | SNext I' => i_pc I' = i_pc I + 1 + (opcode_at F (i_pc I) - 0x5f)
  | SEnd _ _ _ | SBad _ => True
  | _ => False
  end.
Proof.
  intros Rg. unfold step. cbv zeta. set (op := opcode_at F (i_pc I)) in *.
  destruct (_ && f_static F); [exact Logic.I|].
  destruct (_ =? GateSpec.C_LATER); [exact Logic.I|].
  destruct (_ =? GateSpec.C_UNDEFINED); [exact Logic.I|].
  destruct (_ =? GateSpec.C_EOF_ONLY); [exact Logic.I|].
  destruct (_ =? GateSpec.C_INVALID); [exact Logic.I|].
  destruct (negb _); [exact Logic.I|].
  repeat match goal with
  | |- match snd (if ?b then _ else _) with _ => _ end =>
      let C := fresh "C" in destruct b eqn:C; [try (exfalso; lia)|try (match type of C with (_ =? _) = false => clear C end)]
  end.
  - cbn [snd]. unfold op_pushn, with_gas, halt. destruct (Gas.record_cost _ _) as [g' ok].
    destruct ok; [|exact Logic.I]. cbn [set_gas i_stk i_pc]. destruct (1024 <=? _); [exact Logic.I|]. cbn. reflexivity.
  - exact Logic.I.
Qed.

(* the invariant: the program counter is inside the padded code and at an instruction start of
   it, in the sense of Spec/JumpSpec.v *)
Definition pc_start (F : fctx) (I : istate) : Prop :=
  pc_ok (f_code F) I /\ InstrStart (f_code F ++ Jump.padding) (Z.to_nat (i_pc I)).

Lemma pc_start_pc F I J : i_pc J = i_pc I -> pc_start F I -> pc_start F J.
Proof. unfold pc_start, pc_ok. intros ->. exact (fun x => x). Qed.
Lemma pc_start_new F gl : pc_start F (istate_new gl).
Proof. unfold pc_start, pc_ok, istate_new, Step.zlen. cbn [i_pc]. split; [lia|constructor]. Qed.

Lemma padded_length code : length (code ++ Jump.padding) = (length code + 33)%nat.
Proof. rewrite app_length. reflexivity. Qed.

Lemma pushlen_op o : Z.of_nat (pushlen o) = if (0x60 <=? o) && (o <=? 0x7f) then o - 0x5f else 0.
Proof. unfold pushlen. destruct ((0x60 <=? o) && (o <=? 0x7f)) eqn:E; lia. Qed.

Theorem step_pc_start W G F I :
  code_ok F -> pc_start F I ->
  match snd (step W G F I) with
  | SNext I' => pc_start F I'
  | SCall _ I' | SCreate _ I' => i_pc I' = i_pc I /\ pc_start F (set_pc I' (i_pc I' + 1))
  | _ => True
  end.
Proof.
  intros CO (PK & IS). pose proof CO as (EB & Hb & Hf).
  pose proof (code_ok_padded F CO) as PD.
  pose proof (step_pc_ok W G (f_code F) (f_input F) (f_target F) (f_caller F) (f_value F) (f_static F) I Hb Hf PK) as PC.
  cbv zeta in PC. rewrite <- (code_ok_mk F EB) in PC.
  pose proof (step_Q W G F I) as HQ.
  pose proof (step_push_shape W G F I) as PS.
  set (op := opcode_at F (i_pc I)) in *.
  assert (OP : op = nth (Z.to_nat (i_pc I)) (f_code F ++ Jump.padding) 0) by (unfold op, opcode_at; rewrite PD; reflexivity).
  assert (LT : (Z.to_nat (i_pc I) < length (f_code F ++ Jump.padding))%nat).
  { rewrite padded_length. unfold pc_ok, Step.zlen in PK. lia. }
  pose proof (IS_next _ _ IS LT) as NX. rewrite <- OP in NX.
  assert (P0 : 0 <= i_pc I) by (unfold pc_ok in PK; lia).
  pose proof (pushlen_op op) as PL.
  destruct (snd (step W G F I)) as [I'|r out I'|q I'|q I'|k]; try exact Logic.I.
  - split; [exact PC|]. destruct HQ as (PM & _). destruct PM as [E|n Ho -> E|J].
    + destruct ((0x60 <=? op) && (op <=? 0x7f)) eqn:B.
      * exfalso. assert (Rg : 0x60 <= op <= 0x7f) by lia. specialize (PS Rg). lia.
      * replace (Z.to_nat (i_pc I')) with (Z.to_nat (i_pc I) + 1 + pushlen op)%nat by lia. exact NX.
    + fold op in Ho, E. destruct ((0x60 <=? op) && (op <=? 0x7f)) eqn:B; [|exfalso; lia]. replace (Z.to_nat (i_pc I')) with (Z.to_nat (i_pc I) + 1 + pushlen op)%nat by lia. exact NX.
    + rewrite EB in J. apply (jump_ok_valid _ _ Hb Hf) in J. destruct J as (Rg & _ & ISJ). apply IS_app_l. exact ISJ.
  - destruct PC as [A B]. split; [exact A|]. unfold pc_start, pc_ok. cbn [set_pc i_pc]. split; [unfold pc_ok in PK; lia|].
    destruct ((0x60 <=? op) && (op <=? 0x7f)) eqn:Bq.
    + exfalso. assert (Rg : 0x60 <= op <= 0x7f) by lia. exact (PS Rg).
    + replace (Z.to_nat (i_pc I' + 1)) with (Z.to_nat (i_pc I) + 1 + pushlen op)%nat by lia. exact NX.
  - destruct PC as [A B]. split; [exact A|]. unfold pc_start, pc_ok. cbn [set_pc i_pc]. split; [unfold pc_ok in PK; lia|].
    destruct ((0x60 <=? op) && (op <=? 0x7f)) eqn:Bq.
    + exfalso. assert (Rg : 0x60 <= op <= 0x7f) by lia. exact (PS Rg).
    + replace (Z.to_nat (i_pc I' + 1)) with (Z.to_nat (i_pc I) + 1 + pushlen op)%nat by lia. exact NX.
Qed.

(* along a whole run — nested frames included — every instruction is executed from an
   instruction start of the code of the frame that executes it *)
Theorem reach_pc_start W f G F I Gx Fx Ix :
  reach W f G F I Gx Fx Ix ->
  (code_ok F -> pc_start F I) -> code_ok Fx -> pc_start Fx Ix.
Proof.
  intros HR. revert HR.
  apply (reach_inv W (fun _ F I => code_ok F -> pc_start F I)).
  - intros G0 F0 I0 G1 I1 HP ES CO. pose proof (step_pc_start W G0 F0 I0 CO (HP CO)) as S. rewrite ES in S. exact S.
  - intros G0 F0 I0 G1 c I1 Gc Fc Ic _ _ EC _. apply call_child_new in EC. destruct EC as [-> _]. apply pc_start_new.
  - intros f0 G0 F0 I0 G1 c I1 G2 r I2 HP ES _ EI CO.
    pose proof (step_pc_start W G0 F0 I0 CO (HP CO)) as S. rewrite ES in S. destruct S as [_ S].
    apply insert_call_pc in EI. eapply pc_start_pc; [|exact S]. cbn [set_pc i_pc]. exact EI.
  - intros G0 F0 I0 G1 c I1 Gc Fc Ic _ _ EC _. apply create_child_new in EC. destruct EC as [-> _]. apply pc_start_new.
  - intros f0 G0 F0 I0 G1 c I1 G2 r a I2 HP ES _ EI CO.
    pose proof (step_pc_start W G0 F0 I0 CO (HP CO)) as S. rewrite ES in S. destruct S as [_ S].
    apply insert_create_pc in EI. eapply pc_start_pc; [|exact S]. cbn [set_pc i_pc]. exact EI.
Qed.

(* in the property's words: a position inside the original code that is executed is an
   instruction start of the original code and not PUSH data; beyond it lies the padding (STOP) *)
Corollary reach_pc_not_push_data W f G F I Gx Fx Ix :
  reach W f G F I Gx Fx Ix -> (code_ok F -> pc_start F I) -> code_ok Fx ->
  0 <= i_pc Ix <= Step.zlen (f_code Fx) + 32 /\
  (i_pc Ix < Step.zlen (f_code Fx) ->
     InstrStart (f_code Fx) (Z.to_nat (i_pc Ix)) /\ ~ InPushData (f_code Fx) (Z.to_nat (i_pc Ix))) /\
  (Step.zlen (f_code Fx) <= i_pc Ix -> opcode_at Fx (i_pc Ix) = 0).
Proof.
  intros HR HP CO. destruct (reach_pc_start W f G F I Gx Fx Ix HR HP CO) as (PK & IS).
  split; [exact PK|]. split.
  - intros LT. unfold pc_ok, Step.zlen in *.
    assert (L : (Z.to_nat (i_pc Ix) < length (f_code Fx))%nat) by lia.
    assert (S : InstrStart (f_code Fx) (Z.to_nat (i_pc Ix))) by (eapply IS_app_inv; eassumption).
    split; [exact S|]. apply (IS_iff_not_push_data _ _ L). exact S.
  - intros GE. destruct CO as (EB & _). rewrite (code_ok_mk Fx EB). apply opcode_beyond. exact GE.
Qed.

(* ================================================================ Part 2: C07 on the interpreter *)

(* the invariant of C07 in the interpreter's state: the journal depth is the number of open
   frame checkpoints *)
Definition depth_inv (G : gstate) : Prop :=
  H.depth (gs G) = Z.of_nat (length (snd (g_sc G))).

Lemma make_call_frame_not_too_deep d s cps ci sc' cp :
  Fr.make_call_frame d (s, cps) ci = Some (sc', Fr.FFrame cp) -> H.depth s <= Fr.CALL_STACK_LIMIT.
Proof.
  intros E. destruct (Z_le_gt_dec (H.depth s) Fr.CALL_STACK_LIMIT) as [L|Gt]; [exact L|exfalso].
  pose proof (FramesProofs.too_deep_iff d s cps ci sc' _ E) as [_ T]. specialize (T Gt). discriminate.
Qed.
Lemma make_create_frame_not_too_deep d s cps cr sc' cp :
  Fr.make_create_frame d (s, cps) cr = Some (sc', Fr.FFrame cp) -> H.depth s <= Fr.CALL_STACK_LIMIT.
Proof.
  unfold Fr.make_create_frame. destruct (H.depth s >? Fr.CALL_STACK_LIMIT) eqn:E; [discriminate|]. intros _. lia.
Qed.

(* entering a child: one level deeper, one more open checkpoint, and only from depth <= 1024 *)
Lemma call_child_depth W G c Gc Fc Ic :
  call_child W G c = Some (Gc, Fc, Ic) ->
  H.depth (gs G) <= 1024 /\ H.depth (gs Gc) = H.depth (gs G) + 1 /\
  exists cp, snd (g_sc Gc) = cp :: snd (g_sc G).
Proof.
  unfold call_child, gs. destruct (g_sc G) as [s cps] eqn:EG.
  destruct (Fr.make_call_frame _ _ _) as [[[s1 cps1] [r|cp]]|] eqn:EM; try discriminate.
  destruct (code_of_account _ _ _); [|discriminate]. intros E. injection E as <- _ _.
  pose proof (make_call_frame_not_too_deep _ _ _ _ _ _ EM) as L.
  apply make_call_frame_depth in EM. destruct EM as [D C]. cbn [set_sc g_sc fst snd].
  split; [exact L|]. split; [exact D|]. exists cp. exact C.
Qed.
Lemma create_child_depth W G c Gc Fc Ic :
  create_child W G c = Some (Gc, Fc, Ic) ->
  H.depth (gs G) <= 1024 /\ H.depth (gs Gc) = H.depth (gs G) + 1 /\
  exists cp, snd (g_sc Gc) = cp :: snd (g_sc G).
Proof.
  unfold create_child, gs. destruct (g_sc G) as [s cps] eqn:EG.
  destruct (Fr.make_create_frame _ _ _) as [[[s1 cps1] [r|cp]]|] eqn:EM; try discriminate.
  intros E. injection E as <- _ _.
  pose proof (make_create_frame_not_too_deep _ _ _ _ _ _ EM) as L.
  apply make_create_frame_depth in EM. destruct EM as [D C]. cbn [set_sc g_sc fst snd].
  split; [exact L|]. split; [exact D|]. exists cp. exact C.
Qed.

(* during a run the depth is at most 1025 and stays the number of open frames; a state of the
   frame itself has the depth the frame started with, a state of a frame below it is deeper *)
Theorem reach_depth W f G F I Gx Fx Ix :
  reach W f G F I Gx Fx Ix ->
  depth_inv G -> H.depth (gs G) <= 1025 ->
  depth_inv Gx /\ H.depth (gs G) <= H.depth (gs Gx) <= 1025.
Proof.
  intros HR DI DB.
  assert (HP : depth_inv Gx /\ H.depth (gs G) <= H.depth (gs Gx) /\ H.depth (gs Gx) <= 1025); [|tauto].
  apply (reach_inv W (fun Gy _ _ => depth_inv Gy /\ H.depth (gs G) <= H.depth (gs Gy) /\ H.depth (gs Gy) <= 1025))
    with (f := f) (G := G) (F := F) (I := I) (Fx := Fx) (Ix := Ix); [ | | | | |exact HR| ].
  - intros G0 F0 I0 G1 I1 (A & B & C) ES. pose proof (step_same_frame W G0 F0 I0) as [D S]. rewrite ES in D, S. cbn [fst] in D, S.
    unfold depth_inv in *. rewrite D, S. auto.
  - intros G0 F0 I0 G1 c I1 Gc Fc Ic (A & B & C) ES EC.
    pose proof (step_same_frame W G0 F0 I0) as [D S]. rewrite ES in D, S. cbn [fst] in D, S.
    apply call_child_depth in EC. destruct EC as (L & D1 & cp & C1). unfold depth_inv in *.
    rewrite D1, C1, D, S. cbn [length]. lia.
  - intros f0 G0 F0 I0 G1 c I1 G2 r I2 (A & B & C) ES ED _.
    pose proof (step_same_frame W G0 F0 I0) as [D S]. rewrite ES in D, S. cbn [fst] in D, S.
    apply (do_call_sf W _ _ _ _ _ (exec_same_frame W f0)) in ED. destruct ED as [D2 S2].
    unfold depth_inv in *. rewrite D2, S2, D, S. auto.
  - intros G0 F0 I0 G1 c I1 Gc Fc Ic (A & B & C) ES EC.
    pose proof (step_same_frame W G0 F0 I0) as [D S]. rewrite ES in D, S. cbn [fst] in D, S.
    apply create_child_depth in EC. destruct EC as (L & D1 & cp & C1). unfold depth_inv in *.
    rewrite D1, C1, D, S. cbn [length]. lia.
  - intros f0 G0 F0 I0 G1 c I1 G2 r a I2 (A & B & C) ES ED _.
    pose proof (step_same_frame W G0 F0 I0) as [D S]. rewrite ES in D, S. cbn [fst] in D, S.
    apply (do_create_sf W _ _ _ _ _ _ (exec_same_frame W f0)) in ED. destruct ED as [D2 S2].
    unfold depth_inv in *. rewrite D2, S2, D, S. auto.
  - split; [exact DI|]. lia.
Qed.

(* a call / create issued at depth > 1024 is answered CallTooDeep with all its gas: no frame is
   opened, the child interpreter is not run ([rec] is arbitrary) and the whole transaction
   state is what it was *)
Lemma set_sc_same G : set_sc G (g_sc G) = G.
Proof. destruct G. reflexivity. Qed.

Theorem do_call_too_deep W rec G c :
  H.depth (gs G) > 1024 ->
  call_child W G c = None /\
  do_call W rec G c = XDone (G, mkIR R_CallTooDeep [] (Gas.gas_new (cq_gas_limit c))).
Proof.
  intros D. unfold call_child, do_call. fold (call_ci W c). unfold gs in D.
  destruct (g_sc G) as [s cps] eqn:EG. cbn [fst] in D. unfold Fr.make_call_frame.
  replace (H.depth s >? Fr.CALL_STACK_LIMIT) with true by (unfold Fr.CALL_STACK_LIMIT; lia).
  split; [reflexivity|]. rewrite <- EG, set_sc_same. reflexivity.
Qed.
Theorem do_create_too_deep W rec G c :
  H.depth (gs G) > 1024 ->
  create_child W G c = None /\
  do_create W rec G c = XDone (G, mkIR R_CallTooDeep [] (Gas.gas_new (kq_gas_limit c)), None).
Proof.
  intros D. unfold create_child, do_create, create_ci, create_address_of. unfold gs in D.
  destruct (H.load_account _ _ _) as [s1 cold]. cbn [fst].
  destruct (g_sc G) as [s cps] eqn:EG. cbn [fst] in D. unfold Fr.make_create_frame.
  replace (H.depth s >? Fr.CALL_STACK_LIMIT) with true by (unfold Fr.CALL_STACK_LIMIT; lia).
  split; [reflexivity|]. rewrite <- EG, set_sc_same. reflexivity.
Qed.
(* ... and at depth <= 1024 the depth check does not fire *)
Theorem do_call_not_too_deep W G c sc' r :
  H.depth (gs G) <= 1024 ->
  Fr.make_call_frame (gdb W G) (g_sc G) (call_ci W c) = Some (sc', r) -> r <> Fr.FResult Fr.RCallTooDeep.
Proof.
  unfold gs. destruct (g_sc G) as [s cps]. cbn [fst]. intros L E T.
  apply (FramesProofs.too_deep_iff _ _ _ _ _ _ E) in T. unfold Fr.CALL_STACK_LIMIT in T. lia.
Qed.

(* the caller of a rejected call: 0 on the stack, its gas back, empty return data, memory as it was *)
Lemma insert_too_deep I c gl :
  0 <= gl -> 0 <= Gas.remaining (i_gas I) -> Gas.remaining (i_gas I) + gl < pow64 ->
  exists g, insert_call_outcome I c (mkIR R_CallTooDeep [] (Gas.gas_new gl)) =
            Some (mkI (i_pc I + 1) (0 :: i_stk I) (i_mem I) g []) /\
            Gas.remaining g = Gas.remaining (i_gas I) + gl /\ Gas.limit g = Gas.limit (i_gas I) /\
            Gas.refunded g = Gas.refunded (i_gas I).
Proof.
  intros P P1 L. unfold insert_call_outcome. cbn [ir_res ir_out ir_gas].
  change (is_ok R_CallTooDeep) with false. change (is_revert R_CallTooDeep) with true. cbv iota.
  cbn [set_pc set_rd i_gas Gas.remaining Gas.gas_new firstn]. rewrite Z.min_comm. cbn [Step.zlen length Z.of_nat].
  unfold Gas.erase_cost.
  destruct (checked64 (Gas.remaining (i_gas I) + gl)) as [y|] eqn:E.
  - apply checked64_some in E. destruct E as [-> _].
    replace (firstn (Z.to_nat (Z.min 0 (cq_ret_len c))) []) with (@nil Z) by (destruct (Z.to_nat _); reflexivity).
    cbn [M.set set_gas set_mem set_stk i_mem i_stk i_pc i_rd i_gas]. eexists. split; [reflexivity|]. cbn. auto.
  - exfalso. unfold checked64, is_u64 in E.
    destruct (0 <=? _) eqn:A; destruct (_ <? pow64) eqn:B; cbn in E; try discriminate; lia.
Qed.

(* every frame function returns with the depth (and the open checkpoints) it started from *)
Theorem frame_restores_depth W f G F I G' r :
  exec f W G F I = XDone (G', r) ->
  H.depth (gs G') = H.depth (gs G) /\ snd (g_sc G') = snd (g_sc G) /\ (depth_inv G -> depth_inv G').
Proof.
  intros E. destruct (exec_same_frame W f G F I G' r E) as [D S]. split; [exact D|]. split; [exact S|].
  unfold depth_inv. rewrite D, S. exact (fun x => x).
Qed.
Theorem call_restores_depth W f G c G' r :
  do_call W (exec f W) G c = XDone (G', r) ->
  H.depth (gs G') = H.depth (gs G) /\ snd (g_sc G') = snd (g_sc G) /\ (depth_inv G -> depth_inv G').
Proof.
  intros E. destruct (do_call_sf W _ _ _ _ _ (exec_same_frame W f) E) as [D S]. split; [exact D|]. split; [exact S|].
  unfold depth_inv. rewrite D, S. exact (fun x => x).
Qed.
Theorem create_restores_depth W f G c G' r a :
  do_create W (exec f W) G c = XDone (G', r, a) ->
  H.depth (gs G') = H.depth (gs G) /\ snd (g_sc G') = snd (g_sc G) /\ (depth_inv G -> depth_inv G').
Proof.
  intros E. destruct (do_create_sf W _ _ _ _ _ _ (exec_same_frame W f) E) as [D S]. split; [exact D|]. split; [exact S|].
  unfold depth_inv. rewrite D, S. exact (fun x => x).
Qed.

(* the state run_tx hands to the first frame (after load_access_list, deduct_caller and the
   EIP-7702 authorisations) is still at depth 0 with no open checkpoint *)
Lemma same_frame_put G a acc : same_frame G (set_s G (H.put (gs G) a acc)).
Proof. split; reflexivity. Qed.
Lemma load_access_list_sf W l : forall G,
  same_frame G (fold_left (fun G it => set_s G (H.initial_account_load (gdb W G) (gs G) (fst it) (snd it))) l G).
Proof.
  induction l as [|it l IH]; intros G; cbn [fold_left]; [apply same_frame_refl|].
  eapply same_frame_trans; [|apply IH]. split; reflexivity.
Qed.
Lemma deduct_caller_sf W G G1 : deduct_caller W G = Some G1 -> same_frame G G1.
Proof.
  unfold deduct_caller. pose proof (load_account_depth (gdb W G) (gs G) (w_caller W)) as D.
  destruct (H.load_account _ _ _) as [s1 cold]. cbn [fst] in D.
  destruct (H.st s1 (w_caller W)); [|discriminate]. destruct (St.deduct_caller_inner _ _ _); [|discriminate].
  intros E. injection E as <-. split; [exact D|reflexivity].
Qed.
Lemma add_code_sf G b : same_frame G (fst (add_code G b)).
Proof. unfold add_code. destruct (code_id b =? 0); split; reflexivity. Qed.
Lemma apply_auths_sf W l : forall G n, same_frame G (fst (apply_auths W G l n)).
Proof.
  induction l as [|[[[authority chain_id] address] nonce] l IH]; intros G n; cbn [apply_auths]; [apply same_frame_refl|].
  destruct (_ && _); [apply IH|]. destruct (nonce =? _); [apply IH|]. destruct authority as [au|]; [|apply IH].
  pose proof (load_account_depth (gdb W G) (gs G) au) as D. unfold H.load_code.
  destruct (H.load_account _ _ _) as [s1 cold]. cbn [fst] in D.
  assert (S1 : same_frame G (set_s G s1)) by (split; [exact D|reflexivity]).
  destruct (H.st s1 au) as [acc|]; [|eapply same_frame_trans; [exact S1|apply IH]].
  destruct (_ && _); [eapply same_frame_trans; [exact S1|apply IH]|].
  destruct (negb _); [eapply same_frame_trans; [exact S1|apply IH]|].
  destruct (address =? 0).
  - eapply same_frame_trans; [exact S1|]. eapply same_frame_trans; [|apply IH]. split; reflexivity.
  - pose proof (add_code_sf (set_s G s1) (eip7702_code address)) as S2.
    destruct (add_code (set_s G s1) (eip7702_code address)) as [G2 id]. cbn [fst] in S2.
    eapply same_frame_trans; [exact S1|]. eapply same_frame_trans; [exact S2|]. eapply same_frame_trans; [|apply IH]. split; reflexivity.
Qed.

Theorem tx_first_frame_state W G2 n :
  EvmGasProofs.tx_before_frame W = Some (G2, n) -> depth_inv G2 /\ H.depth (gs G2) = 0.
Proof.
  unfold EvmGasProofs.tx_before_frame.
  destruct (deduct_caller W _) as [G1|] eqn:ED; [|discriminate].
  apply deduct_caller_sf in ED. pose proof (load_access_list_sf W (w_access_list W) (gstate_new W)) as SL.
  fold (load_access_list W (gstate_new W)) in SL.
  assert (S1 : same_frame (gstate_new W) G1) by (eapply same_frame_trans; eassumption).
  assert (S2 : same_frame (gstate_new W) G2 -> depth_inv G2 /\ H.depth (gs G2) = 0).
  { intros [D S]. unfold depth_inv. rewrite D, S. split; reflexivity. }
  destruct (en (w_spec W) E.PRAGUE).
  - pose proof (apply_auths_sf W (w_auth_list W) G1 0) as SA. destruct (apply_auths W G1 (w_auth_list W) 0) as [G2' k].
    cbn [fst] in SA. intros E. injection E as <- _. apply S2. eapply same_frame_trans; eassumption.
  - intros E. injection E as <- _. apply S2, S1.
Qed.

(* ================================================================ a world for the examples *)
Definition mx_world (code : list Z) : world :=
  mkW 17 (E.mkEnv (E.mainnet_cfg 1) (E.mkBlock (2^256-1) 0 true (Some 1))
                  (E.mkTx 200000 1 false 0 [] (Some 7) None [] None [] None None))
      0xCA11E4 (Some 0x1000) 0 [] [] [] [] 0xC01BBA5E 100 1700000000 0 0x1234
      [(0x1000, (5, 1, 77)); (0xCA11E4, (10^30, 7, 0))] [] [(77, code)] [].
Definition mx_frame (code : list Z) : fctx := mk_fctx code [] 0x1000 0xCA11E4 0 false.
