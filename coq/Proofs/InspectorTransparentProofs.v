From RevmV Require Import Base.Word Model.Gas Gen.ResultClass Spec.ResultClassSpec Model.InspectorTransparent.
Local Open Scope Z_scope.

(* ================= Part A ================= *)
Section A.
  Variables (S X : Type).
  Notation machine := (machine S).
  Notation hook := (hook S X).

  Lemma set_ip_back : forall (m : machine), set_ip S (set_ip S m (ip S m - 1)) (ip S (set_ip S m (ip S m - 1)) + 1) = m.
  Proof. intros [p r s]. unfold set_ip. simpl. f_equal. lia. Qed.

  Lemma wrapper_transparent :
    forall (step_h step_end_h : hook) (prev : instruction S) (m : machine) (x : X),
      observing S X step_h -> observing S X step_end_h -> res S m = 0 ->
      fst (inspector_instruction S X step_h step_end_h prev m x) = prev m.
  Proof.
    intros sh eh prev m x Hs He Hr. unfold inspector_instruction.
    pose proof (Hs (set_ip S m (ip S m - 1)) x) as H1.
    destruct (sh (set_ip S m (ip S m - 1)) x) as [m2 x2]. simpl in H1. subst m2.
    assert (res S (set_ip S m (ip S m - 1)) =? 0 = true) as -> by (destruct m; simpl in *; subst; reflexivity).
    rewrite set_ip_back. apply He.
  Qed.

  Lemma log_wrapper_transparent :
    forall (ll : machine -> Z) (log_h : hook) prev' m x,
      observing S X log_h -> fst (log_wrapper S X ll log_h prev' m x) = fst (prev' m x).
  Proof.
    intros ll lh prev' m x Hl. unfold log_wrapper. destruct (prev' m x) as [m1 x1]. simpl.
    destruct (ll m1 =? ll m + 1); [apply Hl|reflexivity].
  Qed.

  Lemma sd_wrapper_transparent :
    forall notify prev' m x, fst (sd_wrapper_state S X notify prev' m x) = fst (prev' m x).
  Proof. intros. unfold sd_wrapper_state. destruct (prev' m x). reflexivity. Qed.

  (* the table installed by inspector_handle_register *)
  Definition registered_table (step_h step_end_h log_h : hook) (ll : machine -> Z)
             (notify : machine -> machine -> X -> X) (table : Z -> instruction S)
             (opc : Z) : machine -> X -> machine * X :=
    let w := inspector_instruction S X step_h step_end_h (table opc) in
    if (160 <=? opc) && (opc <=? 164) then log_wrapper S X ll log_h w
    else if opc =? 255 then sd_wrapper_state S X notify w
    else w.

  Lemma registered_transparent :
    forall step_h step_end_h log_h ll notify table opc m x,
      observing S X step_h -> observing S X step_end_h -> observing S X log_h -> res S m = 0 ->
      fst (registered_table step_h step_end_h log_h ll notify table opc m x) = table opc m.
  Proof.
    intros sh eh lh ll nt table opc m x Hs He Hl Hr. unfold registered_table.
    destruct ((160 <=? opc) && (opc <=? 164)).
    - rewrite log_wrapper_transparent by exact Hl. apply wrapper_transparent; assumption.
    - destruct (opc =? 255).
      + rewrite sd_wrapper_transparent. apply wrapper_transparent; assumption.
      + apply wrapper_transparent; assumption.
  Qed.

  Variable fetch : machine -> Z.

  Lemma run_transparent :
    forall (table : Z -> instruction S) (wtable : Z -> machine -> X -> machine * X),
      (forall opc m x, res S m = 0 -> fst (wtable opc m x) = table opc m) ->
      forall fuel m x, fst (run_inspected S X fetch fuel wtable m x) = run S fetch fuel table m.
  Proof.
    intros table wtable H. induction fuel as [|n IH]; intros m x; simpl; [reflexivity|].
    destruct (res S m =? 0) eqn:E; [|reflexivity].
    apply Z.eqb_eq in E.
    pose proof (H (fetch m) (set_ip S m (ip S m + 1)) x) as H1.
    destruct (wtable (fetch m) (set_ip S m (ip S m + 1)) x) as [m' x']. simpl in H1.
    rewrite IH. f_equal. apply H1. destruct m; simpl in *; exact E.
  Qed.

  Theorem run_registered_transparent :
    forall step_h step_end_h log_h ll notify table,
      observing S X step_h -> observing S X step_end_h -> observing S X log_h ->
      forall fuel m x,
        fst (run_inspected S X fetch fuel (registered_table step_h step_end_h log_h ll notify table) m x)
        = run S fetch fuel table m.
  Proof.
    intros sh eh lh ll nt table Hs He Hl. apply run_transparent.
    intros opc m x Hr. apply registered_transparent; assumption.
  Qed.
End A.

(* ================= Part C ================= *)
Section C.
  Variables (Ctx Inputs Outcome Frame X : Type).
  Lemma wrapped_open_transparent :
    forall (h : open_hook Ctx Inputs Outcome X) (init : init_hook Ctx Frame X) (prev : handler Ctx Inputs Outcome Frame) c i x,
      observing_open Ctx Inputs Outcome X h -> observing_init Ctx Frame X init ->
      fst (wrapped_open Ctx Inputs Outcome Frame X h init prev c i x) = prev c i.
  Proof.
    intros h init prev c i x Hh Hi. unfold wrapped_open.
    destruct (Hh c i x) as [x1 ->].
    destruct (prev c i) as [c2 [f|o]]; [|reflexivity].
    destruct (Hi f c2 x1) as [x3 ->]. reflexivity.
  Qed.

  Lemma wrapped_insert_transparent :
    forall (R : Type) (e : end_hook Ctx Inputs Outcome X) (prev_insert : Ctx -> Outcome -> R) c i o x,
      (forall c i o x, fst (e c i o x) = (c, o)) ->
      fst (wrapped_insert Ctx Inputs Outcome X e prev_insert c i o x) = prev_insert c o.
  Proof.
    intros R e prev c i o x He. unfold wrapped_insert. pose proof (He c i o x) as H.
    destruct (e c i o x) as [[c1 o1] x1]. simpl in H. inversion H; subst. reflexivity.
  Qed.
End C.

(* ================= Part B ================= *)
Lemma gen_table_is_spec : result_table = spec_table.
Proof. vm_compute. reflexivity. Qed.

Definition row_excl (row : Z * bool * bool * bool * Z) : bool :=
  let '(d, a, b, c, k) := row in
  (* exactly one class, or the action code 0x20 *)
  ((a && negb b && negb c) || (negb a && b && negb c) || (negb a && negb b && c)
   || (negb a && negb b && negb c && (d =? 0x20)))
  (* Success only for ok results; error results are Halt or FatalExternalError *)
  && (negb (k =? 0) || a) && (negb c || (k =? 2) || (k =? 3))
  && (negb (k =? 3) || (d =? 0x65)).

Lemma table_rows_ok : forallb row_excl result_table = true.
Proof. vm_compute. reflexivity. Qed.

Lemma lookup_row : forall t d a b c k,
  forallb row_excl t = true -> lookup t d = Some (a, b, c, k) -> row_excl (d, a, b, c, k) = true.
Proof.
  induction t as [|[[[[d' a'] b'] c'] k'] r IH]; intros d a b c k Hf Hl; simpl in *; [discriminate|].
  apply andb_true_iff in Hf. destruct Hf as [Hrow Hrest].
  destruct (d =? d') eqn:E.
  - apply Z.eqb_eq in E. subst d'. inversion Hl; subst. exact Hrow.
  - apply (IH d a b c k Hrest Hl).
Qed.

Lemma error_excl : forall d, is_error d = true -> is_ok d = false /\ is_revert d = false.
Proof.
  intros d. unfold is_error, is_ok, is_revert.
  destruct (lookup result_table d) as [[[[a b] c] k]|] eqn:E; [|discriminate].
  intro Hc. subst c. pose proof (lookup_row _ _ _ _ _ _ table_rows_ok E) as H.
  unfold row_excl in H. destruct a, b; simpl in H; try discriminate; split; reflexivity.
Qed.

Lemma classes_disjoint : forall d,
  (is_ok d = true -> is_revert d = false /\ is_error d = false) /\
  (is_revert d = true -> is_ok d = false /\ is_error d = false).
Proof.
  intros d. unfold is_error, is_ok, is_revert.
  destruct (lookup result_table d) as [[[[a b] c] k]|] eqn:E; [|split; discriminate].
  pose proof (lookup_row _ _ _ _ _ _ table_rows_ok E) as H. unfold row_excl in H.
  destruct a, b, c; simpl in H; try discriminate; split; intro; try discriminate; split; reflexivity.
Qed.

Lemma success_class_only_ok : forall d, soh_class d = 0 -> is_ok d = true.
Proof.
  intros d. unfold soh_class, is_ok.
  destruct (lookup result_table d) as [[[[a b] c] k]|] eqn:E; [|discriminate].
  intro Hk. subst k. pose proof (lookup_row _ _ _ _ _ _ table_rows_ok E) as H. unfold row_excl in H.
  destruct a; [reflexivity|]. rewrite !andb_true_iff in H. destruct H as [[[_ H] _] _]. simpl in H. discriminate.
Qed.

Theorem gas_inspector_insert_same : forall parent r og,
  insert_outcome_gas parent (gas_inspector_end (r, og)) = insert_outcome_gas parent (r, og).
Proof.
  intros parent r og. unfold gas_inspector_end. destruct (is_error r) eqn:E; [|reflexivity].
  destruct (error_excl r E) as [H1 H2]. unfold insert_outcome_gas. rewrite H1, H2. reflexivity.
Qed.

Theorem gas_inspector_last_frame_same : forall txl r og,
  last_frame_return_gas txl (gas_inspector_end (r, og)) = last_frame_return_gas txl (r, og).
Proof.
  intros txl r og. unfold gas_inspector_end. destruct (is_error r) eqn:E; [|reflexivity].
  destruct (error_excl r E) as [H1 H2]. unfold last_frame_return_gas. rewrite H1, H2. reflexivity.
Qed.

(* the result itself (hence SuccessOrHalt class, status, output) is never touched *)
Lemma gas_inspector_result_same : forall o, fst (gas_inspector_end o) = fst o.
Proof. intros [r g]. unfold gas_inspector_end. destruct (is_error r); reflexivity. Qed.
