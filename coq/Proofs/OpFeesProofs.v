(* Proofs about Model/OpFees.v: the Optimism fee pipeline conserves ether for non-deposit
   transactions, deposits mint exactly their mint. *)
From RevmV Require Import Base.Word Model.Gas Proofs.GasProofs Model.OpFees.
From Coq Require Import ZifyBool.
Local Open Scope Z_scope.

(* ------------------------------------------------------------------ small arithmetic facts *)
Lemma i64_as_u64_id x : 0 <= x < pow64 -> i64_as_u64 x = x.
Proof. intros. unfold i64_as_u64. apply Z.mod_small. lia. Qed.

Lemma wrap256_small x : 0 <= x < pow256 -> wrap256 x = x.
Proof. intros. apply wrap256_id. exact H. Qed.

Lemma chk_some x y : chk x = Some y -> y = x /\ x < pow256.
Proof. unfold chk. destruct (x <? pow256) eqn:E; [|discriminate]. intros [= <-]. lia. Qed.

Lemma sat_mul_mono a b s : 0 <= a <= b -> 0 <= s -> sat_mul a s <= sat_mul b s.
Proof. intros. unfold sat_mul. assert (a * s <= b * s) by nia. lia. Qed.

Lemma sat_mul_nonneg a s : 0 <= a -> 0 <= s -> 0 <= sat_mul a s.
Proof. intros. unfold sat_mul, max256, pow256. assert (0 <= a * s) by nia. lia. Qed.

(* operator_fee_charge is monotone in the gas argument: this is what makes the refund exact *)
Lemma charge_mono sp s c a b :
  0 <= a <= b -> 0 <= s -> 0 <= c ->
  operator_fee_charge sp s c a <= operator_fee_charge sp s c b.
Proof.
  intros Hab Hs Hc. unfold operator_fee_charge. destruct (negb (enabled sp ISTHMUS)); [lia|].
  pose proof (sat_mul_mono a b s Hab Hs) as M.
  assert (sat_mul a s / OPERATOR_FEE_SCALAR_DECIMAL <= sat_mul b s / OPERATOR_FEE_SCALAR_DECIMAL) as D
    by (apply Z.div_le_mono; [reflexivity|exact M]).
  unfold sat_add. lia.
Qed.

Lemma charge_nonneg sp s c a : 0 <= a -> 0 <= s -> 0 <= c -> 0 <= operator_fee_charge sp s c a.
Proof.
  intros. unfold operator_fee_charge. destruct (negb (enabled sp ISTHMUS)); [lia|].
  pose proof (sat_mul_nonneg a s H H0).
  assert (0 <= sat_mul a s / OPERATOR_FEE_SCALAR_DECIMAL) by (apply Z.div_pos; [lia|reflexivity]).
  unfold sat_add, max256, pow256. lia.
Qed.

Lemma charge_pre_isthmus sp s c a : sp < ISTHMUS -> operator_fee_charge sp s c a = 0.
Proof. intros. unfold operator_fee_charge, enabled. destruct (ISTHMUS <=? sp) eqn:E; [lia|reflexivity]. Qed.

(* with the ranges that L1BlockInfo::try_fetch can produce (u32 scalar, u64 constant) and a u64
   amount of gas nothing saturates: the charge is the unbounded formula *)
Lemma charge_unbounded sp s c a :
  0 <= a < pow64 -> 0 <= s < 2 ^ 32 -> 0 <= c < pow64 ->
  operator_fee_charge sp s c a = if ISTHMUS <=? sp then a * s / 1000000 + c else 0.
Proof.
  intros Ha Hs Hc. unfold operator_fee_charge, enabled. destruct (ISTHMUS <=? sp); [|reflexivity].
  cbn [negb]. unfold sat_add, sat_mul, OPERATOR_FEE_SCALAR_DECIMAL.
  assert (0 <= a * s < pow64 * 2 ^ 32) by (unfold_pows; nia).
  assert (a * s < max256) by (unfold max256; unfold_pows; lia).
  rewrite (Z.min_l (a * s)) by lia.
  assert (0 <= a * s / 1000000 <= a * s) by (split; [apply Z.div_pos; lia | apply Z.div_le_upper_bound; lia]).
  unfold max256 in *. unfold_pows. lia.
Qed.

(* the rounding that makes the books balance: what is kept of the up-front charge after the
   refund is exactly the charge for the gas used *)
Lemma refund_exact sp s c g :
  0 <= used g <= limit g -> 0 <= s -> 0 <= c ->
  operator_fee_charge sp s c (limit g) - operator_fee_refund sp s c g = operator_fee_charge sp s c (used g).
Proof.
  intros Hu Hs Hc. unfold operator_fee_refund.
  destruct (negb (enabled sp ISTHMUS)) eqn:E.
  - unfold operator_fee_charge. rewrite E. lia.
  - pose proof (charge_mono sp s c (used g) (limit g) Hu Hs Hc). unfold sat_sub. lia.
Qed.

(* ------------------------------------------------------------------ gas accounting *)
Definition frame_ok (t : optx) (f : fres) : Prop :=
  0 <= frem f <= gas_limit t /\ 0 <= fref f < pow63.

(* invariant of the Gas value handed to reimburse_caller / reward_beneficiary *)
Definition gas_final_ok (t : optx) (g : gas) : Prop :=
  limit g = gas_limit t /\ 0 <= remaining g /\ 0 <= refunded g < pow63 /\
  remaining g + refunded g <= gas_limit t.

Lemma used_eq t g : gas_final_ok t g -> used g = gas_limit t - remaining g - refunded g.
Proof. intros (L & R & F & S). unfold used, spent. rewrite i64_as_u64_id by (unfold_pows; lia). lia. Qed.

Lemma set_final_refund_ok t g :
  0 <= gas_limit t < pow64 -> limit g = gas_limit t -> 0 <= remaining g <= gas_limit t ->
  0 <= refunded g < pow63 ->
  gas_final_ok t (set_final_refund g true).
Proof.
  intros HL L R F.
  assert (gas_inv g) as I by (unfold gas_inv; rewrite L; unfold_pows; lia).
  pose proof (final_refund_nonneg g true I (proj1 F)) as E.
  unfold gas_final_ok. rewrite E. unfold set_final_refund. cbn [limit remaining].
  unfold spent. rewrite L.
  assert (0 <= (gas_limit t - remaining g) / 5 <= gas_limit t - remaining g)
    by (split; [apply Z.div_pos; lia | apply Z.div_le_upper_bound; lia]).
  unfold_pows. lia.
Qed.

Lemma apply_floor_ok t g :
  0 <= gas_limit t < pow64 -> 0 <= floor_gas t <= gas_limit t ->
  gas_final_ok t g -> gas_final_ok t (apply_floor t g).
Proof.
  intros HL HF (L & R & F & S). unfold apply_floor.
  destruct (spent_sub_refunded g <? floor_gas t); [|unfold gas_final_ok; auto].
  unfold gas_final_ok, set_refund, set_spent. cbn [limit remaining refunded]. rewrite L.
  unfold sat64. unfold_pows.
  destruct (gas_limit t - floor_gas t <? 0) eqn:A; [lia|].
  destruct (gas_limit t - floor_gas t <? 18446744073709551616) eqn:B; lia.
Qed.

Lemma erase_cost_some g r :
  in_u64 (remaining g + r) -> erase_cost g r = Some (mkGas (limit g) (remaining g + r) (refunded g)).
Proof. intros H. unfold erase_cost, checked64. apply is_u64_spec in H. rewrite H. reflexivity. Qed.
Lemma record_refund_some g x :
  in_i64 (refunded g + x) -> record_refund g x = Some (mkGas (limit g) (remaining g) (refunded g + x)).
Proof. intros H. unfold record_refund. apply is_i64_spec in H. rewrite H. reflexivity. Qed.
Lemma set_final_refund_chk_some g b :
  remaining g <= limit g -> set_final_refund_chk g b = Some (set_final_refund g b).
Proof. intros H. unfold set_final_refund_chk. replace (remaining g <=? limit g) with true by lia. reflexivity. Qed.

Ltac gas_red := cbn [limit remaining refunded gas_new_spent obind].

Lemma final_gas_regular t f :
  (is_deposit t = false \/ enabled (spec t) REGOLITH = true) ->
  enabled (spec t) LONDON = true ->
  0 <= gas_limit t < pow64 -> 0 <= floor_gas t <= gas_limit t -> frame_ok t f ->
  exists g, final_gas t f = Some g /\ gas_final_ok t g.
Proof.
  intros Hd HLon HL HF ((R1 & R2) & (F1 & F2)).
  assert (negb (is_deposit t) || enabled (spec t) REGOLITH = true) as Hb
    by (destruct Hd as [-> | ->]; [reflexivity | apply orb_true_r]).
  assert (is_deposit t && negb (enabled (spec t) REGOLITH) = false) as Hc
    by (destruct Hd as [-> | ->]; [reflexivity | cbn [negb]; apply andb_false_r]).
  unfold final_gas, last_frame_return, refund. rewrite Hb, Hc, HLon.
  destruct (fclass f =? 0) eqn:C0; [|destruct (fclass f =? 1) eqn:C1].
  - rewrite erase_cost_some by (gas_red; unfold_pows; lia). gas_red.
    rewrite record_refund_some by (gas_red; unfold_pows; lia). gas_red.
    rewrite record_refund_some by (gas_red; unfold_pows; lia). gas_red.
    rewrite set_final_refund_chk_some by (gas_red; lia). gas_red.
    eexists. split; [reflexivity|]. apply apply_floor_ok; [exact HL|exact HF|].
    apply set_final_refund_ok; gas_red; unfold_pows; lia.
  - rewrite erase_cost_some by (gas_red; unfold_pows; lia). gas_red.
    rewrite record_refund_some by (gas_red; unfold_pows; lia). gas_red.
    rewrite set_final_refund_chk_some by (gas_red; lia). gas_red.
    eexists. split; [reflexivity|]. apply apply_floor_ok; [exact HL|exact HF|].
    apply set_final_refund_ok; gas_red; unfold_pows; lia.
  - gas_red.
    rewrite record_refund_some by (gas_red; unfold_pows; lia). gas_red.
    rewrite set_final_refund_chk_some by (gas_red; lia). gas_red.
    eexists. split; [reflexivity|]. apply apply_floor_ok; [exact HL|exact HF|].
    apply set_final_refund_ok; gas_red; unfold_pows; lia.
Qed.

(* ------------------------------------------------------------------ well-formed inputs *)
Record tx_wf (t : optx) : Prop := mk_tx_wf {
  wf_spec : BEDROCK <= spec t;
  wf_limit : 0 <= gas_limit t < pow64;
  wf_price : 0 <= gas_price t < pow256;
  wf_prio : forall p, priority t = Some p -> 0 <= p < pow256;
  wf_basefee : 0 <= basefee t < pow256;
  wf_value : 0 <= value t < pow256;
  wf_l1 : 0 <= l1 t < pow256;
  wf_scalar : 0 <= op_scalar t < pow256;
  wf_const : 0 <= op_const t < pow256;
  wf_intr : 0 <= intrinsic t;
  wf_floor : 0 <= floor_gas t /\ (enabled (spec t) PRAGUE = false -> floor_gas t = 0);
  wf_mint : forall m, mint t = Some m -> 0 <= m < pow128 }.

(* balances are non-negative and the ether held by the six accounts fits 256 bits *)
Record st_wf (s : ost) : Prop := mk_st_wf {
  wf_bal : 0 <= b_sender s /\ 0 <= b_rcpt s /\ 0 <= b_coinbase s /\ 0 <= b_l1v s /\
           0 <= b_basev s /\ 0 <= b_opv s;
  wf_supply : b_sender s + b_rcpt s + b_coinbase s + b_l1v s + b_basev s + b_opv s < pow256;
  wf_nonce : 0 <= nonce s < pow64 }.

(* EIP-1559 price per unit of gas, on unbounded integers *)
Definition price_1559 (t : optx) : Z :=
  match priority t with Some p => Z.min (gas_price t) (basefee t + p) | None => gas_price t end.

Ltac Zify.zify_post_hook ::= Z.div_mod_to_equations.

(* a transaction whose basefee + priority fee wraps is rejected by validation, so the wrapping
   "+" in effective_gas_price is never observable on an executed transaction *)
Lemma valid_price t :
  tx_wf t -> is_deposit t = false -> validate_env t = 0 ->
  effective_gas_price t = price_1559 t /\ basefee t <= price_1559 t <= gas_price t.
Proof.
  intros W D. unfold validate_env, effective_gas_price, price_1559. rewrite D.
  destruct (is_system t && enabled (spec t) REGOLITH); [unfold E_SYSTEM_TX; lia|].
  pose proof (wf_basefee t W) as HB. pose proof (wf_price t W) as HP.
  destruct (priority t) as [p|] eqn:EP.
  - pose proof (wf_prio t W p EP) as Hp.
    destruct (gas_price t <? p) eqn:A; [unfold E_PRIORITY; lia|].
    destruct (Z.min (gas_price t) (w_add (basefee t) p) <? basefee t) eqn:Bf; [unfold E_BASEFEE; lia|].
    intros _. unfold w_add, wrap256 in *. unfold_pows. lia.
  - destruct (gas_price t <? basefee t) eqn:Bf; [unfold E_BASEFEE; lia|]. intros _. lia.
Qed.

Lemma balance_check_some t c :
  balance_check t = Some c ->
  c = gas_limit t * gas_price t + value t + l1 t +
      operator_fee_charge (spec t) (op_scalar t) (op_const t) (gas_limit t) /\ c < pow256.
Proof.
  unfold balance_check, chk_mul, chk_add, obind.
  destruct (chk (gas_limit t * gas_price t)) as [a|] eqn:A; [|discriminate].
  destruct (chk (a + value t)) as [b|] eqn:B; [|discriminate].
  destruct (chk (b + l1 t)) as [d|] eqn:Dd; [|discriminate].
  intros H. apply chk_some in A, B, Dd, H. lia.
Qed.

(* what a successful pre-verification of a non-deposit transaction establishes *)
Lemma preverify_regular t s :
  is_deposit t = false -> preverify t s = 0 ->
  validate_env t = 0 /\ intrinsic t <= gas_limit t /\
  (enabled (spec t) PRAGUE = true -> floor_gas t <= gas_limit t) /\ has_envelope t = true /\
  exists c, balance_check t = Some c /\ c <= b_sender s.
Proof.
  intros D. unfold preverify.
  destruct (validate_env t =? 0) eqn:E1; cbn [negb]; [|lia].
  unfold validate_initial_tx_gas.
  destruct (gas_limit t <? intrinsic t) eqn:E2; [unfold E_INTRINSIC; cbn; lia|].
  destruct (enabled (spec t) PRAGUE && (gas_limit t <? floor_gas t)) eqn:E3; [unfold E_FLOOR; cbn; lia|].
  cbn [Z.eqb negb]. unfold validate_tx_against_state. rewrite D.
  destruct (has_envelope t); cbn [negb]; [|unfold E_ENVELOPE; lia].
  destruct (balance_check t) as [c|]; [|unfold E_OVERFLOW; lia].
  destruct (b_sender s <? c) eqn:E4; [unfold E_FUNDS; lia|]. intros _.
  repeat split; try lia.
  - intros Pr. rewrite Pr in E3. cbn in E3. lia.
  - exists c. split; [reflexivity|lia].
Qed.

(* ------------------------------------------------------------------ C33, non-deposit *)
Definition conservation (t : optx) (f : fres) (s0 : ost) (o : outcome) : Prop :=
  exists class gu gr s1,
    o = Executed class gu gr s1 /\ 0 <= gu <= gas_limit t /\
    let moved := if fclass f =? 0 then value t else 0 in
    let opfee := operator_fee_charge (spec t) (op_scalar t) (op_const t) gu in
    b_rcpt s1 = b_rcpt s0 + moved /\
    b_coinbase s1 = b_coinbase s0 + (price_1559 t - basefee t) * gu /\
    b_basev s1 = b_basev s0 + basefee t * gu /\
    b_l1v s1 = b_l1v s0 + l1 t /\
    b_opv s1 = b_opv s0 + opfee /\
    b_sender s0 - b_sender s1 =
      moved + (price_1559 t - basefee t) * gu + basefee t * gu + l1 t + opfee /\
    nonce s1 = Z.min (nonce s0 + 1) (pow64 - 1).

Theorem regular_conservation t f s0 :
  tx_wf t -> st_wf s0 -> is_deposit t = false -> mint t = None -> frame_ok t f ->
  preverify t s0 = 0 ->
  conservation t f s0 (transact t f s0).
Proof.
  intros W S D M FO PV.
  destruct (preverify_regular t s0 D PV) as (VE & HI & HFl & HEnv & c & BC & Hc).
  destruct (valid_price t W D VE) as (EffEq & PB & PP).
  apply balance_check_some in BC. destruct BC as (-> & Cmax).
  destruct W as [Wspec WL WP Wprio WB WV Wl1 Wsc Wco Wi (Wf0 & Wf1) Wm].
  destruct S as [(S1 & S2 & S3 & S4 & S5 & S6) Ssup Sn].
  assert (enabled (spec t) LONDON = true) as HLon by (unfold enabled, LONDON, BEDROCK in *; lia).
  assert (0 <= floor_gas t <= gas_limit t) as HF.
  { destruct (enabled (spec t) PRAGUE) eqn:Pr; [specialize (HFl eq_refl); lia | rewrite (Wf1 eq_refl); lia]. }
  destruct (final_gas_regular t f (or_introl D) HLon WL HF FO) as (g & FG & GO).
  pose proof (used_eq t g GO) as UE. destruct GO as (GL & GR & GF & GS).
  set (L := gas_limit t) in *. set (E := price_1559 t) in *. set (B := basefee t) in *.
  set (K := operator_fee_charge (spec t) (op_scalar t) (op_const t) L) in *.
  set (U := used g) in *.
  assert (0 <= U <= L) as HU by lia.
  pose proof (charge_mono (spec t) (op_scalar t) (op_const t) U L HU (proj1 Wsc) (proj1 Wco)) as Kmono.
  pose proof (charge_nonneg (spec t) (op_scalar t) (op_const t) U (proj1 HU) (proj1 Wsc) (proj1 Wco)) as Kpos.
  fold K in Kmono.
  set (Ku := operator_fee_charge (spec t) (op_scalar t) (op_const t) U) in *.
  assert (K - operator_fee_refund (spec t) (op_scalar t) (op_const t) g = Ku) as RE.
  { subst K Ku L. rewrite <- GL. apply refund_exact; [rewrite GL; exact HU| lia | lia]. }
  (* the products *)
  assert (0 <= L * E <= L * gas_price t) as P1 by nia.
  assert (L * E = E * (remaining g + refunded g) + E * U) as P2 by (rewrite UE; ring).
  assert (E * U = (E - B) * U + B * U) as P3 by ring.
  assert (0 <= E * (remaining g + refunded g)) as P4 by nia.
  assert (0 <= (E - B) * U) as P5 by nia.
  assert (0 <= B * U) as P6 by nia.
  (* run the pipeline *)
  unfold transact. rewrite PV. cbn [Z.eqb]. unfold execute. rewrite FG. cbn [obind].
  unfold deduct_caller. rewrite M, D, EffEq. fold L E B K.
  unfold frame_effect. cbn [b_sender b_rcpt b_coinbase b_l1v b_basev b_opv nonce].
  unfold sat_mul, sat_sub, max256.
  remember (L * E) as LE. remember (E * (remaining g + refunded g)) as Back.
  remember ((E - B) * U) as CB. remember (B * U) as BF.
  rewrite (Z.min_l LE) by lia.
  rewrite (Z.max_l (b_sender s0 - LE)) by lia.
  rewrite (Z.max_l (b_sender s0 - LE - l1 t)) by lia.
  rewrite (Z.max_l (b_sender s0 - LE - l1 t - K)) by lia.
  set (b4 := b_sender s0 - LE - l1 t - K).
  assert (value t <= b4) as Hv by (subst b4; lia).
  replace (b4 <? value t) with false by lia.
  set (n1 := if is_call t then u64_sat_add (nonce s0) 1 else nonce s0).
  set (n2 := if is_call t then n1 else u64_sat_add n1 1).
  assert (n2 = Z.min (nonce s0 + 1) (pow64 - 1)) as Hn
    by (subst n2 n1; unfold u64_sat_add; destruct (is_call t); reflexivity).
  destruct (fclass f =? 0) eqn:C0.
  - (* the frame returned ok: the value moves *)
    unfold chk_add, chk. replace (b_rcpt s0 + value t <? pow256) with true by lia. cbn [obind].
    unfold reimburse_caller. cbn [b_sender b_rcpt b_coinbase b_l1v b_basev b_opv nonce].
    rewrite D, EffEq. fold E.
    rewrite (i64_as_u64_id (refunded g)) by (unfold_pows; lia).
    unfold checked64. replace (is_u64 (remaining g + refunded g)) with true
      by (symmetry; apply is_u64_spec; unfold_pows; lia).
    cbn [obind]. unfold w_mul. rewrite <- HeqBack. rewrite (wrap256_small Back) by lia.
    unfold reward_beneficiary. cbn [b_sender b_rcpt b_coinbase b_l1v b_basev b_opv nonce].
    rewrite D, EffEq. fold E B U Ku.
    replace (U <? 0) with false by lia. cbn [obind].
    unfold output. fold U. replace (U <? 0) with false by lia.
    rewrite D. rewrite andb_false_r. cbn [andb].
    unfold conservation. do 4 eexists. split; [reflexivity|]. split; [exact HU|].
    rewrite C0. cbn zeta. cbn [b_sender b_rcpt b_coinbase b_l1v b_basev b_opv nonce].
    fold Ku. unfold sat_add, sat_sub, w_add, w_mul, max256.
    rewrite (Z.max_l (E - B)) by lia. rewrite <- HeqCB, <- HeqBF.
    rewrite (wrap256_small CB) by lia. rewrite (wrap256_small BF) by lia.
    rewrite (wrap256_small (b_l1v s0 + l1 t)) by lia.
    rewrite (wrap256_small (b_basev s0 + BF)) by lia.
    rewrite (wrap256_small (b_opv s0 + Ku)) by lia.
    subst b4. lia.
  - cbn [obind].
    unfold reimburse_caller. cbn [b_sender b_rcpt b_coinbase b_l1v b_basev b_opv nonce].
    rewrite D, EffEq. fold E.
    rewrite (i64_as_u64_id (refunded g)) by (unfold_pows; lia).
    unfold checked64. replace (is_u64 (remaining g + refunded g)) with true
      by (symmetry; apply is_u64_spec; unfold_pows; lia).
    cbn [obind]. unfold w_mul. rewrite <- HeqBack. rewrite (wrap256_small Back) by lia.
    unfold reward_beneficiary. cbn [b_sender b_rcpt b_coinbase b_l1v b_basev b_opv nonce].
    rewrite D, EffEq. fold E B U Ku.
    replace (U <? 0) with false by lia. cbn [obind].
    unfold output. fold U. replace (U <? 0) with false by lia.
    rewrite D. rewrite andb_false_r. cbn [andb].
    unfold conservation. do 4 eexists. split; [reflexivity|]. split; [exact HU|].
    rewrite C0. cbn zeta. cbn [b_sender b_rcpt b_coinbase b_l1v b_basev b_opv nonce].
    fold Ku. unfold sat_add, sat_sub, w_add, w_mul, max256.
    rewrite (Z.max_l (E - B)) by lia. rewrite <- HeqCB, <- HeqBF.
    rewrite (wrap256_small CB) by lia. rewrite (wrap256_small BF) by lia.
    rewrite (wrap256_small (b_l1v s0 + l1 t)) by lia.
    rewrite (wrap256_small (b_basev s0 + BF)) by lia.
    rewrite (wrap256_small (b_opv s0 + Ku)) by lia.
    subst b4. lia.
Qed.

(* ------------------------------------------------------------------ C33, deposits *)
Lemma final_gas_bedrock_deposit t f :
  is_deposit t = true -> enabled (spec t) REGOLITH = false -> floor_gas t = 0 ->
  0 <= gas_limit t < pow64 ->
  final_gas t f =
    Some (mkGas (gas_limit t) (if (fclass f =? 0) && is_system t then gas_limit t else 0) 0).
Proof.
  intros D Rg Fl HL. unfold final_gas, last_frame_return, refund. rewrite D, Rg. cbn [negb orb andb].
  assert (forall r, 0 <= r <= gas_limit t ->
     apply_floor t (mkGas (gas_limit t) r 0) = mkGas (gas_limit t) r 0) as AF.
  { intros r Hr. unfold apply_floor, spent_sub_refunded, spent, i64_as_u64. cbn [limit remaining refunded].
    rewrite Fl. pose proof (sat64_range (gas_limit t - r - 0 mod pow64)) as Rr. unfold in_u64 in Rr.
    replace (sat64 (gas_limit t - r - 0 mod pow64) <? 0) with false by lia. reflexivity. }
  destruct (fclass f =? 0) eqn:C0; cbn [andb].
  - destruct (is_system t).
    + rewrite erase_cost_some by (gas_red; unfold_pows; lia). gas_red.
      rewrite record_refund_some by (gas_red; unfold_pows; lia). gas_red.
      rewrite Z.add_0_l, Z.add_0_r. rewrite AF by lia. reflexivity.
    + gas_red. rewrite record_refund_some by (gas_red; unfold_pows; lia). gas_red.
      rewrite Z.add_0_r. rewrite AF by lia. reflexivity.
  - destruct (fclass f =? 1); gas_red;
      rewrite record_refund_some by (gas_red; unfold_pows; lia); gas_red;
      rewrite Z.add_0_r; rewrite AF by lia; reflexivity.
Qed.

Definition opt0 (o : option Z) : Z := match o with Some x => x | None => 0 end.

(* what a deposit does to the books: exactly [mint] is created on the sender, the value moves
   only if the execution succeeded, nobody is paid a fee, the nonce is bumped; a deposit that
   halts from Regolith on is reported as FailedDeposit with mint and nonce increment persisted *)
Definition deposit_books (t : optx) (f : fres) (s0 : ost) (o : outcome) : Prop :=
  exists class gu gr s1,
    o = Executed class gu gr s1 /\ (0 <= class <= 3) /\ 0 <= gu <= gas_limit t /\
    let moved := if class =? 3 then 0 else if fclass f =? 0 then value t else 0 in
    b_sender s1 = b_sender s0 + opt0 (mint t) - moved /\
    b_rcpt s1 = b_rcpt s0 + moved /\
    b_coinbase s1 = b_coinbase s0 /\ b_basev s1 = b_basev s0 /\ b_l1v s1 = b_l1v s0 /\
    b_opv s1 = b_opv s0 /\
    (is_call t = true \/ class = 3 \/ value t <= b_sender s0 + opt0 (mint t) ->
       nonce s1 = Z.min (nonce s0 + 1) (pow64 - 1)) /\
    (* Regolith: a halt is a FailedDeposit that uses the whole gas limit *)
    (enabled (spec t) REGOLITH = true -> class <> 2 /\ (class = 3 -> gu = gas_limit t)) /\
    (* Bedrock: no refunds; the gas limit is used, except 0 for a successful system transaction *)
    (enabled (spec t) REGOLITH = false ->
       class <> 3 /\ gu = if (fclass f =? 0) && is_system t then 0 else gas_limit t).

Theorem deposit_mints t f s0 :
  tx_wf t -> st_wf s0 -> is_deposit t = true -> gas_price t = 0 ->
  b_sender s0 + b_rcpt s0 + b_coinbase s0 + b_l1v s0 + b_basev s0 + b_opv s0 + opt0 (mint t) < pow256 ->
  frame_ok t f ->
  (* the frame result is one the EVM can produce: ok only if the value could be paid *)
  (fclass f =? 0 = true -> value t <= b_sender s0 + opt0 (mint t)) ->
  (* the deposit passes pre-verification: gas_limit >= intrinsic gas (and the EIP-7623 floor) *)
  preverify t s0 = 0 ->
  deposit_books t f s0 (transact t f s0).
Proof.
  intros W S D P0 Sup FO FC PV.
  destruct W as [Wspec WL WP Wprio WB WV Wl1 Wsc Wco Wi (Wf0 & Wf1) Wm].
  destruct S as [(S1 & S2 & S3 & S4 & S5 & S6) Ssup Sn].
  assert (0 <= opt0 (mint t) < pow128) as Hm
    by (unfold opt0; destruct (mint t) as [m|]; [apply Wm; reflexivity | unfold_pows; lia]).
  assert (effective_gas_price t = 0) as E0.
  { unfold effective_gas_price. rewrite P0. destruct (priority t) as [p|]; [|reflexivity].
    unfold w_add, wrap256. unfold_pows. lia. }
  assert (0 <= floor_gas t <= gas_limit t) as HF.
  { revert PV. unfold preverify, validate_env. rewrite D. cbn [Z.eqb negb].
    unfold validate_initial_tx_gas.
    destruct (gas_limit t <? intrinsic t) eqn:E2; [unfold E_INTRINSIC; cbn; lia|].
    destruct (enabled (spec t) PRAGUE) eqn:Pr; cbn [andb].
    - destruct (gas_limit t <? floor_gas t) eqn:E3; [unfold E_FLOOR; cbn; lia|]. lia.
    - rewrite (Wf1 eq_refl). lia. }
  assert (enabled (spec t) LONDON = true) as HLon by (unfold enabled, LONDON, BEDROCK in *; lia).
  assert (exists g, final_gas t f = Some g /\ gas_final_ok t g /\
            (enabled (spec t) REGOLITH = false ->
               used g = if (fclass f =? 0) && is_system t then 0 else gas_limit t)) as (g & FG & GO & GB).
  { destruct (enabled (spec t) REGOLITH) eqn:Rg.
    - destruct (final_gas_regular t f (or_intror Rg) HLon WL HF FO) as (g & FG & GO).
      exists g. repeat split; try assumption; try apply GO. discriminate.
    - assert (floor_gas t = 0) as Fl.
      { apply Wf1. unfold enabled, PRAGUE, REGOLITH in *. lia. }
      eexists. split; [apply final_gas_bedrock_deposit; assumption|]. split.
      + unfold gas_final_ok. cbn [limit remaining refunded].
        destruct ((fclass f =? 0) && is_system t); unfold_pows; lia.
      + intros _. unfold used, spent, i64_as_u64. cbn [limit remaining refunded].
        destruct ((fclass f =? 0) && is_system t); cbn; lia. }
  pose proof (used_eq t g GO) as UE. destruct GO as (GL & GR & GF & GS).
  set (U := used g) in *. assert (0 <= U <= gas_limit t) as HU by lia.
  unfold transact. rewrite PV. cbn [Z.eqb]. unfold execute. rewrite FG. cbn [obind].
  unfold deduct_caller. rewrite D, E0.
  assert (match mint t with Some m => w_add (b_sender s0) m | None => b_sender s0 end
          = b_sender s0 + opt0 (mint t)) as ->.
  { unfold opt0 in *. destruct (mint t) as [m|]; [|lia]. unfold w_add. apply wrap256_small. lia. }
  set (b1 := b_sender s0 + opt0 (mint t)) in *.
  unfold sat_mul, sat_sub, max256. rewrite Z.mul_0_r. rewrite (Z.min_l 0) by (unfold_pows; lia).
  rewrite Z.sub_0_r. rewrite (Z.max_l b1) by lia.
  unfold frame_effect. cbn [b_sender b_rcpt b_coinbase b_l1v b_basev b_opv nonce].
  set (n1 := if is_call t then u64_sat_add (nonce s0) 1 else nonce s0).
  assert (forall s2, s2 = (if fclass f =? 0
                           then mkSt (b1 - value t) (b_rcpt s0 + value t) (b_coinbase s0) (b_l1v s0) (b_basev s0) (b_opv s0)
                                  (if is_call t then n1 else if b1 <? value t then n1 else u64_sat_add n1 1)
                           else mkSt b1 (b_rcpt s0) (b_coinbase s0) (b_l1v s0) (b_basev s0) (b_opv s0)
                                  (if is_call t then n1 else if b1 <? value t then n1 else u64_sat_add n1 1)) ->
          deposit_books t f s0
            (match (do s3 <- reimburse_caller t g s2; do s4 <- reward_beneficiary t g s3; Some (g, s4)) with
             | Some (g0, s4) => output t f g0 s0 s4 | None => Panic end)) as Main.
  { intros s2 ->.
    unfold reimburse_caller. rewrite D, E0.
    rewrite (i64_as_u64_id (refunded g)) by (unfold_pows; lia).
    unfold checked64. replace (is_u64 (remaining g + refunded g)) with true
      by (symmetry; apply is_u64_spec; unfold_pows; lia).
    cbn [obind]. unfold w_mul. rewrite Z.mul_0_l. unfold wrap256. rewrite Z.mod_0_l by (unfold_pows; lia).
    unfold reward_beneficiary. rewrite D. cbn [obind].
    unfold output. fold U. replace (U <? 0) with false by lia. rewrite D. cbn [andb].
    unfold deposit_books, failed_deposit.
    set (class := if rclass f =? 0 then 0 else if rclass f =? 1 then 1 else 2).
    assert (0 <= class <= 2) as Hcl by (subst class; destruct (rclass f =? 0); [lia|destruct (rclass f =? 1); lia]).
    destruct (enabled (spec t) REGOLITH) eqn:Rg.
    - destruct (class =? 2) eqn:C2; cbn [andb orb].
      + do 4 eexists. split; [reflexivity|]. split; [lia|]. split; [lia|]. cbn zeta.
        replace (3 =? 3) with true by reflexivity.
        cbn [b_sender b_rcpt b_coinbase b_l1v b_basev b_opv nonce].
        unfold sat_add, u64_sat_add, max256. subst b1. unfold opt0 in *.
        repeat split; try lia; try discriminate.
      + do 4 eexists. split; [reflexivity|]. split; [lia|]. split; [exact HU|]. cbn zeta.
        replace (class =? 3) with false by lia.
        destruct (fclass f =? 0) eqn:C0; cbn [b_sender b_rcpt b_coinbase b_l1v b_basev b_opv nonce];
          unfold sat_add, max256; subst n1; unfold u64_sat_add;
          (repeat split; try lia; try discriminate;
           try (intros [Hc|[Hc|Hc]]; [rewrite Hc; lia | lia | destruct (is_call t); [lia|]; replace (b1 <? value t) with false by lia; lia])).
    - rewrite andb_false_r.
      do 4 eexists. split; [reflexivity|]. split; [lia|]. split; [exact HU|]. cbn zeta.
      replace (class =? 3) with false by lia.
      destruct (fclass f =? 0) eqn:C0; cbn [b_sender b_rcpt b_coinbase b_l1v b_basev b_opv nonce];
        unfold sat_add, max256; subst n1; unfold u64_sat_add;
        (repeat split; try lia; try discriminate; try (apply GB; reflexivity);
         try (intros [Hc|[Hc|Hc]]; [rewrite Hc; lia | lia | destruct (is_call t); [lia|]; replace (b1 <? value t) with false by lia; lia])). }
  destruct (fclass f =? 0) eqn:C0.
  - specialize (FC eq_refl). fold b1 in FC. replace (b1 <? value t) with false by lia.
    unfold chk_add, chk. replace (b_rcpt s0 + value t <? pow256) with true by lia. cbn [obind].
    apply Main. replace (b1 <? value t) with false by lia. reflexivity.
  - cbn [obind]. apply Main. reflexivity.
Qed.

(* the failure path of optimism::end on its own: whatever the execution did is discarded, the
   caller (as stored in the database) gets mint and nonce + 1 *)
Lemma failed_deposit_persists t s0 :
  st_wf s0 -> (forall m, mint t = Some m -> 0 <= m) ->
  b_sender s0 + opt0 (mint t) < pow256 ->
  exists gu s1, failed_deposit t s0 = Executed 3 gu 0 s1 /\
    b_sender s1 = b_sender s0 + opt0 (mint t) /\ nonce s1 = Z.min (nonce s0 + 1) (pow64 - 1) /\
    b_rcpt s1 = b_rcpt s0 /\ b_coinbase s1 = b_coinbase s0 /\ b_l1v s1 = b_l1v s0 /\
    b_basev s1 = b_basev s0 /\ b_opv s1 = b_opv s0 /\
    gu = (if enabled (spec t) REGOLITH || negb (is_system t) then gas_limit t else 0).
Proof.
  intros S Hm Hs. unfold failed_deposit. do 2 eexists. split; [reflexivity|].
  cbn [b_sender b_rcpt b_coinbase b_l1v b_basev b_opv nonce]. unfold sat_add, u64_sat_add, max256, opt0 in *.
  destruct (mint t) as [m|]; [specialize (Hm m eq_refl)|]; repeat split; lia.
Qed.
