(* Proofs for C32: the repaired fake_exponential (256-bit checked intermediates, saturation)
   equals the EIP-4844 loop on unbounded integers whenever that fits in 128 bits and is
   u128::MAX otherwise; 2048 iterations always suffice; the EIP loop terminates. *)
From RevmV Require Import Base.Word Model.Blob Spec.BlobSpec.
From Coq Require Import ZArith Lia.
Local Open Scope Z_scope.

Definition pow192 : Z := 6277101735386680763835789423207666416102355444464034512896.
Lemma pow192_eq : pow192 = 2 ^ 192. Proof. reflexivity. Qed.

Lemma div_le_self a b : 0 <= a -> 0 < b -> a / b <= a.
Proof.
  intros Ha Hb. apply Z.div_le_upper_bound; [exact Hb|].
  assert (1 * a <= b * a) by (apply Z.mul_le_mono_nonneg_r; lia). lia.
Qed.
Lemma mul_pos_pos a b : 0 < a -> 0 < b -> 0 < a * b.
Proof. intros. apply Z.mul_pos_pos; assumption. Qed.

Lemma di_u256 d i : 0 < d < pow64 -> 0 < i < pow64 -> in_u256 (d * i).
Proof.
  intros Hd Hi. unfold in_u256. split; [apply Z.lt_le_incl, mul_pos_pos; lia|].
  assert (d * i < pow64 * pow64) by (apply Z.mul_lt_mono_nonneg; lia).
  unfold_pows. lia.
Qed.

(* ---------- the EIP loop: lower bound, uniqueness, termination ---------- *)
Lemma spec_loop_lower fuel : forall n d i out acc v,
  0 <= n -> 0 < d -> 0 < i -> 0 <= acc ->
  spec_loop fuel n d i out acc = Some v -> out / d <= v.
Proof.
  induction fuel as [|fuel IH]; intros n d i out acc v Hn Hd Hi Hacc H; cbn [spec_loop] in H.
  - destruct (acc =? 0); [injection H as <-; lia | discriminate].
  - destruct (acc =? 0) eqn:E; [injection H as <-; lia|].
    apply IH in H; try lia.
    + transitivity ((out + acc) / d); [apply Z.div_le_mono; lia | exact H].
    + apply Z.div_pos; nia.
Qed.

Lemma spec_loop_unique f1 : forall f2 n d i out acc v1 v2,
  spec_loop f1 n d i out acc = Some v1 -> spec_loop f2 n d i out acc = Some v2 -> v1 = v2.
Proof.
  induction f1 as [|f1 IH]; destruct f2; cbn [spec_loop]; intros n d i out acc v1 v2 H1 H2;
    destruct (acc =? 0); try congruence.
  eapply IH; eassumption.
Qed.

(* once i exceeds the numerator the accumulator strictly decreases *)
Lemma spec_loop_term_tail m : forall n d i out acc,
  0 <= n < i -> 0 < d -> 0 <= acc <= Z.of_nat m ->
  exists v, spec_loop m n d i out acc = Some v.
Proof.
  induction m as [|m IH]; intros n d i out acc Hn Hd Hacc; cbn [spec_loop].
  - replace acc with 0 by lia. cbn. eauto.
  - destruct (acc =? 0) eqn:E; [eauto|]. apply Z.eqb_neq in E.
    apply IH; try lia. split.
    + apply Z.div_pos; nia.
    + assert (acc * n / (d * i) < acc); [|lia].
      apply Z.div_lt_upper_bound; [nia|].
      assert (acc * n < acc * i) by (apply Z.mul_lt_mono_pos_l; lia).
      assert (acc * i * 1 <= acc * i * d) by (apply Z.mul_le_mono_nonneg_l; nia).
      lia.
Qed.

Lemma spec_loop_term k : forall n d i out acc,
  0 <= n -> 0 < d -> 0 < i -> 0 <= acc -> n < i + Z.of_nat k ->
  exists fuel v, spec_loop fuel n d i out acc = Some v.
Proof.
  induction k as [|k IH]; intros n d i out acc Hn Hd Hi Hacc Hk.
  - destruct (spec_loop_term_tail (Z.to_nat acc) n d i out acc) as [v Hv]; try lia.
    eauto.
  - destruct (acc =? 0) eqn:E.
    + exists O. cbn [spec_loop]. rewrite E. eauto.
    + destruct (IH n d (i + 1) (out + acc) (acc * n / (d * i))) as (fuel & v & Hv); try lia.
      { apply Z.div_pos; nia. }
      exists (S fuel), v. cbn [spec_loop]. rewrite E. exact Hv.
Qed.

Theorem fake_exponential_terminates f n d :
  0 <= f -> 0 <= n -> 0 < d -> exists v, fake_exponential_is f n d v.
Proof.
  intros Hf Hn Hd.
  destruct (spec_loop_term (Z.to_nat n) n d 1 0 (f * d)) as (fuel & v & Hv); try lia.
  exists v, fuel. exact Hv.
Qed.

Theorem fake_exponential_is_unique f n d v1 v2 :
  fake_exponential_is f n d v1 -> fake_exponential_is f n d v2 -> v1 = v2.
Proof. intros [f1 H1] [f2 H2]. eapply spec_loop_unique; eassumption. Qed.

Lemma fake_exponential_is_nonneg f n d v :
  0 <= f -> 0 <= n -> 0 < d -> fake_exponential_is f n d v -> 0 <= v.
Proof.
  intros Hf Hn Hd [fuel H]. apply spec_loop_lower in H; try lia. cbn in H. lia.
Qed.

(* ---------- "a 256-bit overflow implies the result is >= 2^128" ---------- *)
Lemma checked256_some x y : checked256 x = Some y -> y = x /\ 0 <= x < pow256.
Proof.
  unfold checked256. destruct (is_u256 x) eqn:E; [|discriminate].
  apply is_u256_spec in E. intros H; injection H as <-. split; [reflexivity | exact E].
Qed.
Lemma checked256_none x : 0 <= x -> checked256 x = None -> pow256 <= x.
Proof.
  unfold checked256. destruct (is_u256 x) eqn:E; [discriminate|]. intros Hx _.
  destruct (Z_lt_le_dec x pow256) as [L|L]; [|exact L].
  assert (is_u256 x = true) by (apply is_u256_spec; split; assumption). congruence.
Qed.

Lemma overflow_add_ge_pow128 fuel n d i out acc v :
  0 <= n -> 0 < d < pow64 -> 0 < i -> 0 <= acc -> acc <> 0 ->
  pow256 <= out + acc ->
  spec_loop fuel n d i out acc = Some v -> pow128 <= v.
Proof.
  intros Hn Hd Hi Hacc Hnz Hov H. destruct fuel as [|fuel]; cbn [spec_loop] in H;
    (destruct (acc =? 0) eqn:E; [apply Z.eqb_eq in E; contradiction|]); [discriminate|].
  apply spec_loop_lower in H; try lia; [|apply Z.div_pos; nia].
  assert (pow128 <= (out + acc) / d); [|lia].
  apply Z.div_le_lower_bound; [lia|].
  assert (d * pow128 <= pow64 * pow128) by (apply Z.mul_le_mono_nonneg_r; unfold_pows; lia).
  unfold_pows. lia.
Qed.

Lemma overflow_mul_ge_pow128 fuel n d i out acc v :
  0 <= n < pow64 -> 0 < d < pow64 -> 0 < i -> 0 <= out -> 0 <= acc -> acc <> 0 ->
  pow256 <= acc * n ->
  spec_loop fuel n d i out acc = Some v -> pow128 <= v.
Proof.
  intros Hn Hd Hi Hout Hacc Hnz Hov H. destruct fuel as [|fuel]; cbn [spec_loop] in H;
    (destruct (acc =? 0) eqn:E; [apply Z.eqb_eq in E; contradiction|]); [discriminate|].
  apply spec_loop_lower in H; try lia; [|apply Z.div_pos; nia].
  assert (pow192 <= acc).
  { destruct (Z_lt_le_dec acc pow192) as [L|L]; [|exact L]. exfalso.
    assert (acc * n <= (pow192 - 1) * (pow64 - 1))
      by (apply Z.mul_le_mono_nonneg; unfold pow192 in *; unfold_pows; lia).
    unfold pow192 in *. unfold_pows. lia. }
  assert (pow128 <= (out + acc) / d); [|lia].
  apply Z.div_le_lower_bound; [lia|].
  assert (d * pow128 <= pow64 * pow128) by (apply Z.mul_le_mono_nonneg_r; unfold_pows; lia).
  unfold pow192 in *. unfold_pows. lia.
Qed.

Lemma sat_ge v : pow128 <= v -> saturating_to_u128 v = u128_max.
Proof. unfold saturating_to_u128. intros. destruct (v <? pow128) eqn:E; [lia|reflexivity]. Qed.

(* ---------- lock-step: model loop vs EIP loop ---------- *)
Lemma fe_loop_spec fuel : forall n d i out acc fuel' v,
  0 <= n < pow64 -> 0 < d < pow64 -> 0 < i -> i + Z.of_nat fuel < pow64 -> 0 <= out -> 0 <= acc ->
  spec_loop fuel' n d i out acc = Some v ->
  fe_loop fuel n d i out acc = FeFuel \/
  fe_loop fuel n d i out acc = FeVal (saturating_to_u128 v).
Proof.
  induction fuel as [|fuel IH]; intros n d i out acc fuel' v Hn Hd Hi Hif Hout Hacc Hs;
    cbn [fe_loop].
  - destruct (acc =? 0) eqn:E; [|left; reflexivity].
    destruct fuel'; cbn [spec_loop] in Hs; rewrite E in Hs; injection Hs as <-; right; reflexivity.
  - destruct (acc =? 0) eqn:E.
    { destruct fuel'; cbn [spec_loop] in Hs; rewrite E in Hs; injection Hs as <-; right; reflexivity. }
    assert (Hnz : acc <> 0) by (apply Z.eqb_neq; exact E).
    destruct (checked256 (out + acc)) as [o'|] eqn:C1.
    2:{ right. f_equal. symmetry. apply sat_ge.
        apply (overflow_add_ge_pow128 fuel' n d i out acc v); try assumption; try lia.
        apply checked256_none; [lia | exact C1]. }
    destruct (checked256 (acc * n)) as [p|] eqn:C2.
    2:{ right. f_equal. symmetry. apply sat_ge.
        apply (overflow_mul_ge_pow128 fuel' n d i out acc v); try assumption; try lia.
        apply checked256_none; [nia | exact C2]. }
    apply checked256_some in C1, C2. destruct C1 as [-> C1], C2 as [-> C2].
    rewrite (wrap256_id (i + 1)) by (unfold_pows; lia).
    rewrite (wrap256_id (d * i)) by (apply di_u256; unfold_pows; lia).
    destruct fuel' as [|fuel']; cbn [spec_loop] in Hs; rewrite E in Hs; [discriminate|].
    eapply IH; try eassumption; try lia.
    apply Z.div_pos; nia.
Qed.

(* ---------- 2048 iterations always suffice ---------- *)
Lemma fe_loop_more fuel : forall k n d i out acc,
  fe_loop fuel n d i out acc <> FeFuel ->
  fe_loop (fuel + k) n d i out acc = fe_loop fuel n d i out acc.
Proof.
  induction fuel as [|fuel IH]; intros k n d i out acc H.
  - cbn [fe_loop] in H. cbn [Nat.add]. destruct k; cbn [fe_loop]; destruct (acc =? 0); congruence.
  - cbn [Nat.add]. cbn [fe_loop] in *. destruct (acc =? 0); [reflexivity|].
    destruct (checked256 (out + acc)); [|reflexivity].
    destruct (checked256 (acc * n)); [|reflexivity].
    apply IH. exact H.
Qed.

(* numerator >= 600 * denominator: the accumulator at least doubles in each of the first 300
   iterations, so a 256-bit overflow point is reached within 256 iterations *)
Lemma fe_loop_double fuel : forall n d i out acc,
  0 < d < pow64 -> 600 * d <= n -> 0 < i <= 300 ->
  2 ^ (i - 1) <= acc < pow256 ->
  fe_loop fuel n d i out acc = FeFuel -> i + Z.of_nat fuel <= 256.
Proof.
  induction fuel as [|fuel IH]; intros n d i out acc Hd Hn Hi Hacc H.
  - assert (i - 1 < 256); [|lia].
    apply (Z.pow_lt_mono_r_iff 2); try lia. rewrite <- pow256_eq. lia.
  - cbn [fe_loop] in H.
    assert (0 < 2 ^ (i - 1)) by (apply Z.pow_pos_nonneg; lia).
    destruct (acc =? 0) eqn:E; [discriminate|].
    destruct (checked256 (out + acc)) as [o'|] eqn:C1; [|discriminate].
    destruct (checked256 (acc * n)) as [p|] eqn:C2; [|discriminate].
    apply checked256_some in C1, C2. destruct C1 as [-> C1], C2 as [-> C2].
    assert (i - 1 < 256).
    { apply (Z.pow_lt_mono_r_iff 2); try lia. rewrite <- pow256_eq. lia. }
    rewrite (wrap256_id (i + 1)) in H by (unfold_pows; lia).
    rewrite (wrap256_id (d * i)) in H by (apply di_u256; unfold_pows; lia).
    apply IH in H; try lia.
    replace (i + 1 - 1) with (Z.succ (i - 1)) by lia. rewrite Z.pow_succ_r by lia.
    split.
    + transitivity (2 * acc); [lia|]. apply Z.div_le_lower_bound; [nia|].
      assert ((d * i) * (2 * acc) <= (d * 300) * (2 * acc))
        by (apply Z.mul_le_mono_nonneg_r; [lia|apply Z.mul_le_mono_nonneg_l; lia]).
      assert (600 * d * acc <= n * acc) by (apply Z.mul_le_mono_nonneg_r; lia).
      lia.
    + assert (acc * n / (d * i) <= acc * n); [|lia].
      apply div_le_self; [lia | apply mul_pos_pos; lia].
Qed.

(* numerator < 600 * denominator: from iteration 1200 on the accumulator at least halves *)
Lemma fe_loop_halve fuel : forall n d i out acc,
  0 <= n -> 0 < d < pow64 -> n < 600 * d -> 0 < i -> i + Z.of_nat fuel < pow64 ->
  0 <= acc < pow256 ->
  (if i <? 1200 then 1200 - i + 256 <= Z.of_nat fuel else acc < 2 ^ Z.of_nat fuel) ->
  fe_loop fuel n d i out acc <> FeFuel.
Proof.
  induction fuel as [|fuel IH]; intros n d i out acc Hn Hd Hnd Hi Hif Hacc Hm; cbn [fe_loop].
  - destruct (i <? 1200) eqn:L; [apply Z.ltb_lt in L; change (Z.of_nat 0) with 0 in Hm; lia|].
    change (2 ^ Z.of_nat 0) with 1 in Hm. replace acc with 0 by lia. cbn. discriminate.
  - destruct (acc =? 0) eqn:E; [discriminate|]. apply Z.eqb_neq in E.
    destruct (checked256 (out + acc)) as [o'|] eqn:C1; [|discriminate].
    destruct (checked256 (acc * n)) as [p|] eqn:C2; [|discriminate].
    apply checked256_some in C1, C2. destruct C1 as [-> C1], C2 as [-> C2].
    rewrite (wrap256_id (i + 1)) by (unfold_pows; lia).
    rewrite (wrap256_id (d * i)) by (apply di_u256; unfold_pows; lia).
    assert (B : 0 <= acc * n / (d * i) < pow256).
    { split; [apply Z.div_pos; nia|].
      assert (acc * n / (d * i) <= acc * n); [|lia].
      apply div_le_self; [lia | apply mul_pos_pos; lia]. }
    apply IH; try lia.
    rewrite Nat2Z.inj_succ in Hm.
    destruct (i + 1 <? 1200) eqn:L1.
    + apply Z.ltb_lt in L1. destruct (i <? 1200) eqn:L; [|apply Z.ltb_ge in L; lia]. lia.
    + apply Z.ltb_ge in L1. destruct (i <? 1200) eqn:L.
      * apply Z.ltb_lt in L.
        assert (pow256 <= 2 ^ Z.of_nat fuel); [|lia].
        rewrite pow256_eq. apply Z.pow_le_mono_r; lia.
      * apply Z.ltb_ge in L. rewrite Z.pow_succ_r in Hm by lia.
        assert (0 < 2 ^ Z.of_nat fuel) by (apply Z.pow_pos_nonneg; lia).
        set (P := 2 ^ Z.of_nat fuel) in *.
        apply Z.div_lt_upper_bound; [apply mul_pos_pos; lia|].
        assert (acc * n < acc * (600 * d)) by (apply Z.mul_lt_mono_pos_l; lia).
        assert ((600 * d) * acc <= (600 * d) * (2 * P)) by (apply Z.mul_le_mono_nonneg_l; lia).
        assert ((d * 1200) * P <= (d * i) * P)
          by (apply Z.mul_le_mono_nonneg_r; [lia|apply Z.mul_le_mono_nonneg_l; lia]).
        lia.
Qed.

Lemma fe_fuel_split : fe_fuel = (257 + 1791)%nat.
Proof. reflexivity. Qed.

Lemma fe_loop_fuel_suffices n d acc :
  0 <= n < pow64 -> 0 < d < pow64 -> 0 <= acc < pow256 ->
  fe_loop fe_fuel n d 1 0 acc <> FeFuel.
Proof.
  intros Hn Hd Hacc.
  destruct (Z_le_gt_dec (600 * d) n) as [L|L].
  - destruct (Z.eq_dec acc 0) as [->|NZ].
    { unfold fe_fuel. cbn. discriminate. }
    assert (H257 : fe_loop 257 n d 1 0 acc <> FeFuel).
    { intro H. apply fe_loop_double in H; try lia. all: cbn; lia. }
    rewrite fe_fuel_split, fe_loop_more; assumption.
  - apply fe_loop_halve; try lia.
    + unfold fe_fuel. rewrite Z2Nat.id by lia. unfold_pows. lia.
    + unfold fe_fuel. rewrite Z2Nat.id by lia. cbn. lia.
Qed.

(* ---------- main statements ---------- *)
Theorem fake_exponential_correct f n d v :
  in_u64 f -> in_u64 n -> in_u64 d -> 0 < d ->
  fake_exponential_is f n d v ->
  Blob.fake_exponential f n d = FeVal (saturating_to_u128 v).
Proof.
  intros Hf Hn Hd Hd0 [fuel' Hs].
  unfold Blob.fake_exponential, Blob.fake_exponential_fuel.
  destruct (d =? 0) eqn:E; [apply Z.eqb_eq in E; lia|].
  assert (B : 0 <= f * d < pow256).
  { split; [apply Z.mul_nonneg_nonneg; unfold_pows; lia|].
    assert (f * d <= pow64 * pow64) by (apply Z.mul_le_mono_nonneg; unfold_pows; lia).
    unfold_pows. lia. }
  rewrite (wrap256_id (f * d)) by exact B.
  pose proof (fe_loop_fuel_suffices n d (f * d) Hn (conj Hd0 (proj2 Hd)) B) as NF.
  destruct (fe_loop_spec fe_fuel n d 1 0 (f * d) fuel' v) as [H|H]; try assumption; try lia.
  - unfold_pows; lia.
  - unfold fe_fuel. rewrite Z2Nat.id by lia. unfold_pows. lia.
  - contradiction.
Qed.

Corollary fake_exponential_fits f n d v :
  in_u64 f -> in_u64 n -> in_u64 d -> 0 < d ->
  fake_exponential_is f n d v -> v < pow128 ->
  Blob.fake_exponential f n d = FeVal v.
Proof.
  intros. erewrite fake_exponential_correct by eassumption.
  unfold saturating_to_u128. destruct (v <? pow128) eqn:E; [reflexivity|lia].
Qed.

Corollary fake_exponential_saturates f n d v :
  in_u64 f -> in_u64 n -> in_u64 d -> 0 < d ->
  fake_exponential_is f n d v -> pow128 <= v ->
  Blob.fake_exponential f n d = FeVal u128_max.
Proof.
  intros. erewrite fake_exponential_correct by eassumption. f_equal. apply sat_ge. assumption.
Qed.

Theorem fake_exponential_zero_denominator f n : Blob.fake_exponential f n 0 = FePanic.
Proof. reflexivity. Qed.

Theorem calc_blob_gasprice_correct e (is_prague : bool) v :
  in_u64 e -> blob_gasprice_is e is_prague v ->
  Blob.calc_blob_gasprice e is_prague = FeVal (saturating_to_u128 v).
Proof.
  intros He H. unfold Blob.calc_blob_gasprice, blob_gasprice_is, blob_update_fraction in *.
  destruct is_prague; apply fake_exponential_correct; try assumption;
    unfold Blob.MIN_BLOB_GASPRICE, BLOB_BASE_FEE_UPDATE_FRACTION_ELECTRA,
      BLOB_BASE_FEE_UPDATE_FRACTION_CANCUN; unfold_pows; lia.
Qed.

Theorem calc_excess_blob_gas_correct a b t :
  Blob.calc_excess_blob_gas a b t = Z.min (BlobSpec.calc_excess_blob_gas a b t) (pow64 - 1).
Proof.
  unfold Blob.calc_excess_blob_gas, BlobSpec.calc_excess_blob_gas, u64_max.
  destruct (a + b <? t) eqn:E1; [apply Z.ltb_lt in E1 | apply Z.ltb_ge in E1].
  - cbn. lia.
  - destruct (a + b - t <? pow64) eqn:E2; [apply Z.ltb_lt in E2 | apply Z.ltb_ge in E2]; lia.
Qed.

(* ---------- soundness of the cut-off used by the correspondence oracle (Corr/C32.v) ---------- *)
From RevmV Require Corr.C32.
Lemma oracle_loop_sound fuel : forall n d i out acc fuel' v,
  0 <= n -> 0 < d -> 0 < i -> 0 <= acc ->
  spec_loop fuel' n d i out acc = Some v ->
  match C32.oracle_loop fuel n d i out acc with
  | C32.OExact x => x = v
  | C32.OHuge => pow128 <= v
  | C32.OUnknown => True
  end.
Proof.
  induction fuel as [|fuel IH]; intros n d i out acc fuel' v Hn Hd Hi Hacc Hs;
    cbn [C32.oracle_loop].
  - destruct (acc =? 0) eqn:E.
    + destruct fuel'; cbn [spec_loop] in Hs; rewrite E in Hs; congruence.
    + destruct (pow128 <=? out / d) eqn:G; [|exact I].
      apply Z.leb_le in G. apply spec_loop_lower in Hs; lia.
  - destruct (acc =? 0) eqn:E.
    + destruct fuel'; cbn [spec_loop] in Hs; rewrite E in Hs; congruence.
    + destruct (pow128 <=? out / d) eqn:G.
      * apply Z.leb_le in G. apply spec_loop_lower in Hs; lia.
      * destruct fuel' as [|fuel']; cbn [spec_loop] in Hs; rewrite E in Hs; [discriminate|].
        eapply IH; try eassumption; try lia. apply Z.eqb_neq in E. apply Z.div_pos; nia.
Qed.
