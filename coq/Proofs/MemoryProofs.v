From RevmV Require Import Base.Word Model.Memory Spec.MemorySpec.
From Coq Require Import ZifyBool.
Local Open Scope Z_scope.

(* ------------------------------------------------------------------ gas *)
Lemma sat64_small x : 0 <= x < pow64 -> sat64 x = x.
Proof. unfold sat64. intros H. destruct (Z.ltb_spec x 0); [lia|]. destruct (Z.ltb_spec x pow64); lia. Qed.
Lemma sat64_big x : pow64 <= x -> sat64 x = pow64 - 1.
Proof. unfold sat64. intros H. unfold pow64 in *. destruct (Z.ltb_spec x 0); [lia|].
  destruct (Z.ltb_spec x 18446744073709551616); lia. Qed.

Lemma memory_gas_spec w : 0 <= w < pow64 -> memory_gas w = Z.min (mem_spec w) (pow64 - 1).
Proof.
  intros H. unfold memory_gas, mem_spec, MEMORY.
  assert (0 <= w * w / 512) as Q by (apply Z.div_pos; [apply Z.mul_nonneg_nonneg; lia|lia]).
  remember (w * w / 512) as q eqn:Eq.
  assert (w = 0 -> q = 0) as Z0 by (intros ->; subst q; reflexivity). clear Eq.
  destruct (Z.gtb_spec q (pow64 - 1)) as [G|G].
  - destruct (Z_lt_le_dec (3 * w) pow64).
    + rewrite (sat64_small (3 * w)) by lia. rewrite sat64_big by lia. lia.
    + rewrite (sat64_big (3 * w)) by lia. rewrite sat64_big by lia. lia.
  - destruct (Z_lt_le_dec (3 * w) pow64).
    + rewrite (sat64_small (3 * w)) by lia.
      destruct (Z_lt_le_dec (3 * w + q) pow64); [rewrite sat64_small by lia|rewrite sat64_big by lia]; lia.
    + rewrite (sat64_big (3 * w)) by lia.
      destruct (Z.eq_dec q 0) as [->|]; [rewrite sat64_small by lia|rewrite sat64_big by lia]; lia.
Qed.

Lemma mem_spec_small w : 0 <= w < 2 ^ 32 -> mem_spec w < pow64 - 1.
Proof.
  intros H. unfold mem_spec. change (2 ^ 32) with 4294967296 in H. unfold pow64.
  assert (w * w <= 4294967295 * 4294967295) as A by nia.
  pose proof (Z.div_le_mono _ _ 512 ltac:(lia) A) as B.
  set (c := 4294967295 * 4294967295 / 512) in B. vm_compute in c. subst c. lia.
Qed.

Lemma memory_gas_exact w : 0 <= w < 2 ^ 32 -> memory_gas w = mem_spec w.
Proof.
  intros H. rewrite memory_gas_spec.
  - pose proof (mem_spec_small w H). lia.
  - change (2 ^ 32) with 4294967296 in H. unfold pow64. lia.
Qed.

Lemma mem_spec_mono a b : 0 <= a <= b -> mem_spec a <= mem_spec b.
Proof.
  intros H. unfold mem_spec. assert (a * a / 512 <= b * b / 512) by (apply Z.div_le_mono; nia). lia.
Qed.

Lemma num_words_spec len : 0 <= len -> len + 31 < pow64 -> num_words len = words_spec len.
Proof. intros. unfold num_words, words_spec. rewrite sat64_small by lia. reflexivity. Qed.

(* ------------------------------------------------------------------ list plumbing *)
Lemma zlen_nonneg l : 0 <= zlen l. Proof. unfold zlen. lia. Qed.
Lemma zlen_app a b : zlen (a ++ b) = zlen a + zlen b.
Proof. unfold zlen. rewrite app_length. lia. Qed.
Lemma zlen_zfirstn n l : 0 <= n <= zlen l -> zlen (zfirstn n l) = n.
Proof. unfold zlen, zfirstn. intros. rewrite firstn_length. lia. Qed.
Lemma zlen_zskipn n l : 0 <= n <= zlen l -> zlen (zskipn n l) = zlen l - n.
Proof. unfold zlen, zskipn. intros. rewrite skipn_length. lia. Qed.
Lemma zlen_zeros n : 0 <= n -> zlen (zeros n) = n.
Proof. unfold zlen, zeros. intros. rewrite repeat_length. lia. Qed.
Lemma zfirstn_app_l n a b : 0 <= n <= zlen a -> zfirstn n (a ++ b) = zfirstn n a.
Proof.
  unfold zfirstn, zlen. intros. rewrite firstn_app.
  replace (Z.to_nat n - length a)%nat with O by lia. cbn. apply app_nil_r.
Qed.
Lemma zfirstn_zfirstn a b l : 0 <= a <= b -> zfirstn a (zfirstn b l) = zfirstn a l.
Proof. unfold zfirstn. intros. rewrite firstn_firstn. f_equal. lia. Qed.
Lemma zfirstn_all l : zfirstn (zlen l) l = l.
Proof. unfold zfirstn, zlen. rewrite Nat2Z.id. apply firstn_all. Qed.
Lemma zfirstn_skipn n l : zfirstn n l ++ zskipn n l = l.
Proof. apply firstn_skipn. Qed.

(* ------------------------------------------------------------------ invariant *)
Definition inv (m : smem) : Prop :=
  last_cp m = last (cps m) 0 /\ 0 <= last_cp m <= blen m.

Lemma inv_new : inv mem_new.
Proof. unfold inv, mem_new, blen, zlen. cbn. lia. Qed.

(* what a frame's own operations may change: only bytes at or above its checkpoint *)
Definition frame_eq (m m' : smem) : Prop :=
  cps m' = cps m /\ last_cp m' = last_cp m /\
  zfirstn (last_cp m) (buf m') = zfirstn (last_cp m) (buf m).

Lemma frame_eq_refl m : frame_eq m m.
Proof. unfold frame_eq. auto. Qed.
Lemma frame_eq_trans a b c : frame_eq a b -> frame_eq b c -> frame_eq a c.
Proof. unfold frame_eq. intros (A1 & A2 & A3) (B1 & B2 & B3). rewrite A2 in *. repeat split; congruence. Qed.

Lemma write_frame m off v : inv m ->
  inv (fst (write m off v)) /\ frame_eq m (fst (write m off v)) /\
  mlen (fst (write m off v)) = mlen m.
Proof.
  intros (I1 & I2). unfold write.
  destruct ((0 <=? off) && (off + zlen v <? pow64) && (off + zlen v <=? mlen m)) eqn:G;
    [|cbn [fst]; split; [split; assumption|split; [apply frame_eq_refl|reflexivity]]].
  apply andb_true_iff in G. destruct G as [G G3]. apply andb_true_iff in G. destruct G as [G1 G2].
  unfold mlen, blen in *. pose proof (zlen_nonneg v).
  assert (zlen (zfirstn (last_cp m + off) (buf m) ++ v ++ zskipn (last_cp m + off + zlen v) (buf m)) = zlen (buf m)) as L.
  { rewrite !zlen_app, zlen_zfirstn, zlen_zskipn by lia. lia. }
  cbn [fst]. unfold inv, frame_eq, mlen, blen. cbn [buf cps last_cp]. rewrite L.
  repeat split; auto; try lia.
  rewrite zfirstn_app_l by (rewrite zlen_zfirstn; lia). apply zfirstn_zfirstn. lia.
Qed.

Lemma resize_frame m n : inv m -> 0 <= n ->
  inv (resize m n) /\ frame_eq m (resize m n) /\ mlen (resize m n) = n.
Proof.
  intros (I1 & I2) Hn. unfold resize.
  destruct (Z.leb_spec (last_cp m + n) (blen m)) as [G|G];
    unfold inv, frame_eq, mlen, blen in *; cbn [buf cps last_cp].
  - rewrite zlen_zfirstn by lia. repeat split; auto; try lia. apply zfirstn_zfirstn. lia.
  - rewrite zlen_app, zlen_zeros by lia. repeat split; auto; try lia. apply zfirstn_app_l. lia.
Qed.

Lemma step_frame m o : inv m -> o <> MNew -> o <> MFree -> (forall n, o = MResize n -> 0 <= n) ->
  inv (fst (mem_step m o)) /\ frame_eq m (fst (mem_step m o)).
Proof.
  intros I N1 N2 R. destruct o; cbn [mem_step]; try congruence.
  - destruct (resize_frame m n I (R n eq_refl)) as (A & B & _). split; assumption.
  - unfold set. destruct v; [cbn; split; [assumption|apply frame_eq_refl]|].
    destruct (write_frame m off (z :: v) I) as (A & B & _). split; assumption.
  - unfold set_byte, set. destruct (write_frame m off [b] I) as (A & B & _). split; assumption.
  - unfold set_word, set. destruct w; [cbn; split; [assumption|apply frame_eq_refl]|].
    destruct (write_frame m off (z :: w) I) as (A & B & _). split; assumption.
  - unfold set_u256, set. destruct (to_be32 v); [cbn; split; [assumption|apply frame_eq_refl]|].
    destruct (write_frame m off (z :: l) I) as (A & B & _). split; assumption.
  - unfold set_data. destruct (doff >=? zlen data).
    + destruct (write_frame m moff (zeros len) I) as (A & B & _). split; assumption.
    + destruct (write_frame m moff (zfirstn (Z.min (doff + len) (zlen data) - doff) (zskipn doff data)) I) as (A & B & _).
      destruct (write m moff _) as [m1 p1]. cbn [fst] in *. destruct p1; [split; assumption|].
      destruct (write_frame m1 (moff + (Z.min (doff + len) (zlen data) - doff))
                  (zeros (len - (Z.min (doff + len) (zlen data) - doff))) A) as (A' & B' & _).
      split; [assumption|]. eapply frame_eq_trans; eassumption.
  - unfold copy. destruct (slice m src len); [|cbn; split; [assumption|apply frame_eq_refl]].
    destruct ((0 <=? dst) && (dst + len <=? mlen m)); [|cbn; split; [assumption|apply frame_eq_refl]].
    destruct (write_frame m dst l I) as (A & B & _). split; assumption.
  - unfold insert_call_outcome_mem, set. destruct (zfirstn _ ret); [cbn; split; [assumption|apply frame_eq_refl]|].
    destruct (write_frame m out_off (z :: l) I) as (A & B & _). split; assumption.
Qed.

(* a child frame starts empty *)
Lemma new_context_empty m : mlen (new_context m) = 0 /\ ctx (new_context m) = [].
Proof.
  unfold mlen, ctx, new_context, blen. cbn [buf last_cp]. split; [lia|].
  unfold zskipn, zlen. rewrite Nat2Z.id. apply skipn_all.
Qed.

Lemma new_context_inv m : inv m -> inv (new_context m).
Proof. unfold inv, new_context, blen. cbn [buf cps last_cp]. intros _. rewrite last_last. pose proof (zlen_nonneg (buf m)). lia. Qed.

(* a complete child frame (any tree of operations and grand-children) leaves the parent's
   buffer, checkpoints and last checkpoint exactly as they were *)
Lemma run_frame h : forall m, inv m -> hist_ok h -> inv (run m h) /\ frame_eq m (run m h).
Proof.
  induction h as [|o r IH|c IHc r IHr]; intros m I K; cbn [run hist_ok] in *.
  - split; [assumption|apply frame_eq_refl].
  - destruct K as (N1 & N2 & R & K). destruct (step_frame m o I N1 N2 R) as (A & B).
    destruct (IH _ A K) as (A' & B'). split; [assumption|]. eapply frame_eq_trans; eassumption.
  - destruct K as (Kc & Kr).
    destruct (IHc (new_context m) (new_context_inv m I) Kc) as (A & B).
    assert (buf (free_context (run (new_context m) c)) = buf m /\
            cps (free_context (run (new_context m) c)) = cps m /\
            last_cp (free_context (run (new_context m) c)) = last_cp m) as (E1 & E2 & E3).
    { destruct B as (B1 & B2 & B3). cbn [new_context cps last_cp buf] in *.
      unfold free_context. rewrite B1.
      destruct (cps m ++ [blen m]) eqn:E; [destruct (cps m); discriminate|]. rewrite <- E.
      rewrite last_last, removelast_last. cbn [buf cps last_cp].
      rewrite B3. unfold blen. rewrite zfirstn_all. destruct I as (I1 & _). auto. }
    assert (inv (free_context (run (new_context m) c))) as I'.
    { destruct I as (I1 & I2). unfold inv, blen. rewrite E1, E2, E3. auto. }
    destruct (IHr _ I' Kr) as (A' & B'). split; [assumption|].
    destruct B' as (B1 & B2 & B3). unfold frame_eq. rewrite E2, E3, E1 in *. auto.
Qed.

Theorem child_frame_restores_parent m c : inv m -> hist_ok c ->
  let m' := run m (HCall c HNil) in
  buf m' = buf m /\ cps m' = cps m /\ last_cp m' = last_cp m /\ mlen m' = mlen m /\ ctx m' = ctx m.
Proof.
  intros I K. cbn [run].
  destruct (run_frame c (new_context m) (new_context_inv m I) K) as (A & B1 & B2 & B3).
  cbn [new_context cps last_cp buf] in *.
  unfold free_context. rewrite B1.
  destruct (cps m ++ [blen m]) eqn:E; [destruct (cps m); discriminate|]. rewrite <- E.
  rewrite last_last, removelast_last. unfold mlen, ctx. cbn [buf cps last_cp].
  unfold blen. cbn [buf]. unfold blen in B3. rewrite !B3, !zfirstn_all.
  destruct I as (I1 & _). rewrite <- I1. auto.
Qed.

Lemma run_flat_app a : forall m b, run_flat m (a ++ b) = run_flat (run_flat m a) b.
Proof. unfold run_flat. intros. apply fold_left_app. Qed.
Lemma run_flatten h : forall m, run_flat m (flatten h) = run m h.
Proof.
  induction h as [|o r IH|c IHc r IHr]; intros m; cbn [flatten run]; [reflexivity| |].
  - unfold run_flat in *. cbn [fold_left]. apply IH.
  - change (MNew :: flatten c ++ MFree :: flatten r) with ([MNew] ++ flatten c ++ [MFree] ++ flatten r).
    rewrite !run_flat_app. rewrite <- IHr, <- IHc. reflexivity.
Qed.

(* ------------------------------------------------------------------ zero fill *)
(* growing exposes only zero bytes, whatever a deeper, freed context left in the allocation *)
Lemma resize_grow_zero m n : inv m -> mlen m <= n ->
  ctx (resize m n) = ctx m ++ zeros (n - mlen m).
Proof.
  intros (I1 & I2) G. unfold resize, ctx, mlen, blen in *.
  destruct (Z.leb_spec (last_cp m + n) (zlen (buf m))) as [L|L]; cbn [buf last_cp].
  - assert (n = zlen (buf m) - last_cp m) as -> by lia.
    replace (last_cp m + (zlen (buf m) - last_cp m)) with (zlen (buf m)) by lia.
    rewrite zfirstn_all. replace (zlen (buf m) - last_cp m - (zlen (buf m) - last_cp m)) with 0 by lia.
    cbn. rewrite app_nil_r. reflexivity.
  - unfold zskipn. rewrite skipn_app.
    replace (Z.to_nat (last_cp m) - length (buf m))%nat with O by (unfold zlen in *; lia).
    cbn [skipn]. do 2 f_equal. lia.
Qed.

Lemma resize_ignores_stale m s n :
  buf (resize (mkM (buf m) s (cps m) (last_cp m)) n) = buf (resize m n).
Proof. unfold resize, blen. cbn [buf stale cps last_cp]. destruct (_ <=? _); reflexivity. Qed.

(* ------------------------------------------------------------------ resize_memory *)
Lemma resize_memory_ok m gas new_size m' g' :
  inv m -> 0 <= new_size -> mlen m < new_size -> new_size + 31 < pow64 ->
  resize_memory m gas new_size = Some (m', g', true) ->
  mlen m' = words_spec new_size * 32 /\ mlen m' mod 32 = 0 /\ new_size <= mlen m' /\ mlen m < mlen m' /\
  ctx m' = ctx m ++ zeros (mlen m' - mlen m) /\
  gas - g' = memory_gas (words_spec new_size) - memory_gas (num_words (mlen m)).
Proof.
  intros I H0 H1 H2. unfold resize_memory, current_expansion_cost, memory_gas_for_len.
  rewrite (num_words_spec new_size) by lia.
  destruct (_ <? 0); [discriminate|]. destruct (_ <=? gas); [|discriminate].
  intros E. injection E as <- <-.
  assert (new_size <= words_spec new_size * 32) as W.
  { unfold words_spec. pose proof (Z.div_mod (new_size + 31) 32 ltac:(lia)).
    pose proof (Z.mod_pos_bound (new_size + 31) 32 ltac:(lia)). lia. }
  destruct (resize_frame m (words_spec new_size * 32) I ltac:(lia)) as (_ & _ & L).
  rewrite L. repeat split; try lia.
  - apply Z.mod_mul. lia.
  - apply resize_grow_zero; [assumption|lia].
Qed.

(* ------------------------------------------------------------------ the return-data window *)
Lemma my_skipn_skipn (A : Type) (y : nat) : forall (x : nat) (l : list A), skipn x (skipn y l) = skipn (y + x) l.
Proof. induction y as [|y IH]; intros x l; [reflexivity|]. destruct l; [cbn; destruct x; reflexivity|]. cbn. apply IH. Qed.

Lemma write_window m off v : inv m -> snd (write m off v) = false ->
  let m' := fst (write m off v) in
  mlen m' = mlen m /\
  ctx m' = zfirstn off (ctx m) ++ v ++ zskipn (off + zlen v) (ctx m).
Proof.
  intros (I1 & I2). unfold write.
  destruct ((0 <=? off) && (off + zlen v <? pow64) && (off + zlen v <=? mlen m)) eqn:G; [|discriminate].
  intros _. apply andb_true_iff in G. destruct G as [G G3]. apply andb_true_iff in G. destruct G as [G1 G2].
  pose proof (zlen_nonneg v). cbn [fst]. unfold mlen, blen, ctx in *. cbn [buf last_cp].
  split.
  - rewrite !zlen_app, zlen_zfirstn, zlen_zskipn by lia. lia.
  - unfold zskipn, zfirstn, zlen in *. rewrite skipn_app. rewrite firstn_length.
    replace (Z.to_nat (last_cp m) - Nat.min (Z.to_nat (last_cp m + off)) (length (buf m)))%nat with O by lia.
    cbn [skipn]. rewrite firstn_skipn_comm, my_skipn_skipn.
    f_equal; [do 2 f_equal; lia|]. do 2 f_equal. lia.
Qed.

(* insert_call_outcome touches only the window [out_off, out_off + min(out_len, |ret|)): the
   context afterwards is old prefix ++ copied return data ++ old suffix, same length *)
Theorem outcome_window m out_off out_len ret : inv m ->
  snd (insert_call_outcome_mem m out_off out_len ret) = false ->
  let m' := fst (insert_call_outcome_mem m out_off out_len ret) in
  let v := zfirstn (Z.min out_len (zlen ret)) ret in
  mlen m' = mlen m /\ cps m' = cps m /\ last_cp m' = last_cp m /\
  (v = [] \/ ctx m' = zfirstn out_off (ctx m) ++ v ++ zskipn (out_off + zlen v) (ctx m)).
Proof.
  intros I. unfold insert_call_outcome_mem, set.
  destruct (zfirstn (Z.min out_len (zlen ret)) ret) eqn:E.
  - intros _. cbn [fst]. auto.
  - rewrite <- E. intros P. pose proof (write_window m out_off _ I P) as (L & C).
    destruct (write_frame m out_off (zfirstn (Z.min out_len (zlen ret)) ret) I) as (_ & (F1 & F2 & _) & _).
    cbn zeta. auto.
Qed.
