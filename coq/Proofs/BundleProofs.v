(* Proofs for C16-C18 over Model/Bundle.v and Spec/BundleSpec.v. *)
From stdpp Require Import gmap.
From Coq Require Import ZArith Lia.
From RevmV Require Import Model.Bundle Spec.BundleSpec Spec.BundleHist.
Local Open Scope Z_scope.

(* ------------------------------------------------------------------ small facts *)
Lemma map_is_empty_true {A} (m : gmap Z A) : map_is_empty m = true <-> m = ∅.
Proof.
  unfold map_is_empty. rewrite <- map_to_list_empty_iff.
  destruct (map_to_list m); split; intros H; congruence.
Qed.
Lemma map_is_empty_false {A} (m : gmap Z A) : map_is_empty m = false <-> m <> ∅.
Proof.
  rewrite <- map_is_empty_true. destruct (map_is_empty m); split; intros H; congruence.
Qed.

Lemma diag_None_l {A B C} (f : option A -> option B -> option C) x y :
  f None None = None -> diag_None f x y = f x y.
Proof. intros H. destruct x, y; simpl; auto. Qed.

Lemma info_eqb_strip a b : info_eqb a b = true <-> strip a = strip b.
Proof.
  unfold info_eqb, strip. rewrite !andb_true_iff, !Z.eqb_eq.
  split; [intros [[-> ->] ->]; reflexivity | intros H; injection H; auto].
Qed.
Lemma oinfo_eqb_strip a b : oinfo_eqb a b = true <-> strip <$> a = strip <$> b.
Proof.
  destruct a, b; simpl; try (split; congruence).
  rewrite info_eqb_strip. split; congruence.
Qed.

(* ------------------------------------------------------------------ C16: the bundle invariant *)
(* the value the bundle account describes for slot k of address a on top of the pre-state *)
Definition slot_view (b : bacc) (p0 : plain) (a k : Z) : Z :=
  match b_storage b !! k with
  | Some s => s_pres s
  | None => if was_destroyed (b_status b) then 0 else stor_get p0 a k
  end.

(* per-account invariant relating the bundle entry of address a to the pre-state p0 and the
   current state p *)
Definition acct_inv (p0 p : plain) (a : Z) (ob : option bacc) : Prop :=
  match ob with
  | None => acc_get p a = acc_get p0 a /\ forall k, stor_get p a k = stor_get p0 a k
  | Some b =>
      strip <$> b_info b = acc_get p a
      /\ (oinfo_eqb (b_info b) (b_oinfo b) = true -> acc_get p a = acc_get p0 a)
      /\ (forall k, stor_get p a k = slot_view b p0 a k)
      /\ (was_destroyed (b_status b) = false ->
          forall k s, b_storage b !! k = Some s -> s_orig s = s_pres s -> stor_get p0 a k = s_pres s)
  end.
Definition bundle_inv (b : bundle) (p0 p : plain) : Prop :=
  forall a, acct_inv p0 p a (bs_state b !! a).

Lemma bundle_inv_empty p0 : bundle_inv bundle_empty p0 p0.
Proof. intros a. unfold bundle_empty; simpl. rewrite lookup_empty. simpl. auto. Qed.

(* account table *)
Lemma changeset_acc b p0 p known a :
  acct_inv p0 p a (bs_state b !! a) ->
  acc_get (apply_changeset (to_plain_state b known) p0) a = acc_get p a.
Proof.
  intros H. unfold acc_get, apply_changeset, to_plain_state; simpl.
  rewrite lookup_merge, lookup_omap. rewrite diag_None_l by reflexivity.
  destruct (bs_state b !! a) as [ba|]; simpl in *.
  - destruct H as (Hi & Ho & _). unfold cs_account_of.
    destruct known; simpl.
    + destruct (oinfo_eqb (b_info ba) (b_oinfo ba)) eqn:E; simpl.
      * unfold acc_get in Ho. symmetry. apply Ho. reflexivity.
      * unfold acc_get in Hi. rewrite <- Hi. destruct (b_info ba); reflexivity.
    + unfold acc_get in Hi. rewrite <- Hi. destruct (b_info ba); reflexivity.
  - destruct H as (Hi & _). unfold acc_get in Hi. auto.
Qed.

(* storage table *)
Lemma changeset_stor b p0 p known a k :
  acct_inv p0 p a (bs_state b !! a) ->
  stor_get (apply_changeset (to_plain_state b known) p0) a k = stor_get p a k.
Proof.
  intros H. unfold stor_get at 1. unfold apply_changeset, to_plain_state; simpl.
  rewrite lookup_merge, lookup_omap. rewrite diag_None_l by reflexivity.
  destruct (bs_state b !! a) as [ba|]; simpl in *.
  - destruct H as (_ & _ & Hs & Hc). rewrite (Hs k). unfold slot_view.
    unfold cs_storage_of.
    set (wd := was_destroyed (b_status ba)) in *.
    set (sl := omap (cs_slot_of known wd) (b_storage ba)).
    assert (Hsl : forall k', sl !! k' = b_storage ba !! k' ≫= cs_slot_of known wd)
      by (intros; apply lookup_omap).
    (* value read through the written map *)
    assert (Hval : default 0 (merge write_slot (if wd then ∅ else default ∅ (p_stor p0 !! a)) sl !! k)
                   = match b_storage ba !! k with
                     | Some s => s_pres s
                     | None => if wd then 0 else stor_get p0 a k end).
    { rewrite lookup_merge, diag_None_l by reflexivity. rewrite Hsl.
      destruct (b_storage ba !! k) as [s|] eqn:Ek; simpl.
      - unfold cs_slot_of.
        destruct (negb known || wd && negb (s_pres s =? 0) || negb wd && is_changed s) eqn:Ec; simpl.
        + reflexivity.
        + apply orb_false_iff in Ec as [Ec1 Ec3]. apply orb_false_iff in Ec1 as [_ Ec2].
          destruct wd eqn:Ewd; simpl in *.
          * rewrite lookup_empty. simpl.
            apply negb_false_iff, Z.eqb_eq in Ec2. congruence.
          * unfold is_changed in Ec3. apply negb_false_iff, Z.eqb_eq in Ec3.
            specialize (Hc eq_refl k s Ek Ec3). unfold stor_get in Hc.
            destruct (p_stor p0 !! a); simpl in *; [exact Hc|].
            rewrite lookup_empty; simpl. exact Hc.
      - destruct wd; simpl.
        + rewrite lookup_empty. reflexivity.
        + unfold stor_get. destruct (p_stor p0 !! a); simpl; [reflexivity|].
          rewrite lookup_empty. reflexivity. }
    destruct (negb (map_is_empty sl) || wd) eqn:El; simpl.
    + exact Hval.
    + apply orb_false_iff in El as [El1 El2]. apply negb_false_iff, map_is_empty_true in El1.
      rewrite El2 in *. rewrite <- Hval. rewrite El1.
      rewrite lookup_merge, diag_None_l by reflexivity. rewrite lookup_empty. simpl.
      unfold write_slot.
      destruct (p_stor p0 !! a); simpl; [reflexivity|]. rewrite lookup_empty. reflexivity.
  - destruct H as (_ & Hs). rewrite (Hs k). unfold stor_get. reflexivity.
Qed.

Theorem changeset_of_inv b p0 p known :
  bundle_inv b p0 p -> plain_equiv (apply_changeset (to_plain_state b known) p0) p.
Proof.
  intros H. split.
  - intros a. apply changeset_acc, H.
  - intros a k. apply changeset_stor, H.
Qed.

(* ------------------------------------------------------------------ C17: plain reverts are exact *)
Lemma plain_reverts_length rs : length (to_plain_state_reverts rs) = length rs.
Proof. unfold to_plain_state_reverts. apply map_length. Qed.

Lemma plain_reverts_account (g : gmap Z arevert) a :
  pr_accounts (mkPR (omap pr_account_of g) (omap pr_storage_of g)) !! a =
  match g !! a with
  | None => None
  | Some r => match r_acc r with
              | RevertTo i => Some (Some i) | DeleteIt => Some None | DoNothing => None end
  end.
Proof. simpl. rewrite lookup_omap. destruct (g !! a); reflexivity. Qed.

Lemma plain_reverts_storage (g : gmap Z arevert) a :
  pr_storage (mkPR (omap pr_account_of g) (omap pr_storage_of g)) !! a =
  match g !! a with
  | None => None
  | Some r => if r_wipe r || negb (map_is_empty (r_storage r))
              then Some (r_wipe r, r_storage r) else None
  end.
Proof. simpl. rewrite lookup_omap. destruct (g !! a); reflexivity. Qed.

(* revert pops exactly min(j, n) groups *)
Lemma revert_latest_length b b' :
  revert_latest b = Some b' -> S (length (bs_reverts b')) = length (bs_reverts b).
Proof.
  unfold revert_latest. destruct (rev (bs_reverts b)) as [|g rest] eqn:E; [discriminate|].
  intros [= <-]. simpl. rewrite rev_length.
  assert (length (rev (bs_reverts b)) = S (length rest)) by (rewrite E; reflexivity).
  rewrite rev_length in H. lia.
Qed.
Lemma revert_latest_none b : revert_latest b = None <-> bs_reverts b = [].
Proof.
  unfold revert_latest. destruct (rev (bs_reverts b)) eqn:E.
  - split; [intros _|reflexivity]. apply (f_equal (@rev _)) in E. rewrite rev_involutive in E. exact E.
  - split; [discriminate|]. intros H. rewrite H in E. discriminate.
Qed.
Lemma revert_length b j :
  length (bs_reverts (revert b j)) = (length (bs_reverts b) - j)%nat.
Proof.
  revert b. induction j as [|j IH]; intros b; simpl; [lia|].
  destruct (revert_latest b) as [b'|] eqn:E.
  - rewrite IH. apply revert_latest_length in E. lia.
  - apply revert_latest_none in E. rewrite E. reflexivity.
Qed.

(* ------------------------------------------------------------------ C18: take_n_reverts, prepend_state *)
Lemma take_n_reverts_spec b n :
  let '(det, b') := take_n_reverts b n in
  det = firstn n (bs_reverts b) /\ bs_reverts b' = skipn n (bs_reverts b)
  /\ det ++ bs_reverts b' = bs_reverts b
  /\ bs_state b' = bs_state b /\ bs_contracts b' = bs_contracts b.
Proof.
  unfold take_n_reverts, take_all_reverts.
  destruct (Nat.ltb (length (bs_reverts b)) n) eqn:E; simpl.
  - apply Nat.ltb_lt in E.
    rewrite firstn_all2 by lia. rewrite skipn_all2 by lia. rewrite app_nil_r. auto.
  - rewrite firstn_skipn. auto.
Qed.

(* prepend_state: every account of the newer bundle [this] keeps its info; if its status says
   destroyed its storage is kept as a whole, otherwise every one of its slots keeps its present
   value; accounts only the older bundle knows are taken over unchanged *)
Lemma prepend_state_newer this other a n :
  bs_state this !! a = Some n ->
  exists r, bs_state (prepend_state this other) !! a = Some r
    /\ b_info r = b_info n
    /\ (was_destroyed (b_status n) = true -> b_storage r = b_storage n)
    /\ (forall k s, b_storage n !! k = Some s ->
        exists s', b_storage r !! k = Some s' /\ s_pres s' = s_pres s).
Proof.
  intros Hn. unfold prepend_state, extend_state; cbn [bs_state].
  rewrite lookup_merge, Hn. unfold extend_state_acct; cbn [diag_None].
  destruct (bs_state other !! a) as [o|]; simpl.
  - eexists. split; [reflexivity|]. simpl. split; [reflexivity|]. split.
    + intros ->. reflexivity.
    + intros k s Hk. destruct (was_destroyed (b_status n)); cbn [b_storage].
      * eauto.
      * unfold extend_storage. destruct (b_storage o !! k) as [so|] eqn:Eo.
        -- exists (mkSlot (s_orig so) (s_pres s)). split; [|reflexivity].
           rewrite lookup_merge, Eo, Hk. reflexivity.
        -- exists s. split; [|reflexivity]. rewrite lookup_merge, Eo, Hk. reflexivity.
  - eexists. split; [reflexivity|]. repeat split; eauto.
Qed.
Lemma prepend_state_older_only this other a :
  bs_state this !! a = None ->
  bs_state (prepend_state this other) !! a = bs_state other !! a.
Proof.
  intros Hn. unfold prepend_state, extend_state; cbn [bs_state].
  rewrite lookup_merge, Hn. destruct (bs_state other !! a); reflexivity.
Qed.
Lemma prepend_state_contracts this other h c :
  bs_contracts this !! h = Some c -> bs_contracts (prepend_state this other) !! h = Some c.
Proof. intros H. unfold prepend_state; cbn [bs_contracts]. apply lookup_union_Some_l. exact H. Qed.
