(* Proofs for C14: Model/GasCalc.v (mirror of gas/calc.rs) against Spec/GasSpec.v (EIP formulas
   on unbounded integers), for all arguments and all SpecIds. *)
From RevmV Require Import Base.Word.
From RevmV Require Gen.GasConst.
From RevmV Require Import Gen.Specs Model.GasCalc.
From RevmV Require Spec.GasSpec.
From Coq Require Import ZArith Lia List Bool.
Import ListNotations.
Local Open Scope Z_scope.
Module S := GasSpec.

(* ================= finite tables ================= *)
Lemma enabled_is_since : forall a b, Specs.is_enabled_in a b = S.since a b.
Proof. intros a b; destruct a; destruct b; reflexivity. Qed.
Lemma enabled_is_disc : forall a b, Specs.is_enabled_in a b = (Specs.spec_disc b <=? Specs.spec_disc a).
Proof. intros a b; destruct a; destruct b; reflexivity. Qed.
Lemma enabled_eq s f : enabled s f = S.since s f.
Proof. apply enabled_is_since. Qed.
Lemma all_specs_complete : forall s, In s Specs.all_specs.
Proof. intros s; destruct s; cbn; tauto. Qed.
Lemma enabled_table_forallb :
  forallb (fun a => forallb (fun b => Bool.eqb (Specs.is_enabled_in a b) (S.since a b)) Specs.all_specs)
          Specs.all_specs = true.
Proof. vm_compute. reflexivity. Qed.

(* constants pinned to the values the Yellow Paper / EIPs give *)
Lemma zero_const : GasConst.ZERO = 0. Proof. reflexivity. Qed.
Lemma base_const : GasConst.BASE = 2. Proof. reflexivity. Qed.
Lemma verylow_const : GasConst.VERYLOW = 3. Proof. reflexivity. Qed.
Lemma low_const : GasConst.LOW = 5. Proof. reflexivity. Qed.
Lemma mid_const : GasConst.MID = 8. Proof. reflexivity. Qed.
Lemma high_const : GasConst.HIGH = 10. Proof. reflexivity. Qed.
Lemma jumpdest_const : GasConst.JUMPDEST = 1. Proof. reflexivity. Qed.
Lemma selfdestruct_refund_const : GasConst.SELFDESTRUCT = 24000. Proof. reflexivity. Qed.
Lemma create_const : GasConst.CREATE = 32000. Proof. reflexivity. Qed.
Lemma callvalue_const : GasConst.CALLVALUE = 9000. Proof. reflexivity. Qed.
Lemma newaccount_const : GasConst.NEWACCOUNT = 25000. Proof. reflexivity. Qed.
Lemma exp_const : GasConst.EXP = 10. Proof. reflexivity. Qed.
Lemma memory_const : GasConst.MEMORY = 3. Proof. reflexivity. Qed.
Lemma log_const : GasConst.LOG = 375. Proof. reflexivity. Qed.
Lemma logdata_const : GasConst.LOGDATA = 8. Proof. reflexivity. Qed.
Lemma logtopic_const : GasConst.LOGTOPIC = 375. Proof. reflexivity. Qed.
Lemma keccak256_const : GasConst.KECCAK256 = 30. Proof. reflexivity. Qed.
Lemma keccak256word_const : GasConst.KECCAK256WORD = 6. Proof. reflexivity. Qed.
Lemma copy_const : GasConst.COPY = 3. Proof. reflexivity. Qed.
Lemma blockhash_const : GasConst.BLOCKHASH = 20. Proof. reflexivity. Qed.
Lemma codedeposit_const : GasConst.CODEDEPOSIT = 200. Proof. reflexivity. Qed.
Lemma istanbul_sload_const : GasConst.INSTANBUL_SLOAD_GAS = 800. Proof. reflexivity. Qed.
Lemma sstore_set_const : GasConst.SSTORE_SET = 20000. Proof. reflexivity. Qed.
Lemma sstore_reset_const : GasConst.SSTORE_RESET = 5000. Proof. reflexivity. Qed.
Lemma refund_sstore_clears_const : GasConst.REFUND_SSTORE_CLEARS = 15000. Proof. reflexivity. Qed.
Lemma standard_token_cost_const : GasConst.STANDARD_TOKEN_COST = 4. Proof. reflexivity. Qed.
Lemma non_zero_byte_data_cost_const : GasConst.NON_ZERO_BYTE_DATA_COST = 68. Proof. reflexivity. Qed.
Lemma non_zero_byte_multiplier_const : GasConst.NON_ZERO_BYTE_MULTIPLIER = 17. Proof. reflexivity. Qed.
Lemma non_zero_byte_data_cost_istanbul_const : GasConst.NON_ZERO_BYTE_DATA_COST_ISTANBUL = 16. Proof. reflexivity. Qed.
Lemma non_zero_byte_multiplier_istanbul_const : GasConst.NON_ZERO_BYTE_MULTIPLIER_ISTANBUL = 4. Proof. reflexivity. Qed.
Lemma total_cost_floor_per_token_const : GasConst.TOTAL_COST_FLOOR_PER_TOKEN = 10. Proof. reflexivity. Qed.
Lemma eof_create_const : GasConst.EOF_CREATE_GAS = 32000. Proof. reflexivity. Qed.
Lemma access_list_address_const : GasConst.ACCESS_LIST_ADDRESS = 2400. Proof. reflexivity. Qed.
Lemma access_list_storage_key_const : GasConst.ACCESS_LIST_STORAGE_KEY = 1900. Proof. reflexivity. Qed.
Lemma cold_sload_const : GasConst.COLD_SLOAD_COST = 2100. Proof. reflexivity. Qed.
Lemma cold_account_access_const : GasConst.COLD_ACCOUNT_ACCESS_COST = 2600. Proof. reflexivity. Qed.
Lemma warm_storage_read_const : GasConst.WARM_STORAGE_READ_COST = 100. Proof. reflexivity. Qed.
Lemma warm_sstore_reset_const : GasConst.WARM_SSTORE_RESET = 2900. Proof. reflexivity. Qed.
Lemma initcode_word_cost_const : GasConst.INITCODE_WORD_COST = 2. Proof. reflexivity. Qed.
Lemma call_stipend_const : GasConst.CALL_STIPEND = 2300. Proof. reflexivity. Qed.
Lemma min_callee_gas_const : GasConst.MIN_CALLEE_GAS = 2300. Proof. reflexivity. Qed.
Lemma max_code_size_const : GasConst.MAX_CODE_SIZE = 24576. Proof. reflexivity. Qed.
Lemma max_initcode_size_const : GasConst.MAX_INITCODE_SIZE = 49152. Proof. reflexivity. Qed.
Lemma per_auth_base_cost_const : GasConst.PER_AUTH_BASE_COST = 12500. Proof. reflexivity. Qed.
Lemma per_empty_account_cost_const : GasConst.PER_EMPTY_ACCOUNT_COST = 25000. Proof. reflexivity. Qed.

Ltac unfold_consts :=
  unfold G.ZERO, G.BASE, G.VERYLOW, G.LOW, G.MID, G.HIGH, G.CREATE, G.CALLVALUE, G.NEWACCOUNT, G.EXP,
    G.MEMORY, G.LOG, G.LOGDATA, G.LOGTOPIC, G.KECCAK256, G.KECCAK256WORD, G.COPY,
    G.INSTANBUL_SLOAD_GAS, G.SSTORE_SET, G.SSTORE_RESET, G.REFUND_SSTORE_CLEARS, G.STANDARD_TOKEN_COST,
    G.NON_ZERO_BYTE_MULTIPLIER, G.NON_ZERO_BYTE_MULTIPLIER_ISTANBUL, G.TOTAL_COST_FLOOR_PER_TOKEN,
    G.ACCESS_LIST_ADDRESS, G.ACCESS_LIST_STORAGE_KEY, G.COLD_SLOAD_COST, G.COLD_ACCOUNT_ACCESS_COST,
    G.WARM_STORAGE_READ_COST, G.WARM_SSTORE_RESET, G.INITCODE_WORD_COST, G.CALL_STIPEND,
    G.PER_EMPTY_ACCOUNT_COST in *.

(* ================= option / checked helpers ================= *)
Lemma checked64_some x v : checked64 x = Some v <-> in_u64 x /\ v = x.
Proof.
  unfold checked64. destruct (is_u64 x) eqn:E.
  - apply is_u64_spec in E. split; [intros H; injection H as <-; auto | intros [_ ->]; reflexivity].
  - split; [discriminate|]. intros [H _]. apply is_u64_spec in H. congruence.
Qed.
Lemma checked64_in x : in_u64 x -> checked64 x = Some x.
Proof. intros. apply checked64_some. auto. Qed.
Lemma checked64_none x : checked64 x = None <-> ~ in_u64 x.
Proof.
  unfold checked64. destruct (is_u64 x) eqn:E.
  - apply is_u64_spec in E. split; [discriminate | tauto].
  - split; [|reflexivity]. intros _ H. apply is_u64_spec in H. congruence.
Qed.

(* ================= words ================= *)
Lemma num_words_exact len : in_u64 len -> len <= pow64 - 32 -> num_words len = S.words len.
Proof.
  intros H L. unfold num_words, S.words, sat64.
  destruct (len + 31 <? 0) eqn:A; [apply Z.ltb_lt in A; unfold_pows; lia|].
  destruct (len + 31 <? pow64) eqn:B; [reflexivity|]. apply Z.ltb_ge in B. unfold_pows; lia.
Qed.
Lemma num_words_top31 len : pow64 - 32 < len < pow64 ->
  num_words len = 576460752303423487 /\ S.words len = 576460752303423488.
Proof.
  intros H. unfold num_words, S.words, sat64.
  destruct (len + 31 <? 0) eqn:A; [apply Z.ltb_lt in A; unfold_pows; lia|].
  destruct (len + 31 <? pow64) eqn:B; [apply Z.ltb_lt in B; unfold_pows; lia|].
  split; [reflexivity|].
  unfold_pows. symmetry. apply Z.div_unique with (r := len + 31 - 18446744073709551616); lia.
Qed.
Lemma words_bounds n : 0 <= n -> 0 <= S.words n <= n.
Proof.
  intros H. unfold S.words. split; [apply Z.div_pos; lia|].
  destruct (Z.eq_dec n 0) as [->|]; [reflexivity|].
  apply Z.div_le_upper_bound; lia.
Qed.
Lemma words_u64 len : in_u64 len -> len <= pow64 - 32 -> 0 <= S.words len <= 576460752303423487.
Proof.
  intros H L. unfold S.words, in_u64 in *. split; [apply Z.div_pos; lia|].
  change 576460752303423487 with ((pow64 - 1) / 32). apply Z.div_le_mono; lia.
Qed.
Lemma num_words_range len : in_u64 len -> 0 <= num_words len < pow64.
Proof.
  intros H. unfold num_words. pose proof (sat64_range (len + 31)) as R. unfold in_u64 in R.
  split; [apply Z.div_pos; lia|]. apply Z.div_lt_upper_bound; lia.
Qed.

(* shape shared by verylowcopy / extcodecopy / keccak256 / create2:  c + m * words, two checked steps *)
Lemma per_word_iff c m len v :
  0 <= c -> 0 <= m -> in_u64 len -> len <= pow64 - 32 ->
  (obind (cost_per_word len m) (fun w => checked_add64 c w) = Some v
   <-> c + m * S.words len < pow64 /\ v = c + m * S.words len).
Proof.
  intros Hc Hm Hl Ht. unfold cost_per_word, checked_add64. rewrite num_words_exact by assumption.
  pose proof (words_bounds len (proj1 Hl)) as [W0 _].
  assert (0 <= m * S.words len) by (apply Z.mul_nonneg_nonneg; lia).
  destruct (checked64 (m * S.words len)) as [x|] eqn:E; cbn [obind].
  - apply checked64_some in E. destruct E as [E ->]. rewrite checked64_some. unfold in_u64 in *.
    split; [intros [? ->]; split; [lia|reflexivity] | intros [? ->]; split; [lia|reflexivity]].
  - apply checked64_none in E. unfold in_u64 in E. split; [discriminate|]. intros [? _]. lia.
Qed.

Theorem cost_per_word_iff len m v :
  in_u64 len -> len <= pow64 - 32 -> 0 <= m ->
  (cost_per_word len m = Some v <-> S.cost_per_word len m < pow64 /\ v = S.cost_per_word len m).
Proof.
  intros Hl Ht Hm. unfold cost_per_word, S.cost_per_word. rewrite num_words_exact by assumption.
  pose proof (words_bounds len (proj1 Hl)) as [W0 _].
  assert (0 <= m * S.words len) by (apply Z.mul_nonneg_nonneg; lia).
  rewrite checked64_some. unfold in_u64. split; intros [? ->]; split; (lia || reflexivity).
Qed.

Theorem verylowcopy_cost_iff len v :
  in_u64 len -> len <= pow64 - 32 ->
  (verylowcopy_cost len = Some v <-> S.copy_cost len < pow64 /\ v = S.copy_cost len).
Proof. intros. unfold verylowcopy_cost, S.copy_cost. apply per_word_iff; (assumption || (cbn; lia)). Qed.

Theorem keccak256_cost_iff len v :
  in_u64 len -> len <= pow64 - 32 ->
  (keccak256_cost len = Some v <-> S.keccak256_cost len < pow64 /\ v = S.keccak256_cost len).
Proof. intros. unfold keccak256_cost, S.keccak256_cost. apply per_word_iff; (assumption || (cbn; lia)). Qed.

Theorem create2_cost_iff len v :
  in_u64 len -> len <= pow64 - 32 ->
  (create2_cost len = Some v <-> S.create2_cost len < pow64 /\ v = S.create2_cost len).
Proof. intros. unfold create2_cost, S.create2_cost. apply per_word_iff; (assumption || (cbn; lia)). Qed.

Theorem extcodecopy_cost_iff s len cold v :
  in_u64 len -> len <= pow64 - 32 ->
  (extcodecopy_cost s len cold = Some v
   <-> S.extcodecopy_cost s len cold < pow64 /\ v = S.extcodecopy_cost s len cold).
Proof.
  intros. unfold extcodecopy_cost, S.extcodecopy_cost, warm_cold_cost, S.account_access_cost.
  rewrite !enabled_eq.
  destruct (S.since s BERLIN); [destruct cold|destruct (S.since s TANGERINE)];
    apply per_word_iff; (assumption || (cbn; lia)).
Qed.

(* initcode_cost never panics and is exact *)
Theorem initcode_cost_exact len :
  in_u64 len -> len <= pow64 - 32 -> initcode_cost len = Some (S.initcode_cost len).
Proof.
  intros Hl Ht. unfold initcode_cost, S.initcode_cost.
  assert (M : 0 <= G.INITCODE_WORD_COST) by (unfold G.INITCODE_WORD_COST; lia).
  apply (proj2 (cost_per_word_iff len _ _ Hl Ht M)). unfold S.cost_per_word.
  pose proof (words_u64 len Hl Ht). change G.INITCODE_WORD_COST with 2.
  split; [unfold_pows; lia | reflexivity].
Qed.
Theorem initcode_cost_never_panics len : in_u64 len -> exists v, initcode_cost len = Some v.
Proof.
  intros Hl. unfold initcode_cost, cost_per_word. change G.INITCODE_WORD_COST with 2.
  exists (2 * num_words len). apply checked64_in.
  unfold num_words. pose proof (sat64_range (len + 31)) as R. unfold in_u64 in *.
  assert (0 <= sat64 (len + 31) / 32) by (apply Z.div_pos; lia).
  assert (sat64 (len + 31) / 32 <= (pow64 - 1) / 32) by (apply Z.div_le_mono; lia).
  change ((pow64 - 1) / 32) with 576460752303423487 in *. unfold_pows. lia.
Qed.

(* LOG: no word rounding, exact for every u64 length and every topic count of a u8 *)
Theorem log_cost_iff n len v :
  0 <= n < 256 -> in_u64 len ->
  (log_cost n len = Some v <-> S.log_cost n len < pow64 /\ v = S.log_cost n len).
Proof.
  intros Hn Hl. unfold log_cost, S.log_cost, checked_add64.
  change G.LOGDATA with 8. change G.LOG with 375. change G.LOGTOPIC with 375.
  unfold in_u64 in Hl.
  destruct (checked64 (8 * len)) as [x|] eqn:E; cbn [obind].
  2:{ apply checked64_none in E. unfold in_u64 in E. split; [discriminate|]. intros [? _]. lia. }
  apply checked64_some in E. destruct E as [E ->]. unfold in_u64 in E.
  destruct (checked64 (375 + 8 * len)) as [y|] eqn:E2; cbn [obind].
  2:{ apply checked64_none in E2. unfold in_u64 in E2. split; [discriminate|]. intros [? _]. lia. }
  apply checked64_some in E2. destruct E2 as [E2 ->]. unfold in_u64 in E2.
  rewrite checked64_some. unfold in_u64.
  split; intros [? ->]; split; (lia || reflexivity).
Qed.

(* the known deviation: for the 31 lengths above 2^64-32 the saturating num_words is one word short *)
Theorem cost_per_word_top31 len m :
  pow64 - 32 < len < pow64 -> 0 <= m ->
  cost_per_word len m = checked64 (m * 576460752303423487) /\
  S.cost_per_word len m = m * 576460752303423488.
Proof.
  intros H Hm. destruct (num_words_top31 len H) as [A B].
  unfold cost_per_word, S.cost_per_word. rewrite A, B. auto.
Qed.
Theorem per_word_top31_refuted :
  exists len, in_u64 len /\ S.keccak256_cost len < pow64 /\
              keccak256_cost len <> Some (S.keccak256_cost len) /\
              verylowcopy_cost len <> Some (S.copy_cost len) /\
              num_words len <> S.words len.
Proof. exists (pow64 - 1). vm_compute. repeat split; congruence. Qed.

(* ================= memory ================= *)
Theorem memory_gas_exact w : in_u64 w -> memory_gas w = Z.min (S.memory_cost w) (pow64 - 1).
Proof.
  intros Hw. unfold memory_gas, S.memory_cost. change G.MEMORY with 3.
  assert (Q : 0 <= w * w / 512) by (apply Z.div_pos; [apply Z.mul_nonneg_nonneg; unfold_pows; lia|lia]).
  generalize dependent (w * w / 512). intros q Q.
  assert (SAT : forall x, 0 <= x -> sat64 x = Z.min x (pow64 - 1)).
  { intros x Hx. unfold sat64. destruct (x <? 0) eqn:A; [apply Z.ltb_lt in A; lia|].
    destruct (x <? pow64) eqn:B; [apply Z.ltb_lt in B | apply Z.ltb_ge in B]; lia. }
  unfold in_u64 in Hw.
  rewrite (SAT (3 * w)) by lia.
  destruct (q >? pow64 - 1) eqn:A; [apply Z.gtb_lt in A | rewrite Z.gtb_ltb in A; apply Z.ltb_ge in A];
    rewrite SAT by lia; lia.
Qed.
Corollary memory_gas_fits w :
  in_u64 w -> S.memory_cost w < pow64 -> memory_gas w = S.memory_cost w.
Proof. intros. rewrite memory_gas_exact by assumption. lia. Qed.
(* the charge of resize_memory = difference of the quadratic formula *)
Corollary memory_expansion_charge w1 w2 :
  in_u64 w1 -> in_u64 w2 -> S.memory_cost w1 < pow64 -> S.memory_cost w2 < pow64 ->
  memory_gas w2 - memory_gas w1 = S.memory_cost w2 - S.memory_cost w1.
Proof. intros. rewrite !memory_gas_fits by assumption. reflexivity. Qed.
Theorem memory_gas_for_len_exact len :
  in_u64 len -> len <= pow64 - 32 ->
  memory_gas_for_len len = Z.min (S.memory_cost (S.words len)) (pow64 - 1).
Proof.
  intros Hl Ht. unfold memory_gas_for_len. rewrite num_words_exact by assumption.
  apply memory_gas_exact. pose proof (words_bounds len (proj1 Hl)). unfold in_u64 in *. lia.
Qed.

(* ================= SLOAD / SELFDESTRUCT / CALL / warm-cold: all forks, all flags ================= *)
Theorem sload_cost_eq s cold : sload_cost s cold = S.sload_cost s cold.
Proof. destruct s, cold; reflexivity. Qed.
Theorem selfdestruct_cost_eq s hv te cold :
  selfdestruct_cost s hv te cold = S.selfdestruct_cost s hv te cold.
Proof. destruct s, hv, te, cold; reflexivity. Qed.
Theorem call_cost_eq s tv cold dg ie : call_cost s tv cold dg ie = S.call_cost s tv cold dg ie.
Proof. destruct s, tv, cold, dg as [[]|], ie; reflexivity. Qed.
Theorem warm_cold_cost_eq cold : warm_cold_cost cold = S.account_access_cost cold.
Proof. destruct cold; reflexivity. Qed.
Theorem warm_cold_cost_with_delegation_eq s cold dg :
  S.since s BERLIN = true ->
  warm_cold_cost_with_delegation cold dg = S.call_access_cost s cold dg.
Proof. intros H. unfold S.call_access_cost. rewrite H. destruct cold, dg as [[]|]; reflexivity. Qed.

(* ================= SSTORE: every original/present/new relation, every fork ================= *)
Ltac eval_forks :=
  repeat match goal with
  | |- context [enabled ?a ?b] =>
      let v := eval vm_compute in (enabled a b) in change (enabled a b) with v
  | |- context [S.since ?a ?b] =>
      let v := eval vm_compute in (S.since a b) in change (S.since a b) with v
  end.
Ltac eqb_cases :=
  repeat match goal with
  | |- context [Z.eqb ?x ?y] =>
      let E := fresh "E" in
      destruct (Z.eqb x y) eqn:E; [apply Z.eqb_eq in E | apply Z.eqb_neq in E];
      try (exfalso; lia)
  end.

Theorem sstore_cost_eq s o p n g cold :
  sstore_cost s (mkSStore o p n) g cold = S.sstore_cost s o p n g cold.
Proof.
  unfold sstore_cost, S.sstore_cost, S.sstore_gas_refund, istanbul_sstore_cost, frontier_sstore_cost,
    S.net_metered, S.legacy_sstore, is_new_eq_present, is_original_eq_present, is_original_zero,
    is_present_zero, is_new_zero.
  cbn [original_value present_value new_value].
  change G.CALL_STIPEND with 2300.
  destruct s; eval_forks; cbv beta iota; cbn [andb];
    (destruct (g <=? 2300); [reflexivity|]);
    try (f_equal; destruct cold; eqb_cases; reflexivity).
  all: f_equal; destruct cold; eqb_cases; reflexivity.
Qed.

Theorem sstore_refund_eq s o p n :
  sstore_refund s (mkSStore o p n) = S.sstore_refund s o p n.
Proof.
  unfold sstore_refund, S.sstore_refund, S.sstore_gas_refund, S.net_metered, S.legacy_sstore, sload_cost,
    is_new_eq_present, is_original_eq_present, is_original_eq_new, is_original_zero,
    is_present_zero, is_new_zero.
  cbn [original_value present_value new_value].
  destruct s; eval_forks; cbv beta iota; eqb_cases; reflexivity.
Qed.

(* ================= EXP ================= *)
Lemma checked256_in x : in_u256 x -> checked256 x = Some x.
Proof. unfold checked256. intros H. apply is_u256_spec in H. rewrite H. reflexivity. Qed.

Lemma log2floor_loop_eq k : forall v,
  0 <= v < 2 ^ (64 * Z.of_nat k) -> log2floor_loop k v (64 * Z.of_nat k) = Z.log2 v.
Proof.
  induction k as [|k IH]; intros v Hv.
  - cbn in Hv. assert (v = 0) by lia. subst. reflexivity.
  - cbn [log2floor_loop]. rewrite Nat2Z.inj_succ in *.
    set (i := Z.of_nat k) in *. assert (Hi : 0 <= i) by (unfold i; lia).
    assert (P : 0 < 2 ^ (64 * i)) by (apply Z.pow_pos_nonneg; lia).
    assert (Hx : 0 <= v / 2 ^ (64 * i) < pow64).
    { split; [apply Z.div_pos; lia|]. apply Z.div_lt_upper_bound; [lia|].
      rewrite pow64_eq, <- Z.pow_add_r by lia. replace (64 * i + 64) with (64 * Z.succ i) by lia. lia. }
    unfold limb. rewrite (Z.mod_small _ _ Hx).
    destruct (v / 2 ^ (64 * i) =? 0) eqn:E.
    + apply Z.eqb_eq in E. apply Z.div_small_iff in E; [|lia].
      replace (64 * Z.succ i - 64) with (64 * i) by lia. apply IH. lia.
    + apply Z.eqb_neq in E.
      assert (L : 2 ^ (64 * i) <= v).
      { destruct (Z_lt_le_dec v (2 ^ (64 * i))) as [C|C]; [|exact C].
        exfalso. apply E. apply Z.div_small. lia. }
      assert (V : 0 < v) by lia.
      assert (LG : Z.log2 (v / 2 ^ (64 * i)) = Z.log2 v - 64 * i).
      { rewrite <- Z.shiftr_div_pow2 by lia. rewrite Z.log2_shiftr by lia.
        assert (64 * i <= Z.log2 v) by (apply Z.log2_le_pow2; lia). lia. }
      unfold leading_zeros64. rewrite LG.
      pose proof (Z.log2_nonneg v).
      destruct (64 * Z.succ i - (63 - (Z.log2 v - 64 * i)) =? 0) eqn:F;
        [apply Z.eqb_eq in F | apply Z.eqb_neq in F]; lia.
Qed.
Lemma log2floor_eq v : 0 <= v < pow256 -> log2floor v = Z.log2 v.
Proof. intros H. unfold log2floor. apply (log2floor_loop_eq 4). rewrite pow256_eq in H. exact H. Qed.

Theorem exp_cost_eq s p : 0 <= p < pow256 -> exp_cost s p = Some (S.exp_cost s p).
Proof.
  intros Hp. unfold exp_cost, S.exp_cost, S.byte_len. rewrite enabled_eq. change G.EXP with 10.
  destruct (p =? 0) eqn:E; [destruct (S.since s SPURIOUS_DRAGON); reflexivity|].
  apply Z.eqb_neq in E. rewrite log2floor_eq by exact Hp.
  assert (B : 0 <= Z.log2 p < 256).
  { split; [apply Z.log2_nonneg|]. apply Z.log2_lt_pow2; [lia|]. rewrite <- pow256_eq. lia. }
  assert (B8 : 0 <= Z.log2 p / 8 <= 31).
  { split; [apply Z.div_pos; lia|]. apply Z.lt_succ_r. apply Z.div_lt_upper_bound; lia. }
  set (b := Z.log2 p / 8) in *.
  destruct (S.since s SPURIOUS_DRAGON);
    (rewrite checked256_in by (unfold_pows; lia)); cbn [obind];
    (rewrite checked256_in by (unfold_pows; lia)); cbn [obind];
    (rewrite checked64_in by (unfold_pows; lia)); reflexivity.
Qed.
Theorem exp_cost_fits s p : 0 <= p < pow256 -> 0 <= S.exp_cost s p <= 1610.
Proof.
  intros Hp. unfold S.exp_cost, S.byte_len. destruct (p =? 0) eqn:E.
  - destruct (S.since s SPURIOUS_DRAGON); lia.
  - apply Z.eqb_neq in E.
    assert (B : 0 <= Z.log2 p < 256).
    { split; [apply Z.log2_nonneg|]. apply Z.log2_lt_pow2; [lia|]. rewrite <- pow256_eq. lia. }
    assert (B8 : 0 <= Z.log2 p / 8 <= 31).
    { split; [apply Z.div_pos; lia|]. apply Z.lt_succ_r. apply Z.div_lt_upper_bound; lia. }
    destruct (S.since s SPURIOUS_DRAGON); lia.
Qed.

(* ================= transaction sums ================= *)
Definition pow32 : Z := 4294967296.

Lemma count_zero_eq input : count_zero input = S.zero_bytes input.
Proof.
  unfold S.zero_bytes. induction input as [|b r IH]; [reflexivity|].
  cbn [count_zero filter]. destruct (b =? 0); cbn [length]; rewrite IH; lia.
Qed.
Lemma zero_nonzero input : S.zero_bytes input + S.nonzero_bytes input = len input.
Proof.
  unfold S.zero_bytes, S.nonzero_bytes, len. induction input as [|b r IH]; [reflexivity|].
  cbn [filter]. destruct (b =? 0); cbn [negb length]; lia.
Qed.
Lemma zero_bytes_nonneg input : 0 <= S.zero_bytes input.
Proof. unfold S.zero_bytes. lia. Qed.
Lemma nonzero_bytes_nonneg input : 0 <= S.nonzero_bytes input.
Proof. unfold S.nonzero_bytes. lia. Qed.

Theorem get_tokens_in_calldata_eq input ist :
  len input < pow32 -> get_tokens_in_calldata_chk input ist = Some (S.tokens input ist).
Proof.
  intros HL. unfold get_tokens_in_calldata_chk, S.tokens. rewrite count_zero_eq.
  pose proof (zero_nonzero input). pose proof (zero_bytes_nonneg input). pose proof (nonzero_bytes_nonneg input).
  replace (len input - S.zero_bytes input) with (S.nonzero_bytes input) by lia.
  change G.NON_ZERO_BYTE_MULTIPLIER_ISTANBUL with 4. change G.NON_ZERO_BYTE_MULTIPLIER with 17.
  unfold pow32 in *.
  destruct ist; (rewrite checked64_in by (unfold_pows; lia)); cbn [obind];
    (rewrite checked64_in by (unfold_pows; lia)); f_equal; lia.
Qed.

Theorem calc_tx_floor_cost_iff t v :
  in_u64 t ->
  (calc_tx_floor_cost_chk t = Some v <-> S.floor_cost t < pow64 /\ v = S.floor_cost t).
Proof.
  intros Ht. unfold calc_tx_floor_cost_chk, S.floor_cost. change G.TOTAL_COST_FLOOR_PER_TOKEN with 10.
  unfold in_u64 in Ht.
  destruct (checked64 (t * 10)) as [x|] eqn:E; cbn [obind].
  - apply checked64_some in E. destruct E as [E ->]. rewrite checked64_some. unfold in_u64 in *.
    split; intros [? ->]; split; (lia || reflexivity).
  - apply checked64_none in E. unfold in_u64 in E. split; [discriminate|]. intros [? _]. lia.
Qed.

Lemma sum_keys_ok al :
  Forall (fun k => 0 <= k) al -> S.sum_list al < pow64 ->
  sum_keys_chk al = Some (S.sum_list al) /\ 0 <= S.sum_list al.
Proof.
  induction 1 as [|k r Hk Hr IH]; intros Hs; cbn [sum_keys_chk S.sum_list fold_right].
  - split; [reflexivity|lia].
  - unfold S.sum_list in Hs. cbn [fold_right] in Hs.
    change (fold_right Z.add 0 r) with (S.sum_list r) in *.
    assert (0 <= S.sum_list r).
    { clear -Hr. induction Hr; cbn [S.sum_list fold_right]; [lia|].
      change (fold_right Z.add 0 l) with (S.sum_list l). lia. }
    destruct IH as [IH _]; [lia|]. rewrite IH. cbn [obind].
    rewrite checked64_in by (unfold in_u64; lia). split; [reflexivity|lia].
Qed.

Lemma since_prague_istanbul s : S.since s PRAGUE = true -> S.since s ISTANBUL = true.
Proof. destruct s; cbn; congruence. Qed.

Theorem calculate_initial_tx_gas_eq s input is_create access_keys auths :
  len input < pow32 -> len access_keys < pow32 ->
  Forall (fun k => 0 <= k) access_keys -> S.sum_list access_keys < pow32 ->
  0 <= auths < pow32 ->
  calculate_initial_tx_gas_chk s input is_create access_keys auths =
  Some (S.intrinsic_gas s input is_create access_keys auths, S.floor_gas s input).
Proof.
  intros HL HA HK HS HU. unfold calculate_initial_tx_gas_chk.
  rewrite get_tokens_in_calldata_eq by exact HL. cbn [obind].
  destruct (sum_keys_ok access_keys HK) as [SK SK0]; [unfold pow32 in *; unfold_pows; lia|].
  rewrite SK.
  assert (IL : in_u64 (len input)) by (unfold len, pow32, in_u64 in *; unfold_pows; lia).
  assert (IT : len input <= pow64 - 32) by (unfold pow32 in *; unfold_pows; lia).
  rewrite (initcode_cost_exact (len input) IL IT).
  unfold S.intrinsic_gas, S.floor_gas, S.floor_cost, S.initcode_cost, calc_tx_floor_cost_chk, S.tokens.
  rewrite !enabled_eq.
  pose proof (zero_nonzero input) as ZN. pose proof (zero_bytes_nonneg input) as Z0.
  pose proof (nonzero_bytes_nonneg input) as N0.
  pose proof (words_bounds (len input) (proj1 IL)) as WB.
  fold (len access_keys). fold (len input).
  set (z := S.zero_bytes input) in *. set (nz := S.nonzero_bytes input) in *.
  set (W := S.words (len input)) in *. set (K := S.sum_list access_keys) in *.
  set (A := len access_keys) in *. assert (A0 : 0 <= A) by (unfold A, len; lia).
  change G.STANDARD_TOKEN_COST with 4. change G.ACCESS_LIST_ADDRESS with 2400.
  change G.ACCESS_LIST_STORAGE_KEY with 1900. change G.PER_EMPTY_ACCOUNT_COST with 25000.
  change G.TOTAL_COST_FLOOR_PER_TOKEN with 10.
  unfold pow32 in *.
  destruct (S.since s PRAGUE) eqn:EP; [rewrite (since_prague_istanbul s EP)|];
  destruct (S.since s ISTANBUL); destruct (S.since s BERLIN); destruct (S.since s HOMESTEAD);
  destruct (S.since s SHANGHAI); destruct is_create; cbn [andb obind];
  repeat (rewrite checked64_in by (unfold in_u64; unfold_pows; lia); cbn [obind]);
  f_equal; f_equal; lia.
Qed.
