(* Bridge C02 -> C09: a transaction that passed the validation pipeline satisfies the price,
   gas and balance bounds that the settlement theorems (Proofs/SettlementProofs.v, record
   [validated]) take as hypotheses. *)
From RevmV Require Import Base.Word Model.Envelope Spec.ValidSpec Model.TypedTx
  Proofs.EnvelopeProofs Proofs.ValidationProofs.
From Coq Require Import ZifyBool.
Local Open Scope Z_scope.

Lemma sat256_le x : 0 <= x -> 0 <= sat256 x <= x.
Proof. intros. unfold sat256. destruct (x <? 0) eqn:A; [lia|]. destruct (x <? pow256) eqn:B; [lia|].
  unfold pow256 in *. lia. Qed.

Theorem validation_establishes_bounds spec c b t s :
  wf_cfg c -> wf_block b -> wf_tx t -> wf_sender s -> in_domain spec t ->
  let e := mkEnv c b (to_tx_env t) in
  preverify spec e s = VOk ->
  let gl := tx_gas_limit (e_tx e) in
  in_u64 gl /\
  0 <= fst (initial_and_floor spec e) <= gl /\
  (enabled spec PRAGUE = true -> 0 <= snd (initial_and_floor spec e) <= gl) /\
  0 <= effective_gas_price e <= tx_gas_price (e_tx e) /\ in_u256 (tx_gas_price (e_tx e)) /\
  0 <= b_basefee b /\
  (enabled spec LONDON = true -> b_basefee b <= effective_gas_price e) /\
  (enabled spec CANCUN = true -> exists fee, calc_data_fee e = Some fee /\ 0 <= fee) /\
  gl * tx_gas_price (e_tx e)
    + (if enabled spec CANCUN then match calc_data_fee e with Some fee => fee | None => 0 end else 0)
    <= s_balance s < pow256.
Proof.
  intros WC WB WT WS DOM e H gl. unfold gl, e in *. clear gl.
  pose proof (proj1 (preverify_ok_iff_valid spec c b t s WC WB WT WS DOM) H)
    as (V1 & V2 & (V3a & V3b & V3c) & V4 & V5 & V6 & V7 & V8 & V9 & V10).
  pose proof (fee_model_of_valid spec c b t s WB WT WS V6
                (conj V3a (conj V3b V3c)) V10) as FM.
  pose proof (intrinsic_ge_21000 spec t WT) as I21.
  pose proof WT as (Wn & Wg & Wv & Wlen & Wf & Wp & Wal & Wau & Wm).
  destruct WB as (Wbg & Wbf & Wbp). destruct WS as (Sn & Sb).
  replace (tx_gas_limit (e_tx (mkEnv c b (to_tx_env t)))) with (Spec.gas_limit (Spec.common_of t)) by reflexivity.
  replace (tx_gas_price (e_tx (mkEnv c b (to_tx_env t)))) with (Spec.max_fee_of t) by reflexivity.
  rewrite (initial_gas_eq spec c b t Wlen).
  replace (Spec.fork (ctx_of spec c b s)) with spec in * by reflexivity.
  assert (EFF : 0 <= effective_gas_price (mkEnv c b (to_tx_env t)) <= Spec.max_fee_of t).
  { unfold effective_gas_price. cbn [e_tx e_block].
    replace (tx_gas_priority_fee (to_tx_env t)) with (Spec.priority_of t) by reflexivity.
    replace (tx_gas_price (to_tx_env t)) with (Spec.max_fee_of t) by reflexivity.
    destruct (Spec.priority_of t); [|unfold in_u256 in *; lia].
    pose proof (wrap256_range (b_basefee b + z)). unfold in_u256 in *. lia. }
  split; [exact Wg|]. split; [lia|].
  split. { intros EP. unfold enabled, PRAGUE in EP. rewrite (floor_gas_eq spec c b t) by (unfold PRAGUE; lia).
           assert (Spec.PRAGUE <= spec) by (unfold Spec.PRAGUE; lia). specialize (V3c H0).
           unfold Spec.floor_gas in *. rewrite tokens_eq in *.
           pose proof (tokens_nonneg (Spec.data (Spec.common_of t)) true). lia. }
  split; [exact EFF|]. split; [exact Wf|]. split; [unfold in_u256 in *; lia|].
  split. { intros EL. apply FM. unfold enabled, LONDON in *. lia. }
  assert (BG : 0 <= get_total_blob_gas (to_tx_env t)).
  { unfold get_total_blob_gas, GAS_PER_BLOB. pose proof (zlen_nonneg (tx_blob_hashes (to_tx_env t))). lia. }
  assert (DF : enabled spec CANCUN = true ->
               exists p, b_blob_gasprice b = Some p /\ 0 <= p /\
                         calc_data_fee (mkEnv c b (to_tx_env t)) = Some (sat256 (p * get_total_blob_gas (to_tx_env t)))).
  { intros EC. destruct V1 as [_ V1b]. unfold enabled, CANCUN in EC.
    replace (Spec.fork (ctx_of spec c b s)) with spec in V1b by reflexivity.
    replace (Spec.blob_base_fee (ctx_of spec c b s)) with (b_blob_gasprice b) in V1b by reflexivity.
    unfold calc_data_fee. cbn [e_block e_tx].
    destruct (b_blob_gasprice b) as [p|]; [|exfalso; apply V1b; [unfold Spec.CANCUN; lia|reflexivity]].
    exists p. unfold in_u128 in Wbp. repeat split; lia. }
  split.
  { intros EC. destruct (DF EC) as (p & _ & P0 & HF). rewrite HF. eexists. split; [reflexivity|].
    apply sat256_le. apply Z.mul_nonneg_nonneg; lia. }
  destruct V10 as (_ & _ & _ & MC).
  replace (Spec.sender_balance (ctx_of spec c b s)) with (s_balance s) in MC by reflexivity.
  unfold Spec.max_cost in MC. split; [|unfold in_u256 in *; lia].
  assert (MBF : 0 <= Spec.max_blob_fee t).
  { destruct t; cbn [Spec.max_blob_fee]; try lia. unfold Spec.blob_gas.
    apply Z.mul_nonneg_nonneg; unfold in_u256 in *; lia. }
  destruct (enabled spec CANCUN) eqn:EC; [|unfold in_u256 in *; lia].
  destruct (DF eq_refl) as (p & BP & P0 & HF). rewrite HF.
  assert (LE : sat256 (p * get_total_blob_gas (to_tx_env t)) <= Spec.max_blob_fee t).
  { pose proof (sat256_le (p * get_total_blob_gas (to_tx_env t))
                          (Z.mul_nonneg_nonneg _ _ P0 BG)) as [_ S2].
    unfold get_total_blob_gas, zlen in *.
    replace (tx_blob_hashes (to_tx_env t)) with (Spec.blobs_of t) in * by reflexivity.
    destruct t; cbn [Spec.max_blob_fee Spec.blobs_of length Z.of_nat] in *; try lia.
    unfold Spec.blob_ok in V8. destruct V8 as (_ & _ & _ & _ & _ & PB).
    replace (Spec.blob_base_fee (ctx_of spec c b s)) with (b_blob_gasprice b) in PB by reflexivity.
    rewrite BP in PB. unfold Spec.blob_gas, GAS_PER_BLOB in *. cbn [Spec.blobs_of] in *.
    assert (p * (131072 * Z.of_nat (length blob_version_bytes)) <=
            max_fee_per_blob_gas * (131072 * Z.of_nat (length blob_version_bytes))).
    { apply Z.mul_le_mono_nonneg_r; lia. }
    lia. }
  unfold in_u256 in *. lia.
Qed.
