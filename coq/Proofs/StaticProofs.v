(* C10: (1) the reflected static-mode table equals the specification table; (2) for every frame
   tree, a static frame leaves the world state unchanged (by mutual induction over the tree). *)
From Coq Require Import ZArith List Bool Lia.
From RevmV Require Import Gen.StaticGate Spec.GateSpec Spec.StaticSpec Proofs.GateProofs Model.StaticFrame.
Import ListNotations.
Local Open Scope Z_scope.

(* ------------------------------------------------------------------ table part *)

Definition gen_static_raw (s b : Z) (k : kind) (value_nonzero : bool) : Z :=
  match k, value_nonzero with
  | Legacy, false => cell StaticGate.legacy_v0 s b
  | Legacy, true => cell StaticGate.legacy_v1 s b
  | Eof, false => cell StaticGate.eof_v0 s b
  | Eof, true => cell StaticGate.eof_v1 s b
  end.
(* what static mode objects to: 9, 10, or nothing *)
Definition objection (c : Z) : Z := if (c =? 9) || (c =? 10) then c else 0.

(* cells whose byte is an instruction of the code kind in the hardfork (C05's table) *)
Definition check_defined (k : kind) (v : bool) : bool :=
  forallb (fun s => forallb (fun b =>
      if gate s b k =? C_DEFINED
      then objection (gen_static_raw s b k v) =? StaticSpec.static_class b v
      else true) bytes) GateSpec.specs.
(* cells whose byte is executable but undefined (later hardfork, undefined, EOF-only in legacy,
   INVALID): it fails in static mode as it does otherwise *)
Definition executable_undefined (g : Z) : bool := (1 <=? g) && (g <=? 4).
Definition check_undefined (k : kind) (v : bool) : bool :=
  forallb (fun s => forallb (fun b =>
      if executable_undefined (gate s b k)
      then negb (gen_static_raw s b k v =? 0) && negb (gen_static_raw s b k v =? 99)
      else true) bytes) GateSpec.specs.

Lemma defined_ok : forall k v, check_defined k v = true.
Proof. intros [|] [|]; vm_compute; reflexivity. Qed.
Lemma undefined_ok : forall k v, check_undefined k v = true.
Proof. intros [|] [|]; vm_compute; reflexivity. Qed.

Lemma static_gate_defined : forall s b k v, In s GateSpec.specs -> 0 <= b < 256 ->
  gate s b k = C_DEFINED -> objection (gen_static_raw s b k v) = StaticSpec.static_class b v.
Proof.
  intros s b k v Hs Hb Hg. pose proof (defined_ok k v) as H. unfold check_defined in H.
  rewrite forallb_forall in H. specialize (H s Hs).
  rewrite forallb_forall in H. specialize (H b (In_bytes b Hb)).
  rewrite Hg in H. cbn in H. now apply Z.eqb_eq.
Qed.
Lemma static_gate_undefined : forall s b k v, In s GateSpec.specs -> 0 <= b < 256 ->
  executable_undefined (gate s b k) = true -> gen_static_raw s b k v <> 0.
Proof.
  intros s b k v Hs Hb Hg. pose proof (undefined_ok k v) as H. unfold check_undefined in H.
  rewrite forallb_forall in H. specialize (H s Hs).
  rewrite forallb_forall in H. specialize (H b (In_bytes b Hb)).
  rewrite Hg in H. apply andb_true_iff in H. destruct H as [H _].
  apply negb_true_iff in H. now apply Z.eqb_neq.
Qed.

(* flag inheritance: the reflected is_static of the produced CallInputs *)
Definition find_child (s b : Z) : option (bool * Z * Z) :=
  match find (fun p : Z * list (Z * bool * Z * Z) => fst p =? s) StaticGate.child_rows with
  | Some p =>
      match find (fun q : Z * bool * Z * Z => fst (fst (fst q)) =? b) (snd p) with
      | Some q => Some (snd (fst (fst q)), snd (fst q), snd q)
      | None => None
      end
  | None => None
  end.
Definition flag (p : bool) : Z := if p then 1 else 0.
Definition check_child : bool :=
  forallb (fun s => forallb (fun be =>
      let '(b, e) := be in
      let k := if (e : bool) then Eof else Legacy in
      match find_child s b with
      | Some (e', c0, c1) =>
          Bool.eqb e e' &&
          (if gate s b k =? C_DEFINED
           then (c0 =? flag (child_is_static false b)) && (c1 =? flag (child_is_static true b))
           else (c0 =? 2) && (c1 =? 2))
      | None => false
      end) call_family) GateSpec.specs.
Lemma child_ok : check_child = true.
Proof. vm_compute. reflexivity. Qed.
Lemma child_flag : forall s b e, In s GateSpec.specs -> In (b, e) call_family ->
  gate s b (if e then Eof else Legacy) = C_DEFINED ->
  forall parent : bool, exists c0 c1, find_child s b = Some (e, c0, c1) /\
    (if parent then c1 else c0) = flag (child_is_static parent b).
Proof.
  intros s b e Hs Hb Hg parent. pose proof child_ok as H. unfold check_child in H.
  rewrite forallb_forall in H. specialize (H s Hs).
  rewrite forallb_forall in H. specialize (H (b, e) Hb). cbn beta iota in H.
  destruct (find_child s b) as [[[e' c0] c1]|]; try discriminate.
  apply andb_true_iff in H. destruct H as [He H]. apply Bool.eqb_prop in He. subst e'.
  rewrite Hg in H. cbn in H. apply andb_true_iff in H. destruct H as [H0 H1].
  apply Z.eqb_eq in H0. apply Z.eqb_eq in H1.
  exists c0, c1. split; auto. destruct parent; auto.
Qed.

(* ------------------------------------------------------------------ model part *)

Lemma view_warm : forall w a, view (warm w a) = view w.
Proof. reflexivity. Qed.

Lemma child_static_true : forall k, child_static true k = true.
Proof. reflexivity. Qed.

(* a static frame, and every operation of it, leaves the state unchanged — for ALL trees *)
Combined Scheme op_code_ind from op_mut, code_mut.

Lemma static_preserves :
  (forall o self w w', exec_op true self o w = Some w' -> view w' = view w) /\
  (forall c self w w', exec_code true self c w = Some w' -> view w' = view w).
Proof.
  apply op_code_ind.
  - (* Sstore *) intros; cbn in *; discriminate.
  - (* Tstore *) intros; cbn in *; discriminate.
  - (* Log *) intros; cbn in *; discriminate.
  - (* Selfdestruct *) intros; cbn in *; discriminate.
  - (* Create *) intros; cbn in *; discriminate.
  - (* Call *)
    intros k to value body IH self w w' H. cbn [exec_op andb] in H.
    destruct (value_checked k && negb (value =? 0)) eqn:Hv; try discriminate.
    assert (Hmoved : (if value_checked k then transfer (warm w to) self to value else Some (warm w to)) = Some (warm w to)).
    { destruct (value_checked k); auto. unfold transfer.
      destruct (value =? 0); [reflexivity | cbn in Hv; discriminate]. }
    rewrite Hmoved in H. rewrite child_static_true in H.
    destruct (exec_code true (callee_context k self to) body (warm w to)) as [w2|] eqn:Hc;
      inversion H; subst.
    + etransitivity; [ eapply IH; exact Hc | apply view_warm ].
    + apply view_warm.
  - (* Access *) intros a self w w' H. cbn in H. inversion H; subst. apply view_warm.
  - (* Pure *) intros self w w' H. cbn in H. inversion H; subst. reflexivity.
  - (* Done *) intros self w w' H. cbn in H. inversion H; subst. reflexivity.
  - (* Seq *)
    intros o IHo rest IHr self w w' H. cbn [exec_code] in H.
    destruct (exec_op true self o w) as [w1|] eqn:Ho; try discriminate.
    etransitivity; [ eapply IHr; exact H | eapply IHo; exact Ho ].
Qed.

Lemma static_code_preserves : forall c self w w', exec_code true self c w = Some w' -> view w' = view w.
Proof. exact (proj2 static_preserves). Qed.

(* every state-changing attempt made directly by a static frame fails that frame *)
Lemma mutating_fails : forall o self w, is_mutating o = true -> exec_op true self o w = None.
Proof.
  intros o self w H. destruct o; cbn in *; try discriminate; try reflexivity.
  rewrite H. reflexivity.
Qed.
Lemma mutating_fails_code : forall o rest self w, is_mutating o = true -> exec_code true self (Seq o rest) w = None.
Proof. intros. cbn. now rewrite mutating_fails. Qed.

(* a call made by any frame: if the callee runs static (STATICCALL/EXTSTATICCALL, or any kind from a
   static caller) the caller's state after the call is its state before (plus warmth), whether the
   callee succeeded or failed *)
Lemma static_call_preserves : forall st self k to body w w',
  child_static st k = true ->
  exec_op st self (Call k to 0 body) w = Some w' -> view w' = view w.
Proof.
  intros st self k to body w w' Hcs H. cbn [exec_op] in H.
  replace (st && value_checked k && negb (0 =? 0)) with false in H by (cbn; now rewrite !andb_false_r).
  assert (Hm : (if value_checked k then transfer (warm w to) self to 0 else Some (warm w to)) = Some (warm w to))
    by (destruct (value_checked k); reflexivity).
  rewrite Hm, Hcs in H.
  destruct (exec_code true (callee_context k self to) body (warm w to)) as [w2|] eqn:Hc; inversion H; subst.
  - etransitivity; [ eapply static_code_preserves; exact Hc | apply view_warm ].
  - apply view_warm.
Qed.
