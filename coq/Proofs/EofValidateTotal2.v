(* The EOF validator model never reaches its [VPanic] outcome: part 2, the section worklist of
   validate_eof_codes (every section index is pushed at most once: the fuel S (number of
   sections) is enough) and the container stack of validate_eof_inner (nested containers are
   disjoint slices of the parent: the fuel S (length raw) is enough). *)
From RevmV Require Import Model.Eof Model.EofValidate Proofs.EofProofs Proofs.EofValidateProofs
  Proofs.EofValidateTables Proofs.EofValidateStep Proofs.EofValidateDispatch Proofs.EofValidateProofs2
  Proofs.EofValidateSection Proofs.EofValidateContainer Proofs.EofValidateTotal.
From Coq Require Import ZArith List Lia Bool.
Import ListNotations.
Local Open Scope Z_scope.

(* ---- worklist measure: pending indices + sections not yet marked ---- *)
Definition cnt_false (l : list bool) : nat := length (filter negb l).
Definition wl_measure (tr : Tracker) : nat := (length (pstack tr) + cnt_false (codes tr))%nat.
Definition wl_range (tr : Tracker) : Prop := forall k, In k (pstack tr) -> 0 <= k < len (codes tr).

Lemma cnt_false_upd : forall l n b, nth_error l n = Some b ->
  cnt_false (upd_nat l n true) = (cnt_false l - (if b then 0 else 1))%nat /\ (b = false -> (1 <= cnt_false l)%nat).
Proof.
  unfold cnt_false. induction l as [|x l IH]; intros [|n] b H; cbn [nth_error] in H; try discriminate.
  - inversion H. subst x. cbn [upd_nat filter negb]. destruct b; cbn [negb length]; split; intros; lia.
  - cbn [upd_nat filter]. destruct (IH n b H) as (A & B).
    destruct b; [|specialize (B eq_refl)]; destruct (negb x); cbn [length]; split; intros; try lia; try discriminate.
Qed.

Lemma access_code_measure tr idx tr' : access_code tr idx = VOk tr' ->
  wl_measure tr' = wl_measure tr /\ (wl_range tr -> wl_range tr').
Proof.
  unfold access_code. destruct (nth_z (codes tr) idx) as [was|] eqn:E; cbn [vidx vbind]; [|discriminate].
  intros H. inversion H. clear H. pose proof (nth_z_lt _ _ _ E) as B.
  unfold wl_measure, wl_range. cbn [pstack codes].
  unfold nth_z in E. destruct (0 <=? idx); [|discriminate].
  destruct (cnt_false_upd _ _ _ E) as (C1 & C2). unfold upd_z. split.
  - rewrite C1. destruct was; cbn [length]; [lia|]. specialize (C2 eq_refl). lia.
  - intros R k Hk. unfold len. rewrite upd_nat_length. fold (len (codes tr)).
    destruct was; [apply R; exact Hk|]. destruct Hk as [<-|Hk]; [exact B|apply R; exact Hk].
Qed.

Lemma set_sub_same tr idx ct tr' : set_subcontainer_type tr idx ct = VOk tr' ->
  pstack tr' = pstack tr /\ codes tr' = codes tr.
Proof.
  unfold set_subcontainer_type. destruct (nth_z (subs tr) idx) as [[c|]|]; cbn [vidx vbind]; try discriminate.
  - destruct (code_type_eqb c ct); [|discriminate]. intros H. inversion H. auto.
  - intros H. inversion H. auto.
Qed.
Lemma goid_same t c tr d : get_or_insert_differs t c = (tr, d) -> pstack tr = pstack t /\ codes tr = codes t.
Proof. unfold get_or_insert_differs. destruct (this_type t); intros H; inversion H; subst; auto. Qed.

Lemma dispatch_measure code ds tt nc types s op o ti J2 J3 diff req add targets returning tr :
  dispatch code ds tt nc types s op o ti J2 = VOk (J3, diff, req, add, targets, returning, tr) ->
  wl_measure tr = wl_measure (l_tracker s) /\ (wl_range (l_tracker s) -> wl_range tr).
Proof.
  intros H.
  dispatch_cases H op;
    repeat match goal with
    | X : access_code _ _ = VOk _ |- _ => apply access_code_measure in X
    | X : set_subcontainer_type _ _ _ = VOk _ |- _ => apply set_sub_same in X; destruct X
    | X : get_or_insert_differs _ _ = (_, _) |- _ => apply goid_same in X; destruct X
    end;
    try assumption; try (split; [reflexivity|auto]);
    unfold wl_measure, wl_range in *;
    repeat match goal with X : pstack _ = pstack _ |- _ => rewrite X in * end;
    repeat match goal with X : codes _ = codes _ |- _ => rewrite X in * end;
    try (split; [reflexivity|auto]).
Qed.

Definition InvM (tr0 : Tracker) (s : LoopState) : Prop :=
  wl_measure (l_tracker s) = wl_measure tr0 /\ wl_range (l_tracker s).

Lemma validate_eof_code_measure code ds idx nc types tr tr' :
  validate_eof_code code ds idx nc types tr = VOk tr' -> wl_range tr ->
  wl_measure tr' = wl_measure tr /\ wl_range tr'.
Proof.
  intros H R. unfold validate_eof_code in H.
  destruct (nth_z types idx) as [tt|]; cbn [vidx vbind] in H; [|discriminate].
  destruct (code_loop _ _ _ _ _ _ _) as [sf| | |] eqn:El; cbn [vbind] in H; try discriminate.
  assert (G : InvM tr sf).
  { apply (code_loop_inv code ds tt nc types (InvM tr)) in El; [destruct El as (G & _); exact G| |split; [reflexivity|exact R]].
    intros s s' (M1 & M2) _ Hs. apply step_inv in Hs.
    destruct Hs as (op & o & ti0 & J2 & J3 & diff & req & add & targets & returning & tr1 &
                    _ & _ & _ & _ & _ & _ & Hd & _ & _ & Es').
    apply dispatch_measure in Hd. destruct Hd as (D1 & D2). rewrite Es'. unfold InvM. cbn [l_tracker].
    split; [congruence|auto]. }
  destruct G as (G1 & G2).
  destruct (Bool.eqb _ _); [discriminate|]. destruct (negb (l_after_term sf)); [discriminate|].
  destruct (negb _); [discriminate|]. inversion H. subst tr'. split; assumption.
Qed.

Lemma sections_loop_np e : Forall bytes_ok (code_section (body e)) ->
  len (code_section (body e)) = len (types_section (body e)) ->
  forall fuel tr, len (codes tr) = len (types_section (body e)) ->
    len (subs tr) = len (container_section (body e)) -> wl_range tr -> (wl_measure tr <= fuel)%nat ->
    np (sections_loop fuel e tr).
Proof.
  intros Hcs Hlen. induction fuel as [|f IH]; intros tr Hc Hs R M; cbn [sections_loop];
    destruct (pstack tr) as [|index rest] eqn:Ep; try (unfold np; discriminate).
  - unfold wl_measure in M. rewrite Ep in M. cbn [length] in M. lia.
  - assert (Bi : 0 <= index < len (codes tr)) by (apply R; rewrite Ep; left; reflexivity).
    destruct (nth_z_defined (code_section (body e)) index ltac:(lia)) as (code & Ec). rewrite Ec. cbn [vidx vbind].
    assert (Hbc : bytes_ok code) by (rewrite Forall_forall in Hcs; apply Hcs; eapply nth_z_In; exact Ec).
    set (tr1 := mkTracker (this_type tr) (codes tr) rest (subs tr)).
    assert (R1 : wl_range tr1) by (intros k Hk; apply R; rewrite Ep; right; exact Hk).
    apply vbind_np.
    + apply validate_eof_code_np; try assumption; try lia.
    + intros tr2 Ev. destruct (validate_eof_code_measure _ _ _ _ _ _ _ Ev R1) as (M2 & R2).
      destruct (validate_eof_code_sound _ _ _ _ _ _ _ Hbc Ev) as (_ & (L1 & L2 & _) & _).
      apply IH; try assumption.
      * unfold len in *. rewrite L1. exact Hc.
      * unfold len in *. rewrite L2. exact Hs.
      * rewrite M2. unfold wl_measure, tr1 in *. rewrite Ep in M. cbn [pstack codes length] in *. lia.
Qed.

Lemma cnt_false_repeat n : cnt_false (repeat false n) = n.
Proof. unfold cnt_false. induction n as [|n IH]; cbn [repeat filter negb length]; [reflexivity|]. rewrite IH. reflexivity. Qed.

Theorem validate_eof_codes_np e k :
  Forall bytes_ok (code_section (body e)) -> np (validate_eof_codes e k).
Proof.
  intros Hcs. unfold validate_eof_codes.
  destruct (Z.eqb_spec (len (code_section (body e))) (len (types_section (body e)))) as [E1|]; cbn [negb];
    [|unfold np; discriminate].
  destruct (Z.eqb_spec (len (code_section (body e))) 0) as [|E0]; [unfold np; discriminate|].
  pose proof (len_nonneg (code_section (body e))).
  destruct (nth_z_defined (types_section (body e)) 0 ltac:(lia)) as (t0 & ->). cbn [vidx vbind].
  destruct (negb (inputs t0 =? 0) || negb (is_non_returning t0)); [unfold np; discriminate|].
  unfold tracker_new. destruct (length (code_section (body e))) as [|n] eqn:El; [unfold len in *; lia|].
  cbn [vbind]. apply vbind_np.
  - apply (sections_loop_np e Hcs E1); cbn [codes subs pstack].
    + rewrite <- E1. unfold len. cbn [length]. rewrite repeat_length. lia.
    + unfold len. rewrite repeat_length. reflexivity.
    + intros j [<-|[]]. cbn [codes]. unfold len. cbn [length]. lia.
    + unfold wl_measure. cbn [pstack codes length]. unfold cnt_false. cbn [filter negb].
      fold (cnt_false (repeat false n)). rewrite cnt_false_repeat. lia.
  - intros trf _. np_done. destruct (unwrap_all (subs trf)); [|discriminate]. np_done.
Qed.

(* ---- container stack: total size of the raw bytes on the stack ---- *)
Definition stack_weight (st : list (Eof * option CodeType)) : Z :=
  fold_right (fun p acc => len (raw (fst p)) + acc) 0 st.

Lemma decode_raw bs e : decode bs = Ok e -> raw e = bs.
Proof.
  unfold decode. destruct (header_decode bs) as [[h r]| |]; cbn [bind fst]; try discriminate.
  destruct (body_decode bs h); cbn [bind]; try discriminate. intros H. inversion H. reflexivity.
Qed.

Lemma decode_size bs e : bytes_ok bs -> decode bs = Ok e ->
  2 + sum_list (map len (container_section (body e))) <= len bs.
Proof.
  intros Hb H. destruct (decode_roundtrip bs e Hb H) as (Eenc & _ & _).
  rewrite <- Eenc. unfold encode_slow, body_encode. rewrite !len_app, <- len_concat.
  assert (2 <= len (header_encode (header e))).
  { unfold header_encode. rewrite len_app. change (len [239; 0]) with 2.
    match goal with |- 2 <= 2 + len ?x => pose proof (len_nonneg x) end. lia. }
  pose proof (len_nonneg (flat_map types_encode (types_section (body e)))).
  pose proof (len_nonneg (concat (code_section (body e)))).
  pose proof (len_nonneg (data_section (body e))). lia.
Qed.

Lemma zip_push_np : forall conts cts stack, Forall bytes_ok conts -> np (zip_push conts cts stack).
Proof.
  induction conts as [|c cr IH]; intros cts stack Hb; destruct cts as [|t tr]; cbn [zip_push]; try (unfold np; discriminate).
  inversion Hb. subst. pose proof (decode_no_panic c H1) as Np.
  destruct (decode c); [apply IH; assumption|unfold np; discriminate|congruence].
Qed.

Lemma zip_push_weight : forall conts cts stack stack',
  zip_push conts cts stack = VOk stack' -> stack_weight stack' <= stack_weight stack + sum_list (map len conts).
Proof.
  induction conts as [|c cr IH]; intros cts stack stack' H; destruct cts as [|t tr]; cbn [zip_push] in H;
    cbn [map sum_list fold_right].
  - inversion H. lia.
  - inversion H. lia.
  - inversion H. subst. pose proof (len_nonneg c).
    assert (0 <= sum_list (map len cr)).
    { clear. induction cr as [|x l IH]; cbn [map sum_list fold_right]; [lia|]. pose proof (len_nonneg x). unfold sum_list in IH. lia. }
    unfold sum_list in *. lia.
  - destruct (decode c) as [e'| |] eqn:Ed; try discriminate. apply IH in H.
    cbn [stack_weight fold_right fst] in H. fold (stack_weight stack) in H.
    rewrite (decode_raw _ _ Ed) in H. unfold sum_list in *. lia.
Qed.

Lemma zip_push_decoded : forall conts cts stack stack',
  zip_push conts cts stack = VOk stack' -> Forall bytes_ok conts -> Forall decoded stack -> Forall decoded stack'.
Proof.
  induction conts as [|c cr IH]; intros cts stack stack' H Hb Hd; destruct cts as [|t tr]; cbn [zip_push] in H;
    try (inversion H; subst; assumption).
  destruct (decode c) as [e'| |] eqn:Ed; try discriminate. inversion Hb. subst.
  eapply IH; [exact H|assumption|]. constructor; [|exact Hd]. exists c. split; assumption.
Qed.

Lemma containers_loop_np : forall fuel stack,
  Forall decoded stack -> stack_weight stack <= Z.of_nat fuel -> np (containers_loop fuel stack).
Proof.
  induction fuel as [|f IH]; intros stack Hd W; cbn [containers_loop];
    destruct stack as [|[e ct] rest]; try (unfold np; discriminate);
    inversion Hd as [|x l (bs & Hb & Edec) Hdr]; subst; cbn [fst] in Edec;
    pose proof (decode_size _ _ Hb Edec) as Sz; pose proof (decode_raw _ _ Edec) as Er;
    cbn [stack_weight fold_right fst] in W; fold (stack_weight rest) in W; rewrite Er in W.
  - assert (0 <= stack_weight rest).
    { clear. induction rest as [|p l IHl]; cbn [stack_weight fold_right]; [lia|]. pose proof (len_nonneg (raw (fst p))).
      fold (stack_weight l). lia. }
    assert (0 <= sum_list (map len (container_section (body e)))).
    { clear. induction (container_section (body e)) as [|x l IHl]; cbn [map sum_list fold_right]; [lia|].
      pose proof (len_nonneg x). unfold sum_list in IHl. lia. }
    lia.
  - destruct (decode_sections_bytes _ _ Hb Edec) as (Bc & Bk).
    apply vbind_np; [apply validate_eof_codes_np; exact Bc|]. intros cts _.
    assert (Bk' : Forall bytes_ok (container_section (body e))).
    { rewrite Forall_forall in *. intros c Hc. apply Bk. exact Hc. }
    apply vbind_np; [apply zip_push_np; exact Bk'|]. intros stack' Ez.
    apply IH.
    + eapply zip_push_decoded; eassumption.
    + pose proof (zip_push_weight _ _ _ _ Ez). lia.
Qed.

Theorem validate_raw_eof_inner_np bs k : bytes_ok bs -> validate_raw_eof_inner_r bs k <> VPanic.
Proof.
  intros Hb. unfold validate_raw_eof_inner_r.
  destruct (len bs >? MAX_INITCODE_SIZE); [discriminate|].
  pose proof (decode_no_panic bs Hb) as Np.
  destruct (decode bs) as [e| |] eqn:Ed; [|discriminate|congruence].
  unfold validate_eof_inner.
  destruct (negb (is_data_filled (body e))); [discriminate|].
  destruct (decode_sections_bytes _ _ Hb Ed) as (Bc & _).
  destruct (len (container_section (body e)) =? 0).
  - apply vbind_np; [apply validate_eof_codes_np; exact Bc|]. intros; discriminate.
  - apply containers_loop_np.
    + constructor; [|constructor]. exists bs. split; assumption.
    + cbn [stack_weight fold_right fst]. unfold len. lia.
Qed.
