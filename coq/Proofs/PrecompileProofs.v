(* Lemmas for C23: gas formulas of the model = EIP formulas, out-of-gas iff cost > limit,
   modexp correctness, call_precompile mapping, EIP-2537 price tables. *)
From RevmV Require Import Base.Word Base.PBytes Model.Modexp Model.Precompile Spec.PrecompileSpec Gen.BlsTables.
From Coq Require Import ZifyBool.
Local Open Scope Z_scope.
Ltac Zify.zify_post_hook ::= Z.div_mod_to_equations.

(* ------------------------------------------------------------------ linear costs *)
Lemma ceil_div_32 len : 0 <= len -> (len + 31) / 32 = ceil_div len 32.
Proof. intros H. unfold ceil_div. destruct (len mod 32 =? 0) eqn:A; lia. Qed.

Lemma linear_cost_eq len base word :
  0 <= len -> calc_linear_cost len base word = eip_linear_cost base word len.
Proof. intros H. unfold calc_linear_cost, eip_linear_cost. rewrite ceil_div_32 by exact H. ring. Qed.

(* the u64 arithmetic of calc_linear_cost_u32 cannot wrap for any length below 2^56 *)
Lemma linear_cost_fits len base word :
  0 <= len < 2 ^ 56 -> 0 <= word <= 120 -> 0 <= base <= 600 ->
  0 <= (len + 31) / 32 * word < pow64 /\ 0 <= calc_linear_cost len base word < pow64.
Proof. intros Hl Hw Hb. unfold calc_linear_cost, pow64.
  assert (0 <= (len + 31) / 32 <= 2 ^ 51) by (change (2 ^ 56) with 72057594037927936 in Hl; change (2 ^ 51) with 2251799813685248; lia).
  change (2 ^ 51) with 2251799813685248 in H. nia. Qed.

Lemma identity_oog_iff input limit :
  identity_run input limit = PErr E_OutOfGas <-> limit < eip_linear_cost 15 3 (zlen input).
Proof. unfold identity_run. rewrite linear_cost_eq by (unfold zlen; lia).
  destruct (limit <? _) eqn:A; split; intros; try lia; try reflexivity; try discriminate. Qed.
Lemma identity_ok input limit :
  eip_linear_cost 15 3 (zlen input) <= limit ->
  identity_run input limit = POk (eip_linear_cost 15 3 (zlen input)) input.
Proof. intros H. unfold identity_run. rewrite linear_cost_eq by (unfold zlen; lia).
  destruct (limit <? _) eqn:A; [lia|reflexivity]. Qed.

Lemma sha256_oog_iff input limit :
  sha256_run input limit = PErr E_OutOfGas <-> limit < eip_linear_cost 60 12 (zlen input).
Proof. unfold sha256_run. rewrite linear_cost_eq by (unfold zlen; lia).
  destruct (limit <? _) eqn:A; split; intros; try lia; try reflexivity; try discriminate. Qed.
Lemma sha256_ok input limit :
  eip_linear_cost 60 12 (zlen input) <= limit ->
  sha256_run input limit = POk (eip_linear_cost 60 12 (zlen input)) (sha256 input).
Proof. intros H. unfold sha256_run. rewrite linear_cost_eq by (unfold zlen; lia).
  destruct (limit <? _) eqn:A; [lia|reflexivity]. Qed.

Lemma ripemd160_oog_iff input limit :
  ripemd160_run input limit = PErr E_OutOfGas <-> limit < eip_linear_cost 600 120 (zlen input).
Proof. unfold ripemd160_run. rewrite linear_cost_eq by (unfold zlen; lia).
  destruct (limit <? _) eqn:A; split; intros; try lia; try reflexivity; try discriminate. Qed.
Lemma ripemd160_ok input limit :
  eip_linear_cost 600 120 (zlen input) <= limit ->
  ripemd160_run input limit = POk (eip_linear_cost 600 120 (zlen input)) (zeros 12 ++ ripemd160 input).
Proof. intros H. unfold ripemd160_run. rewrite linear_cost_eq by (unfold zlen; lia).
  destruct (limit <? _) eqn:A; [lia|reflexivity]. Qed.

(* ------------------------------------------------------------------ ecrecover *)
Lemma ecrecover_oog_iff input limit : ec_recover_run input limit = PErr E_OutOfGas <-> limit < 3000.
Proof. unfold ec_recover_run. destruct (limit <? 3000) eqn:A.
  - split; intros; [lia|reflexivity].
  - split; intros H; [|lia]. exfalso.
    destruct (negb _); [discriminate|]. destruct (ecrecover_core _ _ _); discriminate. Qed.
(* with enough gas the call never fails and always charges 3000 *)
Lemma ecrecover_gas input limit : 3000 <= limit -> exists out, ec_recover_run input limit = POk 3000 out.
Proof. intros H. unfold ec_recover_run. destruct (limit <? 3000) eqn:A; [lia|].
  destruct (negb _); [eexists; reflexivity|]. destruct (ecrecover_core _ _ _); eexists; reflexivity. Qed.
(* v is a 32-byte big-endian integer that must be exactly 27 or 28: anything else gives the empty output *)
Lemma ecrecover_bad_v input limit :
  3000 <= limit ->
  (all_zero (slice 32 31 (take_pad 128 input)) = false \/
   (nth 63 (take_pad 128 input) 0 <> 27 /\ nth 63 (take_pad 128 input) 0 <> 28)) ->
  ec_recover_run input limit = POk 3000 [].
Proof. intros H Hv. unfold ec_recover_run. destruct (limit <? 3000) eqn:A; [lia|].
  destruct Hv as [Hz|[H1 H2]].
  - rewrite Hz. reflexivity.
  - apply Z.eqb_neq in H1, H2. rewrite H1, H2, andb_false_r. reflexivity. Qed.

(* ------------------------------------------------------------------ blake2f *)
Lemma blake2_wrong_length input limit : zlen input <> 213 -> blake2_run input limit = PErr E_Blake2WrongLength.
Proof. intros H. unfold blake2_run. apply Z.eqb_neq in H. rewrite H. reflexivity. Qed.
Lemma blake2_oog_iff input limit :
  zlen input = 213 ->
  (blake2_run input limit = PErr E_OutOfGas <-> limit < be_to_Z (slice 0 4 input)).
Proof. intros H. unfold blake2_run. rewrite H. cbn [Z.eqb Pos.eqb negb]. rewrite Z.mul_1_r.
  destruct (limit <? _) eqn:A.
  - split; intros; [lia|reflexivity].
  - split; intros B; [|lia]. exfalso. destruct (negb _); discriminate. Qed.
Lemma blake2_ok_gas input limit g out :
  blake2_run input limit = POk g out ->
  zlen input = 213 /\ g = be_to_Z (slice 0 4 input) /\ g <= limit /\ (nth 212 input 0 = 0 \/ nth 212 input 0 = 1).
Proof. unfold blake2_run. destruct (zlen input =? 213) eqn:L; cbn [negb]; [|intros E; discriminate E].
  rewrite Z.mul_1_r. destruct (limit <? _) eqn:A; [intros E; discriminate E|].
  match goal with |- context [POk _ ?o] => generalize o end. intros o.
  destruct (nth 212 input 0 =? 1) eqn:F1; destruct (nth 212 input 0 =? 0) eqn:F0; cbn [orb negb];
  intros E; try discriminate E; injection E as E1 E2; lia. Qed.

(* ------------------------------------------------------------------ BN254 prices *)
Lemma bn_add_gas_eip spec : bn_add_gas spec = eip_bn_add_gas (2 <=? spec).
Proof. unfold bn_add_gas, eip_bn_add_gas, S_ISTANBUL. destruct (spec <? 2) eqn:A; destruct (2 <=? spec) eqn:B; try reflexivity; lia. Qed.
Lemma bn_mul_gas_eip spec : bn_mul_gas spec = eip_bn_mul_gas (2 <=? spec).
Proof. unfold bn_mul_gas, eip_bn_mul_gas, S_ISTANBUL. destruct (spec <? 2) eqn:A; destruct (2 <=? spec) eqn:B; try reflexivity; lia. Qed.
Lemma bn_pair_gas_eip spec len :
  len / 192 * bn_pair_per_point spec + bn_pair_base spec = eip_bn_pair_gas (2 <=? spec) (len / 192).
Proof. unfold bn_pair_per_point, bn_pair_base, eip_bn_pair_gas, S_ISTANBUL.
  destruct (spec <? 2) eqn:A; destruct (2 <=? spec) eqn:B; try lia. Qed.

Lemma bn_read_point_err b k : bn_read_point b = RErr k -> k <> E_OutOfGas.
Proof. unfold bn_read_point.
  repeat match goal with |- context [if ?c then _ else _] => destruct c end;
  intros E; try discriminate E; injection E as E; subst k; discriminate. Qed.
Lemma bn_add_oog_iff input cost limit : bn_run_add input cost limit = PErr E_OutOfGas <-> limit < cost.
Proof. unfold bn_run_add. destruct (limit <? cost) eqn:A.
  - split; intros; [lia|reflexivity].
  - split; intros H; [|lia]. exfalso.
    destruct (bn_read_point (slice 0 64 _)) as [p1|k1] eqn:E1.
    + destruct (bn_read_point (slice 64 64 _)) as [p2|k2] eqn:E2; [discriminate H|].
      injection H as H. exact (bn_read_point_err _ _ E2 H).
    + injection H as H. exact (bn_read_point_err _ _ E1 H). Qed.
Lemma bn_mul_oog_iff input cost limit : bn_run_mul input cost limit = PErr E_OutOfGas <-> limit < cost.
Proof. unfold bn_run_mul. destruct (limit <? cost) eqn:A.
  - split; intros; [lia|reflexivity].
  - split; intros H; [|lia]. exfalso.
    destruct (bn_read_point (slice 0 64 _)) as [p1|k1] eqn:E1; [discriminate H|].
    injection H as H. exact (bn_read_point_err _ _ E1 H). Qed.
Lemma bn_pair_walk_not_oog elems oracle t g : bn_pair_walk elems oracle t g <> PErr E_OutOfGas.
Proof. revert t. induction elems as [|e r IH]; intros t; cbn [bn_pair_walk].
  - destruct t; [discriminate|]. destruct oracle; [|discriminate]. destruct (_ || _); discriminate.
  - repeat match goal with |- context [if ?c then _ else _] => destruct c end; try discriminate; try apply IH. Qed.
(* the memo table of Model/Precompile.v is exact *)
Lemma bn_g2_known_valid : forallb (fun q => let '(a, b, c, d) := q in bn_g2_valid a b c d) bn_g2_known = true.
Proof. vm_compute. reflexivity. Qed.
Lemma q4_eqb_eq a b : q4_eqb a b = true -> a = b.
Proof. destruct a as [[[a1 a2] a3] a4], b as [[[b1 b2] b3] b4]. unfold q4_eqb. intros H.
  apply Bool.andb_true_iff in H as [H H4]. apply Bool.andb_true_iff in H as [H H3]. apply Bool.andb_true_iff in H as [H1 H2].
  apply Z.eqb_eq in H1, H2, H3, H4. subst. reflexivity. Qed.
Lemma bn_g2_valid_memo_exact xi xr yi yr : bn_g2_valid_memo xi xr yi yr = bn_g2_valid xi xr yi yr.
Proof. unfold bn_g2_valid_memo. destruct (existsb _ bn_g2_known) eqn:E; [|reflexivity].
  apply existsb_exists in E as (q & Hin & Hq). apply q4_eqb_eq in Hq. subst q.
  pose proof bn_g2_known_valid as K. rewrite forallb_forall in K. specialize (K _ Hin). cbn beta iota in K. symmetry. exact K. Qed.
Lemma bn_pair_invalid_g2_fails :
  forall e rest oracle t g,
    (forall n, In n (seq 0 6) -> be_to_Z (slice (32 * n) 32 e) < bn_p) ->
    ((be_to_Z (slice (32 * 0%nat) 32 e) =? 0) && (be_to_Z (slice (32 * 1%nat) 32 e) =? 0) = true \/
     on_curve bn_F 3 (be_to_Z (slice (32 * 0%nat) 32 e)) (be_to_Z (slice (32 * 1%nat) 32 e)) = true) ->
    forallb (fun n => be_to_Z (slice (32 * n) 32 e) =? 0) (seq 2 4) = false ->
    bn_g2_valid (be_to_Z (slice (32 * 2%nat) 32 e)) (be_to_Z (slice (32 * 3%nat) 32 e))
                (be_to_Z (slice (32 * 4%nat) 32 e)) (be_to_Z (slice (32 * 5%nat) 32 e)) = false ->
    bn_pair_walk (e :: rest) oracle t g = PErr E_Bn128AffineGFailedToCreate.
Proof.
  intros e rest oracle t g Hlt Hg1 Hinf Hbad. cbn [bn_pair_walk].
  assert (E : existsb (fun n => bn_p <=? be_to_Z (slice (32 * n) 32 e)) (seq 0 6) = false).
  { destruct (existsb _ (seq 0 6)) eqn:X; [|reflexivity]. apply existsb_exists in X as (n & Hin & Hn).
    apply Z.leb_le in Hn. specialize (Hlt n Hin). lia. }
  rewrite E.
  destruct Hg1 as [H|H].
  - rewrite H. cbn [negb andb]. rewrite Hinf, bn_g2_valid_memo_exact, Hbad. reflexivity.
  - rewrite H. rewrite Bool.andb_false_r. rewrite Hinf, bn_g2_valid_memo_exact, Hbad. reflexivity.
Qed.

Lemma bn_pair_oog_iff input per base limit oracle :
  bn_run_pair input per base limit oracle = PErr E_OutOfGas <-> limit < zlen input / 192 * per + base.
Proof. unfold bn_run_pair. destruct (limit <? _) eqn:A.
  - split; intros; [lia|reflexivity].
  - split; intros H; [|lia]. exfalso. destruct (negb _); [discriminate|].
    eapply bn_pair_walk_not_oog; exact H. Qed.

(* ------------------------------------------------------------------ modexp: the value *)
Lemma modexp_pos_spec b e m : m <> 0 -> modexp_pos b e m = b ^ Zpos e mod m.
Proof. intros Hm. induction e as [e IH|e IH|].
  - cbn [modexp_pos]. rewrite IH. rewrite Pos2Z.inj_xI.
    replace (2 * Z.pos e + 1) with (Z.pos e + Z.pos e + 1) by lia.
    rewrite !Z.pow_add_r, Z.pow_1_r by lia.
    rewrite <- Z.mul_mod by exact Hm. rewrite Z.mul_mod_idemp_l by exact Hm. reflexivity.
  - cbn [modexp_pos]. rewrite IH. rewrite Pos2Z.inj_xO.
    replace (2 * Z.pos e) with (Z.pos e + Z.pos e) by lia.
    rewrite Z.pow_add_r by lia. rewrite <- Z.mul_mod by exact Hm. reflexivity.
  - cbn [modexp_pos]. rewrite Z.pow_1_r. reflexivity. Qed.

Lemma modexp_spec b e m : 0 <= e -> m <> 0 -> modexp b e m = b ^ e mod m.
Proof. intros He Hm. unfold modexp. apply Z.eqb_neq in Hm as Hm'. rewrite Hm'.
  destruct e as [|e|e]; [reflexivity|apply modexp_pos_spec; exact Hm|lia]. Qed.
Lemma modexp_zero_modulus b e : modexp b e 0 = 0.
Proof. reflexivity. Qed.

(* ------------------------------------------------------------------ modexp: gas *)
Lemma mul_complexity_eip x : mul_complexity x = eip198_mult_complexity x.
Proof. unfold mul_complexity, eip198_mult_complexity. rewrite Z.pow_2_r. reflexivity. Qed.

Lemma mult_complexity_2565_eip b m :
  0 <= b -> 0 <= m -> calculate_multiplication_complexity b m = eip2565_mult_complexity b m.
Proof. intros Hb Hm. unfold calculate_multiplication_complexity, eip2565_mult_complexity, ceil_div.
  rewrite Z.pow_2_r.
  assert (0 <= Z.max b m mod 8 < 8) by (apply Z.mod_pos_bound; lia).
  destruct (0 <? Z.max b m mod 8) eqn:A; destruct (Z.max b m mod 8 =? 0) eqn:B; try reflexivity; lia. Qed.

Lemma bit_len_log2 x : 0 < x -> bit_len x - 1 = Z.log2 x.
Proof. intros H. unfold bit_len. destruct (x <=? 0) eqn:A; lia. Qed.

Lemma sat64_min x : 0 <= x -> sat64 x = Z.min (pow64 - 1) x.
Proof. intros H. unfold sat64. destruct (x <? 0) eqn:A; [lia|]. destruct (x <? pow64) eqn:B; lia. Qed.

(* the u64 iteration count of the code is the EIP's iteration count, saturated at 2^64-1 *)
Lemma iteration_count_eip el hp :
  0 <= el -> 0 <= hp < pow256 ->
  calculate_iteration_count el hp = Z.min (pow64 - 1) (eip2565_iteration_count el hp).
Proof. intros Hel Hhp. unfold calculate_iteration_count, eip2565_iteration_count, eip198_adjusted_exponent_length.
  assert (Hlog : 0 < hp -> 0 <= Z.log2 hp < 256).
  { intros P. split; [apply Z.log2_nonneg|]. apply Z.log2_lt_pow2; [exact P|]. rewrite <- pow256_eq. lia. }
  destruct (el <=? 32) eqn:A; cbn [andb].
  - destruct (hp =? 0) eqn:B.
    + unfold pow64. lia.
    + assert (0 < hp) by lia. rewrite bit_len_log2 by lia. specialize (Hlog H). unfold pow64. lia.
  - assert (32 < el) by lia. rewrite (sat64_min (8 * (el - 32))) by lia.
    destruct (hp =? 0) eqn:B.
    + assert (hp = 0) by lia. subst hp. change (bit_len 0) with 0. rewrite sat64_min by (unfold pow64; lia). unfold pow64. lia.
    + assert (P : 0 < hp) by lia. specialize (Hlog P).
      replace (Z.max 1 (bit_len hp) - 1) with (Z.log2 hp) by (rewrite <- bit_len_log2 by lia; unfold bit_len; destruct (hp <=? 0) eqn:C; lia).
      rewrite sat64_min by (unfold pow64; lia). unfold pow64. lia. Qed.

Lemma iteration_count_eip_exact el hp :
  0 <= el -> 0 <= hp < pow256 -> eip2565_iteration_count el hp < pow64 ->
  calculate_iteration_count el hp = eip2565_iteration_count el hp.
Proof. intros. rewrite iteration_count_eip by assumption. lia. Qed.

Lemma iteration_count_pos el hp : 1 <= eip2565_iteration_count el hp.
Proof. unfold eip2565_iteration_count. lia. Qed.

(* gas: equal to the EIP value whenever nothing saturates *)
Lemma berlin_gas_eip bl el ml hp :
  0 <= bl -> 0 <= el -> 0 <= ml -> 0 <= hp < pow256 ->
  eip2565_iteration_count el hp < pow64 -> eip2565_gas bl el ml hp < pow64 ->
  berlin_gas_calc bl el ml hp = eip2565_gas bl el ml hp.
Proof. intros Hb He Hm Hh Hi Hg. unfold berlin_gas_calc, eip2565_gas in *.
  rewrite mult_complexity_2565_eip by assumption. rewrite iteration_count_eip_exact by assumption.
  pose proof (iteration_count_pos el hp) as P.
  assert (0 <= eip2565_mult_complexity bl ml) by (unfold eip2565_mult_complexity; rewrite Z.pow_2_r; nia).
  assert (0 <= eip2565_mult_complexity bl ml * eip2565_iteration_count el hp) by nia.
  set (X := eip2565_mult_complexity bl ml * eip2565_iteration_count el hp) in *.
  assert (0 <= X / 3) by (apply Z.div_pos; lia).
  rewrite sat64_min by assumption. unfold pow64 in *. lia. Qed.

Lemma byzantium_gas_eip bl el ml hp :
  0 <= bl -> 0 <= el -> 0 <= ml -> 0 <= hp < pow256 ->
  eip2565_iteration_count el hp < pow64 -> eip198_gas bl el ml hp < pow64 ->
  0 <= eip198_mult_complexity (Z.max ml bl) ->
  byzantium_gas_calc bl el ml hp = eip198_gas bl el ml hp.
Proof. intros Hb He Hm Hh Hi Hg Hmc. unfold byzantium_gas_calc, eip198_gas in *.
  rewrite mul_complexity_eip. rewrite iteration_count_eip_exact by assumption.
  fold (eip2565_iteration_count el hp) in *.
  pose proof (iteration_count_pos el hp) as P.
  set (M := eip198_mult_complexity (Z.max ml bl)) in *.
  assert (0 <= M * eip2565_iteration_count el hp) by nia.
  set (X := M * eip2565_iteration_count el hp) in *.
  assert (0 <= X / 20) by (apply Z.div_pos; lia).
  rewrite sat64_min by assumption. unfold pow64 in *. lia. Qed.

(* ------------------------------------------------------------------ call_precompile *)
Lemma call_error_consumes_all passed k :
  call_consumed passed (PErr k) = passed /\
  fst (fst (call_precompile passed (PErr k))) <> 0 /\ snd (call_precompile passed (PErr k)) = [].
Proof. unfold call_consumed, call_precompile.
  destruct (k =? E_OutOfGas); [|destruct (k =? E_Fatal)]; cbn; repeat split; discriminate. Qed.
Lemma call_oog_class passed : fst (fst (call_precompile passed (PErr E_OutOfGas))) = 1.
Proof. reflexivity. Qed.
Lemma call_success_charges_gas_used passed g out :
  g <= passed ->
  call_precompile passed (POk g out) = (0, passed - g, out) /\ call_consumed passed (POk g out) = g.
Proof. intros H. unfold call_consumed, call_precompile. destruct (g <=? passed) eqn:A; [|lia].
  cbn. split; [reflexivity|lia]. Qed.

(* ------------------------------------------------------------------ EIP-2537 tables *)
Lemma g1_table_eip : g1_discount_table = eip2537_g1_discount. Proof. reflexivity. Qed.
Lemma g2_table_eip : g2_discount_table = eip2537_g2_discount. Proof. reflexivity. Qed.

Lemma msm_gas_eip_g1 k : 1 <= k ->
  msm_required_gas k eip2537_g1_discount 12000 = eip2537_msm_gas eip2537_g1_discount eip2537_g1mul k.
Proof. intros H. unfold msm_required_gas, eip2537_msm_gas, eip2537_discount, eip2537_g1mul.
  destruct (k =? 0) eqn:A; [lia|]. change (zlen eip2537_g1_discount) with 128.
  destruct (k <=? 128) eqn:B.
  - rewrite Z.min_l by lia. f_equal. ring.
  - rewrite Z.min_r by lia. change (nth (Z.to_nat (128 - 1)) eip2537_g1_discount 0) with 519.
    change (last eip2537_g1_discount 0) with 519. f_equal. ring. Qed.
Lemma msm_gas_eip_g2 k : 1 <= k ->
  msm_required_gas k eip2537_g2_discount 22500 = eip2537_msm_gas eip2537_g2_discount eip2537_g2mul k.
Proof. intros H. unfold msm_required_gas, eip2537_msm_gas, eip2537_discount, eip2537_g2mul.
  destruct (k =? 0) eqn:A; [lia|]. change (zlen eip2537_g2_discount) with 128.
  destruct (k <=? 128) eqn:B.
  - rewrite Z.min_l by lia. f_equal. ring.
  - rewrite Z.min_r by lia. change (nth (Z.to_nat (128 - 1)) eip2537_g2_discount 0) with 524.
    change (last eip2537_g2_discount 0) with 524. f_equal. ring. Qed.

(* the executed price list (k = 1..140 all-infinity entries) equals the EIP formula, cell by cell *)
Definition cells_ok (l : list Z) (f : Z -> Z) : bool :=
  forallb (fun p => snd p =? f (Z.of_nat (fst p))) (combine (seq 1 (length l)) l).
Lemma executed_g1_msm_gas : length g1_msm_gas_by_k = 140%nat /\
  cells_ok g1_msm_gas_by_k (eip2537_msm_gas eip2537_g1_discount eip2537_g1mul) = true.
Proof. split; vm_compute; reflexivity. Qed.
Lemma executed_g2_msm_gas : length g2_msm_gas_by_k = 140%nat /\
  cells_ok g2_msm_gas_by_k (eip2537_msm_gas eip2537_g2_discount eip2537_g2mul) = true.
Proof. split; vm_compute; reflexivity. Qed.
Lemma executed_pairing_gas : length pairing_gas_by_k = 140%nat /\
  cells_ok pairing_gas_by_k eip2537_pairing = true.
Proof. split; vm_compute; reflexivity. Qed.

(* ------------------------------------------------------------------ fixed-price BLS / KZG: out of gas iff *)
Lemma bls_opaque_not_oog g f b o : bls_opaque g f b o <> PErr E_OutOfGas.
Proof. unfold bls_opaque. destruct o as [? out|k].
  - destruct (f out); discriminate.
  - destruct k as [|k|k]; try discriminate. do 4 (destruct k; try discriminate). destruct b; discriminate. Qed.

Lemma kzg_oog_iff input limit oracle : kzg_run input limit oracle = PErr E_OutOfGas <-> limit < 50000.
Proof. unfold kzg_run. destruct (limit <? 50000) eqn:A.
  - split; intros; [lia|reflexivity].
  - split; intros H; [|lia]. exfalso.
    repeat match type of H with context [if ?c then _ else _] => destruct c end; try discriminate.
    destruct oracle as [? ?|k]; try discriminate.
    destruct k as [|k|k]; try discriminate. do 4 (destruct k; try discriminate). Qed.
Lemma bls_g1_add_oog_iff input limit oracle : bls_g1_add_run input limit oracle = PErr E_OutOfGas <-> limit < eip2537_g1add.
Proof. unfold bls_g1_add_run, eip2537_g1add. destruct (limit <? 375) eqn:A.
  - split; intros; [lia|reflexivity].
  - split; intros H; [|lia]. exfalso.
    repeat match type of H with context [if ?c then _ else _] => destruct c end; try discriminate.
    eapply bls_opaque_not_oog; exact H. Qed.
Lemma bls_g2_add_oog_iff input limit oracle : bls_g2_add_run input limit oracle = PErr E_OutOfGas <-> limit < eip2537_g2add.
Proof. unfold bls_g2_add_run, eip2537_g2add. destruct (limit <? 600) eqn:A.
  - split; intros; [lia|reflexivity].
  - split; intros H; [|lia]. exfalso.
    repeat match type of H with context [if ?c then _ else _] => destruct c end; try discriminate.
    eapply bls_opaque_not_oog; exact H. Qed.

(* ------------------------------------------------------------------ modexp: out of gas for ALL lengths *)
(* For every header (any lengths below 2^64, any exponent head) and every limit below
   2^64/20 = 922337203685477580 the code's decision "cost > limit" is the EIP's decision, even
   where the u64 iteration count or the final conversion saturate. *)
Lemma eip2565_mc_pos bl ml : 0 <= bl -> 0 <= ml -> 1 <= Z.max bl ml -> 1 <= eip2565_mult_complexity bl ml.
Proof. intros Hb Hm H. unfold eip2565_mult_complexity, ceil_div. rewrite Z.pow_2_r.
  assert (1 <= Z.max bl ml / 8 + (if Z.max bl ml mod 8 =? 0 then 0 else 1)) by (destruct (Z.max bl ml mod 8 =? 0) eqn:A; lia).
  nia. Qed.
Lemma eip198_mc_pos x : 1 <= x -> 1 <= eip198_mult_complexity x.
Proof. intros H. unfold eip198_mult_complexity. rewrite Z.pow_2_r.
  destruct (x <=? 64) eqn:A; [nia|]. destruct (x <=? 1024) eqn:B.
  - assert (0 <= x * x / 4) by (apply Z.div_pos; nia). lia.
  - assert (0 <= x * x / 16) by (apply Z.div_pos; nia). lia. Qed.

Lemma oog_decision_generic mc I d limit :
  1 <= mc -> 1 <= I -> (d = 3 \/ d = 20) -> 0 <= limit < pow64 / 20 ->
  (limit < sat64 (mc * Z.min (pow64 - 1) I / d) <-> limit < mc * I / d).
Proof. intros Hmc HI Hd Hl.
  assert (Hd0 : 0 < d) by lia.
  assert (H0 : 0 <= mc * Z.min (pow64 - 1) I / d) by (apply Z.div_pos; [unfold pow64; nia|lia]).
  rewrite sat64_min by assumption.
  change (pow64 / 20) with 922337203685477580 in Hl.
  destruct (Z_le_gt_dec I (pow64 - 1)) as [Hs|Hb].
  - rewrite Z.min_r in * by lia. set (X := mc * I / d) in *. unfold pow64 in *. lia.
  - rewrite Z.min_l in * by lia.
    assert (A : (pow64 - 1) / d <= mc * (pow64 - 1) / d) by (apply Z.div_le_mono; [lia|unfold pow64; nia]).
    assert (B : mc * (pow64 - 1) / d <= mc * I / d) by (apply Z.div_le_mono; [lia|unfold pow64 in *; nia]).
    assert (C : 922337203685477580 <= (pow64 - 1) / d) by (destruct Hd; subst d; vm_compute; discriminate).
    set (X := mc * I / d) in *. set (Y := mc * (pow64 - 1) / d) in *. set (W := (pow64 - 1) / d) in *.
    unfold pow64. lia. Qed.

Lemma berlin_oog_decision bl el ml hp limit :
  0 <= bl -> 0 <= el -> 0 <= ml -> 0 <= hp < pow256 -> 1 <= Z.max bl ml ->
  0 <= limit < pow64 / 20 ->
  (limit < berlin_gas_calc bl el ml hp <-> limit < eip2565_gas bl el ml hp).
Proof. intros Hb He Hm Hh Hx Hl. unfold berlin_gas_calc, eip2565_gas.
  rewrite mult_complexity_2565_eip by assumption. rewrite iteration_count_eip by assumption.
  pose proof (eip2565_mc_pos bl ml Hb Hm Hx) as P1. pose proof (iteration_count_pos el hp) as P2.
  pose proof (oog_decision_generic _ _ 3 limit P1 P2 (or_introl eq_refl) Hl) as G.
  lia. Qed.

Lemma byzantium_oog_decision bl el ml hp limit :
  0 <= bl -> 0 <= el -> 0 <= ml -> 0 <= hp < pow256 -> 1 <= Z.max ml bl ->
  0 <= limit < pow64 / 20 ->
  (limit < byzantium_gas_calc bl el ml hp <-> limit < eip198_gas bl el ml hp).
Proof. intros Hb He Hm Hh Hx Hl. unfold byzantium_gas_calc, eip198_gas.
  rewrite mul_complexity_eip. rewrite iteration_count_eip by assumption.
  fold (eip2565_iteration_count el hp).
  pose proof (eip198_mc_pos _ Hx) as P1. pose proof (iteration_count_pos el hp) as P2.
  exact (oog_decision_generic _ _ 20 limit P1 P2 (or_intror eq_refl) Hl). Qed.

(* the literal statement without the bound on the limit is false: with limit = 2^64 - 1 the
   saturated cost is never above the limit although the EIP cost is *)
Lemma berlin_oog_decision_unbounded_refuted :
  exists bl el ml hp limit, 0 <= limit < pow64 /\
    ~ (limit < berlin_gas_calc bl el ml hp <-> limit < eip2565_gas bl el ml hp).
Proof. exists 9, 9223372036854775808, 9, 1, (pow64 - 1). split; [unfold pow64; lia|].
  vm_compute. intros [A B]. specialize (B eq_refl). discriminate B. Qed.

