(* Proofs for C04: the jump table computed by [analyze] on the padded code marks exactly the
   JUMPDEST bytes of the original code that are instruction starts. *)
From Coq Require Import ZifyBool.
From RevmV Require Import Base.Word Model.Jump Spec.JumpSpec.
Local Open Scope Z_scope.
Ltac Zify.zify_post_hook ::= Z.div_mod_to_equations.

(* ---- advance = pushlen on bytes ---------------------------------------------------------- *)
Lemma advance_pushlen b : byte_ok b -> advance b = pushlen b.
Proof.
  unfold byte_ok, advance, pushlen, push_offset, OP_JUMPDEST, OP_PUSH1. intros Hb.
  destruct (b =? 91) eqn:E1; destruct ((b - 96) mod 256 <? 32) eqn:E2;
    destruct (96 <=? b) eqn:E3; destruct (b <=? 127) eqn:E4; cbn [andb]; lia.
Qed.

Lemma pushlen_jumpdest : pushlen 0x5b = 0%nat.
Proof. reflexivity. Qed.

(* ---- list facts -------------------------------------------------------------------------- *)
Lemma nth_skipn_add {A} (l : list A) (k m : nat) (d : A) :
  nth (k + m) l d = nth m (skipn k l) d.
Proof.
  revert l. induction k as [|k IH]; intros l; [reflexivity|].
  destruct l as [|x l]; [destruct m; reflexivity|]. cbn. apply IH.
Qed.

Lemma analyze_from_length k l : length (analyze_from k l) = length l.
Proof.
  revert k. induction l as [|b r IH]; intros k; [reflexivity|].
  destruct k; cbn [analyze_from length]; rewrite IH; reflexivity.
Qed.

(* ---- InstrStart: peeling off the first instruction ---------------------------------------- *)
Lemma IS_cons_inv b r j :
  InstrStart (b :: r) j ->
  j = 0%nat \/ ((1 + pushlen b <= j)%nat /\ InstrStart (skipn (pushlen b) r) (j - 1 - pushlen b)).
Proof.
  induction 1 as [|i Hi IH Hlt]; [left; reflexivity|]. right.
  destruct IH as [->|[Hge Hs]].
  - cbn [nth]. split; [lia|]. replace (0 + 1 + pushlen b - 1 - pushlen b)%nat with 0%nat by lia.
    constructor.
  - assert (Hn : nth i (b :: r) 0%Z = nth (i - 1 - pushlen b) (skipn (pushlen b) r) 0%Z).
    { replace i with (S (pushlen b + (i - 1 - pushlen b)))%nat at 1 by lia.
      cbn [nth]. apply nth_skipn_add. }
    rewrite Hn. split; [lia|].
    replace (i + 1 + pushlen (nth (i - 1 - pushlen b) (skipn (pushlen b) r) 0%Z) - 1 - pushlen b)%nat
      with ((i - 1 - pushlen b) + 1 + pushlen (nth (i - 1 - pushlen b) (skipn (pushlen b) r) 0%Z))%nat
      by lia.
    apply IS_next; [exact Hs|]. rewrite skipn_length. cbn [length] in Hlt. lia.
Qed.

Lemma IS_cons_intro b r m :
  InstrStart (skipn (pushlen b) r) m -> InstrStart (b :: r) (1 + pushlen b + m).
Proof.
  induction 1 as [|i Hi IH Hlt].
  - replace (1 + pushlen b + 0)%nat with (0 + 1 + pushlen (nth 0 (b :: r) 0%Z))%nat by (cbn [nth]; lia).
    apply IS_next; [constructor|cbn [length]; lia].
  - rewrite skipn_length in Hlt.
    assert (Hn : nth (1 + pushlen b + i) (b :: r) 0%Z = nth i (skipn (pushlen b) r) 0%Z).
    { cbn [Nat.add nth]. apply nth_skipn_add. }
    replace (1 + pushlen b + (i + 1 + pushlen (nth i (skipn (pushlen b) r) 0%Z)))%nat
      with ((1 + pushlen b + i) + 1 + pushlen (nth (1 + pushlen b + i) (b :: r) 0%Z))%nat
      by (rewrite Hn; lia).
    apply IS_next; [exact IH|cbn [length]; lia].
Qed.

Lemma IS_cons_S b r j :
  InstrStart (b :: r) (S j) <->
  (pushlen b <= j)%nat /\ InstrStart (skipn (pushlen b) r) (j - pushlen b).
Proof.
  split.
  - intros H. apply IS_cons_inv in H. destruct H as [H|[H1 H2]]; [discriminate|].
    split; [lia|]. replace (j - pushlen b)%nat with (S j - 1 - pushlen b)%nat by lia. exact H2.
  - intros [H1 H2]. replace (S j) with (1 + pushlen b + (j - pushlen b))%nat by lia.
    apply IS_cons_intro. exact H2.
Qed.

(* ---- the analysis loop ------------------------------------------------------------------- *)
Lemma analyze_from_spec l :
  bytes_ok l ->
  forall k j,
    nth j (analyze_from k l) false = true <->
    (j < length l)%nat /\ nth j l 0%Z = 0x5b /\ (k <= j)%nat /\ InstrStart (skipn k l) (j - k).
Proof.
  induction 1 as [|b r Hb Hr IH]; intros k j.
  - cbn [analyze_from length]. destruct j; cbn [nth]; split; [discriminate|lia|discriminate|lia].
  - destruct k as [|k].
    + cbn [analyze_from skipn]. rewrite Nat.sub_0_r. destruct j as [|j].
      * cbn [nth length]. unfold OP_JUMPDEST. rewrite Z.eqb_eq. split.
        -- intros ->. repeat split; try lia. constructor.
        -- tauto.
      * cbn [nth length]. rewrite IH, (advance_pushlen b Hb), IS_cons_S.
        split; intros H; repeat split; try tauto; lia.
    + cbn [analyze_from skipn]. destruct j as [|j].
      * cbn [nth]. split; [discriminate|lia].
      * cbn [nth length]. rewrite IH. cbn [Nat.sub].
        split; intros H; repeat split; try tauto; lia.
Qed.

Lemma analyze_spec l j :
  bytes_ok l ->
  nth j (analyze l) false = true <->
  (j < length l)%nat /\ nth j l 0%Z = 0x5b /\ InstrStart l j.
Proof.
  intros Hl. unfold analyze. rewrite (analyze_from_spec l Hl 0 j). cbn [skipn].
  rewrite Nat.sub_0_r. split; intros H; repeat split; try tauto; lia.
Qed.

(* ---- padding does not change starts inside the original code ------------------------------- *)
Lemma IS_app_l code z j : InstrStart code j -> InstrStart (code ++ z) j.
Proof.
  induction 1 as [|i Hi IH Hlt]; [constructor|].
  rewrite <- (app_nth1 code z 0 Hlt). apply IS_next; [exact IH|].
  rewrite app_length. lia.
Qed.

Lemma IS_app_inv code z j :
  InstrStart (code ++ z) j -> (j < length code)%nat -> InstrStart code j.
Proof.
  induction 1 as [|i Hi IH Hlt]; intros Hj; [constructor|].
  assert (Hi' : (i < length code)%nat) by lia.
  rewrite (app_nth1 code z 0 Hi'). apply IS_next; [apply IH; exact Hi'|exact Hi'].
Qed.

Lemma padding_bytes_ok : bytes_ok padding.
Proof. unfold padding. apply Forall_forall. intros x Hx. apply repeat_spec in Hx. subst x.
  unfold byte_ok. lia. Qed.

Lemma nth_padding i : nth i padding 0%Z = 0.
Proof.
  destruct (Nat.lt_ge_cases i (length padding)) as [H|H].
  - apply (repeat_spec 33 0). apply nth_In. exact H.
  - apply nth_overflow. exact H.
Qed.

Lemma analyze_padded_spec code j :
  bytes_ok code ->
  nth j (analyze (code ++ padding)) false = true <->
  (j < length code)%nat /\ nth j code 0%Z = 0x5b /\ InstrStart code j.
Proof.
  intros Hc. rewrite analyze_spec by (apply Forall_app; split; [exact Hc|exact padding_bytes_ok]).
  split.
  - intros (H1 & H2 & H3).
    destruct (Nat.lt_ge_cases j (length code)) as [Hlt|Hge].
    + rewrite app_nth1 in H2 by exact Hlt. repeat split; try assumption.
      apply IS_app_inv with (z := padding); assumption.
    + rewrite app_nth2 in H2 by exact Hge. rewrite nth_padding in H2. discriminate.
  - intros (H1 & H2 & H3). repeat split.
    + rewrite app_length. lia.
    + rewrite app_nth1 by exact H1. exact H2.
    + apply IS_app_l. exact H3.
Qed.

(* ---- main theorem ------------------------------------------------------------------------ *)
Definition code_fits (code : list Z) : Prop := zlen code + 33 <= pow64.

Theorem jump_ok_iff code t :
  bytes_ok code -> code_fits code -> 0 <= t < pow256 ->
  jump_ok (to_analysed (LegacyRaw code)) t = true <-> ValidDest code t.
Proof.
  intros Hc Hfit Ht. unfold ValidDest, code_fits, zlen in *.
  unfold jump_ok, as_usize, to_analysed, is_valid_jump, legacy_jump_table, la_jump_table,
    jt_is_valid, zlen.
  rewrite (analyze_from_length 0), app_length. change (length padding) with 33%nat.
  destruct (t <? pow64) eqn:E64.
  - apply Z.ltb_lt in E64.
    destruct (0 <=? t) eqn:E0; [|apply Z.leb_gt in E0; lia]. cbn [andb].
    destruct (t <? Z.of_nat (length code + 33)) eqn:El.
    + apply Z.ltb_lt in El. rewrite (analyze_padded_spec code (Z.to_nat t) Hc).
      split; intros (H1 & H2 & H3); repeat split; try assumption; lia.
    + apply Z.ltb_ge in El. split; [discriminate|]. intros (H1 & _). lia.
  - apply Z.ltb_ge in E64. split; [discriminate|]. intros (H1 & _). lia.
Qed.

(* ---- the two opcodes --------------------------------------------------------------------- *)
Lemma op_jump_spec code pc t :
  bytes_ok code -> code_fits code -> 0 <= t < pow256 ->
  (ValidDest code t /\ op_jump (to_analysed (LegacyRaw code)) pc t = JContinue t) \/
  (~ ValidDest code t /\ op_jump (to_analysed (LegacyRaw code)) pc t = JInvalidJump).
Proof.
  intros Hc Hf Ht. pose proof (jump_ok_iff code t Hc Hf Ht) as H.
  unfold op_jump, jump_inner. destruct (jump_ok _ t).
  - left. split; [apply H; reflexivity|reflexivity].
  - right. split; [|reflexivity]. intros Hv. apply H in Hv. discriminate.
Qed.

Lemma op_jumpi_spec code pc t c :
  bytes_ok code -> code_fits code -> 0 <= t < pow256 ->
  (c = 0 /\ op_jumpi (to_analysed (LegacyRaw code)) pc t c = JContinue (pc + 1)) \/
  (c <> 0 /\ ValidDest code t /\ op_jumpi (to_analysed (LegacyRaw code)) pc t c = JContinue t) \/
  (c <> 0 /\ ~ ValidDest code t /\ op_jumpi (to_analysed (LegacyRaw code)) pc t c = JInvalidJump).
Proof.
  intros Hc Hf Ht. unfold op_jumpi. destruct (c =? 0) eqn:E.
  - left. apply Z.eqb_eq in E. tauto.
  - apply Z.eqb_neq in E. right.
    destruct (op_jump_spec code pc t Hc Hf Ht) as [[H1 H2]|[H1 H2]]; unfold op_jump in H2; tauto.
Qed.

(* ---- instruction starts are totally ordered chains ---------------------------------------- *)
Lemma IS_step_ge code j :
  InstrStart code j ->
  forall i, InstrStart code i -> (i < length code)%nat -> (i < j)%nat ->
            (i + 1 + pushlen (nth i code 0%Z) <= j)%nat.
Proof.
  induction j as [j IHj] using lt_wf_ind. intros Hj i Hi Hlen Hij.
  inversion Hj as [Hz|k Hk Hklen Hjk]; [lia|].
  destruct (Nat.lt_trichotomy i k) as [Hlt|[Heq|Hgt]].
  - assert (i + 1 + pushlen (nth i code 0%Z) <= k)%nat by (apply IHj; try assumption; lia). lia.
  - subst i. lia.
  - assert (k + 1 + pushlen (nth k code 0%Z) <= i)%nat by (apply (IHj i); try assumption; lia). lia.
Qed.

(* a start is never inside push data *)
Lemma IS_not_in_push_data code t : InstrStart code t -> ~ InPushData code t.
Proof.
  intros Ht (i & Hi & Hlen & Hlo & Hhi).
  pose proof (IS_step_ge code t Ht i Hi Hlen Hlo). lia.
Qed.

(* every position inside the code is covered by the instruction that begins at the last start
   before it *)
Lemma IS_cover code t :
  (t < length code)%nat ->
  exists i, InstrStart code i /\ (i <= t)%nat /\ (t <= i + pushlen (nth i code 0%Z))%nat.
Proof.
  induction t as [|t IH]; intros Ht.
  - exists 0%nat. split; [constructor|lia].
  - destruct IH as (i & Hi & H1 & H2); [lia|].
    destruct (Nat.eq_dec t (i + pushlen (nth i code 0%Z))) as [E|N].
    + exists (S t). split; [|lia].
      replace (S t) with (i + 1 + pushlen (nth i code 0%Z))%nat by lia.
      apply IS_next; [exact Hi|lia].
    + exists i. split; [exact Hi|lia].
Qed.

Lemma IS_iff_not_push_data code t :
  (t < length code)%nat -> (InstrStart code t <-> ~ InPushData code t).
Proof.
  intros Ht. split; [apply IS_not_in_push_data|].
  intros Hn. destruct (IS_cover code t Ht) as (i & Hi & H1 & H2).
  destruct (Nat.eq_dec i t) as [->|Ne]; [exact Hi|].
  exfalso. apply Hn. exists i. repeat split; try assumption; lia.
Qed.

(* the property in its own words: target inside the code, JUMPDEST byte there, and not in the
   immediate data of a preceding PUSH *)
Theorem jump_ok_iff_words code t :
  bytes_ok code -> code_fits code -> 0 <= t < pow256 ->
  jump_ok (to_analysed (LegacyRaw code)) t = true <->
  0 <= t < zlen code /\ nth (Z.to_nat t) code 0%Z = 0x5b /\ ~ InPushData code (Z.to_nat t).
Proof.
  intros Hc Hf Ht. rewrite (jump_ok_iff code t Hc Hf Ht). unfold ValidDest, zlen.
  split; intros (H1 & H2 & H3); repeat split; try assumption; try lia.
  - apply IS_iff_not_push_data; [lia|exact H3].
  - apply IS_iff_not_push_data; [lia|exact H3].
Qed.

(* ---- corollaries ------------------------------------------------------------------------- *)
Corollary padding_targets_invalid code t :
  bytes_ok code -> code_fits code -> zlen code <= t < pow256 ->
  jump_ok (to_analysed (LegacyRaw code)) t = false.
Proof.
  intros Hc Hf Ht. destruct (jump_ok _ t) eqn:E; [|reflexivity].
  apply (jump_ok_iff code t Hc Hf) in E; [|unfold zlen in Ht; lia].
  unfold ValidDest, zlen in *. lia.
Qed.

(* a PUSHn that is an instruction and whose immediate data is cut off by the end of the code:
   no position after it is a destination, whatever bytes follow *)
Corollary truncated_push_no_dest pre o data t :
  bytes_ok (pre ++ o :: data) -> code_fits (pre ++ o :: data) ->
  InstrStart (pre ++ o :: data) (length pre) ->
  (length data <= pushlen o)%nat ->
  zlen pre < t < pow256 ->
  jump_ok (to_analysed (LegacyRaw (pre ++ o :: data))) t = false.
Proof.
  intros Hc Hf Hs Hd Ht. set (code := pre ++ o :: data) in *.
  destruct (jump_ok _ t) eqn:E; [|reflexivity].
  apply (jump_ok_iff code t Hc Hf) in E; [|unfold zlen in Ht; lia].
  destruct E as (H1 & _ & H3). exfalso.
  assert (Hlen : length code = (length pre + S (length data))%nat)
    by (unfold code; rewrite app_length; reflexivity).
  assert (Hn : nth (length pre) code 0%Z = o)
    by (unfold code; rewrite app_nth2 by lia; rewrite Nat.sub_diag; reflexivity).
  unfold zlen in Ht.
  pose proof (IS_step_ge code (Z.to_nat t) H3 (length pre) Hs ltac:(lia) ltac:(lia)) as Hge.
  rewrite Hn in Hge. lia.
Qed.

(* analysing analysed code changes nothing; lazily (Contract::new) and eagerly analysed code
   have the same jump table *)
Lemma to_analysed_idem bc : to_analysed (to_analysed bc) = to_analysed bc.
Proof. destruct bc; reflexivity. Qed.

Lemma lazy_eq_eager bc t :
  is_valid_jump (contract_new (to_analysed bc)) t = is_valid_jump (contract_new bc) t.
Proof. unfold contract_new. rewrite to_analysed_idem. reflexivity. Qed.

(* shape of the analysed value: the bit vector has the padded length *)
Lemma to_analysed_shape code :
  exists a, to_analysed (LegacyRaw code) = LegacyAnalyzed a /\
            la_bytecode a = code ++ padding /\ la_original_len a = zlen code /\
            zlen (la_jump_table a) = zlen code + 33.
Proof.
  eexists. split; [reflexivity|]. cbn [la_bytecode la_original_len la_jump_table].
  repeat split. unfold zlen, analyze. rewrite analyze_from_length, app_length.
  change (length padding) with 33%nat. lia.
Qed.

(* non-legacy variants never accept a jump *)
Lemma non_legacy_no_jump bc t :
  (forall a, bc <> LegacyAnalyzed a) -> (forall b, bc <> LegacyRaw b) ->
  jump_ok (to_analysed bc) t = false.
Proof.
  intros H1 H2. destruct bc; try (exfalso; eapply H2; reflexivity);
    try (exfalso; eapply H1; reflexivity); unfold jump_ok; destruct (as_usize t); reflexivity.
Qed.

(* ---- the boolean oracle of Spec/JumpSpec.v computes InstrStart ---------------------------- *)
Lemma starts_fuel_spec fuel l j :
  (length l <= fuel)%nat ->
  nth j (starts_fuel fuel l) false = true <-> (j < length l)%nat /\ InstrStart l j.
Proof.
  revert l j. induction fuel as [|f IH]; intros l j Hf.
  - destruct l; [|cbn in Hf; lia]. cbn. destruct j; split; try discriminate; cbn; lia.
  - destruct l as [|o r].
    + cbn. destruct j; split; try discriminate; cbn; lia.
    + cbn [starts_fuel]. destruct j as [|j].
      * cbn [nth length]. split; [intros _; split; [lia|constructor]|reflexivity].
      * cbn [nth length]. rewrite IS_cons_S.
        set (p := pushlen o).
        destruct (Nat.lt_ge_cases j (Nat.min p (length r))) as [Hlt|Hge].
        -- rewrite app_nth1 by (rewrite repeat_length; exact Hlt).
           assert (Hnf : nth j (repeat false (Nat.min p (length r))) false = false).
           { destruct (nth_in_or_default j (repeat false (Nat.min p (length r))) false) as [Hin|E];
               [apply repeat_spec in Hin; exact Hin|exact E]. }
           rewrite Hnf. split; [discriminate|]. intros (H1 & H2 & H3).
           (* j < min p |r| and p <= j is impossible *) lia.
        -- rewrite app_nth2 by (rewrite repeat_length; exact Hge). rewrite repeat_length.
           rewrite IH by (rewrite skipn_length; cbn [length] in Hf; lia).
           rewrite skipn_length.
           destruct (Nat.le_gt_cases p (length r)) as [Hp|Hp].
           ++ rewrite Nat.min_l in * by exact Hp.
              split; intros H; repeat split; try tauto; lia.
           ++ rewrite Nat.min_r in * by lia.
              split.
              ** intros (H1 & _). lia.
              ** intros (H1 & H2 & _). lia.
Qed.

Lemma dests_of_nth code st j :
  length st = length code ->
  nth j (dests_of code st) false = nth j st false && (nth j code 0%Z =? 0x5b).
Proof.
  revert st j. induction code as [|o r IH]; intros st j Hl.
  - destruct st; [|discriminate]. destruct j; reflexivity.
  - destruct st as [|s st]; [discriminate|]. cbn [dests_of]. destruct j as [|j]; [reflexivity|].
    cbn [nth]. apply IH. cbn in Hl. lia.
Qed.

Lemma starts_fuel_length fuel l : (length l <= fuel)%nat -> length (starts_fuel fuel l) = length l.
Proof.
  revert l. induction fuel as [|f IH]; intros l Hf.
  - destruct l; [reflexivity|cbn in Hf; lia].
  - destruct l as [|o r]; [reflexivity|]. cbn [starts_fuel length].
    rewrite app_length, repeat_length, IH by (rewrite skipn_length; cbn [length] in Hf; lia).
    rewrite skipn_length. lia.
Qed.

Theorem valid_dests_spec code j :
  nth j (valid_dests code) false = true <->
  (j < length code)%nat /\ nth j code 0%Z = 0x5b /\ InstrStart code j.
Proof.
  unfold valid_dests, instr_starts.
  rewrite dests_of_nth by (apply starts_fuel_length; lia).
  rewrite andb_true_iff, Z.eqb_eq, starts_fuel_spec by lia. tauto.
Qed.
