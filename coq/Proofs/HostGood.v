(* "Good" steps: a state transformer that pushes journal entries E onto the current frame such
   that undoing E gives back a state with the same view. Closed under composition; every
   journaled operation of the model is Good. *)
From Coq Require Import FunctionalExtensionality.
From RevmV Require Import Base.Word Model.Host Proofs.HostView Proofs.HostUndo.
Local Open Scope Z_scope.

Definition add_entries (E : list entry) (j : list (list entry)) : list (list entry) :=
  match j with f :: r => (E ++ f) :: r | [] => [E] end.

Definition same_cfg (s s' : jstate) : Prop :=
  spurious s' = spurious s /\ cancun s' = cancun s /\ warm_pre s' = warm_pre s.

Definition Good (d : db) (s s' : jstate) : Prop :=
  exists E, journal s' = add_entries E (journal s) /\
    (exists x, undo_list (spurious s) E s' = Some x /\ cview_of d x = cview_of d s) /\
    sub s s' /\ logs s' = logs s /\ depth s' = depth s /\ same_cfg s s'.

Lemma same_cfg_refl s : same_cfg s s. Proof. repeat split. Qed.
Lemma same_cfg_trans a b c : same_cfg a b -> same_cfg b c -> same_cfg a c.
Proof. unfold same_cfg. intuition congruence. Qed.

Lemma add_entries_nil j : j <> [] -> add_entries [] j = j.
Proof. destruct j; [congruence|reflexivity]. Qed.
Lemma add_entries_app E1 E2 j : add_entries E2 (add_entries E1 j) = add_entries (E2 ++ E1) j.
Proof. destruct j; cbn; rewrite ?app_assoc; reflexivity. Qed.

Lemma Good_refl d s : journal s <> [] -> Good d s s.
Proof.
  intros H. exists []. rewrite add_entries_nil by exact H. repeat split; auto.
  exists s. split; reflexivity.
Qed.

Lemma Good_trans d s1 s2 s3 : Good d s1 s2 -> Good d s2 s3 -> Good d s1 s3.
Proof.
  intros (E1 & J1 & (x1 & U1 & V1) & S1 & L1 & D1 & C1) (E2 & J2 & (x2 & U2 & V2) & S2 & L2 & D2 & C2).
  exists (E2 ++ E1). split; [rewrite J2, J1; apply add_entries_app|].
  destruct C1 as (c1 & c1' & c1''). destruct C2 as (c2 & c2' & c2'').
  rewrite c1 in U2.
  split.
  - rewrite undo_list_app, U2.
    destruct (undo_list_frame _ _ _ _ U2) as (_ & _ & _ & Fx & _ & _ & Sx1 & Sx2).
    assert (Hc : exists u', undo_list (spurious s1) E1 x2 = Some u' /\ cview_of d u' = cview_of d x1 /\ sub x1 u').
    { apply (undo_list_congr d (spurious s1) E1 s2 x2 x1);
        [congruence|congruence|exact V2|eapply sub_trans; [exact S2|exact Sx1]|exact U1]. }
    destruct Hc as (u' & Hu & Vu & _).
    exists u'. split; [exact Hu|congruence].
  - split; [eapply sub_trans; eauto|]. split; [congruence|]. split; [congruence|].
    unfold same_cfg. repeat split; congruence.
Qed.

(* ------------------------------------------------------------------ view extensionality *)
Lemma cview_ext V W : (forall x, cv_acc V x = cv_acc W x) -> cv_ts V = cv_ts W -> V = W.
Proof. destruct V, W. cbn. intros A B. f_equal; [extensionality x; apply A|exact B]. Qed.

Lemma view_acc_put d s a acc x :
  view_acc d (put s a acc) x = if x =? a then view_of_acc d (spurious s) a acc else view_acc d s x.
Proof.
  unfold view_acc. rewrite st_put. destruct (x =? a) eqn:E; [|reflexivity].
  apply Z.eqb_eq in E. subst. reflexivity.
Qed.
Lemma view_acc_push d s e x : view_acc d (push s e) x = view_acc d s x.
Proof. unfold view_acc. rewrite st_push, spur_push, wp_push. reflexivity. Qed.

(* ------------------------------------------------------------------ one-account steps *)
(* [s' = push (put s a acc') e] (in either order) where undoing e writes acc'' with the view of acc *)
Lemma Good_one d s a acc acc' acc'' e s' :
  st s a = Some acc ->
  (forall k, a_storage acc k <> None -> a_storage acc' k <> None) ->
  s' = push (put s a acc') e ->
  undo (spurious s) e s' = Some (put s' a acc'') ->
  view_of_acc d (spurious s) a acc'' = view_of_acc d (spurious s) a acc ->
  Good d s s'.
Proof.
  intros E K -> U V. exists [e]. split.
  { unfold push at 1. cbn [journal put set_st]. destruct (journal s); reflexivity. }
  split.
  { exists (put (push (put s a acc') e) a acc''). cbn [undo_list]. rewrite U. split; [reflexivity|].
    apply cview_ext.
    - intros x. cbn [cview_of cv_acc]. rewrite view_acc_put, view_acc_push, view_acc_put.
      rewrite spur_push. cbn [spurious put set_st].
      destruct (x =? a) eqn:X; [|reflexivity]. apply Z.eqb_eq in X. subst.
      rewrite V. symmetry. apply view_acc_present. exact E.
    - cbn [cview_of cv_ts]. rewrite ts_put, ts_push. reflexivity. }
  split.
  { split.
    - intros x Hx. unfold has_acc. rewrite st_push. apply has_acc_put. exact Hx.
    - intros x k (ac & Hx & Hk). unfold has_slot. rewrite st_push, st_put.
      destruct (x =? a) eqn:X; [|eauto]. apply Z.eqb_eq in X. subst.
      rewrite E in Hx. injection Hx as <-. eauto. }
  split; [unfold push; destruct (journal (put s a acc')); reflexivity|].
  split; [unfold push; destruct (journal (put s a acc')); reflexivity|].
  unfold same_cfg. rewrite spur_push, wp_push. unfold push. destruct (journal (put s a acc')); repeat split.
Qed.

Lemma push_put s a acc e : push (put s a acc) e = put (push s e) a acc.
Proof. unfold push, put. cbn. destruct (journal s); reflexivity. Qed.

(* a step that changes nothing observable and pushes nothing *)
Lemma Good_neutral d s s' :
  journal s' = journal s -> journal s <> [] -> cview_of d s' = cview_of d s -> sub s s' ->
  logs s' = logs s -> depth s' = depth s -> same_cfg s s' -> Good d s s'.
Proof.
  intros J N V S L D C. exists []. rewrite add_entries_nil by exact N.
  split; [exact J|]. split; [exists s'; split; [reflexivity|exact V]|].
  split; [exact S|]. split; [exact L|]. split; [exact D|exact C].
Qed.

(* ------------------------------------------------------------------ touch_account *)
Lemma Good_touch_account d s a acc :
  journal s <> [] -> st s a = Some acc -> Good d s (touch_account s a acc).
Proof.
  intros N E. unfold touch_account. destruct (a_touched acc) eqn:T; [apply Good_refl; exact N|].
  rewrite <- push_put.
  eapply (Good_one d s a acc (acc_touched acc true)
            (if spurious s && (a =? PRECOMPILE3) then acc_touched acc true else acc_touched acc false));
    [exact E|auto|reflexivity| |].
  - cbn [undo]. destruct (spurious s && (a =? PRECOMPILE3)) eqn:P.
    + f_equal. rewrite push_put. unfold put. cbn. rewrite upd_upd. reflexivity.
    + rewrite st_push, st_put, Z.eqb_refl. f_equal.
  - unfold view_of_acc, seen_touched. destruct (spurious s && (a =? PRECOMPILE3)) eqn:P; cbn; rewrite ?P, ?T; reflexivity.
Qed.

Lemma touch_account_st s a acc x :
  st (touch_account s a acc) x = if (x =? a) && negb (a_touched acc) then Some (acc_touched acc true) else st s x.
Proof.
  unfold touch_account. destruct (a_touched acc) eqn:T; cbn [negb]; rewrite ?andb_false_r, ?andb_true_r; [reflexivity|].
  rewrite st_put, st_push. reflexivity.
Qed.

(* ------------------------------------------------------------------ load_account *)
Lemma Good_load d s a : journal s <> [] -> Good d s (fst (load_account d s a)).
Proof.
  intros N. unfold load_account. destruct (st s a) as [acc|] eqn:E.
  - destruct (a_cold acc) eqn:C; cbn [fst]; [|apply Good_refl; exact N].
    eapply (Good_one d s a acc (acc_cold acc false) (acc_cold acc true)); [exact E|auto|reflexivity| |].
    + cbn [undo]. rewrite st_push, st_put, Z.eqb_refl. reflexivity.
    + unfold view_of_acc. cbn. rewrite C. reflexivity.
  - destruct (warm_pre s a) eqn:W; cbn [fst].
    + (* preloaded: inserted warm, nothing journaled *)
      apply Good_neutral; [reflexivity|exact N| | |reflexivity|reflexivity|repeat split].
      * apply cview_ext; [|reflexivity]. intros x. cbn [cview_of cv_acc]. rewrite view_acc_put.
        destruct (x =? a) eqn:X; [|reflexivity]. apply Z.eqb_eq in X. subst.
        unfold view_acc. rewrite E, W. unfold view_of_acc, account_from_db, slot_view.
        unfold seen_touched; destruct (db_basic d a) as [[[b n] c]|]; cbn; destruct (_ && _); reflexivity.
      * split; [intros x; apply has_acc_put|].
        intros x k (ac & Hx & Hk). unfold has_slot. rewrite st_put.
        destruct (x =? a) eqn:X; [apply Z.eqb_eq in X; subst; congruence|eauto].
    + (* cold: inserted and journaled; undo leaves it present but cold, which has the view of absent *)
      exists [AccountWarmed a]. split.
      { unfold push. cbn [journal put set_st]. destruct (journal s); reflexivity. }
      split.
      { cbn [undo_list undo]. rewrite st_push, st_put, Z.eqb_refl. eexists. split; [reflexivity|].
        apply cview_ext.
        - intros x. cbn [cview_of cv_acc]. rewrite view_acc_put, view_acc_push, view_acc_put.
          destruct (x =? a) eqn:X; [|reflexivity]. apply Z.eqb_eq in X. subst.
          rewrite spur_push. cbn [spurious put set_st].
          unfold view_acc. rewrite E, W. unfold view_of_acc, account_from_db, slot_view.
          unfold seen_touched; destruct (db_basic d a) as [[[b n] c]|]; cbn; destruct (_ && _); reflexivity.
        - cbn [cview_of cv_ts]. rewrite ts_put, ts_push. reflexivity. }
      split.
      { split; [intros x Hx; unfold has_acc; rewrite st_push; apply has_acc_put; exact Hx|].
        intros x k (ac & Hx & Hk). unfold has_slot. rewrite st_push, st_put.
        destruct (x =? a) eqn:X; [apply Z.eqb_eq in X; subst; congruence|eauto]. }
      split; [unfold push; destruct (journal (put s a _)); reflexivity|].
      split; [unfold push; destruct (journal (put s a _)); reflexivity|].
      unfold same_cfg. rewrite spur_push, wp_push. unfold push. destruct (journal (put s a _)); repeat split.
Qed.

(* journal stays non-empty under Good steps *)
Lemma Good_journal_ne d s s' : Good d s s' -> journal s' <> [].
Proof. intros (E & J & _). rewrite J. destruct (journal s); cbn; congruence. Qed.

Lemma load_present d s a : st (fst (load_account d s a)) a <> None.
Proof.
  unfold load_account. destruct (st s a) as [acc|] eqn:E.
  - destruct (a_cold acc); cbn [fst]; rewrite ?st_push, ?st_put, ?Z.eqb_refl; congruence.
  - destruct (warm_pre s a); cbn [fst]; rewrite ?st_push, ?st_put, ?Z.eqb_refl; congruence.
Qed.
