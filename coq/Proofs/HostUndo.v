(* journal_revert at the level of views; domains; definedness and congruence of undo. *)
From Coq Require Import FunctionalExtensionality.
From RevmV Require Import Base.Word Model.Host Proofs.HostView.
Local Open Scope Z_scope.

Lemma spur_put s a acc : spurious (put s a acc) = spurious s. Proof. reflexivity. Qed.

Lemma slot_view_upd d a acc k sl :
  slot_view d a (acc_storage acc (upd (a_storage acc) k (Some sl)))
  = upd (slot_view d a acc) k (s_orig sl, s_pres sl, negb (s_cold sl)).
Proof.
  extensionality x. unfold slot_view, upd. cbn [a_storage acc_storage].
  destruct (x =? k); reflexivity.
Qed.

(* every undo keeps journal, logs, depth and the configuration *)
Lemma undo_frame spur e s s' :
  undo spur e s = Some s' ->
  journal s' = journal s /\ logs s' = logs s /\ depth s' = depth s /\ spurious s' = spurious s
  /\ cancun s' = cancun s /\ warm_pre s' = warm_pre s.
Proof.
  destruct e; cbn [undo]; intros H;
    repeat match type of H with
           | (if ?c then _ else _) = _ => destruct c
           | match ?x with _ => _ end = _ => destruct x
           end; try discriminate; injection H as <-; repeat split; reflexivity.
Qed.

Lemma undo_view d spur e s s' :
  spurious s = spur -> undo spur e s = Some s' -> cview_of d s' = undo_v spur e (cview_of d s).
Proof.
  intros Hs H. destruct e; cbn [undo undo_v] in *.
  - (* AccountWarmed *)
    destruct (st s a) as [acc|] eqn:E; [|discriminate]. injection H as <-.
    rewrite view_put. f_equal. cbn [cview_of cv_acc]. rewrite (view_acc_present d s a acc E). reflexivity.
  - (* AccountDestroyed *)
    destruct (st s a) as [acc|] eqn:E; [|discriminate].
    set (s1 := put s a (acc_bal (acc_selfd acc was_destroyed) (wrap256 (a_bal acc + had_balance)))) in *.
    assert (V1 : cview_of d s1 =
                 cv_put (cview_of d s) a
                   (av_bal (av_selfd (cv_acc (cview_of d s) a) was_destroyed)
                           (wrap256 (v_bal (cv_acc (cview_of d s) a) + had_balance)))).
    { unfold s1. rewrite view_put. f_equal. cbn [cview_of cv_acc].
      rewrite (view_acc_present d s a acc E). reflexivity. }
    destruct (a =? target) eqn:T.
    + injection H as <-. exact V1.
    + destruct (st s1 target) as [tacc|] eqn:E2; [|discriminate]. injection H as <-.
      rewrite view_put. rewrite <- V1. f_equal. cbn [cview_of cv_acc].
      rewrite (view_acc_present d s1 target tacc E2). reflexivity.
  - (* AccountTouched *)
    destruct (spur && (a =? PRECOMPILE3)) eqn:P.
    + injection H as <-. reflexivity.
    + destruct (st s a) as [acc|] eqn:E; [|discriminate]. injection H as <-.
      rewrite view_put. f_equal. cbn [cview_of cv_acc]. rewrite (view_acc_present d s a acc E).
      unfold view_of_acc, av_touched, seen_touched. cbn. rewrite Hs, P. reflexivity.
  - (* BalanceTransfer *)
    destruct (st s from) as [fa|] eqn:E; [|discriminate].
    set (s1 := put s from (acc_bal fa (wrap256 (a_bal fa + balance)))) in *.
    assert (V1 : cview_of d s1 =
                 cv_put (cview_of d s) from
                   (av_bal (cv_acc (cview_of d s) from) (wrap256 (v_bal (cv_acc (cview_of d s) from) + balance)))).
    { unfold s1. rewrite view_put. f_equal. cbn [cview_of cv_acc].
      rewrite (view_acc_present d s from fa E). reflexivity. }
    destruct (st s1 to) as [ta|] eqn:E2; [|discriminate]. injection H as <-.
    rewrite view_put. rewrite <- V1. f_equal. cbn [cview_of cv_acc].
    rewrite (view_acc_present d s1 to ta E2). reflexivity.
  - (* NonceChange *)
    destruct (st s a) as [acc|] eqn:E; [|discriminate]. injection H as <-.
    rewrite view_put. f_equal. cbn [cview_of cv_acc]. rewrite (view_acc_present d s a acc E). reflexivity.
  - (* AccountCreated *)
    destruct (st s a) as [acc|] eqn:E; [|discriminate]. injection H as <-.
    rewrite view_put. f_equal. cbn [cview_of cv_acc]. rewrite (view_acc_present d s a acc E). reflexivity.
  - (* StorageChanged *)
    destruct (st s a) as [acc|] eqn:E; [|discriminate].
    destruct (a_storage acc k) as [sl|] eqn:K; [|discriminate]. injection H as <-.
    rewrite view_put. cbn [cview_of cv_acc]. rewrite (view_acc_present d s a acc E).
    assert (SV : v_slot (view_of_acc d (spurious s) a acc) k = (s_orig sl, s_pres sl, negb (s_cold sl))).
    { cbn [v_slot view_of_acc]. unfold slot_view. rewrite K. reflexivity. }
    rewrite SV. cbv iota beta zeta. f_equal. unfold view_of_acc, av_slot. cbn. f_equal. rewrite slot_view_upd. reflexivity.
  - (* StorageWarmed *)
    destruct (st s a) as [acc|] eqn:E; [|discriminate].
    destruct (a_storage acc k) as [sl|] eqn:K; [|discriminate]. injection H as <-.
    rewrite view_put. cbn [cview_of cv_acc]. rewrite (view_acc_present d s a acc E).
    assert (SV : v_slot (view_of_acc d (spurious s) a acc) k = (s_orig sl, s_pres sl, negb (s_cold sl))).
    { cbn [v_slot view_of_acc]. unfold slot_view. rewrite K. reflexivity. }
    rewrite SV. cbv iota beta zeta. f_equal. unfold view_of_acc, av_slot. cbn. f_equal. rewrite slot_view_upd. reflexivity.
  - (* TransientStorageChange *)
    injection H as <-. reflexivity.
  - (* CodeChange *)
    destruct (st s a) as [acc|] eqn:E; [|discriminate]. injection H as <-.
    rewrite view_put. f_equal. cbn [cview_of cv_acc]. rewrite (view_acc_present d s a acc E). reflexivity.
Qed.

(* ------------------------------------------------------------------ domains *)
Definition has_acc (s : jstate) (a : Z) : Prop := st s a <> None.
Definition has_slot (s : jstate) (a k : Z) : Prop :=
  exists acc, st s a = Some acc /\ a_storage acc k <> None.
Definition sub (s s' : jstate) : Prop :=
  (forall a, has_acc s a -> has_acc s' a) /\ (forall a k, has_slot s a k -> has_slot s' a k).

Lemma sub_refl s : sub s s. Proof. split; auto. Qed.
Lemma sub_trans s1 s2 s3 : sub s1 s2 -> sub s2 s3 -> sub s1 s3.
Proof. intros [A B] [C D]. split; auto. Qed.

(* what an entry needs to be undone *)
Definition pres_e (spur : bool) (e : entry) (s : jstate) : Prop :=
  match e with
  | AccountWarmed a | NonceChange a | AccountCreated a | CodeChange a => has_acc s a
  | AccountTouched a => spur && (a =? PRECOMPILE3) = true \/ has_acc s a
  | AccountDestroyed a t _ _ => has_acc s a /\ has_acc s t
  | BalanceTransfer f t _ => has_acc s f /\ has_acc s t
  | StorageChanged a k _ | StorageWarmed a k => has_slot s a k
  | TransientStorageChange _ _ _ => True
  end.

Lemma pres_sub spur e s s' : sub s s' -> pres_e spur e s -> pres_e spur e s'.
Proof. intros [A B]. destruct e; cbn; intuition. Qed.

Lemma has_acc_put s a acc x : has_acc s x -> has_acc (put s a acc) x.
Proof. unfold has_acc. rewrite st_put. destruct (x =? a); congruence. Qed.
Lemma has_acc_put_same s a acc : has_acc (put s a acc) a.
Proof. unfold has_acc. rewrite st_put, Z.eqb_refl. congruence. Qed.

(* a put that keeps the storage domain of the account *)
Lemma sub_put s a acc acc' :
  st s a = Some acc -> (forall k, a_storage acc k <> None -> a_storage acc' k <> None) ->
  sub s (put s a acc').
Proof.
  intros E K. split.
  - intros x. apply has_acc_put.
  - intros x k (ac & Hx & Hk). unfold has_slot. rewrite st_put.
    destruct (x =? a) eqn:X.
    + apply Z.eqb_eq in X. subst. rewrite E in Hx. injection Hx as <-. eauto.
    + eauto.
Qed.
Lemma sub_put_rev s a acc acc' :
  st s a = Some acc -> (forall k, a_storage acc' k <> None -> a_storage acc k <> None) ->
  sub (put s a acc') s.
Proof.
  intros E K. split.
  - intros x. unfold has_acc. rewrite st_put. destruct (x =? a) eqn:X; [|auto].
    apply Z.eqb_eq in X. subst. congruence.
  - intros x k (ac & Hx & Hk). rewrite st_put in Hx. unfold has_slot.
    destruct (x =? a) eqn:X.
    + apply Z.eqb_eq in X. subst. injection Hx as <-. eauto.
    + eauto.
Qed.

Lemma upd_some_dom (m : Z -> option slot) k v x : m x <> None -> upd m k (Some v) x <> None.
Proof. unfold upd. destruct (x =? k); congruence. Qed.
Lemma upd_some_dom_rev (m : Z -> option slot) k v x : m k <> None -> upd m k (Some v) x <> None -> m x <> None.
Proof. unfold upd. destruct (x =? k) eqn:E; [apply Z.eqb_eq in E; subst|]; auto. Qed.

(* undo keeps the domain (both directions) *)
Lemma undo_dom spur e s s' : undo spur e s = Some s' -> sub s s' /\ sub s' s.
Proof.
  destruct e; cbn [undo]; intros H.
  - destruct (st s a) as [acc|] eqn:E; [|discriminate]. injection H as <-.
    split; [eapply sub_put|eapply sub_put_rev]; eauto.
  - destruct (st s a) as [acc|] eqn:E; [|discriminate].
    set (s1 := put s a _) in *.
    assert (A : sub s s1 /\ sub s1 s) by (split; [eapply sub_put|eapply sub_put_rev]; eauto).
    destruct (a =? target); [injection H as <-; exact A|].
    destruct (st s1 target) as [tacc|] eqn:E2; [|discriminate]. injection H as <-.
    destruct A as [A1 A2]. split.
    + eapply sub_trans; [exact A1|]. eapply sub_put; eauto.
    + eapply sub_trans; [|exact A2]. eapply sub_put_rev; eauto.
  - destruct (spur && (a =? PRECOMPILE3)); [injection H as <-; split; apply sub_refl|].
    destruct (st s a) as [acc|] eqn:E; [|discriminate]. injection H as <-.
    split; [eapply sub_put|eapply sub_put_rev]; eauto.
  - destruct (st s from) as [fa|] eqn:E; [|discriminate].
    set (s1 := put s from _) in *.
    assert (A : sub s s1 /\ sub s1 s) by (split; [eapply sub_put|eapply sub_put_rev]; eauto).
    destruct (st s1 to) as [ta|] eqn:E2; [|discriminate]. injection H as <-.
    destruct A as [A1 A2]. split.
    + eapply sub_trans; [exact A1|]. eapply sub_put; eauto.
    + eapply sub_trans; [|exact A2]. eapply sub_put_rev; eauto.
  - destruct (st s a) as [acc|] eqn:E; [|discriminate]. injection H as <-.
    split; [eapply sub_put|eapply sub_put_rev]; eauto.
  - destruct (st s a) as [acc|] eqn:E; [|discriminate]. injection H as <-.
    split; [eapply sub_put|eapply sub_put_rev]; eauto.
  - destruct (st s a) as [acc|] eqn:E; [|discriminate].
    destruct (a_storage acc k) as [sl|] eqn:K; [|discriminate]. injection H as <-.
    split; [eapply sub_put|eapply sub_put_rev]; eauto; cbn [a_storage acc_storage]; intros x.
    + apply upd_some_dom.
    + apply upd_some_dom_rev. congruence.
  - destruct (st s a) as [acc|] eqn:E; [|discriminate].
    destruct (a_storage acc k) as [sl|] eqn:K; [|discriminate]. injection H as <-.
    split; [eapply sub_put|eapply sub_put_rev]; eauto; cbn [a_storage acc_storage]; intros x.
    + apply upd_some_dom.
    + apply upd_some_dom_rev. congruence.
  - injection H as <-. split; split; auto.
  - destruct (st s a) as [acc|] eqn:E; [|discriminate]. injection H as <-.
    split; [eapply sub_put|eapply sub_put_rev]; eauto.
Qed.

Lemma undo_defined spur e s : pres_e spur e s -> exists s', undo spur e s = Some s'.
Proof.
  destruct e; cbn [undo pres_e]; unfold has_acc, has_slot.
  - intros H. destruct (st s a); [eauto|congruence].
  - intros [H1 H2]. destruct (st s a) as [acc|] eqn:E; [|congruence].
    destruct (a =? target) eqn:T; [eauto|].
    rewrite st_put. destruct (target =? a) eqn:T2; [eauto|].
    destruct (st s target); [eauto|congruence].
  - intros H. destruct (spur && (a =? PRECOMPILE3)); [eauto|].
    destruct H as [H|H]; [discriminate|]. destruct (st s a); [eauto|congruence].
  - intros [H1 H2]. destruct (st s from) as [fa|] eqn:E; [|congruence].
    rewrite st_put. destruct (to =? from); [eauto|]. destruct (st s to); [eauto|congruence].
  - intros H. destruct (st s a); [eauto|congruence].
  - intros H. destruct (st s a); [eauto|congruence].
  - intros (acc & E & K). rewrite E. destruct (a_storage acc k); [eauto|congruence].
  - intros (acc & E & K). rewrite E. destruct (a_storage acc k); [eauto|congruence].
  - eauto.
  - intros H. destruct (st s a); [eauto|congruence].
Qed.

Lemma undo_needs spur e s s' : undo spur e s = Some s' -> pres_e spur e s.
Proof.
  destruct e; cbn [undo pres_e]; unfold has_acc, has_slot; intros H.
  - destruct (st s a); [congruence|discriminate].
  - destruct (st s a) as [acc|] eqn:E; [|discriminate]. split; [congruence|].
    destruct (a =? target) eqn:T; [apply Z.eqb_eq in T; subst; congruence|].
    rewrite st_put in H. destruct (target =? a) eqn:T2.
    + apply Z.eqb_eq in T2. subst. congruence.
    + destruct (st s target); [congruence|discriminate].
  - destruct (spur && (a =? PRECOMPILE3)); [left; reflexivity|right].
    destruct (st s a); [congruence|discriminate].
  - destruct (st s from) as [fa|] eqn:E; [|discriminate]. split; [congruence|].
    rewrite st_put in H. destruct (to =? from) eqn:T.
    + apply Z.eqb_eq in T. subst. congruence.
    + destruct (st s to); [congruence|discriminate].
  - destruct (st s a); [congruence|discriminate].
  - destruct (st s a); [congruence|discriminate].
  - destruct (st s a) as [acc|]; [|discriminate]. destruct (a_storage acc k) eqn:K; [|discriminate].
    exists acc. split; congruence.
  - destruct (st s a) as [acc|]; [|discriminate]. destruct (a_storage acc k) eqn:K; [|discriminate].
    exists acc. split; congruence.
  - exact I.
  - destruct (st s a); [congruence|discriminate].
Qed.

(* ------------------------------------------------------------------ lists *)
Lemma undo_list_app spur e1 e2 s :
  undo_list spur (e1 ++ e2) s =
  match undo_list spur e1 s with Some s' => undo_list spur e2 s' | None => None end.
Proof.
  revert s. induction e1 as [|e r IH]; intros s; cbn [app undo_list]; [reflexivity|].
  destruct (undo spur e s); [apply IH|reflexivity].
Qed.

Lemma undo_list_frame spur es : forall s s',
  undo_list spur es s = Some s' ->
  journal s' = journal s /\ logs s' = logs s /\ depth s' = depth s /\ spurious s' = spurious s
  /\ cancun s' = cancun s /\ warm_pre s' = warm_pre s /\ sub s s' /\ sub s' s.
Proof.
  induction es as [|e r IH]; intros s s' H; cbn [undo_list] in H.
  - injection H as <-. repeat split; auto.
  - destruct (undo spur e s) as [s1|] eqn:E; [|discriminate].
    destruct (undo_frame _ _ _ _ E) as (A1 & A2 & A3 & A4 & A5 & A6).
    destruct (undo_dom _ _ _ _ E) as [D1 D2].
    destruct (IH _ _ H) as (B1 & B2 & B3 & B4 & B5 & B6 & B7 & B8).
    split; [congruence|]. split; [congruence|]. split; [congruence|]. split; [congruence|].
    split; [congruence|]. split; [congruence|]. split; eapply sub_trans; eauto.
Qed.

Lemma undo_list_view d spur es : forall s s',
  spurious s = spur -> undo_list spur es s = Some s' ->
  cview_of d s' = undo_v_list spur es (cview_of d s).
Proof.
  induction es as [|e r IH]; intros s s' Hs H; cbn [undo_list undo_v_list] in *.
  - injection H as <-. reflexivity.
  - destruct (undo spur e s) as [s1|] eqn:E; [|discriminate].
    rewrite <- (undo_view d spur e s s1 Hs E). apply IH; [|exact H].
    destruct (undo_frame _ _ _ _ E) as (_ & _ & _ & A & _). congruence.
Qed.

(* congruence: a state with the same view and a larger domain can be undone likewise *)
Lemma undo_list_congr d spur es : forall s x u,
  spurious s = spur -> spurious x = spur ->
  cview_of d x = cview_of d s -> sub s x -> undo_list spur es s = Some u ->
  exists u', undo_list spur es x = Some u' /\ cview_of d u' = cview_of d u /\ sub u u'.
Proof.
  induction es as [|e r IH]; intros s x u Hs Hx V S H; cbn [undo_list] in *.
  - injection H as <-. eauto.
  - destruct (undo spur e s) as [s1|] eqn:E; [|discriminate].
    destruct (undo_defined spur e x) as [x1 E1].
    { eapply pres_sub; [exact S|]. eapply undo_needs; eauto. }
    rewrite E1.
    assert (V1 : cview_of d x1 = cview_of d s1).
    { rewrite (undo_view d spur e x x1 Hx E1), (undo_view d spur e s s1 Hs E). congruence. }
    destruct (undo_dom _ _ _ _ E) as [D1 D2]. destruct (undo_dom _ _ _ _ E1) as [F1 F2].
    destruct (undo_frame _ _ _ _ E) as (_ & _ & _ & A & _).
    destruct (undo_frame _ _ _ _ E1) as (_ & _ & _ & B & _).
    eapply (IH s1 x1 u); [congruence|congruence|exact V1| |exact H].
    eapply sub_trans; [exact D2|]. eapply sub_trans; [exact S|exact F1].
Qed.
