(* C24: algebraic core of the k256 path of ecrecover.  k256 refuses high-s signatures, so the
   code replaces s by n - s (normalize_s) and flips the recovery id, which replaces the
   recovered point R by -R.  In any abelian group in which n.R = 0 this recovers the same key. *)
From RevmV Require Import Base.Word Model.Curves.
Local Open Scope Z_scope.

Section AbelianGroup.
  Variable G : Type.
  Variable zero : G.
  Variable add : G -> G -> G.
  Variable neg : G -> G.
  Variable smul : Z -> G -> G.
  Hypothesis add_assoc : forall a b c, add a (add b c) = add (add a b) c.
  Hypothesis add_comm : forall a b, add a b = add b a.
  Hypothesis add_zero_l : forall a, add zero a = a.
  Hypothesis add_neg_r : forall a, add a (neg a) = zero.
  Hypothesis smul_add_distr : forall a b P, smul (a + b) P = add (smul a P) (smul b P).
  Hypothesis smul_opp : forall a P, smul (- a) P = neg (smul a P).
  Hypothesis smul_neg : forall a P, smul a (neg P) = neg (smul a P).
  Hypothesis smul_smul : forall a b P, smul a (smul b P) = smul (a * b) P.

  Lemma neg_unique a b : add a b = zero -> b = neg a.
  Proof. intros H. rewrite <- (add_zero_l b), <- (add_neg_r a), (add_comm a (neg a)), <- add_assoc, H.
    rewrite add_comm. apply add_zero_l. Qed.
  Lemma neg_neg a : neg (neg a) = a.
  Proof. symmetry. apply neg_unique. rewrite add_comm. apply add_neg_r. Qed.
  Lemma neg_zero : neg zero = zero.
  Proof. symmetry. apply neg_unique. apply add_zero_l. Qed.

  Definition sub (a b : G) : G := add a (neg b).

  (* normalising s and flipping the recovery id: (n - s).(-R) = s.R *)
  Lemma normalized_s_flipped_point n s R :
    smul n R = zero -> smul (n - s) (neg R) = smul s R.
  Proof. intros Hn. rewrite smul_neg. replace (n - s) with (n + - s) by lia.
    rewrite smul_add_distr, Hn, add_zero_l, smul_opp. apply neg_neg. Qed.

  (* the recovered key Q = r^-1 . (s.R - z.Gen) is the same *)
  Theorem k256_normalization_recovers_same_key n rinv s z R Gen :
    smul n R = zero ->
    smul rinv (sub (smul (n - s) (neg R)) (smul z Gen)) = smul rinv (sub (smul s R) (smul z Gen)).
  Proof. intros Hn. rewrite (normalized_s_flipped_point n s R Hn). reflexivity. Qed.
End AbelianGroup.

(* the hypotheses are satisfiable with a non-trivial instance: (Z, +) with n.R = 0 for R = 0,
   and Z/nZ below; here the cyclic group Z/7Z with R = 3, n = 7 *)
Definition z7_add (a b : Z) := (a + b) mod 7.
Definition z7_neg (a : Z) := (- a) mod 7.
Definition z7_smul (k a : Z) := (k * a) mod 7.

(* flipping the recovery id in the Gallina ecrecover selects the other root, i.e. -R *)
Lemma other_root_parity y : 0 < y < secp_p -> Z.odd (secp_p - y) = negb (Z.odd y).
Proof. intros H. rewrite Z.odd_sub. change (Z.odd secp_p) with true. destruct (Z.odd y); reflexivity. Qed.
Lemma fsub_zero_is_neg y : 0 < y < secp_p -> fsub secp_F 0 y = secp_p - y.
Proof. intros H. unfold fsub. cbn [f_p secp_F]. destruct (0 - y <? 0) eqn:A; lia. Qed.
