(* The observation ("view") of a journaled state used by C06/C34/C08, the view-level meaning
   of journal_revert, and the basic algebra of the model's map updates.
   Uses functional extensionality (Coq.Logic.FunctionalExtensionality, a standard-library
   axiom) to compare maps represented as functions. *)
From Coq Require Import FunctionalExtensionality.
From RevmV Require Import Base.Word Model.Host.
Local Open Scope Z_scope.

(* ------------------------------------------------------------------ map algebra *)
Lemma upd_same {V} (m : Z -> V) a v : upd m a v a = v.
Proof. unfold upd. rewrite Z.eqb_refl. reflexivity. Qed.
Lemma upd_other {V} (m : Z -> V) a v x : x <> a -> upd m a v x = m x.
Proof. unfold upd. intros H. destruct (x =? a) eqn:E; [apply Z.eqb_eq in E; contradiction|reflexivity]. Qed.
Lemma upd_upd {V} (m : Z -> V) a v w : upd (upd m a v) a w = upd m a w.
Proof. extensionality x. unfold upd. destruct (x =? a); reflexivity. Qed.
Lemma upd_id {V} (m : Z -> V) a : upd m a (m a) = m.
Proof. extensionality x. unfold upd. destruct (x =? a) eqn:E; [apply Z.eqb_eq in E; subst|]; reflexivity. Qed.

(* ------------------------------------------------------------------ views *)
Record aview := mkAV {
  v_bal : Z; v_nonce : Z; v_code : Z;
  v_created : bool; v_selfd : bool; v_touched : bool; v_lane : bool; v_warm : bool;
  v_slot : Z -> Z * Z * bool }.              (* original, present, warm *)

Definition slot_view (d : db) (a : Z) (acc : account) (k : Z) : Z * Z * bool :=
  match a_storage acc k with
  | Some sl => (s_orig sl, s_pres sl, negb (s_cold sl))
  | None => (db_storage d a k, db_storage d a k, false)
  end.

(* touched status of precompile 3 is not part of the observation after Spurious Dragon *)
Definition seen_touched (spur : bool) (a : Z) (t : bool) : bool :=
  if spur && (a =? PRECOMPILE3) then false else t.

Definition view_acc (d : db) (s : jstate) (a : Z) : aview :=
  match st s a with
  | Some acc =>
      mkAV (a_bal acc) (a_nonce acc) (a_code acc) (a_created acc) (a_selfd acc)
           (seen_touched (spurious s) a (a_touched acc)) (a_lane acc) (negb (a_cold acc))
           (slot_view d a acc)
  | None =>
      let acc := account_from_db d a in
      mkAV (a_bal acc) (a_nonce acc) (a_code acc) false false false (a_lane acc) (warm_pre s a)
           (fun k => (db_storage d a k, db_storage d a k, false))
  end.

Record cview := mkCV { cv_acc : Z -> aview; cv_ts : Z -> Z -> Z }.
Definition cview_of (d : db) (s : jstate) : cview := mkCV (view_acc d s) (ts s).

(* ------------------------------------------------------------------ view-level undo *)
Definition av_bal v x := mkAV x (v_nonce v) (v_code v) (v_created v) (v_selfd v) (v_touched v) (v_lane v) (v_warm v) (v_slot v).
Definition av_nonce v x := mkAV (v_bal v) x (v_code v) (v_created v) (v_selfd v) (v_touched v) (v_lane v) (v_warm v) (v_slot v).
Definition av_code v x := mkAV (v_bal v) (v_nonce v) x (v_created v) (v_selfd v) (v_touched v) (v_lane v) (v_warm v) (v_slot v).
Definition av_created v x := mkAV (v_bal v) (v_nonce v) (v_code v) x (v_selfd v) (v_touched v) (v_lane v) (v_warm v) (v_slot v).
Definition av_selfd v x := mkAV (v_bal v) (v_nonce v) (v_code v) (v_created v) x (v_touched v) (v_lane v) (v_warm v) (v_slot v).
Definition av_touched v x := mkAV (v_bal v) (v_nonce v) (v_code v) (v_created v) (v_selfd v) x (v_lane v) (v_warm v) (v_slot v).
Definition av_warm v x := mkAV (v_bal v) (v_nonce v) (v_code v) (v_created v) (v_selfd v) (v_touched v) (v_lane v) x (v_slot v).
Definition av_slot v x := mkAV (v_bal v) (v_nonce v) (v_code v) (v_created v) (v_selfd v) (v_touched v) (v_lane v) (v_warm v) x.

Definition cv_put (V : cview) (a : Z) (v : aview) : cview := mkCV (upd (cv_acc V) a v) (cv_ts V).

Definition undo_v (spur : bool) (e : entry) (V : cview) : cview :=
  match e with
  | AccountWarmed a => cv_put V a (av_warm (cv_acc V a) false)
  | AccountTouched a =>
      if spur && (a =? PRECOMPILE3) then V else cv_put V a (av_touched (cv_acc V a) false)
  | AccountDestroyed a t was had =>
      let va := cv_acc V a in
      let V1 := cv_put V a (av_bal (av_selfd va was) (wrap256 (v_bal va + had))) in
      if a =? t then V1
      else let vt := cv_acc V1 t in cv_put V1 t (av_bal vt (wrap256 (v_bal vt - had)))
  | BalanceTransfer f t v =>
      let vf := cv_acc V f in
      let V1 := cv_put V f (av_bal vf (wrap256 (v_bal vf + v))) in
      let vt := cv_acc V1 t in
      cv_put V1 t (av_bal vt (wrap256 (v_bal vt - v)))
  | NonceChange a => cv_put V a (av_nonce (cv_acc V a) (v_nonce (cv_acc V a) - 1))
  | AccountCreated a => cv_put V a (av_nonce (av_created (cv_acc V a) false) 0)
  | StorageWarmed a k =>
      let va := cv_acc V a in
      let '(o, p, _) := v_slot va k in
      cv_put V a (av_slot va (upd (v_slot va) k (o, p, false)))
  | StorageChanged a k had =>
      let va := cv_acc V a in
      let '(o, _, w) := v_slot va k in
      cv_put V a (av_slot va (upd (v_slot va) k (o, had, w)))
  | TransientStorageChange a k had => mkCV (cv_acc V) (upd2 (cv_ts V) a k had)
  | CodeChange a => cv_put V a (av_code (cv_acc V a) 0)
  end.

Fixpoint undo_v_list (spur : bool) (es : list entry) (V : cview) : cview :=
  match es with [] => V | e :: r => undo_v_list spur r (undo_v spur e V) end.

(* ------------------------------------------------------------------ frame facts of put / push *)
Lemma st_put s a acc x : st (put s a acc) x = if x =? a then Some acc else st s x.
Proof. reflexivity. Qed.
Lemma st_push s e : st (push s e) = st s.
Proof. unfold push. destruct (journal s); reflexivity. Qed.
Lemma ts_push s e : ts (push s e) = ts s.
Proof. unfold push. destruct (journal s); reflexivity. Qed.
Lemma ts_put s a acc : ts (put s a acc) = ts s. Proof. reflexivity. Qed.
Lemma spur_push s e : spurious (push s e) = spurious s.
Proof. unfold push. destruct (journal s); reflexivity. Qed.
Lemma wp_push s e : warm_pre (push s e) = warm_pre s.
Proof. unfold push. destruct (journal s); reflexivity. Qed.

Lemma view_push d s e : cview_of d (push s e) = cview_of d s.
Proof.
  unfold cview_of. rewrite ts_push. f_equal. extensionality a.
  unfold view_acc. rewrite st_push, spur_push, wp_push. reflexivity.
Qed.

Lemma view_acc_put_other d s a acc x : x <> a -> view_acc d (put s a acc) x = view_acc d s x.
Proof.
  intros H. unfold view_acc. rewrite st_put.
  destruct (x =? a) eqn:E; [apply Z.eqb_eq in E; contradiction|]. reflexivity.
Qed.

Definition view_of_acc (d : db) (spur : bool) (a : Z) (acc : account) : aview :=
  mkAV (a_bal acc) (a_nonce acc) (a_code acc) (a_created acc) (a_selfd acc)
       (seen_touched spur a (a_touched acc)) (a_lane acc) (negb (a_cold acc)) (slot_view d a acc).

Lemma view_acc_present d s a acc : st s a = Some acc -> view_acc d s a = view_of_acc d (spurious s) a acc.
Proof. intros H. unfold view_acc. rewrite H. reflexivity. Qed.

Lemma view_put d s a acc :
  cview_of d (put s a acc) = cv_put (cview_of d s) a (view_of_acc d (spurious s) a acc).
Proof.
  unfold cview_of, cv_put. cbn [cv_acc cv_ts]. rewrite ts_put. f_equal.
  extensionality x. unfold upd. destruct (x =? a) eqn:E.
  - apply Z.eqb_eq in E. subst. unfold view_acc. rewrite st_put, Z.eqb_refl. reflexivity.
  - apply view_acc_put_other. intros ->. rewrite Z.eqb_refl in E. discriminate.
Qed.

Lemma cv_put_id V a : cv_put V a (cv_acc V a) = V.
Proof. destruct V as [f t]. unfold cv_put. cbn. rewrite upd_id. reflexivity. Qed.
Lemma cv_put_put V a v w : cv_put (cv_put V a v) a w = cv_put V a w.
Proof. unfold cv_put. cbn. rewrite upd_upd. reflexivity. Qed.
Lemma cv_acc_put V a v : cv_acc (cv_put V a v) a = v.
Proof. unfold cv_put. cbn. apply upd_same. Qed.
Lemma cv_acc_put_other V a v x : x <> a -> cv_acc (cv_put V a v) x = cv_acc V x.
Proof. unfold cv_put. cbn. apply upd_other. Qed.

(* the view of a state in which account [a] is present, re-stated through cv_put *)
Lemma view_as_put d s a acc :
  st s a = Some acc -> cview_of d s = cv_put (cview_of d s) a (view_of_acc d (spurious s) a acc).
Proof.
  intros H. rewrite <- (cv_put_id (cview_of d s) a) at 1. f_equal.
  cbn. apply view_acc_present. exact H.
Qed.
