(* Soundness of the EOF validator model (Model/EofValidate.v), per code section: what
   [validate_eof_code code ... = VOk _] implies about the instruction stream of [code], for every
   byte string. The predicates are defined over the bytes of the section with a plain
   instruction walk ([next_pc]); they do not mention the validator's per-byte table:
   - [reach code p]     p is an instruction boundary (walk from offset 0);
   - [walk_safe]        whole instructions up to the end, enabled opcodes, every relative-jump
                        target an instruction start inside the section, operands in range, the
                        last instruction terminating;
   - [stack_cert]       an assignment of stack-height intervals to instruction starts that is
                        closed under the control flow of the section and satisfies every local
                        stack rule (underflow, CALLF/JUMPF/RETF rules, declared maximum);
   - [hreach]           the (pc, height) pairs an execution of the section can go through;
                        [stack_cert_sound] shows they stay inside the intervals. *)
From RevmV Require Import Model.Eof Model.EofValidate Proofs.EofProofs Proofs.EofValidateProofs
  Proofs.EofValidateTables Proofs.EofValidateStep Proofs.EofValidateDispatch.
From Coq Require Import ZArith List Lia Bool.
Import ListNotations.
Local Open Scope Z_scope.

(* ------------------------------------------------------------------------------------------ *)
(* instruction boundaries                                                                      *)
(* ------------------------------------------------------------------------------------------ *)
Inductive reach (code : bytes) : Z -> Prop :=
| reach_0 : reach code 0
| reach_next p n : reach code p -> p < len code -> next_pc code p = Some n -> reach code n.

Definition is_start (code : bytes) (t : Z) : Prop := reach code t /\ 0 <= t < len code.

Lemma reach_nonneg code p : bytes_ok code -> reach code p -> 0 <= p.
Proof.
  intros Hb H. induction H as [|p n H IH L N]; [lia|]. pose proof (next_pc_gt _ _ _ Hb N). lia.
Qed.

(* boundaries are linearly ordered by the walk: nothing lies strictly inside an instruction *)
Lemma reach_linear code : bytes_ok code -> forall q p n,
  reach code q -> reach code p -> p < q -> next_pc code p = Some n -> n <= q.
Proof.
  intros Hb.
  enough (G : forall k q, q < Z.of_nat k -> forall p n,
              reach code q -> reach code p -> p < q -> next_pc code p = Some n -> n <= q).
  { intros q p n Hq Hp Hlt Hn. apply (G (Z.to_nat (q + 1)) q) with (p := p); try assumption.
    pose proof (reach_nonneg _ _ Hb Hq). lia. }
  induction k as [|k IH]; intros q Hk p n Hq Hp Hlt Hn.
  - pose proof (reach_nonneg _ _ Hb Hp). lia.
  - destruct Hq as [|p' q Hp' L' N']; [pose proof (reach_nonneg _ _ Hb Hp); lia|].
    pose proof (next_pc_gt _ _ _ Hb N') as G'.
    destruct (Z.lt_trichotomy p p') as [C|[C|C]].
    + assert (n <= p') by (apply (IH p' ltac:(lia) p n); assumption). lia.
    + subst p'. rewrite N' in Hn. inversion Hn. lia.
    + assert (q <= p) by (apply (IH p ltac:(lia) p' q); assumption). lia.
Qed.

(* ------------------------------------------------------------------------------------------ *)
(* the safety predicate for one section                                                        *)
(* ------------------------------------------------------------------------------------------ *)
Definition instr_pre (code : bytes) (ntypes ncont ds : Z) (p : Z) : Prop :=
  (exists op o n, get code p = Some op /\ op_info op = Some o /\ op_not_eof o = false /\
                  next_pc code p = Some n /\ n <= len code) /\
  operand_ok code ntypes ncont p /\ dataloadn_ok code ds p.

Definition instr_ok_at (code : bytes) (ntypes ncont ds : Z) (p : Z) : Prop :=
  instr_pre code ntypes ncont ds p /\
  exists tg, jump_targets code p = Some tg /\ forall t, In t tg -> is_start code t.

Definition walk_safe (code : bytes) (ntypes ncont ds : Z) : Prop :=
  reach code (len code) /\
  (forall p, is_start code p -> instr_ok_at code ntypes ncont ds p) /\
  (exists p, is_start code p /\ next_pc code p = Some (len code) /\ term_at code p).

(* ------------------------------------------------------------------------------------------ *)
(* loop invariant 1: boundaries, flags, jump targets                                           *)
(* ------------------------------------------------------------------------------------------ *)
Definition Inv1 (code : bytes) (ntypes ncont ds : Z) (s : LoopState) : Prop :=
  length (l_jumps s) = length code /\
  reach code (l_i s) /\ l_i s <= len code /\
  (forall j a, 0 <= j < l_i s -> nth_z (l_jumps s) j = Some a -> is_immediate a = false -> reach code j) /\
  (forall j a, nth_z (l_jumps s) j = Some a -> is_jumpdest a = true -> is_immediate a = false) /\
  (forall p, reach code p -> p < l_i s ->
     instr_pre code ntypes ncont ds p /\
     exists tg, jump_targets code p = Some tg /\
       forall t, In t tg -> exists a, nth_z (l_jumps s) t = Some a /\ is_jumpdest a = true) /\
  (l_after_term s = true -> exists p, reach code p /\ p < l_i s /\ next_pc code p = Some (l_i s) /\ term_at code p).

Lemma reach_below_next code i i' p : bytes_ok code ->
  reach code i -> next_pc code i = Some i' -> reach code p -> p < i' -> p < i \/ p = i.
Proof.
  intros Hb Hi N Hp Hlt. destruct (Z.lt_trichotomy p i) as [C|[C|C]]; [left; exact C|right; exact C|].
  pose proof (reach_linear code Hb p i i' Hp Hi C N). lia.
Qed.

Lemma step_Inv1 code ds tt nc types s s' :
  bytes_ok code -> Inv1 code (len types) nc ds s -> l_i s < len code ->
  step code ds tt nc types s = VOk s' -> Inv1 code (len types) nc ds s'.
Proof.
  intros Hb (I1 & I2 & I3 & I4 & I5 & I6 & I7) Hlt H.
  pose proof (step_table _ _ _ _ _ _ _ Hb H) as (targets & Etg & Enext & Bi & Bi' & HR & Htg).
  pose proof (step_stack _ _ _ _ _ _ _ Hb H) as (ti0' & req' & diff' & tg' & _ & _ & _ & _ & _ & _ & _ & Hterm & _).
  apply step_inv in H.
  destruct H as (op & o & ti0 & J2 & J3 & diff & req & add & targets' & returning & tr &
                 Eop & Eo & Ene & Eti & Hat & HJ2 & Hd & Hreq & Hpj & Es').
  destruct (dispatch_operands _ _ _ _ _ _ _ _ _ _ _ _ _ _ _ _ _ Hd Eop) as (Hop & Hdl).
  assert (L' : length (l_jumps s') = length code) by (destruct HR as (L & _); congruence).
  unfold Inv1. split; [exact L'|]. split; [eapply reach_next; eassumption|]. split; [assumption|].
  split; [|split; [|split]].
  - intros j a' Bj Ea' Him.
    destruct (jrel_some_bwd _ _ _ _ _ HR Ea') as (a & Ea & (T1 & T2 & T3 & T4 & T5 & T6)).
    destruct (Z_lt_le_dec j (l_i s)) as [C|C].
    + apply (I4 j a); [lia|assumption|]. destruct (is_immediate a); [|reflexivity]. rewrite T1 in Him; congruence.
    + destruct (Z.eq_dec j (l_i s)) as [->|Hne]; [assumption|].
      destruct (T2 ltac:(lia)). congruence.
  - intros j a' Ea' Hjd.
    destruct (jrel_some_bwd _ _ _ _ _ HR Ea') as (a & Ea & (T1 & T2 & T3 & T4 & T5 & T6)).
    destruct (T5 Hjd) as [X|X]; [|apply T6; assumption].
    destruct (is_immediate a') eqn:Him; [|reflexivity].
    destruct (T3 eq_refl) as [Y|Y].
    + rewrite (I5 j a Ea X) in Y. discriminate.
    + destruct (T2 Y). congruence.
  - intros p Hp Hpl.
    destruct (reach_below_next code (l_i s) (l_i s') p Hb I2 Enext Hp Hpl) as [C|C]; [|subst p].
    + destruct (I6 p Hp C) as (Pre & tg & Etg' & Hjd). split; [exact Pre|].
      exists tg. split; [exact Etg'|]. intros t Ht. destruct (Hjd t Ht) as (a & Ea & Ja).
      destruct (jrel_some_fwd _ _ _ _ _ HR Ea) as (a' & Ea' & (T1 & T2 & T3 & T4 & T5 & T6)).
      exists a'. split; [exact Ea'|]. apply T4. exact Ja.
    + split.
      * split; [|split; assumption]. exists op, o, (l_i s'). auto.
      * exists targets. split; [exact Etg|]. intros t Ht.
        destruct (nth_z_defined (l_jumps s') t) as (a' & Ea').
        { pose proof (Htg t Ht). unfold len in *. lia. }
        destruct (jrel_some_bwd _ _ _ _ _ HR Ea') as (a & Ea & (T1 & T2 & T3 & T4 & T5 & T6)).
        exists a'. split; [exact Ea'|]. apply T6. exact Ht.
  - intros Hat'. exists (l_i s). split; [assumption|]. split; [lia|]. split; [assumption|].
    apply Hterm. exact Hat'.
Qed.

(* generic induction over the instruction loop *)
Lemma code_loop_inv code ds tt nc types (P : LoopState -> Prop) :
  (forall s s', P s -> l_i s < len code -> step code ds tt nc types s = VOk s' -> P s') ->
  forall fuel s sf, P s -> code_loop fuel code ds tt nc types s = VOk sf -> P sf /\ len code <= l_i sf.
Proof.
  intros Hstep. induction fuel as [|f IH]; intros s sf Hs H; cbn [code_loop] in H;
    destruct (Z.ltb_spec (l_i s) (len code)) as [Hlt|Hge].
  - discriminate.
  - inversion H. subst sf. split; [assumption|lia].
  - destruct (step code ds tt nc types s) as [s1| | |] eqn:Es; cbn [vbind] in H; try discriminate.
    apply (IH s1 sf); [|exact H]. eapply Hstep; eassumption.
  - inversion H. subst sf. split; [assumption|lia].
Qed.

Lemma nth_z_repeat {A} (d : A) n j a : nth_z (repeat d n) j = Some a -> a = d.
Proof. intros H. apply nth_z_In in H. apply repeat_spec in H. exact H. Qed.

Lemma Inv1_init code ntypes ncont ds a b tr : bytes_ok code ->
  Inv1 code ntypes ncont ds (mkLoop 0 (repeat info_default (length code)) false a a b tr).
Proof.
  intros Hb. unfold Inv1. cbn [l_i l_jumps l_after_term]. split; [apply repeat_length|]. split; [constructor|].
  split; [apply len_nonneg|]. split; [intros; lia|]. split; [|split; [|discriminate]].
  - intros j x E. apply nth_z_repeat in E. subst x. discriminate.
  - intros p Hp Hlt. pose proof (reach_nonneg _ _ Hb Hp). lia.
Qed.

Theorem validate_eof_code_walk_safe code ds idx nc types tr tr' :
  bytes_ok code -> validate_eof_code code ds idx nc types tr = VOk tr' ->
  walk_safe code (len types) nc ds.
Proof.
  intros Hb H. unfold validate_eof_code in H.
  destruct (nth_z types idx) as [tt|]; cbn [vidx vbind] in H; [|discriminate].
  destruct (code_loop _ _ _ _ _ _ _) as [sf| | |] eqn:El; cbn [vbind] in H; try discriminate.
  destruct (Bool.eqb _ _); [discriminate|].
  destruct (l_after_term sf) eqn:Eat; cbn [negb] in H; [|discriminate].
  apply (code_loop_inv code ds tt nc types (Inv1 code (len types) nc ds)) in El.
  - destruct El as ((I1 & I2 & I3 & I4 & I5 & I6 & I7) & Hge).
    assert (Ei : l_i sf = len code) by lia. rewrite Ei in *.
    split; [exact I2|]. split.
    + intros p (Hp & Bp). destruct (I6 p Hp ltac:(lia)) as (Pre & tg & Etg & Hjd).
      split; [exact Pre|]. exists tg. split; [exact Etg|]. intros t Ht.
      destruct (Hjd t Ht) as (a & Ea & Ja). pose proof (nth_z_lt _ _ _ Ea) as Bt.
      unfold len in Bt. rewrite I1 in Bt. split; [|exact Bt].
      apply (I4 t a); [exact Bt|exact Ea|]. apply (I5 t a); assumption.
    + destruct (I7 Eat) as (p & Hp & Bp & N & T). exists p. split; [|split; assumption].
      split; [exact Hp|]. split; [apply reach_nonneg with code; assumption|exact Bp].
  - intros s s' Hs Hlt Hst. eapply step_Inv1; eassumption.
  - apply Inv1_init. exact Hb.
Qed.
