(* Composition of C13 (gas meter), C01 (reference interpreter) and C09 (settlement).

   Part A: every instruction of Model/Step.v keeps the gas meter inside the C13 invariant
           (limit constant, 0 <= remaining, remaining never grows, refund counter an i64) — for
           every outcome of the instruction, the halting ones included.
   Part B: the same for complete frames of Model/Evm.v (exec / do_call / do_create), through what
           the parent does with the gas a child hands back (erase_cost / record_refund in
           insert_call_outcome / insert_create_outcome), which lies inside C13's frame-accounting
           contract.
   Part C: the transaction (run_tx): the frame result handed to the settlement satisfies the
           frame fields of C09's [validated]; the property's gas clauses hold for the reported
           gas_used / gas_refunded with no hypothesis about the execution. *)
From RevmV Require Import Base.Word Model.Step Model.Evm Proofs.StepProofs Proofs.EvmProofs.
From RevmV Require Model.Gas Model.Arith Model.Jump Model.Memory Model.GasCalc Model.Host Model.Frames
  Model.Settlement Model.Envelope Proofs.GasProofs Proofs.SettlementProofs
  Spec.ValidSpec Model.TypedTx Proofs.EnvelopeProofs Proofs.BridgeProofs.
From Coq Require Import ZifyBool.
Local Open Scope Z_scope.

(* ================================================================ Part A: one instruction *)

(* g' is a later state of the meter g *)
Definition gas_le (g g' : Gas.gas) : Prop :=
  Gas.limit g' = Gas.limit g /\
  (0 <= Gas.remaining g -> 0 <= Gas.remaining g' <= Gas.remaining g) /\
  (in_i64 (Gas.refunded g) -> in_i64 (Gas.refunded g')).

Lemma gas_le_refl g : gas_le g g.
Proof. unfold gas_le. split; [reflexivity|]. split; [lia|auto]. Qed.
Lemma gas_le_trans g g1 g2 : gas_le g g1 -> gas_le g1 g2 -> gas_le g g2.
Proof.
  unfold gas_le. intros (A & B & C) (A' & B' & C'). split; [congruence|]. split; [|auto].
  intros P. destruct (B P) as [P1 P2]. destruct (B' P1). lia.
Qed.

(* the C13 invariant is carried along [gas_le] *)
Lemma gas_le_inv g g' :
  gas_le g g' -> Gas.gas_inv g ->
  Gas.gas_inv g' /\ Gas.limit g' = Gas.limit g /\ Gas.remaining g' <= Gas.remaining g.
Proof.
  unfold gas_le, Gas.gas_inv. intros (A & B & C) (L & Rm & Rf).
  destruct (B (proj1 Rm)) as [B1 B2]. specialize (C Rf).
  split; [|split; [exact A|exact B2]].
  split; [rewrite A; exact L|]. split; [|exact C]. rewrite A. lia.
Qed.

Definition GR (I I' : istate) : Prop := gas_le (i_gas I) (i_gas I').

Lemma GR_refl I : GR I I. Proof. apply gas_le_refl. Qed.
Lemma GR_trans I I1 I2 : GR I I1 -> GR I1 I2 -> GR I I2. Proof. apply gas_le_trans. Qed.

(* every outcome of the instruction, whatever it is, carries a later state of the meter *)
Definition PB (I0 : istate) : posts :=
  mkPosts (GR I0) (fun _ => GR I0) (fun _ => GR I0) (fun _ => GR I0).

Lemma GR_cost I0 I c g' :
  GR I0 I -> (0 <= rem I -> 0 <= c) -> Gas.record_cost (i_gas I) c = (g', true) -> GR I0 (set_gas I g').
Proof.
  intros (A & B & C) Hc E. apply record_cost_true in E. destruct E as (L & Rm & Le & Rf).
  unfold GR, gas_le, rem in *. cbn [set_gas i_gas]. split; [congruence|]. split.
  - intros P. specialize (B P). specialize (Hc (proj1 B)). lia.
  - rewrite Rf. exact C.
Qed.

Lemma GR_refund I0 I x g' :
  GR I0 I -> Gas.record_refund (i_gas I) x = Some g' -> GR I0 (set_gas I g').
Proof.
  intros (A & B & C) E. unfold Gas.record_refund in E. destruct (is_i64 _) eqn:E64; [|discriminate].
  injection E as <-. apply is_i64_spec in E64.
  unfold GR, gas_le. cbn [set_gas i_gas Gas.limit Gas.remaining Gas.refunded]. auto.
Qed.

Lemma B_with_gas I0 c I k :
  GR I0 I -> (0 <= rem I -> 0 <= c) -> (forall I1, GR I0 I1 -> Q (PB I0) (k I1)) -> Q (PB I0) (with_gas c I k).
Proof.
  intros H Hc Hk. unfold with_gas. destruct (Gas.record_cost (i_gas I) c) as [g' ok] eqn:E.
  destruct ok; [|exact H]. apply Hk. eapply GR_cost; eassumption.
Qed.

Lemma B_with_gas_opt I0 oc I k :
  GR I0 I -> (forall c, oc = Some c -> 0 <= c) -> (forall I1, GR I0 I1 -> Q (PB I0) (k I1)) ->
  Q (PB I0) (with_gas_opt oc I k).
Proof.
  intros H Hc Hk. unfold with_gas_opt. destruct oc as [c|]; [|exact H].
  apply B_with_gas; auto.
Qed.

Lemma B_usize I0 v I k : GR I0 I -> (v < pow64 -> Q (PB I0) (k v)) -> Q (PB I0) (usize_or_fail v I k).
Proof. intros H Hk. unfold usize_or_fail. destruct (v <? pow64) eqn:E; [apply Hk, Z.ltb_lt, E|exact H]. Qed.

Lemma GR_resize I0 I off len m' g' c :
  GR I0 I -> Memory.resize_macro (i_mem I) (rem I) off len = Some (m', g', c) -> c = 0 ->
  GR I0 (set_gas (set_mem I m') (Gas.mkGas (Gas.limit (i_gas I)) g' (Gas.refunded (i_gas I)))).
Proof.
  intros (A & B & C) E C0. unfold GR, gas_le. cbn [set_gas set_mem i_gas Gas.limit Gas.remaining Gas.refunded].
  split; [exact A|]. split; [|exact C]. intros P. destruct (B P) as [P1 P2].
  pose proof (resize_macro_gas _ _ _ _ _ _ _ E C0 P1) as HH. unfold rem in *. lia.
Qed.

Lemma B_mem_resize I0 I off len k :
  GR I0 I -> (forall I1, GR I0 I1 -> Q (PB I0) (k I1)) -> Q (PB I0) (mem_resize I off len k).
Proof.
  intros H Hk. unfold mem_resize.
  destruct (Memory.resize_macro (i_mem I) (rem I) off len) as [[[m' g'] c]|] eqn:E; [|exact Logic.I].
  destruct (c =? 0) eqn:C; [|exact H]. apply Z.eqb_eq in C.
  apply Hk. eapply GR_resize; eassumption.
Qed.

Lemma B_mem_op I0 r I k :
  GR I0 I -> (forall I1, GR I0 I1 -> Q (PB I0) (k I1)) -> Q (PB I0) (mem_op r I k).
Proof.
  intros H Hk. unfold mem_op. destruct r as [m' p]. destruct p; [exact Logic.I|]. apply Hk. exact H.
Qed.

Lemma B_next I0 I1 : GR I0 I1 -> Q (PB I0) (next I1).
Proof. exact (fun x => x). Qed.
Lemma B_push_next I0 I1 v : GR I0 I1 -> Q (PB I0) (push_next v I1).
Proof. intros H. unfold push_next. destruct (_ <=? _); exact H. Qed.
Lemma B_halt I0 I r : GR I0 I -> Q (PB I0) (halt r I).
Proof. exact (fun x => x). Qed.

(* a goal [GR I0 X] / an outcome carrying X, where X differs from a known later state only in
   fields other than the meter *)
Ltac gr := match goal with H : GR ?a _ |- _ => exact H end.

Ltac costpos :=
  let HC := fresh "HC" in
  intros ? HC;
  first [ apply keccak_cost_pos in HC | apply verylowcopy_cost_pos in HC | apply extcodecopy_cost_pos in HC
        | apply sstore_cost_pos in HC | apply create2_cost_pos in HC | apply initcode_cost_nonneg in HC ];
  lia.

Ltac bconsts := unfold G.VERYLOW, G.BASE, G.LOW, G.MID, G.HIGH, G.JUMPDEST, G.BLOCKHASH, G.WARM_STORAGE_READ_COST, G.CREATE in *.

Ltac bstep :=
  first
  [ exact Logic.I
  | gr
  | apply B_push_next; gr
  | apply B_with_gas; [gr | intros ?; try (bconsts; lia) | intros ? ?]
  | apply B_with_gas_opt; [gr | try costpos | intros ? ?]
  | apply B_usize; [gr | intros ?]
  | apply B_mem_resize; [gr | intros ? ?]
  | apply B_mem_op; [gr | intros ? ?]
  | match goal with |- Q _ (match ?x with _ => _ end) => destruct x eqn:? end
  | match goal with |- Q _ (if ?b then _ else _) => destruct b eqn:? end ].
Ltac bcps := repeat (first [bstep | progress cbv zeta]).

Lemma op_pop_B I0 I : GR I0 I -> Q (PB I0) (op_pop I).
Proof. intros H. unfold op_pop. bcps. Qed.
Lemma op_push_env_B I0 I v : GR I0 I -> Q (PB I0) (op_push_env v I).
Proof. intros H. unfold op_push_env. bcps. Qed.
Lemma op_mload_B I0 I : GR I0 I -> Q (PB I0) (op_mload I).
Proof. intros H. unfold op_mload. bcps. Qed.
Lemma op_mstore_B I0 I : GR I0 I -> Q (PB I0) (op_mstore I).
Proof. intros H. unfold op_mstore. bcps. Qed.
Lemma op_mstore8_B I0 I : GR I0 I -> Q (PB I0) (op_mstore8 I).
Proof. intros H. unfold op_mstore8. bcps. Qed.
Lemma op_keccak_B I0 I : GR I0 I -> Q (PB I0) (op_keccak256 I).
Proof. intros H. unfold op_keccak256. bcps. Qed.
Lemma op_calldataload_B I0 F I : GR I0 I -> Q (PB I0) (op_calldataload F I).
Proof. intros H. unfold op_calldataload. bcps. Qed.
Lemma op_copy_B I0 I d : GR I0 I -> Q (PB I0) (op_copy d I).
Proof. intros H. unfold op_copy. bcps. Qed.
Lemma op_returndatacopy_B I0 I : GR I0 I -> Q (PB I0) (op_returndatacopy I).
Proof. intros H. unfold op_returndatacopy. bcps. Qed.
Lemma op_mcopy_B I0 I : GR I0 I -> Q (PB I0) (op_mcopy I).
Proof. intros H. unfold op_mcopy. bcps. Qed.
Lemma op_dup_B I0 I n : GR I0 I -> Q (PB I0) (op_dup n I).
Proof. intros H. unfold op_dup. bcps. Qed.
Lemma op_swap_B I0 I n : GR I0 I -> Q (PB I0) (op_swap n I).
Proof. intros H. unfold op_swap. bcps. Qed.
Lemma op_return_B I0 I r : GR I0 I -> Q (PB I0) (op_return r I).
Proof. intros H. unfold op_return. bcps. Qed.
Lemma op_blobhash_B I0 W I : GR I0 I -> Q (PB I0) (op_blobhash W I).
Proof. intros H. unfold op_blobhash. bcps. Qed.
Lemma op_blockhash_B I0 W I : GR I0 I -> Q (PB I0) (op_blockhash W I).
Proof. intros H. unfold op_blockhash. bcps. Qed.
Lemma op_jump_B I0 F I : GR I0 I -> Q (PB I0) (op_jump F I).
Proof. intros H. unfold op_jump. bcps. Qed.
Lemma op_jumpi_B I0 F I : GR I0 I -> Q (PB I0) (op_jumpi F I).
Proof. intros H. unfold op_jumpi. bcps. Qed.
Lemma op_pushn_B I0 F I n : GR I0 I -> Q (PB I0) (op_pushn F n I).
Proof. intros H. unfold op_pushn. bcps. Qed.

(* ---------------------------------------------------------------- arithmetic instructions *)
Lemma arith_step_refunded spec op st g :
  Arith.i_res (Arith.step spec op st g) = Arith.Continue ->
  Gas.refunded (Arith.i_gas (Arith.step spec op st g)) = Gas.refunded g.
Proof.
  assert (B : forall c f, Arith.i_res (Arith.binop c f st g) = Arith.Continue ->
    Gas.refunded (Arith.i_gas (Arith.binop c f st g)) = Gas.refunded g).
  { intros c f. unfold Arith.binop, Arith.with_gas, Gas.record_cost.
    destruct (c <=? Gas.remaining g); [|discriminate].
    destruct st as [|a [|b r]]; cbn; try discriminate. reflexivity. }
  assert (U : forall c f, Arith.i_res (Arith.unop c f st g) = Arith.Continue ->
    Gas.refunded (Arith.i_gas (Arith.unop c f st g)) = Gas.refunded g).
  { intros c f. unfold Arith.unop, Arith.with_gas, Gas.record_cost.
    destruct (c <=? Gas.remaining g); [|discriminate].
    destruct st as [|a r]; cbn; try discriminate. reflexivity. }
  assert (T : forall c f, Arith.i_res (Arith.ternop c f st g) = Arith.Continue ->
    Gas.refunded (Arith.i_gas (Arith.ternop c f st g)) = Gas.refunded g).
  { intros c f. unfold Arith.ternop, Arith.with_gas, Gas.record_cost.
    destruct (c <=? Gas.remaining g); [|discriminate].
    destruct st as [|a [|b [|m r]]]; cbn; try discriminate. reflexivity. }
  assert (S : forall f, Arith.i_res (Arith.shiftop spec f st g) = Arith.Continue ->
    Gas.refunded (Arith.i_gas (Arith.shiftop spec f st g)) = Gas.refunded g).
  { intros f. unfold Arith.shiftop. destruct (negb _); [discriminate|]. apply B. }
  assert (X : Arith.i_res (Arith.expop spec st g) = Arith.Continue ->
    Gas.refunded (Arith.i_gas (Arith.expop spec st g)) = Gas.refunded g).
  { unfold Arith.expop. destruct st as [|a [|b r]]; try discriminate.
    destruct (Arith.exp_cost spec b) as [c|]; [|discriminate].
    unfold Gas.record_cost. destruct (c <=? Gas.remaining g); [|discriminate]. reflexivity. }
  unfold Arith.step.
  repeat match goal with |- context [match ?x with _ => _ end] => destruct x end;
    try discriminate; try apply B; try apply U; try apply T; try apply S; try apply X.
Qed.

Lemma op_arith_B I0 W I op : GR I0 I -> Q (PB I0) (op_arith W op I).
Proof.
  intros H. unfold op_arith. destruct (Arith.i_res _) eqn:E; try exact H.
  destruct (arith_step_gas _ _ _ _ E) as (A & B & C). pose proof (arith_step_refunded _ _ _ _ E) as D.
  destruct H as (HA & HB & HC).
  unfold next, Q, PB, p_next, GR, gas_le. cbn [set_pc set_gas set_stk i_gas].
  split; [congruence|]. split.
  - intros P. destruct (HB P) as [P1 P2]. specialize (C P1). lia.
  - rewrite D. exact HC.
Qed.

(* ---------------------------------------------------------------- host instructions *)
Lemma op_balance_B I0 W G I : GR I0 I -> Q (PB I0) (snd (op_balance W G I)).
Proof.
  intros H. unfold op_balance. destruct (i_stk I); [exact H|]. hsplit. bcps.
  pose proof (warm_cold_pos b). repeat destruct (en _ _); lia.
Qed.
Lemma op_selfbalance_B I0 W G F I : GR I0 I -> Q (PB I0) (snd (op_selfbalance W G F I)).
Proof.
  intros H. unfold op_selfbalance. destruct (Gas.record_cost _ _) as [g' ok] eqn:E. destruct ok; [|exact H].
  hsplit. apply B_push_next. eapply GR_cost; [exact H| |exact E]. intros _. bconsts. lia.
Qed.
Lemma op_extcodesize_B I0 W G I : GR I0 I -> Q (PB I0) (snd (op_extcodesize W G I)).
Proof.
  intros H. unfold op_extcodesize. destruct (i_stk I); [exact H|]. unfold host_code. hsplit.
  match goal with |- context [match ?o with Some _ => _ | None => _ end] => destruct o end; [|exact Logic.I]. cbn [snd].
  bcps. pose proof (warm_cold_pos b). repeat destruct (en _ _); lia.
Qed.
Lemma op_extcodehash_B I0 W G I : GR I0 I -> Q (PB I0) (snd (op_extcodehash W G I)).
Proof.
  intros H. unfold op_extcodehash. destruct (i_stk I); [exact H|]. hsplit. bcps.
  pose proof (warm_cold_pos b). repeat destruct (en _ _); lia.
Qed.
Lemma op_extcodecopy_B I0 W G I : GR I0 I -> Q (PB I0) (snd (op_extcodecopy W G I)).
Proof.
  intros H. unfold op_extcodecopy. destruct (i_stk I) as [|a [|b [|c [|d r]]]]; try exact H. unfold host_code. hsplit.
  match goal with |- context [match ?o with Some _ => _ | None => _ end] => destruct o end; [|exact Logic.I]. cbn [snd].
  bcps.
Qed.
Lemma op_sload_B I0 W G F I : GR I0 I -> Q (PB I0) (snd (op_sload W G F I)).
Proof.
  intros H. unfold op_sload. destruct (i_stk I); [exact H|].
  destruct (H.sload _ _ _ _) as [[[s1 v] cold]|]; [|exact Logic.I]. cbn [snd].
  bcps. pose proof (sload_cost_pos (spec_of_z (w_spec W)) cold). lia.
Qed.
Lemma op_sstore_B I0 W G F I : GR I0 I -> Q (PB I0) (snd (op_sstore W G F I)).
Proof.
  intros H. unfold op_sstore. destruct (f_static F); [exact H|].
  destruct (i_stk I) as [|k [|v r]]; try exact H.
  destruct (H.sstore _ _ _ _ _) as [[[[s1 orig] present] cold]|]; [|exact Logic.I]. cbn [snd].
  apply B_with_gas_opt; [exact H|costpos|]. intros I1 H1.
  destruct (Gas.record_refund _ _) as [g'|] eqn:ER; [|exact Logic.I].
  apply B_next. eapply GR_refund; eassumption.
Qed.
Lemma op_tload_B I0 G F I : GR I0 I -> Q (PB I0) (snd (op_tload G F I)).
Proof. intros H. unfold op_tload. cbn [snd]. bcps. Qed.
Lemma op_tstore_B I0 G F I : GR I0 I -> Q (PB I0) (snd (op_tstore G F I)).
Proof.
  intros H. unfold op_tstore. destruct (f_static F); [exact H|].
  destruct (Gas.record_cost _ _) as [g' ok] eqn:E. destruct ok; cbn [negb]; [|exact H].
  assert (H1 : GR I0 (set_gas I g')) by (eapply GR_cost; [exact H| |exact E]; intros _; bconsts; lia).
  cbn [set_gas i_stk]. destruct (i_stk I) as [|k [|v r]]; cbn [snd]; exact H1.
Qed.
Lemma selfdestruct_cost_nonneg s a b d : 0 <= GasCalc.selfdestruct_cost s a b d.
Proof.
  unfold GasCalc.selfdestruct_cost. change GasCalc.G.COLD_ACCOUNT_ACCESS_COST with 2600.
  repeat match goal with |- context [if ?x then _ else _] => destruct x end; lia.
Qed.
Lemma op_selfdestruct_B I0 W G F I : GR I0 I -> Q (PB I0) (snd (op_selfdestruct W G F I)).
Proof.
  intros H. unfold op_selfdestruct. destruct (f_static F); [exact H|].
  destruct (i_stk I) as [|t r]; [exact H|].
  destruct (H.selfdestruct _ _ _ _) as [[[[[s1 a] b] c] d]|]; [|exact Logic.I].
  assert (HG : forall g1, GR I0 (set_gas (set_stk I r) g1) ->
     Q (PB I0) (with_gas (GasCalc.selfdestruct_cost (spec_of_z (w_spec W)) a b d) (set_gas (set_stk I r) g1)
                  (fun I1 => SEnd R_SelfDestruct [] I1))).
  { intros g1 H1. apply B_with_gas; [exact H1|intros _; apply selfdestruct_cost_nonneg|]. intros I1 H2. exact H2. }
  destruct (negb (en (w_spec W) E.LONDON) && negb c).
  - destruct (Gas.record_refund _ _) as [g1|] eqn:ER; [|exact Logic.I]. cbn [snd].
    apply HG. eapply (GR_refund I0 (set_stk I r)); [exact H|exact ER].
  - cbn [snd]. apply HG. exact H.
Qed.

Lemma op_create_B I0 W F I b : GR I0 I -> Q (PB I0) (op_create W F b I).
Proof.
  intros H. unfold op_create. destruct (f_static F); [exact H|]. destruct (_ && _); [exact H|].
  destruct (i_stk I) as [|v [|c [|l r]]]; try exact H.
  bcps.
  all: unfold rem in *;
    match goal with |- context [?x / 64] =>
      assert (0 <= x / 64 <= x) by (split; [apply Z.div_pos; lia | apply Z.div_le_upper_bound; lia]) end;
    destruct (en _ E.TANGERINE); lia.
Qed.

(* LOG: the continuation state *)
Lemma op_log_B I0 F I n : 0 <= n -> GR I0 I ->
  match op_log F n I with
  | PDone r => Q (PB I0) r
  | PLog _ I' => GR I0 I'
  | PCall _ _ => False
  end.
Proof.
  intros Hn H. unfold op_log. destruct (f_static F); [exact H|].
  destruct (i_stk I) as [|off [|len r]]; try exact H.
  destruct (pow64 <=? len); [exact H|].
  destruct (GasCalc.log_cost n len) as [c|] eqn:EC; [|exact H]. apply log_cost_pos in EC; [|exact Hn].
  destruct (Gas.record_cost _ _) as [g' ok] eqn:E. destruct ok; cbn [negb]; [|exact H].
  assert (H1 : GR I0 (set_gas (set_stk I r) g')).
  { eapply (GR_cost I0 (set_stk I r)); [exact H| |exact E]. intros _. lia. }
  assert (FIN : forall I2 data, GR I0 I2 ->
     match (if zlen (i_stk I2) <? n then PDone (halt R_StackUnderflow I2)
            else PLog (mkLog (f_target F) (firstn (Z.to_nat n) (i_stk I2)) data)
                      (set_pc (set_stk I2 (skipn (Z.to_nat n) (i_stk I2))) (i_pc I2 + 1))) with
     | PDone r => Q (PB I0) r | PLog _ I' => GR I0 I' | PCall _ _ => False end).
  { intros I2 data H2. destruct (_ <? n); exact H2. }
  cbv zeta. destruct (len =? 0); [apply FIN, H1|].
  destruct (pow64 <=? off); [exact H1|].
  destruct (Memory.resize_macro _ _ _ _) as [[[m' gr] cc]|] eqn:EM; [|exact Logic.I].
  destruct (cc =? 0) eqn:C0; [|exact H1]. apply Z.eqb_eq in C0.
  destruct (Memory.slice _ _ _); [|exact Logic.I].
  apply FIN. eapply GR_resize; eassumption.
Qed.

Lemma call_mem_inr_B I0 I off len I2 o l : GR I0 I -> call_mem I off len = inr (I2, o, l) -> GR I0 I2.
Proof.
  intros H. unfold call_mem. destruct (pow64 <=? len); [discriminate|]. destruct (len =? 0).
  - intros E. assert (I2 = I) by congruence. subst. exact H.
  - destruct (pow64 <=? off); [discriminate|].
    destruct (Memory.resize_macro _ _ _ _) as [[[m' gr] cc]|] eqn:EM; [|discriminate].
    destruct (cc =? 0) eqn:C0; [|discriminate]. apply Z.eqb_eq in C0.
    intros E. assert (I2 = set_gas (set_mem I m') (Gas.mkGas (Gas.limit (i_gas I)) gr (Gas.refunded (i_gas I)))) by congruence. subst I2.
    eapply GR_resize; eassumption.
Qed.
Lemma call_mem_inl_B I0 I off len e : GR I0 I -> call_mem I off len = inl e -> Q (PB I0) e.
Proof.
  intros H. unfold call_mem. intros E.
  destruct (pow64 <=? len); [injection E as <-; exact H|].
  destruct (len =? 0); [discriminate|].
  destruct (pow64 <=? off); [injection E as <-; exact H|].
  destruct (Memory.resize_macro _ _ _ _) as [[[m' gr] cc]|]; [|injection E as <-; exact Logic.I].
  destruct (cc =? 0); [discriminate|injection E as <-; exact H].
Qed.

Lemma op_call_pre_B I0 F I sch : GR I0 I ->
  match op_call_pre F sch I with
  | PDone r => Q (PB I0) r
  | PLog _ _ => False
  | PCall c I3 => GR I0 I3
  end.
Proof.
  intros H. unfold op_call_pre. destruct (i_stk I) as [|lg [|to r]]; try exact H.
  match goal with |- context [match ?o with Some _ => _ | None => _ end] => destruct o as [[value r1]|] end; [|exact H].
  destruct (value <? 0); [exact Logic.I|].
  destruct (match sch with SchCall => _ | _ => false end); [exact H|].
  cbn [set_stk i_stk]. destruct r1 as [|io [|il [|oo [|ol r2]]]]; try exact H.
  destruct (call_mem _ _ _) as [e|[[I2 io'] il']] eqn:E1; [eapply call_mem_inl_B; [|eassumption]; exact H|].
  apply (call_mem_inr_B I0) in E1; [|exact H].
  match goal with |- context [match ?o with Some _ => _ | None => _ end] => destruct o end; [|exact Logic.I].
  destruct (call_mem I2 oo ol) as [e|[[I3 oo'] ol']] eqn:E2; [eapply call_mem_inl_B; eassumption|].
  eapply call_mem_inr_B; eassumption.
Qed.

Lemma op_call_post_B I0 W G F c I : GR I0 I -> 0 <= cp_local c -> Q (PB I0) (snd (op_call_post W G F c I)).
Proof.
  intros H HL. unfold op_call_post. hsplit.
  apply B_with_gas; [exact H| |].
  { intros _. match goal with |- 0 <= GasCalc.call_cost ?s ?tv ?cold ?dc ?em => pose proof (call_cost_pos s tv cold dc em) end. lia. }
  intros I1 H1. cbv zeta.
  apply B_with_gas; [exact H1| |].
  { intros P. unfold Gas.remaining_63_of_64_parts, rem in *.
    assert (0 <= Gas.remaining (i_gas I1) / 64 <= Gas.remaining (i_gas I1)) by (split; [apply Z.div_pos; lia | apply Z.div_le_upper_bound; lia]).
    destruct (en _ _); lia. }
  intros I2 H2. destruct (cp_scheme c); exact H2.
Qed.

Theorem step_B W G F I : Q (PB I) (snd (step W G F I)).
Proof.
  pose proof (GR_refl I) as H0.
  unfold step. cbv zeta.
  set (op := opcode_at F (i_pc I)).
  destruct (_ && f_static F); [exact H0|].
  destruct (_ =? GateSpec.C_LATER); [exact H0|].
  destruct (_ =? GateSpec.C_UNDEFINED); [exact H0|].
  destruct (_ =? GateSpec.C_EOF_ONLY); [exact H0|].
  destruct (_ =? GateSpec.C_INVALID); [exact H0|].
  destruct (GateSpec.gate (w_spec W) op GateSpec.Legacy =? GateSpec.C_DEFINED) eqn:ED; cbn [negb]; [|exact Logic.I].
  apply Z.eqb_eq in ED. apply gate_defined_cases in ED.
  repeat match goal with
  | |- Q _ (snd (if ?b then _ else _)) =>
      let H := fresh "C" in destruct b eqn:H; [|first [apply Z.eqb_neq in H | apply Z.leb_gt in H]]
  end; cbn [snd];
  try exact Logic.I; try exact H0;
  first [ apply op_arith_B | apply op_keccak_B | apply op_push_env_B | apply op_balance_B | apply op_calldataload_B
        | apply op_copy_B | apply op_extcodesize_B | apply op_extcodecopy_B | apply op_returndatacopy_B
        | apply op_extcodehash_B | apply op_blockhash_B | apply op_selfbalance_B | apply op_blobhash_B
        | apply op_pop_B | apply op_mload_B | apply op_mstore_B | apply op_mstore8_B | apply op_sload_B
        | apply op_sstore_B | apply op_jump_B | apply op_jumpi_B | apply op_tload_B | apply op_tstore_B
        | apply op_mcopy_B | apply op_dup_B | apply op_swap_B | apply op_create_B | apply op_return_B
        | apply op_selfdestruct_B | apply op_pushn_B | idtac ]; try exact H0.
  - bcps.
  - bcps.
  - pose proof (op_log_B I F I (op - 160)) as HL. destruct (op_log F (op - 160) I); cbn [finish_pre snd].
    + apply HL; [lia|exact H0].
    + apply HL; [lia|exact H0].
    + exfalso. apply HL; [lia|exact H0].
  - pose proof (op_call_pre_B I F I SchCall H0) as HL. pose proof (op_call_pre_Q F I SchCall) as HQ.
    destruct (op_call_pre F SchCall I); cbn [finish_pre snd];
      [exact HL|destruct HL|destruct HQ as (_ & ? & _); apply op_call_post_B; assumption].
  - pose proof (op_call_pre_B I F I SchCallCode H0) as HL. pose proof (op_call_pre_Q F I SchCallCode) as HQ.
    destruct (op_call_pre F SchCallCode I); cbn [finish_pre snd];
      [exact HL|destruct HL|destruct HQ as (_ & ? & _); apply op_call_post_B; assumption].
  - pose proof (op_call_pre_B I F I SchDelegateCall H0) as HL. pose proof (op_call_pre_Q F I SchDelegateCall) as HQ.
    destruct (op_call_pre F SchDelegateCall I); cbn [finish_pre snd];
      [exact HL|destruct HL|destruct HQ as (_ & ? & _); apply op_call_post_B; assumption].
  - pose proof (op_call_pre_B I F I SchStaticCall H0) as HL. pose proof (op_call_pre_Q F I SchStaticCall) as HQ.
    destruct (op_call_pre F SchStaticCall I); cbn [finish_pre snd];
      [exact HL|destruct HL|destruct HQ as (_ & ? & _); apply op_call_post_B; assumption].
Qed.

(* the meter after one instruction, whatever its outcome *)
Definition sres_gas (x : sres) : option Gas.gas :=
  match x with
  | SNext I' | SEnd _ _ I' | SCall _ I' | SCreate _ I' => Some (i_gas I')
  | SBad _ => None
  end.

Theorem step_gas_le W G F I G' x g' :
  step W G F I = (G', x) -> sres_gas x = Some g' -> gas_le (i_gas I) g'.
Proof.
  intros E S. pose proof (step_B W G F I) as HQ. rewrite E in HQ. cbn [snd] in HQ.
  destruct x; cbn [sres_gas] in S; try discriminate; injection S as <-; exact HQ.
Qed.

Theorem step_meter_invariant W G F I G' x g' :
  step W G F I = (G', x) -> sres_gas x = Some g' -> Gas.gas_inv (i_gas I) ->
  Gas.gas_inv g' /\ Gas.limit g' = Gas.limit (i_gas I) /\ Gas.remaining g' <= Gas.remaining (i_gas I).
Proof. intros E S. apply gas_le_inv. eapply step_gas_le; eassumption. Qed.

(* ================================================================ Part B: complete frames *)

(* what the induction carries: the result of a frame holds a later state of the meter the frame
   was started with *)
Definition rec_gr (rec : rec_t) : Prop :=
  forall G F I G' r, rec G F I = XDone (G', r) -> gas_le (i_gas I) (ir_gas r).

Lemma gas_le_cost g c g' :
  0 <= c -> Gas.record_cost g c = (g', true) -> gas_le g g'.
Proof.
  intros Hc E. apply record_cost_true in E. destruct E as (L & Rm & Le & Rf).
  unfold gas_le. split; [exact L|]. split; [intros; lia|rewrite Rf; auto].
Qed.

Lemma precompile_result_gr gl o : gas_le (Gas.gas_new gl) (ir_gas (precompile_result gl o)).
Proof.
  unfold precompile_result. destruct o as [used out| |]; cbn [ir_gas]; try apply gas_le_refl.
  destruct (used <? 0) eqn:U; cbn [ir_gas]; [apply gas_le_refl|]. apply Z.ltb_ge in U.
  destruct (Gas.record_cost _ _) as [g' ok] eqn:E. destruct ok; cbn [ir_gas]; [|apply gas_le_refl].
  eapply gas_le_cost; eassumption.
Qed.

Lemma do_call_gr W rec G c G' r :
  rec_gr rec -> do_call W rec G c = XDone (G', r) -> gas_le (Gas.gas_new (cq_gas_limit c)) (ir_gas r).
Proof.
  intros HR. unfold do_call.
  destruct (Fr.make_call_frame _ _ _) as [[sc1 [r0|cp]]|]; [| |discriminate].
  - destruct r0; try discriminate; try (intros E; injection E as <- <-; cbn [ir_gas]; apply gas_le_refl).
    destruct (match (if is_precompile W (cq_bytecode c) then _ else None) with Some (Some o) => _ | _ => None end) as [pr|] eqn:EP;
      [|discriminate].
    intros E. injection E as <- <-.
    destruct (if is_precompile W (cq_bytecode c) then _ else None) as [[o|]|]; try discriminate.
    injection EP as <-. apply precompile_result_gr.
  - destruct (code_of_account _ _ _) as [code|]; [|discriminate].
    destruct (rec _ _ _) as [[G2 r2]| |k] eqn:ER; try discriminate.
    destruct (Fr.call_return _ _); [|discriminate].
    intros E. injection E as <- <-. apply HR in ER. exact ER.
Qed.

Lemma create_return_gr W G created r G' r' :
  create_return W G created r = Some (G', r') -> gas_le (ir_gas r) (ir_gas r').
Proof.
  unfold create_return. intros E.
  assert (FAIL : forall r1, match Fr.create_return (g_sc G) created Fr.CRFail with
            | Some sc => Some (set_sc G sc, r1) | None => None end = Some (G', r') -> r' = r1).
  { intros r1. destruct (Fr.create_return _ _ _); [|discriminate]. congruence. }
  destruct (negb (is_ok (ir_res r))). { apply FAIL in E. subst. apply gas_le_refl. }
  destruct (_ && _). { apply FAIL in E. subst. apply gas_le_refl. }
  destruct (_ && _). { apply FAIL in E. subst. apply gas_le_refl. }
  destruct (Gas.record_cost _ _) as [g' ok] eqn:ER.
  destruct (negb ok && _). { apply FAIL in E. subst. apply gas_le_refl. }
  destruct (add_code G _) as [G1 id]. destruct (Fr.create_return _ _ _); [|discriminate].
  injection E as <- <-. cbn [ir_gas].
  assert (0 <= zlen (ir_out r) * G.CODEDEPOSIT) by (unfold zlen; change G.CODEDEPOSIT with 200; lia).
  destruct ok; [eapply gas_le_cost; eassumption|].
  unfold Gas.record_cost in ER. destruct (_ <=? _); [discriminate|]. injection ER as <-. apply gas_le_refl.
Qed.

Lemma do_create_gr W rec G c G' r a :
  rec_gr rec -> do_create W rec G c = XDone (G', r, a) -> gas_le (Gas.gas_new (kq_gas_limit c)) (ir_gas r).
Proof.
  intros HR. unfold do_create. destruct (H.load_account _ _ _) as [s1 cold].
  destruct (Fr.make_create_frame _ _ _) as [[sc1 [r0|cp]]|]; [| |discriminate].
  - destruct r0; try discriminate; intros E; injection E as <- <- <-; cbn [ir_gas]; apply gas_le_refl.
  - match goal with |- context [rec ?g ?f ?i] => destruct (rec g f i) as [[G2 r2]| |k] eqn:ER end; try discriminate.
    destruct (create_return W G2 _ r2) as [[G3 r']|] eqn:ECR; [|discriminate].
    intros E. injection E as <- <- <-. apply HR in ER. apply create_return_gr in ECR.
    eapply gas_le_trans; eassumption.
Qed.

(* insert_call_outcome / insert_create_outcome: the parent's meter after taking back the child's
   gas and refund *)
Lemma insert_call_meter I1 c r I2 :
  insert_call_outcome I1 c r = Some I2 ->
  Gas.limit (i_gas I2) = Gas.limit (i_gas I1) /\
  rem I2 = rem I1 + (if okrev r then Gas.remaining (ir_gas r) else 0) /\
  (in_i64 (Gas.refunded (i_gas I1)) -> in_i64 (Gas.refunded (i_gas I2))).
Proof.
  intros E. split; [|split; [exact (insert_call_rem _ _ _ _ E)|]]; revert E;
  unfold insert_call_outcome;
  (assert (PM : forall I3 flag I4,
    (let '(m', panicked) := M.set (i_mem I3) (cq_ret_off c) (firstn (Z.to_nat (Z.min (cq_ret_len c) (zlen (ir_out r)))) (ir_out r)) in
     if panicked then None else Some (set_stk (set_mem I3 m') (flag :: i_stk I3))) = Some I4 -> i_gas I4 = i_gas I3)
   by (intros I3 flag I4; destruct (M.set _ _ _) as [m' p]; destruct p; [discriminate|]; intros HH; injection HH as <-; reflexivity)).
  - destruct (is_ok (ir_res r)).
    + destruct (Gas.erase_cost _ _) as [g1|] eqn:E1; [|discriminate].
      destruct (Gas.record_refund g1 _) as [g2|] eqn:E2; [|discriminate].
      intros HH. apply PM in HH. rewrite HH. cbn [set_gas i_gas].
      apply record_refund_some in E2. destruct E2 as [L2 _]. rewrite L2.
      unfold Gas.erase_cost in E1. destruct (checked64 _); [|discriminate]. injection E1 as <-. reflexivity.
    + destruct (is_revert (ir_res r)).
      * destruct (Gas.erase_cost _ _) as [g1|] eqn:E1; [|discriminate].
        intros HH. apply PM in HH. rewrite HH. cbn [set_gas i_gas].
        unfold Gas.erase_cost in E1. destruct (checked64 _); [|discriminate]. injection E1 as <-. reflexivity.
      * intros HH. injection HH as <-. reflexivity.
  - destruct (is_ok (ir_res r)).
    + destruct (Gas.erase_cost _ _) as [g1|] eqn:E1; [|discriminate].
      destruct (Gas.record_refund g1 _) as [g2|] eqn:E2; [|discriminate].
      intros HH. apply PM in HH. rewrite HH. cbn [set_gas i_gas]. intros _.
      unfold Gas.record_refund in E2. destruct (is_i64 _) eqn:E64; [|discriminate]. injection E2 as <-.
      apply is_i64_spec in E64. exact E64.
    + destruct (is_revert (ir_res r)).
      * destruct (Gas.erase_cost _ _) as [g1|] eqn:E1; [|discriminate].
        intros HH. apply PM in HH. rewrite HH. cbn [set_gas i_gas].
        unfold Gas.erase_cost in E1. destruct (checked64 _); [|discriminate]. injection E1 as <-. cbn. auto.
      * intros HH. injection HH as <-. cbn. auto.
Qed.

Lemma insert_create_meter I1 r a I2 :
  insert_create_outcome I1 r a = Some I2 ->
  Gas.limit (i_gas I2) = Gas.limit (i_gas I1) /\
  rem I2 = rem I1 + (if okrev r then Gas.remaining (ir_gas r) else 0) /\
  (in_i64 (Gas.refunded (i_gas I1)) -> in_i64 (Gas.refunded (i_gas I2))).
Proof.
  intros E. split; [|split; [exact (insert_create_rem _ _ _ _ E)|]]; revert E;
  unfold insert_create_outcome.
  - destruct (is_ok (ir_res r)).
    + destruct (Gas.erase_cost _ _) as [g1|] eqn:E1; [|discriminate].
      destruct (Gas.record_refund g1 _) as [g2|] eqn:E2; [|discriminate].
      intros HH. injection HH as <-. cbn [set_gas set_stk i_gas].
      apply record_refund_some in E2. destruct E2 as [L2 _]. rewrite L2.
      unfold Gas.erase_cost in E1. destruct (checked64 _); [|discriminate]. injection E1 as <-. reflexivity.
    + destruct (is_revert (ir_res r)).
      * destruct (Gas.erase_cost _ _) as [g1|] eqn:E1; [|discriminate].
        intros HH. injection HH as <-. cbn [set_gas set_stk i_gas].
        unfold Gas.erase_cost in E1. destruct (checked64 _); [|discriminate]. injection E1 as <-. reflexivity.
      * intros HH. injection HH as <-. reflexivity.
  - destruct (is_ok (ir_res r)).
    + destruct (Gas.erase_cost _ _) as [g1|] eqn:E1; [|discriminate].
      destruct (Gas.record_refund g1 _) as [g2|] eqn:E2; [|discriminate].
      intros HH. injection HH as <-. cbn [set_gas set_stk i_gas]. intros _.
      unfold Gas.record_refund in E2. destruct (is_i64 _) eqn:E64; [|discriminate]. injection E2 as <-.
      apply is_i64_spec in E64. exact E64.
    + destruct (is_revert (ir_res r)).
      * destruct (Gas.erase_cost _ _) as [g1|] eqn:E1; [|discriminate].
        intros HH. injection HH as <-. cbn [set_gas set_stk i_gas].
        unfold Gas.erase_cost in E1. destruct (checked64 _); [|discriminate]. injection E1 as <-. cbn. auto.
      * intros HH. injection HH as <-. cbn. auto.
Qed.

(* the parent after a complete call: a later state of the meter it had before the CALL *)
Lemma after_child_gr I I1 I2 gl (rg : Gas.gas) (ok : bool) :
  GR I I1 ->
  (0 <= rem I -> 0 <= rem I1 /\ 0 <= gl /\ rem I1 + gl + 1 <= rem I) ->
  gas_le (Gas.gas_new gl) rg ->
  Gas.limit (i_gas I2) = Gas.limit (i_gas I1) ->
  rem I2 = rem I1 + (if ok then Gas.remaining rg else 0) ->
  (in_i64 (Gas.refunded (i_gas I1)) -> in_i64 (Gas.refunded (i_gas I2))) ->
  GR I I2.
Proof.
  intros (A & B & C) PC (A' & B' & C') L Rm Rf. unfold GR, gas_le, rem in *.
  split; [congruence|]. split; [|auto].
  intros P. destruct (PC P) as (P1 & P2 & P3). cbn [Gas.gas_new Gas.remaining] in B'. specialize (B' P2).
  destruct ok; lia.
Qed.

Theorem exec_gr W : forall f, rec_gr (exec f W).
Proof.
  induction f as [|f IH]; intros G F I G' r E.
  - discriminate.
  - cbn [exec] in E.
    destruct (step W G F I) as [G1 [I1|r0 out I1|c I1|c I1|k]] eqn:ES.
    + apply IH in E. eapply gas_le_trans; [|exact E]. eapply step_gas_le; [exact ES|reflexivity].
    + injection E as <- <-. cbn [ir_gas]. eapply step_gas_le; [exact ES|reflexivity].
    + destruct (do_call W (exec f W) G1 c) as [[G2 r2]| |k] eqn:EC; try discriminate.
      destruct (insert_call_outcome I1 c r2) as [I2|] eqn:EI; [|discriminate].
      apply IH in E. eapply gas_le_trans; [|exact E].
      apply insert_call_meter in EI. destruct EI as (L & Rm & Rf).
      apply (after_child_gr I I1 I2 (cq_gas_limit c) (ir_gas r2) (okrev r2)); auto.
      * eapply step_gas_le; [exact ES|reflexivity].
      * intros P. destruct (step_call_gas _ _ _ _ _ _ _ ES P) as (_ & P1 & P2 & P3). auto.
      * eapply do_call_gr; [exact IH|exact EC].
    + destruct (do_create W (exec f W) G1 c) as [[[G2 r2] a]| |k] eqn:EC; try discriminate.
      destruct (insert_create_outcome I1 r2 a) as [I2|] eqn:EI; [|discriminate].
      apply IH in E. eapply gas_le_trans; [|exact E].
      apply insert_create_meter in EI. destruct EI as (L & Rm & Rf).
      apply (after_child_gr I I1 I2 (kq_gas_limit c) (ir_gas r2) (okrev r2)); auto.
      * eapply step_gas_le; [exact ES|reflexivity].
      * intros P. destruct (step_create_gas _ _ _ _ _ _ _ ES P) as (_ & P1 & P2 & P3). auto.
      * eapply do_create_gr; [exact IH|exact EC].
    + discriminate.
Qed.

(* ---- the headline forms *)
Theorem exec_meter_invariant f W G F I G' r :
  exec f W G F I = XDone (G', r) -> Gas.gas_inv (i_gas I) ->
  Gas.gas_inv (ir_gas r) /\ Gas.limit (ir_gas r) = Gas.limit (i_gas I) /\
  Gas.remaining (ir_gas r) <= Gas.remaining (i_gas I).
Proof. intros E. apply gas_le_inv. exact (exec_gr W f G F I G' r E). Qed.

Lemma gas_new_inv_iff gl : in_u64 gl -> Gas.gas_inv (Gas.gas_new gl).
Proof. apply GasProofs.gas_new_inv. Qed.

Theorem do_call_meter_invariant f W G c G' r :
  do_call W (exec f W) G c = XDone (G', r) -> in_u64 (cq_gas_limit c) ->
  Gas.gas_inv (ir_gas r) /\ Gas.limit (ir_gas r) = cq_gas_limit c /\ Gas.remaining (ir_gas r) <= cq_gas_limit c.
Proof.
  intros E U. apply (do_call_gr W _ _ _ _ _ (exec_gr W f)) in E.
  apply gas_le_inv in E; [|apply gas_new_inv_iff, U]. exact E.
Qed.
Theorem do_create_meter_invariant f W G c G' r a :
  do_create W (exec f W) G c = XDone (G', r, a) -> in_u64 (kq_gas_limit c) ->
  Gas.gas_inv (ir_gas r) /\ Gas.limit (ir_gas r) = kq_gas_limit c /\ Gas.remaining (ir_gas r) <= kq_gas_limit c.
Proof.
  intros E U. apply (do_create_gr W _ _ _ _ _ _ (exec_gr W f)) in E.
  apply gas_le_inv in E; [|apply gas_new_inv_iff, U]. exact E.
Qed.

(* C13's frame-accounting contract ([Gas.op_ok]) is met where the parent takes back a child's gas
   and refund: the erase_cost stays below the limit, the refund sum stays an i64; the parent's
   meter is again inside the invariant and strictly below where it was before the CALL *)
Theorem call_outcome_within_contract f W G F I G1 c I1 G2 r I2 :
  Gas.gas_inv (i_gas I) ->
  step W G F I = (G1, SCall c I1) -> do_call W (exec f W) G1 c = XDone (G2, r) ->
  insert_call_outcome I1 c r = Some I2 ->
  (okrev r = true -> Gas.op_ok (i_gas I1) (Gas.EraseCost (Gas.remaining (ir_gas r)))) /\
  Gas.gas_inv (i_gas I2) /\ Gas.limit (i_gas I2) = Gas.limit (i_gas I) /\ rem I2 < rem I.
Proof.
  intros Inv ES EC EI.
  pose proof (step_gas_le _ _ _ _ _ _ _ ES eq_refl) as H1.
  pose proof (do_call_gr W _ _ _ _ _ (exec_gr W f) EC) as HC.
  pose proof Inv as (IL & IR & IF).
  destruct (step_call_gas _ _ _ _ _ _ _ ES (proj1 IR)) as (L1 & P1 & P2 & P3).
  pose proof (insert_call_meter _ _ _ _ EI) as (L & Rm & Rf).
  assert (H2 : GR I I2).
  { apply (after_child_gr I I1 I2 (cq_gas_limit c) (ir_gas r) (okrev r)); auto. }
  destruct (gas_le_inv _ _ H2 Inv) as (Inv2 & L2 & _).
  destruct HC as (CL & CR & CF). cbn [Gas.gas_new Gas.remaining] in CR. specialize (CR P2).
  unfold rem in *.
  split; [|split; [exact Inv2|split; [exact L2|destruct (okrev r); lia]]].
  intros _. cbn [Gas.op_ok]. unfold in_u64 in *. rewrite L1. lia.
Qed.

Theorem create_outcome_within_contract f W G F I G1 c I1 G2 r a I2 :
  Gas.gas_inv (i_gas I) ->
  step W G F I = (G1, SCreate c I1) -> do_create W (exec f W) G1 c = XDone (G2, r, a) ->
  insert_create_outcome I1 r a = Some I2 ->
  (okrev r = true -> Gas.op_ok (i_gas I1) (Gas.EraseCost (Gas.remaining (ir_gas r)))) /\
  Gas.gas_inv (i_gas I2) /\ Gas.limit (i_gas I2) = Gas.limit (i_gas I) /\ rem I2 < rem I.
Proof.
  intros Inv ES EC EI.
  pose proof (step_gas_le _ _ _ _ _ _ _ ES eq_refl) as H1.
  pose proof (do_create_gr W _ _ _ _ _ _ (exec_gr W f) EC) as HC.
  pose proof Inv as (IL & IR & IF).
  destruct (step_create_gas _ _ _ _ _ _ _ ES (proj1 IR)) as (L1 & P1 & P2 & P3).
  pose proof (insert_create_meter _ _ _ _ EI) as (L & Rm & Rf).
  assert (H2 : GR I I2).
  { apply (after_child_gr I I1 I2 (kq_gas_limit c) (ir_gas r) (okrev r)); auto. }
  destruct (gas_le_inv _ _ H2 Inv) as (Inv2 & L2 & _).
  destruct HC as (CL & CR & CF). cbn [Gas.gas_new Gas.remaining] in CR. specialize (CR P2).
  unfold rem in *.
  split; [|split; [exact Inv2|split; [exact L2|destruct (okrev r); lia]]].
  intros _. cbn [Gas.op_ok]. unfold in_u64 in *. rewrite L1. lia.
Qed.

(* ================================================================ Part C: the transaction *)
Module SP := SettlementProofs.

(* ---- run_tx cut at the first frame *)
(* state and EIP-7702 refund before the first frame: load_access_list, deduct_caller,
   apply_eip7702_auth_list *)
Definition tx_before_frame (W : world) : option (gstate * Z) :=
  match deduct_caller W (load_access_list W (gstate_new W)) with
  | None => None
  | Some G1 =>
      let '(G2, n) := if en (w_spec W) E.PRAGUE then apply_auths W G1 (w_auth_list W) 0 else (G1, 0) in
      Some (G2, n * (G.PER_EMPTY_ACCOUNT_COST - G.PER_AUTH_BASE_COST))
  end.
(* the EIP-7702 refund handed to post_execution::refund *)
Definition tx_auth_refund (W : world) : Z :=
  match tx_before_frame W with Some (_, a) => a | None => 0 end.
Definition tx_initial (W : world) : Z := fst (E.initial_and_floor (w_spec W) (w_env W)).
Definition tx_floor (W : world) : Z := snd (E.initial_and_floor (w_spec W) (w_env W)).
Definition tx_limit (W : world) : Z := E.tx_gas_limit (E.e_tx (w_env W)).

(* the first frame: what run_tx executes between pre-execution and last_frame_return *)
Definition first_frame (fuel : nat) (W : world) : xres (gstate * iresult * option Z) :=
  match tx_before_frame W with
  | None => XBad BAD_PANIC
  | Some (G2, _) =>
      let gas_limit := tx_limit W - tx_initial W in
      match w_to W with
      | Some to =>
          match do_call W (exec fuel W) G2
                  (mkCall SchCall gas_limit to (w_caller W) to (w_value W) true false (w_data W) 0 0) with
          | XDone (G3, r) => XDone (G3, r, None)
          | XOutOfFuel => XOutOfFuel
          | XBad k => XBad k
          end
      | None => do_create W (exec fuel W) G2 (mkCreate (w_caller W) None (w_value W) (w_data W) gas_limit)
      end
  end.

(* the frame result as last_frame_return sees it *)
Definition frame_of (r : iresult) : St.frame_result :=
  St.mkFrame (frame_class (ir_res r)) (Gas.remaining (ir_gas r)) (Gas.refunded (ir_gas r)).
(* the same with the refund counter of a failed frame (which last_frame_return never reads) cleared *)
Definition frame_of_norm (r : iresult) : St.frame_result :=
  St.mkFrame (frame_class (ir_res r)) (Gas.remaining (ir_gas r))
             (match frame_class (ir_res r) with St.FOk => Gas.refunded (ir_gas r) | _ => 0 end).

(* last_frame_return, refund, the EIP-7623 floor step, output *)
Definition gas_part (W : world) (fr : St.frame_result) : option (Z * Z) :=
  match St.last_frame_return (w_env W) fr with
  | None => None
  | Some g1 =>
      match St.refund (w_spec W) g1 (tx_auth_refund W) with
      | None => None
      | Some g2 => St.output_gas (St.floor_step g2 (tx_floor W))
      end
  end.

Lemma last_frame_return_norm e r : St.last_frame_return e (frame_of_norm r) = St.last_frame_return e (frame_of r).
Proof. unfold St.last_frame_return, frame_of_norm, frame_of. cbn [St.f_class St.f_remaining St.f_refunded]. destruct (frame_class _); reflexivity. Qed.
Lemma gas_part_norm W r : gas_part W (frame_of_norm r) = gas_part W (frame_of r).
Proof. unfold gas_part. rewrite last_frame_return_norm. reflexivity. Qed.

Theorem run_tx_inv f W tr :
  run_tx f W = XDone tr ->
  exists G3 r cr, first_frame f W = XDone (G3, r, cr) /\
    tr_reason tr = ir_res r /\ tr_class tr = result_class (ir_res r) /\
    gas_part W (frame_of r) = Some (tr_gas_used tr, tr_gas_refunded tr).
Proof.
  unfold run_tx, first_frame, gas_part, tx_auth_refund, tx_before_frame, tx_floor, tx_initial, tx_limit.
  destruct (E.initial_and_floor _ _) as [ig fg]. cbn [fst snd].
  destruct (deduct_caller _ _) as [G1|]; [|discriminate].
  destruct (if en (w_spec W) E.PRAGUE then _ else _) as [G2 ra].
  match goal with |- context [match ?x with XDone _ => _ | XOutOfFuel => XOutOfFuel | XBad k => XBad k end = XDone tr] =>
    set (first := x) end.
  clearbody first.
  destruct first as [[[G3 r] cr]| |k]; try discriminate.
  fold (frame_of r).
  destruct (St.last_frame_return _ _) as [g1|] eqn:E1; [|discriminate].
  destruct (St.refund _ _ _) as [g2|] eqn:E2; [|discriminate].
  destruct (settle W G3 _) as [G4|]; [|discriminate].
  destruct (St.output_gas _) as [[used refd]|] eqn:E3; [|discriminate].
  intros E. injection E as <-. cbn [tr_reason tr_class tr_gas_used tr_gas_refunded].
  exists G3, r, cr. rewrite E1, E2, E3. auto.
Qed.

(* ---- the EIP-7702 refund is non-negative *)
Lemma apply_auths_nonneg W : forall l G n, 0 <= n -> 0 <= snd (apply_auths W G l n).
Proof.
  induction l as [|[[[au ch] ad] no] l IH]; intros G n Hn; cbn [apply_auths]; [exact Hn|].
  destruct (_ && _); [apply IH, Hn|].
  destruct (no =? _); [apply IH, Hn|].
  destruct au as [au|]; [|apply IH, Hn].
  destruct (H.load_code _ _ _) as [s1 c1].
  destruct (H.st s1 au) as [acc|]; [|apply IH, Hn].
  destruct (_ && _); [apply IH, Hn|].
  destruct (negb (no =? _)); [apply IH, Hn|].
  destruct (if ad =? 0 then _ else _) as [G2 id]. apply IH. destruct (H.is_empty_acc acc); lia.
Qed.

Lemma tx_auth_refund_nonneg W : 0 <= tx_auth_refund W.
Proof.
  unfold tx_auth_refund, tx_before_frame. destruct (deduct_caller _ _) as [G1|]; [|lia].
  destruct (en (w_spec W) E.PRAGUE).
  - pose proof (apply_auths_nonneg W (w_auth_list W) G1 0 ltac:(lia)) as HH.
    destruct (apply_auths _ _ _ _) as [G2 n]. cbn [snd] in HH.
    change (G.PER_EMPTY_ACCOUNT_COST - G.PER_AUTH_BASE_COST) with 12500. lia.
  - lia.
Qed.

(* no authorization list, or a hardfork before PRAGUE: no EIP-7702 refund *)
Lemma tx_auth_refund_none W :
  w_auth_list W = [] \/ en (w_spec W) E.PRAGUE = false -> tx_auth_refund W = 0.
Proof.
  intros HH. unfold tx_auth_refund, tx_before_frame. destruct (deduct_caller _ _) as [G1|]; [|reflexivity].
  destruct (en (w_spec W) E.PRAGUE); [|reflexivity].
  destruct HH as [-> | HH]; [reflexivity|discriminate].
Qed.

(* ---- the first frame's result lies inside the meter it was given *)
Theorem first_frame_gas f W G3 r cr :
  first_frame f W = XDone (G3, r, cr) ->
  gas_le (Gas.gas_new (tx_limit W - tx_initial W)) (ir_gas r).
Proof.
  unfold first_frame. destruct (tx_before_frame W) as [[G2 a]|]; [|discriminate]. cbv zeta.
  destruct (w_to W) as [to|].
  - destruct (do_call _ _ _ _) as [[G3' r']| |k] eqn:EC; try discriminate.
    intros E. injection E as <- <- <-. apply (do_call_gr W _ _ _ _ _ (exec_gr W f)) in EC. exact EC.
  - intros EC. apply (do_create_gr W _ _ _ _ _ _ (exec_gr W f)) in EC. exact EC.
Qed.

(* ---- the settlement of the meter: closed form with NO assumption on the sign of the refund
   counter (a negative i64 counter is cast to a large u64 and the cap wins, as in C13) *)
Ltac Zify.zify_post_hook ::= Z.div_mod_to_equations.

Section TxGas.
  Variables (spec : Z) (e : E.env) (initial floor : Z) (f : St.frame_result) (auth : Z).
  Notation gl := (E.tx_gas_limit (E.e_tx e)).
  Notation q := (SP.refund_quotient spec).
  Hypothesis Hgl : in_u64 gl.
  Hypothesis Hini : 0 <= initial <= gl.
  Hypothesis Hflo : 0 <= floor <= gl.
  Hypothesis Hrem : 0 <= St.f_remaining f <= gl - initial.
  Hypothesis Hauth : 0 <= auth.

  (* `refunded as u64` of the counter handed to set_final_refund *)
  Definition ucounter : Z := i64_as_u64 (SP.counter f auth).
  Definition ucapped : Z := Z.min ucounter (SP.spent0 e f / q).
  Definition ufloor_hit : bool := SP.spent0 e f - ucapped <? floor.
  Definition uused : Z := if ufloor_hit then floor else SP.spent0 e f - ucapped.
  Definition urefd : Z := if ufloor_hit then 0 else ucapped.

  Lemma settle_meter_closed rem0 c :
    0 <= rem0 <= gl -> in_i64 c ->
    let S := gl - rem0 in let cap := Z.min (i64_as_u64 c) (S / q) in
    let hit := S - cap <? floor in
    Gas.set_final_refund_chk (Gas.mkGas gl rem0 c) (E.enabled spec E.LONDON) = Some (Gas.mkGas gl rem0 cap) /\
    St.output_gas (St.floor_step (Gas.mkGas gl rem0 cap) floor)
      = Some (if hit then floor else S - cap, if hit then 0 else cap).
  Proof.
    intros R0 C64 S cap hit.
    assert (Q : q = 5 \/ q = 2) by apply SP.q_cases.
    assert (CU : 0 <= i64_as_u64 c < pow64) by (unfold i64_as_u64; apply Z.mod_pos_bound; reflexivity).
    assert (SQ : 0 <= S / q <= S /\ S / q < pow63).
    { unfold S. unfold in_u64, pow64, pow63 in *. destruct Q as [-> | ->]; lia. }
    assert (CAP : 0 <= cap <= S / q) by (unfold cap; lia).
    split.
    - unfold Gas.set_final_refund_chk, Gas.set_final_refund, Gas.spent. cbn [Gas.limit Gas.remaining Gas.refunded].
      replace (rem0 <=? gl) with true by lia.
      change (if E.enabled spec E.LONDON then 5 else 2) with q. fold S. fold cap.
      rewrite SP.to_i64_small by lia. reflexivity.
    - unfold St.floor_step, Gas.spent_sub_refunded, Gas.spent, Gas.set_refund, Gas.set_spent.
      cbn [Gas.limit Gas.remaining Gas.refunded]. fold S.
      rewrite (SP.i64_as_u64_id cap) by (unfold in_u64, pow63, pow64 in *; lia).
      rewrite (SP.sat64_id (S - cap)) by (unfold in_u64, pow64 in *; unfold S in *; lia).
      fold hit. destruct hit eqn:HIT.
      + cbn [Gas.limit Gas.remaining Gas.refunded].
        rewrite (SP.sat64_id (gl - floor)) by (unfold in_u64, pow64 in *; lia).
        unfold St.output_gas, St.refunded_u64, Gas.spent. cbn [Gas.limit Gas.remaining Gas.refunded].
        change (i64_as_u64 0) with 0.
        rewrite SP.checked64_id by (unfold in_u64, pow64 in *; lia). repeat f_equal; try lia.
      + unfold St.output_gas, St.refunded_u64, Gas.spent. cbn [Gas.limit Gas.remaining Gas.refunded].
        rewrite (SP.i64_as_u64_id cap) by (unfold in_u64, pow63, pow64 in *; lia).
        rewrite SP.checked64_id by (unfold in_u64, pow64 in *; unfold S in *; lia). repeat f_equal; try (unfold S; lia).
  Qed.

  (* the chain last_frame_return, refund, floor step, output of run_tx *)
  Lemma gas_chain g1 g2 ur :
    St.last_frame_return e f = Some g1 -> St.refund spec g1 auth = Some g2 ->
    St.output_gas (St.floor_step g2 floor) = Some ur ->
    ur = (uused, urefd) /\ in_i64 (SP.counter f auth).
  Proof.
    unfold St.last_frame_return, Gas.gas_new_spent, Gas.erase_cost. cbn [Gas.limit Gas.remaining Gas.refunded].
    rewrite SP.checked64_id by (unfold in_u64, pow64 in *; lia). rewrite Z.add_0_l.
    unfold St.refund.
    intros E1 E2 E3.
    assert (MAIN : forall rem0 c, 0 <= rem0 <= gl -> gl - rem0 = SP.spent0 e f -> c = SP.counter f auth ->
       g1 = Gas.mkGas gl rem0 (c - auth) -> ur = (uused, urefd) /\ in_i64 c).
    { intros rem0 c R0 ES EC EG. subst g1. unfold Gas.record_refund in E2. cbn [Gas.limit Gas.remaining Gas.refunded] in E2.
      replace (c - auth + auth) with c in E2 by lia.
      destruct (is_i64 c) eqn:C64; [|discriminate]. apply is_i64_spec in C64.
      destruct (settle_meter_closed rem0 c R0 C64) as [F1 F2]. cbv zeta in F1, F2.
      rewrite F1 in E2. injection E2 as <-. rewrite F2 in E3. injection E3 as <-.
      split; [|exact C64]. unfold uused, urefd, ufloor_hit, ucapped, ucounter. rewrite <- ES, <- EC. reflexivity. }
    unfold SP.spent0, SP.counter in *.
    destruct (St.f_class f) eqn:CL.
    - unfold Gas.record_refund in E1. cbn [Gas.limit Gas.remaining Gas.refunded] in E1.
      destruct (is_i64 _); [|discriminate]. injection E1 as <-.
      destruct (MAIN (St.f_remaining f) (St.f_refunded f + auth)) as [M1 M2]; try lia; try reflexivity.
      { f_equal. lia. }
      split; [exact M1|exact M2].
    - injection E1 as <-.
      destruct (MAIN (St.f_remaining f) auth) as [M1 M2]; try lia; try reflexivity.
      { f_equal. lia. }
      split; [exact M1|exact M2].
    - injection E1 as <-.
      destruct (MAIN 0 auth) as [M1 M2]; try lia; try reflexivity.
      { f_equal. lia. }
      split; [exact M1|exact M2].
  Qed.

  (* the property's gas clauses on the closed form: no hypothesis on the frame's refund counter *)
  Lemma ubounds :
    initial <= SP.spent0 e f <= gl /\ 0 <= ucounter /\ 0 <= ucapped <= SP.spent0 e f / q /\
    ucapped <= SP.spent0 e f.
  Proof.
    assert (Q : q = 5 \/ q = 2) by apply SP.q_cases.
    assert (CU : 0 <= ucounter < pow64) by (unfold ucounter, i64_as_u64; apply Z.mod_pos_bound; reflexivity).
    unfold ucapped, SP.spent0. destruct (St.f_class f); destruct Q as [-> | ->]; lia.
  Qed.

  Lemma uclauses :
    let spent := SP.spent0 e f in
    initial <= spent <= gl /\ 0 <= uused <= gl /\ floor <= uused /\ 0 <= urefd <= spent / q /\
    spent - spent / q <= uused /\ initial - initial / q <= uused /\
    (uused = spent - urefd \/ (uused = floor /\ urefd = 0 /\ spent - spent / q <= floor)).
  Proof.
    intros spent. pose proof ubounds as (B1 & B2 & B3 & B4). fold spent in B1, B3, B4.
    assert (Q : q = 5 \/ q = 2) by apply SP.q_cases.
    unfold uused, urefd, ufloor_hit. fold spent.
    destruct (spent - ucapped <? floor) eqn:FH; destruct Q as [Q | Q]; rewrite Q in *; lia.
  Qed.

  Lemma ufailure : St.f_class f <> St.FOk -> in_i64 auth ->
    urefd <= auth /\ (auth = 0 -> urefd = 0) /\ (urefd = Z.min auth (SP.spent0 e f / q) \/ urefd = 0).
  Proof.
    intros NF A64. pose proof ubounds as (B1 & B2 & B3 & B4).
    assert (C : ucounter = auth).
    { unfold ucounter, SP.counter. destruct (St.f_class f); try congruence;
        apply SP.i64_as_u64_id; unfold in_u64, in_i64, pow63, pow64 in *; lia. }
    unfold urefd, ucapped in *. rewrite C in *. destruct ufloor_hit; lia.
  Qed.

  Lemma uhalt : St.f_class f = St.FHalt -> in_i64 auth ->
    uused = Z.max floor (gl - Z.min auth (gl / q)) /\ (auth = 0 -> uused = gl /\ urefd = 0).
  Proof.
    intros HF A64.
    assert (C : ucounter = auth).
    { unfold ucounter, SP.counter. rewrite HF. apply SP.i64_as_u64_id; unfold in_u64, in_i64, pow63, pow64 in *; lia. }
    assert (Q : q = 5 \/ q = 2) by apply SP.q_cases.
    unfold uused, urefd, ufloor_hit, ucapped, SP.spent0. rewrite C, HF.
    destruct (_ <? floor) eqn:FH; destruct Q as [Q | Q]; rewrite Q in *; lia.
  Qed.

  (* with a non-negative counter this is C09's closed form *)
  Lemma u_is_c09 : 0 <= SP.counter f auth -> in_i64 (SP.counter f auth) ->
    uused = SP.used spec e floor f auth /\ urefd = SP.refd spec e floor f auth.
  Proof.
    intros P C64.
    assert (C : ucounter = SP.counter f auth).
    { unfold ucounter. apply SP.i64_as_u64_id. unfold in_u64, in_i64, pow63, pow64 in *; lia. }
    unfold uused, urefd, ufloor_hit, ucapped, SP.used, SP.refd, SP.floor_hit, SP.capped. rewrite C. auto.
  Qed.
End TxGas.

(* ---- the transaction *)
(* what validate_initial_tx_gas establishes about the gas limit (C02; C09_validation_establishes_bounds) *)
Definition tx_gas_ok (W : world) : Prop :=
  in_u64 (tx_limit W) /\ 0 <= tx_initial W <= tx_limit W /\ 0 <= tx_floor W <= tx_limit W.

(* the one fact about the execution that is NOT derived here: the refund counter of the first
   frame is not negative when that frame ends ok.  (For an inner frame it can be negative.) *)
Definition top_refund_nonneg (f : nat) (W : world) : Prop :=
  forall G3 r cr, first_frame f W = XDone (G3, r, cr) -> is_ok (ir_res r) = true ->
    0 <= Gas.refunded (ir_gas r).

Lemma frame_class_ok r : frame_class r = St.FOk <-> is_ok r = true.
Proof. unfold frame_class. destruct (is_ok r); [tauto|]. destruct (is_revert r); split; discriminate. Qed.

(* ExecutionResult class (SuccessOrHalt) against the class last_frame_return uses *)
Lemma class_of_reason r :
  (result_class r = 0 -> frame_class r = St.FOk) /\
  (result_class r = 1 -> frame_class r = St.FRevert) /\
  (result_class r = 2 -> r <> 0 -> r <> 4 -> r <> R_CallTooDeep -> r <> R_OutOfFunds -> r <> 21 ->
   frame_class r = St.FHalt).
Proof.
  unfold result_class, frame_class, is_ok, is_revert, R_Revert, R_CallTooDeep, R_OutOfFunds.
  destruct ((1 <=? r) && (r <=? 3)) eqn:A.
  - split; [intros _; replace ((0 <=? r) && (r <=? 4)) with true by lia; reflexivity|]. split; discriminate.
  - destruct ((r =? 16) || (r =? 19) || (r =? 20)) eqn:B.
    + split; [discriminate|]. split; [|discriminate]. intros _.
      replace ((0 <=? r) && (r <=? 4)) with false by lia. replace ((16 <=? r) && (r <=? 21)) with true by lia. reflexivity.
    + split; [discriminate|]. split; [discriminate|]. intros _ N0 N4 N17 N18 N21.
      replace ((0 <=? r) && (r <=? 4)) with false by lia. replace ((16 <=? r) && (r <=? 21)) with false by lia. reflexivity.
Qed.

(* everything about the first frame's result that the settlement needs *)
Theorem run_tx_frame f W tr :
  run_tx f W = XDone tr -> tx_gas_ok W ->
  exists G3 r cr,
    first_frame f W = XDone (G3, r, cr) /\
    tr_reason tr = ir_res r /\ tr_class tr = result_class (ir_res r) /\
    Gas.gas_inv (ir_gas r) /\ Gas.limit (ir_gas r) = tx_limit W - tx_initial W /\
    0 <= Gas.remaining (ir_gas r) <= tx_limit W - tx_initial W /\
    in_i64 (SP.counter (frame_of r) (tx_auth_refund W)) /\
    tr_gas_used tr = uused (w_spec W) (w_env W) (tx_floor W) (frame_of r) (tx_auth_refund W) /\
    tr_gas_refunded tr = urefd (w_spec W) (w_env W) (tx_floor W) (frame_of r) (tx_auth_refund W).
Proof.
  intros E (Hgl & Hini & Hflo).
  destruct (run_tx_inv f W tr E) as (G3 & r & cr & EF & ER & EC & EG).
  exists G3, r, cr. split; [exact EF|]. split; [exact ER|]. split; [exact EC|].
  pose proof (first_frame_gas f W G3 r cr EF) as HG.
  assert (U : in_u64 (tx_limit W - tx_initial W)) by (unfold in_u64 in *; lia).
  destruct (gas_le_inv _ _ HG (gas_new_inv_iff _ U)) as (Inv & L & Rm).
  cbn [Gas.gas_new Gas.limit Gas.remaining] in L, Rm.
  split; [exact Inv|]. split; [exact L|].
  assert (RB : 0 <= Gas.remaining (ir_gas r) <= tx_limit W - tx_initial W).
  { destruct Inv as (_ & IR & _). lia. }
  split; [exact RB|].
  unfold gas_part in EG.
  destruct (St.last_frame_return _ _) as [g1|] eqn:E1; [|discriminate].
  destruct (St.refund _ _ _) as [g2|] eqn:E2; [|discriminate].
  destruct (gas_chain (w_spec W) (w_env W) (tx_initial W) (tx_floor W) (frame_of r) (tx_auth_refund W)
              Hgl Hini Hflo RB g1 g2 _ E1 E2 EG) as [EQ C64].
  injection EQ as -> ->. auto.
Qed.

Section TxClauses.
  Variables (f : nat) (W : world) (tr : tx_result).
  Hypothesis Hrun : run_tx f W = XDone tr.
  Hypothesis Hok : tx_gas_ok W.
  Notation gl := (tx_limit W).
  Notation q := (SP.refund_quotient (w_spec W)).

  (* intrinsic <= spent <= limit, gas_used <= limit, floor <= gas_used, 0 <= refund <= spent / q,
     gas_used >= spent - spent / q >= intrinsic - intrinsic / q, gas_used = spent - refund unless the
     EIP-7623 floor applies; a frame that halts has spent the whole limit *)
  Theorem run_tx_gas_bounds :
    exists spent,
      tx_initial W <= spent <= gl /\
      (frame_class (tr_reason tr) = St.FHalt -> spent = gl) /\
      0 <= tr_gas_used tr <= gl /\ tx_floor W <= tr_gas_used tr /\
      0 <= tr_gas_refunded tr <= spent / q /\
      spent - spent / q <= tr_gas_used tr /\
      tx_initial W - tx_initial W / q <= tr_gas_used tr /\
      (tr_gas_used tr = spent - tr_gas_refunded tr \/
       (tr_gas_used tr = tx_floor W /\ tr_gas_refunded tr = 0 /\ spent - spent / q <= tx_floor W)).
  Proof.
    destruct (run_tx_frame f W tr Hrun Hok) as (G3 & r & cr & EF & ER & EC & Inv & L & RB & C64 & EU & ERf).
    destruct Hok as (Hgl & Hini & Hflo).
    exists (SP.spent0 (w_env W) (frame_of r)).
    pose proof (uclauses (w_spec W) (w_env W) (tx_initial W) (tx_floor W) (frame_of r) (tx_auth_refund W)
                  Hini Hflo RB) as HC. cbv zeta in HC.
    rewrite <- EU, <- ERf in HC. destruct HC as (C1 & C2 & C3 & C4 & C5 & C6 & C7).
    split; [exact C1|]. split; [|tauto].
    rewrite ER. unfold SP.spent0, frame_of. cbn [St.f_class]. intros ->. reflexivity.
  Qed.

  (* on revert or halt the frame's refund is dropped: at most the EIP-7702 refund remains *)
  Theorem run_tx_refund_on_failure :
    frame_class (tr_reason tr) <> St.FOk ->
    tr_gas_refunded tr <= tx_auth_refund W /\ (tx_auth_refund W = 0 -> tr_gas_refunded tr = 0).
  Proof.
    intros NF.
    destruct (run_tx_frame f W tr Hrun Hok) as (G3 & r & cr & EF & ER & EC & Inv & L & RB & C64 & EU & ERf).
    destruct Hok as (Hgl & Hini & Hflo). rewrite ER in NF.
    assert (A64 : in_i64 (tx_auth_refund W)).
    { unfold SP.counter, frame_of in C64. cbn [St.f_class] in C64. destruct (frame_class (ir_res r)); congruence. }
    destruct (ufailure (w_spec W) (w_env W) (tx_initial W) (tx_floor W) (frame_of r) (tx_auth_refund W)
                Hini RB (tx_auth_refund_nonneg W) NF A64) as (F1 & F2 & _).
    rewrite ERf. auto.
  Qed.

  (* a halted transaction uses its whole gas limit, apart from the EIP-7702 refund *)
  Theorem run_tx_halt :
    frame_class (tr_reason tr) = St.FHalt ->
    tr_gas_used tr = Z.max (tx_floor W) (gl - Z.min (tx_auth_refund W) (gl / q)) /\
    (tx_auth_refund W = 0 -> tr_gas_used tr = gl /\ tr_gas_refunded tr = 0).
  Proof.
    intros HF.
    destruct (run_tx_frame f W tr Hrun Hok) as (G3 & r & cr & EF & ER & EC & Inv & L & RB & C64 & EU & ERf).
    destruct Hok as (Hgl & Hini & Hflo). rewrite ER in HF.
    assert (A64 : in_i64 (tx_auth_refund W)).
    { unfold SP.counter, frame_of in C64. cbn [St.f_class] in C64. rewrite HF in C64. exact C64. }
    destruct (uhalt (w_spec W) (w_env W) (tx_initial W) (tx_floor W) (frame_of r) (tx_auth_refund W)
                Hini Hflo RB (tx_auth_refund_nonneg W) HF A64) as (F1 & F2).
    rewrite EU, ERf. auto.
  Qed.
End TxClauses.

(* ---- the link to C09's [validated]: a record that holds for the trivial frame (i.e. the gas
   limit / price / balance fields, which do not speak about the execution) holds for the frame
   result that run_tx hands to the settlement, and the reported numbers are C09's closed form *)
Theorem run_tx_validated f W tr b0 d c0 :
  run_tx f W = XDone tr -> top_refund_nonneg f W ->
  SP.validated (w_spec W) (w_env W) (tx_initial W) (tx_floor W) (St.mkFrame St.FHalt 0 0) 0 b0 d c0 ->
  exists G3 r cr,
    first_frame f W = XDone (G3, r, cr) /\ tr_reason tr = ir_res r /\
    let fr := frame_of_norm r in let auth := tx_auth_refund W in
    SP.validated (w_spec W) (w_env W) (tx_initial W) (tx_floor W) fr auth b0 d c0 /\
    St.f_class fr = frame_class (tr_reason tr) /\
    tr_gas_used tr = SP.used (w_spec W) (w_env W) (tx_floor W) fr auth /\
    tr_gas_refunded tr = SP.refd (w_spec W) (w_env W) (tx_floor W) fr auth.
Proof.
  intros E TR V.
  assert (OK : tx_gas_ok W).
  { destruct V. unfold tx_gas_ok, tx_limit. auto. }
  destruct (run_tx_frame f W tr E OK) as (G3 & r & cr & EF & ER & EC & Inv & L & RB & C64 & EU & ERf).
  exists G3, r, cr. split; [exact EF|]. split; [exact ER|]. cbv zeta.
  pose proof (tx_auth_refund_nonneg W) as A0.
  assert (FR : 0 <= St.f_refunded (frame_of_norm r) /\
               SP.counter (frame_of_norm r) (tx_auth_refund W) = SP.counter (frame_of r) (tx_auth_refund W) /\
               (St.f_refunded (frame_of_norm r) + tx_auth_refund W = SP.counter (frame_of r) (tx_auth_refund W))).
  { unfold frame_of_norm, frame_of, SP.counter. cbn [St.f_class St.f_refunded].
    destruct (frame_class (ir_res r)) eqn:CL; try lia.
    apply frame_class_ok in CL. specialize (TR G3 r cr EF CL). lia. }
  destruct FR as (F0 & FC & FS).
  destruct OK as (Hgl & Hini & Hflo).
  assert (P : 0 <= SP.counter (frame_of r) (tx_auth_refund W)) by lia.
  destruct (u_is_c09 (w_spec W) (w_env W) (tx_floor W) (frame_of r) (tx_auth_refund W) P C64) as [U1 U2].
  split; [|split; [rewrite ER; reflexivity|]].
  - destruct V as [Vgl Vini Vflo Vrem Vfref Vauth Vcnt Vprice Vcap Vbf Vlon Vblob Vbal Vdel Vcb].
    refine (SP.mkValidated _ _ _ _ _ _ _ _ _ Vgl Vini Vflo _ F0 A0 _ Vprice Vcap Vbf Vlon Vblob Vbal Vdel Vcb).
    + exact RB.
    + rewrite FS. unfold in_i64 in C64. lia.
  - rewrite EU, ERf, U1, U2.
    unfold SP.used, SP.refd, SP.floor_hit, SP.capped. rewrite FC.
    replace (SP.spent0 (w_env W) (frame_of_norm r)) with (SP.spent0 (w_env W) (frame_of r)) by reflexivity.
    auto.
Qed.

(* the refund counter of a frame that is not the first one can be negative: [top_refund_nonneg]
   is a fact about whole transactions (the clearing that a negative entry takes back happened
   earlier in the same transaction), not about frames *)
Definition neg_codeA : list Z := [0x60;0;0x60;0;0x55;0x00].     (* sstore(0, 0); stop *)
Definition neg_codeB : list Z := [0x60;1;0x60;0;0x55;0x00].     (* sstore(0, 1); stop *)
Definition neg_world : world :=
  mkW 17 (E.mkEnv (E.mainnet_cfg 1) (E.mkBlock (2^256-1) 0 true (Some 1))
                  (E.mkTx 200000 1 false 0 [] (Some 7) None [] None [] None None))
      0xCA11E4 (Some 0x1000) 0 [] [] [] [] 0xC01BBA5E 100 1700000000 0 0x1234
      [(0x1000, (0, 1, 77)); (0x2000, (0, 1, 78)); (0xCA11E4, (10^30, 7, 0))] [(0x1000, 0, 1)]
      [(77, neg_codeA); (78, neg_codeB)] [].
(* 0x1000 clears its slot 0 (original value 1): refund +4800 *)
Definition neg_call1 : callreq := mkCall SchCall 100000 0x1000 0xCA11E4 0x1000 0 true false [] 0 0.
(* then the code of 0x2000 runs on the storage of 0x1000 (DELEGATECALL) and sets the slot back to 1 *)
Definition neg_call2 : callreq := mkCall SchDelegateCall 50000 0x1000 0xCA11E4 0x2000 0 false false [] 0 0.
Definition neg_state : gstate :=
  match tx_before_frame neg_world with
  | Some (G2, _) =>
      match do_call neg_world (exec 50 neg_world) G2 neg_call1 with
      | XDone (G3, _) => G3
      | _ => G2
      end
  | None => gstate_new neg_world
  end.

Lemma neg_probe :
  match do_call neg_world (exec 50 neg_world) neg_state neg_call2 with
  | XDone (_, r) => is_ok (ir_res r) = true /\ Gas.refunded (ir_gas r) = -2000
  | _ => False
  end.
Proof. vm_compute. split; reflexivity. Qed.

Lemma frame_refund_nonneg_refuted :
  exists f W G c G' r,
    do_call W (exec f W) G c = XDone (G', r) /\ is_ok (ir_res r) = true /\ Gas.refunded (ir_gas r) < 0.
Proof.
  pose proof neg_probe as HP.
  destruct (do_call neg_world (exec 50 neg_world) neg_state neg_call2) as [[G' r]| |k] eqn:E; try contradiction.
  exists 50%nat, neg_world, neg_state, neg_call2, G', r. destruct HP as [A B]. split; [exact E|]. split; [exact A|lia].
Qed.

(* ---- where [tx_gas_ok] comes from: the validation pipeline of C02 *)
Lemma floor_zero_before_prague spec e :
  E.enabled spec E.PRAGUE = false -> snd (E.initial_and_floor spec e) = 0.
Proof. unfold E.initial_and_floor, E.calculate_initial_tx_gas. intros ->. reflexivity. Qed.

Theorem tx_gas_ok_of_validation W c b t s :
  EnvelopeProofs.wf_cfg c -> EnvelopeProofs.wf_block b -> EnvelopeProofs.wf_tx t ->
  EnvelopeProofs.wf_sender s -> EnvelopeProofs.in_domain (w_spec W) t ->
  w_env W = E.mkEnv c b (TypedTx.to_tx_env t) ->
  E.preverify (w_spec W) (w_env W) s = E.VOk -> tx_gas_ok W.
Proof.
  intros WC WB WT WS DOM EE PV. rewrite EE in PV.
  pose proof (BridgeProofs.validation_establishes_bounds (w_spec W) c b t s WC WB WT WS DOM PV) as HB.
  cbv zeta in HB. destruct HB as (B1 & B2 & B3 & _).
  unfold tx_gas_ok, tx_limit, tx_initial, tx_floor. rewrite EE.
  split; [exact B1|]. split; [exact B2|].
  destruct (E.enabled (w_spec W) E.PRAGUE) eqn:EP; [apply B3; reflexivity|].
  rewrite (floor_zero_before_prague _ _ EP). lia.
Qed.

(* ---- presentation forms *)
Theorem run_tx_frame_bounds f W tr :
  run_tx f W = XDone tr -> tx_gas_ok W ->
  exists G3 r cr,
    first_frame f W = XDone (G3, r, cr) /\ tr_reason tr = ir_res r /\
    Gas.gas_inv (ir_gas r) /\ Gas.limit (ir_gas r) = tx_limit W - tx_initial W /\
    0 <= Gas.remaining (ir_gas r) <= tx_limit W - tx_initial W /\
    (frame_class (ir_res r) = St.FOk -> in_i64 (Gas.refunded (ir_gas r) + tx_auth_refund W)) /\
    0 <= tx_auth_refund W.
Proof.
  intros E OK.
  destruct (run_tx_frame f W tr E OK) as (G3 & r & cr & EF & ER & EC & Inv & L & RB & C64 & _).
  exists G3, r, cr. repeat (split; [assumption|]). split; [|apply tx_auth_refund_nonneg].
  intros CL. unfold SP.counter, frame_of in C64. cbn [St.f_class St.f_refunded] in C64. rewrite CL in C64. exact C64.
Qed.

Theorem run_tx_class f W tr :
  run_tx f W = XDone tr ->
  (tr_class tr = 0 -> frame_class (tr_reason tr) = St.FOk) /\
  (tr_class tr = 1 -> frame_class (tr_reason tr) = St.FRevert) /\
  (tr_class tr = 2 -> tr_reason tr <> 0 -> tr_reason tr <> 4 -> tr_reason tr <> R_CallTooDeep ->
   tr_reason tr <> R_OutOfFunds -> tr_reason tr <> 21 -> frame_class (tr_reason tr) = St.FHalt).
Proof.
  intros E. destruct (run_tx_inv f W tr E) as (G3 & r & cr & _ & ER & EC & _).
  rewrite EC, ER. apply class_of_reason.
Qed.

(* [top_refund_nonneg] for a concrete world: run the first frame *)
Lemma top_refund_nonneg_by_run f W :
  match first_frame f W with
  | XDone (_, r, _) => (0 <=? Gas.refunded (ir_gas r)) = true
  | _ => True
  end -> top_refund_nonneg f W.
Proof.
  intros HH G3 r cr EF _. rewrite EF in HH. apply Z.leb_le in HH. exact HH.
Qed.
