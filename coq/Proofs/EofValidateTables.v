(* Soundness of the EOF validator model (Model/EofValidate.v): list accessors and the effect of
   the two passes over the per-byte table (mark_immediates, process_jumps). *)
From RevmV Require Import Model.Eof Model.EofValidate Proofs.EofProofs Proofs.EofValidateProofs.
From Coq Require Import ZArith List Lia Bool.
Import ListNotations.
Local Open Scope Z_scope.

(* ------------------------------------------------------------------------------------------ *)
(* list accessors                                                                              *)
(* ------------------------------------------------------------------------------------------ *)
Lemma upd_nat_length {A} (l : list A) n x : length (upd_nat l n x) = length l.
Proof. revert n; induction l as [|y r IH]; intros [|n]; cbn [upd_nat length]; auto. Qed.
Lemma upd_nat_same {A} (l : list A) n x : (n < length l)%nat -> nth_error (upd_nat l n x) n = Some x.
Proof.
  revert n; induction l as [|y r IH]; intros [|n] H; cbn [upd_nat length nth_error] in *; try lia; auto.
  apply IH; lia.
Qed.
Lemma upd_nat_other {A} (l : list A) n m x : n <> m -> nth_error (upd_nat l n x) m = nth_error l m.
Proof.
  revert n m; induction l as [|y r IH]; intros [|n] [|m] H; cbn [upd_nat nth_error]; auto; try congruence.
Qed.

Lemma upd_z_length {A} (l : list A) i x : length (upd_z l i x) = length l.
Proof. apply upd_nat_length. Qed.
Lemma nth_z_upd_same {A} (l : list A) i x : 0 <= i < len l -> nth_z (upd_z l i x) i = Some x.
Proof.
  intros H. unfold nth_z, upd_z. destruct (Z.leb_spec 0 i); [|lia]. apply upd_nat_same. unfold len in H. lia.
Qed.
Lemma nth_z_upd_other {A} (l : list A) i j x : 0 <= i -> j <> i -> nth_z (upd_z l i x) j = nth_z l j.
Proof.
  intros Hi H. unfold nth_z, upd_z. destruct (Z.leb_spec 0 j); [|reflexivity]. apply upd_nat_other. lia.
Qed.
Lemma nth_z_defined {A} (l : list A) j : 0 <= j < len l -> exists x, nth_z l j = Some x.
Proof.
  intros H. unfold nth_z. destruct (Z.leb_spec 0 j); [|lia].
  destruct (nth_error l (Z.to_nat j)) eqn:E; [eauto|]. apply nth_error_None in E. unfold len in H. lia.
Qed.
Lemma nth_z_In {A} (l : list A) j x : nth_z l j = Some x -> In x l.
Proof. unfold nth_z. destruct (0 <=? j); [|discriminate]. apply nth_error_In. Qed.
Lemma In_nth_z {A} (l : list A) x : In x l -> exists j, nth_z l j = Some x.
Proof.
  intros H. apply In_nth_error in H. destruct H as (n & H). exists (Z.of_nat n).
  unfold nth_z. destruct (Z.leb_spec 0 (Z.of_nat n)); [|lia]. rewrite Nat2Z.id. exact H.
Qed.
Lemma get_lt code i x : get code i = Some x -> 0 <= i < len code.
Proof.
  unfold get. destruct (Z.leb_spec 0 i); destruct (Z.ltb_spec i (len code)); cbn [andb]; try discriminate. lia.
Qed.
Lemma get_byte code i x : bytes_ok code -> get code i = Some x -> 0 <= x < 256.
Proof. intros Hb H. apply get_in in H. unfold bytes_ok in Hb. rewrite Forall_forall in Hb. apply Hb. exact H. Qed.

(* ------------------------------------------------------------------------------------------ *)
(* the per-byte table: what each pass of the validator does to the flags                       *)
(* ------------------------------------------------------------------------------------------ *)
(* [jrel R J J']: same length, and R relates the entries at every position *)
Definition jrel (R : Z -> Info -> Info -> Prop) (J J' : list Info) : Prop :=
  length J' = length J /\
  forall j a a', nth_z J j = Some a -> nth_z J' j = Some a' -> R j a a'.

Lemma jrel_some_fwd R J J' j a : jrel R J J' -> nth_z J j = Some a -> exists a', nth_z J' j = Some a' /\ R j a a'.
Proof.
  intros (L & H) E. pose proof (nth_z_lt _ _ _ E) as B.
  destruct (nth_z_defined J' j) as (a' & E'); [unfold len in *; lia|]. eauto.
Qed.
Lemma jrel_some_bwd R J J' j a' : jrel R J J' -> nth_z J' j = Some a' -> exists a, nth_z J j = Some a /\ R j a a'.
Proof.
  intros (L & H) E. pose proof (nth_z_lt _ _ _ E) as B.
  destruct (nth_z_defined J j) as (a & E'); [unfold len in *; lia|]. eauto.
Qed.

Definition mark_R (from cnt : Z) (j : Z) (a a' : Info) : Prop :=
  smallest a' = smallest a /\ biggest a' = biggest a /\ is_jumpdest a' = is_jumpdest a /\
  (from <= j < from + cnt -> is_immediate a' = true /\ is_jumpdest a = false) /\
  (~ (from <= j < from + cnt) -> a' = a).

Lemma mark_immediates_spec : forall cnt J from J',
  0 <= from -> mark_immediates J from cnt = VOk J' ->
  jrel (mark_R from (Z.of_nat cnt)) J J' /\
  (forall j, from <= j < from + Z.of_nat cnt -> exists a, nth_z J j = Some a).
Proof.
  induction cnt as [|c IH]; intros J from J' Hf H; cbn [mark_immediates] in H.
  - inversion H. subst J'. split; [split; [reflexivity|]|intros j Hj; lia].
    intros j a a' E E'. rewrite E in E'. inversion E'. subst a'.
    unfold mark_R. repeat split; auto; lia.
  - destruct (nth_z J from) as [inf|] eqn:Ei; cbn [vidx vbind] in H; [|discriminate].
    destruct (is_jumpdest inf) eqn:Ejd; [discriminate|].
    apply IH in H; [|lia]. destruct H as ((L & H) & D).
    pose proof (nth_z_lt _ _ _ Ei) as Bi.
    split; [split|].
    + rewrite L. apply upd_z_length.
    + intros j a a' E E'.
      destruct (Z.eq_dec j from) as [->|Hne].
      * specialize (H from _ a' (nth_z_upd_same J from _ Bi) E').
        rewrite Ei in E. inversion E. subst a.
        destruct H as (H1 & H2 & H3 & H4 & H5). unfold mark_R.
        rewrite (H5 ltac:(lia)). cbn [smallest biggest is_jumpdest is_immediate].
        repeat split; auto; lia.
      * specialize (H j a a'). rewrite nth_z_upd_other in H by lia. specialize (H E E').
        destruct H as (H1 & H2 & H3 & H4 & H5). unfold mark_R. repeat split; auto.
        -- apply H4; lia.
        -- apply H4; lia.
        -- intros N. apply H5. lia.
    + intros j Hj. destruct (Z.eq_dec j from) as [->|Hne]; [eauto|].
      destruct (D j ltac:(lia)) as (a & E). rewrite nth_z_upd_other in E by lia. eauto.
Qed.

(* the effect of the [for absolute_jump in absolute_jumpdest] loop *)
Definition pj_R (i ns nb : Z) (targets : list Z) (j : Z) (a a' : Info) : Prop :=
  is_immediate a' = is_immediate a /\
  (is_jumpdest a = true -> is_jumpdest a' = true) /\
  (In j targets -> is_jumpdest a' = true /\ is_immediate a = false /\ smallest a' <= ns /\ nb <= biggest a') /\
  (is_jumpdest a' = true -> is_jumpdest a = true \/ In j targets) /\
  (j <= i -> smallest a' = smallest a /\ biggest a' = biggest a) /\
  (~ In j targets -> a' = a) /\
  smallest a' <= smallest a /\ biggest a <= biggest a' /\
  Z.min (smallest a) ns <= smallest a' /\ biggest a' <= Z.max (biggest a) nb.

Lemma process_jumps_spec : forall targets J clen i ns nb J',
  process_jumps J clen i ns nb targets = VOk J' ->
  jrel (pj_R i ns nb targets) J J' /\ (forall t, In t targets -> 0 <= t < clen).
Proof.
  induction targets as [|t rest IH]; intros J clen i ns nb J' H; cbn [process_jumps] in H.
  - inversion H. subst J'. split; [split; [reflexivity|]|intros t Ht; inversion Ht].
    intros j a a' E E'. rewrite E in E'. inversion E'. subst a'. unfold pj_R.
    repeat split; auto; try lia; try (intros Hin; inversion Hin); try (match goal with X : In _ [] |- _ => inversion X end).
  - destruct (Z.ltb_spec t 0) as [|Ht0]; [discriminate|].
    destruct (Z.geb_spec t clen) as [|Htl]; [discriminate|].
    destruct (nth_z J t) as [tj|] eqn:Et; cbn [vidx vbind] in H; [|discriminate].
    destruct (is_immediate tj) eqn:Eim; [discriminate|].
    pose proof (nth_z_lt _ _ _ Et) as Bt.
    assert (G : forall tj', is_immediate tj' = false -> is_jumpdest tj' = true ->
              (t <= i -> smallest tj' = smallest tj /\ biggest tj' = biggest tj /\ smallest tj = ns /\ biggest tj = nb) ->
              (i < t -> smallest tj' = Z.min (smallest tj) ns /\ biggest tj' = Z.max (biggest tj) nb) ->
              process_jumps (upd_z J t tj') clen i ns nb rest = VOk J' ->
              jrel (pj_R i ns nb (t :: rest)) J J' /\ (forall t0, In t0 (t :: rest) -> 0 <= t0 < clen)).
    { intros tj' F1 F2 F3 F4 H'. apply IH in H'. destruct H' as ((L & H') & D). split; [split|].
      - rewrite L. apply upd_z_length.
      - intros j a a' E E'. destruct (Z.eq_dec j t) as [->|Hne].
        + specialize (H' t _ a' (nth_z_upd_same J t _ Bt) E'). rewrite Et in E. inversion E. subst a.
          destruct H' as (P1 & P2 & P3 & P4 & P5 & P6 & P7 & P8 & P9 & P10). unfold pj_R.
          assert (Q : smallest a' <= ns /\ nb <= biggest a') by (destruct (Z.le_gt_cases t i); lia).
          repeat split; intros;
            try (destruct (Z.le_gt_cases t i) as [C|C]; [pose proof (P5 C); pose proof (F3 C)|pose proof (F4 C)]);
            try lia; try congruence; auto; try (right; left; reflexivity);
            try (match goal with N : ~ In _ (_ :: _) |- _ => exfalso; apply N; left; reflexivity end).
        + specialize (H' j a a'). rewrite nth_z_upd_other in H' by lia. specialize (H' E E').
          destruct H' as (P1 & P2 & P3 & P4 & P5 & P6 & P7 & P8 & P9 & P10). unfold pj_R.
          repeat split; intros;
            try (match goal with X : In _ (_ :: _) |- _ => destruct X as [X|X]; [lia|destruct (P3 X) as (?&?&?&?)] end);
            auto; try lia;
            try (match goal with X : j <= i |- _ => destruct (P5 X); lia end).
          * match goal with X : is_jumpdest a' = true |- _ => destruct (P4 X); [left; assumption|right; right; assumption] end.
          * apply P6. intros I. match goal with N : ~ In _ (_ :: _) |- _ => apply N end. right. assumption.
      - intros t0 [<-|I]; [lia|]. apply D. assumption. }
    destruct (Z.leb_spec t i) as [Hle|Hgt].
    + destruct (Z.eqb_spec (biggest tj) nb) as [Eb|]; cbn [negb] in H; [|discriminate].
      destruct (Z.eqb_spec (smallest tj) ns) as [Es|]; cbn [negb] in H; [|discriminate].
      apply G in H; auto; cbn [is_immediate is_jumpdest smallest biggest]; auto; lia.
    + apply G in H; auto; cbn [is_immediate is_jumpdest smallest biggest]; auto; lia.
Qed.
