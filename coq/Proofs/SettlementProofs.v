(* Proofs for C09: closed form of the settlement (Model/Settlement.v) under the bounds that
   validation establishes, and the property's (in)equalities derived from it. *)
From RevmV Require Import Base.Word Model.Gas Model.Envelope Model.Settlement.
From Coq Require Import ZifyBool.
Local Open Scope Z_scope.
Ltac Zify.zify_post_hook ::= Z.div_mod_to_equations.

(* ------------------------------------------------------------------ machine-integer helpers *)
Lemma sat64_id x : in_u64 x -> sat64 x = x.
Proof. unfold in_u64, sat64, pow64. intros. destruct (x <? 0) eqn:A; [lia|].
  destruct (x <? 18446744073709551616) eqn:B; lia. Qed.
Lemma sat256_id x : in_u256 x -> sat256 x = x.
Proof. unfold in_u256, sat256. intros. destruct (x <? 0) eqn:A; [lia|].
  destruct (x <? pow256) eqn:B; lia. Qed.
Lemma sat256_top x : pow256 <= x -> sat256 x = pow256 - 1.
Proof. unfold sat256. intros H. destruct (x <? 0) eqn:A. { unfold pow256 in H. lia. }
  destruct (x <? pow256) eqn:B; unfold pow256 in *; lia. Qed.
Lemma checked64_id x : in_u64 x -> checked64 x = Some x.
Proof. intros H. unfold checked64. apply is_u64_spec in H. rewrite H. reflexivity. Qed.
Lemma i64_as_u64_id x : in_u64 x -> i64_as_u64 x = x.
Proof. unfold i64_as_u64, in_u64. intros. apply Z.mod_small. lia. Qed.
Lemma to_i64_small x : 0 <= x < pow63 -> to_i64 x = x.
Proof. intros. apply to_i64_id. unfold in_i64. unfold pow63 in *. lia. Qed.
Lemma is_i64_small x : 0 <= x < pow63 -> is_i64 x = true.
Proof. intros. apply is_i64_spec. unfold in_i64. unfold pow63 in *. lia. Qed.

(* ------------------------------------------------------------------ the validated situation *)
(* What validation (C02) and the frame-accounting contract (C13) guarantee when settlement runs.
   Prices: 0 <= basefee, the effective price lies between the base fee (LONDON) and the price
   cap; the sender holds at least gas_limit * cap + the blob fee; during execution the sender's
   balance moves by [d] (value transfers) without leaving [0, 2^256). *)
Record validated (spec : Z) (e : env) (initial floor : Z) (f : frame_result) (auth : Z)
       (b0 d c0 : Z) : Prop := mkValidated {
  v_gl : in_u64 (tx_gas_limit (e_tx e));
  v_initial : 0 <= initial <= tx_gas_limit (e_tx e);
  v_floor : 0 <= floor <= tx_gas_limit (e_tx e);
  v_rem : 0 <= f_remaining f <= tx_gas_limit (e_tx e) - initial;
  v_fref : 0 <= f_refunded f;
  v_auth : 0 <= auth;
  v_counter : f_refunded f + auth < pow63;
  v_price : 0 <= effective_gas_price e <= tx_gas_price (e_tx e);
  v_cap : in_u256 (tx_gas_price (e_tx e));
  v_basefee : 0 <= b_basefee (e_block e);
  v_london : enabled spec LONDON = true -> b_basefee (e_block e) <= effective_gas_price e;
  v_blob : enabled spec CANCUN = true -> exists fee, calc_data_fee e = Some fee /\ 0 <= fee;
  v_balance : tx_gas_limit (e_tx e) * tx_gas_price (e_tx e)
              + (if enabled spec CANCUN then match calc_data_fee e with Some fee => fee | None => 0 end else 0)
              <= b0 < pow256;
  v_delta : 0 <= b0 - (tx_gas_limit (e_tx e) * tx_gas_price (e_tx e)
                       + (if enabled spec CANCUN then match calc_data_fee e with Some fee => fee | None => 0 end else 0)) + d
            /\ b0 + d < pow256;
  v_coinbase : in_u256 c0
}.

(* the refund cap: gas spent / 5 from LONDON (EIP-3529), / 2 before *)
Definition refund_quotient (spec : Z) : Z := if enabled spec LONDON then 5 else 2.

Section Closed.
  Variables (spec : Z) (e : env) (initial floor : Z) (f : frame_result) (auth b0 d c0 : Z).
  Hypothesis V : validated spec e initial floor f auth b0 d c0.

  Let gl := tx_gas_limit (e_tx e).
  Let eff := effective_gas_price e.
  Notation q := (refund_quotient spec).
  (* gas spent before the refund *)
  Definition spent0 : Z := match f_class f with FHalt => gl | _ => gl - f_remaining f end.
  (* refund counter: the frame's refund counts on success only, the EIP-7702 refund always *)
  Definition counter : Z := match f_class f with FOk => f_refunded f + auth | _ => auth end.
  Definition capped : Z := Z.min counter (spent0 / q).
  Definition floor_hit : bool := spent0 - capped <? floor.
  Definition used : Z := if floor_hit then floor else spent0 - capped.
  Definition refd : Z := if floor_hit then 0 else capped.
  Definition blob_fee : Z :=
    if enabled spec CANCUN then match calc_data_fee e with Some fee => fee | None => 0 end else 0.
  Definition tip : Z := if enabled spec LONDON then eff - b_basefee (e_block e) else eff.

  Ltac dv := destruct V as [Vgl Vini Vflo Vrem Vfref Vauth Vcnt Vprice Vcap Vbf Vlon Vblob Vbal Vdel Vcb];
             fold gl in Vgl, Vini, Vflo, Vrem, Vbal, Vdel; fold eff in Vprice, Vlon.

  Lemma q_cases : q = 5 \/ q = 2.
  Proof. unfold refund_quotient. destruct (enabled spec LONDON); auto. Qed.

  Lemma basic_bounds :
    initial <= spent0 <= gl /\ 0 <= counter < pow63 /\ 0 <= capped <= spent0 / q /\ capped <= spent0 /\
    capped <= counter /\ 0 <= used <= gl /\ floor <= used /\ 0 <= refd <= capped /\
    spent0 - spent0 / q <= used /\ in_u64 gl.
  Proof.
    dv. unfold used, refd, floor_hit, capped, counter, spent0.
    pose proof q_cases as [Q|Q]; rewrite Q;
      destruct (f_class f);
      match goal with |- context [?a <? ?b] => destruct (a <? b) eqn:FH end;
      unfold in_u64, pow63 in *; lia.
  Qed.

  Lemma last_frame_return_closed :
    last_frame_return e f =
    Some (mkGas gl (match f_class f with FHalt => 0 | _ => f_remaining f end)
                (match f_class f with FOk => f_refunded f | _ => 0 end)).
  Proof.
    dv. unfold last_frame_return, gas_new_spent, erase_cost, record_refund. fold gl.
    cbn [remaining limit refunded].
    assert (in_u64 (0 + f_remaining f)) by (unfold in_u64 in *; lia).
    destruct (f_class f); try reflexivity; rewrite checked64_id by assumption; cbn [limit remaining refunded];
      try reflexivity.
    rewrite is_i64_small by lia. reflexivity.
  Qed.

  Lemma refund_closed :
    refund spec (mkGas gl (match f_class f with FHalt => 0 | _ => f_remaining f end)
                       (match f_class f with FOk => f_refunded f | _ => 0 end)) auth =
    Some (mkGas gl (gl - spent0) capped).
  Proof.
    pose proof basic_bounds as (B1 & B2 & B3 & B4 & B5 & _).
    dv.
    unfold refund, record_refund, set_final_refund_chk, set_final_refund. cbn [refunded limit remaining].
    assert (C : (match f_class f with FOk => f_refunded f | _ => 0 end) + auth = counter).
    { unfold counter. destruct (f_class f); lia. }
    rewrite C. rewrite is_i64_small by lia. cbn [limit remaining refunded].
    assert (R : (match f_class f with FHalt => 0 | _ => f_remaining f end) = gl - spent0).
    { unfold spent0. destruct (f_class f); lia. }
    rewrite R. replace (gl - spent0 <=? gl) with true by lia.
    unfold Gas.spent. cbn [limit remaining]. replace (gl - (gl - spent0)) with spent0 by lia.
    rewrite i64_as_u64_id by (unfold in_u64, pow63, pow64 in *; lia).
    change (if enabled spec LONDON then 5 else 2) with q. fold capped. rewrite to_i64_small by lia. reflexivity.
  Qed.

  Lemma floor_step_closed :
    floor_step (mkGas gl (gl - spent0) capped) floor = mkGas gl (gl - used - refd) refd.
  Proof.
    pose proof basic_bounds as (B1 & B2 & B3 & B4 & B5 & B6 & B7 & B8 & B9 & B10).
    dv.
    unfold floor_step, spent_sub_refunded, Gas.spent, set_refund, set_spent. cbn [limit remaining refunded].
    rewrite i64_as_u64_id by (unfold in_u64, pow63, pow64 in *; lia).
    replace (gl - (gl - spent0)) with spent0 by lia.
    rewrite sat64_id by (unfold in_u64 in *; lia).
    unfold used, refd. fold floor_hit. unfold floor_hit at 1.
    destruct (spent0 - capped <? floor) eqn:FH; unfold floor_hit; rewrite FH.
    - cbn [limit remaining refunded]. rewrite sat64_id by (unfold in_u64 in *; lia). f_equal; lia.
    - f_equal; lia.
  Qed.

  Lemma deduct_closed :
    deduct_caller_inner spec e b0 = Some (b0 - (gl * eff + blob_fee)) /\
    0 <= gl * eff <= gl * tx_gas_price (e_tx e) /\ 0 <= blob_fee /\ 0 <= b0 - (gl * eff + blob_fee).
  Proof.
    dv. unfold deduct_caller_inner, blob_fee. fold gl eff.
    assert (P : 0 <= gl * eff <= gl * tx_gas_price (e_tx e)).
    { unfold in_u64 in *. split; [apply Z.mul_nonneg_nonneg; lia | apply Z.mul_le_mono_nonneg_l; lia]. }
    destruct (enabled spec CANCUN) eqn:EC.
    - destruct (Vblob eq_refl) as (fee & HF & F0). rewrite HF in *.
      rewrite (sat256_id (gl * eff)) by (unfold in_u256 in *; lia).
      rewrite (sat256_id (gl * eff + fee)) by (unfold in_u256 in *; lia).
      rewrite sat256_id by (unfold in_u256 in *; lia). repeat split; try lia.
    - rewrite (sat256_id (gl * eff)) by (unfold in_u256 in *; lia).
      rewrite sat256_id by (unfold in_u256 in *; lia). rewrite Z.add_0_r. repeat split; try lia.
  Qed.

  (* the closed form of the whole settlement *)
  Theorem settle_closed :
    settle spec e floor f auth b0 d c0 =
    Some (mkSettle (mkGas gl (gl - used - refd) refd) used refd
                   (b0 + d - (eff * used + blob_fee))
                   (sat256 (c0 + wrap256 (tip * used)))).
  Proof.
    pose proof basic_bounds as (B1 & B2 & B3 & B4 & B5 & B6 & B7 & B8 & B9 & B10).
    pose proof deduct_closed as (DC & P1 & P2 & P3).
    unfold settle. rewrite DC, last_frame_return_closed, refund_closed, floor_step_closed.
    dv.
    unfold reimburse_caller, reward_beneficiary, output_gas, refunded_u64, Gas.spent.
    cbn [remaining refunded limit].
    rewrite (i64_as_u64_id refd) by (unfold in_u64, pow63, pow64 in *; lia).
    replace (gl - used - refd + refd) with (gl - used) by lia.
    replace (gl - (gl - used - refd) - refd) with used by lia.
    rewrite !checked64_id by (unfold in_u64 in *; lia).
    fold eff.
    assert (RE : 0 <= eff * (gl - used) <= gl * eff).
    { split; [apply Z.mul_nonneg_nonneg; lia|]. rewrite (Z.mul_comm gl eff). apply Z.mul_le_mono_nonneg_l; lia. }
    unfold wrap256 at 1. rewrite (Z.mod_small (eff * (gl - used))) by (unfold in_u256 in *; lia).
    rewrite sat256_id.
    2:{ destruct Vdel as [D1 D2]. fold gl in D1. unfold blob_fee in *.
        unfold in_u256. nia. }
    unfold coinbase_gas_price, tip. fold eff.
    destruct (enabled spec LONDON) eqn:EL.
    - rewrite (sat256_id (eff - b_basefee (e_block e))).
      2:{ specialize (Vlon eq_refl). unfold in_u256 in *. lia. }
      f_equal. f_equal. ring.
    - f_equal. f_equal. ring.
  Qed.
End Closed.

(* ------------------------------------------------------------------ the property's clauses *)
Section Clauses.
  Variables (spec : Z) (e : env) (initial floor : Z) (f : frame_result) (auth b0 d c0 : Z).
  Hypothesis V : validated spec e initial floor f auth b0 d c0.
  Notation gl := (tx_gas_limit (e_tx e)).
  Notation q := (refund_quotient spec).
  Notation spent := (spent0 e f).
  Notation USED := (used spec e floor f auth).
  Notation REFD := (refd spec e floor f auth).

  Lemma settle_defined : exists st, settle spec e floor f auth b0 d c0 = Some st /\
      st_gas_used st = USED /\ st_gas_refunded st = REFD /\
      st_caller st = b0 + d - (effective_gas_price e * USED + blob_fee spec e) /\
      st_coinbase st = sat256 (c0 + wrap256 (tip spec e * USED)).
  Proof. eexists. split; [apply (settle_closed _ _ _ _ _ _ _ _ _ V)|]. cbn. auto. Qed.

  (* intrinsic <= spent <= limit; used <= limit; floor <= used; refund <= spent / q;
     used >= spent - spent / q; used = spent - refund unless the floor applies *)
  Lemma gas_clauses :
    initial <= spent <= gl /\ USED <= gl /\ floor <= USED /\ 0 <= REFD <= spent / q /\
    spent - spent / q <= USED /\
    (USED = spent - REFD \/ (USED = floor /\ REFD = 0 /\ spent - spent / q <= floor)).
  Proof.
    pose proof (basic_bounds _ _ _ _ _ _ _ _ _ V) as (B1 & B2 & B3 & B4 & B5 & B6 & B7 & B8 & B9 & B10).
    repeat split; try lia.
    unfold used, refd in *. destruct (floor_hit spec e floor f auth) eqn:FH; [right|left; lia].
    unfold floor_hit in FH. repeat split; lia.
  Qed.

  (* on revert or halt only the EIP-7702 refund survives; none without it *)
  Lemma refund_on_failure :
    f_class f <> FOk -> REFD <= auth /\ (auth = 0 -> REFD = 0) /\
                        (REFD = Z.min auth (spent / q) \/ REFD = 0).
  Proof.
    intros NF. pose proof (basic_bounds _ _ _ _ _ _ _ _ _ V) as (B1 & B2 & B3 & B4 & B5 & B6 & B7 & B8 & B9 & B10).
    assert (C : counter f auth = auth) by (unfold counter; destruct (f_class f); congruence).
    unfold refd in *. unfold capped in *. rewrite C in *.
    destruct (floor_hit spec e floor f auth); lia.
  Qed.

  (* a halted transaction uses its whole gas limit (apart from an EIP-7702 refund) *)
  Lemma halt_uses_limit : f_class f = FHalt -> auth = 0 -> USED = gl /\ REFD = 0.
  Proof.
    intros H A. pose proof (basic_bounds _ _ _ _ _ _ _ _ _ V) as (B1 & B2 & B3 & B4 & B5 & B6 & B7 & B8 & B9 & B10).
    destruct V. unfold used, refd, floor_hit, capped, counter, spent0 in *. rewrite H in *. subst auth.
    pose proof (q_cases spec) as [Q|Q]; rewrite Q in *;
      match goal with |- context [?a <? ?b] => destruct (a <? b) eqn:FH end; lia.
  Qed.
  Lemma halt_general : f_class f = FHalt ->
    USED = Z.max floor (gl - Z.min auth (gl / q)).
  Proof.
    intros H. destruct V. unfold used, floor_hit, capped, counter, spent0 in *. rewrite H in *.
    match goal with |- context [?a <? ?b] => destruct (a <? b) eqn:FH end; lia.
  Qed.

  (* the sender pays exactly effective price * gas used + blob fee (value effects [d] aside) *)
  Lemma sender_pays :
    forall st, settle spec e floor f auth b0 d c0 = Some st ->
    st_caller st - b0 = d - (effective_gas_price e * st_gas_used st + blob_fee spec e) /\
    in_u256 (st_caller st).
  Proof.
    intros st H. rewrite (settle_closed _ _ _ _ _ _ _ _ _ V) in H. injection H as <-. cbn [st_caller st_gas_used].
    split; [lia|].
    pose proof (basic_bounds _ _ _ _ _ _ _ _ _ V) as (B1 & B2 & B3 & B4 & B5 & B6 & B7 & B8 & B9 & B10).
    pose proof (deduct_closed _ _ _ _ _ _ _ _ _ V) as (_ & P1 & P2 & P3).
    destruct V. destruct v_delta0 as [D1 D2]. fold (blob_fee spec e) in D1.
    assert (0 <= effective_gas_price e * USED <= tx_gas_limit (e_tx e) * effective_gas_price e).
    { split; [apply Z.mul_nonneg_nonneg; lia|]. rewrite Z.mul_comm. apply Z.mul_le_mono_nonneg_r; lia. }
    unfold in_u256. lia.
  Qed.

  (* the beneficiary receives exactly tip * gas used: (price - basefee) from LONDON, price before *)
  Lemma beneficiary_receives :
    forall st, settle spec e floor f auth b0 d c0 = Some st ->
    0 <= tip spec e * st_gas_used st < pow256 /\
    (c0 + tip spec e * st_gas_used st < pow256 -> st_coinbase st - c0 = tip spec e * st_gas_used st) /\
    (pow256 <= c0 + tip spec e * st_gas_used st -> st_coinbase st = pow256 - 1).
  Proof.
    intros st H. rewrite (settle_closed _ _ _ _ _ _ _ _ _ V) in H. injection H as <-. cbn [st_coinbase st_gas_used].
    pose proof (basic_bounds _ _ _ _ _ _ _ _ _ V) as (B1 & B2 & B3 & B4 & B5 & B6 & B7 & B8 & B9 & B10).
    destruct V.
    assert (T : 0 <= tip spec e <= tx_gas_price (e_tx e)).
    { unfold tip. destruct (enabled spec LONDON) eqn:EL; [specialize (v_london0 eq_refl)|]; lia. }
    assert (TU : 0 <= tip spec e * USED <= tx_gas_limit (e_tx e) * tx_gas_price (e_tx e)).
    { split; [apply Z.mul_nonneg_nonneg; lia|]. rewrite Z.mul_comm. apply Z.mul_le_mono_nonneg; lia. }
    assert (BF : 0 <= (if enabled spec CANCUN then match calc_data_fee e with Some fee => fee | None => 0 end else 0)).
    { destruct (enabled spec CANCUN) eqn:EC; [|lia]. destruct (v_blob0 eq_refl) as (fee & HF & F0). rewrite HF. exact F0. }
    assert (TB : tip spec e * USED < pow256) by lia.
    split; [lia|]. unfold wrap256. rewrite Z.mod_small by lia. split; intros HH.
    - rewrite sat256_id by (unfold in_u256 in *; lia). lia.
    - apply sat256_top. exact HH.
  Qed.
End Clauses.

(* ------------------------------------------------------------------ witnesses for the literal readings *)
Definition legacy_env (gl price basefee : Z) : env :=
  mkEnv (mainnet_cfg 1) (mkBlock 30000000 basefee true (Some 1))
        (mkTx gl price false 0 [] (Some 0) (Some 1) [] None [] None None).

(* "intrinsic gas <= gas used" read on the final gas_used (note 6.2): BERLIN, 26000 gas spent of
   which 5000 on an SSTORE clearing a slot (refund 15000, capped at 13000): gas_used 13000 < 21000 *)
Lemma literal_intrinsic_le_used_refuted :
  exists spec e initial floor f auth b0 d c0 st,
    validated spec e initial floor f auth b0 d c0 /\
    settle spec e floor f auth b0 d c0 = Some st /\ st_gas_used st < initial.
Proof.
  exists BERLIN, (legacy_env 30000 10 0), 21000, 0, (mkFrame FOk 4000 15000), 0, 1000000, 0, 0.
  eexists. split; [|split; [vm_compute; reflexivity|vm_compute; reflexivity]].
  constructor; try (vm_compute; intuition discriminate).
Qed.

(* "a halted transaction uses its whole gas limit" / "refund zero on halt" for an EIP-7702
   transaction whose authority account exists (refund 12500), as in the execution-specs *)
Lemma literal_halt_uses_limit_refuted_7702 :
  exists e initial floor f auth b0 d c0 st,
    validated PRAGUE e initial floor f auth b0 d c0 /\ f_class f = FHalt /\
    settle PRAGUE e floor f auth b0 d c0 = Some st /\
    st_gas_used st < tx_gas_limit (e_tx e) /\ 0 < st_gas_refunded st.
Proof.
  exists (mkEnv (mainnet_cfg 1) (mkBlock 30000000 7 true (Some 1))
               (mkTx 86862 10 false 0 [] (Some 0) (Some 1) [] (Some 2) [] None (Some 1))),
         46000, 21000, (mkFrame FHalt 0 0), 12500, 1000000, 0, 0.
  eexists. split; [|split; [reflexivity|split; [vm_compute; reflexivity|split; vm_compute; reflexivity]]].
  constructor; try (vm_compute; intuition discriminate).
  all: try (intros _; vm_compute; eexists; split; [reflexivity|discriminate]).
Qed.
