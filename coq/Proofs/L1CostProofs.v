(* Proofs about Model/L1Cost.v: range of the L1 cost, decoded scalars are 32/64-bit values, and
   the unbounded fee formulas when nothing saturates. *)
From RevmV Require Import Base.Word Model.OpFees Model.L1Cost.
Local Open Scope Z_scope.

Lemma sat_mul_range a b : 0 <= a -> 0 <= b -> 0 <= sat_mul a b < pow256.
Proof. intros. unfold sat_mul, max256. assert (0 <= a * b) by (apply Z.mul_nonneg_nonneg; lia). unfold_pows. lia. Qed.
Lemma sat_add_range a b : 0 <= a -> 0 <= b -> 0 <= sat_add a b < pow256.
Proof. intros. unfold sat_add, max256. unfold_pows. lia. Qed.
Lemma sat_mul_exact a b : 0 <= a * b < pow256 -> sat_mul a b = a * b.
Proof. intros. unfold sat_mul, max256. unfold_pows. lia. Qed.
Lemma sat_add_exact a b : a + b < pow256 -> sat_add a b = a + b.
Proof. intros. unfold sat_add, max256. unfold_pows. lia. Qed.
Lemma div_range x d : 0 <= x < pow256 -> 0 < d -> 0 <= x / d < pow256.
Proof.
  intros [Hx Hx2] Hd.
  assert (0 <= x / d) by (apply Z.div_pos; assumption).
  assert (x / d <= x).
  { apply Z.div_le_upper_bound; [assumption|].
    assert (1 * x <= d * x) as K by (apply Z.mul_le_mono_nonneg_r; lia). rewrite Z.mul_1_l in K. exact K. }
  split; [assumption|]. eapply Z.le_lt_trans; eassumption.
Qed.

Lemma be_slice_range w off n : 0 <= n -> 0 <= be_slice w off n < 256 ^ n.
Proof. intros. unfold be_slice. apply Z.mod_pos_bound. apply Z.pow_pos_nonneg; lia. Qed.

(* from ECOTONE on, the fee scalars are 32-bit, the operator constant 64-bit values, whatever the
   storage holds: this is what makes C33_operator_fee_unbounded applicable *)
Lemma try_fetch_scalar_ranges sp s :
  enabled sp ECOTONE = true ->
  let i := try_fetch sp s in
  0 <= i_base_scalar i < 2 ^ 32 /\ 0 <= opt0z (i_blob_scalar i) < 2 ^ 32 /\
  0 <= opt0z (i_op_scalar i) < 2 ^ 32 /\ 0 <= opt0z (i_op_const i) < pow64.
Proof.
  intros E. unfold try_fetch. rewrite E. cbn [negb].
  pose proof (be_slice_range (s_scalars s) 16 4 ltac:(lia)). pose proof (be_slice_range (s_scalars s) 20 4 ltac:(lia)).
  pose proof (be_slice_range (s_opscalars s) 20 4 ltac:(lia)). pose proof (be_slice_range (s_opscalars s) 24 8 ltac:(lia)).
  change (256 ^ 4) with (2 ^ 32) in *. change (256 ^ 8) with pow64 in *.
  destruct (enabled sp ISTHMUS); cbn [i_base_scalar i_blob_scalar i_op_scalar i_op_const opt0z];
    unfold_pows; lia.
Qed.

Definition info_nonneg (i : l1info) : Prop :=
  0 <= i_base_fee i /\ 0 <= opt0z (i_overhead i) /\ 0 <= i_base_scalar i /\
  0 <= opt0z (i_blob_fee i) /\ 0 <= opt0z (i_blob_scalar i).
Definition env_nonneg (e : envsum) : Prop := 0 <= e_zeros e /\ 0 <= e_nonzeros e /\ 0 <= e_est e.

Lemma data_gas_nonneg sp e : env_nonneg e -> 0 <= data_gas sp e.
Proof.
  intros (Z0 & N0 & E0). unfold data_gas. destruct (enabled sp FJORD).
  - apply Z.div_pos; [|lia]. apply sat_mul_range; lia.
  - destruct (negb (enabled sp REGOLITH)); [|lia]. unfold w_add, wrap256.
    apply Z.mod_pos_bound. reflexivity.
Qed.

Lemma l1_fee_scaled_range i : info_nonneg i -> 0 <= l1_fee_scaled i < pow256.
Proof.
  intros (A & B & C & D & E). unfold l1_fee_scaled.
  apply sat_add_range; apply sat_mul_range; try lia. apply sat_mul_range; lia.
Qed.

(* the value handed to the fee pipeline as [l1] is a 256-bit value (hypothesis wf_l1 of tx_wf) *)
Lemma l1_cost_range sp i e : info_nonneg i -> env_nonneg e -> 0 <= l1_cost sp i e < pow256.
Proof.
  intros I En. pose proof (l1_fee_scaled_range i I) as FS. pose proof (data_gas_nonneg sp e En) as DG.
  destruct I as (A & B & C & D & E). destruct En as (Z0 & N0 & E0).
  assert (0 <= l1_cost_bedrock sp i e < pow256) as BR.
  { unfold l1_cost_bedrock. apply div_range; [|lia].
    apply sat_mul_range; [|lia]. apply sat_mul_range; [|lia]. apply sat_add_range; lia. }
  unfold l1_cost. destruct (e_skip e); [unfold_pows; lia|].
  destruct (enabled sp FJORD).
  - unfold l1_cost_fjord. apply div_range; [|lia]. apply sat_mul_range; lia.
  - destruct (enabled sp ECOTONE); [|exact BR].
    unfold l1_cost_ecotone. destruct (i_empty_scalars i); [exact BR|].
    apply div_range; [|lia]. apply sat_mul_range; lia.
Qed.

(* unbounded formulas.  [fee] = 16*l1BaseFee*baseFeeScalar + l1BlobBaseFee*blobBaseFeeScalar *)
Definition fee_unbounded (i : l1info) : Z :=
  16 * i_base_fee i * i_base_scalar i + opt0z (i_blob_fee i) * opt0z (i_blob_scalar i).

Lemma l1_fee_scaled_exact i :
  info_nonneg i -> i_base_fee i < 2 ^ 128 -> i_base_scalar i < 2 ^ 32 ->
  opt0z (i_blob_fee i) < 2 ^ 128 -> opt0z (i_blob_scalar i) < 2 ^ 32 ->
  l1_fee_scaled i = fee_unbounded i /\ 0 <= fee_unbounded i < 2 ^ 166.
Proof.
  intros (A & B & C & D & E) H1 H2 H3 H4. unfold l1_fee_scaled, fee_unbounded.
  assert (0 <= i_base_fee i * 16 <= 2 ^ 128 * 16) by lia.
  assert (0 <= i_base_fee i * 16 * i_base_scalar i <= 2 ^ 128 * 16 * 2 ^ 32)
    by (split; [apply Z.mul_nonneg_nonneg; lia | apply Z.mul_le_mono_nonneg; lia]).
  assert (0 <= opt0z (i_blob_fee i) * opt0z (i_blob_scalar i) <= 2 ^ 128 * 2 ^ 32)
    by (split; [apply Z.mul_nonneg_nonneg; lia | apply Z.mul_le_mono_nonneg; lia]).
  rewrite (sat_mul_exact (i_base_fee i) 16) by (unfold_pows; lia).
  rewrite sat_mul_exact by (unfold_pows; lia).
  rewrite (sat_mul_exact (opt0z (i_blob_fee i))) by (unfold_pows; lia).
  rewrite sat_add_exact by (unfold_pows; lia).
  split; [ring|]. replace (16 * i_base_fee i * i_base_scalar i) with (i_base_fee i * 16 * i_base_scalar i) by ring.
  lia.
Qed.

(* Ecotone..Granite-style parameters (fees below 2^128, 32-bit scalars), envelopes below 2^32
   bytes, Fjord estimate a u64: the costs are the unbounded formulas of the OP specification *)
Theorem l1_cost_formulas sp i e :
  info_nonneg i -> env_nonneg e -> i_base_fee i < 2 ^ 128 -> i_base_scalar i < 2 ^ 32 ->
  opt0z (i_blob_fee i) < 2 ^ 128 -> opt0z (i_blob_scalar i) < 2 ^ 32 ->
  e_zeros e < 2 ^ 32 -> e_nonzeros e < 2 ^ 32 -> e_est e < pow64 ->
  e_skip e = false -> enabled sp ECOTONE = true -> i_empty_scalars i = false ->
  l1_cost sp i e =
    if enabled sp FJORD then e_est e * fee_unbounded i / 1000000000000
    else (e_zeros e * 4 + e_nonzeros e * 16) * fee_unbounded i / 16000000.
Proof.
  intros I En H1 H2 H3 H4 Hz Hn He Sk Ec Em.
  destruct (l1_fee_scaled_exact i I H1 H2 H3 H4) as (FE & FR).
  destruct En as (Z0 & N0 & E0).
  unfold l1_cost. rewrite Sk, Ec. destruct (enabled sp FJORD) eqn:Fj.
  - unfold l1_cost_fjord. rewrite FE.
    assert (0 <= e_est e * fee_unbounded i <= pow64 * 2 ^ 166)
      by (split; [apply Z.mul_nonneg_nonneg; lia | apply Z.mul_le_mono_nonneg; lia]).
    rewrite sat_mul_exact by (unfold_pows; lia). reflexivity.
  - unfold l1_cost_ecotone. rewrite Em, FE. unfold data_gas. rewrite Fj.
    assert (enabled sp REGOLITH = true) as -> by (unfold enabled, ECOTONE, REGOLITH in *; lia).
    cbn [negb].
    assert (0 <= e_zeros e * 4 + e_nonzeros e * 16 <= 2 ^ 37) by lia.
    assert (0 <= fee_unbounded i * (e_zeros e * 4 + e_nonzeros e * 16) <= 2 ^ 166 * 2 ^ 37)
      by (split; [apply Z.mul_nonneg_nonneg; lia | apply Z.mul_le_mono_nonneg; lia]).
    rewrite sat_mul_exact by (unfold_pows; lia).
    rewrite Z.mul_comm. reflexivity.
Qed.
