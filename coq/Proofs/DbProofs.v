(* C20 proofs: CacheDB refines plain data; caching is invisible; State reads. *)
From stdpp Require Import gmap.
From Coq Require Import ZArith Lia.
From RevmV Require Import Spec.DbSpec Model.Db.
Local Open Scope Z_scope.

(* ------------------------------------------------------------------ small facts *)
Fixpoint last_write (l : list (Z * Z)) (k : Z) : option Z :=
  match l with
  | [] => None
  | (k', v) :: r => match last_write r k with Some x => Some x | None => if decide (k' = k) then Some v else None end
  end.
Lemma write_slots_lookup l : forall m k,
  write_slots l m !! k = match last_write l k with Some v => Some v | None => m !! k end.
Proof.
  induction l as [|[k' v] r IH]; intros m k; cbn [write_slots last_write]; [reflexivity|].
  rewrite IH. destruct (last_write r k); [reflexivity|].
  destruct (decide (k' = k)) as [->|Hne]; [apply lookup_insert|apply lookup_insert_ne; exact Hne].
Qed.
Lemma last_write_in l k v : last_write l k = Some v -> In (k, v) l.
Proof.
  induction l as [|[k' v'] r IH]; cbn [last_write]; [discriminate|].
  destruct (last_write r k) eqn:E.
  - intros [= ->]. right. apply IH. reflexivity.
  - destruct (decide (k' = k)) as [->|]; [intros [= ->]; left; reflexivity|discriminate].
Qed.

Lemma any_nonzero_true m : any_nonzero m = true <-> exists k v, m !! k = Some v /\ v <> 0.
Proof. unfold any_nonzero. rewrite bool_decide_eq_true. unfold map_Exists. reflexivity. Qed.
Lemma any_nonzero_false m : any_nonzero m = false <-> forall k v, m !! k = Some v -> v = 0.
Proof.
  rewrite <- not_true_iff_false, any_nonzero_true. split.
  - intros Hn k v Hk. destruct (decide (v = 0)) as [|Hv]; [assumption|]. exfalso. apply Hn. eauto.
  - intros Hall (k & v & Hk & Hv). apply Hv. eauto.
Qed.
Lemma p_storage_nonzero s a k :
  p_storage s a k <> 0 <-> exists v, slots_of (u_stor s) a !! k = Some v /\ v <> 0.
Proof.
  unfold p_storage. destruct (slots_of (u_stor s) a !! k) as [v|]; cbn; split.
  - intros Hv. eauto.
  - intros (v' & [= <-] & Hv). exact Hv.
  - intros Hv. congruence.
  - intros (v' & [=] & _).
Qed.
Lemma p_has_storage_true s a : p_has_storage s a = true <-> exists k, p_storage s a k <> 0.
Proof.
  unfold p_has_storage. rewrite any_nonzero_true. split.
  - intros (k & v & Hk & Hv). exists k. apply p_storage_nonzero. eauto.
  - intros (k & Hk). apply p_storage_nonzero in Hk as (v & Hk & Hv). eauto.
Qed.

(* ------------------------------------------------------------------ caching is invisible *)
Section WithU.
Context (u : udb).

Definition view_eq (c c' : cachedb) : Prop :=
  (forall a, basic_ref u c' a = basic_ref u c a) /\
  (forall a k, storage_ref u c' a k = storage_ref u c a k) /\
  (forall h, code_by_hash_ref u c' h = code_by_hash_ref u c h) /\
  (forall n, block_hash_ref u c' n = block_hash_ref u c n) /\
  (forall a, has_storage_ref u c' a = has_storage_ref u c a).
Lemma view_eq_refl c : view_eq c c.
Proof. repeat split. Qed.

Ltac views := unfold basic_ref, storage_ref, code_by_hash_ref, block_hash_ref, has_storage_ref,
  set_accounts, set_contracts; cbn [c_accounts c_contracts c_bh].
Ltac at_key a a' := destruct (decide (a' = a)) as [->|?];
  [rewrite ?lookup_insert|rewrite ?lookup_insert_ne by congruence].

Lemma basic_invisible c a : wf_data u ->
  view_eq c (fst (basic u c a)) /\ snd (basic u c a) = basic_ref u c a.
Proof.
  intros Hwf. unfold basic. destruct (c_accounts c !! a) as [acc|] eqn:Ea; cbn [fst snd].
  - split; [apply view_eq_refl|]. unfold basic_ref. rewrite Ea. reflexivity.
  - split.
    2:{ unfold basic_ref. rewrite Ea. destruct (p_basic u a); reflexivity. }
    destruct (p_basic u a) as [i|] eqn:Eb; cbn [acc_from].
    + repeat split; intros; views; try reflexivity.
      * at_key a a0; [rewrite Ea; cbn; congruence|reflexivity].
      * at_key a a0; [rewrite Ea; cbn; rewrite lookup_empty; reflexivity|reflexivity].
      * at_key a a0; [rewrite Ea; cbn|reflexivity].
        replace (any_nonzero ∅) with false; [reflexivity|]. symmetry. apply any_nonzero_false.
        intros k v Hk. rewrite lookup_empty in Hk. discriminate.
    + destruct (Hwf a Eb) as [Hs Hh].
      repeat split; intros; views; try reflexivity.
      * at_key a a0; [rewrite Ea; cbn; congruence|reflexivity].
      * at_key a a0; [rewrite Ea; cbn; rewrite lookup_empty; symmetry; apply Hs|reflexivity].
      * at_key a a0; [rewrite Ea; cbn|reflexivity].
        replace (any_nonzero ∅) with false; [congruence|]. symmetry. apply any_nonzero_false.
        intros k v Hk. rewrite lookup_empty in Hk. discriminate.
Qed.

Lemma any_nonzero_insert_same m k v :
  m !! k = None -> (v <> 0 -> any_nonzero m = true) -> any_nonzero (<[k := v]> m) = any_nonzero m.
Proof.
  intros Hk Hv. destruct (any_nonzero m) eqn:E.
  - apply any_nonzero_true in E as (k' & v' & Hk' & Hv'). apply any_nonzero_true.
    exists k', v'. split; [|exact Hv']. rewrite lookup_insert_ne; [exact Hk'|congruence].
  - apply any_nonzero_false. intros k' v' Hk'.
    destruct (decide (k' = k)) as [->|Hne].
    + rewrite lookup_insert in Hk'. injection Hk' as <-.
      destruct (decide (v = 0)); [assumption|]. specialize (Hv n). discriminate.
    + rewrite lookup_insert_ne in Hk' by congruence.
      rewrite any_nonzero_false in E. eauto.
Qed.

Lemma storage_invisible c a k : wf_data u -> has_sound u ->
  view_eq c (fst (storage u c a k)) /\ snd (storage u c a k) = storage_ref u c a k.
Proof.
  intros Hwf Hsound. unfold storage.
  destruct (c_accounts c !! a) as [acc|] eqn:Ea.
  - destruct (a_storage acc !! k) as [v|] eqn:Ek; cbn [fst snd].
    { split; [apply view_eq_refl|]. unfold storage_ref. rewrite Ea, Ek. reflexivity. }
    destruct (cleared (a_state acc)) eqn:Ec; cbn [fst snd].
    { split; [apply view_eq_refl|]. unfold storage_ref. rewrite Ea, Ek, Ec. reflexivity. }
    split; [|unfold storage_ref; rewrite Ea, Ek, Ec; reflexivity].
    repeat split; intros; views; try reflexivity.
    + at_key a a0; [rewrite Ea; reflexivity|reflexivity].
    + at_key a a0; [rewrite Ea; cbn|reflexivity].
      destruct (decide (k0 = k)) as [->|Hne].
      * rewrite lookup_insert, Ek, Ec. reflexivity.
      * rewrite lookup_insert_ne by congruence. reflexivity.
    + at_key a a0; [rewrite Ea; cbn|reflexivity].
      rewrite Ec.
      destruct (any_nonzero (a_storage acc)) eqn:En.
      * rewrite any_nonzero_insert_same; [rewrite En; reflexivity|exact Ek|intros; exact En].
      * destruct (decide (p_storage u a k = 0)) as [Hz|Hnz].
        { rewrite any_nonzero_insert_same; [rewrite En; reflexivity|exact Ek|congruence]. }
        rewrite (Hsound a k Hnz).
        replace (any_nonzero (<[k:=p_storage u a k]> (a_storage acc))) with true; [reflexivity|].
        symmetry. apply any_nonzero_true. exists k, (p_storage u a k). rewrite lookup_insert. auto.
  - destruct (p_basic u a) as [i|] eqn:Eb; cbn [fst snd].
    + split; [|unfold storage_ref; rewrite Ea; reflexivity].
      repeat split; intros; views; try reflexivity.
      * at_key a a0; [rewrite Ea; cbn; congruence|reflexivity].
      * at_key a a0; [rewrite Ea; cbn|reflexivity].
        destruct (decide (k0 = k)) as [->|Hne].
        { rewrite lookup_insert. reflexivity. }
        rewrite lookup_insert_ne, lookup_empty by congruence. reflexivity.
      * at_key a a0; [rewrite Ea; cbn|reflexivity].
        destruct (decide (p_storage u a k = 0)) as [Hz|Hnz].
        { replace (any_nonzero (<[k:=p_storage u a k]> ∅)) with false; [reflexivity|].
          symmetry. apply any_nonzero_false. intros k' v'.
          destruct (decide (k' = k)) as [->|Hne];
            [rewrite lookup_insert; congruence|rewrite lookup_insert_ne, lookup_empty by congruence; discriminate]. }
        rewrite (Hsound a k Hnz).
        replace (any_nonzero (<[k:=p_storage u a k]> ∅)) with true; [reflexivity|].
        symmetry. apply any_nonzero_true. exists k, (p_storage u a k). rewrite lookup_insert. auto.
    + destruct (Hwf a Eb) as [Hs Hh].
      split; [|unfold storage_ref; rewrite Ea; symmetry; apply Hs].
      repeat split; intros; views; try reflexivity.
      * at_key a a0; [rewrite Ea; cbn; congruence|reflexivity].
      * at_key a a0; [rewrite Ea; cbn; rewrite lookup_empty; symmetry; apply Hs|reflexivity].
      * at_key a a0; [rewrite Ea; cbn|reflexivity].
        replace (any_nonzero ∅) with false; [congruence|]. symmetry. apply any_nonzero_false.
        intros k' v Hk. rewrite lookup_empty in Hk. discriminate.
Qed.

Lemma code_invisible c h :
  view_eq c (fst (code_by_hash u c h)) /\ snd (code_by_hash u c h) = code_by_hash_ref u c h.
Proof.
  unfold code_by_hash. destruct (c_contracts c !! h) as [x|] eqn:Eh; cbn [fst snd].
  - split; [apply view_eq_refl|]. unfold code_by_hash_ref. rewrite Eh. reflexivity.
  - split; [|unfold code_by_hash_ref; rewrite Eh; reflexivity].
    repeat split; intros; views; try reflexivity.
    at_key h h0; [rewrite Eh; reflexivity|reflexivity].
Qed.
Lemma block_hash_invisible c n :
  view_eq c (fst (block_hash u c n)) /\ snd (block_hash u c n) = block_hash_ref u c n.
Proof.
  unfold block_hash. destruct (c_bh c !! n) as [x|] eqn:Eh; cbn [fst snd].
  - split; [apply view_eq_refl|]. unfold block_hash_ref. rewrite Eh. reflexivity.
  - split; [|unfold block_hash_ref; rewrite Eh; reflexivity].
    repeat split; intros; views; try reflexivity.
    at_key n n0; [rewrite Eh; reflexivity|reflexivity].
Qed.

(* every &mut query answers what the _ref query answers, and leaves every _ref answer
   (hence, by the same lemma again, every later &mut answer) unchanged *)
Lemma query_invisible c q : wf_data u -> has_sound u ->
  view_eq c (fst (query_mut u c q)) /\ snd (query_mut u c q) = query_ref u c q.
Proof.
  intros Hwf Hs. destruct q as [a|a k|h|n|a]; unfold query_mut, query_ref.
  - destruct (basic_invisible c a Hwf) as [Hv He]. destruct (basic u c a); cbn in *. split; congruence.
  - destruct (storage_invisible c a k Hwf Hs) as [Hv He]. destruct (storage u c a k); cbn in *. split; congruence.
  - destruct (code_invisible c h) as [Hv He]. destruct (code_by_hash u c h); cbn in *. split; congruence.
  - destruct (block_hash_invisible c n) as [Hv He]. destruct (block_hash u c n); cbn in *. split; congruence.
  - unfold has_storage. cbn. split; [apply view_eq_refl|reflexivity].
Qed.

End WithU.

(* ------------------------------------------------------------------ refinement *)
Definition code_known (s : udb) (h : Z) : Prop := h = KECCAK_EMPTY \/ h = 0 \/ is_Some (u_code s !! h).

(* the relation between the cache over [u] and plain data [s] = u plus the changes *)
Record R (H : Z -> Z) (u : udb) (c : cachedb) (s : udb) : Prop := mkR {
  R_basic : forall a, basic_ref u c a = p_basic s a;
  R_storage : forall a k, storage_ref u c a k = p_storage s a k;
  R_bh : forall n, block_hash_ref u c n = p_block_hash s n;
  R_c1 : forall h x, c_contracts c !! h = Some x -> x = H h;
  R_c2 : forall h x, u_code s !! h = Some x -> x = H h;
  R_c3 : forall h, code_known s h -> is_Some (c_contracts c !! h) \/ is_Some (u_code u !! h) }.

Lemma R_init H u : code_wf H u -> R H u cache_new u.
Proof.
  intros (HK & H0 & Hc). split; try reflexivity.
  - intros h x. unfold cache_new. cbn.
    destruct (decide (h = KECCAK_EMPTY)) as [->|?]; [rewrite lookup_insert; congruence|].
    rewrite lookup_insert_ne by congruence.
    destruct (decide (h = 0)) as [->|?]; [rewrite lookup_insert; congruence|].
    rewrite lookup_insert_ne, lookup_empty by congruence. discriminate.
  - exact Hc.
  - intros h [->|[->|Hs]]; [left|left|right; exact Hs]; unfold cache_new; cbn.
    + rewrite lookup_insert. eauto.
    + destruct (decide (KECCAK_EMPTY = 0)) as [E|?]; [vm_compute in E; discriminate|].
      rewrite lookup_insert_ne, lookup_insert by congruence. eauto.
Qed.

Lemma R_code_answer H u c s h : code_wf H u -> R H u c s -> code_known s h ->
  code_by_hash_ref u c h = H h /\ p_code_by_hash s h = H h.
Proof.
  intros (HK & H0 & Hc) HR Hk. split.
  - unfold code_by_hash_ref. destruct (c_contracts c !! h) as [x|] eqn:E.
    + eapply R_c1; eauto.
    + destruct (R_c3 _ _ _ _ HR h Hk) as [[x Hx]|[x Hx]]; [congruence|].
      unfold p_code_by_hash. rewrite Hx. cbn. eauto.
  - unfold p_code_by_hash. destruct (u_code s !! h) as [x|] eqn:E; cbn.
    + eapply R_c2; eauto.
    + destruct Hk as [->|[->|[x Hx]]]; congruence.
Qed.

(* &mut queries preserve R (views unchanged; the code cache only learns right answers) *)
Lemma R_query_mut H u c s q : wf_data u -> has_sound u -> code_wf H u -> R H u c s ->
  (forall h, q = QCode h -> code_known s h) -> R H u (fst (query_mut u c q)) s.
Proof.
  intros Hwf Hs Hcw HR Hq.
  destruct (query_invisible u c q Hwf Hs) as [(Vb & Vs & Vc & Vn & Vh) _].
  split.
  - intros a. rewrite Vb. apply HR.
  - intros a k. rewrite Vs. apply HR.
  - intros n. rewrite Vn. apply HR.
  - destruct q as [a|a k|h|n|a]; unfold query_mut.
    + unfold basic. destruct (c_accounts c !! a); cbn; apply HR.
    + unfold storage. destruct (c_accounts c !! a) as [acc|]; [destruct (a_storage acc !! k); [|destruct (cleared _)]|destruct (p_basic u a)]; cbn; apply HR.
    + unfold code_by_hash. destruct (c_contracts c !! h) as [x|] eqn:E; cbn; [apply HR|].
      intros h' x'. destruct (decide (h' = h)) as [->|?].
      * rewrite lookup_insert. intros [= <-].
        destruct (R_code_answer H u c s h Hcw HR (Hq h eq_refl)) as [Ha _].
        unfold code_by_hash_ref in Ha. rewrite E in Ha. exact Ha.
      * rewrite lookup_insert_ne by congruence. apply HR.
    + unfold block_hash. destruct (c_bh c !! n); cbn; apply HR.
    + cbn. apply HR.
  - apply HR.
  - intros h Hk. destruct (R_c3 _ _ _ _ HR h Hk) as [[x Hx]|Hu]; [left|right; exact Hu].
    destruct q as [a|a k|h'|n|a]; unfold query_mut.
    + unfold basic. destruct (c_accounts c !! a); cbn; eauto.
    + unfold storage. destruct (c_accounts c !! a) as [acc|]; [destruct (a_storage acc !! k); [|destruct (cleared _)]|destruct (p_basic u a)]; cbn; eauto.
    + unfold code_by_hash. destruct (c_contracts c !! h') eqn:E; cbn; eauto.
      destruct (decide (h = h')) as [->|?]; [rewrite lookup_insert|rewrite lookup_insert_ne by congruence]; eauto.
    + unfold block_hash. destruct (c_bh c !! n); cbn; eauto.
    + cbn. eauto.
Qed.

(* insert_contract against learn_code *)
Lemma insert_contract_info ct ii : snd (insert_contract ct ii) = norm_info ii.
Proof.
  unfold insert_contract, norm_info, norm_hash. destruct (ii_code ii) as [[cid hs]|]; cbn.
  - destruct (cid =? 0); cbn; reflexivity.
  - reflexivity.
Qed.
Lemma insert_contract_code H ct code ii u :
  info_in_wf H ii ->
  (forall h x, ct !! h = Some x -> x = H h) -> (forall h x, code !! h = Some x -> x = H h) ->
  (forall h, (h = KECCAK_EMPTY \/ h = 0 \/ is_Some (code !! h)) -> is_Some (ct !! h) \/ is_Some (u_code u !! h)) ->
  let ct' := fst (insert_contract ct ii) in let code' := learn_code code ii in
  (forall h x, ct' !! h = Some x -> x = H h) /\ (forall h x, code' !! h = Some x -> x = H h) /\
  (forall h, (h = KECCAK_EMPTY \/ h = 0 \/ is_Some (code' !! h)) -> is_Some (ct' !! h) \/ is_Some (u_code u !! h)).
Proof.
  intros Hii H1 H2 H3. unfold insert_contract, learn_code, code_pair, info_in_wf in *.
  destruct (ii_code ii) as [[cid hs]|]; cbn; [|auto].
  destruct (cid =? 0) eqn:Ez; cbn; [auto|].
  apply Z.eqb_neq in Ez. destruct Hii as [Hcid Hh]. specialize (Hh Ez).
  set (h0 := if i_code_hash (ii_info ii) =? KECCAK_EMPTY then hs else i_code_hash (ii_info ii)).
  assert (h0 = hs) as Hh0.
  { subst h0. destruct (Z.eqb_spec (i_code_hash (ii_info ii)) KECCAK_EMPTY); [reflexivity|]. destruct Hh; congruence. }
  destruct (ct !! h0) as [old|] eqn:E; cbn.
  - repeat split; [exact H1| |].
    + intros h x. destruct (decide (h = h0)) as [->|?]; [rewrite lookup_insert; congruence|rewrite lookup_insert_ne by congruence; apply H2].
    + intros h [->|[->|Hs]]; [apply H3; auto|apply H3; auto|].
      destruct (decide (h = h0)) as [->|?]; [left; eauto|]. rewrite lookup_insert_ne in Hs by congruence. apply H3; auto.
  - repeat split.
    + intros h x. destruct (decide (h = h0)) as [->|?]; [rewrite lookup_insert; congruence|rewrite lookup_insert_ne by congruence; apply H1].
    + intros h x. destruct (decide (h = h0)) as [->|?]; [rewrite lookup_insert; congruence|rewrite lookup_insert_ne by congruence; apply H2].
    + intros h Hk. destruct (decide (h = h0)) as [->|?]; [left; rewrite lookup_insert; eauto|].
      rewrite lookup_insert_ne by congruence.
      apply H3. destruct Hk as [->|[->|Hs]]; auto. rewrite lookup_insert_ne in Hs by congruence. auto.
Qed.

Arguments KECCAK_EMPTY : simpl never.

(* views after writing one account entry / one plain-data entry *)
Definition acc_slot (u : udb) (a : Z) (acc : dbacc) (k : Z) : Z :=
  match a_storage acc !! k with Some v => v | None => if cleared (a_state acc) then 0 else p_storage u a k end.
Lemma basic_ref_insert u c a acc ct bh a' :
  basic_ref u (mkC (<[a := acc]> (c_accounts c)) ct bh) a' =
  if decide (a' = a) then acc_info acc else basic_ref u c a'.
Proof.
  unfold basic_ref; cbn. destruct (decide (a' = a)) as [->|?];
    [rewrite lookup_insert|rewrite lookup_insert_ne by congruence]; reflexivity.
Qed.
Lemma storage_ref_insert u c a acc ct bh a' k :
  storage_ref u (mkC (<[a := acc]> (c_accounts c)) ct bh) a' k =
  if decide (a' = a) then acc_slot u a acc k else storage_ref u c a' k.
Proof.
  unfold storage_ref, acc_slot; cbn. destruct (decide (a' = a)) as [->|?];
    [rewrite lookup_insert|rewrite lookup_insert_ne by congruence]; reflexivity.
Qed.
Lemma storage_ref_old u c a k :
  storage_ref u c a k = acc_slot u a (default acc_default (c_accounts c !! a)) k.
Proof.
  unfold storage_ref, acc_slot. destruct (c_accounts c !! a); cbn; [reflexivity|].
  rewrite lookup_empty. reflexivity.
Qed.
Lemma basic_ref_old u c a :
  basic_ref u c a = match c_accounts c !! a with Some acc => acc_info acc | None => p_basic u a end.
Proof. reflexivity. Qed.

Lemma p_storage_set a m s a' k (f := fun st : gmap Z (gmap Z Z) => <[a := m]> st) :
  p_storage (set_stor s f) a' k = if decide (a' = a) then default 0 (m !! k) else p_storage s a' k.
Proof.
  unfold p_storage, slots_of, set_stor, f; cbn. destruct (decide (a' = a)) as [->|?];
    [rewrite lookup_insert|rewrite lookup_insert_ne by congruence]; reflexivity.
Qed.
Lemma p_storage_del a s a' k :
  p_storage (set_stor s (delete a)) a' k = if decide (a' = a) then 0 else p_storage s a' k.
Proof.
  unfold p_storage, slots_of, set_stor; cbn. destruct (decide (a' = a)) as [->|?];
    [rewrite lookup_delete|rewrite lookup_delete_ne by congruence]; reflexivity.
Qed.
Lemma acc_slot_write u a i st l base k :
  acc_slot u a (mkAcc i st (write_slots l base)) k =
  match last_write l k with Some v => v | None => acc_slot u a (mkAcc i st base) k end.
Proof. unfold acc_slot; cbn. rewrite write_slots_lookup. destruct (last_write l k); reflexivity. Qed.

Lemma R_commit_one H u c s ac : code_wf H u -> R H u c s -> info_in_wf H (ch_info (snd ac)) ->
  R H u (commit_one c ac) (s_commit_one s ac).
Proof.
  intros Hcw HR Hii. destruct ac as [a ch]. cbn [snd] in Hii. unfold commit_one, s_commit_one.
  destruct (ch_touched ch); cbn [negb]; [|exact HR].
  destruct (ch_selfdestructed ch).
  - split.
    + intros a'. unfold set_accounts. rewrite basic_ref_insert. unfold p_basic; cbn.
      destruct (decide (a' = a)) as [->|?]; [rewrite lookup_delete; reflexivity|].
      rewrite lookup_delete_ne by congruence. apply HR.
    + intros a' k. unfold set_accounts. rewrite storage_ref_insert, p_storage_del.
      destruct (decide (a' = a)) as [->|?]; [unfold acc_slot; cbn; rewrite lookup_empty; reflexivity|].
      unfold p_storage, slots_of; cbn. apply HR.
    + intros n. apply HR.
    + apply HR.
    + apply HR.
    + apply HR.
  - pose proof (insert_contract_info (c_contracts c) (ch_info ch)) as Hi.
    pose proof (insert_contract_code H (c_contracts c) (u_code s) (ch_info ch) u Hii
                  (R_c1 _ _ _ _ HR) (R_c2 _ _ _ _ HR) (R_c3 _ _ _ _ HR)) as (C1 & C2 & C3).
    destruct (insert_contract (c_contracts c) (ch_info ch)) as [ct i]. cbn [fst snd] in *. subst i.
    split.
    + intros a'. rewrite basic_ref_insert. unfold p_basic; cbn.
      destruct (decide (a' = a)) as [->|?].
      * rewrite lookup_insert. unfold acc_info; cbn.
        destruct (ch_created ch); [reflexivity|]. destruct (cleared _); reflexivity.
      * rewrite lookup_insert_ne by congruence. apply HR.
    + intros a' k. rewrite storage_ref_insert, p_storage_set.
      destruct (decide (a' = a)) as [->|?]; [|apply HR].
      rewrite acc_slot_write, write_slots_lookup.
      destruct (last_write (ch_storage ch) k); [reflexivity|].
      destruct (ch_created ch).
      * unfold acc_slot; cbn. rewrite !lookup_empty. reflexivity.
      * change (default 0 (slots_of (u_stor s) a !! k)) with (p_storage s a k).
        rewrite <- (R_storage _ _ _ _ HR), storage_ref_old.
        unfold acc_slot; cbn. destruct (a_storage _ !! k); [reflexivity|].
        destruct (cleared (a_state _)); reflexivity.
    + intros n. apply HR.
    + exact C1.
    + exact C2.
    + exact C3.
Qed.

Lemma R_commit H u l : code_wf H u -> forall c s, R H u c s ->
  Forall (fun ac => info_in_wf H (ch_info (snd ac))) l -> R H u (commit c l) (s_commit s l).
Proof.
  intros Hcw. unfold commit, s_commit. induction l as [|ac r IH]; intros c s HR Hl; [exact HR|].
  inversion Hl; subst. cbn [fold_left]. apply IH; [|assumption]. apply R_commit_one; assumption.
Qed.

Definition not_existing_cached (c : cachedb) (a : Z) : bool :=
  match c_accounts c !! a with Some acc => match a_state acc with NotExisting => true | _ => false end | None => false end.

Lemma R_insert_account_info H u c s a ii : code_wf H u -> R H u c s -> info_in_wf H ii ->
  R H u (insert_account_info c a ii) (s_insert_account_info s a ii).
Proof.
  intros Hcw HR Hii. unfold insert_account_info, s_insert_account_info.
  pose proof (insert_contract_info (c_contracts c) ii) as Hi.
  pose proof (insert_contract_code H (c_contracts c) (u_code s) ii u Hii
                (R_c1 _ _ _ _ HR) (R_c2 _ _ _ _ HR) (R_c3 _ _ _ _ HR)) as (C1 & C2 & C3).
  destruct (insert_contract (c_contracts c) ii) as [ct i]. cbn [fst snd] in *. subst i.
  split; [| | apply HR | exact C1 | exact C2 | exact C3].
  - intros a'. rewrite basic_ref_insert. unfold p_basic; cbn.
    destruct (decide (a' = a)) as [->|?]; [|rewrite lookup_insert_ne by congruence; apply HR].
    rewrite lookup_insert. unfold acc_info; cbn.
    destruct (c_accounts c !! a) as [acc|]; cbn; [|reflexivity]. destruct (a_state acc); reflexivity.
  - intros a' k. rewrite storage_ref_insert.
    replace (p_storage (set_code (set_acc s <[a:=norm_info ii]>) (fun c0 => learn_code c0 ii)) a' k)
      with (p_storage s a' k) by reflexivity.
    destruct (decide (a' = a)) as [->|?]; [|apply HR].
    rewrite <- (R_storage _ _ _ _ HR), storage_ref_old. unfold acc_slot; cbn.
    destruct (a_storage _ !! k); [reflexivity|]. destruct (a_state _); reflexivity.
Qed.

Lemma load_account_views u c a : wf_data u ->
  let c1 := fst (load_account u c a) in let acc := snd (load_account u c a) in
  c_accounts c1 !! a = Some acc /\ c_contracts c1 = c_contracts c /\ c_bh c1 = c_bh c /\
  (forall a', a' <> a -> c_accounts c1 !! a' = c_accounts c !! a') /\
  acc_info acc = basic_ref u c a /\ (forall k, acc_slot u a acc k = storage_ref u c a k).
Proof.
  intros Hwf. unfold load_account, basic_ref. destruct (c_accounts c !! a) as [acc|] eqn:E; cbn [fst snd].
  - repeat split; auto. intros k. rewrite storage_ref_old, E. reflexivity.
  - unfold set_accounts; cbn. rewrite lookup_insert. repeat split; auto.
    + intros a' Hne. rewrite lookup_insert_ne by congruence. reflexivity.
    + destruct (p_basic u a); reflexivity.
    + intros k. rewrite storage_ref_old, E. destruct (p_basic u a) eqn:Eb; cbn; [reflexivity|].
      unfold acc_slot; cbn. rewrite lookup_empty. symmetry. apply (Hwf a Eb).
Qed.

Lemma R_after_load H u c s a acc' : wf_data u -> R H u c s ->
  let c1 := fst (load_account u c a) in
  forall s',
  (acc_info acc' = p_basic s' a) -> (forall k, acc_slot u a acc' k = p_storage s' a k) ->
  (forall a', a' <> a -> p_basic s' a' = p_basic s a' /\ forall k, p_storage s' a' k = p_storage s a' k) ->
  u_code s' = u_code s -> u_bh s' = u_bh s ->
  R H u (set_accounts c1 (<[a := acc']> (c_accounts c1))) s'.
Proof.
  intros Hwf HR c1 s' Hb Hs Ho Hc Hn.
  destruct (load_account_views u c a Hwf) as (_ & L2 & L3 & L4 & _ & _). fold c1 in L2, L3, L4.
  unfold set_accounts. split.
  - intros a'. rewrite basic_ref_insert. destruct (decide (a' = a)) as [->|Hne]; [exact Hb|].
    rewrite (proj1 (Ho a' Hne)), <- (R_basic _ _ _ _ HR). unfold basic_ref. rewrite L4 by exact Hne. reflexivity.
  - intros a' k. rewrite storage_ref_insert. destruct (decide (a' = a)) as [->|Hne]; [apply Hs|].
    rewrite (proj2 (Ho a' Hne)), <- (R_storage _ _ _ _ HR). unfold storage_ref. rewrite L4 by exact Hne. reflexivity.
  - intros n. unfold block_hash_ref, p_block_hash; cbn. rewrite L3, Hn. apply HR.
  - cbn. rewrite L2. apply HR.
  - rewrite Hc. apply HR.
  - cbn. rewrite L2. unfold code_known. rewrite Hc. apply HR.
Qed.

Lemma R_insert_account_storage H u c s a k v : wf_data u -> R H u c s ->
  R H u (insert_account_storage u c a k v) (s_insert_account_storage s a k v).
Proof.
  intros Hwf HR. unfold insert_account_storage.
  destruct (load_account_views u c a Hwf) as (_ & _ & _ & _ & L5 & L6).
  destruct (load_account u c a) as [c1 acc] eqn:E. cbn [fst snd] in *.
  change c1 with (fst (c1, acc)). rewrite <- E.
  apply (R_after_load H u c s a _ Hwf HR); try reflexivity.
  - unfold acc_info in *; cbn. rewrite L5. apply HR.
  - intros k'. unfold s_insert_account_storage. rewrite p_storage_set.
    destruct (decide (a = a)); [|congruence].
    unfold acc_slot; cbn. destruct (decide (k' = k)) as [->|?].
    + rewrite !lookup_insert. reflexivity.
    + rewrite !lookup_insert_ne by congruence.
      change (default 0 (slots_of (u_stor s) a !! k')) with (p_storage s a k').
      rewrite <- (R_storage _ _ _ _ HR), <- L6. reflexivity.
  - intros a' Hne. split; [reflexivity|]. intros k'. unfold s_insert_account_storage. rewrite p_storage_set.
    destruct (decide (a' = a)); [congruence|reflexivity].
Qed.

Lemma R_replace_account_storage H u c s a l : wf_data u -> R H u c s -> p_basic s a <> None ->
  R H u (replace_account_storage u c a l) (s_replace_account_storage s a l).
Proof.
  intros Hwf HR Hex. unfold replace_account_storage.
  destruct (load_account_views u c a Hwf) as (_ & _ & _ & _ & L5 & L6).
  destruct (load_account u c a) as [c1 acc] eqn:E. cbn [fst snd] in *.
  change c1 with (fst (c1, acc)). rewrite <- E.
  apply (R_after_load H u c s a _ Hwf HR); try reflexivity.
  - rewrite (R_basic _ _ _ _ HR) in L5. unfold acc_info in *; cbn.
    replace (p_basic (s_replace_account_storage s a l) a) with (p_basic s a) by reflexivity.
    destruct (a_state acc); congruence.
  - intros k'. unfold s_replace_account_storage. rewrite p_storage_set.
    destruct (decide (a = a)); [|congruence].
    unfold acc_slot; cbn. destruct (write_slots l ∅ !! k'); reflexivity.
  - intros a' Hne. split; [reflexivity|]. intros k'. unfold s_replace_account_storage. rewrite p_storage_set.
    destruct (decide (a' = a)); [congruence|reflexivity].
Qed.

Lemma R_insert_contract H u c s ii : code_wf H u -> R H u c s -> info_in_wf H ii ->
  R H u (set_contracts c (fst (insert_contract (c_contracts c) ii))) (s_insert_contract s ii).
Proof.
  intros Hcw HR Hii.
  pose proof (insert_contract_code H (c_contracts c) (u_code s) ii u Hii
                (R_c1 _ _ _ _ HR) (R_c2 _ _ _ _ HR) (R_c3 _ _ _ _ HR)) as (C1 & C2 & C3).
  split; [apply HR|apply HR|apply HR|exact C1|exact C2|exact C3].
Qed.

(* ------------------------------------------------------------------ has_storage *)
Lemma has_ref_sound u c a k : has_sound u -> storage_ref u c a k <> 0 -> has_storage_ref u c a = true.
Proof.
  intros Hs. unfold storage_ref, has_storage_ref. destruct (c_accounts c !! a) as [acc|]; [|apply Hs].
  destruct (a_storage acc !! k) as [v|] eqn:Ek.
  - intros Hv. replace (any_nonzero (a_storage acc)) with true; [reflexivity|].
    symmetry. apply any_nonzero_true. eauto.
  - destruct (cleared (a_state acc)); [congruence|]. intros Hv. rewrite (Hs a k Hv).
    destruct (any_nonzero _); reflexivity.
Qed.
(* no cached zero hides a non-zero slot of the underlying data (for accounts whose storage was
   not cleared through the cache) *)
Definition nz_inv (u : udb) (c : cachedb) : Prop :=
  forall a acc k, c_accounts c !! a = Some acc -> cleared (a_state acc) = false ->
                  a_storage acc !! k = Some 0 -> p_storage u a k = 0.
Lemma has_ref_complete u c a : has_complete u -> nz_inv u c ->
  has_storage_ref u c a = true -> exists k, storage_ref u c a k <> 0.
Proof.
  intros Hc Hnz. unfold storage_ref, has_storage_ref. destruct (c_accounts c !! a) as [acc|] eqn:Ea; [|apply Hc].
  destruct (any_nonzero (a_storage acc)) eqn:En.
  - intros _. apply any_nonzero_true in En as (k & v & Hk & Hv). exists k. rewrite Hk. exact Hv.
  - destruct (cleared (a_state acc)) eqn:Ec; [discriminate|]. intros Hh.
    destruct (Hc a Hh) as (k & Hk). exists k. destruct (a_storage acc !! k) as [v|] eqn:Ek; [|exact Hk].
    intros ->. apply Hk. eapply Hnz; eauto.
Qed.
Lemma has_ref_exact H u c s a : has_sound u -> has_complete u -> nz_inv u c -> R H u c s ->
  has_storage_ref u c a = p_has_storage s a.
Proof.
  intros Hs Hc Hnz HR. destruct (p_has_storage s a) eqn:E.
  - apply p_has_storage_true in E as (k & Hk). rewrite <- (R_storage _ _ _ _ HR) in Hk. eapply has_ref_sound; eauto.
  - destruct (has_storage_ref u c a) eqn:E2; [|reflexivity].
    destruct (has_ref_complete u c a Hc Hnz E2) as (k & Hk). rewrite (R_storage _ _ _ _ HR) in Hk.
    assert (p_has_storage s a = true) by (apply p_has_storage_true; eauto). congruence.
Qed.

(* ------------------------------------------------------------------ histories *)
Definition op_ok (H : Z -> Z) (s : udb) (c : cachedb) (o : op) : Prop :=
  match o with
  | Query _ (QCode h) => code_known s h
  | Query _ _ => True
  | Commit l => Forall (fun ac => info_in_wf H (ch_info (snd ac))) l
  | InsInfo a ii => info_in_wf H ii
  | InsStorage _ _ _ => True
  | ReplStorage a _ => p_basic s a <> None
  | InsContract ii => info_in_wf H ii
  end.
Fixpoint ops_ok (H : Z -> Z) (u s : udb) (c : cachedb) (h : list op) : Prop :=
  match h with
  | [] => True
  | o :: r => op_ok H s c o /\ ops_ok H u (fst (spec_step s o)) (fst (step u c o)) r
  end.
Definition ans_rel (o : op) (x y : ans) : Prop :=
  match o with
  | Query (ViaMut | ViaRef) (QHas _) => exists b, x = ABool b /\ (y = ABool true -> b = true)
  | Query (ViaComp | ViaCompRef) (QHas _) => x = ABool false
  | _ => x = y
  end.
Fixpoint refines (u : udb) (c : cachedb) (s : udb) (h : list op) : Prop :=
  match h with
  | [] => True
  | o :: r => ans_rel o (snd (step u c o)) (snd (spec_step s o)) /\
              refines u (fst (step u c o)) (fst (spec_step s o)) r
  end.

Lemma query_ref_spec H u c s q : has_sound u -> code_wf H u -> R H u c s ->
  (forall h, q = QCode h -> code_known s h) ->
  match q with
  | QHas a => exists b, query_ref u c q = ABool b /\ (spec_query s q = ABool true -> b = true)
  | _ => query_ref u c q = spec_query s q
  end.
Proof.
  intros Hs Hcw HR Hq. destruct q as [a|a k|h|n|a]; cbn.
  - f_equal. apply HR.
  - f_equal. apply HR.
  - destruct (R_code_answer H u c s h Hcw HR (Hq h eq_refl)) as [-> ->]. reflexivity.
  - f_equal. apply HR.
  - eexists; split; [reflexivity|]. intros [= E].
    apply p_has_storage_true in E as (k & Hk). rewrite <- (R_storage _ _ _ _ HR) in Hk. eapply has_ref_sound; eauto.
Qed.

Lemma step_refines H u c s o : wf_data u -> has_sound u -> code_wf H u -> R H u c s -> op_ok H s c o ->
  ans_rel o (snd (step u c o)) (snd (spec_step s o)) /\ R H u (fst (step u c o)) (fst (spec_step s o)).
Proof.
  intros Hwf Hs Hcw HR Hok. destruct o as [w q|l|a ii|a k v|a l|ii]; cbn [step spec_step].
  - assert (forall h, q = QCode h -> code_known s h) as Hq.
    { intros h ->. destruct w; exact Hok. }
    pose proof (query_ref_spec H u c s q Hs Hcw HR Hq) as Hans.
    pose proof (query_invisible u c q Hwf Hs) as [_ Hmr].
    pose proof (R_query_mut H u c s q Hwf Hs Hcw HR Hq) as HR'.
    destruct w; cbn [fst snd].
    + split; [|exact HR']. unfold ans_rel. rewrite Hmr. destruct q; try exact Hans.
    + split; [|exact HR]. unfold ans_rel. destruct q; try exact Hans.
    + destruct q; cbn [query_comp fst snd ans_rel]; try (split; [rewrite Hmr; exact Hans|exact HR']).
      split; [reflexivity|exact HR].
    + destruct q; cbn [fst snd ans_rel]; try (split; [exact Hans|exact HR]).
      split; [reflexivity|exact HR].
  - cbn. split; [reflexivity|]. apply R_commit; assumption.
  - cbn. split; [reflexivity|]. apply R_insert_account_info; assumption.
  - cbn. split; [reflexivity|]. apply R_insert_account_storage; assumption.
  - cbn. split; [reflexivity|]. apply R_replace_account_storage; assumption.
  - pose proof (insert_contract_info (c_contracts c) ii) as Hi.
    pose proof (R_insert_contract H u c s ii Hcw HR Hok) as HR'.
    destruct (insert_contract (c_contracts c) ii) as [ct i]. cbn [fst snd] in *. subst i.
    split; [reflexivity|exact HR'].
Qed.

Lemma history_refines H u : wf_data u -> has_sound u -> code_wf H u ->
  forall h c s, R H u c s -> ops_ok H u s c h -> refines u c s h.
Proof.
  intros Hwf Hs Hcw. induction h as [|o r IH]; intros c s HR Hok; [exact I|].
  destruct Hok as [Ho Hr]. destruct (step_refines H u c s o Hwf Hs Hcw HR Ho) as [Ha HR'].
  split; [exact Ha|]. apply IH; assumption.
Qed.

(* exactness of has_storage: histories that never overwrite a non-zero slot of the underlying
   data with zero *)
Definition nzo_slots (u : udb) (a : Z) (l : list (Z * Z)) : Prop :=
  Forall (fun kv => snd kv = 0 -> p_storage u a (fst kv) = 0) l.
Definition nzo (u : udb) (o : op) : Prop :=
  match o with
  | Commit l => Forall (fun ac => nzo_slots u (fst ac) (ch_storage (snd ac))) l
  | InsStorage a k v => v = 0 -> p_storage u a k = 0
  | _ => True
  end.
Definition comp_has (o : op) : bool :=
  match o with Query (ViaComp | ViaCompRef) (QHas _) => true | _ => false end.

Lemma nz_inv_insert u c a acc ct bh :
  nz_inv u c ->
  (cleared (a_state acc) = false -> forall k, a_storage acc !! k = Some 0 -> p_storage u a k = 0) ->
  nz_inv u (mkC (<[a := acc]> (c_accounts c)) ct bh).
Proof.
  intros Hnz Ha a' acc' k. cbn. destruct (decide (a' = a)) as [->|?].
  - rewrite lookup_insert. intros [= <-]. auto.
  - rewrite lookup_insert_ne by congruence. apply Hnz.
Qed.
Lemma nz_inv_query u c q : nz_inv u c -> nz_inv u (fst (query_mut u c q)).
Proof.
  intros Hnz. destruct q as [a|a k|h|n|a]; unfold query_mut.
  - unfold basic. destruct (c_accounts c !! a) eqn:E; cbn; [exact Hnz|].
    apply nz_inv_insert; [exact Hnz|]. intros _ k. destruct (p_basic u a); cbn; rewrite lookup_empty; discriminate.
  - unfold storage. destruct (c_accounts c !! a) as [acc|] eqn:E.
    + destruct (a_storage acc !! k) eqn:Ek; cbn; [exact Hnz|]. destruct (cleared (a_state acc)) eqn:Ec; cbn; [exact Hnz|].
      apply nz_inv_insert; [exact Hnz|]. cbn. intros _ k'. destruct (decide (k' = k)) as [->|?].
      * rewrite lookup_insert. congruence.
      * rewrite lookup_insert_ne by congruence. eapply Hnz; eauto.
    + destruct (p_basic u a); cbn; (apply nz_inv_insert; [exact Hnz|]); cbn; [|discriminate].
      intros _ k'. destruct (decide (k' = k)) as [->|?].
      * rewrite lookup_insert. congruence.
      * rewrite lookup_insert_ne, lookup_empty by congruence. discriminate.
  - unfold code_by_hash. destruct (c_contracts c !! h); cbn; exact Hnz.
  - unfold block_hash. destruct (c_bh c !! n); cbn; exact Hnz.
  - cbn. exact Hnz.
Qed.
Lemma nz_inv_commit_one u c ac : nz_inv u c -> nzo_slots u (fst ac) (ch_storage (snd ac)) ->
  nz_inv u (commit_one c ac).
Proof.
  intros Hnz Hz. destruct ac as [a ch]. cbn [fst snd] in Hz. unfold commit_one.
  destruct (ch_touched ch); cbn [negb]; [|exact Hnz].
  destruct (ch_selfdestructed ch).
  - apply nz_inv_insert; [exact Hnz|]. cbn. discriminate.
  - destruct (insert_contract _ _) as [ct i]. apply nz_inv_insert; [exact Hnz|]. cbn.
    destruct (ch_created ch); [discriminate|].
    destruct (cleared (a_state (default acc_default (c_accounts c !! a)))) eqn:Ec; [discriminate|].
    intros _ k. rewrite write_slots_lookup. destruct (last_write (ch_storage ch) k) as [v|] eqn:El.
    + intros [= ->]. apply last_write_in in El. unfold nzo_slots in Hz. rewrite Forall_forall in Hz.
      apply (Hz (k, 0)); [apply elem_of_list_In; exact El|reflexivity].
    + destruct (c_accounts c !! a) as [acc|] eqn:Ea; cbn in *; [|rewrite lookup_empty; discriminate].
      eapply Hnz; eauto.
Qed.
Lemma nz_inv_step u c o : wf_data u -> nz_inv u c -> nzo u o -> nz_inv u (fst (step u c o)).
Proof.
  intros Hwf Hnz Hz. destruct o as [w q|l|a ii|a k v|a l|ii]; cbn [step].
  - destruct w; cbn [fst]; try exact Hnz; try apply nz_inv_query; try exact Hnz.
    + destruct q; cbn [query_comp fst]; try exact Hnz; apply nz_inv_query; exact Hnz.
  - cbn. unfold commit. cbn in Hz. revert c Hnz. induction l as [|ac r IH]; intros c Hnz; [exact Hnz|].
    inversion Hz; subst. cbn [fold_left]. apply IH; [assumption|]. apply nz_inv_commit_one; assumption.
  - cbn. unfold insert_account_info. destruct (insert_contract _ _) as [ct i].
    apply nz_inv_insert; [exact Hnz|]. cbn. destruct (c_accounts c !! a) as [acc|] eqn:Ea; cbn.
    + intros Hc k Hk. eapply Hnz; eauto. destruct (a_state acc); cbn in *; congruence.
    + intros _ k. rewrite lookup_empty. discriminate.
  - cbn. unfold insert_account_storage.
    destruct (load_account u c a) as [c1 acc] eqn:E. unfold set_accounts.
    assert (nz_inv u c1 /\ (cleared (a_state acc) = false -> forall k', a_storage acc !! k' = Some 0 -> p_storage u a k' = 0)) as [Hnz1 Hacc].
    { unfold load_account in E. destruct (c_accounts c !! a) as [acc0|] eqn:Ea; injection E as <- <-.
      - split; [exact Hnz|]. intros. eapply Hnz; eauto.
      - split.
        + apply nz_inv_insert; [exact Hnz|]. intros _ k'. destruct (p_basic u a); cbn; rewrite lookup_empty; discriminate.
        + intros _ k'. destruct (p_basic u a); cbn; rewrite lookup_empty; discriminate. }
    apply nz_inv_insert; [exact Hnz1|]. cbn. intros Hc k'. destruct (decide (k' = k)) as [->|?].
    + rewrite lookup_insert. intros [= ->]. apply Hz. reflexivity.
    + rewrite lookup_insert_ne by congruence. apply Hacc. exact Hc.
  - cbn. unfold replace_account_storage. destruct (load_account u c a) as [c1 acc] eqn:E. unfold set_accounts.
    assert (nz_inv u c1) as Hnz1.
    { unfold load_account in E. destruct (c_accounts c !! a) as [acc0|] eqn:Ea; injection E as <- <-; [exact Hnz|].
      apply nz_inv_insert; [exact Hnz|]. intros _ k'. destruct (p_basic u a); cbn; rewrite lookup_empty; discriminate. }
    apply nz_inv_insert; [exact Hnz1|]. cbn. discriminate.
  - destruct (insert_contract _ _) as [ct i]. cbn. exact Hnz.
Qed.

Lemma history_exact H u : wf_data u -> has_sound u -> has_complete u -> code_wf H u ->
  forall h c s, R H u c s -> nz_inv u c -> ops_ok H u s c h -> Forall (nzo u) h ->
    forallb (fun o => negb (comp_has o)) h = true -> run u c h = spec_run s h.
Proof.
  intros Hwf Hs Hc Hcw. induction h as [|o r IH]; intros c s HR Hnz Hok Hz Hnc; [reflexivity|].
  destruct Hok as [Ho Hr]. inversion Hz; subst. cbn [forallb] in Hnc. apply andb_true_iff in Hnc as [Hn1 Hn2].
  destruct (step_refines H u c s o Hwf Hs Hcw HR Ho) as [Ha HR'].
  pose proof (nz_inv_step u c o Hwf Hnz H2) as Hnz'.
  cbn [run spec_run]. destruct (step u c o) as [c' x] eqn:Es. destruct (spec_step s o) as [s' y] eqn:Ess.
  cbn [fst snd] in *. f_equal; [|apply IH; assumption].
  destruct o as [w q|l|a ii|a k v|a l|ii]; try exact Ha.
  destruct q as [a|a k|hh|n|a]; try (destruct w; exact Ha).
  destruct w; try discriminate.
  - cbn in Es, Ess. injection Es as <- <-. injection Ess as <- <-. f_equal. eapply has_ref_exact; eauto.
  - cbn in Es, Ess. injection Es as <- <-. injection Ess as <- <-. f_equal. eapply has_ref_exact; eauto.
Qed.
Lemma nz_inv_new u : nz_inv u cache_new.
Proof. intros a acc k. cbn. rewrite lookup_empty. discriminate. Qed.

(* ------------------------------------------------------------------ State: reads *)
Definition st_norm (i : info) : info := if info_is_empty i then info_default else i.
Lemma st_norm_id i : i_code_hash i <> 0 -> st_norm i = i.
Proof.
  unfold st_norm, info_is_empty. destruct i as [n b h]; cbn. intros Hh.
  destruct (Z.eqb_spec h KECCAK_EMPTY); destruct (Z.eqb_spec h 0); destruct (Z.eqb_spec b 0);
    destruct (Z.eqb_spec n 0); cbn; try reflexivity; try congruence.
  subst. reflexivity.
Qed.
Definition sacc_ok (u : udb) (a : Z) (x : sacc) : Prop :=
  match sa_acc x with
  | None => p_basic u a = None /\ sa_known x = true
  | Some (i, m) => (exists i0, p_basic u a = Some i0 /\ i = st_norm i0) /\ sa_known x = false /\
                   forall k v, m !! k = Some v -> v = p_storage u a k
  end.
Record SInv (u : udb) (s : sstate) : Prop := mkSInv {
  SI_acc : forall a x, st_accounts s !! a = Some x -> sacc_ok u a x;
  SI_code : forall h x, st_contracts s !! h = Some x -> x = p_code_by_hash u h;
  SI_bh : forall n x, st_bh s !! n = Some x -> x = p_block_hash u n }.
Lemma SInv_new u : SInv u state_new.
Proof. split; intros ? ?; cbn; rewrite lookup_empty; discriminate. Qed.

Definition st_expected (u : udb) (q : query) : ans :=
  match q with
  | QBasic a => AInfo (option_map st_norm (p_basic u a))
  | QStorage a k => AWord (p_storage u a k)
  | QCode h => AWord (p_code_by_hash u h)
  | QBlockHash n => AWord (p_block_hash u n)
  | QHas a => ABool (u_has u a)
  end.
Definition is_storage_query (q : query) : Prop := match q with QStorage _ _ => True | _ => False end.

Lemma sacc_fresh_ok u a :
  sacc_ok u a (match p_basic u a with None => sacc_not_existing | Some i => sacc_of_info i ∅ end).
Proof.
  unfold sacc_ok. destruct (p_basic u a) as [i|] eqn:E; cbn; [|auto].
  unfold sacc_of_info, st_norm. destruct (info_is_empty i) eqn:Ei; cbn.
  - split; [exists i; rewrite Ei; auto|]. split; [reflexivity|]. intros k v. rewrite lookup_empty. discriminate.
  - split; [exists i; rewrite Ei; auto|]. split; [reflexivity|]. intros k v. rewrite lookup_empty. discriminate.
Qed.

Lemma st_query_ok u s q : wf_data u -> has_sound u -> SInv u s ->
  SInv u (fst (st_step u s (SQuery q))) /\
  (snd (st_step u s (SQuery q)) = st_expected u q \/
   snd (st_step u s (SQuery q)) = APanic /\ is_storage_query q).
Proof.
  intros Hwf Hs HI. destruct q as [a|a k|h|n|a]; cbn [st_step].
  - unfold st_basic, load_cache_account. destruct (st_accounts s !! a) as [x|] eqn:Ea; cbn [fst snd].
    + split; [exact HI|left]. pose proof (SI_acc _ _ HI a x Ea) as Hx. unfold sacc_ok in Hx. cbn.
      destruct (sa_acc x) as [[i m]|]; cbn.
      * destruct Hx as ((i0 & -> & ->) & _). reflexivity.
      * destruct Hx as [-> _]. reflexivity.
    + split.
      * split; [|apply HI|apply HI]. intros a' x'. cbn. destruct (decide (a' = a)) as [->|?].
        { rewrite lookup_insert. intros [= <-]. apply sacc_fresh_ok. }
        rewrite lookup_insert_ne by congruence. apply HI.
      * left. cbn. destruct (p_basic u a) as [i|]; cbn; [|reflexivity].
        unfold sacc_of_info, st_norm. destruct (info_is_empty i); reflexivity.
  - unfold st_storage. destruct (st_accounts s !! a) as [x|] eqn:Ea.
    2:{ cbn. split; [exact HI|right]. split; [reflexivity|exact I]. }
    pose proof (SI_acc _ _ HI a x Ea) as Hx. unfold sacc_ok in Hx.
    destruct (sa_acc x) as [[i m]|] eqn:Ex.
    + destruct Hx as (Hi & Hk & Hm). destruct (m !! k) as [v|] eqn:Ek; cbn [fst snd].
      * split; [exact HI|left]. cbn [st_expected]. f_equal. eauto.
      * rewrite Hk. split; [|left; reflexivity].
        split; [|apply HI|apply HI]. intros a' x'. cbn. destruct (decide (a' = a)) as [->|?].
        { rewrite lookup_insert. intros [= <-]. unfold sacc_ok; cbn. split; [exact Hi|]. split; [reflexivity|].
          intros k' v'. destruct (decide (k' = k)) as [->|?]; [rewrite lookup_insert; congruence|].
          rewrite lookup_insert_ne by congruence. apply Hm. }
        rewrite lookup_insert_ne by congruence. apply HI.
    + cbn [fst snd]. split; [exact HI|left]. destruct Hx as [Hb _]. cbn [st_expected]. f_equal. symmetry. apply (Hwf a Hb).
  - unfold st_code_by_hash. destruct (st_contracts s !! h) as [x|] eqn:Eh; cbn [fst snd].
    + split; [exact HI|left]. cbn [st_expected]. f_equal. eapply SI_code; eauto.
    + split; [|left; reflexivity]. split; [apply HI| |apply HI]. intros h' x'. cbn.
      destruct (decide (h' = h)) as [->|?]; [rewrite lookup_insert; congruence|].
      rewrite lookup_insert_ne by congruence. apply HI.
  - unfold st_block_hash. destruct (st_bh s !! n) as [x|] eqn:En; cbn [fst snd].
    + split; [exact HI|left]. cbn [st_expected]. f_equal. eapply SI_bh; eauto.
    + split; [|left; reflexivity]. split; [apply HI|apply HI|]. intros n' x'. cbn.
      intros Hf. apply map_filter_lookup_Some in Hf as [Hf _]. revert Hf.
      destruct (decide (n' = n)) as [->|?]; [rewrite lookup_insert; congruence|].
      rewrite lookup_insert_ne by congruence. apply HI.
  - cbn. split; [exact HI|left]. cbn [st_expected]. f_equal. unfold st_has_storage.
    destruct (st_accounts s !! a) as [x|] eqn:Ea; [|reflexivity].
    pose proof (SI_acc _ _ HI a x Ea) as Hx. unfold sacc_ok in Hx.
    destruct (sa_acc x) as [[i m]|].
    + destruct Hx as (_ & -> & Hm). destruct (any_nonzero m) eqn:En; [|reflexivity].
      apply any_nonzero_true in En as (k & v & Hk & Hv). symmetry. apply (Hs a k).
      rewrite <- (Hm k v Hk). exact Hv.
    + destruct Hx as [Hb ->]. symmetry. apply (Hwf a Hb).
Qed.

Lemma st_reads u : wf_data u -> has_sound u -> forall qs s, SInv u s ->
  Forall2 (fun q x => x = st_expected u q \/ x = APanic /\ is_storage_query q)
          qs (st_run u s (map SQuery qs)).
Proof.
  intros Hwf Hs. induction qs as [|q r IH]; intros s HI; [constructor|].
  cbn [map st_run]. destruct (st_query_ok u s q Hwf Hs HI) as [HI' Ha].
  destruct (st_step u s (SQuery q)) as [s' x]. cbn [fst snd] in *. constructor; [exact Ha|apply IH; exact HI'].
Qed.

Lemma query_ref_view u c c' q : view_eq u c c' -> query_ref u c' q = query_ref u c q.
Proof. intros (Vb & Vs & Vc & Vn & Vh). destruct q; cbn; f_equal; auto. Qed.
Lemma later_answers_unchanged u c q q' : wf_data u -> has_sound u ->
  snd (query_mut u (fst (query_mut u c q)) q') = snd (query_mut u c q') /\
  query_ref u (fst (query_mut u c q)) q' = query_ref u c q'.
Proof.
  intros Hwf Hs. destruct (query_invisible u c q Hwf Hs) as [Hv _].
  destruct (query_invisible u (fst (query_mut u c q)) q' Hwf Hs) as [_ ->].
  destruct (query_invisible u c q' Hwf Hs) as [_ ->].
  split; apply query_ref_view; exact Hv.
Qed.

Fixpoint st_after (u : udb) (s : sstate) (qs : list query) : sstate :=
  match qs with [] => s | q :: r => st_after u (fst (st_step u s (SQuery q))) r end.
Lemma SInv_after u : wf_data u -> has_sound u -> forall qs s, SInv u s -> SInv u (st_after u s qs).
Proof.
  intros Hwf Hs. induction qs as [|q r IH]; intros s HI; [exact HI|]. cbn [st_after].
  apply IH. apply st_query_ok; assumption.
Qed.
Lemma st_block_hash_any u qs n : wf_data u -> has_sound u ->
  snd (st_block_hash u (st_after u state_new qs) n) = p_block_hash u n.
Proof.
  intros Hwf Hs. pose proof (SInv_after u Hwf Hs qs state_new (SInv_new u)) as HI.
  destruct (st_query_ok u _ (QBlockHash n) Hwf Hs HI) as [_ [He|[_ []]]].
  cbn [st_step st_expected] in He. destruct (st_block_hash u _ n). cbn in *. congruence.
Qed.
