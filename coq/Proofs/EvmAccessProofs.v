(* C34 on the reference interpreter (composition).  Model/Step.v (one instruction) and
   Model/Evm.v (frames, the transaction) over the journaled state of Model/Host.v.

   1. instruction level: every access-causing instruction charges the cold price exactly when
      the address / (address, slot) is not warm in the observation of the pre-state
      (Proofs/AccessProofs.v acc_warm / slot_warm); afterwards it is warm, no other status changes;
   2. frame level: the create-free interpreter with its history of journaled-state operations
      made explicit; the is_cold answers of that history are the answers of the accessed-set
      specification (Spec/AccessSpec.v); a child frame that does not end ok leaves every warm
      status as it was when its checkpoint was taken;
   3. transaction level: the warm status when the first frame starts, against Spec/TxWarmSpec.v. *)
From RevmV Require Import Base.Word Model.Step Model.Evm Proofs.StepProofs Proofs.EvmProofs
  Proofs.EvmFrameProofs Proofs.EvmHistoryProofs.
From RevmV Require Model.Frames Model.Host Model.GasCalc Spec.GateSpec Spec.AccessSpec Spec.TxWarmSpec
  Proofs.HostView Proofs.HostOps Proofs.HostRevert Proofs.HostMain Proofs.FramesProofs
  Proofs.AccessRefine Proofs.AccessRefine2 Proofs.AccessRefine3.
From RevmV Require Import Proofs.AccessProofs.
Local Open Scope Z_scope.

Import Host.

(* ================================================================= 1. instructions *)

(* EIP-2929 prices *)
Definition acct_price (warm : bool) : Z := if warm then 100 else 2600.
Definition slot_price (warm : bool) : Z := if warm then 100 else 2100.
(* SSTORE: the EIP-2200 schedule with SLOAD_GAS = 100, SSTORE_RESET = 2900, plus 2100 when cold *)
Definition sstore_price (gas : Z) (sr : GasCalc.sstore_result) (warm : bool) : option Z :=
  if gas <=? 2300 then None
  else Some (GasCalc.istanbul_sstore_cost 100 2900 sr + (if warm then 0 else 2100)).
(* CALL family: access part (callee, and its EIP-7702 delegation target) + value + new account *)
Definition call_price (warm : bool) (dwarm : option bool) (transfers empty : bool) : Z :=
  acct_price warm + (match dwarm with Some w => acct_price w | None => 0 end)
  + (if transfers then 9000 else 0) + (if empty && transfers then 25000 else 0).
Definition selfdestruct_price (had_value target_exists warm : bool) : Z :=
  5000 + (if had_value && negb target_exists then 25000 else 0) + (if warm then 0 else 2600).

(* the effect of an access on the warm status *)
Definition warms_addr (d : db) (s s' : jstate) (a : Z) : Prop :=
  acc_warm d s' a = true /\
  (forall x, x <> a -> acc_warm d s' x = acc_warm d s x) /\
  (forall x k, slot_warm d s' x k = slot_warm d s x k).
Definition warms_slot (d : db) (s s' : jstate) (a k : Z) : Prop :=
  slot_warm d s' a k = true /\
  (forall x, acc_warm d s' x = acc_warm d s x) /\
  (forall x j, (x, j) <> (a, k) -> slot_warm d s' x j = slot_warm d s x j).

(* gas!(c): either the frame halts OutOfGas with the gas untouched, or exactly c is taken *)
Definition charge (I : istate) (c : Z) : istate :=
  set_gas I (Gas.mkGas (Gas.limit (i_gas I)) (rem I - c) (Gas.refunded (i_gas I))).
Lemma with_gas_charge c I k :
  with_gas c I k = if c <=? rem I then k (charge I c) else halt R_OutOfGas I.
Proof. unfold with_gas, Gas.record_cost, charge, rem. destruct (c <=? _); reflexivity. Qed.

Lemma berlin_gs s :
  en s E.BERLIN = true ->
  GasCalc.enabled (spec_of_z s) Specs.BERLIN = true /\ GasCalc.enabled (spec_of_z s) Specs.ISTANBUL = true /\
  GasCalc.enabled (spec_of_z s) Specs.TANGERINE = true /\ GasCalc.enabled (spec_of_z s) Specs.SPURIOUS_DRAGON = true.
Proof.
  unfold en, E.enabled, E.BERLIN. intros Hs. apply Z.leb_le in Hs. unfold spec_of_z.
  repeat match goal with
  | |- context [if ?x =? ?n then _ else _] =>
      destruct (Z.eqb_spec x n) as [He|He]; [rewrite He in Hs; first [lia | repeat split; reflexivity]|clear He]
  end. repeat split; reflexivity.
Qed.

Lemma warm_cold_price c : GasCalc.warm_cold_cost c = acct_price (negb c).
Proof. destruct c; reflexivity. Qed.
Lemma sload_cost_price s c : en s E.BERLIN = true -> GasCalc.sload_cost (spec_of_z s) c = slot_price (negb c).
Proof. intros HB. destruct (berlin_gs s HB) as (B & _). unfold GasCalc.sload_cost. rewrite B. destruct c; reflexivity. Qed.
Lemma sstore_cost_price s sr gas c :
  en s E.BERLIN = true -> GasCalc.sstore_cost (spec_of_z s) sr gas c = sstore_price gas sr (negb c).
Proof.
  intros HB. destruct (berlin_gs s HB) as (B & Is & _). unfold GasCalc.sstore_cost, sstore_price. rewrite B, Is.
  cbn [andb]. change G.CALL_STIPEND with 2300. change G.WARM_STORAGE_READ_COST with 100. change G.WARM_SSTORE_RESET with 2900.
  change G.COLD_SLOAD_COST with 2100. destruct (gas <=? 2300); [reflexivity|]. destruct c; cbn [negb]; f_equal; lia.
Qed.
Lemma call_cost_price s tv c dc em :
  en s E.BERLIN = true ->
  GasCalc.call_cost (spec_of_z s) tv c dc em = call_price (negb c) (option_map negb dc) tv em.
Proof.
  intros HB. destruct (berlin_gs s HB) as (B & _ & _ & Sd). unfold GasCalc.call_cost, call_price, GasCalc.warm_cold_cost_with_delegation.
  rewrite B, Sd, !warm_cold_price. change G.CALLVALUE with 9000. change G.NEWACCOUNT with 25000.
  destruct dc as [dcc|]; cbn [option_map]; [rewrite warm_cold_price|]; destruct tv, em; cbn [andb]; lia.
Qed.
Lemma selfdestruct_cost_price s hv te c :
  en s E.BERLIN = true -> GasCalc.selfdestruct_cost (spec_of_z s) hv te c = selfdestruct_price hv te (negb c).
Proof.
  intros HB. destruct (berlin_gs s HB) as (B & _ & T & Sd). unfold GasCalc.selfdestruct_cost, selfdestruct_price.
  rewrite B, Sd, T. cbn [andb]. change G.COLD_ACCOUNT_ACCESS_COST with 2600. destruct (hv && negb te), c; cbn [negb]; lia.
Qed.
Lemma extcodecopy_cost_price s len c :
  en s E.BERLIN = true ->
  GasCalc.extcodecopy_cost (spec_of_z s) len c =
  GasCalc.obind (GasCalc.cost_per_word len G.COPY) (fun w => GasCalc.checked_add64 (acct_price (negb c)) w).
Proof. intros HB. destruct (berlin_gs s HB) as (B & _). unfold GasCalc.extcodecopy_cost. rewrite B, warm_cold_price. reflexivity. Qed.

(* the state after loading x, the warm status of x before *)
Definition ld (W : world) (G : gstate) (x : Z) : jstate := fst (load_account (gdb W G) (gs G) x).
Definition wa (W : world) (G : gstate) (x : Z) : bool := acc_warm (gdb W G) (gs G) x.

Lemma ld_warms W G x :
  snd (load_account (gdb W G) (gs G) x) = negb (wa W G x) /\ warms_addr (gdb W G) (gs G) (ld W G x) x.
Proof. destruct (load_cold_iff (gdb W G) (gs G) x) as (C1 & C2 & C3 & C4). split; [exact C1|]. split; [exact C2|]. split; assumption. Qed.

(* BALANCE *)
Lemma op_balance_access W G I a r :
  en (w_spec W) E.BERLIN = true -> i_stk I = a :: r ->
  let x := addr_of_word a in
  op_balance W G I =
    (set_s G (ld W G x),
     with_gas (acct_price (wa W G x)) (set_stk I r)
       (push_next (match st (ld W G x) x with Some acc => a_bal acc | None => 0 end))) /\
  warms_addr (gdb W G) (gs G) (ld W G x) x.
Proof.
  intros HB HS x. destruct (ld_warms W G x) as [C1 C2]. split; [|exact C2].
  unfold op_balance, ld in *. rewrite HS. cbv zeta. fold x.
  destruct (load_account (gdb W G) (gs G) x) as [s1 cold]. cbn [fst snd] in *.
  rewrite HB, warm_cold_price, C1, Bool.negb_involutive. reflexivity.
Qed.

(* EXTCODEHASH *)
Lemma op_extcodehash_access W G I a r :
  en (w_spec W) E.BERLIN = true -> i_stk I = a :: r ->
  let x := addr_of_word a in
  op_extcodehash W G I =
    (set_s G (ld W G x),
     with_gas (acct_price (wa W G x)) (set_stk I r)
       (push_next (match st (ld W G x) x with
                   | Some acc => if is_empty_acc acc then 0 else if a_code acc =? 0 then KECCAK_EMPTY else a_code acc
                   | None => 0 end))) /\
  warms_addr (gdb W G) (gs G) (ld W G x) x.
Proof.
  intros HB HS x. destruct (ld_warms W G x) as [C1 C2]. split; [|exact C2].
  unfold op_extcodehash, load_code, ld in *. rewrite HS. cbv zeta. fold x.
  destruct (load_account (gdb W G) (gs G) x) as [s1 cold]. cbn [fst snd] in *.
  rewrite HB, warm_cold_price, C1, Bool.negb_involutive. reflexivity.
Qed.

(* EXTCODESIZE (the code bytes of a known identity are in the table: otherwise SBad) *)
Lemma op_extcodesize_access W G I a r :
  en (w_spec W) E.BERLIN = true -> i_stk I = a :: r ->
  let x := addr_of_word a in
  fst (op_extcodesize W G I) = set_s G (ld W G x) /\
  warms_addr (gdb W G) (gs G) (ld W G x) x /\
  forall b, code_bytes (g_codes G) (match st (ld W G x) x with Some acc => a_code acc | None => 0 end) = Some b ->
    snd (op_extcodesize W G I) = with_gas (acct_price (wa W G x)) (set_stk I r) (push_next (zlen b)).
Proof.
  intros HB HS x. destruct (ld_warms W G x) as [C1 C2].
  unfold op_extcodesize, host_code, load_code, ld in *. rewrite HS. cbv zeta. fold x.
  destruct (load_account (gdb W G) (gs G) x) as [s1 cold]. cbn [fst snd] in *.
  split; [destruct (code_bytes _ _); reflexivity|]. split; [exact C2|].
  intros b Hb. rewrite Hb. cbn [snd]. rewrite HB, warm_cold_price, C1, Bool.negb_involutive. reflexivity.
Qed.

(* EXTCODECOPY: the access price is the base of the copy cost *)
Lemma op_extcodecopy_access W G I a mo cof len r :
  en (w_spec W) E.BERLIN = true -> i_stk I = a :: mo :: cof :: len :: r ->
  let x := addr_of_word a in
  fst (op_extcodecopy W G I) = set_s G (ld W G x) /\
  warms_addr (gdb W G) (gs G) (ld W G x) x /\
  forall code, code_bytes (g_codes G) (match st (ld W G x) x with Some acc => a_code acc | None => 0 end) = Some code ->
    snd (op_extcodecopy W G I) =
      usize_or_fail len (set_stk I r) (fun len =>
        with_gas_opt (GasCalc.obind (GasCalc.cost_per_word len G.COPY)
                        (fun w => GasCalc.checked_add64 (acct_price (wa W G x)) w)) (set_stk I r) (fun I1 =>
          if len =? 0 then next I1
          else usize_or_fail mo I1 (fun mo =>
               let cof := Z.min (sat_u64 cof) (zlen code) in
               mem_resize I1 mo len (fun I2 =>
                 mem_op (M.set_data (i_mem I2) mo cof len code) I2 next)))).
Proof.
  intros HB HS x. destruct (ld_warms W G x) as [C1 C2].
  unfold op_extcodecopy, host_code, load_code, ld in *. rewrite HS. cbv zeta. fold x.
  destruct (load_account (gdb W G) (gs G) x) as [s1 cold]. cbn [fst snd] in *.
  split; [destruct (code_bytes _ _); reflexivity|]. split; [exact C2|].
  intros code Hc. rewrite Hc. cbn [snd]. unfold usize_or_fail. destruct (len <? pow64); [|reflexivity].
  rewrite (extcodecopy_cost_price _ _ _ HB), C1, Bool.negb_involutive. reflexivity.
Qed.

(* SLOAD (sload answers None only for an account that is not loaded; the executing account is) *)
Lemma op_sload_access W G F I k r s1 v cold :
  en (w_spec W) E.BERLIN = true -> i_stk I = k :: r ->
  sload (gdb W G) (gs G) (f_target F) k = Some (s1, v, cold) ->
  op_sload W G F I =
    (set_s G s1,
     with_gas (slot_price (slot_warm (gdb W G) (gs G) (f_target F) k)) I (fun I1 => next (set_stk I1 (v :: r)))) /\
  warms_slot (gdb W G) (gs G) s1 (f_target F) k.
Proof.
  intros HB HS HL. destruct (sload_cold_iff _ _ _ _ _ _ _ HL) as (C1 & C2 & C3 & C4).
  split; [|split; [exact C2|split; assumption]].
  unfold op_sload. rewrite HS, HL, (sload_cost_price _ _ HB), C1, Bool.negb_involutive. reflexivity.
Qed.
Lemma sload_loaded d s a k acc : st s a = Some acc -> exists s1 v c, sload d s a k = Some (s1, v, c).
Proof. intros E. unfold sload. rewrite E. destruct (a_storage acc k) as [sl|]; [destruct (s_cold sl)|]; eauto. Qed.

(* SSTORE *)
Lemma sstore_cold_iff d s a k new s' o p c :
  sstore d s a k new = Some (s', o, p, c) ->
  c = negb (slot_warm d s a k) /\ warms_slot d s s' a k.
Proof.
  intros HS. destruct (AccessRefine2.sw_sstore_tail d s a k new s' o p c HS) as (s1 & v & HL & [S1 S2]).
  destruct (sload_cold_iff _ _ _ _ _ _ _ HL) as (C1 & C2 & C3 & C4). split; [exact C1|].
  split; [rewrite S2; exact C2|]. split; [intros x; rewrite S1; apply C3|intros x j Hn; rewrite S2; apply C4; exact Hn].
Qed.
Lemma op_sstore_access W G F I k v r s1 orig pres cold :
  en (w_spec W) E.BERLIN = true -> f_static F = false -> i_stk I = k :: v :: r ->
  sstore (gdb W G) (gs G) (f_target F) k v = Some (s1, orig, pres, cold) ->
  let sr := GasCalc.mkSStore orig pres v in
  op_sstore W G F I =
    (set_s G s1,
     with_gas_opt (sstore_price (rem (set_stk I r)) sr (slot_warm (gdb W G) (gs G) (f_target F) k)) (set_stk I r) (fun I1 =>
       match Gas.record_refund (i_gas I1) (GasCalc.sstore_refund (spec_of_z (w_spec W)) sr) with
       | Some g' => next (set_gas I1 g')
       | None => SBad BAD_PANIC
       end)) /\
  warms_slot (gdb W G) (gs G) s1 (f_target F) k.
Proof.
  intros HB HF HS HL sr. destruct (sstore_cold_iff _ _ _ _ _ _ _ _ _ HL) as (C1 & C2). split; [|exact C2].
  unfold op_sstore. rewrite HF, HS, HL. cbv zeta. rewrite (sstore_cost_price _ _ _ _ HB), C1, Bool.negb_involutive. reflexivity.
Qed.

(* SELFDESTRUCT: the beneficiary *)
Lemma selfdestruct_cold_iff d s a t s' hv te pd c :
  selfdestruct d s a t = Some (s', hv, te, pd, c) ->
  c = negb (acc_warm d s t) /\ warms_addr d s s' t.
Proof.
  intros HS. destruct (AccessRefine2.sw_selfdestruct d s a t s' hv te pd c HS) as ([S1 S2] & ->).
  destruct (load_cold_iff d s t) as (C1 & C2 & C3 & C4). split; [exact C1|].
  split; [rewrite S1; exact C2|]. split; [intros x Hx; rewrite S1; apply C3; exact Hx|intros x k; rewrite S2; apply C4].
Qed.
Lemma op_selfdestruct_access W G F I t r s1 hv te prev cold g1 :
  en (w_spec W) E.BERLIN = true -> f_static F = false -> i_stk I = t :: r ->
  selfdestruct (gdb W G) (gs G) (f_target F) (addr_of_word t) = Some (s1, hv, te, prev, cold) ->
  (if negb (en (w_spec W) E.LONDON) && negb prev
   then Gas.record_refund (i_gas (set_stk I r)) G.SELFDESTRUCT else Some (i_gas (set_stk I r))) = Some g1 ->
  op_selfdestruct W G F I =
    (set_s G s1,
     with_gas (selfdestruct_price hv te (acc_warm (gdb W G) (gs G) (addr_of_word t))) (set_gas (set_stk I r) g1)
       (fun I1 => SEnd R_SelfDestruct [] I1)) /\
  warms_addr (gdb W G) (gs G) s1 (addr_of_word t).
Proof.
  intros HB HF HS HL HG. destruct (selfdestruct_cold_iff _ _ _ _ _ _ _ _ _ HL) as (C1 & C2). split; [|exact C2].
  unfold op_selfdestruct. rewrite HF, HS, HL. cbv zeta. rewrite HG, (selfdestruct_cost_price _ _ _ _ HB), C1, Bool.negb_involutive.
  reflexivity.
Qed.

(* CALL / CALLCODE / DELEGATECALL / STATICCALL: the callee and, for a delegating callee, the
   delegation target *)
Definition deleg_target (d : db) (s : jstate) (a : Z) : option Z :=
  match st (fst (load_account d s a)) a with Some acc => db_delegate d (a_code acc) | None => None end.
Lemma load_delegated_cold_iff d s a s2 cold empty dcold :
  load_account_delegated d s a = (s2, cold, empty, dcold) ->
  let s1 := fst (load_account d s a) in
  cold = negb (acc_warm d s a) /\
  match deleg_target d s a with
  | Some t => dcold = Some (negb (acc_warm d s1 t)) /\ s2 = fst (load_account d s1 t) /\ warms_addr d s1 s2 t
  | None => dcold = None /\ s2 = s1
  end /\
  warms_addr d s s1 a.
Proof.
  intros HL s1. destruct (load_cold_iff d s a) as (C1 & C2 & C3 & C4).
  unfold load_account_delegated, load_code, deleg_target in *. subst s1.
  destruct (load_account d s a) as [s1 c1]. cbn [fst snd] in *.
  split; [|split; [|split; [exact C2|split; assumption]]].
  - destruct (st s1 a) as [acc|]; [destruct (db_delegate d (a_code acc)) as [t|]; [destruct (load_account d s1 t)|]|];
      injection HL as _ <- _ _; exact C1.
  - destruct (st s1 a) as [acc|]; [|injection HL as <- _ _ <-; split; reflexivity].
    destruct (db_delegate d (a_code acc)) as [t|]; [|injection HL as <- _ _ <-; split; reflexivity].
    destruct (load_cold_iff d s1 t) as (D1 & D2 & D3 & D4).
    destruct (load_account d s1 t) as [s2' dc]. cbn [fst snd] in *. injection HL as <- _ _ <-.
    split; [rewrite D1; reflexivity|]. split; [reflexivity|]. split; [exact D2|split; assumption].
Qed.

(* calc_call_gas ... InterpreterAction::Call, after the access charge *)
Definition call_request (W : world) (F : fctx) (c : callpre) (I1 : istate) : sres :=
  let sch := cp_scheme c in let to := cp_to c in let value := cp_value c in
  let has_transfer := negb (value =? 0) in
  let gl := if en (w_spec W) E.TANGERINE
            then Z.min (Gas.remaining_63_of_64_parts (i_gas I1)) (cp_local c) else cp_local c in
  with_gas gl I1 (fun I2 =>
    let gl := if has_transfer then sat64 (gl + G.CALL_STIPEND) else gl in
    let input := cp_input c in let oo := cp_ret_off c in let ol := cp_ret_len c in
    let q :=
      match sch with
      | SchCall => mkCall sch gl to (f_target F) to value true (f_static F) input oo ol
      | SchCallCode => mkCall sch gl (f_target F) (f_target F) to value true (f_static F) input oo ol
      | SchDelegateCall => mkCall sch gl (f_target F) (f_caller F) to (f_value F) false (f_static F) input oo ol
      | SchStaticCall => mkCall sch gl to (f_target F) to 0 true true input oo ol
      end in
    SCall q I2).

Lemma op_call_post_access W G F c I :
  en (w_spec W) E.BERLIN = true ->
  let d := gdb W G in let to := cp_to c in
  let s1 := ld W G to in
  let s2 := match deleg_target d (gs G) to with Some t => fst (load_account d s1 t) | None => s1 end in
  let dwarm := option_map (acc_warm d s1) (deleg_target d (gs G) to) in
  exists empty,
    op_call_post W G F c I =
      (set_s G s2, with_gas (call_price (wa W G to) dwarm (negb (cp_value c =? 0)) empty) I (call_request W F c)) /\
    warms_addr d (gs G) s1 to /\
    (forall t, deleg_target d (gs G) to = Some t -> warms_addr d s1 s2 t).
Proof.
  intros HB d to s1 s2 dwarm.
  destruct (load_account_delegated d (gs G) to) as [[[s2' cold] empty] dcold] eqn:HL.
  destruct (load_delegated_cold_iff d (gs G) to s2' cold empty dcold HL) as (C1 & C2 & C3).
  exists (match cp_scheme c with SchCall => empty | _ => false end).
  split; [|split; [exact C3|]].
  - unfold op_call_post. fold d to. rewrite HL. cbv zeta. rewrite (call_cost_price _ _ _ _ _ HB), C1, Bool.negb_involutive.
    unfold s2, dwarm, wa. fold d. fold s1 in C2. change (ld W G to) with s1.
    destruct (deleg_target d (gs G) to) as [t|].
    + destruct C2 as (-> & -> & _). cbn [option_map]. rewrite Bool.negb_involutive. reflexivity.
    + destruct C2 as (-> & ->). reflexivity.
  - intros t Ht. unfold s2. fold s1 in C2. rewrite Ht in *. destruct C2 as (_ & -> & C2). exact C2.
Qed.

(* ---------------------------------------------------------------- the dispatch of [step] *)
Lemma gate_defined_from s op f :
  (op =? GateSpec.INVALID) = false -> GateSpec.eof_only op = false ->
  GateSpec.legacy_intro op = Some f -> f <= s ->
  GateSpec.gate s op GateSpec.Legacy = GateSpec.C_DEFINED.
Proof.
  intros H1 H2 H3 H4. unfold GateSpec.gate. rewrite H1, H2, H3. unfold GateSpec.enabled.
  apply Z.leb_le in H4. rewrite H4. reflexivity.
Qed.

Definition access_ops : list Z := [0x31; 0x3b; 0x3c; 0x3f; 0x54; 0x55; 0xf1; 0xf2; 0xf4; 0xfa; 0xff].
Lemma gate_berlin s op :
  en s E.BERLIN = true -> In op access_ops -> GateSpec.gate s op GateSpec.Legacy = GateSpec.C_DEFINED.
Proof.
  unfold en, E.enabled, E.BERLIN. intros Hs Hin. apply Z.leb_le in Hs.
  assert (exists f, (op =? GateSpec.INVALID) = false /\ GateSpec.eof_only op = false /\
                    GateSpec.legacy_intro op = Some f /\ f <= 7) as (f & H1 & H2 & H3 & H4).
  { unfold access_ops in Hin. cbn [In] in Hin.
    repeat (destruct Hin as [<-|Hin]; [eexists; repeat split; try reflexivity; vm_compute; discriminate|]). contradiction. }
  apply (gate_defined_from s op f H1 H2 H3). lia.
Qed.

(* what [step] does for a defined opcode *)
Definition dispatch (W : world) (G : gstate) (F : fctx) (I : istate) (op : Z) : hres :=
  let spec := w_spec W in
  if op =? 0x00 then (G, SEnd R_Stop [] I)
  else if op <=? 0x1d then (G, op_arith W op I)
  else if op =? 0x20 then (G, op_keccak256 I)
  else if op =? 0x30 then (G, op_push_env (f_target F) I)
  else if op =? 0x31 then op_balance W G I
  else if op =? 0x32 then (G, op_push_env (w_caller W) I)
  else if op =? 0x33 then (G, op_push_env (f_caller F) I)
  else if op =? 0x34 then (G, op_push_env (f_value F) I)
  else if op =? 0x35 then (G, op_calldataload F I)
  else if op =? 0x36 then (G, op_push_env (zlen (f_input F)) I)
  else if op =? 0x37 then (G, op_copy (f_input F) I)
  else if op =? 0x38 then (G, op_push_env (zlen (f_code F)) I)
  else if op =? 0x39 then (G, op_copy (f_code F) I)
  else if op =? 0x3a then (G, op_push_env (effective_gas_price W) I)
  else if op =? 0x3b then op_extcodesize W G I
  else if op =? 0x3c then op_extcodecopy W G I
  else if op =? 0x3d then (G, op_push_env (zlen (i_rd I)) I)
  else if op =? 0x3e then (G, op_returndatacopy I)
  else if op =? 0x3f then op_extcodehash W G I
  else if op =? 0x40 then (G, op_blockhash W I)
  else if op =? 0x41 then (G, op_push_env (w_coinbase W) I)
  else if op =? 0x42 then (G, op_push_env (w_timestamp W) I)
  else if op =? 0x43 then (G, op_push_env (w_number W) I)
  else if op =? 0x44 then (G, op_push_env (if en spec E.MERGE then w_prevrandao W else w_difficulty W) I)
  else if op =? 0x45 then (G, op_push_env (E.b_gas_limit (E.e_block (w_env W))) I)
  else if op =? 0x46 then (G, op_push_env (E.c_chain_id (E.e_cfg (w_env W))) I)
  else if op =? 0x47 then op_selfbalance W G F I
  else if op =? 0x48 then (G, op_push_env (E.b_basefee (E.e_block (w_env W))) I)
  else if op =? 0x49 then (G, op_blobhash W I)
  else if op =? 0x4a then (G, op_push_env (match E.b_blob_gasprice (E.e_block (w_env W)) with Some p => p | None => 0 end) I)
  else if op =? 0x50 then (G, op_pop I)
  else if op =? 0x51 then (G, op_mload I)
  else if op =? 0x52 then (G, op_mstore I)
  else if op =? 0x53 then (G, op_mstore8 I)
  else if op =? 0x54 then op_sload W G F I
  else if op =? 0x55 then op_sstore W G F I
  else if op =? 0x56 then (G, op_jump F I)
  else if op =? 0x57 then (G, op_jumpi F I)
  else if op =? 0x58 then (G, op_push_env (i_pc I) I)
  else if op =? 0x59 then (G, op_push_env (M.mlen (i_mem I)) I)
  else if op =? 0x5a then (G, with_gas G.BASE I (fun I1 => push_next (rem I1) I1))
  else if op =? 0x5b then (G, with_gas G.JUMPDEST I next)
  else if op =? 0x5c then op_tload G F I
  else if op =? 0x5d then op_tstore G F I
  else if op =? 0x5e then (G, op_mcopy I)
  else if op =? 0x5f then (G, op_push_env 0 I)
  else if op <=? 0x7f then (G, op_pushn F (op - 0x5f) I)
  else if op <=? 0x8f then (G, op_dup (op - 0x7f) I)
  else if op <=? 0x9f then (G, op_swap (op - 0x8f) I)
  else if op <=? 0xa4 then finish_pre W G F (op_log F (op - 0xa0) I)
  else if op =? 0xf0 then (G, op_create W F false I)
  else if op =? 0xf1 then finish_pre W G F (op_call_pre F SchCall I)
  else if op =? 0xf2 then finish_pre W G F (op_call_pre F SchCallCode I)
  else if op =? 0xf3 then (G, op_return R_Return I)
  else if op =? 0xf4 then finish_pre W G F (op_call_pre F SchDelegateCall I)
  else if op =? 0xf5 then (G, op_create W F true I)
  else if op =? 0xfa then finish_pre W G F (op_call_pre F SchStaticCall I)
  else if op =? 0xfd then (G, op_return R_Revert I)
  else if op =? 0xff then op_selfdestruct W G F I
  else (G, SBad BAD_UNSUPPORTED).

Lemma step_defined W G F I :
  (opcode_at F (i_pc I) =? 0xf5) && f_static F = false ->
  GateSpec.gate (w_spec W) (opcode_at F (i_pc I)) GateSpec.Legacy = GateSpec.C_DEFINED ->
  step W G F I = dispatch W G F I (opcode_at F (i_pc I)).
Proof. intros H1 H2. unfold step. cbv zeta. rewrite H1, H2. reflexivity. Qed.

Definition scheme_of_op (op : Z) : scheme :=
  if op =? 0xf1 then SchCall else if op =? 0xf2 then SchCallCode else if op =? 0xf4 then SchDelegateCall else SchStaticCall.

(* from BERLIN on, at an access-causing opcode, [step] is the instruction function *)
Lemma step_access_dispatch W G F I :
  en (w_spec W) E.BERLIN = true ->
  let op := opcode_at F (i_pc I) in
  (op = 0x31 -> step W G F I = op_balance W G I) /\
  (op = 0x3b -> step W G F I = op_extcodesize W G I) /\
  (op = 0x3c -> step W G F I = op_extcodecopy W G I) /\
  (op = 0x3f -> step W G F I = op_extcodehash W G I) /\
  (op = 0x54 -> step W G F I = op_sload W G F I) /\
  (op = 0x55 -> step W G F I = op_sstore W G F I) /\
  (op = 0xff -> step W G F I = op_selfdestruct W G F I) /\
  (In op [0xf1; 0xf2; 0xf4; 0xfa] -> step W G F I = finish_pre W G F (op_call_pre F (scheme_of_op op) I)).
Proof.
  intros HB op.
  assert (D : forall o, In o access_ops -> op = o -> step W G F I = dispatch W G F I o).
  { intros o Hin <-. apply step_defined; [|apply gate_berlin; assumption]. fold op.
    unfold access_ops in Hin. cbn [In] in Hin.
    repeat (destruct Hin as [<-|Hin]; [reflexivity|]). contradiction. }
  assert (M : forall o, In o access_ops <-> (o = 0x31 \/ o = 0x3b \/ o = 0x3c \/ o = 0x3f \/ o = 0x54 \/ o = 0x55 \/ o = 0xff \/
                                             In o [0xf1; 0xf2; 0xf4; 0xfa])).
  { intros o. unfold access_ops. cbn [In]. intuition congruence. }
  repeat split; intros E.
  - apply (D 0x31); [apply M; tauto|exact E].
  - apply (D 0x3b); [apply M; tauto|exact E].
  - apply (D 0x3c); [apply M; tauto|exact E].
  - apply (D 0x3f); [apply M; tauto|exact E].
  - apply (D 0x54); [apply M; tauto|exact E].
  - apply (D 0x55); [apply M; tauto|exact E].
  - apply (D 0xff); [apply M; tauto|exact E].
  - rewrite (D op (proj2 (M op) ltac:(tauto)) eq_refl).
    cbn [In] in E. repeat (destruct E as [<-|E]; [reflexivity|]). contradiction.
Qed.

(* the call instructions load the address in the second stack word *)
Lemma op_call_pre_target F sch I c I' :
  op_call_pre F sch I = PCall c I' ->
  exists lg to r, i_stk I = lg :: to :: r /\ cp_to c = addr_of_word to /\ cp_scheme c = sch.
Proof.
  unfold op_call_pre. destruct (i_stk I) as [|lg [|to r]]; try discriminate.
  intros H. exists lg, to, r. split; [reflexivity|]. revert H.
  destruct (if match sch with SchCall | SchCallCode => true | _ => false end
            then match r with v :: r' => Some (v, r') | [] => None end else Some (0, r)) as [[value r1]|]; [|discriminate].
  cbv zeta. destruct (value <? 0); [discriminate|].
  destruct (match sch with SchCall => f_static F && negb (value =? 0) | _ => false end); [discriminate|].
  cbn [i_stk set_stk]. destruct r1 as [|io [|il [|oo [|ol r2]]]]; try discriminate.
  destruct (call_mem _ io il) as [e|[[I2 io'] il']]; [discriminate|].
  destruct (if il' =? 0 then Some [] else M.slice (i_mem I2) io' il'); [|discriminate].
  destruct (call_mem I2 oo ol) as [e|[[I3 oo'] ol']]; [discriminate|].
  intros [= <- _]. split; reflexivity.
Qed.

(* ================================================================= 2. frames *)

(* ---------------------------------------------------------------- the journaled-state operation of one instruction *)
Definition hops_top (I : istate) : list hop :=
  match i_stk I with a :: _ => [HLoad (addr_of_word a)] | [] => [] end.
Definition hops_top4 (I : istate) : list hop :=
  match i_stk I with a :: _ :: _ :: _ :: _ => [HLoad (addr_of_word a)] | _ => [] end.
Definition hops_selfbalance (F : fctx) (I : istate) : list hop :=
  if snd (Gas.record_cost (i_gas I) G.LOW) then [HLoad (f_target F)] else [].
Definition hops_sload (W : world) (G : gstate) (F : fctx) (I : istate) : list hop :=
  match i_stk I with
  | k :: _ => match sload (gdb W G) (gs G) (f_target F) k with Some _ => [HSload (f_target F) k] | None => [] end
  | [] => []
  end.
Definition hops_sstore (W : world) (G : gstate) (F : fctx) (I : istate) : list hop :=
  if f_static F then [] else
  match i_stk I with
  | k :: v :: _ => match sstore (gdb W G) (gs G) (f_target F) k v with Some _ => [HSstore (f_target F) k v] | None => [] end
  | _ => []
  end.
Definition hops_tstore (F : fctx) (I : istate) : list hop :=
  if f_static F then [] else
  if snd (Gas.record_cost (i_gas I) G.WARM_STORAGE_READ_COST)
  then match i_stk I with k :: v :: _ => [HTstore (f_target F) k v] | _ => [] end
  else [].
Definition hops_pre (G : gstate) (p : pre) : list hop :=
  match p with PDone _ => [] | PLog _ _ => [HLog (g_nlog G)] | PCall c _ => [HLoadDelegated (cp_to c)] end.
Definition hops_selfdestruct (W : world) (G : gstate) (F : fctx) (I : istate) : list hop :=
  if f_static F then [] else
  match i_stk I with
  | t :: r =>
      match selfdestruct (gdb W G) (gs G) (f_target F) (addr_of_word t) with
      | Some (_, _, _, prev, _) =>
          match (if negb (en (w_spec W) E.LONDON) && negb prev
                 then Gas.record_refund (i_gas (set_stk I r)) G.SELFDESTRUCT else Some (i_gas (set_stk I r))) with
          | Some _ => [HSelfdestruct (f_target F) (addr_of_word t)]
          | None => []
          end
      | None => []
      end
  | [] => []
  end.

Definition op_hops (W : world) (G : gstate) (F : fctx) (I : istate) (op : Z) : list hop :=
  if (op =? 0x31) || (op =? 0x3b) || (op =? 0x3f) then hops_top I
  else if op =? 0x3c then hops_top4 I
  else if op =? 0x47 then hops_selfbalance F I
  else if op =? 0x54 then hops_sload W G F I
  else if op =? 0x55 then hops_sstore W G F I
  else if op =? 0x5d then hops_tstore F I
  else if (0xa0 <=? op) && (op <=? 0xa4) then hops_pre G (op_log F (op - 0xa0) I)
  else if op =? 0xf1 then hops_pre G (op_call_pre F SchCall I)
  else if op =? 0xf2 then hops_pre G (op_call_pre F SchCallCode I)
  else if op =? 0xf4 then hops_pre G (op_call_pre F SchDelegateCall I)
  else if op =? 0xfa then hops_pre G (op_call_pre F SchStaticCall I)
  else if op =? 0xff then hops_selfdestruct W G F I
  else [].

Definition step_hops (W : world) (G : gstate) (F : fctx) (I : istate) : list hop :=
  let op := opcode_at F (i_pc I) in
  if (op =? 0xf5) && f_static F then []
  else if GateSpec.gate (w_spec W) op GateSpec.Legacy =? GateSpec.C_DEFINED then op_hops W G F I op
  else [].

(* G' is reached from G by running exactly the history h (inside the C06 contract by its shape,
   closing the checkpoints it opens) *)
Definition ghist (W : world) (G G' : gstate) (h : list hop) : Prop :=
  g_codes G' = g_codes G /\ Forall okhop h /\ wbh 0 h = Some 0%nat /\
  run_hops (gdb W G) (g_sc G) h = Some (g_sc G').

Lemma ghist_nil W G : ghist W G G [].
Proof. split; [reflexivity|]. split; [constructor|]. split; reflexivity. Qed.
Lemma ghist_app W G1 G2 G3 h1 h2 : ghist W G1 G2 h1 -> ghist W G2 G3 h2 -> ghist W G1 G3 (h1 ++ h2).
Proof.
  intros (A1 & B1 & C1 & D1) (A2 & B2 & C2 & D2). split; [congruence|]. split; [apply Forall_app; auto|]. split.
  - rewrite (wbh_app h1 0 0 h2 C1). exact C2.
  - rewrite FramesProofs.run_hops_app, D1. unfold gdb in *. rewrite A1 in D2. exact D2.
Qed.
Lemma ghist_one W G s o :
  okhop o -> wbh 0 [o] = Some 0%nat ->
  run_hop (gdb W G) (gs G, snd (g_sc G)) o = Some (s, snd (g_sc G)) -> ghist W G (set_s G s) [o].
Proof.
  intros A B C. split; [reflexivity|]. split; [repeat constructor; exact A|]. split; [exact B|].
  cbn [set_s g_sc run_hops]. unfold gs in C. destruct (g_sc G). cbn [fst snd] in *. rewrite C. reflexivity.
Qed.
Lemma ghist_seg W G G' h : ghist W G G' h -> gseg W G G'.
Proof. intros (A & B & C & D). split; [exact A|]. exists h. auto. Qed.

Lemma hist_load W G x : ghist W G (set_s G (fst (load_account (gdb W G) (gs G) x))) [HLoad x].
Proof. apply ghist_one; [exact Logic.I|reflexivity|reflexivity]. Qed.

Lemma hist_balance W G I : ghist W G (fst (op_balance W G I)) (hops_top I).
Proof.
  unfold op_balance, hops_top. destruct (i_stk I); [apply ghist_nil|]. cbv zeta.
  pose proof (hist_load W G (addr_of_word z)) as HH. destruct (load_account _ _ _) as [s1 c]. exact HH.
Qed.
Lemma hist_extcodesize W G I : ghist W G (fst (op_extcodesize W G I)) (hops_top I).
Proof.
  unfold op_extcodesize, host_code, load_code, hops_top. destruct (i_stk I); [apply ghist_nil|]. cbv zeta.
  pose proof (hist_load W G (addr_of_word z)) as HH. destruct (load_account _ _ _) as [s1 c].
  destruct (code_bytes _ _); exact HH.
Qed.
Lemma hist_extcodehash W G I : ghist W G (fst (op_extcodehash W G I)) (hops_top I).
Proof.
  unfold op_extcodehash, load_code, hops_top. destruct (i_stk I); [apply ghist_nil|]. cbv zeta.
  pose proof (hist_load W G (addr_of_word z)) as HH. destruct (load_account _ _ _) as [s1 c]. exact HH.
Qed.
Lemma hist_extcodecopy W G I : ghist W G (fst (op_extcodecopy W G I)) (hops_top4 I).
Proof.
  unfold op_extcodecopy, host_code, load_code, hops_top4. destruct (i_stk I) as [|a [|b [|c [|dd r]]]]; try apply ghist_nil. cbv zeta.
  pose proof (hist_load W G (addr_of_word a)) as HH. destruct (load_account _ _ _) as [s1 cc].
  destruct (code_bytes _ _); exact HH.
Qed.
Lemma hist_selfbalance W G F I : ghist W G (fst (op_selfbalance W G F I)) (hops_selfbalance F I).
Proof.
  unfold op_selfbalance, hops_selfbalance. destruct (Gas.record_cost _ _) as [g' ok]. cbn [snd]. destruct ok; [|apply ghist_nil].
  pose proof (hist_load W G (f_target F)) as HH. destruct (load_account _ _ _) as [s1 c]. exact HH.
Qed.
Lemma hist_sload W G F I : ghist W G (fst (op_sload W G F I)) (hops_sload W G F I).
Proof.
  unfold op_sload, hops_sload. destruct (i_stk I); [apply ghist_nil|].
  destruct (sload _ _ _ _) as [[[s1 v] c]|] eqn:E; [|apply ghist_nil].
  apply ghist_one; [exact Logic.I|reflexivity|]. cbn [run_hop]. rewrite E. reflexivity.
Qed.
Lemma hist_sstore W G F I : ghist W G (fst (op_sstore W G F I)) (hops_sstore W G F I).
Proof.
  unfold op_sstore, hops_sstore. destruct (f_static F); [apply ghist_nil|]. destruct (i_stk I) as [|k [|v r]]; try apply ghist_nil.
  destruct (sstore _ _ _ _ _) as [[[[s1 o] p] c]|] eqn:E; [|apply ghist_nil].
  apply ghist_one; [exact Logic.I|reflexivity|]. cbn [run_hop]. rewrite E. reflexivity.
Qed.
Lemma hist_tstore G W F I : ghist W G (fst (op_tstore G F I)) (hops_tstore F I).
Proof.
  unfold op_tstore, hops_tstore. destruct (f_static F); [apply ghist_nil|]. destruct (Gas.record_cost _ _) as [g' ok]. cbn [snd].
  destruct ok; cbn [negb]; [|apply ghist_nil]. cbn [set_gas i_stk]. destruct (i_stk I) as [|k [|v r]]; try apply ghist_nil.
  apply ghist_one; [exact Logic.I|reflexivity|reflexivity].
Qed.
Lemma hist_pre W G F p : ghist W G (fst (finish_pre W G F p)) (hops_pre G p).
Proof.
  destruct p as [r|l I'|c I']; cbn [finish_pre hops_pre fst]; [apply ghist_nil| |].
  - unfold do_log. split; [reflexivity|]. split; [repeat constructor|]. split; [reflexivity|].
    cbn [set_s g_sc fst snd run_hops run_hop]. unfold gs. destruct (g_sc G). reflexivity.
  - unfold op_call_post. destruct (load_account_delegated _ _ _) as [[[s1 x] y] z] eqn:E. cbn [fst].
    apply ghist_one; [exact Logic.I|reflexivity|]. cbn [run_hop]. rewrite E. reflexivity.
Qed.
Lemma hist_selfdestruct W G F I : ghist W G (fst (op_selfdestruct W G F I)) (hops_selfdestruct W G F I).
Proof.
  unfold op_selfdestruct, hops_selfdestruct. destruct (f_static F); [apply ghist_nil|]. destruct (i_stk I) as [|t r]; [apply ghist_nil|].
  cbv zeta. destruct (selfdestruct _ _ _ _) as [[[[[s1 a] b] c] dd]|] eqn:E; [|apply ghist_nil].
  match goal with |- context [match ?o with Some _ => _ | None => _ end] => destruct o end; [|apply ghist_nil].
  apply ghist_one; [exact Logic.I|reflexivity|]. cbn [run_hop]. rewrite E. reflexivity.
Qed.

Definition special_ops : list Z :=
  [0x31; 0x3b; 0x3f; 0x3c; 0x47; 0x54; 0x55; 0x5d; 0xa0; 0xa1; 0xa2; 0xa3; 0xa4; 0xf1; 0xf2; 0xf4; 0xfa; 0xff].

Lemma dispatch_other W G F I op : ~ In op special_ops -> fst (dispatch W G F I op) = G /\ op_hops W G F I op = [].
Proof.
  intros N. unfold special_ops in N. cbn [In] in N.
  assert (NL : ~ (0xa0 <= op <= 0xa4)).
  { intros HH. apply N. assert (HO : op = 0xa0 \/ op = 0xa1 \/ op = 0xa2 \/ op = 0xa3 \/ op = 0xa4) by (clear N; lia).
    clear HH. intuition (subst; tauto). }
  assert (D : op <> 0x31 /\ op <> 0x3b /\ op <> 0x3f /\ op <> 0x3c /\ op <> 0x47 /\ op <> 0x54 /\ op <> 0x55 /\ op <> 0x5d /\
              op <> 0xf1 /\ op <> 0xf2 /\ op <> 0xf4 /\ op <> 0xfa /\ op <> 0xff) by (repeat split; intros ->; apply N; tauto).
  clear N. split.
  - unfold dispatch. cbv zeta.
    repeat match goal with
    | |- context [if ?a =? ?b then _ else _] => destruct (Z.eqb_spec a b); [first [exfalso; tauto | reflexivity]|]
    | |- context [if ?a <=? ?b then _ else _] => destruct (Z.leb_spec a b); [first [reflexivity | exfalso; clear D; lia]|]
    end. reflexivity.
  - unfold op_hops.
    repeat match goal with
    | |- context [?a =? ?b] => destruct (Z.eqb_spec a b); [exfalso; tauto|]
    end. cbn [orb].
    destruct (Z.leb_spec 0xa0 op); destruct (Z.leb_spec op 0xa4); cbn [andb]; try reflexivity. exfalso; clear D; lia.
Qed.

Lemma dispatch_hist W G F I op : ghist W G (fst (dispatch W G F I op)) (op_hops W G F I op).
Proof.
  destruct (in_dec Z.eq_dec op special_ops) as [Hin|Hn].
  - unfold special_ops in Hin. cbn [In] in Hin.
    destruct Hin as [<-|Hin]; [exact (hist_balance W G I)|].
    destruct Hin as [<-|Hin]; [exact (hist_extcodesize W G I)|].
    destruct Hin as [<-|Hin]; [exact (hist_extcodehash W G I)|].
    destruct Hin as [<-|Hin]; [exact (hist_extcodecopy W G I)|].
    destruct Hin as [<-|Hin]; [exact (hist_selfbalance W G F I)|].
    destruct Hin as [<-|Hin]; [exact (hist_sload W G F I)|].
    destruct Hin as [<-|Hin]; [exact (hist_sstore W G F I)|].
    destruct Hin as [<-|Hin]; [exact (hist_tstore G W F I)|].
    destruct Hin as [<-|Hin]; [exact (hist_pre W G F (op_log F 0 I))|].
    destruct Hin as [<-|Hin]; [exact (hist_pre W G F (op_log F 1 I))|].
    destruct Hin as [<-|Hin]; [exact (hist_pre W G F (op_log F 2 I))|].
    destruct Hin as [<-|Hin]; [exact (hist_pre W G F (op_log F 3 I))|].
    destruct Hin as [<-|Hin]; [exact (hist_pre W G F (op_log F 4 I))|].
    destruct Hin as [<-|Hin]; [exact (hist_pre W G F (op_call_pre F SchCall I))|].
    destruct Hin as [<-|Hin]; [exact (hist_pre W G F (op_call_pre F SchCallCode I))|].
    destruct Hin as [<-|Hin]; [exact (hist_pre W G F (op_call_pre F SchDelegateCall I))|].
    destruct Hin as [<-|Hin]; [exact (hist_pre W G F (op_call_pre F SchStaticCall I))|].
    destruct Hin as [<-|Hin]; [exact (hist_selfdestruct W G F I)|]. contradiction.
  - destruct (dispatch_other W G F I op Hn) as [-> ->]. apply ghist_nil.
Qed.

(* every instruction: the state after it is the state before it plus [step_hops] *)
Theorem step_hist W G F I : ghist W G (fst (step W G F I)) (step_hops W G F I).
Proof.
  unfold step_hops. cbv zeta.
  destruct ((opcode_at F (i_pc I) =? 0xf5) && f_static F) eqn:E1.
  - unfold step. cbv zeta. rewrite E1. apply ghist_nil.
  - destruct (GateSpec.gate (w_spec W) (opcode_at F (i_pc I)) GateSpec.Legacy =? GateSpec.C_DEFINED) eqn:E2.
    + apply Z.eqb_eq in E2. rewrite (step_defined W G F I E1 E2). apply dispatch_hist.
    + unfold step. cbv zeta. rewrite E1, E2. cbn [negb].
      repeat match goal with |- context [if ?b then _ else _] => destruct b end; apply ghist_nil.
Qed.

(* ---------------------------------------------------------------- the create-free interpreter with its history *)
Definition hres_t := xres (gstate * iresult * list hop).
Definition rech_t := gstate -> fctx -> istate -> hres_t.
Definition xerase (x : hres_t) : xres (gstate * iresult) :=
  match x with XDone (G, r, _) => XDone (G, r) | XOutOfFuel => XOutOfFuel | XBad k => XBad k end.
Definition xpre (h : list hop) (x : hres_t) : hres_t :=
  match x with XDone (G, r, h') => XDone (G, r, h ++ h') | XOutOfFuel => XOutOfFuel | XBad k => XBad k end.
Definition call_close (r : iresult) : hop := if is_ok (ir_res r) then HCommit else HRevert.

(* do_call with the history: make_call_frame's operations (Proofs/FramesProofs.v hops_of_call),
   the child's, and the commit / revert of call_return *)
Definition do_call_h (W : world) (rec : rech_t) (G : gstate) (c : callreq) : hres_t :=
  let ci := call_inputs_of W c in
  let h0 := FramesProofs.hops_of_call (gdb W G) (gs G) ci in
  match Fr.make_call_frame (gdb W G) (g_sc G) ci with
  | Some (sc1, Fr.FFrame _) =>
      let G1 := set_sc G sc1 in
      match code_of_account G1 (fst sc1) (cq_bytecode c) with
      | None => XBad BAD_PANIC
      | Some code =>
          let F := mk_fctx code (cq_input c) (cq_target c) (cq_caller c) (cq_value c) (cq_static c) in
          match rec G1 F (istate_new (cq_gas_limit c)) with
          | XDone (G2, r, hc) =>
              match Fr.call_return (g_sc G2) (is_ok (ir_res r)) with
              | Some sc3 => XDone (set_sc G2 sc3, r, h0 ++ hc ++ [call_close r])
              | None => XBad BAD_PANIC
              end
          | XOutOfFuel => XOutOfFuel
          | XBad k => XBad k
          end
      end
  | _ =>
      match do_call W (fun _ _ _ => XBad BAD_PANIC) G c with
      | XDone (G', r) => XDone (G', r, h0)
      | XOutOfFuel => XOutOfFuel
      | XBad k => XBad k
      end
  end.

Fixpoint exec_nc_h (fuel : nat) (W : world) (G : gstate) (F : fctx) (I : istate) {struct fuel} : hres_t :=
  match fuel with
  | O => XOutOfFuel
  | S f =>
      let h0 := step_hops W G F I in
      match step W G F I with
      | (G1, SNext I1) => xpre h0 (exec_nc_h f W G1 F I1)
      | (G1, SEnd r out I1) => XDone (G1, mkIR r out (i_gas I1), h0)
      | (G1, SCall c I1) =>
          match do_call_h W (exec_nc_h f W) G1 c with
          | XDone (G2, r, hc) =>
              match insert_call_outcome I1 c r with
              | Some I2 => xpre (h0 ++ hc) (exec_nc_h f W G2 F I2)
              | None => XBad BAD_PANIC
              end
          | XOutOfFuel => XOutOfFuel
          | XBad k => XBad k
          end
      | (G1, SCreate c I1) => XBad BAD_CREATE
      | (G1, SBad k) => XBad k
      end
  end.

(* erasing the history gives the create-free interpreter (hence, by exec_nc_sound, the interpreter) *)
Lemma do_call_h_erase W rech rec G c :
  (forall G F I, xerase (rech G F I) = rec G F I) -> xerase (do_call_h W rech G c) = do_call W rec G c.
Proof.
  intros HR. unfold do_call_h, do_call. cbv zeta.
  change (Fr.mkCI (cq_caller c) (cq_target c) (cq_bytecode c)
            (if cq_transfers c then Fr.Transfer (cq_value c) else Fr.Apparent (cq_value c)) false _ false)
    with (call_inputs_of W c).
  destruct (Fr.make_call_frame (gdb W G) (g_sc G) (call_inputs_of W c)) as [[sc1 [r|cp]]|]; cbn [xerase].
  - destruct r; try reflexivity. destruct (match (if is_precompile W (cq_bytecode c) then _ else None) with Some (Some o) => _ | _ => None end); reflexivity.
  - destruct (code_of_account _ _ _); [|reflexivity]. rewrite <- HR.
    match goal with |- context [rech ?g ?f ?i] => destruct (rech g f i) as [[[G2 r2] hc]| |k] end; cbn [xerase]; try reflexivity.
    destruct (Fr.call_return _ _); reflexivity.
  - reflexivity.
Qed.
Lemma xerase_xpre h x : xerase (xpre h x) = xerase x.
Proof. destruct x as [[[G r] h']| |k]; reflexivity. Qed.
Theorem exec_nc_h_erase W : forall f G F I, xerase (exec_nc_h f W G F I) = exec_nc f W G F I.
Proof.
  induction f as [|f IH]; intros G F I; [reflexivity|].
  cbn [exec_nc_h exec_nc]. cbv zeta. destruct (step W G F I) as [G1 [I1|r out I1|c I1|c I1|k]]; try reflexivity.
  - rewrite xerase_xpre. apply IH.
  - rewrite <- (do_call_h_erase W (exec_nc_h f W) (exec_nc f W) G1 c IH).
    destruct (do_call_h W (exec_nc_h f W) G1 c) as [[[G2 r2] hc]| |k]; cbn [xerase]; try reflexivity.
    destruct (insert_call_outcome I1 c r2); [|reflexivity]. rewrite xerase_xpre. apply IH.
Qed.
Corollary exec_nc_has_history W f G F I G' r :
  exec_nc f W G F I = XDone (G', r) -> exists h, exec_nc_h f W G F I = XDone (G', r, h).
Proof.
  intros E. rewrite <- exec_nc_h_erase in E. destruct (exec_nc_h f W G F I) as [[[G2 r2] h]| |k]; try discriminate.
  injection E as <- <-. eauto.
Qed.

(* the history is one: it replays *)
Definition rech_hist (W : world) (rec : rech_t) : Prop :=
  forall G F I G' r h, rec G F I = XDone (G', r, h) -> ghist W G G' h.

Lemma do_call_hist W rec G c G' r h :
  rech_hist W rec -> (cq_transfers c = true -> 0 <= cq_value c) ->
  do_call_h W rec G c = XDone (G', r, h) -> ghist W G G' h.
Proof.
  intros HR HV. unfold do_call_h. cbv zeta. set (ci := call_inputs_of W c).
  unfold gs. destruct (g_sc G) as [s cps] eqn:EG. cbn [fst].
  assert (VO : value_ok ci) by (unfold value_ok, ci, call_inputs_of; cbn [Fr.ci_value]; destruct (cq_transfers c); [apply HV; reflexivity|exact Logic.I]).
  destruct (Fr.make_call_frame (gdb W G) (s, cps) ci) as [[sc1 fr]|] eqn:EM.
  - pose proof (FramesProofs.call_as_hops _ _ _ _ _ _ EM) as RH.
    destruct (call_hops_shape _ _ _ _ _ _ EM VO) as [OK WB].
    destruct fr as [fr|cp].
    + unfold do_call. cbv zeta. change (Fr.mkCI (cq_caller c) (cq_target c) (cq_bytecode c)
            (if cq_transfers c then Fr.Transfer (cq_value c) else Fr.Apparent (cq_value c)) false _ false) with ci. rewrite EG, EM.
      assert (S1 : ghist W G (set_sc G sc1) (FramesProofs.hops_of_call (gdb W G) s ci)).
      { split; [reflexivity|]. split; [exact OK|]. split; [exact WB|]. rewrite EG. exact RH. }
      destruct fr; try discriminate; try (intros E; injection E as <- _ <-; exact S1).
      match goal with |- match match ?p with Some _ => _ | None => _ end with _ => _ end = _ -> _ => destruct p end; [|discriminate].
      intros E; injection E as <- _ <-; exact S1.
    + destruct (code_of_account _ _ _); [|discriminate].
      match goal with |- context [rec ?g ?f ?i] => destruct (rec g f i) as [[[G2 r2] hc]| |k] eqn:ER end; try discriminate.
      apply HR in ER. destruct ER as (C2 & OKc & WBc & RHc). cbn [set_sc g_sc g_codes] in C2, RHc.
      destruct (Fr.call_return (g_sc G2) (is_ok (ir_res r2))) as [sc3|] eqn:ECR; [|discriminate].
      intros E; injection E as <- <- <-. split; [exact C2|]. cbn [set_sc g_sc]. rewrite EG.
      split; [apply Forall_app; split; [exact OK|]; apply Forall_app; split; [exact OKc|]; constructor; [unfold call_close; destruct (is_ok _); exact Logic.I|constructor]|].
      split.
      * rewrite (wbh_app _ 0 1 _ WB). rewrite (wbh_app hc 1 1 _ (wbh_shift hc 0 0 1 WBc)). unfold call_close. destruct (is_ok _); reflexivity.
      * rewrite FramesProofs.run_hops_app, RH. unfold gdb in *. cbn [set_sc g_codes] in RHc. rewrite FramesProofs.run_hops_app, RHc.
        cbn [run_hops]. unfold Fr.call_return in ECR. destruct (g_sc G2) as [s2 cps2]. unfold call_close. cbn [run_hop].
        destruct cps2 as [|cp2 r2']; [discriminate|]. destruct (is_ok (ir_res r2)).
        -- injection ECR as <-. reflexivity.
        -- destruct (checkpoint_revert s2 cp2); [|discriminate]. injection ECR as <-. reflexivity.
  - unfold do_call. cbv zeta. change (Fr.mkCI (cq_caller c) (cq_target c) (cq_bytecode c)
            (if cq_transfers c then Fr.Transfer (cq_value c) else Fr.Apparent (cq_value c)) false _ false) with ci. rewrite EG, EM. discriminate.
Qed.

Theorem exec_nc_hist W : forall f, rech_hist W (exec_nc_h f W).
Proof.
  induction f as [|f IH]; intros G F I G' r h E; [discriminate|].
  cbn [exec_nc_h] in E. cbv zeta in E. pose proof (step_hist W G F I) as SG.
  destruct (step W G F I) as [G1 [I1|r1 out I1|c I1|c I1|k]] eqn:ES; cbn [fst] in SG; try discriminate.
  - destruct (exec_nc_h f W G1 F I1) as [[[G2 r2] h2]| |k] eqn:E2; try discriminate. cbn [xpre] in E. injection E as <- <- <-.
    eapply ghist_app; [exact SG|]. eapply IH; eassumption.
  - injection E as <- _ <-. exact SG.
  - destruct (do_call_h W (exec_nc_h f W) G1 c) as [[[G2 r2] hc]| |k] eqn:EC; try discriminate.
    apply (do_call_hist W _ _ _ _ _ _ IH (step_call_value _ _ _ _ _ _ _ ES)) in EC.
    destruct (insert_call_outcome I1 c r2); [|discriminate].
    destruct (exec_nc_h f W G2 F _) as [[[G3 r3] h3]| |k] eqn:E3; try discriminate. cbn [xpre] in E. injection E as <- <- <-.
    rewrite <- app_assoc. eapply ghist_app; [exact SG|]. eapply ghist_app; [exact EC|]. eapply IH; eassumption.
Qed.

(* ---------------------------------------------------------------- the answers against the accessed-set specification *)
Import AccessSpec.

(* companion of AccessRefine3.access_refinement: the sets of the specification describe the
   final state as well *)
Lemma refinement_final d h : forall s cps w stk s' cps',
  AccessRefine3.GI d s cps w stk -> HostMain.contract d (s, cps) h -> run_hops d (s, cps) h = Some (s', cps') ->
  AccessRefine3.GI d s' cps'
    (fst (fst (spec_run (w, stk) h (AccessRefine3.model_anns d (s, cps) h))))
    (snd (fst (spec_run (w, stk) h (AccessRefine3.model_anns d (s, cps) h)))).
Proof.
  induction h as [|o r IH]; intros s cps w stk s' cps' HG C Run;
    cbn [spec_run AccessRefine3.model_anns run_hops HostMain.contract fst] in *.
  - injection Run as <- <-. exact HG.
  - destruct C as [Hok C]. cbn [fst] in Hok.
    destruct (run_hop d (s, cps) o) as [[s1 cps1]|] eqn:E; [|discriminate].
    pose proof (AccessRefine3.GI_step d s cps w stk o s1 cps1 HG Hok E) as St.
    destruct (spec_step (w, stk) o (AccessRefine3.hop_ann d s o)) as [[w1 stk1] ans]. destruct St as [G1 A1].
    specialize (IH s1 cps1 w1 stk1 s' cps' G1 C Run).
    destruct (spec_run (w1, stk1) r (AccessRefine3.model_anns d (s1, cps1) r)) as [ws2 ar]. cbn [fst snd] in *. exact IH.
Qed.

(* the frame's history, run from the frame's own base *)
Lemma ghist_own_base W G G' h :
  ghist W G G' h -> run_hops (gdb W G) (gs G, []) h = Some (gs G', []) /\ snd (g_sc G') = snd (g_sc G).
Proof.
  intros (C & OK & WB & RH). unfold gs. destruct (g_sc G) as [s cps]. destruct (g_sc G') as [s' cps']. cbn [fst snd] in *.
  destruct (run_hops_base (gdb W G) cps h s [] s' cps' 0%nat WB RH) as (cps1 & E1 & L1 & RUN0).
  destruct cps1; [|discriminate]. cbn [app] in E1. subst cps'. split; [exact RUN0|reflexivity].
Qed.

(* FRAME LEVEL.  For a create-free frame run with its history h: h replays on the journaled
   state from the frame's own base; every is_cold answer obtained along h (model_trace: the
   answers of load_account / load_account_delegated / sload / sstore / selfdestruct, which by
   part 1 are what the instructions were charged by) is the answer of the accessed-set
   specification started from sets w that describe the warm status at the frame's start; the
   specification's final sets describe the warm status at the frame's end. *)
Theorem frame_answers_refine W f G F I G' r h w :
  exec_nc_h f W G F I = XDone (G', r, h) ->
  HostOps.WF (gdb W G) (gs G) -> AccessRefine.R (gdb W G) (gs G) w ->
  let d := gdb W G in
  let sp := spec_run (w, []) h (AccessRefine3.model_anns d (gs G, []) h) in
  run_hops d (gs G, []) h = Some (gs G', []) /\
  snd sp = AccessRefine3.model_trace d (gs G, []) h /\
  AccessRefine.R d (gs G') (fst (fst sp)) /\ snd (fst sp) = [] /\ HostOps.WF d (gs G').
Proof.
  intros E WFs Rw d sp. pose proof (exec_nc_hist W f G F I G' r h E) as GH.
  destruct (ghist_own_base W G G' h GH) as [RUN _]. destruct GH as (_ & OK & _ & _).
  assert (HG : AccessRefine3.GI d (gs G) [] w []) by (split; [exact WFs|]; split; [exact Rw|exact Logic.I]).
  pose proof (okhops_contract d h (gs G, []) OK) as C.
  split; [exact RUN|]. split; [exact (AccessRefine3.access_refinement d h (gs G) [] w [] _ HG C RUN)|].
  destruct (refinement_final d h (gs G) [] w [] (gs G') [] HG C RUN) as (WF' & R' & Ch).
  split; [exact R'|]. split; [|exact WF']. fold sp in Ch. destruct (snd (fst sp)); [reflexivity|destruct Ch].
Qed.

(* the same for a whole call (make_call_frame, the child, call_return) *)
Theorem call_answers_refine W f G c G' r h w :
  do_call_h W (exec_nc_h f W) G c = XDone (G', r, h) -> (cq_transfers c = true -> 0 <= cq_value c) ->
  HostOps.WF (gdb W G) (gs G) -> AccessRefine.R (gdb W G) (gs G) w ->
  let d := gdb W G in
  let sp := spec_run (w, []) h (AccessRefine3.model_anns d (gs G, []) h) in
  run_hops d (gs G, []) h = Some (gs G', []) /\
  snd sp = AccessRefine3.model_trace d (gs G, []) h /\
  AccessRefine.R d (gs G') (fst (fst sp)) /\ HostOps.WF d (gs G').
Proof.
  intros E HV WFs Rw d sp. pose proof (do_call_hist W _ G c G' r h (exec_nc_hist W f) HV E) as GH.
  destruct (ghist_own_base W G G' h GH) as [RUN _]. destruct GH as (_ & OK & _ & _).
  assert (HG : AccessRefine3.GI d (gs G) [] w []) by (split; [exact WFs|]; split; [exact Rw|exact Logic.I]).
  pose proof (okhops_contract d h (gs G, []) OK) as C.
  split; [exact RUN|]. split; [exact (AccessRefine3.access_refinement d h (gs G) [] w [] _ HG C RUN)|].
  destruct (refinement_final d h (gs G) [] w [] (gs G') [] HG C RUN) as (WF' & R' & Ch). split; assumption.
Qed.

(* A child frame that does not end ok: every address and slot has the warm status it had when
   the child's checkpoint was taken, i.e. right after the callee (and its delegation target)
   was loaded by make_call_frame.  Instance of failed_child_restores_view. *)
Theorem failed_child_forgets_accesses W f G c G' r s0 sc1 cp :
  let d := gdb W G in
  HostRevert.Inv d s0 (gs G) (snd (g_sc G)) ->
  (cq_transfers c = true -> 0 <= cq_value c) ->
  Fr.make_call_frame d (g_sc G) (call_inputs_of W c) = Some (sc1, Fr.FFrame cp) ->
  do_call W (exec_nc f W) G c = XDone (G', r) -> is_ok (ir_res r) = false ->
  let s_ld := fst (fst (fst (load_account_delegated d (gs G) (cq_bytecode c)))) in
  (forall a, acc_warm d (gs G') a = acc_warm d s_ld a) /\
  (forall a k, slot_warm d (gs G') a k = slot_warm d s_ld a k) /\
  (* relative to the caller's state before the call instruction's frame was made *)
  (forall a k, slot_warm d (gs G') a k = slot_warm d (gs G) a k) /\
  (forall a, a <> cq_bytecode c -> deleg_target d (gs G) (cq_bytecode c) <> Some a ->
             acc_warm d (gs G') a = acc_warm d (gs G) a) /\
  acc_warm d (gs G') (cq_bytecode c) = true.
Proof.
  intros d INV HV EM ED NOK s_ld.
  destruct (failed_child_restores_view W f G c G' r s0 sc1 cp INV HV EM ED NOK) as (V & _).
  destruct (AccessRefine.warm_of_view d s_ld (gs G') V) as [SA SS]. fold d in SA, SS.
  split; [exact SA|]. split; [exact SS|].
  destruct (load_account_delegated d (gs G) (cq_bytecode c)) as [[[s2 cold] empty] dcold] eqn:HL.
  destruct (load_delegated_cold_iff d (gs G) (cq_bytecode c) s2 cold empty dcold HL) as (_ & C2 & (C31 & C32 & C33)).
  cbn [fst] in s_ld. subst s_ld.
  destruct (deleg_target d (gs G) (cq_bytecode c)) as [t|].
  - destruct C2 as (_ & _ & (D1 & D2 & D3)). split; [intros a k; rewrite SS, D3, C33; reflexivity|]. split.
    + intros a Ha Ht. rewrite SA, D2, C32; [reflexivity|exact Ha|]. intros ->. apply Ht. reflexivity.
    + rewrite SA. destruct (Z.eq_dec (cq_bytecode c) t) as [<-|Hn]; [exact D1|]. rewrite D2; [exact C31|exact Hn].
  - destruct C2 as (_ & ->). split; [intros a k; rewrite SS, C33; reflexivity|]. split.
    + intros a Ha _. rewrite SA, C32; [reflexivity|exact Ha].
    + rewrite SA. exact C31.
Qed.

(* ---------------------------------------------------------------- nothing that was warm at the base is ever forgotten *)
Definition asub (w0 w : asets) : Prop :=
  (forall a, as_acc w0 a = true -> as_acc w a = true) /\ (forall a k, as_slot w0 a k = true -> as_slot w a k = true).
Lemma asub_refl w : asub w w. Proof. split; auto. Qed.
Lemma asub_acc w0 w a : asub w0 w -> asub w0 (fst (acc_access w a)).
Proof.
  intros [A B]. split; cbn [acc_access fst as_acc as_slot]; [|exact B].
  intros x Hx. unfold upd. destruct (x =? a); [reflexivity|apply A; exact Hx].
Qed.
Lemma asub_slot w0 w a k : asub w0 w -> asub w0 (fst (slot_access w a k)).
Proof.
  intros [A B]. split; cbn [slot_access fst as_acc as_slot]; [exact A|].
  intros x j Hx. unfold upd2. destruct ((x =? a) && (j =? k)); [reflexivity|apply B; exact Hx].
Qed.

Lemma spec_step_keeps w0 w stk o an :
  asub w0 w -> Forall (asub w0) stk ->
  asub w0 (fst (fst (spec_step (w, stk) o an))) /\ Forall (asub w0) (snd (fst (spec_step (w, stk) o an))).
Proof.
  intros S FS.
  destruct o as [a|a|a|a|a c|f t v|c a hs v|a k|a k v|a k|a k v|l|a t| | | ]; cbn [spec_step];
    unfold acc_access, slot_access; cbn [fst snd];
    try (split; [first [exact S | exact (asub_acc w0 w _ S) | exact (asub_slot w0 w _ _ S)]|exact FS]).
  - destruct (an_deleg an) as [t|]; cbn [fst snd]; (split; [|exact FS]).
    + exact (asub_acc w0 _ t (asub_acc w0 w a S)).
    + exact (asub_acc w0 w a S).
  - split; [|exact FS]. exact (asub_acc w0 _ t (asub_acc w0 w f S)).
  - destruct (an_created an); cbn [fst snd]; (split; [exact S|]); [constructor; assumption|exact FS].
  - split; [exact S|constructor; assumption].
  - destruct stk; cbn [fst snd]; (split; [exact S|]); [exact FS|inversion FS; assumption].
  - destruct stk; cbn [fst snd]; [split; [exact S|exact FS]|]. inversion FS; subst. split; assumption.
Qed.
Lemma spec_run_keeps w0 h : forall w stk ans,
  asub w0 w -> Forall (asub w0) stk -> asub w0 (fst (fst (spec_run (w, stk) h ans))).
Proof.
  induction h as [|o r IH]; intros w stk ans S FS; cbn [spec_run]; [exact S|].
  destruct ans as [|an anr]; [exact S|].
  destruct (spec_step_keeps w0 w stk o an S FS) as [S1 F1].
  destruct (spec_step (w, stk) o an) as [[w1 stk1] a]. cbn [fst snd] in *.
  specialize (IH w1 stk1 anr S1 F1). destruct (spec_run (w1, stk1) r anr) as [ws2 ar]. exact IH.
Qed.

(* For EVERY history inside the C06 contract (nested checkpoints, commits, reverts, creates) run
   from a state with no open checkpoint of its own: what is warm at the start is warm at the end.
   In particular everything warmed before the first frame's checkpoint (transaction-level
   pre-warming) survives every revert. *)
Theorem warm_never_forgotten d h s s' cps' :
  HostOps.WF d s -> HostMain.contract d (s, []) h -> run_hops d (s, []) h = Some (s', cps') ->
  (forall a, acc_warm d s a = true -> acc_warm d s' a = true) /\
  (forall a k, slot_warm d s a k = true -> slot_warm d s' a k = true).
Proof.
  intros WFs C Run. set (w := mkAS (acc_warm d s) (slot_warm d s)).
  assert (HG : AccessRefine3.GI d s [] w []) by (split; [exact WFs|]; split; [split; reflexivity|exact Logic.I]).
  destruct (refinement_final d h s [] w [] s' cps' HG C Run) as (_ & [RA RS] & _).
  destruct (spec_run_keeps w h w [] (AccessRefine3.model_anns d (s, []) h) (asub_refl w) (Forall_nil _)) as [KA KS].
  split; [intros a Ha; rewrite RA; apply KA; exact Ha|intros a k Hk; rewrite RS; apply KS; exact Hk].
Qed.

(* the same on the interpreter: across a whole call (frame creation, the child with all its
   nested frames, commit or revert) nothing that was warm before is cold afterwards *)
Theorem call_keeps_warm W f G c G' r :
  do_call W (exec_nc f W) G c = XDone (G', r) -> (cq_transfers c = true -> 0 <= cq_value c) ->
  HostOps.WF (gdb W G) (gs G) ->
  (forall a, acc_warm (gdb W G) (gs G) a = true -> acc_warm (gdb W G) (gs G') a = true) /\
  (forall a k, slot_warm (gdb W G) (gs G) a k = true -> slot_warm (gdb W G) (gs G') a k = true).
Proof.
  intros E HV WFs. rewrite <- (do_call_h_erase W (exec_nc_h f W) (exec_nc f W) G c (exec_nc_h_erase W f)) in E.
  destruct (do_call_h W (exec_nc_h f W) G c) as [[[G2 r2] h]| |k] eqn:EH; try discriminate. injection E as <- <-.
  pose proof (do_call_hist W _ G c G2 r2 h (exec_nc_hist W f) HV EH) as GH.
  destruct (ghist_own_base W G G2 h GH) as [RUN _]. destruct GH as (_ & OK & _ & _).
  exact (warm_never_forgotten _ h _ _ _ WFs (okhops_contract _ h _ OK) RUN).
Qed.

(* ================================================================= 3. the transaction *)
From RevmV Require Proofs.HostGood.

(* the warm status does not depend on the database (only balances / storage values do) *)
Lemma warm_db_indep d d' s :
  (forall a, acc_warm d s a = acc_warm d' s a) /\ (forall a k, slot_warm d s a k = slot_warm d' s a k).
Proof.
  split; [intros a|intros a k]; unfold acc_warm, slot_warm, HostView.view_acc; destruct (st s a) as [acc|]; try reflexivity.
  cbn. unfold HostView.slot_view. destruct (a_storage acc k); reflexivity.
Qed.
Lemma R_db d d' s w : AccessRefine.R d s w -> AccessRefine.R d' s w.
Proof. intros [A B]. destruct (warm_db_indep d' d s) as [X Y]. split; intros; [rewrite X; apply A|rewrite Y; apply B]. Qed.
Lemma R_ext d s w w' :
  AccessRefine.R d s w -> (forall a, as_acc w a = as_acc w' a) -> (forall a k, as_slot w a k = as_slot w' a k) ->
  AccessRefine.R d s w'.
Proof. intros [A B] X Y. split; intros; [rewrite <- X; apply A|rewrite <- Y; apply B]. Qed.

(* ---------------------------------------------------------------- load_access_list *)
(* before execution starts nothing that is loaded is cold *)
Definition all_warm (s : jstate) : Prop :=
  forall a acc, st s a = Some acc ->
    a_cold acc = false /\ forall k sl, a_storage acc k = Some sl -> s_cold sl = false.

Lemma preload_cold d a ks : forall acc, a_cold (preload_slots d a acc ks) = a_cold acc.
Proof.
  induction ks as [|k r IH]; intros acc; cbn [preload_slots]; [reflexivity|].
  rewrite IH. destruct (a_storage acc k); reflexivity.
Qed.

(* any access-list entry, also for an address that is already loaded (repeated entries) *)
Lemma R_initial_load_any d s a ks w :
  AccessRefine.R d s w -> all_warm s ->
  AccessRefine.R d (initial_account_load d s a ks)
    (mkAS (upd (as_acc w) a true) (fun x k => as_slot w x k || ((x =? a) && mem_z ks k))) /\
  all_warm (initial_account_load d s a ks).
Proof.
  intros [A B] AW. unfold initial_account_load.
  set (acc0 := match st s a with Some acc => acc | None => account_from_db d a end).
  assert (F0 : a_cold acc0 = false /\ (forall k sl, a_storage acc0 k = Some sl -> s_cold sl = false) /\
               (forall k, slot_warm d s a k = snd (HostView.slot_view d a acc0 k))).
  { unfold acc0. destruct (st s a) as [acc|] eqn:E.
    - destruct (AW a acc E) as [C S]. split; [exact C|]. split; [exact S|].
      intros k. unfold slot_warm. rewrite (HostView.view_acc_present d s a acc E). reflexivity.
    - split; [unfold account_from_db; destruct (db_basic d a) as [[[b n] c]|]; reflexivity|]. split.
      + intros k sl. unfold account_from_db. destruct (db_basic d a) as [[[b n] c]|]; discriminate.
      + intros k. unfold slot_warm. rewrite (view_absent d s a E). unfold HostView.slot_view, account_from_db.
        destruct (db_basic d a) as [[[b n] c]|]; reflexivity. }
  destruct F0 as (C0 & S0 & V0).
  assert (PS : forall k, match a_storage (preload_slots d a acc0 ks) k with
                         | Some sl => s_cold sl = false
                         | None => a_storage acc0 k = None /\ mem_z ks k = false end).
  { intros k. pose proof (preload_slots_spec d a ks acc0 k) as P.
    destruct (a_storage (preload_slots d a acc0 ks) k) as [sl|].
    - destruct P as [(sl0 & H0 & ->)|(_ & _ & Hc)]; [exact (S0 k sl0 H0)|exact Hc].
    - destruct P as [H0 Hn]. split; [exact H0|]. destruct (mem_z ks k) eqn:M; [|reflexivity].
      apply AccessRefine3.mem_z_In in M. contradiction. }
  split; [split|].
  - intros x. unfold acc_warm. rewrite HostGood.view_acc_put. cbn [as_acc]. unfold upd. destruct (x =? a) eqn:X.
    + cbn. rewrite preload_cold, C0. reflexivity.
    + apply A.
  - intros x k. unfold slot_warm at 1. rewrite HostGood.view_acc_put. cbn [as_slot]. destruct (x =? a) eqn:X; cbn [andb].
    + apply Z.eqb_eq in X. subst x. rewrite <- B, V0. cbn [HostView.v_slot HostView.view_of_acc]. unfold HostView.slot_view.
      specialize (PS k). pose proof (preload_slots_spec d a ks acc0 k) as P.
      destruct (a_storage (preload_slots d a acc0 ks) k) as [sl|].
      * cbn [snd]. rewrite PS. cbn [negb]. destruct P as [(sl0 & H0 & _)|(H0 & Hin & _)].
        -- rewrite H0. cbn [snd]. rewrite (S0 k sl0 H0). reflexivity.
        -- rewrite H0. cbn [snd orb]. symmetry. apply AccessRefine3.mem_z_In. exact Hin.
      * destruct PS as [H0 M]. rewrite H0, M. reflexivity.
    + rewrite Bool.orb_false_r. apply B.
  - intros x acc. rewrite HostView.st_put. destruct (x =? a) eqn:X; [|apply AW].
    intros [= <-]. split; [rewrite preload_cold; exact C0|]. intros k sl Hk. specialize (PS k). rewrite Hk in PS. exact PS.
Qed.

Lemma load_access_list_R W : forall al G w,
  AccessRefine.R (gdb W G) (gs G) w -> all_warm (gs G) ->
  let G' := fold_left (fun G it => set_s G (initial_account_load (gdb W G) (gs G) (fst it) (snd it))) al G in
  AccessRefine.R (gdb W G) (gs G')
    (mkAS (fun a => as_acc w a || al_acc al a) (fun a k => as_slot w a k || al_slot al a k)) /\
  all_warm (gs G') /\ g_codes G' = g_codes G /\ snd (g_sc G') = snd (g_sc G).
Proof.
  induction al as [|[a ks] r IH]; intros G w Rw AW; cbn [fold_left fst snd].
  - split; [|auto]. apply (R_ext _ _ w); [exact Rw| |]; intros; cbn; rewrite Bool.orb_false_r; reflexivity.
  - destruct (R_initial_load_any _ _ a ks w Rw AW) as [R1 AW1].
    specialize (IH (set_s G (initial_account_load (gdb W G) (gs G) a ks)) _ R1 AW1).
    cbv zeta in IH. destruct IH as (R2 & AW2 & C2 & S2). split; [|split; [exact AW2|split; [exact C2|exact S2]]].
    eapply R_ext; [exact R2| |].
    + intros x. cbn [as_acc al_acc]. unfold upd. rewrite (Z.eqb_sym a x). destruct (x =? a); cbn [orb];
        [rewrite Bool.orb_true_r; reflexivity|reflexivity].
    + intros x k. cbn [as_slot al_slot]. rewrite (Z.eqb_sym a x), Bool.orb_assoc. reflexivity.
Qed.

Lemma all_warm_jnew sp ca wp : all_warm (jnew sp ca wp).
Proof. intros a acc H. discriminate. Qed.

(* after load_access_list the warm status is the specification's initial accessed sets for the
   pre-warmed predicate of the model and the access list of the transaction *)
Theorem access_list_sets W :
  let G0 := load_access_list W (gstate_new W) in
  AccessRefine.R (gdb W G0) (gs G0) (initial_sets (warm_preloaded W) (w_access_list W)) /\
  all_warm (gs G0) /\ g_codes G0 = w_codes W /\ snd (g_sc G0) = [].
Proof.
  intros G0.
  destruct (load_access_list_R W (w_access_list W) (gstate_new W) (mkAS (warm_preloaded W) (fun _ _ => false))
              (AccessRefine3.R_jnew _ _ _ _) (all_warm_jnew _ _ _)) as (R1 & AW & C & S).
  cbv zeta in R1, AW, C, S. fold (load_access_list W (gstate_new W)) in R1, AW, C, S. fold G0 in R1, AW, C, S.
  split; [|split; [exact AW|split; [exact C|exact S]]].
  apply (R_db (gdb W (gstate_new W))). eapply R_ext; [exact R1| |]; intros; reflexivity.
Qed.

(* ---------------------------------------------------------------- deduct_caller: the sender *)
Lemma deduct_caller_R W G G1 w :
  deduct_caller W G = Some G1 -> AccessRefine.R (gdb W G) (gs G) w ->
  AccessRefine.R (gdb W G1) (gs G1) (fst (acc_access w (w_caller W))) /\ g_codes G1 = g_codes G.
Proof.
  unfold deduct_caller. intros E Rw. destruct (AccessRefine2.eff_load (gdb W G) (gs G) (w_caller W) w Rw) as [R1 _].
  destruct (load_account (gdb W G) (gs G) (w_caller W)) as [s1 c]. cbn [fst] in R1.
  destruct (st s1 (w_caller W)) as [acc|] eqn:Ea; [|discriminate].
  destruct (St.deduct_caller_inner _ _ _) as [b|]; [|discriminate]. injection E as <-.
  split; [|reflexivity]. change (gdb W (set_s G _)) with (gdb W G). cbn [gs set_s g_sc fst].
  eapply AccessRefine.R_sw; [exact R1|].
  apply (AccessRefine.sw_put_same_storage _ s1 (w_caller W) acc); [exact Ea| |]; destruct (w_to W); reflexivity.
Qed.

(* ---------------------------------------------------------------- apply_eip7702_auth_list: the authorities *)
(* authorities of the tuples that pass the chain-id, nonce-range and signature checks *)
Fixpoint auth_warmed (chain : Z) (l : list (option Z * Z * Z * Z)) : list Z :=
  match l with
  | [] => []
  | (au, cid, _, nonce) :: r =>
      if negb (cid =? 0) && negb (cid =? chain) then auth_warmed chain r
      else if nonce =? pow64 - 1 then auth_warmed chain r
      else match au with None => auth_warmed chain r | Some a => a :: auth_warmed chain r end
  end.

Lemma add_code_gsc G b : g_sc (fst (add_code G b)) = g_sc G.
Proof. unfold add_code. destruct (code_id b =? 0); reflexivity. Qed.

Lemma apply_auths_R W l : forall G n w,
  AccessRefine.R (gdb W G) (gs G) w ->
  let G' := fst (apply_auths W G l n) in
  AccessRefine.R (gdb W G') (gs G')
    (mkAS (fun a => as_acc w a || mem_z (auth_warmed (E.c_chain_id (E.e_cfg (w_env W))) l) a) (as_slot w)).
Proof.
  induction l as [|[[[au cid] addr] nonce] r IH]; intros G n w Rw; cbn [apply_auths auth_warmed].
  - cbn [fst mem_z]. eapply R_ext; [exact Rw| |]; intros; cbn; [rewrite Bool.orb_false_r|]; reflexivity.
  - destruct (negb (cid =? 0) && negb (cid =? E.c_chain_id (E.e_cfg (w_env W)))); [apply IH; exact Rw|].
    destruct (nonce =? pow64 - 1); [apply IH; exact Rw|].
    destruct au as [au|]; [|apply IH; exact Rw].
    destruct (AccessRefine2.eff_load (gdb W G) (gs G) au w Rw) as [R1 _]. unfold load_code.
    destruct (load_account (gdb W G) (gs G) au) as [s1 c]. cbn [fst] in R1.
    assert (R1' : AccessRefine.R (gdb W (set_s G s1)) (gs (set_s G s1)) (fst (acc_access w au))) by exact R1.
    assert (Fin : forall G2, AccessRefine.R (gdb W G2) (gs G2) (fst (acc_access w au)) -> forall m,
              AccessRefine.R (gdb W (fst (apply_auths W G2 r m))) (gs (fst (apply_auths W G2 r m)))
                (mkAS (fun a => as_acc w a || mem_z (au :: auth_warmed (E.c_chain_id (E.e_cfg (w_env W))) r) a) (as_slot w))).
    { intros G2 R2 m. eapply R_ext; [exact (IH G2 m _ R2)| |].
      - intros x. cbn [as_acc acc_access fst mem_z]. unfold upd. rewrite (Z.eqb_sym au x).
        destruct (x =? au); cbn [orb]; [rewrite Bool.orb_true_r; reflexivity|reflexivity].
      - intros; reflexivity. }
    destruct (st s1 au) as [acc|] eqn:Ea; [|apply Fin; exact R1'].
    match goal with |- context [if ?b then _ else _] => destruct b end; [apply Fin; exact R1'|].
    match goal with |- context [if ?b then _ else _] => destruct b end; [apply Fin; exact R1'|].
    destruct (if addr =? 0 then (set_s G s1, 0) else add_code (set_s G s1) (eip7702_code addr)) as [G2 id] eqn:EA.
    apply Fin.
    assert (SG : gs G2 = s1).
    { destruct (addr =? 0); [injection EA as <- _; reflexivity|].
      pose proof (add_code_gsc (set_s G s1) (eip7702_code addr)) as HH. rewrite EA in HH. cbn [fst] in HH.
      unfold gs. rewrite HH. reflexivity. }
    cbn [gs set_s g_sc fst]. fold (gs G2). rewrite SG. apply (R_db (gdb W (set_s G s1))).
    eapply AccessRefine.R_sw; [exact R1'|]. cbn [gs set_s g_sc fst].
    apply (AccessRefine.sw_put_same_storage _ s1 au acc); [exact Ea|reflexivity|reflexivity].
Qed.

(* the specification's list of warmed authorities (Spec/TxWarmSpec.v, EIP-7702 steps 1-4) is the
   same set, whatever the accounts: for tuples whose nonce is a u64 *)
Definition auth_of (t : option Z * Z * Z * Z) : TxWarmSpec.auth :=
  let '(au, cid, addr, nonce) := t in TxWarmSpec.mkAuth cid addr nonce au.
Lemma auth_step_warmed chain l : forall wl m a,
  Forall (fun t => snd t <= pow64 - 1) l ->
  mem_z (fst (fold_left (TxWarmSpec.auth_step chain) (map auth_of l) (wl, m))) a =
  mem_z wl a || mem_z (auth_warmed chain l) a.
Proof.
  induction l as [|[[[au cid] addr] nonce] r IH]; intros wl m a HF; cbn [map fold_left auth_warmed auth_of].
  - cbn. rewrite Bool.orb_false_r. reflexivity.
  - inversion HF as [|? ? Hn Hr]; subst. cbn [snd] in Hn.
    unfold TxWarmSpec.auth_step at 2. cbn [TxWarmSpec.au_chain TxWarmSpec.au_nonce TxWarmSpec.au_authority TxWarmSpec.au_addr].
    rewrite Bool.negb_orb. destruct (negb (cid =? 0) && negb (cid =? chain)); [apply IH; exact Hr|].
    replace (2 ^ 64 - 1 <=? nonce) with (nonce =? pow64 - 1)
      by (unfold pow64 in *; destruct (Z.eqb_spec nonce (2 ^ 64 - 1)); destruct (Z.leb_spec (2 ^ 64 - 1) nonce); try reflexivity; lia).
    destruct (nonce =? pow64 - 1); [apply IH; exact Hr|].
    destruct au as [au|]; [|apply IH; exact Hr].
    assert (Fin : forall m', mem_z (fst (fold_left (TxWarmSpec.auth_step chain) (map auth_of r) (au :: wl, m'))) a =
                             mem_z wl a || mem_z (au :: auth_warmed chain r) a).
    { intros m'. rewrite (IH (au :: wl) m' a Hr). cbn [mem_z]. destruct (au =? a), (mem_z wl a); reflexivity. }
    destruct (TxWarmSpec.acct_of m au) as [n c]. destruct c; try apply Fin; destruct (negb (n =? nonce)); apply Fin.
Qed.

(* ---------------------------------------------------------------- the state in which the first frame is created *)
(* the pre-execution part of run_tx (load_access_list, deduct_caller, apply_eip7702_auth_list) *)
Definition tx_pre_state (W : world) : option gstate :=
  match deduct_caller W (load_access_list W (gstate_new W)) with
  | None => None
  | Some G1 => Some (if en (w_spec W) E.PRAGUE then fst (apply_auths W G1 (w_auth_list W) 0) else G1)
  end.

Definition chain_of (W : world) : Z := E.c_chain_id (E.e_cfg (w_env W)).
Definition pre_warm_model (W : world) (a : Z) : bool :=
  warm_preloaded W a || al_acc (w_access_list W) a || (a =? w_caller W)
  || (en (w_spec W) E.PRAGUE && mem_z (auth_warmed (chain_of W) (w_auth_list W)) a).

Theorem tx_pre_state_warm W G2 :
  tx_pre_state W = Some G2 ->
  (forall a, acc_warm (gdb W G2) (gs G2) a = pre_warm_model W a) /\
  (forall a k, slot_warm (gdb W G2) (gs G2) a k = al_slot (w_access_list W) a k).
Proof.
  unfold tx_pre_state. destruct (access_list_sets W) as (R0 & _ & _ & _). cbv zeta in R0.
  destruct (deduct_caller W (load_access_list W (gstate_new W))) as [G1|] eqn:ED; [|discriminate]. intros [= <-].
  destruct (deduct_caller_R W _ G1 _ ED R0) as [R1 _].
  assert (RF : AccessRefine.R (gdb W (if en (w_spec W) E.PRAGUE then fst (apply_auths W G1 (w_auth_list W) 0) else G1))
                 (gs (if en (w_spec W) E.PRAGUE then fst (apply_auths W G1 (w_auth_list W) 0) else G1))
                 (mkAS (pre_warm_model W) (al_slot (w_access_list W)))).
  { unfold pre_warm_model. destruct (en (w_spec W) E.PRAGUE).
    - eapply R_ext; [exact (apply_auths_R W (w_auth_list W) G1 0 _ R1)| |].
      + intros a. cbn [as_acc acc_access fst initial_sets]. unfold upd, chain_of. rewrite (Z.eqb_sym a (w_caller W)).
        destruct (w_caller W =? a); cbn [andb orb]; [rewrite !Bool.orb_true_r; reflexivity|rewrite Bool.orb_false_r; reflexivity].
      + intros; reflexivity.
    - eapply R_ext; [exact R1| |].
      + intros a. cbn [as_acc acc_access fst initial_sets andb]. unfold upd. rewrite (Z.eqb_sym a (w_caller W)).
        destruct (w_caller W =? a); [rewrite Bool.orb_true_r; reflexivity|rewrite !Bool.orb_false_r; reflexivity].
      + intros; reflexivity. }
  destruct RF as [A B]. split; [exact A|exact B].
Qed.

(* against Spec/TxWarmSpec.v *)
Definition txw_of (W : world) (dest : Z) (accts : TxWarmSpec.accts) : TxWarmSpec.txw :=
  TxWarmSpec.mkTxW (w_spec W) (chain_of W) (w_caller W) (match w_to W with Some _ => false | None => true end)
    dest (w_coinbase W) (w_access_list W) (map auth_of (w_auth_list W)) accts.

Lemma spec_authorities W dest accts a :
  Forall (fun t => snd t <= pow64 - 1) (w_auth_list W) -> en (w_spec W) E.PRAGUE = true ->
  mem_z (fst (TxWarmSpec.tx_after_auths (txw_of W dest accts))) a = mem_z (auth_warmed (chain_of W) (w_auth_list W)) a.
Proof.
  intros HF HP. unfold TxWarmSpec.tx_after_auths, TxWarmSpec.prague. cbn [txw_of TxWarmSpec.tw_spec TxWarmSpec.tw_auths TxWarmSpec.tw_chain].
  change (GateSpec.enabled (w_spec W) GateSpec.PRAGUE) with (en (w_spec W) E.PRAGUE). rewrite HP.
  rewrite (auth_step_warmed (chain_of W) (w_auth_list W) [] _ a HF). reflexivity.
Qed.

(* Below PRAGUE: the specification's initial accessed addresses are exactly what is warm when
   the first frame is created, plus the recipient / created address (which the first frame
   loads before it takes its checkpoint); the initial accessed storage keys are exactly the
   warm slots. *)
Theorem tx_pre_state_is_spec_below_prague W G2 dest accts :
  tx_pre_state W = Some G2 -> en (w_spec W) E.PRAGUE = false ->
  (forall a, as_acc (TxWarmSpec.tx_initial_sets (txw_of W dest accts)) a = acc_warm (gdb W G2) (gs G2) a || (a =? dest)) /\
  (forall a k, as_slot (TxWarmSpec.tx_initial_sets (txw_of W dest accts)) a k = slot_warm (gdb W G2) (gs G2) a k).
Proof.
  intros E HP. destruct (tx_pre_state_warm W G2 E) as [A B]. split; [|intros; rewrite B; reflexivity].
  intros a. rewrite A. unfold pre_warm_model, warm_preloaded. rewrite HP.
  cbn [TxWarmSpec.tx_initial_sets initial_sets as_acc]. unfold TxWarmSpec.tx_prewarmed, TxWarmSpec.prague.
  cbn [txw_of TxWarmSpec.tw_spec TxWarmSpec.tw_sender TxWarmSpec.tw_dest TxWarmSpec.tw_coinbase TxWarmSpec.tw_al].
  change (GateSpec.enabled (w_spec W) GateSpec.PRAGUE) with (en (w_spec W) E.PRAGUE). rewrite HP.
  change (GateSpec.enabled (w_spec W) GateSpec.SHANGHAI) with (en (w_spec W) E.SHANGHAI).
  change (GateSpec.is_precompile (w_spec W) a) with (is_precompile W a). cbn [andb].
  destruct (a =? w_caller W), (a =? dest), (is_precompile W a), (en (w_spec W) E.SHANGHAI && (a =? w_coinbase W)),
    (al_acc (w_access_list W) a); reflexivity.
Qed.

(* From PRAGUE: the same, with the authorities of the valid tuples; what remains outside the
   equality is the delegation target of tx.to, which the first frame loads together with the
   recipient. (The EIP-2935 history contract is pre-warmed by neither side.) *)
Theorem tx_pre_state_is_spec_from_prague W G2 dest accts :
  tx_pre_state W = Some G2 -> en (w_spec W) E.PRAGUE = true ->
  Forall (fun t => snd t <= pow64 - 1) (w_auth_list W) ->
  (forall a,
     as_acc (TxWarmSpec.tx_initial_sets (txw_of W dest accts)) a =
     acc_warm (gdb W G2) (gs G2) a || (a =? dest)
     || (match w_to W with Some _ => true | None => false end
         && TxWarmSpec.opt_is (TxWarmSpec.deleg_of (txw_of W dest accts) dest) a)) /\
  (forall a k, as_slot (TxWarmSpec.tx_initial_sets (txw_of W dest accts)) a k = slot_warm (gdb W G2) (gs G2) a k).
Proof.
  intros E HP HF. destruct (tx_pre_state_warm W G2 E) as [A B]. split; [|intros; rewrite B; reflexivity].
  intros a. rewrite A. unfold pre_warm_model, warm_preloaded. rewrite HP.
  cbn [TxWarmSpec.tx_initial_sets initial_sets as_acc]. unfold TxWarmSpec.tx_prewarmed.
  rewrite (spec_authorities W dest accts a HF HP). unfold TxWarmSpec.prague.
  cbn [txw_of TxWarmSpec.tw_spec TxWarmSpec.tw_sender TxWarmSpec.tw_dest TxWarmSpec.tw_coinbase TxWarmSpec.tw_al TxWarmSpec.tw_is_create].
  change (GateSpec.enabled (w_spec W) GateSpec.PRAGUE) with (en (w_spec W) E.PRAGUE). rewrite HP.
  change (GateSpec.enabled (w_spec W) GateSpec.SHANGHAI) with (en (w_spec W) E.SHANGHAI).
  change (GateSpec.is_precompile (w_spec W) a) with (is_precompile W a). cbn [andb].
  destruct (a =? w_caller W), (a =? dest), (is_precompile W a), (en (w_spec W) E.SHANGHAI && (a =? w_coinbase W)),
    (al_acc (w_access_list W) a), (mem_z (auth_warmed (chain_of W) (w_auth_list W)) a), (w_to W); cbn [negb andb orb];
    try reflexivity; destruct (TxWarmSpec.opt_is _ a); reflexivity.
Qed.

(* neither EIP-2935 address is pre-warmed by the model (the tree pre-warmed the early draft's
   address until the fix recorded in known_findings.json) *)
Lemma history_address_not_prewarmed :
  forall W, is_precompile W BLOCKHASH_STORAGE_ADDRESS = false -> is_precompile W TxWarmSpec.HISTORY_STORAGE_ADDRESS = false ->
    warm_preloaded W BLOCKHASH_STORAGE_ADDRESS = (en (w_spec W) E.SHANGHAI && (BLOCKHASH_STORAGE_ADDRESS =? w_coinbase W)) /\
    warm_preloaded W TxWarmSpec.HISTORY_STORAGE_ADDRESS = (en (w_spec W) E.SHANGHAI && (TxWarmSpec.HISTORY_STORAGE_ADDRESS =? w_coinbase W)).
Proof. intros W H1 H2. unfold warm_preloaded. rewrite H1, H2. split; reflexivity. Qed.


(* ---------------------------------------------------------------- well-formedness reaches the first frame; run_tx *)
From RevmV Require Proofs.HostOps4 Proofs.EtherTx Proofs.EvmEtherProofs.

Lemma tx_pre_state_iff W G2 :
  tx_pre_state W = Some G2 <-> exists G1 ra, EvmEtherProofs.tx_pre W G1 G2 ra.
Proof.
  unfold tx_pre_state, EvmEtherProofs.tx_pre. split.
  - destruct (deduct_caller W (load_access_list W (gstate_new W))) as [G1|]; [|discriminate]. intros [= <-].
    exists G1. destruct (en (w_spec W) E.PRAGUE); [|exists 0; split; reflexivity].
    destruct (apply_auths W G1 (w_auth_list W) 0) as [G2 ra]. exists ra. split; reflexivity.
  - intros (G1 & ra & -> & HA). destruct (en (w_spec W) E.PRAGUE); [rewrite HA; reflexivity|]. injection HA as <- _. reflexivity.
Qed.

Lemma tx_pre_state_WF W G2 :
  tx_pre_state W = Some G2 -> HostOps.WF (gdb W (gstate_new W)) (gs (gstate_new W)) ->
  HostOps.WF (gdb W G2) (gs G2).
Proof.
  intros E Wf. apply tx_pre_state_iff in E. destruct E as (G1 & ra & HD & HA).
  set (d := gdb W (gstate_new W)) in *.
  destruct (EvmEtherProofs.load_access_list_keeps W (w_access_list W) (gstate_new W) Wf) as (K0 & C0 & S0).
  change (fold_left _ (w_access_list W) (gstate_new W)) with (load_access_list W (gstate_new W)) in K0, C0, S0.
  set (G0 := load_access_list W (gstate_new W)) in *. fold d in K0.
  assert (D0 : gdb W G0 = d) by (unfold gdb, d; rewrite C0; reflexivity).
  destruct (EvmEtherProofs.deduct_caller_facts W G0 G1 HD) as (facc & facc1 & b1 & E0 & Ed & Hb1 & Hcr & E1 & C1 & S1).
  rewrite D0 in E0, E1.
  pose proof (HostOps.WF_load d (gs G0) (w_caller W) (proj2 K0)) as W0.
  assert (W1 : HostOps.WF d (gs G1)).
  { rewrite E1. eapply HostOps4.WF_put_bal; [exact W0|exact E0| |exact Hcr]. rewrite Hb1. eapply EtherTx.deduct_range; eauto. }
  assert (D1 : gdb W G1 = d) by (unfold gdb; rewrite C1; exact D0).
  apply (EvmEtherProofs.WF_codes W (g_codes (gstate_new W))). fold (gdb W (gstate_new W)). fold d.
  destruct (en (w_spec W) E.PRAGUE).
  - destruct (EvmEtherProofs.apply_auths_keeps W (w_auth_list W) G1 0 G2 ra) as [K S]; [rewrite D1; exact W1|exact HA|].
    rewrite D1 in K. exact (proj2 K).
  - injection HA as <- _. exact W1.
Qed.

(* run_tx creates its first frame in tx_pre_state *)
Lemma run_tx_first_frame fuel W to res :
  run_tx fuel W = XDone res -> w_to W = Some to ->
  exists G2 G3 r, tx_pre_state W = Some G2 /\
    do_call W (exec fuel W) G2 (EvmEtherProofs.tx_call W to) = XDone (G3, r) /\ tr_reason res = ir_res r.
Proof.
  unfold run_tx, tx_pre_state, EvmEtherProofs.tx_call. intros R Hto.
  destruct (E.initial_and_floor (w_spec W) (w_env W)) as [ini flo]. cbn [fst].
  destruct (deduct_caller W (load_access_list W (gstate_new W))) as [G1|]; [|discriminate].
  cbv zeta in R. rewrite Hto in R.
  assert (EP : (if en (w_spec W) E.PRAGUE then apply_auths W G1 (w_auth_list W) 0 else (G1, 0)) =
               (if en (w_spec W) E.PRAGUE then fst (apply_auths W G1 (w_auth_list W) 0) else G1,
                snd (if en (w_spec W) E.PRAGUE then apply_auths W G1 (w_auth_list W) 0 else (G1, 0))))
    by (destruct (en (w_spec W) E.PRAGUE); [destruct (apply_auths _ _ _ _)|]; reflexivity).
  rewrite EP in R. eexists. 
  match type of R with context [do_call W (exec fuel W) ?g ?c] => destruct (do_call W (exec fuel W) g c) as [[G3 r]| |k] eqn:EC end; try discriminate.
  exists G3, r. split; [reflexivity|]. split; [exact EC|].
  destruct (St.last_frame_return _ _); [|discriminate]. destruct (St.refund _ _ _); [|discriminate].
  destruct (settle _ _ _); [|discriminate]. destruct (St.output_gas _) as [[u rf]|]; [|discriminate].
  injection R as <-. reflexivity.
Qed.

(* TRANSACTION LEVEL, never forgotten.  Whatever the first frame does -- it may revert or halt
   as a whole, with any nesting of reverting frames inside -- every address that was warm when
   it was created (precompiles, coinbase from Shanghai, the history address from Prague, the
   access list, the sender, the EIP-7702 authorities) and every access-list slot is still warm
   afterwards. *)
Theorem tx_level_warm_survives W f to G2 G3 r :
  tx_pre_state W = Some G2 -> HostOps.WF (gdb W (gstate_new W)) (gs (gstate_new W)) -> 0 <= w_value W ->
  do_call W (exec_nc f W) G2 (EvmEtherProofs.tx_call W to) = XDone (G3, r) ->
  (forall a, pre_warm_model W a = true -> acc_warm (gdb W G2) (gs G3) a = true) /\
  (forall a k, al_slot (w_access_list W) a k = true -> slot_warm (gdb W G2) (gs G3) a k = true).
Proof.
  intros E Wf Hv HC. destruct (tx_pre_state_warm W G2 E) as [A B].
  destruct (call_keeps_warm W f G2 _ G3 r HC (fun _ => Hv) (tx_pre_state_WF W G2 E Wf)) as [KA KS].
  split; [intros a Ha; apply KA; rewrite A; exact Ha|intros a k Hk; apply KS; rewrite B; exact Hk].
Qed.

(* ---------------------------------------------------------------- the recipient (and its delegation target) *)
Lemma load_access_list_depth W l : forall G,
  depth (gs (fold_left (fun G it => set_s G (initial_account_load (gdb W G) (gs G) (fst it) (snd it))) l G)) = depth (gs G).
Proof. induction l as [|it r IH]; intros G; cbn [fold_left]; [reflexivity|]. rewrite IH. reflexivity. Qed.
Lemma apply_auths_depth W l : forall G n, depth (gs (fst (apply_auths W G l n))) = depth (gs G).
Proof.
  induction l as [|[[[au cid] addr] nonce] r IH]; intros G n; cbn [apply_auths]; [reflexivity|].
  destruct (negb (cid =? 0) && negb (cid =? E.c_chain_id (E.e_cfg (w_env W)))); [apply IH|].
  destruct (nonce =? pow64 - 1); [apply IH|]. destruct au as [au|]; [|apply IH].
  unfold load_code. pose proof (load_account_depth (gdb W G) (gs G) au) as HD.
  destruct (load_account (gdb W G) (gs G) au) as [s1 c]. cbn [fst] in HD.
  assert (D1 : depth (gs (set_s G s1)) = depth (gs G)) by exact HD.
  destruct (st s1 au) as [acc|]; [|rewrite IH; exact D1].
  match goal with |- context [if ?b then _ else _] => destruct b end; [rewrite IH; exact D1|].
  match goal with |- context [if ?b then _ else _] => destruct b end; [rewrite IH; exact D1|].
  destruct (if addr =? 0 then (set_s G s1, 0) else add_code (set_s G s1) (eip7702_code addr)) as [G2 id] eqn:EA.
  rewrite IH. cbn [gs set_s g_sc fst]. cbn [depth put set_st].
  assert (SG : g_sc G2 = g_sc (set_s G s1)).
  { destruct (addr =? 0); [injection EA as <- _; reflexivity|].
    pose proof (add_code_gsc (set_s G s1) (eip7702_code addr)) as HH. rewrite EA in HH. exact HH. }
  fold (gs G2). unfold gs at 1. rewrite SG. exact D1.
Qed.
Lemma tx_pre_state_depth W G2 : tx_pre_state W = Some G2 -> depth (gs G2) = 0.
Proof.
  unfold tx_pre_state, deduct_caller.
  pose proof (load_access_list_depth W (w_access_list W) (gstate_new W)) as D0.
  change (fold_left _ (w_access_list W) (gstate_new W)) with (load_access_list W (gstate_new W)) in D0.
  set (G0 := load_access_list W (gstate_new W)) in *.
  pose proof (load_account_depth (gdb W G0) (gs G0) (w_caller W)) as D1.
  destruct (load_account (gdb W G0) (gs G0) (w_caller W)) as [s1 c]. cbn [fst] in D1.
  destruct (st s1 (w_caller W)) as [acc|]; [|discriminate].
  destruct (St.deduct_caller_inner _ _ _) as [b|]; [|discriminate]. intros [= <-].
  destruct (en (w_spec W) E.PRAGUE); [rewrite apply_auths_depth|]; cbn [gs set_s g_sc fst depth put set_st]; rewrite D1, D0; reflexivity.
Qed.

Lemma do_call_h_prefix W rec G c G' r h :
  do_call_h W rec G c = XDone (G', r, h) ->
  exists tl, h = FramesProofs.hops_of_call (gdb W G) (gs G) (call_inputs_of W c) ++ tl.
Proof.
  unfold do_call_h. cbv zeta.
  destruct (Fr.make_call_frame _ _ _) as [[sc1 [fr|cp]]|].
  - destruct (do_call _ _ _ _) as [[G1 r1]| |k]; try discriminate. intros [= _ _ <-]. exists []. rewrite app_nil_r. reflexivity.
  - destruct (code_of_account _ _ _); [|discriminate].
    match goal with |- context [rec ?g ?f ?i] => destruct (rec g f i) as [[[G2 r2] hc]| |k] end; try discriminate.
    destruct (Fr.call_return _ _); [|discriminate]. intros [= _ _ <-]. eexists. reflexivity.
  - destruct (do_call _ _ _ _) as [[G1 r1]| |k]; try discriminate. intros [= _ _ <-]. exists []. rewrite app_nil_r. reflexivity.
Qed.
Lemma hops_of_call_head d s ci :
  depth s <= Fr.CALL_STACK_LIMIT ->
  exists tl, FramesProofs.hops_of_call d s ci = HLoadDelegated (Fr.ci_bytecode ci) :: tl.
Proof.
  intros HD. unfold FramesProofs.hops_of_call.
  destruct (Z.gtb_spec (depth s) Fr.CALL_STACK_LIMIT) as [Hgt|_]; [lia|].
  destruct (load_account_delegated d s (Fr.ci_bytecode ci)) as [[[s1 c1] e1] dc1]. destruct (checkpoint s1) as [s2 cp].
  destruct (Fr.ci_value ci) as [v|v]; [destruct (v =? 0); [|destruct (transfer _ _ _ _ _) as [[s3 [| |]]|]]|]; eexists; reflexivity.
Qed.

(* the recipient of a call transaction, and the delegation target its code designates, are
   loaded by the first frame before it takes its checkpoint: they are warm whatever the frame
   does (EIP-2929 tx.to; EIP-7702 target) *)
Theorem tx_recipient_warm W f to G2 G3 r :
  tx_pre_state W = Some G2 -> HostOps.WF (gdb W (gstate_new W)) (gs (gstate_new W)) -> 0 <= w_value W ->
  do_call W (exec_nc f W) G2 (EvmEtherProofs.tx_call W to) = XDone (G3, r) ->
  acc_warm (gdb W G2) (gs G3) to = true /\
  (forall t, deleg_target (gdb W G2) (gs G2) to = Some t -> acc_warm (gdb W G2) (gs G3) t = true).
Proof.
  intros E Wf Hv HC. set (c := EvmEtherProofs.tx_call W to) in *. set (d := gdb W G2).
  pose proof (tx_pre_state_WF W G2 E Wf) as W2. fold d in W2.
  rewrite <- (do_call_h_erase W (exec_nc_h f W) (exec_nc f W) G2 c (exec_nc_h_erase W f)) in HC.
  destruct (do_call_h W (exec_nc_h f W) G2 c) as [[[G3' r'] h]| |k] eqn:EH; try discriminate. injection HC as <- <-.
  pose proof (do_call_hist W _ G2 c G3' r' h (exec_nc_hist W f) (fun _ => Hv) EH) as GH.
  destruct (ghist_own_base W G2 G3' h GH) as [RUN _]. destruct GH as (_ & OK & _ & _). fold d in RUN.
  destruct (do_call_h_prefix W _ G2 c G3' r' h EH) as (tl & ->).
  destruct (hops_of_call_head d (gs G2) (call_inputs_of W c)) as (tl0 & HH).
  { rewrite (tx_pre_state_depth W G2 E). vm_compute. discriminate. }
  fold d in RUN, OK. rewrite HH in RUN, OK. change (Fr.ci_bytecode (call_inputs_of W c)) with to in RUN, OK.
  cbn [app run_hops run_hop] in RUN.
  destruct (load_account_delegated d (gs G2) to) as [[[s2 cold] empty] dcold] eqn:HL.
  destruct (load_delegated_cold_iff d (gs G2) to s2 cold empty dcold HL) as (_ & C2 & (C31 & C32 & C33)).
  pose proof (HostOps.WF_load_delegated d (gs G2) to s2 cold empty dcold W2 HL) as WFl.
  inversion OK as [|? ? _ OKt]; subst.
  destruct (warm_never_forgotten d _ s2 (gs G3') [] WFl (okhops_contract d _ (s2, []) OKt) RUN) as [KA _].
  destruct (deleg_target d (gs G2) to) as [t|].
  - destruct C2 as (_ & -> & (D1 & D2 & D3)). split.
    + apply KA. destruct (Z.eq_dec to t) as [<-|Hn]; [exact D1|]. rewrite D2; [exact C31|exact Hn].
    + intros t' [= <-]. apply KA. exact D1.
  - destruct C2 as (_ & ->). split; [apply KA; exact C31|discriminate].
Qed.

(* ================================================================= 4. instruction, history and answer together *)

(* ---------------------------------------------------------------- the answers along the history are the warm status *)
(* what the history of an access-causing instruction is, and that the is_cold answer recorded
   for it (AccessRefine3.model_cold) is the negated warm status of the same pre-state that the
   instruction's price was computed from in part 1 *)
Lemma step_hops_access W G F I :
  en (w_spec W) E.BERLIN = true -> In (opcode_at F (i_pc I)) access_ops ->
  step_hops W G F I = op_hops W G F I (opcode_at F (i_pc I)).
Proof.
  intros HB Hin. unfold step_hops. cbv zeta. rewrite (gate_berlin _ _ HB Hin).
  replace ((opcode_at F (i_pc I) =? 0xf5) && f_static F) with false; [reflexivity|].
  unfold access_ops in Hin. cbn [In] in Hin. repeat (destruct Hin as [<-|Hin]; [reflexivity|]). contradiction.
Qed.

Lemma model_cold_is_warm_status d s o :
  match o with
  | HLoad a => AccessRefine3.model_cold d s o = [negb (acc_warm d s a)]
  | HLoadDelegated a =>
      AccessRefine3.model_cold d s o =
        negb (acc_warm d s a) ::
        match deleg_target d s a with Some t => [negb (acc_warm d (fst (load_account d s a)) t)] | None => [] end
  | HSload a k => forall r, sload d s a k = Some r -> AccessRefine3.model_cold d s o = [negb (slot_warm d s a k)]
  | HSstore a k v => forall r, sstore d s a k v = Some r -> AccessRefine3.model_cold d s o = [negb (slot_warm d s a k)]
  | HSelfdestruct a t => forall r, selfdestruct d s a t = Some r -> AccessRefine3.model_cold d s o = [negb (acc_warm d s t)]
  | _ => AccessRefine3.model_cold d s o = []
  end.
Proof.
  destruct o as [a|a|a|a|a c|f t v|c a hs v|a k|a k v|a k|a k v|l|a t| | | ]; cbn [AccessRefine3.model_cold]; try reflexivity.
  - destruct (load_cold_iff d s a) as (C1 & _). rewrite C1. reflexivity.
  - destruct (load_account_delegated d s a) as [[[s2 cold] empty] dcold] eqn:HL.
    destruct (load_delegated_cold_iff d s a s2 cold empty dcold HL) as (C1 & C2 & _).
    destruct (deleg_target d s a) as [t|]; [destruct C2 as (-> & _)|destruct C2 as (-> & _)]; rewrite C1; reflexivity.
  - intros [[s1 v] c] HL. rewrite HL. destruct (sload_cold_iff _ _ _ _ _ _ _ HL) as (C1 & _). rewrite C1. reflexivity.
  - intros [[[s1 o] p] c] HL. rewrite HL. destruct (sstore_cold_iff _ _ _ _ _ _ _ _ _ HL) as (C1 & _). rewrite C1. reflexivity.
  - intros [[[[s1 hv] te] pd] c] HL. rewrite HL. destruct (selfdestruct_cold_iff _ _ _ _ _ _ _ _ _ HL) as (C1 & _). rewrite C1. reflexivity.
Qed.

(* the three views of one instruction together (SLOAD and BALANCE as representatives): the
   charge, the recorded operation and its recorded answer, the effect on the warm status *)
Lemma step_sload_summary W G F I k r s1 v cold :
  en (w_spec W) E.BERLIN = true -> opcode_at F (i_pc I) = 0x54 -> i_stk I = k :: r ->
  sload (gdb W G) (gs G) (f_target F) k = Some (s1, v, cold) ->
  let w := slot_warm (gdb W G) (gs G) (f_target F) k in
  step W G F I = (set_s G s1, with_gas (slot_price w) I (fun I1 => next (set_stk I1 (v :: r)))) /\
  step_hops W G F I = [HSload (f_target F) k] /\
  AccessRefine3.model_cold (gdb W G) (gs G) (HSload (f_target F) k) = [negb w] /\
  warms_slot (gdb W G) (gs G) s1 (f_target F) k.
Proof.
  intros HB Hop HS HL w. destruct (step_access_dispatch W G F I HB) as (_ & _ & _ & _ & D & _).
  destruct (op_sload_access W G F I k r s1 v cold HB HS HL) as [A B].
  split; [rewrite (D Hop); exact A|]. split; [|split; [|exact B]].
  - rewrite step_hops_access by (try assumption; rewrite Hop; unfold access_ops; cbn [In]; tauto).
    rewrite Hop. change (op_hops W G F I 0x54) with (hops_sload W G F I). unfold hops_sload. rewrite HS, HL. reflexivity.
  - exact (model_cold_is_warm_status (gdb W G) (gs G) (HSload (f_target F) k) _ HL).
Qed.
Lemma step_balance_summary W G F I a r :
  en (w_spec W) E.BERLIN = true -> opcode_at F (i_pc I) = 0x31 -> i_stk I = a :: r ->
  let x := addr_of_word a in let w := acc_warm (gdb W G) (gs G) x in
  step W G F I =
    (set_s G (ld W G x),
     with_gas (acct_price w) (set_stk I r) (push_next (match st (ld W G x) x with Some acc => a_bal acc | None => 0 end))) /\
  step_hops W G F I = [HLoad x] /\
  AccessRefine3.model_cold (gdb W G) (gs G) (HLoad x) = [negb w] /\
  warms_addr (gdb W G) (gs G) (ld W G x) x.
Proof.
  intros HB Hop HS x w. destruct (step_access_dispatch W G F I HB) as (D & _).
  destruct (op_balance_access W G I a r HB HS) as [A B].
  split; [rewrite (D Hop); exact A|]. split; [|split; [|exact B]].
  - rewrite step_hops_access by (try assumption; rewrite Hop; unfold access_ops; cbn [In]; tauto).
    rewrite Hop. change (op_hops W G F I 0x31) with (hops_top I). unfold hops_top. rewrite HS. reflexivity.
  - exact (model_cold_is_warm_status (gdb W G) (gs G) (HLoad x)).
Qed.
