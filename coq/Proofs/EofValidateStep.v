(* Soundness of the EOF validator model: one iteration of the instruction loop of
   validate_eof_code ([step]) taken apart. [step_inv] exposes the passes over the per-byte table;
   the [dispatch_*] lemmas characterise the opcode match (targets, operands, stack requirement,
   access tracker) against definitions that read the code bytes only. *)
From RevmV Require Import Model.Eof Model.EofValidate Proofs.EofProofs Proofs.EofValidateProofs
  Proofs.EofValidateTables.
From Coq Require Import ZArith List Lia Bool.
Import ListNotations.
Local Open Scope Z_scope.

(* ------------------------------------------------------------------------------------------ *)
(* independent readers: relative-jump targets of the instruction at p (EIP-4200: relative to    *)
(* the end of the instruction)                                                                  *)
(* ------------------------------------------------------------------------------------------ *)
Definition rd_u16 (code : bytes) (i : Z) : option Z :=
  match get code i, get code (i + 1) with Some h, Some l => Some (h * 256 + l) | _, _ => None end.
Definition rd_i16 (code : bytes) (i : Z) : option Z :=
  match rd_u16 code i with Some u => Some (if u <? 32768 then u else u - 65536) | None => None end.
Fixpoint rjumpv_tg (code : bytes) (base tbl : Z) (cnt : nat) : option (list Z) :=
  match cnt with
  | O => Some []
  | S c => match rd_i16 code tbl, rjumpv_tg code base (tbl + 2) c with
           | Some off, Some r => Some ((base + off) :: r)
           | _, _ => None
           end
  end.
Definition jump_targets (code : bytes) (p : Z) : option (list Z) :=
  match get code p with
  | None => None
  | Some op =>
    if (op =? OP_RJUMP) || (op =? OP_RJUMPI) then
      match rd_i16 code (p + 1) with Some off => Some [p + 3 + off] | None => None end
    else if op =? OP_RJUMPV then
      match get code (p + 1) with
      | Some mx => rjumpv_tg code (p + 2 + 2 * (mx + 1)) (p + 2) (Z.to_nat (mx + 1))
      | None => None
      end
    else Some []
  end.

Lemma read_u16_rd code i x : read_u16_at code i = VOk x <-> rd_u16 code i = Some x.
Proof.
  unfold read_u16_at, rd_u16. destruct (get code i); cbn [vidx vbind]; [|split; discriminate].
  destruct (get code (i + 1)); cbn [vidx vbind]; split; intros H; inversion H; reflexivity.
Qed.
Lemma read_i16_rd code i x : read_i16_at code i = VOk x <-> rd_i16 code i = Some x.
Proof.
  unfold read_i16_at, rd_i16. destruct (read_u16_at code i) as [u| | |] eqn:E; cbn [vbind].
  - apply read_u16_rd in E. rewrite E. split; intros H; inversion H; reflexivity.
  - destruct (rd_u16 code i) eqn:E'; [apply read_u16_rd in E'; congruence|]. split; discriminate.
  - destruct (rd_u16 code i) eqn:E'; [apply read_u16_rd in E'; congruence|]. split; discriminate.
  - destruct (rd_u16 code i) eqn:E'; [apply read_u16_rd in E'; congruence|]. split; discriminate.
Qed.

Lemma rjumpv_targets_tg code i add : forall cnt v l,
  rjumpv_targets code i add v cnt = VOk l -> rjumpv_tg code (i + 2 + add) (i + 2 + 2 * v) cnt = Some l.
Proof.
  induction cnt as [|c IH]; intros v l H; cbn [rjumpv_targets rjumpv_tg] in *.
  - inversion H. reflexivity.
  - destruct (read_i16_at code (i + 2 + 2 * v)) as [off| | |] eqn:E; cbn [vbind] in H; try discriminate.
    apply read_i16_rd in E. rewrite E.
    destruct (rjumpv_targets code i add (v + 1) c) as [r| | |] eqn:Er; cbn [vbind] in H; try discriminate.
    apply IH in Er. replace (i + 2 + 2 * v + 2) with (i + 2 + 2 * (v + 1)) by lia. rewrite Er.
    inversion H. f_equal. f_equal. lia.
Qed.

(* ------------------------------------------------------------------------------------------ *)
(* [step] = table passes around the opcode match                                               *)
(* ------------------------------------------------------------------------------------------ *)
Definition dispatch (code : bytes) (data_size : Z) (this_types : TypesSection) (num_of_containers : Z)
           (types : list TypesSection) (s : LoopState) (op : Z) (opcode : OpInfo) (ti : Info)
           (jumps : list Info) : vr (list Info * Z * Z * Z * list Z * bool * Tracker) :=
  let i := l_i s in
  let code_len := len code in
  let io_diff := op_outputs opcode - op_inputs opcode in
  let req := op_inputs opcode in
      (if (op =? OP_RJUMP) || (op =? OP_RJUMPI) then
         let+ off := read_i16_at code (i + 1) in
         VOk (jumps, io_diff, req, 0, [off + 3 + i], l_returning s, l_tracker s)
       else if op =? OP_RJUMPV then
         let+ max_index := vidx (get code (i + 1)) in
         let ln := max_index + 1 in
         let add := ln * 2 in
         if i + 1 + add >=? code_len then VErrV MissingRJUMPVImmediateBytes else
         let+ jumps := mark_immediates jumps (i + 2) (Z.to_nat add) in
         let+ tg := rjumpv_targets code i add 0 (Z.to_nat ln) in
         VOk (jumps, io_diff, req, add, tg, l_returning s, l_tracker s)
       else if op =? OP_CALLF then
         let+ section_i := read_u16_at code (i + 1) in
         match nth_z types section_i with
         | None => VErrV CodeSectionOutOfBounds
         | Some tgt =>
           if is_non_returning tgt then VErrV CALLFNonReturningFunction else
           let req := inputs tgt in
           let diff := outputs tgt - inputs tgt in
           let+ tr := access_code (l_tracker s) section_i in
           if biggest ti - req + max_stack_size tgt >? STACK_LIMIT then VErrV StackOverflow
           else VOk (jumps, diff, req, 0, [], l_returning s, tr)
         end
       else if op =? OP_JUMPF then
         let+ target_index := read_u16_at code (i + 1) in
         match nth_z types target_index with
         | None => VErrV CodeSectionOutOfBounds
         | Some tgt =>
           if biggest ti - inputs tgt + max_stack_size tgt >? STACK_LIMIT then VErrV StackOverflow else
           let+ tr := access_code (l_tracker s) target_index in
           if is_non_returning tgt then VOk (jumps, io_diff, inputs tgt, 0, [], l_returning s, tr)
           else
             if outputs this_types <? outputs tgt then VErrV JUMPFEnoughOutputs else
             let req := outputs this_types + inputs tgt - outputs tgt in
             if biggest ti >? req then VErrV JUMPFStackHigherThanOutputs else
             if biggest ti + req >? STACK_LIMIT then VErrV StackOverflow else
             VOk (jumps, io_diff, req, 0, [], true, tr)
         end
       else if op =? OP_EOFCREATE then
         let+ index := vidx (get code (i + 1)) in
         if index >=? num_of_containers then VErrV EOFCREATEInvalidIndex else
         let+ tr := set_subcontainer_type (l_tracker s) index ReturnContract in
         VOk (jumps, io_diff, req, 0, [], l_returning s, tr)
       else if op =? OP_RETURNCONTRACT then
         let+ index := vidx (get code (i + 1)) in
         if index >=? num_of_containers then VErrV EOFCREATEInvalidIndex else
         let '(tr, differs) := get_or_insert_differs (l_tracker s) ReturnContract in
         if differs then VErrV SubContainerCalledInTwoModes else
         let+ tr := set_subcontainer_type tr index ReturnOrStop in
         VOk (jumps, io_diff, req, 0, [], l_returning s, tr)
       else if (op =? OP_RETURN) || (op =? OP_STOP) then
         let '(tr, differs) := get_or_insert_differs (l_tracker s) ReturnOrStop in
         if differs then VErrV SubContainerCalledInTwoModes else
         VOk (jumps, io_diff, req, 0, [], l_returning s, tr)
       else if op =? OP_DATALOADN then
         let+ index := read_u16_at code (i + 1) in
         if (data_size <? 32) || (index >? data_size - 32) then VErrV DataLoadOutOfBounds
         else VOk (jumps, io_diff, req, 0, [], l_returning s, l_tracker s)
       else if op =? OP_RETF then
         let req := outputs this_types in
         if biggest ti >? req then VErrV RETFBiggestStackNumMoreThenOutputs
         else VOk (jumps, io_diff, req, 0, [], true, l_tracker s)
       else if op =? OP_DUPN then
         let+ n := vidx (get code (i + 1)) in
         VOk (jumps, io_diff, n + 1, 0, [], l_returning s, l_tracker s)
       else if op =? OP_SWAPN then
         let+ n := vidx (get code (i + 1)) in
         VOk (jumps, io_diff, n + 2, 0, [], l_returning s, l_tracker s)
       else if op =? OP_EXCHANGE then
         let+ im := vidx (get code (i + 1)) in
         VOk (jumps, io_diff, (im / 16 + 1) + (im mod 16 + 1) + 1, 0, [], l_returning s, l_tracker s)
       else VOk (jumps, io_diff, req, 0, [], l_returning s, l_tracker s)).

(* the interval recorded for the instruction at l_i s: merged with the fall-through interval
   unless the previous instruction was terminating *)
Definition cur_info (s : LoopState) (ti0 : Info) : Info :=
  if l_after_term s then ti0
  else mkInfo (is_immediate ti0) (is_jumpdest ti0)
              (Z.min (smallest ti0) (l_next_smallest s)) (Z.max (biggest ti0) (l_next_biggest s)).

Lemma step_unfold code ds tt nc types s :
  step code ds tt nc types s =
  let i := l_i s in
  let+ op := vidx (get code i) in
  match op_info op with
  | None => VErrV UnknownOpcode
  | Some opcode =>
    if op_not_eof opcode then VErrV OpcodeDisabled else
    let+ ti0 := vidx (nth_z (l_jumps s) i) in
    let ti := cur_info s ti0 in
    let jumps := upd_z (l_jumps s) i ti in
    if l_after_term s && negb (is_jumpdest ti) then VErrV InstructionNotForwardAccessed else
    let imm := op_imm opcode in
    let+ jumps :=
      (if negb (imm =? 0) then
         if i + imm >=? len code then VErrV MissingImmediateBytes
         else mark_immediates jumps (i + 1) (Z.to_nat imm)
       else VOk jumps) in
    let+ m := dispatch code ds tt nc types s op opcode ti jumps in
    let '(jumps, diff, req, add, targets, returning, tr) := m in
    if req >? smallest ti then VErrV StackUnderflow else
    let+ jumps := process_jumps jumps (len code) i (smallest ti + diff) (biggest ti + diff) targets in
    VOk (mkLoop (i + 1 + imm + add) jumps (op_term opcode) (smallest ti + diff) (biggest ti + diff) returning tr)
  end.
Proof. reflexivity. Qed.

Ltac vstepn H x Ex :=
  match type of H with
  | vbind ?r _ = VOk _ => destruct r as [x| | |] eqn:Ex; cbn [vbind] in H; try discriminate H
  end.

Lemma step_inv code ds tt nc types s s' :
  step code ds tt nc types s = VOk s' ->
  exists op o ti0 J2 J3 diff req add targets returning tr,
    get code (l_i s) = Some op /\ op_info op = Some o /\ op_not_eof o = false /\
    nth_z (l_jumps s) (l_i s) = Some ti0 /\
    (l_after_term s = true -> is_jumpdest ti0 = true) /\
    (if op_imm o =? 0 then J2 = upd_z (l_jumps s) (l_i s) (cur_info s ti0)
     else l_i s + op_imm o < len code /\
          mark_immediates (upd_z (l_jumps s) (l_i s) (cur_info s ti0)) (l_i s + 1) (Z.to_nat (op_imm o)) = VOk J2) /\
    dispatch code ds tt nc types s op o (cur_info s ti0) J2 = VOk (J3, diff, req, add, targets, returning, tr) /\
    req <= smallest (cur_info s ti0) /\
    process_jumps J3 (len code) (l_i s) (smallest (cur_info s ti0) + diff) (biggest (cur_info s ti0) + diff) targets
      = VOk (l_jumps s') /\
    s' = mkLoop (l_i s + 1 + op_imm o + add) (l_jumps s') (op_term o)
                (smallest (cur_info s ti0) + diff) (biggest (cur_info s ti0) + diff) returning tr.
Proof.
  intros H. rewrite step_unfold in H. cbv zeta in H.
  destruct (get code (l_i s)) as [op|] eqn:Eop; cbn [vidx vbind] in H; [|discriminate].
  destruct (op_info op) as [o|] eqn:Eo; [|discriminate].
  destruct (op_not_eof o) eqn:Ene; [discriminate|].
  destruct (nth_z (l_jumps s) (l_i s)) as [ti0|] eqn:Eti; cbn [vidx vbind] in H; [|discriminate].
  destruct (l_after_term s && negb (is_jumpdest (cur_info s ti0))) eqn:Eat; [discriminate|].
  vstepn H J2 EJ2. vstepn H m Em. destruct m as [[[[[[J3 diff] req] add] targets] returning] tr].
  destruct (Z.gtb_spec req (smallest (cur_info s ti0))) as [|Hreq]; [discriminate|].
  vstepn H J4 EJ4. inversion H. cbn [l_jumps].
  exists op, o, ti0, J2, J3, diff, req, add, targets, returning, tr.
  repeat split; auto.
  - intros Ha. rewrite Ha in Eat. cbn [andb] in Eat. unfold cur_info in Eat. rewrite Ha in Eat.
    destruct (is_jumpdest ti0); [reflexivity|discriminate].
  - destruct (op_imm o =? 0); cbn [negb] in EJ2.
    + inversion EJ2. reflexivity.
    + destruct (Z.geb_spec (l_i s + op_imm o) (len code)); [discriminate|]. split; [lia|assumption].
Qed.

(* peel the monadic prefix of a dispatch branch *)
Ltac peel H :=
  repeat first
   [ match type of H with vbind (vidx ?o) _ = VOk _ =>
       let x := fresh "x" in let E := fresh "Eg" in
       destruct o as [x|] eqn:E; cbn [vidx vbind] in H; [|discriminate H] end
   | match type of H with vbind ?r _ = VOk _ =>
       let x := fresh "x" in let E := fresh "Er" in
       destruct r as [x| | |] eqn:E; cbn [vbind] in H; [|discriminate H..] end
   | match type of H with context [let '(_, _) := ?p in _] => let E := fresh "Ep" in destruct p eqn:E end
   | match type of H with context [nth_z ?l ?k] => let E := fresh "En" in destruct (nth_z l k) eqn:E; [|discriminate H] end
   | match type of H with (if ?c then _ else _) = VOk _ => let E := fresh "Ec" in destruct c eqn:E; try discriminate H end ].

(* split on the opcode the way [dispatch] does; leaves the boolean tests in the context *)
Ltac dispatch_cases H op :=
  unfold dispatch in H; cbv zeta in H;
  destruct ((op =? OP_RJUMP) || (op =? OP_RJUMPI)) eqn:B1; [|
  destruct (op =? OP_RJUMPV) eqn:B2; [|
  destruct (op =? OP_CALLF) eqn:B3; [|
  destruct (op =? OP_JUMPF) eqn:B4; [|
  destruct (op =? OP_EOFCREATE) eqn:B5; [|
  destruct (op =? OP_RETURNCONTRACT) eqn:B6; [|
  destruct ((op =? OP_RETURN) || (op =? OP_STOP)) eqn:B7; [|
  destruct (op =? OP_DATALOADN) eqn:B8; [|
  destruct (op =? OP_RETF) eqn:B9; [|
  destruct (op =? OP_DUPN) eqn:B10; [|
  destruct (op =? OP_SWAPN) eqn:B11; [|
  destruct (op =? OP_EXCHANGE) eqn:B12 ]]]]]]]]]]];
  peel H; inversion H; subst; clear H.

Lemma dispatch_shape code ds tt nc types s op o ti J2 J3 diff req add targets returning tr :
  dispatch code ds tt nc types s op o ti J2 = VOk (J3, diff, req, add, targets, returning, tr) ->
  get code (l_i s) = Some op ->
  jump_targets code (l_i s) = Some targets /\
  (if op =? OP_RJUMPV
   then exists mx, get code (l_i s + 1) = Some mx /\ add = (mx + 1) * 2 /\ l_i s + 1 + add < len code /\
                   mark_immediates J2 (l_i s + 2) (Z.to_nat add) = VOk J3
   else add = 0 /\ J3 = J2).
Proof.
  intros H Eop. unfold jump_targets. rewrite Eop.
  dispatch_cases H op; rewrite ?B1, ?B2; try (split; [reflexivity|split; reflexivity]).
  - assert (op =? OP_RJUMPV = false) as ->
      by (apply orb_true_iff in B1; rewrite !Z.eqb_eq in B1; apply Z.eqb_neq; unfold OP_RJUMP, OP_RJUMPI, OP_RJUMPV in *; lia).
    apply read_i16_rd in Er. rewrite Er. split; [f_equal; f_equal; lia|split; reflexivity].
  - apply rjumpv_targets_tg in Er0.
    replace (l_i s + 2 + 2 * 0) with (l_i s + 2) in Er0 by lia.
    replace (l_i s + 2 + 2 * (x + 1)) with (l_i s + 2 + (x + 1) * 2) by lia. split; [exact Er0|].
    exists x. rewrite Z.geb_leb in Ec. apply Z.leb_gt in Ec. repeat split; auto; lia.
Qed.

Lemma op_info_rjumpv_imm o : op_info OP_RJUMPV = Some o -> op_imm o = 1.
Proof. intros H. vm_compute in H. inversion H. reflexivity. Qed.

Lemma next_pc_gt code p n : bytes_ok code -> next_pc code p = Some n -> p < n.
Proof.
  intros Hb. unfold next_pc. destruct (get code p) as [op|] eqn:Eop; [|discriminate].
  destruct (op_info op) as [o|] eqn:Eo; [|discriminate].
  pose proof (op_info_imm_nonneg _ _ Eo).
  destruct (op =? OP_RJUMPV).
  - destruct (get code (p + 1)) as [mx|] eqn:Em; [|discriminate].
    pose proof (get_byte _ _ _ Hb Em). intros H'. inversion H'. lia.
  - intros H'. inversion H'. lia.
Qed.

(* the net effect of one iteration on the flags of the per-byte table *)
Definition table_R (i i' : Z) (targets : list Z) (j : Z) (a a' : Info) : Prop :=
  (is_immediate a = true -> is_immediate a' = true) /\
  (i < j < i' -> is_immediate a' = true /\ is_jumpdest a = false) /\
  (is_immediate a' = true -> is_immediate a = true \/ i < j < i') /\
  (is_jumpdest a = true -> is_jumpdest a' = true) /\
  (is_jumpdest a' = true -> is_jumpdest a = true \/ In j targets) /\
  (In j targets -> is_jumpdest a' = true /\ is_immediate a' = false).

Lemma step_table code ds tt nc types s s' :
  bytes_ok code -> step code ds tt nc types s = VOk s' ->
  exists targets,
    jump_targets code (l_i s) = Some targets /\ next_pc code (l_i s) = Some (l_i s') /\
    0 <= l_i s < l_i s' /\ l_i s' <= len code /\
    jrel (table_R (l_i s) (l_i s') targets) (l_jumps s) (l_jumps s') /\
    (forall t, In t targets -> 0 <= t < len code).
Proof.
  intros Hb H. apply step_inv in H.
  destruct H as (op & o & ti0 & J2 & J3 & diff & req & add & targets & returning & tr &
                 Eop & Eo & Ene & Eti & Hat & HJ2 & Hd & Hreq & Hpj & Es').
  pose proof (op_info_imm_nonneg _ _ Eo) as Himm.
  pose proof (nth_z_lt _ _ _ Eti) as Bi. pose proof (get_lt _ _ _ Eop) as Bc.
  destruct (dispatch_shape _ _ _ _ _ _ _ _ _ _ _ _ _ _ _ _ _ Hd Eop) as (Etg & Hsh).
  set (i := l_i s) in *. set (J1 := upd_z (l_jumps s) i (cur_info s ti0)) in *.
  assert (M1 : mark_immediates J1 (i + 1) (Z.to_nat (op_imm o)) = VOk J2 /\ i + op_imm o < len code).
  { destruct (Z.eqb_spec (op_imm o) 0) as [E0|].
    - subst J2. rewrite E0. split; [reflexivity|lia].
    - destruct HJ2. split; assumption. }
  destruct M1 as (M1 & Blen).
  assert (M2 : mark_immediates J2 (i + 2) (Z.to_nat add) = VOk J3 /\ 0 <= add /\ i + 1 + op_imm o + add <= len code /\
               (add = 0 \/ op_imm o = 1) /\
               next_pc code i = Some (i + 1 + op_imm o + add)).
  { unfold next_pc. rewrite Eop, Eo. destruct (Z.eqb_spec op OP_RJUMPV) as [->|].
    - destruct Hsh as (mx & Emx & Ea & Bl & Hm). rewrite Emx. pose proof (get_byte _ _ _ Hb Emx).
      pose proof (op_info_rjumpv_imm _ Eo). repeat split; try assumption; try lia. f_equal. lia.
    - destruct Hsh as (-> & ->). repeat split; try reflexivity; try lia; try (f_equal; lia). }
  destruct M2 as (M2 & Hadd & Bl' & Hai & Enext).
  assert (Ei' : l_i s' = i + 1 + op_imm o + add) by (rewrite Es'; reflexivity).
  apply mark_immediates_spec in M1; [|lia]. apply mark_immediates_spec in M2; [|lia].
  rewrite Z2Nat.id in M1, M2 by lia.
  destruct M1 as (M1 & _). destruct M2 as (M2 & _).
  apply process_jumps_spec in Hpj. destruct Hpj as (Hpj & Htg).
  exists targets. rewrite Ei'. split; [assumption|]. split; [assumption|]. split; [lia|]. split; [lia|]. split; [|exact Htg]. split.
  - destruct M1 as (L1 & _). destruct M2 as (L2 & _). destruct Hpj as (L3 & _).
    rewrite L3, L2, L1. apply upd_z_length.
  - intros j a a' Ea Ea'.
    destruct (jrel_some_bwd _ _ _ _ _ Hpj Ea') as (a3 & Ea3 & R3).
    destruct (jrel_some_bwd _ _ _ _ _ M2 Ea3) as (a2 & Ea2 & R2).
    destruct (jrel_some_bwd _ _ _ _ _ M1 Ea2) as (a1 & Ea1 & R1).
    assert (F1 : is_immediate a1 = is_immediate a /\ is_jumpdest a1 = is_jumpdest a).
    { subst J1. destruct (Z.eq_dec j i) as [->|Hne].
      - rewrite nth_z_upd_same in Ea1 by assumption. inversion Ea1. fold i in Eti. rewrite Eti in Ea. inversion Ea. subst a.
        unfold cur_info. destruct (l_after_term s); split; reflexivity.
      - rewrite nth_z_upd_other in Ea1 by lia. rewrite Ea in Ea1. inversion Ea1. split; reflexivity. }
    destruct F1 as (F1 & F1').
    destruct R1 as (_ & _ & R1j & R1in & R1out). destruct R2 as (_ & _ & R2j & R2in & R2out).
    destruct R3 as (P1 & P2 & P3 & P4 & _).
    assert (Hrange : i < j < i + 1 + op_imm o + add <-> (i + 1 <= j < i + 1 + op_imm o) \/ (i + 2 <= j < i + 2 + add)) by lia.
    assert (Him : is_immediate a3 = true <-> is_immediate a = true \/ i < j < i + 1 + op_imm o + add).
    { rewrite Hrange. split.
      - intros X. destruct (Z_lt_le_dec j (i + 2)) as [C2|C2]; [|destruct (Z_lt_le_dec j (i + 2 + add)) as [C3|C3]].
        + rewrite (R2out ltac:(lia)) in X.
          destruct (Z_lt_le_dec j (i + 1)) as [C1|C1]; [|destruct (Z_lt_le_dec j (i + 1 + op_imm o)) as [C4|C4]].
          * rewrite (R1out ltac:(lia)) in X. left. congruence.
          * right. left. lia.
          * rewrite (R1out ltac:(lia)) in X. left. congruence.
        + right. right. lia.
        + rewrite (R2out ltac:(lia)) in X.
          destruct (Z_lt_le_dec j (i + 1 + op_imm o)) as [C4|C4].
          * right. left. lia.
          * rewrite (R1out ltac:(lia)) in X. left. congruence.
      - intros [X|[X|X]].
        + destruct (Z_lt_le_dec j (i + 2)) as [C2|C2]; [|destruct (Z_lt_le_dec j (i + 2 + add)) as [C3|C3]].
          * rewrite (R2out ltac:(lia)).
            destruct (Z_lt_le_dec j (i + 1)) as [C1|C1]; [|destruct (Z_lt_le_dec j (i + 1 + op_imm o)) as [C4|C4]].
            -- rewrite (R1out ltac:(lia)). congruence.
            -- apply R1in. lia.
            -- rewrite (R1out ltac:(lia)). congruence.
          * apply R2in. lia.
          * rewrite (R2out ltac:(lia)).
            destruct (Z_lt_le_dec j (i + 1 + op_imm o)) as [C4|C4].
            -- apply R1in. lia.
            -- rewrite (R1out ltac:(lia)). congruence.
        + destruct (Z_lt_le_dec j (i + 2)) as [C2|C2]; [|destruct (Z_lt_le_dec j (i + 2 + add)) as [C3|C3]].
          * rewrite (R2out ltac:(lia)). apply R1in. lia.
          * apply R2in. lia.
          * rewrite (R2out ltac:(lia)). apply R1in. lia.
        + apply R2in. lia. }
    assert (Hjd3 : is_jumpdest a3 = is_jumpdest a) by congruence.
    unfold table_R. rewrite P1. repeat split.
    + intros X. apply Him. left. exact X.
    + apply Him. right. lia.
    + rewrite <- F1'. destruct (proj1 Hrange ltac:(lia)) as [X|X].
      * apply R1in. exact X.
      * rewrite <- R1j. apply R2in. exact X.
    + intros X. apply Him. exact X.
    + intros X. apply P2. congruence.
    + intros X. destruct (P4 X) as [Y|Y]; [left; congruence|right; exact Y].
    + apply P3. assumption.
    + apply P3. assumption.
Qed.
