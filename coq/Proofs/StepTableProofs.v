(* Facts about the executed opcode table Gen/StepTable.v, proved by computation over all
   SpecIds x 4 profiles x 256 opcode bytes and lifted to quantified statements. *)
From Coq Require Import ZifyBool.
From RevmV Require Import Base.Word Model.Jump Model.Gas Gen.OpInfo Gen.StepTable Model.ControlFlow Model.StepCost
  Proofs.ControlFlowProofs.
Local Open Scope Z_scope.

Lemma all_rows_check : forallb row_check step_rows = true.
Proof. vm_compute. reflexivity. Qed.

Lemma find_row_in rows spec p cells :
  find_row rows spec p = Some cells -> In (spec, p, cells) rows.
Proof.
  induction rows as [|[[s q] c] r IH]; [discriminate|]. cbn [find_row].
  destruct ((s =? spec) && (q =? p)) eqn:E.
  - intros H. inversion H. subst. apply andb_true_iff in E. destruct E as [E1 E2].
    apply Z.eqb_eq in E1. apply Z.eqb_eq in E2. subst. left. reflexivity.
  - intros H. right. apply IH. exact H.
Qed.

Lemma cells_check_nth p k cs n c :
  cells_check p k cs = true -> nth_error cs n = Some c -> cell_check p (k + Z.of_nat n) c = true.
Proof.
  revert k n. induction cs as [|x r IH]; intros k n H Hn; [destruct n; discriminate|].
  cbn [cells_check] in H. apply andb_true_iff in H. destruct H as [H1 H2].
  destruct n as [|n].
  - cbn in Hn. inversion Hn. subst. replace (k + Z.of_nat 0) with k by lia. exact H1.
  - cbn [nth_error] in Hn. replace (k + Z.of_nat (S n)) with ((k + 1) + Z.of_nat n) by lia.
    apply IH; assumption.
Qed.

(* every cell of the table passes [cell_check] *)
Lemma table_cell_check spec p op c :
  table_cell spec p op = Some c -> cell_check p op c = true /\ 0 <= p < N_PROFILES /\ 0 <= op < 256.
Proof.
  unfold table_cell, table_row. destruct (find_row step_rows spec p) as [cells|] eqn:E; [|discriminate].
  destruct ((0 <=? op) && (op <? 256)) eqn:Eop; [|discriminate]. intros Hn.
  apply find_row_in in E. pose proof all_rows_check as A. rewrite forallb_forall in A.
  specialize (A _ E). cbn [row_check] in A.
  apply andb_true_iff in A. destruct A as [A A4]. apply andb_true_iff in A. destruct A as [A A3].
  apply andb_true_iff in A. destruct A as [A1 A2].
  apply Z.leb_le in A2. apply Z.ltb_lt in A3.
  apply andb_true_iff in Eop. destruct Eop as [O1 O2]. apply Z.leb_le in O1. apply Z.ltb_lt in O2.
  pose proof (cells_check_nth p 0 cells (Z.to_nat op) c A4 Hn) as H.
  replace (0 + Z.of_nat (Z.to_nat op)) with op in H by lia.
  split; [exact H|]. split; lia.
Qed.

Lemma cell_check_parts p op c :
  cell_check p op c = true -> cell_spec_ok c = true /\ cell_io_ok p op c = true /\ cell_term_ok op c = true.
Proof.
  unfold cell_check. intros H. apply andb_true_iff in H. destruct H as [H H3].
  apply andb_true_iff in H. destruct H as [H1 H2]. auto.
Qed.

(* a continuing execution charged at least 1 gas, in every SpecId, profile and for every opcode *)
Theorem table_continuing_charges spec p op c :
  table_cell spec p op = Some c -> continuing c = true -> 1 <= cell_spent c.
Proof.
  intros H Hc. destruct (table_cell_check _ _ _ _ H) as (Hk & _ & _).
  apply cell_check_parts in Hk. destruct Hk as (H1 & _ & _).
  unfold cell_spec_ok in H1. rewrite Hc in H1.
  apply andb_true_iff in H1. destruct H1 as [H1 _]. apply andb_true_iff in H1. destruct H1 as [H1 _].
  apply andb_true_iff in H1. destruct H1 as [_ H1]. apply Z.leb_le in H1. exact H1.
Qed.

(* no instruction panicked *)
Theorem table_no_panic spec p op c : table_cell spec p op = Some c -> cell_class c <> 9.
Proof.
  intros H. destruct (table_cell_check _ _ _ _ H) as (Hk & _ & _).
  apply cell_check_parts in Hk. destruct Hk as (H1 & _ & _).
  unfold cell_spec_ok in H1.
  apply andb_true_iff in H1. destruct H1 as [H1 _]. apply andb_true_iff in H1. destruct H1 as [H1 _].
  apply andb_true_iff in H1. destruct H1 as [H1 _].
  apply negb_true_iff in H1. apply Z.eqb_neq in H1. exact H1.
Qed.

(* the stack: a continuing instruction had its inputs, and the new length is len - inputs + outputs
   <= 1024 (CallOrCreate: the outputs are pushed when the sub-call returns); underflow / overflow are
   reported only when the operands are really missing / the limit would really be exceeded; with too
   few operands no instruction succeeds; on a full stack no instruction that grows it continues *)
Theorem table_stack_effect spec p op c :
  table_cell spec p op = Some c ->
  let len := profile_len p op in let i := op_inputs op in let o := op_outputs op in
  (cell_class c = 0 -> i <= len /\ cell_len c = len - i + o /\ cell_len c <= 1024) /\
  (cell_class c = 1 -> i <= len /\ cell_len c = len - i) /\
  (cell_class c = 4 -> len < i) /\
  (cell_class c = 5 -> 1024 < len - i + o) /\
  (len < i -> 3 < cell_class c) /\
  (1024 < len - i + o -> cell_class c <> 0) /\
  0 <= cell_len c <= 1024.
Proof.
  intros H. destruct (table_cell_check _ _ _ _ H) as (Hk & _ & _).
  apply cell_check_parts in Hk. destruct Hk as (H1 & H2 & _).
  unfold cell_spec_ok in H1. unfold cell_io_ok in H2. cbv zeta.
  set (len := profile_len p op) in *. set (i := op_inputs op) in *. set (o := op_outputs op) in *.
  set (cl := cell_class c) in *. set (l := cell_len c) in *.
  apply andb_true_iff in H1. destruct H1 as [H1 L2]. apply andb_true_iff in H1. destruct H1 as [_ L1].
  apply Z.leb_le in L1. apply Z.leb_le in L2.
  apply andb_true_iff in H2. destruct H2 as [H2 _]. apply andb_true_iff in H2. destruct H2 as [H2 G3].
  apply andb_true_iff in H2. destruct H2 as [G1 G2].
  destruct (cl =? 0) eqn:E0; destruct (cl =? 1) eqn:E1; destruct (cl =? 4) eqn:E4; destruct (cl =? 5) eqn:E5;
  destruct (len <? i) eqn:Eu; destruct (1024 <? len - i + o) eqn:Eo; cbn [negb andb] in *;
  try discriminate; repeat split; intros; try lia.
Qed.

(* an opcode that the control-flow model treats as ending the run (STOP, RETURN, REVERT, INVALID,
   SELFDESTRUCT, undefined bytes, opcodes with an immediate that legacy code does not read) never
   leaves the result at Continue / CallOrCreate, whatever the SpecId *)
Theorem table_term_never_continues spec p op c :
  table_cell spec p op = Some c -> cf_class_of op = CTerm -> continuing c = false.
Proof.
  intros H Hc. destruct (table_cell_check _ _ _ _ H) as (Hk & _ & _).
  apply cell_check_parts in Hk. destruct Hk as (_ & _ & H3).
  unfold cell_term_ok in H3. rewrite Hc in H3. apply negb_true_iff in H3. exact H3.
Qed.

(* the lower bound used by the frame machine is positive *)
Lemma opt_min_pos a b : (forall x, a = Some x -> 1 <= x) -> 1 <= b -> forall y, opt_min a b = Some y -> 1 <= y.
Proof. intros Ha Hb y. destruct a as [x|]; cbn [opt_min]; intros H; inversion H; subst; [specialize (Ha x eq_refl)|]; lia. Qed.

Theorem charge_lb_pos spec : lb_pos (charge_lb spec).
Proof.
  intros op m. unfold charge_lb. cbn [fold_left].
  assert (Step : forall acc p, (forall x, acc = Some x -> 1 <= x) ->
            forall y, match table_cell spec p op with
                      | Some c => if continuing c then opt_min acc (cell_spent c) else acc
                      | None => acc end = Some y -> 1 <= y).
  { intros acc p Ha y. destruct (table_cell spec p op) as [c|] eqn:E; [|apply Ha].
    destruct (continuing c) eqn:Ec; [|apply Ha].
    apply opt_min_pos; [exact Ha|]. eapply table_continuing_charges; eassumption. }
  apply Step. apply Step. apply Step. apply Step. discriminate.
Qed.

(* the table is not empty: every SpecId of the build has its four rows *)
Lemma table_specs_rows : forallb (fun s => forallb (fun p => match table_row s p with Some _ => true | None => false end) [0; 1; 2; 3]) table_specs = true
                         /\ (20 <=? Z.of_nat (length table_specs)) = true.
Proof. split; vm_compute; reflexivity. Qed.
