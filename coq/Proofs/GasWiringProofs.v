(* C14, wiring level: the step-by-step charge of real opcodes as written in Corr/C14.v
   ([op_model]: PUSHes, dynamic cost through Model.GasCalc, resize_memory! through memory_gas)
   equals the specification total ([op_spec]: 3 per PUSH + EIP cost + EIP memory cost, out of gas
   iff the total exceeds the gas limit). *)
From RevmV Require Import Base.Word.
From RevmV Require Gen.GasConst.
From RevmV Require Import Gen.Specs Model.GasCalc Proofs.GasCalcProofs Corr.C14.
From RevmV Require Spec.GasSpec.
From Coq Require Import ZArith Lia List Bool.
Local Open Scope Z_scope.
Module S := GasSpec.

Lemma pushes_eq limit n : pushes limit n = if 3 * n <=? limit then Some (limit - 3 * n) else None.
Proof.
  unfold pushes, charge. change GasConst.VERYLOW with 3. replace (n * 3) with (3 * n) by lia. reflexivity.
Qed.

(* charge after the pushes, then stop *)
Lemma charge_stop limit n c (z : Z) :
  0 <= n -> 0 <= c ->
  match charge (pushes limit n) (Some c) with Some r => Some (limit - r, z) | None => None end =
  (if 3 * n + c <=? limit then Some (3 * n + c, z) else None).
Proof.
  intros Hn Hc. rewrite pushes_eq. unfold charge.
  destruct (3 * n <=? limit) eqn:A; [apply Z.leb_le in A | apply Z.leb_gt in A].
  - destruct (c <=? limit - 3 * n) eqn:B; [apply Z.leb_le in B | apply Z.leb_gt in B];
      destruct (3 * n + c <=? limit) eqn:C; try (apply Z.leb_le in C); try (apply Z.leb_gt in C);
      try lia; try reflexivity. f_equal. f_equal. lia.
  - destruct (3 * n + c <=? limit) eqn:C; [apply Z.leb_le in C; lia | reflexivity].
Qed.
Lemma charge_none limit n : charge (pushes limit n) None = None.
Proof. unfold charge. destruct (pushes limit n); reflexivity. Qed.

Lemma sload_nonneg s cold : 0 <= S.sload_cost s cold.
Proof. destruct s, cold; cbn; lia. Qed.

Lemma sstore_cost_nonneg s o p n g cold x : S.sstore_cost s o p n g cold = Some x -> 0 <= x.
Proof.
  unfold S.sstore_cost, S.sstore_gas_refund, S.net_metered, S.legacy_sstore.
  destruct s; eval_forks; cbn [andb]; cbv beta iota;
    try (destruct (g <=? 2300); [discriminate|]); intros H; injection H as <-;
    destruct cold; eqb_cases; cbn; lia.
Qed.

(* EXP, SLOAD, SSTORE: for every fork, every operand, every gas limit *)
Theorem wiring_exp s a b c cold limit :
  0 <= a < pow256 -> op_model 3 s a b c cold limit = op_spec 3 s a b c cold limit.
Proof.
  intros Ha. cbn [op_model op_spec]. rewrite (exp_cost_eq s a Ha).
  pose proof (exp_cost_fits s a Ha). rewrite charge_stop by lia. reflexivity.
Qed.
Theorem wiring_sload s a b c cold limit : op_model 4 s a b c cold limit = op_spec 4 s a b c cold limit.
Proof.
  cbn [op_model op_spec]. rewrite sload_cost_eq. pose proof (sload_nonneg s cold).
  rewrite charge_stop by lia. reflexivity.
Qed.
Theorem wiring_sstore s a b c cold limit : op_model 5 s a b c cold limit = op_spec 5 s a b c cold limit.
Proof.
  cbn [op_model op_spec]. rewrite sstore_refund_eq.
  pose proof (charge_stop limit 2) as CS. rewrite pushes_eq in *.
  destruct (3 * 2 <=? limit) eqn:A; [apply Z.leb_le in A | apply Z.leb_gt in A].
  - rewrite sstore_cost_eq. replace (limit - 3 * 2) with (limit - 6) by lia.
    destruct (S.sstore_cost s a b c (limit - 6) cold) as [g|] eqn:G; [|reflexivity].
    pose proof (sstore_cost_nonneg _ _ _ _ _ _ _ G) as G0.
    specialize (CS g (S.sstore_refund s a b c) ltac:(lia) G0).
    replace (limit - 3 * 2) with (limit - 6) in CS by lia. unfold charge in *.
    destruct (g <=? limit - 6) eqn:B; replace (3 * 2 + g) with (6 + g) in CS by lia; exact CS.
  - destruct (S.sstore_cost s a b c (limit - 6) cold) as [g|] eqn:G; [|reflexivity].
    pose proof (sstore_cost_nonneg _ _ _ _ _ _ _ G) as G0.
    destruct (6 + g <=? limit) eqn:C; [apply Z.leb_le in C; lia | reflexivity].
Qed.

(* KECCAK256 / CALLDATACOPY / LOGn: dynamic cost F, then memory expansion from empty memory *)
Lemma memory_cost_nonneg w : 0 <= w -> 0 <= S.memory_cost w.
Proof.
  intros. unfold S.memory_cost.
  assert (0 <= w * w / 512) by (apply Z.div_pos; [apply Z.mul_nonneg_nonneg; lia|lia]). lia.
Qed.

Lemma wire_copy_like limit k (F : option Z) (fs : Z) a :
  2 <= k -> 0 <= fs -> in_u64 limit -> in_u64 a -> a <= pow64 - 32 ->
  (forall v, F = Some v <-> fs < pow64 /\ v = fs) ->
  (let r := charge (pushes limit k) F in
   if a =? 0
   then match r with Some x => Some (limit - x, 0) | None => None end
   else match fst (resize r 0 0 a) with Some x => Some (limit - x, 0) | None => None end)
  = (if 3 * k + fs + S.memory_cost (S.words a) <=? limit
     then Some (3 * k + fs + S.memory_cost (S.words a), 0) else None).
Proof.
  intros Hk Hfs Hlim Ha Ht HF. cbv zeta.
  pose proof (words_u64 a Ha Ht) as WB.
  pose proof (memory_cost_nonneg (S.words a) (proj1 WB)) as M0.
  unfold in_u64 in Hlim, Ha.
  destruct F as [v|] eqn:EF.
  - destruct (proj1 (HF v) eq_refl) as [Fit ->].
    destruct (a =? 0) eqn:E0.
    + apply Z.eqb_eq in E0. subst a. change (S.memory_cost (S.words 0)) with 0.
      rewrite charge_stop by lia. rewrite Z.add_0_r. reflexivity.
    + apply Z.eqb_neq in E0. unfold resize.
      assert (SA : sat64 (0 + a) = a).
      { unfold sat64. destruct (0 + a <? 0) eqn:X; [apply Z.ltb_lt in X; lia|].
        destruct (0 + a <? pow64) eqn:Y; [lia | apply Z.ltb_ge in Y; lia]. }
      rewrite SA. destruct (a >? 0) eqn:G; [|rewrite Z.gtb_ltb in G; apply Z.ltb_ge in G; lia].
      cbn [fst]. rewrite num_words_exact by (unfold in_u64; lia).
      change (memory_gas_for_len 0) with 0. rewrite Z.sub_0_r.
      rewrite memory_gas_exact by (unfold in_u64; unfold_pows; lia).
      set (mc := S.memory_cost (S.words a)) in *.
      rewrite pushes_eq. unfold charge.
      destruct (3 * k <=? limit) eqn:A; [apply Z.leb_le in A | apply Z.leb_gt in A].
      * destruct (fs <=? limit - 3 * k) eqn:B; [apply Z.leb_le in B | apply Z.leb_gt in B].
        -- destruct (Z.min mc (pow64 - 1) <=? limit - 3 * k - fs) eqn:C;
             [apply Z.leb_le in C | apply Z.leb_gt in C];
             destruct (3 * k + fs + mc <=? limit) eqn:D;
             try (apply Z.leb_le in D); try (apply Z.leb_gt in D); try lia; try reflexivity.
           f_equal. f_equal. lia.
        -- destruct (3 * k + fs + mc <=? limit) eqn:D; [apply Z.leb_le in D; lia | reflexivity].
      * destruct (3 * k + fs + mc <=? limit) eqn:D; [apply Z.leb_le in D; lia | reflexivity].
  - assert (NF : pow64 <= fs).
    { destruct (Z_lt_le_dec fs pow64) as [L|L]; [|exact L].
      pose proof (proj2 (HF fs) (conj L eq_refl)). discriminate. }
    rewrite charge_none.
    assert (R : fst (resize None 0 0 a) = None).
    { unfold resize. destruct (sat64 (0 + a) >? 0); reflexivity. }
    rewrite R.
    destruct (3 * k + fs + S.memory_cost (S.words a) <=? limit) eqn:D; [apply Z.leb_le in D; lia|].
    destruct (a =? 0); reflexivity.
Qed.

Lemma as_usize_in a : in_u64 a -> as_usize a = Some a.
Proof. unfold as_usize, in_u64. intros. destruct (a <? pow64) eqn:E; [reflexivity|apply Z.ltb_ge in E; lia]. Qed.

Theorem wiring_keccak256 s a b c cold limit :
  in_u64 limit -> in_u64 a -> a <= pow64 - 32 ->
  op_model 0 s a b c cold limit = op_spec 0 s a b c cold limit.
Proof.
  intros Hl Ha Ht. cbn [op_model op_spec]. rewrite as_usize_in by exact Ha.
  pose proof (wire_copy_like limit 2 (keccak256_cost a) (S.keccak256_cost a) a) as W.
  cbv zeta in W. rewrite W; try assumption; try lia.
  - replace (3 * 2) with 6 by lia. reflexivity.
  - unfold S.keccak256_cost. pose proof (words_u64 a Ha Ht). lia.
  - intros v. apply keccak256_cost_iff; assumption.
Qed.
Theorem wiring_calldatacopy s a b c cold limit :
  in_u64 limit -> in_u64 a -> a <= pow64 - 32 ->
  op_model 1 s a b c cold limit = op_spec 1 s a b c cold limit.
Proof.
  intros Hl Ha Ht. cbn [op_model op_spec]. rewrite as_usize_in by exact Ha.
  pose proof (wire_copy_like limit 3 (verylowcopy_cost a) (S.copy_cost a) a) as W.
  cbv zeta in W. rewrite W; try assumption; try lia.
  - replace (3 * 3) with 9 by lia. reflexivity.
  - unfold S.copy_cost. pose proof (words_u64 a Ha Ht). lia.
  - intros v. apply verylowcopy_cost_iff; assumption.
Qed.
Theorem wiring_log s a b c cold limit :
  in_u64 limit -> in_u64 a -> a <= pow64 - 32 -> 0 <= b <= 4 ->
  op_model 2 s a b c cold limit = op_spec 2 s a b c cold limit.
Proof.
  intros Hl Ha Ht Hb. cbn [op_model op_spec]. rewrite as_usize_in by exact Ha.
  pose proof (wire_copy_like limit (2 + b) (log_cost b a) (S.log_cost b a) a) as W.
  cbv zeta in W. rewrite W; try assumption; try lia.
  - reflexivity.
  - unfold S.log_cost. unfold in_u64 in Ha. lia.
  - intros v. apply log_cost_iff; [lia | assumption].
Qed.

(* MSTORE(a); MSTORE(b): the second expansion is charged the difference of the memory cost *)
Lemma words_mono x y : 0 <= x <= y -> S.words x <= S.words y.
Proof. intros. unfold S.words. apply Z.div_le_mono; lia. Qed.
Lemma words_mul32 w : 0 <= w -> S.words (w * 32) = w.
Proof. intros. unfold S.words. symmetry. apply Z.div_unique with (r := 31); lia. Qed.
Lemma words_cover x : 0 <= x -> x <= S.words x * 32.
Proof.
  intros. unfold S.words. pose proof (Z.div_mod (x + 31) 32 ltac:(lia)).
  pose proof (Z.mod_pos_bound (x + 31) 32 ltac:(lia)). lia.
Qed.
Lemma memory_cost_mono x y : 0 <= x <= y -> S.memory_cost x <= S.memory_cost y.
Proof.
  intros. unfold S.memory_cost.
  assert (x * x <= y * y) by (apply Z.mul_le_mono_nonneg; lia).
  assert (x * x / 512 <= y * y / 512) by (apply Z.div_le_mono; lia). lia.
Qed.

Theorem wiring_mstore_twice s a b c cold limit :
  in_u64 limit -> 0 <= a <= pow64 - 64 -> 0 <= b <= pow64 - 64 ->
  op_model 6 s a b c cold limit = op_spec 6 s a b c cold limit.
Proof.
  intros Hl Ha Hb. cbn [op_model op_spec].
  rewrite !as_usize_in by (unfold in_u64; unfold_pows; lia).
  change GasConst.VERYLOW with 3. replace (2 * 3) with 6 by lia.
  assert (SAT : forall x, 0 <= x < pow64 -> sat64 x = x).
  { intros x Hx. unfold sat64. destruct (x <? 0) eqn:X; [apply Z.ltb_lt in X; lia|].
    destruct (x <? pow64) eqn:Y; [reflexivity | apply Z.ltb_ge in Y; lia]. }
  unfold resize. rewrite !SAT by (unfold_pows; lia).
  assert (A32 : in_u64 (a + 32) /\ a + 32 <= pow64 - 32) by (unfold in_u64; unfold_pows; lia).
  assert (B32 : in_u64 (b + 32) /\ b + 32 <= pow64 - 32) by (unfold in_u64; unfold_pows; lia).
  rewrite (num_words_exact (a + 32)) by tauto. rewrite (num_words_exact (b + 32)) by tauto.
  pose proof (words_u64 (a + 32) (proj1 A32) (proj2 A32)) as W1.
  pose proof (words_u64 (b + 32) (proj1 B32) (proj2 B32)) as W2.
  pose proof (words_cover (a + 32) ltac:(lia)) as C1.
  set (w1 := S.words (a + 32)) in *. set (w2 := S.words (b + 32)) in *.
  replace (0 + a + 32) with (a + 32) by lia.
  destruct (a + 32 >? 0) eqn:G0; [|rewrite Z.gtb_ltb in G0; apply Z.ltb_ge in G0; lia]. clear G0.
  cbv beta iota zeta.
  change (memory_gas_for_len 0) with 0 in *.
  assert (ML : memory_gas_for_len (w1 * 32) = memory_gas w1).
  { unfold memory_gas_for_len. rewrite num_words_exact by (unfold in_u64; unfold_pows; lia).
    rewrite words_mul32 by lia. reflexivity. }
  rewrite ML. rewrite !memory_gas_exact by (unfold in_u64; unfold_pows; lia).
  pose proof (memory_cost_nonneg w1 ltac:(lia)) as M1. pose proof (memory_cost_nonneg w2 ltac:(lia)) as M2.
  (* the word count of the final memory *)
  assert (MX : (b + 32 > w1 * 32 /\ S.words (Z.max (a + 32) (b + 32)) = w2 /\ w1 <= w2) \/
               (b + 32 <= w1 * 32 /\ S.words (Z.max (a + 32) (b + 32)) = w1)).
  { destruct (Z_le_gt_dec (b + 32) (w1 * 32)) as [L|L].
    - right. split; [exact L|].
      assert (S.words (Z.max (a + 32) (b + 32)) <= S.words (w1 * 32)) by (apply words_mono; lia).
      rewrite words_mul32 in * by lia.
      assert (w1 <= S.words (Z.max (a + 32) (b + 32))) by (apply words_mono; lia). lia.
    - left. split; [lia|]. rewrite Z.max_r by lia. split; [reflexivity|]. apply words_mono. lia. }
  fold w1. 
  set (m1 := S.memory_cost w1) in *. set (m2 := S.memory_cost w2) in *.
  rewrite pushes_eq. unfold charge, in_u64 in *.
  destruct MX as [(L & -> & W12)|(L & ->)].
  - assert (m1 <= m2) by (apply memory_cost_mono; lia). fold m2.
    destruct (b + 32 >? w1 * 32) eqn:G; [|rewrite Z.gtb_ltb in G; apply Z.ltb_ge in G; lia].
    cbn [fst].
    repeat match goal with
    | |- context [?x <=? ?y] =>
        let E := fresh "E" in destruct (x <=? y) eqn:E; [apply Z.leb_le in E | apply Z.leb_gt in E]
    end; cbn [fst]; try lia; try reflexivity; f_equal; f_equal; lia.
  - fold m1.
    destruct (b + 32 >? w1 * 32) eqn:G; [apply Z.gtb_lt in G; lia|].
    repeat match goal with
    | |- context [?x <=? ?y] =>
        let E := fresh "E" in destruct (x <=? y) eqn:E; [apply Z.leb_le in E | apply Z.leb_gt in E]
    end; cbn [fst]; try lia; try reflexivity; f_equal; f_equal; lia.
Qed.

Theorem wiring_extcodecopy s a b c cold limit :
  in_u64 limit -> in_u64 a -> a <= pow64 - 32 ->
  op_model 7 s a b c cold limit = op_spec 7 s a b c cold limit.
Proof.
  intros Hl Ha Ht. cbn [op_model op_spec]. rewrite as_usize_in by exact Ha.
  pose proof (wire_copy_like limit 4 (extcodecopy_cost s a cold) (S.extcodecopy_cost s a cold) a) as W.
  cbv zeta in W. rewrite W; try assumption; try lia.
  - replace (3 * 4) with 12 by lia. reflexivity.
  - unfold S.extcodecopy_cost, S.account_access_cost. pose proof (words_u64 a Ha Ht).
    destruct (S.since s BERLIN), cold, (S.since s TANGERINE); lia.
  - intros v. apply extcodecopy_cost_iff; assumption.
Qed.

Lemma selfdestruct_nonneg s hv te cold : 0 <= S.selfdestruct_cost s hv te cold.
Proof. destruct s, hv, te, cold; cbn; lia. Qed.
Theorem wiring_selfdestruct s a b c cold limit :
  op_model 8 s a b c cold limit = op_spec 8 s a b c cold limit.
Proof.
  cbn [op_model op_spec]. cbv zeta. rewrite selfdestruct_cost_eq, enabled_eq.
  pose proof (selfdestruct_nonneg s (Z.odd a) (Z.odd (a / 2)) cold).
  rewrite charge_stop by lia. replace (3 * 1) with 3 by lia.
  destruct (S.since s LONDON), (Z.odd (a / 4)); reflexivity.
Qed.

(* CALL: access/value/new-account charge, then the gas handed to the callee (EIP-150 cap) *)
Lemma charge_pushes limit n c :
  0 <= n -> 0 <= c ->
  charge (pushes limit n) (Some c) = if 3 * n + c <=? limit then Some (limit - (3 * n + c)) else None.
Proof.
  intros Hn Hc. rewrite pushes_eq. unfold charge.
  destruct (3 * n <=? limit) eqn:A; [apply Z.leb_le in A | apply Z.leb_gt in A].
  - destruct (c <=? limit - 3 * n) eqn:B; [apply Z.leb_le in B | apply Z.leb_gt in B];
      destruct (3 * n + c <=? limit) eqn:C; try (apply Z.leb_le in C); try (apply Z.leb_gt in C);
      try lia; try reflexivity. f_equal. lia.
  - destruct (3 * n + c <=? limit) eqn:C; [apply Z.leb_le in C; lia | reflexivity].
Qed.
Lemma call_cost_bounds s tv cold dg ie :
  0 <= S.call_cost s tv cold dg ie /\ (tv = true -> 9000 <= S.call_cost s tv cold dg ie).
Proof. destruct s, tv, cold, dg as [[]|], ie; cbn; split; (lia || discriminate || (intros; lia)). Qed.

Theorem wiring_call s a b c cold limit :
  in_u64 limit -> 0 <= b < pow256 ->
  op_model 10 s a b c cold limit = op_spec 10 s a b c cold limit.
Proof.
  intros Hl Hb. cbn [op_model op_spec]. cbv zeta. rewrite call_cost_eq, enabled_eq.
  change GasConst.CALL_STIPEND with 2300.
  set (dg := if Z.odd (c / 2) then Some (Z.odd (c / 4)) else None).
  destruct (call_cost_bounds s (negb (a =? 0)) cold dg (Z.odd c)) as [C0 C9].
  set (cc := S.call_cost s (negb (a =? 0)) cold dg (Z.odd c)) in *.
  rewrite charge_pushes by lia. replace (3 * 7 + cc) with (21 + cc) by lia.
  unfold in_u64 in Hl.
  destruct (21 + cc <=? limit) eqn:A; [apply Z.leb_le in A | reflexivity].
  set (rem := limit - (21 + cc)) in *.
  assert (R : 0 <= rem < pow64) by (unfold rem; lia).
  assert (Q : 0 <= rem / 64 <= rem).
  { split; [apply Z.div_pos; lia|]. apply Z.div_le_upper_bound; lia. }
  set (q := rem / 64) in *. unfold charge.
  destruct (b <? pow64) eqn:B; [apply Z.ltb_lt in B | apply Z.ltb_ge in B];
  destruct (S.since s TANGERINE);
  repeat match goal with
    | |- context [?x <=? ?y] =>
        let E := fresh "E" in destruct (x <=? y) eqn:E; [apply Z.leb_le in E | apply Z.leb_gt in E]
    end; try lia; try reflexivity.
  all: try (destruct (a =? 0) eqn:Z0; cbn [negb]; [f_equal; f_equal; lia|]).
  all: assert (T : 9000 <= cc) by (apply C9; reflexivity).
  all: unfold sat64;
    repeat match goal with
    | |- context [?x <? ?y] =>
        let E := fresh "E" in destruct (x <? y) eqn:E; [apply Z.ltb_lt in E | apply Z.ltb_ge in E]
    end; try lia; f_equal; f_equal; lia.
Qed.

(* CREATE2: initcode cost (from SHANGHAI), memory expansion, CREATE + hashing cost, then all but
   one 64th of the remaining gas is handed to the init code *)
Lemma charge_add x c1 c2 :
  0 <= c1 -> 0 <= c2 -> charge (charge x (Some c1)) (Some c2) = charge x (Some (c1 + c2)).
Proof.
  intros H1 H2. destruct x as [r|]; [|reflexivity]. unfold charge.
  destruct (c1 <=? r) eqn:A; [apply Z.leb_le in A | apply Z.leb_gt in A].
  - destruct (c2 <=? r - c1) eqn:B; [apply Z.leb_le in B | apply Z.leb_gt in B];
      destruct (c1 + c2 <=? r) eqn:C; try (apply Z.leb_le in C); try (apply Z.leb_gt in C);
      try lia; try reflexivity. f_equal. lia.
  - destruct (c1 + c2 <=? r) eqn:C; [apply Z.leb_le in C; lia | reflexivity].
Qed.
Lemma since_petersburg_tangerine s : S.since s PETERSBURG = true -> S.since s TANGERINE = true.
Proof. destruct s; cbn; congruence. Qed.

Theorem wiring_create2 s a b c cold limit :
  S.since s PETERSBURG = true -> in_u64 limit -> in_u64 a -> a <= pow64 - 32 ->
  op_model 9 s a b c cold limit = op_spec 9 s a b c cold limit.
Proof.
  intros HP Hl Ha Ht. cbn [op_model op_spec]. cbv zeta.
  rewrite !enabled_eq, (since_petersburg_tangerine s HP), as_usize_in by exact Ha.
  change GasConst.MAX_INITCODE_SIZE with 49152.
  pose proof (words_u64 a Ha Ht) as WB. pose proof (memory_cost_nonneg (S.words a) (proj1 WB)) as M0.
  assert (C2 : create2_cost a = Some (S.create2_cost a)).
  { apply create2_cost_iff; try assumption. unfold S.create2_cost. split; [unfold_pows; lia|reflexivity]. }
  rewrite C2, (initcode_cost_exact a Ha Ht).
  unfold S.create2_cost, S.initcode_cost in *. unfold in_u64 in Hl, Ha.
  rewrite pushes_eq. replace (3 * 4) with 12 by lia.
  assert (LT : (a <? pow64) = true) by (apply Z.ltb_lt; lia). rewrite LT, andb_true_r.
  destruct (12 <=? limit) eqn:P; [apply Z.leb_le in P | apply Z.leb_gt in P].
  2:{ destruct (negb (a =? 0) && S.since s SHANGHAI && (49152 <? a)); [reflexivity|].
      destruct (_ <=? limit) eqn:D; [apply Z.leb_le in D; destruct (S.since s SHANGHAI); lia | reflexivity]. }
  destruct (a =? 0) eqn:E0; cbn [negb andb].
  - apply Z.eqb_eq in E0. subst a. change (S.words 0) with 0. change (S.memory_cost 0) with 0.
    unfold charge.
    replace (12 + (32000 + 6 * 0) + (if S.since s SHANGHAI then 2 * 0 else 0) + 0) with 32012
      by (destruct (S.since s SHANGHAI); lia).
    replace (32000 + 6 * 0) with 32000 by lia.
    destruct (32000 <=? limit - 12) eqn:A; [apply Z.leb_le in A | apply Z.leb_gt in A];
      destruct (32012 <=? limit) eqn:B; try (apply Z.leb_le in B); try (apply Z.leb_gt in B);
      try lia; try reflexivity.
    f_equal. f_equal; [lia|]. replace (limit - 12 - 32000) with (limit - 32012) by lia. reflexivity.
  - apply Z.eqb_neq in E0.
    rewrite Z.gtb_ltb.
    destruct (S.since s SHANGHAI) eqn:SH; cbn [andb].
    + destruct (49152 <? a) eqn:BIG; [reflexivity|].
      unfold resize.
      assert (SA : sat64 (0 + a) = a).
      { unfold sat64. destruct (0 + a <? 0) eqn:X; [apply Z.ltb_lt in X; lia|].
        destruct (0 + a <? pow64) eqn:Y; [lia | apply Z.ltb_ge in Y; lia]. }
      rewrite SA. destruct (a >? 0) eqn:G; [|rewrite Z.gtb_ltb in G; apply Z.ltb_ge in G; lia].
      cbn [fst]. rewrite num_words_exact by (unfold in_u64; lia).
      change (memory_gas_for_len 0) with 0. rewrite Z.sub_0_r.
      rewrite memory_gas_exact by (unfold in_u64; unfold_pows; lia).
      set (w := S.words a) in *. set (mc := S.memory_cost w) in *.
      rewrite !charge_add by lia. unfold charge.
      match goal with |- context [?x <=? ?y] =>
        destruct (x <=? y) eqn:A; [apply Z.leb_le in A | apply Z.leb_gt in A] end;
      match goal with |- context [?x <=? ?y] =>
        destruct (x <=? y) eqn:B; [apply Z.leb_le in B | apply Z.leb_gt in B] end;
      try lia; try reflexivity.
      match goal with |- Some (limit - ?r, _) = Some (?t, _) => replace r with (limit - t) by lia end.
      f_equal. f_equal. lia.
    + unfold resize.
      assert (SA : sat64 (0 + a) = a).
      { unfold sat64. destruct (0 + a <? 0) eqn:X; [apply Z.ltb_lt in X; lia|].
        destruct (0 + a <? pow64) eqn:Y; [lia | apply Z.ltb_ge in Y; lia]. }
      rewrite SA. destruct (a >? 0) eqn:G; [|rewrite Z.gtb_ltb in G; apply Z.ltb_ge in G; lia].
      cbn [fst]. rewrite num_words_exact by (unfold in_u64; lia).
      change (memory_gas_for_len 0) with 0. rewrite Z.sub_0_r.
      rewrite memory_gas_exact by (unfold in_u64; unfold_pows; lia).
      set (w := S.words a) in *. set (mc := S.memory_cost w) in *.
      rewrite !charge_add by lia. unfold charge.
      match goal with |- context [?x <=? ?y] =>
        destruct (x <=? y) eqn:A; [apply Z.leb_le in A | apply Z.leb_gt in A] end;
      match goal with |- context [?x <=? ?y] =>
        destruct (x <=? y) eqn:B; [apply Z.leb_le in B | apply Z.leb_gt in B] end;
      try lia; try reflexivity.
      match goal with |- Some (limit - ?r, _) = Some (?t, _) => replace r with (limit - t) by lia end.
      f_equal. f_equal. lia.
Qed.
