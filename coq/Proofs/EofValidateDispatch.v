(* Soundness of the EOF validator model: what the opcode match of [step] ([dispatch]) checks —
   operand ranges, access tracker updates, stack requirement / height change / limits. *)
From RevmV Require Import Model.Eof Model.EofValidate Proofs.EofProofs Proofs.EofValidateProofs
  Proofs.EofValidateTables Proofs.EofValidateStep.
From Coq Require Import ZArith List Lia Bool.
Import ListNotations.
Local Open Scope Z_scope.

Ltac opfacts :=
  repeat match goal with
  | B : (_ || _) = false |- _ => apply orb_false_iff in B; destruct B
  | B : (_ || _) = true |- _ => apply orb_true_iff in B
  | B : (_ =? _) = false |- _ => apply Z.eqb_neq in B
  | B : (_ =? _) = true |- _ => apply Z.eqb_eq in B
  end;
  unfold OP_RJUMP, OP_RJUMPI, OP_RJUMPV, OP_CALLF, OP_JUMPF, OP_EOFCREATE, OP_RETURNCONTRACT,
         OP_RETURN, OP_STOP, OP_DATALOADN, OP_RETF, OP_DUPN, OP_SWAPN, OP_EXCHANGE in *.

(* ---- operands ---- *)
Definition dataloadn_ok (code : bytes) (ds : Z) (p : Z) : Prop :=
  get code p = Some OP_DATALOADN -> exists x, rd_u16 code (p + 1) = Some x /\ x + 32 <= ds.

Lemma dispatch_operands code ds tt nc types s op o ti J2 J3 diff req add targets returning tr :
  dispatch code ds tt nc types s op o ti J2 = VOk (J3, diff, req, add, targets, returning, tr) ->
  get code (l_i s) = Some op ->
  operand_ok code (len types) nc (l_i s) /\ dataloadn_ok code ds (l_i s).
Proof.
  intros H Eop. unfold operand_ok, dataloadn_ok. rewrite Eop.
  enough (G : ((op = OP_CALLF \/ op = OP_JUMPF) ->
               exists x, read_u16_at code (l_i s + 1) = VOk x /\ 0 <= x < len types) /\
              ((op = OP_EOFCREATE \/ op = OP_RETURNCONTRACT) ->
               exists x, get code (l_i s + 1) = Some x /\ x < nc) /\
              (op = OP_DATALOADN -> exists x, rd_u16 code (l_i s + 1) = Some x /\ x + 32 <= ds)).
  { destruct G as (G1 & G2 & G3). split.
    - intros op0 E. inversion E. subst op0. split; assumption.
    - intros E. inversion E. apply G3. assumption. }
  dispatch_cases H op; opfacts;
    (split; [|split]); try (intros; exfalso; lia).
  - intros _. exists x. split; [first [reflexivity|assumption]|]. apply nth_z_lt in En. exact En.
  - intros _. exists x. split; [first [reflexivity|assumption]|]. apply nth_z_lt in En. exact En.
  - intros _. exists x. split; [first [reflexivity|assumption]|]. apply nth_z_lt in En. exact En.
  - intros _. exists x. split; [reflexivity|]. rewrite Z.geb_leb in Ec. apply Z.leb_gt in Ec. exact Ec.
  - intros _. exists x. split; [reflexivity|]. rewrite Z.geb_leb in Ec. apply Z.leb_gt in Ec. exact Ec.
  - intros _. exists x. apply read_u16_rd in Er. split; [assumption|].
    match goal with X : (ds <? 32) = false |- _ => apply Z.ltb_ge in X end.
    match goal with X : (x >? ds - 32) = false |- _ => rewrite Z.gtb_ltb in X; apply Z.ltb_ge in X end. lia.
Qed.

(* ---- access tracker ---- *)
Definition tr_le (a b : Tracker) : Prop :=
  length (codes b) = length (codes a) /\ length (subs b) = length (subs a) /\
  (forall c, this_type a = Some c -> this_type b = Some c) /\
  (forall x c, nth_z (subs a) x = Some (Some c) -> nth_z (subs b) x = Some (Some c)) /\
  (forall k, nth_z (codes a) k = Some true -> nth_z (codes b) k = Some true) /\
  (forall k, nth_z (codes b) k = Some true -> nth_z (codes a) k = Some true \/ In k (pstack b)) /\
  incl (pstack a) (pstack b).

Lemma tr_le_refl a : tr_le a a.
Proof. unfold tr_le. repeat split; auto. apply incl_refl. Qed.
Lemma tr_le_trans a b c : tr_le a b -> tr_le b c -> tr_le a c.
Proof.
  intros (A1 & A2 & A3 & A4 & A5 & A6 & A7) (B1 & B2 & B3 & B4 & B5 & B6 & B7). unfold tr_le.
  repeat split; try congruence; auto.
  - intros k Hk. destruct (B6 k Hk) as [X|X]; [|right; exact X].
    destruct (A6 k X) as [Y|Y]; [left; exact Y|right; apply B7; exact Y].
  - eapply incl_tran; eassumption.
Qed.

Lemma access_code_spec tr idx tr' :
  access_code tr idx = VOk tr' -> tr_le tr tr' /\ nth_z (codes tr') idx = Some true.
Proof.
  unfold access_code. destruct (nth_z (codes tr) idx) as [was|] eqn:E; cbn [vidx vbind]; [|discriminate].
  intros H. inversion H. clear H. pose proof (nth_z_lt _ _ _ E) as B. unfold tr_le. cbn [codes subs this_type pstack].
  split; [repeat split; auto|].
  - apply upd_z_length.
  - intros k Hk. destruct (Z.eq_dec k idx) as [->|Hne]; [apply nth_z_upd_same; assumption|].
    rewrite nth_z_upd_other by lia. exact Hk.
  - intros k Hk. destruct (Z.eq_dec k idx) as [->|Hne].
    + destruct was; [left; exact E|right; left; reflexivity].
    + rewrite nth_z_upd_other in Hk by lia. left. exact Hk.
  - destruct was; [apply incl_refl|apply incl_tl, incl_refl].
  - apply nth_z_upd_same. assumption.
Qed.

Lemma set_subcontainer_type_spec tr idx ct tr' :
  set_subcontainer_type tr idx ct = VOk tr' -> tr_le tr tr' /\ nth_z (subs tr') idx = Some (Some ct).
Proof.
  unfold set_subcontainer_type. destruct (nth_z (subs tr) idx) as [cur|] eqn:E; cbn [vidx vbind]; [|discriminate].
  pose proof (nth_z_lt _ _ _ E) as B. destruct cur as [c|].
  - destruct (code_type_eqb c ct) eqn:Ec; [|discriminate]. intros H. inversion H. subst tr'.
    split; [apply tr_le_refl|]. destruct c, ct; try discriminate; exact E.
  - intros H. inversion H. clear H. unfold tr_le. cbn [codes subs this_type pstack].
    split; [repeat split; auto|].
    + apply upd_z_length.
    + intros x c Hx. destruct (Z.eq_dec x idx) as [->|Hne]; [congruence|]. rewrite nth_z_upd_other by lia. exact Hx.
    + apply incl_refl.
    + apply nth_z_upd_same. assumption.
Qed.

Lemma get_or_insert_differs_spec tr ct tr' :
  get_or_insert_differs tr ct = (tr', false) -> tr_le tr tr' /\ this_type tr' = Some ct.
Proof.
  unfold get_or_insert_differs. destruct (this_type tr) as [c|] eqn:E.
  - intros H. inversion H. subst tr'. split; [apply tr_le_refl|].
    destruct c, ct; try discriminate; exact E.
  - intros H. inversion H. clear H. unfold tr_le. cbn [codes subs this_type pstack].
    split; [repeat split; auto|reflexivity]; try (intros; congruence).
Qed.

Definition tracker_marks (code : bytes) (p : Z) (tr : Tracker) : Prop :=
  forall op, get code p = Some op ->
  ((op = OP_CALLF \/ op = OP_JUMPF) -> exists x, rd_u16 code (p + 1) = Some x /\ nth_z (codes tr) x = Some true) /\
  (op = OP_EOFCREATE -> exists x, get code (p + 1) = Some x /\ nth_z (subs tr) x = Some (Some ReturnContract)) /\
  (op = OP_RETURNCONTRACT -> this_type tr = Some ReturnContract /\
     exists x, get code (p + 1) = Some x /\ nth_z (subs tr) x = Some (Some ReturnOrStop)) /\
  ((op = OP_RETURN \/ op = OP_STOP) -> this_type tr = Some ReturnOrStop).

Lemma tracker_marks_mono code p a b : tr_le a b -> tracker_marks code p a -> tracker_marks code p b.
Proof.
  intros (A1 & A2 & A3 & A4 & A5 & A6 & A7) M op E. destruct (M op E) as (M1 & M2 & M3 & M4).
  split; [|split; [|split]].
  - intros X. destruct (M1 X) as (x & Y1 & Y2). exists x. split; auto.
  - intros X. destruct (M2 X) as (x & Y1 & Y2). exists x. split; auto.
  - intros X. destruct (M3 X) as (Y0 & x & Y1 & Y2). split; [auto|]. exists x. split; auto.
  - intros X. auto.
Qed.

Lemma dispatch_tracker code ds tt nc types s op o ti J2 J3 diff req add targets returning tr :
  dispatch code ds tt nc types s op o ti J2 = VOk (J3, diff, req, add, targets, returning, tr) ->
  get code (l_i s) = Some op ->
  tr_le (l_tracker s) tr /\ tracker_marks code (l_i s) tr.
Proof.
  intros H Eop. unfold tracker_marks. rewrite Eop.
  enough (G : tr_le (l_tracker s) tr /\
    ((op = OP_CALLF \/ op = OP_JUMPF) -> exists x, rd_u16 code (l_i s + 1) = Some x /\ nth_z (codes tr) x = Some true) /\
    (op = OP_EOFCREATE -> exists x, get code (l_i s + 1) = Some x /\ nth_z (subs tr) x = Some (Some ReturnContract)) /\
    (op = OP_RETURNCONTRACT -> this_type tr = Some ReturnContract /\
       exists x, get code (l_i s + 1) = Some x /\ nth_z (subs tr) x = Some (Some ReturnOrStop)) /\
    ((op = OP_RETURN \/ op = OP_STOP) -> this_type tr = Some ReturnOrStop)).
  { destruct G as (G0 & G). split; [exact G0|]. intros op0 E. inversion E. subst op0. exact G. }
  dispatch_cases H op; opfacts;
    repeat match goal with
    | X : access_code _ _ = VOk _ |- _ => apply access_code_spec in X; destruct X
    | X : set_subcontainer_type _ _ _ = VOk _ |- _ => apply set_subcontainer_type_spec in X; destruct X
    | X : get_or_insert_differs _ _ = (_, false) |- _ => apply get_or_insert_differs_spec in X; destruct X
    | X : read_u16_at _ _ = VOk _ |- _ => apply read_u16_rd in X
    end;
    (split; [try apply tr_le_refl; try assumption; try (eapply tr_le_trans; eassumption)|]);
    (split; [|split; [|split]]); try (intros; exfalso; lia); intros _; eauto.
  - split; [|eauto].
    match goal with X : tr_le ?a ?b, Y : this_type ?a = Some _ |- this_type ?b = Some _ =>
      destruct X as (_ & _ & X & _); apply X; exact Y end.
Qed.

(* ---- stack requirement, height change, limits ---- *)
Definition instr_stack (code : bytes) (types : list TypesSection) (tt : TypesSection) (p : Z)
  : option (Z * Z) :=
  match get code p with
  | None => None
  | Some op =>
    match op_info op with
    | None => None
    | Some o =>
      let d := op_outputs o - op_inputs o in
      if op =? OP_CALLF then
        match rd_u16 code (p + 1) with
        | Some x => match nth_z types x with
                    | Some tgt => Some (inputs tgt, outputs tgt - inputs tgt)
                    | None => None end
        | None => None end
      else if op =? OP_JUMPF then
        match rd_u16 code (p + 1) with
        | Some x => match nth_z types x with
                    | Some tgt => Some (if outputs tgt =? 128 then inputs tgt
                                        else outputs tt + inputs tgt - outputs tgt, d)
                    | None => None end
        | None => None end
      else if op =? OP_RETF then Some (outputs tt, d)
      else if op =? OP_DUPN then
        match get code (p + 1) with Some n => Some (n + 1, d) | None => None end
      else if op =? OP_SWAPN then
        match get code (p + 1) with Some n => Some (n + 2, d) | None => None end
      else if op =? OP_EXCHANGE then
        match get code (p + 1) with Some im => Some ((im / 16 + 1) + (im mod 16 + 1) + 1, d) | None => None end
      else Some (op_inputs o, d)
    end
  end.

(* limits on the upper end [hi] of the interval at a CALLF / JUMPF / RETF *)
Definition instr_limits (code : bytes) (types : list TypesSection) (tt : TypesSection) (p hi : Z) : Prop :=
  forall op, get code p = Some op ->
  (op = OP_CALLF -> exists x tgt, rd_u16 code (p + 1) = Some x /\ nth_z types x = Some tgt /\
     outputs tgt <> 128 /\ hi - inputs tgt + max_stack_size tgt <= STACK_LIMIT) /\
  (op = OP_JUMPF -> exists x tgt, rd_u16 code (p + 1) = Some x /\ nth_z types x = Some tgt /\
     hi - inputs tgt + max_stack_size tgt <= STACK_LIMIT /\
     (outputs tgt <> 128 -> outputs tgt <= outputs tt /\ hi <= outputs tt + inputs tgt - outputs tgt)) /\
  (op = OP_RETF -> hi <= outputs tt).

(* the instruction returns to the caller of this section: RETF, or JUMPF to a returning section *)
Definition instr_returns (code : bytes) (types : list TypesSection) (p : Z) : Prop :=
  get code p = Some OP_RETF \/
  (get code p = Some OP_JUMPF /\ exists x tgt, rd_u16 code (p + 1) = Some x /\ nth_z types x = Some tgt /\ outputs tgt <> 128).

Lemma dispatch_stack code ds tt nc types s op o ti J2 J3 diff req add targets returning tr :
  dispatch code ds tt nc types s op o ti J2 = VOk (J3, diff, req, add, targets, returning, tr) ->
  get code (l_i s) = Some op -> op_info op = Some o ->
  instr_stack code types tt (l_i s) = Some (req, diff) /\
  instr_limits code types tt (l_i s) (biggest ti) /\
  (returning = false -> l_returning s = false /\ ~ instr_returns code types (l_i s)).
Proof.
  intros H Eop Eo. unfold instr_stack, instr_limits, instr_returns. rewrite Eop, Eo.
  enough (G : (if op =? OP_CALLF then
        match rd_u16 code (l_i s + 1) with
        | Some x => match nth_z types x with
                    | Some tgt => Some (inputs tgt, outputs tgt - inputs tgt)
                    | None => None end
        | None => None end
      else if op =? OP_JUMPF then
        match rd_u16 code (l_i s + 1) with
        | Some x => match nth_z types x with
                    | Some tgt => Some (if outputs tgt =? 128 then inputs tgt
                                        else outputs tt + inputs tgt - outputs tgt, op_outputs o - op_inputs o)
                    | None => None end
        | None => None end
      else if op =? OP_RETF then Some (outputs tt, op_outputs o - op_inputs o)
      else if op =? OP_DUPN then
        match get code (l_i s + 1) with Some n => Some (n + 1, op_outputs o - op_inputs o) | None => None end
      else if op =? OP_SWAPN then
        match get code (l_i s + 1) with Some n => Some (n + 2, op_outputs o - op_inputs o) | None => None end
      else if op =? OP_EXCHANGE then
        match get code (l_i s + 1) with Some im => Some ((im / 16 + 1) + (im mod 16 + 1) + 1, op_outputs o - op_inputs o) | None => None end
      else Some (op_inputs o, op_outputs o - op_inputs o)) = Some (req, diff) /\
    ((op = OP_CALLF -> exists x tgt, rd_u16 code (l_i s + 1) = Some x /\ nth_z types x = Some tgt /\
       outputs tgt <> 128 /\ biggest ti - inputs tgt + max_stack_size tgt <= STACK_LIMIT) /\
     (op = OP_JUMPF -> exists x tgt, rd_u16 code (l_i s + 1) = Some x /\ nth_z types x = Some tgt /\
       biggest ti - inputs tgt + max_stack_size tgt <= STACK_LIMIT /\
       (outputs tgt <> 128 -> outputs tgt <= outputs tt /\ biggest ti <= outputs tt + inputs tgt - outputs tgt)) /\
     (op = OP_RETF -> biggest ti <= outputs tt)) /\
    (returning = false -> l_returning s = false /\
       ~ (op = OP_RETF \/ (op = OP_JUMPF /\ exists x tgt, rd_u16 code (l_i s + 1) = Some x /\ nth_z types x = Some tgt /\ outputs tgt <> 128)))).
  { destruct G as (G1 & G2 & G3). split; [exact G1|]. split.
    - intros op0 E. inversion E. subst op0. exact G2.
    - intros R. destruct (G3 R) as (G4 & G5). split; [exact G4|]. intros [X|(X & Y)]; apply G5.
      + left. congruence.
      + right. split; [congruence|exact Y]. }
  dispatch_cases H op;
    repeat match goal with
    | X : read_u16_at _ _ = VOk _ |- _ => apply read_u16_rd in X
    | X : (_ >? _) = false |- _ => rewrite Z.gtb_ltb in X; apply Z.ltb_ge in X
    | X : (_ <? _) = false |- _ => apply Z.ltb_ge in X
    end;
    unfold is_non_returning in *;
    rewrite ?B3, ?B4, ?B9, ?B10, ?B11, ?B12;
    repeat match goal with
    | X : rd_u16 _ _ = Some _ |- _ => rewrite X
    | X : nth_z types _ = Some _ |- _ => rewrite X
    | X : (outputs _ =? 128) = _ |- _ => rewrite X
    end.
  all: opfacts.
  all: try (assert (op =? 227 = false) as -> by (apply Z.eqb_neq; lia));
       try (assert (op =? 229 = false) as -> by (apply Z.eqb_neq; lia));
       try (assert (op =? 228 = false) as -> by (apply Z.eqb_neq; lia));
       try (assert (op =? 230 = false) as -> by (apply Z.eqb_neq; lia));
       try (assert (op =? 231 = false) as -> by (apply Z.eqb_neq; lia));
       try (assert (op =? 232 = false) as -> by (apply Z.eqb_neq; lia)).
  all: (split; [reflexivity|]).
  all: (split; [split; [|split]; try (intros; exfalso; lia)|]).
  all: try (intros R; split; [first [reflexivity|assumption]|]; intros [X|(X & x' & tgt' & Y1 & Y2 & Y3)]; try lia; try congruence).
  all: try discriminate.
  - intros _. do 2 eexists. split; [reflexivity|]. split; [eassumption|]. repeat split; intros; lia.
  - intros _. do 2 eexists. split; [reflexivity|]. split; [eassumption|]. repeat split; intros; lia.
  - intros _. do 2 eexists. split; [reflexivity|]. split; [eassumption|]. repeat split; intros; lia.
  - intros _. lia.
Qed.

(* ---- the net effect of one iteration on the recorded intervals ---- *)
Definition stk_R (i : Z) (ti : Info) (diff : Z) (targets : list Z) (j : Z) (a a' : Info) : Prop :=
  smallest a' <= smallest a /\ biggest a <= biggest a' /\
  (j < i -> smallest a' = smallest a /\ biggest a' = biggest a) /\
  (j = i -> smallest a' = smallest ti /\ biggest a' = biggest ti) /\
  (In j targets -> smallest a' <= smallest ti + diff /\ biggest ti + diff <= biggest a').

Definition term_at (code : bytes) (p : Z) : Prop :=
  exists op o, get code p = Some op /\ op_info op = Some o /\ op_term o = true.

Lemma step_stack code ds tt nc types s s' :
  bytes_ok code -> step code ds tt nc types s = VOk s' ->
  exists ti0 req diff targets,
    nth_z (l_jumps s) (l_i s) = Some ti0 /\
    instr_stack code types tt (l_i s) = Some (req, diff) /\
    req <= smallest (cur_info s ti0) /\
    instr_limits code types tt (l_i s) (biggest (cur_info s ti0)) /\
    jump_targets code (l_i s) = Some targets /\
    l_next_smallest s' = smallest (cur_info s ti0) + diff /\
    l_next_biggest s' = biggest (cur_info s ti0) + diff /\
    (l_after_term s' = true <-> term_at code (l_i s)) /\
    (l_returning s' = false -> l_returning s = false /\ ~ instr_returns code types (l_i s)) /\
    jrel (stk_R (l_i s) (cur_info s ti0) diff targets) (l_jumps s) (l_jumps s').
Proof.
  intros Hb H. apply step_inv in H.
  destruct H as (op & o & ti0 & J2 & J3 & diff & req & add & targets & returning & tr &
                 Eop & Eo & Ene & Eti & Hat & HJ2 & Hd & Hreq & Hpj & Es').
  pose proof (op_info_imm_nonneg _ _ Eo) as Himm.
  pose proof (nth_z_lt _ _ _ Eti) as Bi.
  destruct (dispatch_shape _ _ _ _ _ _ _ _ _ _ _ _ _ _ _ _ _ Hd Eop) as (Etg & Hsh).
  destruct (dispatch_stack _ _ _ _ _ _ _ _ _ _ _ _ _ _ _ _ _ Hd Eop Eo) as (Est & Hlim & Hret).
  set (i := l_i s) in *. set (ti := cur_info s ti0) in *. set (J1 := upd_z (l_jumps s) i ti) in *.
  assert (M1 : mark_immediates J1 (i + 1) (Z.to_nat (op_imm o)) = VOk J2).
  { destruct (Z.eqb_spec (op_imm o) 0) as [E0|].
    - subst J2. rewrite E0. reflexivity.
    - destruct HJ2. assumption. }
  assert (M2 : exists add', mark_immediates J2 (i + 2) add' = VOk J3).
  { destruct (op =? OP_RJUMPV).
    - destruct Hsh as (mx & Emx & Ea & Bl & Hm). eauto.
    - destruct Hsh as (_ & ->). exists O. reflexivity. }
  destruct M2 as (add' & M2).
  apply mark_immediates_spec in M1; [|lia]. apply mark_immediates_spec in M2; [|lia].
  destruct M1 as (M1 & _). destruct M2 as (M2 & _).
  apply process_jumps_spec in Hpj. destruct Hpj as (Hpj & Htg).
  exists ti0, req, diff, targets. rewrite Es'. cbn [l_next_smallest l_next_biggest l_after_term l_returning l_jumps].
  split; [assumption|]. split; [assumption|]. split; [assumption|]. split; [assumption|].
  split; [assumption|]. split; [reflexivity|]. split; [reflexivity|]. split; [|split; [assumption|]].
  - split.
    + intros T. exists op, o. auto.
    + intros (op' & o' & E1 & E2 & E3). congruence.
  - split.
    + destruct M1 as (L1 & _). destruct M2 as (L2 & _). destruct Hpj as (L3 & _).
      rewrite L3, L2, L1. apply upd_z_length.
    + intros j a a' Ea Ea'.
      destruct (jrel_some_bwd _ _ _ _ _ Hpj Ea') as (a3 & Ea3 & R3).
      destruct (jrel_some_bwd _ _ _ _ _ M2 Ea3) as (a2 & Ea2 & R2).
      destruct (jrel_some_bwd _ _ _ _ _ M1 Ea2) as (a1 & Ea1 & R1).
      destruct R1 as (R1s & R1b & _). destruct R2 as (R2s & R2b & _).
      destruct R3 as (_ & _ & P3 & _ & P5 & _ & P7 & P8 & _).
      assert (F1 : (j = i -> a1 = ti) /\ (j <> i -> a1 = a) /\ smallest a1 <= smallest a /\ biggest a <= biggest a1).
      { subst J1. destruct (Z.eq_dec j i) as [->|Hne].
        - rewrite nth_z_upd_same in Ea1 by assumption. inversion Ea1. subst a1.
          rewrite Eti in Ea. inversion Ea. subst a.
          split; [reflexivity|]. split; [intros; lia|]. subst ti. unfold cur_info.
          destruct (l_after_term s); cbn [smallest biggest]; lia.
        - rewrite nth_z_upd_other in Ea1 by lia. rewrite Ea in Ea1. inversion Ea1.
          split; [intros; lia|]. split; [reflexivity|]. lia. }
      destruct F1 as (F1 & F2 & F3 & F4). unfold stk_R.
      split; [lia|]. split; [lia|]. split; [|split].
      * intros Hlt. pose proof (F2 ltac:(lia)) as X. rewrite X in R1s, R1b. destruct (P5 ltac:(lia)). lia.
      * intros Hji. pose proof (F1 Hji) as X. rewrite X in R1s, R1b. destruct (P5 ltac:(lia)). fold ti. lia.
      * intros Hin. destruct (P3 Hin) as (_ & _ & X & Y). fold ti. lia.
Qed.
