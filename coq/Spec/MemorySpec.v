(* Specification side of C11: the quadratic memory formula on unbounded integers
   (Yellow Paper C_mem(a) = G_memory * a + floor(a^2 / 512)), G_memory = 3. *)
From Coq Require Import ZArith.
Local Open Scope Z_scope.
Definition mem_spec (w : Z) : Z := 3 * w + w * w / 512.
(* number of 32-byte words covering [len] bytes *)
Definition words_spec (len : Z) : Z := (len + 31) / 32.
