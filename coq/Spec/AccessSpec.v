(* EIP-2929 / EIP-2930 accessed sets in the style of the execution specifications: a message
   frame works on the accessed sets it inherited; on failure its additions are dropped, on
   success they are kept. Written independently of the journal (no journal entries here):
   the sets are plain functions and a frame keeps a snapshot. *)
From RevmV Require Import Base.Word Model.Host.
Local Open Scope Z_scope.

Record asets := mkAS { as_acc : Z -> bool; as_slot : Z -> Z -> bool }.

Definition acc_access (w : asets) (a : Z) : asets * bool :=     (* returns is_cold *)
  (mkAS (upd (as_acc w) a true) (as_slot w), negb (as_acc w a)).
Definition slot_access (w : asets) (a k : Z) : asets * bool :=
  (mkAS (as_acc w) (upd2 (as_slot w) a k true), negb (as_slot w a k)).

(* transaction-level sets: pre-warmed addresses (precompiles, coinbase from Shanghai, ...) and
   the access list *)
Fixpoint al_acc (l : list (Z * list Z)) (a : Z) : bool :=
  match l with [] => false | (x, _) :: r => (x =? a) || al_acc r a end.
Fixpoint mem_z (l : list Z) (k : Z) : bool :=
  match l with [] => false | x :: r => (x =? k) || mem_z r k end.
Fixpoint al_slot (l : list (Z * list Z)) (a k : Z) : bool :=
  match l with [] => false | (x, ks) :: r => ((x =? a) && mem_z ks k) || al_slot r a k end.
Definition initial_sets (pre : Z -> bool) (al : list (Z * list Z)) : asets :=
  mkAS (fun a => pre a || al_acc al a) (al_slot al).

(* What a step needs to know that is not access status: whether the loaded account delegates
   (EIP-7702) and to whom, and whether a create succeeded (it then opens a frame). *)
Record ann := mkAnn { an_deleg : option Z; an_created : bool }.

(* One history step on (current sets, stack of snapshots). Returns the cold answers the
   specification expects, in the order revm reports them. *)
Definition spec_step (ws : asets * list asets) (o : hop) (an : ann) : (asets * list asets) * list bool :=
  let '(w, stk) := ws in
  match o with
  | HLoad a => let '(w1, c) := acc_access w a in ((w1, stk), [c])
  | HLoadDelegated a =>
      let '(w1, c) := acc_access w a in
      match an_deleg an with
      | Some t => let '(w2, c2) := acc_access w1 t in ((w2, stk), [c; c2])
      | None => ((w1, stk), [c])
      end
  | HTransfer f t _ => let '(w1, _) := acc_access w f in let '(w2, _) := acc_access w1 t in ((w2, stk), [])
  | HSload a k | HSstore a k _ => let '(w1, c) := slot_access w a k in ((w1, stk), [c])
  | HSelfdestruct _ t => let '(w1, c) := acc_access w t in ((w1, stk), [c])
  | HCreate _ _ _ _ => if an_created an then ((w, w :: stk), []) else ((w, stk), [])
  | HCheckpoint => ((w, w :: stk), [])
  | HCommit => match stk with _ :: r => ((w, r), []) | [] => ((w, stk), []) end
  | HRevert => match stk with w0 :: r => ((w0, r), []) | [] => ((w, stk), []) end
  | _ => ((w, stk), [])
  end.

Fixpoint spec_run (ws : asets * list asets) (h : list hop) (ans : list ann)
  : (asets * list asets) * list (list bool) :=
  match h, ans with
  | o :: r, an :: anr =>
      let '(ws1, a) := spec_step ws o an in
      let '(ws2, ar) := spec_run ws1 r anr in (ws2, a :: ar)
  | _, _ => (ws, [])
  end.
