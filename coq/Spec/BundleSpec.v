(* Specification side of C16-C18, written independently of Model/Bundle.v's bundle functions:
   a plain state is what a database stores (an account table and a storage table), a
   changeset / a group of plain reverts is applied to it "the obvious way".
   Only the vocabulary (info, rslot, changeset, plain_revert records) is shared with the model. *)
From stdpp Require Import gmap.
From Coq Require Import ZArith.
From RevmV Require Import Model.Bundle.
Local Open Scope Z_scope.

Record plain := mkPlain {
  p_acc : gmap Z info;            (* account table: infos without code *)
  p_stor : gmap Z (gmap Z Z) }.   (* storage table; an absent entry and 0 are the same *)

Definition acc_get (p : plain) (a : Z) : option info := p_acc p !! a.
Definition stor_get (p : plain) (a k : Z) : Z :=
  match p_stor p !! a with
  | Some m => default 0 (m !! k)
  | None => 0
  end.

(* observational equality: every account read and every slot read agree *)
Definition plain_equiv (x y : plain) : Prop :=
  (forall a, acc_get x a = acc_get y a) /\ (forall a k, stor_get x a k = stor_get y a k).

(* a plain state is well formed when absent accounts own no storage *)
Definition plain_wf (p : plain) : Prop :=
  forall a k, acc_get p a = None -> stor_get p a k = 0.

(* the account table holds infos without their byte code (the code lives in the contracts table;
   apply_changeset / plain_step only ever write such infos) *)
Definition plain_nocode (p : plain) : Prop :=
  forall a i, acc_get p a = Some i -> i_code i = None.

(* ---- apply_changeset: write infos / delete accounts, wipe storage when flagged, write slots *)
Definition apply_account (cur : option info) (c : option (option info)) : option info :=
  match c with
  | None => cur
  | Some None => None
  | Some (Some i) => Some i
  end.
Definition write_slot (cur : option Z) (w : option Z) : option Z :=
  match w with None => cur | Some v => Some v end.
Definition apply_storage (cur : option (gmap Z Z)) (c : option (bool * gmap Z Z))
  : option (gmap Z Z) :=
  match c with
  | None => cur
  | Some (wipe, slots) =>
      Some (merge write_slot (if wipe then ∅ else default ∅ cur) slots)
  end.
Definition apply_changeset (cs : changeset) (p : plain) : plain :=
  mkPlain (merge apply_account (p_acc p) (cs_accounts cs))
          (merge apply_storage (p_stor p) (cs_storage cs)).

(* contracts: every account of [p] whose code hash is not that of the empty code and is not
   the hash the address had in [p0] finds its code in the changeset *)
Definition contracts_cover (cs : changeset) (p0 p : plain) : Prop :=
  forall a i, acc_get p a = Some i -> i_hash i <> KECCAK_EMPTY ->
    (i_hash <$> acc_get p0 a) <> Some (i_hash i) ->
    is_Some (cs_contracts cs !! i_hash i).

(* ---- apply one group of plain reverts to the state [cur] that follows the group; [p0] is the
   pre-bundle (database) state that a wiped storage falls back to *)
(* a listed slot: [RSome v] is the value before the group.  [RDestroyed] says "the slot did not
   exist in the account as the bundle knew it": inside a wiped revert the value before the group
   is therefore the pre-bundle (database) value (reverts.rs: "if it is destroyed, previous values
   can be found in database or it can be zero"), otherwise it is zero. *)
Definition revert_slot_value (wiped : bool) (base : option Z) (r : option rslot) : option Z :=
  match r with
  | None => base
  | Some (RSome v) => Some v
  | Some RDestroyed => if wiped then base else Some 0
  end.
Definition apply_storage_revert (cur : option (gmap Z Z))
  (r : option (option (gmap Z Z) * (bool * gmap Z rslot))) : option (gmap Z Z) :=
  match r with
  | None => cur
  | Some (p0s, (wiped, slots)) =>
      Some (merge (revert_slot_value wiped) (default ∅ (if wiped then p0s else cur)) slots)
  end.
Definition apply_plain_revert (p0 : plain) (r : plain_revert) (cur : plain) : plain :=
  mkPlain (merge apply_account (p_acc cur) (fmap strip <$> pr_accounts r))   (* the account table holds no code *)
          (merge apply_storage_revert (p_stor cur)
                 (map_imap (fun a x => Some (p_stor p0 !! a, x)) (pr_storage r))).
