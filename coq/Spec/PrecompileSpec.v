(* The specification side of C23: what the EIPs / the Yellow Paper define for every
   precompile, written on unbounded integers and independently of Model/Precompile.v:
     - [s_cost]      the defined gas cost (None: no cost is defined for this input),
     - [s_must_fail] Some true: the EIP says the call fails; Some false: it says the call
                     succeeds when the gas suffices; None: depends on an OPAQUE cryptographic
                     check (or on a length the implementation may refuse, see [modexp]),
     - the hand-written EIP-2537 discount tables.
   The output values are the executable specifications of Model/ (hash functions, curve
   arithmetic, modexp), there is no second formalisation to compare them with. *)
From RevmV Require Export Base.PBytes.
(* only the executable G2 predicate of BN254 (twist membership and order-n subgroup) is shared with the model *)
From RevmV Require Model.Precompile.
Local Open Scope Z_scope.

Definition ceil_div (a b : Z) : Z := a / b + (if a mod b =? 0 then 0 else 1).

(* Yellow Paper appendix E: base + per_word * ceil(len / 32) *)
Definition eip_linear_cost (base word len : Z) : Z := base + word * ceil_div len 32.

(* ---- EIP-198 ---- *)
Definition eip198_mult_complexity (x : Z) : Z :=
  if x <=? 64 then x ^ 2
  else if x <=? 1024 then x ^ 2 / 4 + 96 * x - 3072
  else x ^ 2 / 16 + 480 * x - 199680.
(* [head] = the first min(exp_len, 32) bytes of the exponent as a big-endian integer *)
Definition eip198_adjusted_exponent_length (exp_len head : Z) : Z :=
  if exp_len <=? 32 then (if head =? 0 then 0 else Z.log2 head)
  else 8 * (exp_len - 32) + (if head =? 0 then 0 else Z.log2 head).
Definition eip198_gas (base_len exp_len mod_len head : Z) : Z :=
  eip198_mult_complexity (Z.max mod_len base_len) * Z.max (eip198_adjusted_exponent_length exp_len head) 1 / 20.

(* ---- EIP-2565 (iteration count as in the execution specification: first 32 bytes) ---- *)
Definition eip2565_mult_complexity (base_len mod_len : Z) : Z := ceil_div (Z.max base_len mod_len) 8 ^ 2.
Definition eip2565_iteration_count (exp_len head : Z) : Z :=
  Z.max (eip198_adjusted_exponent_length exp_len head) 1.
Definition eip2565_gas (base_len exp_len mod_len head : Z) : Z :=
  Z.max 200 (eip2565_mult_complexity base_len mod_len * eip2565_iteration_count exp_len head / 3).

(* ---- EIP-196 / EIP-197 / EIP-1108 ---- *)
Definition eip_bn_add_gas (istanbul : bool) : Z := if istanbul then 150 else 500.
Definition eip_bn_mul_gas (istanbul : bool) : Z := if istanbul then 6000 else 40000.
Definition eip_bn_pair_gas (istanbul : bool) (k : Z) : Z :=
  if istanbul then 34000 * k + 45000 else 80000 * k + 100000.

(* ---- EIP-2537 (final version) ---- *)
Definition eip2537_g1add := 375.
Definition eip2537_g2add := 600.
Definition eip2537_g1mul := 12000.
Definition eip2537_g2mul := 22500.
Definition eip2537_map_fp := 5500.
Definition eip2537_map_fp2 := 23800.
Definition eip2537_pairing (k : Z) := 32600 * k + 37700.
Definition eip2537_g1_discount : list Z :=
 [1000; 949; 848; 797; 764; 750; 738; 728; 719; 712; 705; 698; 692; 687; 682; 677; 673; 669; 665;
  661; 658; 654; 651; 648; 645; 642; 640; 637; 635; 632; 630; 627; 625; 623; 621; 619; 617; 615;
  613; 611; 609; 608; 606; 604; 603; 601; 599; 598; 596; 595; 593; 592; 591; 589; 588; 586; 585;
  584; 582; 581; 580; 579; 577; 576; 575; 574; 573; 572; 570; 569; 568; 567; 566; 565; 564; 563;
  562; 561; 560; 559; 558; 557; 556; 555; 554; 553; 552; 551; 550; 549; 548; 547; 547; 546; 545;
  544; 543; 542; 541; 540; 540; 539; 538; 537; 536; 536; 535; 534; 533; 532; 532; 531; 530; 529;
  528; 528; 527; 526; 525; 525; 524; 523; 522; 522; 521; 520; 520; 519].
Definition eip2537_g2_discount : list Z :=
 [1000; 1000; 923; 884; 855; 832; 812; 796; 782; 770; 759; 749; 740; 732; 724; 717; 711; 704;
  699; 693; 688; 683; 679; 674; 670; 666; 663; 659; 655; 652; 649; 646; 643; 640; 637; 634; 632;
  629; 627; 624; 622; 620; 618; 615; 613; 611; 609; 607; 606; 604; 602; 600; 598; 597; 595; 593;
  592; 590; 589; 587; 586; 584; 583; 582; 580; 579; 578; 576; 575; 574; 573; 571; 570; 569; 568;
  567; 566; 565; 563; 562; 561; 560; 559; 558; 557; 556; 555; 554; 553; 552; 552; 551; 550; 549;
  548; 547; 546; 545; 545; 544; 543; 542; 541; 541; 540; 539; 538; 537; 537; 536; 535; 535; 534;
  533; 532; 532; 531; 530; 530; 529; 528; 528; 527; 526; 526; 525; 524; 524].
(* discount for k pairs: table entry k (1-based), the last entry beyond the table *)
Definition eip2537_discount (table : list Z) (k : Z) : Z :=
  if k <=? zlen table then nth (Z.to_nat (k - 1)) table 0 else last table 0.
Definition eip2537_msm_gas (table : list Z) (mul_cost k : Z) : Z :=
  k * mul_cost * eip2537_discount table k / 1000.

(* ---- the cost function of the property: (spec, address, input) -> defined cost ---- *)
(* specs: 0 HOMESTEAD, 1 BYZANTIUM, 2 ISTANBUL, 3 BERLIN, 4 CANCUN, 5 PRAGUE *)
Definition hdr (input : bytes) (off : Z) : Z := be_to_Z (right_pad_off 32 input off).
Definition exp_head (input : bytes) (base_len exp_len : Z) : Z :=
  be_to_Z (firstn (Z.to_nat (Z.min exp_len 32)) (right_pad_off 32 (drop 96 input) base_len)).

Definition s_present (spec addr : Z) : bool :=
  ((1 <=? addr) && (addr <=? 4)) ||
  ((5 <=? addr) && (addr <=? 8) && (1 <=? spec)) ||
  ((addr =? 9) && (2 <=? spec)) || ((addr =? 10) && (4 <=? spec)) ||
  ((11 <=? addr) && (addr <=? 17) && (5 <=? spec)).

Definition s_cost (spec addr : Z) (input : bytes) : option Z :=
  let len := zlen input in
  if negb (s_present spec addr) then None else
  if addr =? 1 then Some 3000
  else if addr =? 2 then Some (eip_linear_cost 60 12 len)
  else if addr =? 3 then Some (eip_linear_cost 600 120 len)
  else if addr =? 4 then Some (eip_linear_cost 15 3 len)
  else if addr =? 5 then
    let bl := hdr input 0 in let el := hdr input 32 in let ml := hdr input 64 in
    let head := exp_head input bl el in
    Some (if 3 <=? spec then eip2565_gas bl el ml head else eip198_gas bl el ml head)
  else if addr =? 6 then Some (eip_bn_add_gas (2 <=? spec))
  else if addr =? 7 then Some (eip_bn_mul_gas (2 <=? spec))
  else if addr =? 8 then Some (eip_bn_pair_gas (2 <=? spec) (len / 192))
  else if addr =? 9 then (if len =? 213 then Some (be_to_Z (firstn 4 input)) else None)
  else if addr =? 10 then Some 50000
  else if addr =? 11 then Some eip2537_g1add
  else if addr =? 12 then (if (len =? 0) || negb (len mod 160 =? 0) then None
                           else Some (eip2537_msm_gas eip2537_g1_discount eip2537_g1mul (len / 160)))
  else if addr =? 13 then Some eip2537_g2add
  else if addr =? 14 then (if (len =? 0) || negb (len mod 288 =? 0) then None
                           else Some (eip2537_msm_gas eip2537_g2_discount eip2537_g2mul (len / 288)))
  else if addr =? 15 then (if (len =? 0) || negb (len mod 384 =? 0) then None
                           else Some (eip2537_pairing (len / 384)))
  else if addr =? 16 then Some eip2537_map_fp
  else Some eip2537_map_fp2.

(* ---- failure rules that do not need cryptography ---- *)
Definition spec_bn_p : Z := 21888242871839275222246405745257275088696311157297823662689037894645226208583.
Definition spec_bls_p : Z := 0x1a0111ea397fe69a4b1ba7b6434bacd764774b84f38512bf6730d2a0f6b0f6241eabfffeb153ffffb9feffffffffaaab.
Definition spec_bls_r : Z := 0x73eda753299d7d483339d80809a1d80553bda402fffe5bfeffffffff00000001.

Definition word_at (input : bytes) (i : nat) : Z := be_to_Z (take_pad 32 (skipn (32 * i) input)).
Definition bn_on_curve (x y : Z) : bool :=
  ((x =? 0) && (y =? 0)) || ((y * y) mod spec_bn_p =? (x * x * x + 3) mod spec_bn_p).
(* a 64-byte EIP-2537 field element: 16 zero bytes then a value < p *)
Definition bls_fe_ok (input : bytes) (i : nat) : bool :=
  let e := take_pad 64 (skipn (64 * i) input) in
  all_zero (firstn 16 e) && (be_to_Z (skipn 16 e) <? spec_bls_p).
Definition bls_fe (input : bytes) (i : nat) : Z := be_to_Z (skipn 16 (take_pad 64 (skipn (64 * i) input))).
Definition bls_g1_curve (input : bytes) (i : nat) : bool :=
  let x := bls_fe input i in let y := bls_fe input (S i) in
  ((x =? 0) && (y =? 0)) || ((y * y) mod spec_bls_p =? (x * x * x + 4) mod spec_bls_p).

(* Some true = must fail, Some false = must succeed (given the gas), None = opaque *)
Definition s_must_fail (spec addr : Z) (input : bytes) : option bool :=
  let len := zlen input in
  if (addr =? 1) || (addr =? 2) || (addr =? 3) || (addr =? 4) then Some false
  else if addr =? 5 then
    (* lengths that do not fit 64 bits: the implementation may refuse them (their EIP cost is
       at least 9.2e17 gas); the (0, _, 0) header is the empty result whatever exp_len is *)
    let bl := hdr input 0 in let el := hdr input 32 in let ml := hdr input 64 in
    if (bl =? 0) && (ml =? 0) then Some false
    else if (pow64 <=? bl) || (pow64 <=? el) || (pow64 <=? ml) then None else Some false
  else if addr =? 6 then
    Some (negb (forallb (fun i => word_at input i <? spec_bn_p) (seq 0 4) &&
                bn_on_curve (word_at input 0) (word_at input 1) && bn_on_curve (word_at input 2) (word_at input 3)))
  else if addr =? 7 then
    Some (negb (forallb (fun i => word_at input i <? spec_bn_p) (seq 0 2) &&
                bn_on_curve (word_at input 0) (word_at input 1)))
  else if addr =? 8 then
    if negb (len mod 192 =? 0) then Some true
    else if negb (forallb (fun i => word_at input i <? spec_bn_p) (seq 0 (Z.to_nat (len / 32)))) then Some true
    else if negb (forallb (fun k => bn_on_curve (word_at input (6 * k)) (word_at input (6 * k + 1))) (seq 0 (Z.to_nat (len / 192)))) then Some true
    else if forallb (fun k => forallb (fun j => word_at input (6 * k + j) =? 0) (seq 2 4)) (seq 0 (Z.to_nat (len / 192))) then Some false
    (* EIP-197: every G2 element must be a point of the order-n subgroup of the twist, whatever it is paired with *)
    else if negb (forallb (fun k => forallb (fun j => word_at input (6 * k + j) =? 0) (seq 2 4)
                                    || Precompile.bn_g2_valid_memo (word_at input (6 * k + 2)) (word_at input (6 * k + 3))
                                                                   (word_at input (6 * k + 4)) (word_at input (6 * k + 5)))
                          (seq 0 (Z.to_nat (len / 192)))) then Some true
    else None
  else if addr =? 9 then
    Some (negb (len =? 213) || negb ((nth 212 input 0 =? 0) || (nth 212 input 0 =? 1)))
  else if addr =? 10 then
    if negb (len =? 192) then Some true
    else if (spec_bls_r <=? word_at input 1) || (spec_bls_r <=? word_at input 2) then Some true
    else None (* versioned hash (needs SHA-256, checked through the model) and the proof *)
  else if addr =? 11 then
    if negb (len =? 256) || negb (forallb (bls_fe_ok input) (seq 0 4)) then Some true
    else if negb (bls_g1_curve input 0 && bls_g1_curve input 2) then Some true else Some false
  else if addr =? 12 then
    if (len =? 0) || negb (len mod 160 =? 0) then Some true else None
  else if addr =? 13 then
    if negb (len =? 512) || negb (forallb (bls_fe_ok input) (seq 0 8)) then Some true else None
  else if addr =? 14 then
    if (len =? 0) || negb (len mod 288 =? 0) then Some true else None
  else if addr =? 15 then
    if (len =? 0) || negb (len mod 384 =? 0) then Some true
    else if negb (forallb (bls_fe_ok input) (seq 0 (Z.to_nat (len / 64)))) then Some true else None
  else if addr =? 16 then
    Some (negb (len =? 64) || negb (bls_fe_ok input 0))
  else if addr =? 17 then
    Some (negb (len =? 128) || negb (bls_fe_ok input 0 && bls_fe_ok input 1))
  else None.

(* expected output length when the call succeeds (None: depends on the input) *)
Definition s_out_len (addr : Z) : option Z :=
  if addr =? 2 then Some 32 else if addr =? 3 then Some 32
  else if (addr =? 6) || (addr =? 7) then Some 64 else if addr =? 8 then Some 32
  else if addr =? 9 then Some 64 else if addr =? 10 then Some 64
  else if (addr =? 11) || (addr =? 12) || (addr =? 16) then Some 128
  else if (addr =? 13) || (addr =? 14) || (addr =? 17) then Some 256
  else if addr =? 15 then Some 32 else None.

(* The property's clauses on an observed result: [res] = None (failure of kind OutOfGas),
   Some None (any other failure), Some (Some (gas, out)) success. *)
Inductive sobs := SOog | SFail | SOk (gas : Z) (out : bytes).
Definition s_accepts (spec addr : Z) (input : bytes) (limit : Z) (o : sobs) : bool :=
  match o with
  | SOog => match s_cost spec addr input with Some c => limit <? c | None => false end
  | SFail => match s_must_fail spec addr input with Some false => false | _ => true end
  | SOk g out =>
    match s_cost spec addr input with
    | Some c => (g =? c) && (c <=? limit)
    | None => false
    end &&
    match s_must_fail spec addr input with Some true => false | _ => true end &&
    match s_out_len addr with Some n => zlen out =? n
                            | None => true end
  end.
