(* Specification side of C03: the value each opcode must push, written on unbounded
   integers (Yellow Paper appendix H, EIP-145, EIP-160), independently of Model/Arith.v.
   Operands are given in stack order: the first argument is the top of the stack (mu_s[0]). *)
From Coq Require Import ZArith List Bool.
Import ListNotations.
Local Open Scope Z_scope.

Definition W : Z := 2 ^ 256.

(* two's complement reading of a word *)
Definition signed (x : Z) : Z := if x <? 2 ^ 255 then x else x - W.
(* back to a word *)
Definition word (x : Z) : Z := x mod W.
Definition of_bool (b : bool) : Z := if b then 1 else 0.

Definition ADD (a b : Z) : Z := word (a + b).
Definition MUL (a b : Z) : Z := word (a * b).
Definition SUB (a b : Z) : Z := word (a - b).
Definition DIV (a b : Z) : Z := if b =? 0 then 0 else a / b.
(* truncated (round toward zero) division of the signed values *)
Definition SDIV (a b : Z) : Z := if b =? 0 then 0 else word (Z.quot (signed a) (signed b)).
Definition MOD (a b : Z) : Z := if b =? 0 then 0 else a mod b.
(* remainder with the sign of the dividend *)
Definition SMOD (a b : Z) : Z := if b =? 0 then 0 else word (Z.rem (signed a) (signed b)).
(* intermediate results are not reduced modulo 2^256 *)
Definition ADDMOD (a b n : Z) : Z := if n =? 0 then 0 else (a + b) mod n.
Definition MULMOD (a b n : Z) : Z := if n =? 0 then 0 else (a * b) mod n.
Definition EXP (a b : Z) : Z := word (a ^ b).

(* SIGNEXTEND k x: read the low 8(k+1) bits of x as a two's complement number of that width
   and re-encode it on 256 bits.  For k >= 31 the word is unchanged. *)
Definition SIGNEXTEND (k x : Z) : Z :=
  if k <? 31 then
    let n := 8 * (k + 1) in
    let low := x mod 2 ^ n in
    word (if low <? 2 ^ (n - 1) then low else low - 2 ^ n)
  else x.

Definition LT (a b : Z) : Z := of_bool (a <? b).
Definition GT (a b : Z) : Z := of_bool (b <? a).
Definition SLT (a b : Z) : Z := of_bool (signed a <? signed b).
Definition SGT (a b : Z) : Z := of_bool (signed b <? signed a).
Definition EQ (a b : Z) : Z := of_bool (a =? b).
Definition ISZERO (a : Z) : Z := of_bool (a =? 0).

(* bitwise operations, bit by bit *)
Definition bitwise (f : bool -> bool -> bool) (a b : Z) (i : Z) : bool :=
  f (Z.testbit a i) (Z.testbit b i).
(* value of the 256 bits given by a predicate *)
Fixpoint bits_value (n : nat) (p : Z -> bool) : Z :=
  match n with
  | O => 0
  | S m => bits_value m p + (if p (Z.of_nat m) then 2 ^ Z.of_nat m else 0)
  end.
Definition AND (a b : Z) : Z := bits_value 256 (bitwise andb a b).
Definition OR (a b : Z) : Z := bits_value 256 (bitwise orb a b).
Definition XOR (a b : Z) : Z := bits_value 256 (bitwise xorb a b).
Definition NOT (a : Z) : Z := W - 1 - a.

(* BYTE i x: i-th byte counting from the most significant one *)
Definition BYTE (i x : Z) : Z := if i <? 32 then (x / 256 ^ (31 - i)) mod 256 else 0.

(* the word rebuilt from its 32 BYTEs read as big-endian base-256 digits (least significant first) *)
Fixpoint be_value (n : nat) (x : Z) : Z :=
  match n with
  | O => 0
  | S m => be_value m x + BYTE (31 - Z.of_nat m) x * 256 ^ Z.of_nat m
  end.

(* EIP-145.  Operand order: shift amount on top. *)
Definition SHL (s x : Z) : Z := word (x * 2 ^ s).
Definition SHR (s x : Z) : Z := x / 2 ^ s.
Definition SAR (s x : Z) : Z := word (signed x / 2 ^ s).   (* Z./ rounds toward -infinity *)

(* ---- forms of EXP / shifts that can be evaluated for huge exponents and shift amounts;
   proved equal to the definitions above in Proofs/ArithProofs.v ---- *)
Fixpoint pow_pos_mod (a : Z) (p : positive) : Z :=
  match p with
  | xH => word a
  | xO q => let r := pow_pos_mod a q in word (r * r)
  | xI q => let r := pow_pos_mod a q in word (word (r * r) * a)
  end.
Definition EXP_fast (a b : Z) : Z :=
  match b with Z0 => word 1 | Zpos p => pow_pos_mod a p | Zneg _ => word 1 end.
Definition SHL_fast (s x : Z) : Z := if s <? 256 then SHL s x else 0.
Definition SHR_fast (s x : Z) : Z := if s <? 256 then SHR s x else 0.
Definition SAR_fast (s x : Z) : Z := SAR (Z.min s 256) x.

(* ---- gas (Yellow Paper appendix G; EIP-160 for EXP) ---- *)
Definition G_verylow : Z := 3.
Definition G_low : Z := 5.
Definition G_mid : Z := 8.
Definition G_exp : Z := 10.
(* spec ordinals as in SpecId: SPURIOUS_DRAGON = 5, CONSTANTINOPLE = 7 *)
Definition G_expbyte (spec : Z) : Z := if 5 <=? spec then 50 else 10.

(* number of bytes needed to write e (0 for e = 0): count divisions by 256 *)
Fixpoint byte_size_fuel (fuel : nat) (e : Z) : Z :=
  match fuel with
  | O => 0
  | S f => if e <=? 0 then 0 else 1 + byte_size_fuel f (e / 256)
  end.
Definition byte_size (e : Z) : Z := byte_size_fuel 33 e.
Definition exp_gas (spec e : Z) : Z := G_exp + G_expbyte spec * byte_size e.

(* static price per opcode byte; None = dynamic (EXP) or not an opcode of this property *)
Definition static_gas (op : Z) : option Z :=
  if existsb (Z.eqb op) [0x01; 0x03; 0x10; 0x11; 0x12; 0x13; 0x14; 0x15; 0x16; 0x17; 0x18; 0x19;
                         0x1A; 0x1B; 0x1C; 0x1D] then Some G_verylow
  else if existsb (Z.eqb op) [0x02; 0x04; 0x05; 0x06; 0x07; 0x0B] then Some G_low
  else if existsb (Z.eqb op) [0x08; 0x09] then Some G_mid
  else None.

(* number of stack inputs *)
Definition arity (op : Z) : Z :=
  if existsb (Z.eqb op) [0x15; 0x19] then 1
  else if existsb (Z.eqb op) [0x08; 0x09] then 3 else 2.

(* the opcode exists in the fork: SHL/SHR/SAR from CONSTANTINOPLE *)
Definition available (spec op : Z) : bool :=
  if existsb (Z.eqb op) [0x1B; 0x1C; 0x1D] then 7 <=? spec else true.

(* value pushed by opcode [op] on operands [args] (top of stack first); evaluable form *)
Definition value (op : Z) (args : list Z) : option Z :=
  match op, args with
  | 0x01, [a; b] => Some (ADD a b)
  | 0x02, [a; b] => Some (MUL a b)
  | 0x03, [a; b] => Some (SUB a b)
  | 0x04, [a; b] => Some (DIV a b)
  | 0x05, [a; b] => Some (SDIV a b)
  | 0x06, [a; b] => Some (MOD a b)
  | 0x07, [a; b] => Some (SMOD a b)
  | 0x08, [a; b; n] => Some (ADDMOD a b n)
  | 0x09, [a; b; n] => Some (MULMOD a b n)
  | 0x0A, [a; b] => Some (EXP_fast a b)
  | 0x0B, [a; b] => Some (SIGNEXTEND a b)
  | 0x10, [a; b] => Some (LT a b)
  | 0x11, [a; b] => Some (GT a b)
  | 0x12, [a; b] => Some (SLT a b)
  | 0x13, [a; b] => Some (SGT a b)
  | 0x14, [a; b] => Some (EQ a b)
  | 0x15, [a] => Some (ISZERO a)
  | 0x16, [a; b] => Some (AND a b)
  | 0x17, [a; b] => Some (OR a b)
  | 0x18, [a; b] => Some (XOR a b)
  | 0x19, [a] => Some (NOT a)
  | 0x1A, [a; b] => Some (BYTE a b)
  | 0x1B, [a; b] => Some (SHL_fast a b)
  | 0x1C, [a; b] => Some (SHR_fast a b)
  | 0x1D, [a; b] => Some (SAR_fast a b)
  | _, _ => None
  end.
Definition gas_of (spec op : Z) (args : list Z) : option Z :=
  if op =? 0x0A then match args with [_; e] => Some (exp_gas spec e) | _ => None end
  else static_gas op.

(* ---- the finite SpecId x opcode table (Gen/ArithGas.v is read out of the compiled code) ---- *)
(* SpecId ordinals of the non-optimism build: FRONTIER = 0 ... OSAKA = 19, LATEST = 255 *)
Definition all_specs : list Z :=
  [0; 1; 2; 3; 4; 5; 6; 7; 8; 9; 10; 11; 12; 13; 14; 15; 16; 17; 18; 19; 255].
Definition opcodes : list Z :=
  [0x01; 0x02; 0x03; 0x04; 0x05; 0x06; 0x07; 0x08; 0x09; 0x0A; 0x0B;
   0x10; 0x11; 0x12; 0x13; 0x14; 0x15; 0x16; 0x17; 0x18; 0x19; 0x1A; 0x1B; 0x1C; 0x1D].
(* operands used by the reflector: 5, 3, (7), top of stack first *)
Definition cell_args (op : Z) : list Z := firstn (Z.to_nat (arity op)) [5; 3; 7].
(* row = (spec, opcode, result class (0 = ran), gas spent) *)
Definition cell_ok (row : Z * Z * Z * Z) : bool :=
  let '(spec, op, cls, g) := row in
  if available spec op
  then (cls =? 0) && match gas_of spec op (cell_args op) with Some c => g =? c | None => false end
  else negb (cls =? 0).
