(* Specification side of C12: an abstract last-in-first-out list of at most 1024 words,
   TOP FIRST, written without reference to vector indices, limbs or the model functions
   (only the operation type, the outcome type and the two error codes are shared with
   Model/Stack.v).  "Pushing a byte slice pushes its big-endian words": the slice is cut
   into 32-byte chunks from the front, every chunk (also a short last one) is read as a
   big-endian number — see DESIGN.md 6.1: a short last chunk is right-aligned. *)
From RevmV Require Import Base.Word Model.Stack.
Local Open Scope Z_scope.

Definition LIMIT : nat := 1024.
Definition lifo := list Z. (* top first *)

(* big-endian value: sum of b_i * 256^(k-1-i) *)
Fixpoint be_value (bs : list Z) : Z :=
  match bs with
  | [] => 0
  | b :: r => b * 256 ^ Z.of_nat (length r) + be_value r
  end.

(* consecutive chunks of k bytes, the last one possibly shorter *)
Fixpoint chunks_f (fuel k : nat) (l : list Z) : list (list Z) :=
  match fuel with
  | O => []
  | S f => match l with [] => [] | _ => firstn k l :: chunks_f f k (skipn k l) end
  end.
Definition chunks (k : nat) (l : list Z) := chunks_f (length l) k l.

Fixpoint set_nth (n : nat) (v : Z) (l : lifo) : lifo :=
  match l, n with
  | [], _ => []
  | _ :: r, O => v :: r
  | x :: r, S n' => x :: set_nth n' v r
  end.

(* element at depth n (0 = top); the comparison comes first so that evaluation never converts
   a huge index to unary *)
Definition lookup (l : lifo) (n : Z) : option Z :=
  if (0 <=? n) && (n <? Z.of_nat (length l)) then nth_error l (Z.to_nat n) else None.

Definition a_push (l : lifo) (v : Z) : lifo * outcome :=
  if (length l <? LIMIT)%nat then (v :: l, Ok 0) else (l, Err StackOverflow).

(* all the words or none *)
Definition a_push_words (l : lifo) (ws : list Z) : lifo * outcome :=
  if (length l + length ws <=? LIMIT)%nat then (rev ws ++ l, Ok 0) else (l, Err StackOverflow).

Definition a_exchange (l : lifo) (n m : Z) : lifo * outcome :=
  if (m <=? 0) || (pow64 <=? n + m) then (l, Panic)
  else match lookup l n, lookup l (n + m) with
       | Some a, Some b => (set_nth (Z.to_nat (n + m)) a (set_nth (Z.to_nat n) b l), Ok 0)
       | _, _ => (l, Err StackUnderflow)
       end.

Definition a_step (l : lifo) (o : stack_op) : lifo * outcome :=
  match o with
  | OPush v => a_push l v
  | OPop => match l with v :: r => (r, Ok v) | [] => (l, Err StackUnderflow) end
  | OPeek n => match lookup l n with
               | Some v => (l, Ok v) | None => (l, Err StackUnderflow) end
  | OSet n v => if (0 <=? n) && (n <? Z.of_nat (length l)) then (set_nth (Z.to_nat n) v l, Ok 0)
                else (l, Err StackUnderflow)
  | ODup n => if n <=? 0 then (l, Panic)
              else match lookup l (n - 1) with
                   | None => (l, Err StackUnderflow)
                   | Some v => a_push l v
                   end
  | OSwap n => a_exchange l 0 n
  | OExchange n m => a_exchange l n m
  | OPushSlice bs => a_push_words l (map be_value (chunks 32 bs))
  | OPushB256 bs => a_push l (be_value bs)
  | OPopUnsafe => match l with v :: r => (r, Ok v) | [] => (l, Panic) end
  | OTopWrite v => match l with t :: r => (v :: r, Ok t) | [] => (l, Panic) end
  | OPopTopWrite v => match l with a :: _ :: r => (v :: r, Ok a) | _ => (l, Panic) end
  end.

Definition a_run (l : lifo) (h : list stack_op) : lifo :=
  fold_left (fun l o => fst (a_step l o)) h l.
