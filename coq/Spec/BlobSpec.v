(* EIP-4844 helpers on unbounded integers, written from the EIP text:

     def fake_exponential(factor, numerator, denominator):
         i = 1; output = 0
         numerator_accum = factor * denominator
         while numerator_accum > 0:
             output += numerator_accum
             numerator_accum = (numerator_accum * numerator) // (denominator * i)
             i += 1
         return output // denominator

     def calc_excess_blob_gas(parent): max(0, parent.excess + parent.used - TARGET)

   The loop is a fuelled recursion ([None] = fuel exhausted); [fake_exponential_is f n d v]
   says that the EIP loop terminates with value v.  Termination for all non-negative inputs
   and uniqueness of v are proved in Proofs/BlobProofs.v. *)
From Coq Require Import ZArith.
Local Open Scope Z_scope.

Fixpoint spec_loop (fuel : nat) (numerator denominator i output accum : Z) : option Z :=
  if accum =? 0 then Some (output / denominator) else
  match fuel with
  | O => None
  | S k => spec_loop k numerator denominator (i + 1) (output + accum)
                     (accum * numerator / (denominator * i))
  end.

Definition fake_exponential_fuel (fuel : nat) (factor numerator denominator : Z) : option Z :=
  spec_loop fuel numerator denominator 1 0 (factor * denominator).

Definition fake_exponential_is (factor numerator denominator v : Z) : Prop :=
  exists fuel, fake_exponential_fuel fuel factor numerator denominator = Some v.

Definition calc_excess_blob_gas (parent_excess parent_used target : Z) : Z :=
  Z.max 0 (parent_excess + parent_used - target).

Definition MIN_BLOB_GASPRICE : Z := 1.
Definition blob_update_fraction (is_prague : bool) : Z :=
  if is_prague then 5007716 (* EIP-7691 *) else 3338477 (* EIP-4844 *).
Definition blob_gasprice_is (excess : Z) (is_prague : bool) (v : Z) : Prop :=
  fake_exponential_is MIN_BLOB_GASPRICE excess (blob_update_fraction is_prague) v.
