(* Specification side for "an accepted container never reaches an interpreter path that assumes
   a valid container": a boolean predicate on a decoded container, written independently of the
   validator model (own instruction scanner over the opcode table of Gen/EofOps.v).
   [container_safe] says, for every code section of the container and of all nested
   sub-containers:
   - the section splits into whole instructions (defined, EOF-enabled opcodes, immediates inside
     the section) and its last instruction is terminating (execution cannot run off the end);
   - every RJUMP/RJUMPI/RJUMPV target is an instruction start inside the same section;
   - every CALLF/JUMPF operand is < number of code sections (= number of types entries);
   - every EOFCREATE/RETURNCONTRACT operand is < number of sub-containers, that sub-container
     decodes, and an EOFCREATE target has its data section filled;
   - every DATALOADN operand + 32 <= declared data size.
   These are exactly the facts the panic!/expect/unsafe-pointer sites of instructions/control.rs,
   contract.rs, data.rs and Interpreter::load_eof_code rely on. *)
From RevmV Require Import Model.Eof Gen.EofOps.
Local Open Scope Z_scope.

Definition byte_at (code : bytes) (i : Z) : option Z :=
  if i <? 0 then None else nth_error code (Z.to_nat i).
Definition u16_at (code : bytes) (i : Z) : option Z :=
  match byte_at code i, byte_at code (i + 1) with
  | Some h, Some l => Some (h * 256 + l) | _, _ => None end.
Definition i16_at (code : bytes) (i : Z) : option Z :=
  match u16_at code i with Some u => Some (if u <? 32768 then u else u - 65536) | None => None end.

(* (immediate length, terminating) of the instruction starting at i *)
Definition instr_at (code : bytes) (i : Z) : option (Z * Z * bool) :=
  match byte_at code i with
  | None => None
  | Some op =>
    match nth_error eof_op_table (Z.to_nat op) with
    | Some (Some (_, _, m, disabled, term)) =>
      if disabled then None else
      if op =? OP_RJUMPV then
        match byte_at code (i + 1) with Some mx => Some (op, 1 + 2 * (mx + 1), term) | None => None end
      else Some (op, m, term)
    | _ => None
    end
  end.

(* instruction starts with opcode, immediate length, terminating flag; None if the section does
   not split into whole instructions *)
Fixpoint scan (fuel : nat) (code : bytes) (i : Z) : option (list (Z * Z * Z * bool)) :=
  if i =? len code then Some [] else
  match fuel with
  | O => None
  | S f =>
    match instr_at code i with
    | Some (op, m, term) =>
      if i + 1 + m <=? len code then
        match scan f code (i + 1 + m) with Some r => Some ((i, op, m, term) :: r) | None => None end
      else None
    | None => None
    end
  end.

Definition is_start (ins : list (Z * Z * Z * bool)) (t : Z) : bool :=
  existsb (fun x => let '(i, _, _, _) := x in i =? t) ins.

Fixpoint rjumpv_ok (code : bytes) (ins : list (Z * Z * Z * bool)) (i m : Z) (k : nat) : bool :=
  match k with
  | O => true
  | S k' => match i16_at code (i + 2 + 2 * Z.of_nat k') with
            | Some off => is_start ins (i + 1 + m + off) && rjumpv_ok code ins i m k'
            | None => false
            end
  end.

Definition instr_ok (code : bytes) (ins : list (Z * Z * Z * bool)) (ntypes ncont dsize : Z)
           (x : Z * Z * Z * bool) : bool :=
  let '(i, op, m, _) := x in
  if (op =? OP_RJUMP) || (op =? OP_RJUMPI) then
    match i16_at code (i + 1) with Some off => is_start ins (i + 3 + off) | None => false end
  else if op =? OP_RJUMPV then
    match byte_at code (i + 1) with Some mx => rjumpv_ok code ins i m (Z.to_nat (mx + 1)) | None => false end
  else if (op =? OP_CALLF) || (op =? OP_JUMPF) then
    match u16_at code (i + 1) with Some s => s <? ntypes | None => false end
  else if (op =? OP_EOFCREATE) || (op =? OP_RETURNCONTRACT) then
    match byte_at code (i + 1) with Some s => s <? ncont | None => false end
  else if op =? OP_DATALOADN then
    match u16_at code (i + 1) with Some s => s + 32 <=? dsize | None => false end
  else true.

Definition last_terminates (ins : list (Z * Z * Z * bool)) : bool :=
  match rev ins with (_, _, _, term) :: _ => term | [] => false end.

Definition section_safe (ntypes ncont dsize : Z) (code : bytes) : bool :=
  match scan (S (length code)) code 0 with
  | Some ins => forallb (instr_ok code ins ntypes ncont dsize) ins && last_terminates ins
  | None => false
  end.

(* operands of EOFCREATE in a section *)
Definition eofcreate_targets (code : bytes) : list Z :=
  match scan (S (length code)) code 0 with
  | Some ins => flat_map (fun x => let '(i, op, _, _) := x in
                  if op =? OP_EOFCREATE then match byte_at code (i + 1) with Some s => [s] | None => [] end else []) ins
  | None => []
  end.

Fixpoint container_safe (fuel : nat) (e : Eof) : bool :=
  match fuel with
  | O => false
  | S f =>
    let b := body e in
    let ntypes := len (types_section b) in
    let ncont := len (container_section b) in
    (len (code_section b) =? ntypes) && (1 <=? ntypes)
    && forallb (section_safe ntypes ncont (data_size (header e))) (code_section b)
    && forallb (fun c => match decode c with Ok e' => container_safe f e' | _ => false end) (container_section b)
    && forallb (fun t => match nth_error (container_section b) (Z.to_nat t) with
                         | Some c => match decode c with Ok e' => is_data_filled (body e') | _ => false end
                         | None => false end)
               (flat_map eofcreate_targets (code_section b))
  end.
