(* C20 specification side: a database as PLAIN DATA (finite maps), the five queries on plain
   data, and what each change committed through a wrapper means on plain data ("underlying
   data plus committed changes": the change is simply written into the maps).  Nothing here
   knows about caches, account states or wrappers.

   Representation (keys and values are Z):
     accounts   address -> info (nonce, balance, code hash).  [AccountInfo::eq] ignores the
                optional [code] field, and so does this development.
     storage    address -> (slot -> value)   (the curried form of (address, slot) -> value)
     code       code hash -> bytecode id     (0 = the empty bytecode [Bytecode::default()];
                an unknown hash answers 0, as [EmptyDB] does)
     block hash number -> hash               (unknown number answers 0)
     u_has      the database's own [has_storage_ref] answer (an arbitrary function: a database
                that keeps the trait default answers [false] everywhere). *)
From stdpp Require Import gmap.
From Coq Require Import ZArith.
Local Open Scope Z_scope.

Definition KECCAK_EMPTY : Z := 0xc5d2460186f7233c927e7db2dcc703c0e500b653ca82273b7bfad8045d85a470.

Record info := mkInfo { i_nonce : Z; i_balance : Z; i_code_hash : Z }.
Definition info_eqb (a b : info) : bool :=
  (i_nonce a =? i_nonce b) && (i_balance a =? i_balance b) && (i_code_hash a =? i_code_hash b).
(* [AccountInfo::default()] *)
Definition info_default : info := mkInfo 0 0 KECCAK_EMPTY.

(* An [AccountInfo] handed to a write operation: the info fields plus the optional [code]:
   [Some (cid, hs)] = bytecode id [cid] ([0] = empty) whose [hash_slow()] is [hs]. *)
Record info_in := mkInfoIn { ii_info : info; ii_code : option (Z * Z) }.

Record udb := mkU {
  u_acc : gmap Z info;
  u_stor : gmap Z (gmap Z Z);
  u_code : gmap Z Z;
  u_bh : gmap Z Z;
  u_has : Z -> bool }.

(* ---- the five queries on plain data ---- *)
Definition slots_of (m : gmap Z (gmap Z Z)) (a : Z) : gmap Z Z := default ∅ (m !! a).
Definition any_nonzero (m : gmap Z Z) : bool := bool_decide (map_Exists (fun _ v => v <> 0) m).

Definition p_basic (s : udb) (a : Z) : option info := u_acc s !! a.
Definition p_storage (s : udb) (a k : Z) : Z := default 0 (slots_of (u_stor s) a !! k).
Definition p_code_by_hash (s : udb) (h : Z) : Z := default 0 (u_code s !! h).
Definition p_block_hash (s : udb) (n : Z) : Z := default 0 (u_bh s !! n).
(* EIP-7610: the account has storage iff some slot is non-zero *)
Definition p_has_storage (s : udb) (a : Z) : bool := any_nonzero (slots_of (u_stor s) a).

(* ---- changes ---- *)
(* the info that a write records: the code hash of an account that comes with non-empty code
   and the "no code" hash is the hash of that code; a zero hash means "no code" *)
Definition norm_hash (ii : info_in) : Z :=
  let h0 := i_code_hash (ii_info ii) in
  let h1 := match ii_code ii with
            | Some (cid, hs) => if (cid =? 0) then h0 else if (h0 =? KECCAK_EMPTY) then hs else h0
            | None => h0 end in
  if h1 =? 0 then KECCAK_EMPTY else h1.
Definition norm_info (ii : info_in) : info :=
  mkInfo (i_nonce (ii_info ii)) (i_balance (ii_info ii)) (norm_hash ii).
(* the (hash, code) pair a write makes known, if any *)
Definition code_pair (ii : info_in) : option (Z * Z) :=
  match ii_code ii with
  | Some (cid, hs) => if cid =? 0 then None else
      Some (if i_code_hash (ii_info ii) =? KECCAK_EMPTY then hs else i_code_hash (ii_info ii), cid)
  | None => None end.
Definition learn_code (code : gmap Z Z) (ii : info_in) : gmap Z Z :=
  match code_pair ii with Some (h, cid) => <[h := cid]> code | None => code end.

(* slot writes, applied in order *)
Fixpoint write_slots (l : list (Z * Z)) (m : gmap Z Z) : gmap Z Z :=
  match l with [] => m | (k, v) :: r => write_slots r (<[k := v]> m) end.

(* one account of an EVM output state ([Account] of revm_primitives, simplified): status flags,
   info, and the present values of the storage slots it carries *)
Record change := mkChange {
  ch_touched : bool; ch_selfdestructed : bool; ch_created : bool;
  ch_info : info_in; ch_storage : list (Z * Z) }.

Definition set_acc (s : udb) (f : gmap Z info -> gmap Z info) : udb :=
  mkU (f (u_acc s)) (u_stor s) (u_code s) (u_bh s) (u_has s).
Definition set_stor (s : udb) (f : gmap Z (gmap Z Z) -> gmap Z (gmap Z Z)) : udb :=
  mkU (u_acc s) (f (u_stor s)) (u_code s) (u_bh s) (u_has s).
Definition set_code (s : udb) (f : gmap Z Z -> gmap Z Z) : udb :=
  mkU (u_acc s) (u_stor s) (f (u_code s)) (u_bh s) (u_has s).

Definition s_commit_one (s : udb) (ac : Z * change) : udb :=
  let '(a, ch) := ac in
  if negb (ch_touched ch) then s
  else if ch_selfdestructed ch then
    (* the account and all of its storage are gone *)
    set_stor (set_acc s (delete a)) (delete a)
  else
    let s1 := set_acc s (<[a := norm_info (ch_info ch)]>) in
    let s2 := set_code s1 (fun c => learn_code c (ch_info ch)) in
    let base := if ch_created ch then ∅ else slots_of (u_stor s) a in
    set_stor s2 (<[a := write_slots (ch_storage ch) base]>).
Definition s_commit (s : udb) (l : list (Z * change)) : udb := fold_left s_commit_one l s.

Definition s_insert_account_info (s : udb) (a : Z) (ii : info_in) : udb :=
  set_code (set_acc s (<[a := norm_info ii]>)) (fun c => learn_code c ii).
Definition s_insert_account_storage (s : udb) (a k v : Z) : udb :=
  set_stor s (<[a := <[k := v]> (slots_of (u_stor s) a)]>).
Definition s_replace_account_storage (s : udb) (a : Z) (l : list (Z * Z)) : udb :=
  set_stor s (<[a := write_slots l ∅]>).
Definition s_insert_contract (s : udb) (ii : info_in) : udb :=
  set_code s (fun c => learn_code c ii).

(* ---- well-formedness of plain data (hypotheses of the theorems, all decidable on the
   finite data; stated as Props) ---- *)
(* storage lives inside accounts: an address without account has no storage, and infos carry a
   proper code hash *)
Definition wf_data (u : udb) : Prop :=
  (forall a, p_basic u a = None -> (forall k, p_storage u a k = 0) /\ u_has u a = false).
(* the database's own has-storage answer never misses storage it holds / is exact *)
Definition has_sound (u : udb) : Prop := forall a k, p_storage u a k <> 0 -> u_has u a = true.
Definition has_complete (u : udb) : Prop := forall a, u_has u a = true -> exists k, p_storage u a k <> 0.
(* code is content addressed: [H] maps a hash to the bytecode with that hash *)
Definition code_wf (H : Z -> Z) (u : udb) : Prop :=
  H KECCAK_EMPTY = 0 /\ H 0 = 0 /\ forall h c, u_code u !! h = Some c -> c = H h.
Definition info_in_wf (H : Z -> Z) (ii : info_in) : Prop :=
  match ii_code ii with
  | Some (cid, hs) => cid = H hs /\ (cid <> 0 -> i_code_hash (ii_info ii) = KECCAK_EMPTY \/ i_code_hash (ii_info ii) = hs)
  | None => True end.
