(* Specification side of C04, written without reference to Model/Jump.v:
   which positions of a byte string are instruction starts, which lie in PUSH immediate data,
   and a direct boolean computation of the set of valid jump destinations. *)
From Coq Require Export ZArith List Lia Bool.
Export ListNotations.
Local Open Scope Z_scope.

(* number of immediate bytes of an opcode (EVM definition: PUSH1 = 0x60 .. PUSH32 = 0x7f) *)
Definition pushlen (o : Z) : nat :=
  if (0x60 <=? o) && (o <=? 0x7f) then Z.to_nat (o - 0x5f) else 0%nat.

(* instruction starts: 0 is a start; a start i (inside the code) with opcode o makes
   i + 1 + pushlen o a start *)
Inductive InstrStart (code : list Z) : nat -> Prop :=
| IS_zero : InstrStart code 0%nat
| IS_next i : InstrStart code i -> (i < length code)%nat ->
              InstrStart code (i + 1 + pushlen (nth i code 0%Z))%nat.

(* position t lies in the immediate data of a PUSH that is itself an instruction *)
Definition InPushData (code : list Z) (t : nat) : Prop :=
  exists i, InstrStart code i /\ (i < length code)%nat /\
            (i < t <= i + pushlen (nth i code 0%Z))%nat.

(* the property's right-hand side for a 256-bit target *)
Definition ValidDest (code : list Z) (t : Z) : Prop :=
  0 <= t < Z.of_nat (length code) /\ nth (Z.to_nat t) code 0%Z = 0x5b /\
  InstrStart code (Z.to_nat t).

(* ---- boolean oracle used by the correspondence check ------------------------------------- *)
(* The set of instruction starts as a bit list, computed by cutting the code instruction by
   instruction ([l] always begins at an instruction start). *)
Fixpoint starts_fuel (fuel : nat) (l : list Z) : list bool :=
  match fuel, l with
  | S f, o :: r =>
    let p := pushlen o in
    true :: repeat false (Nat.min p (length r)) ++ starts_fuel f (skipn p r)
  | _, _ => []
  end.
Definition instr_starts (code : list Z) : list bool := starts_fuel (length code) code.

Fixpoint dests_of (code : list Z) (st : list bool) : list bool :=
  match code, st with
  | o :: r, s :: st' => (s && (o =? 0x5b)) :: dests_of r st'
  | _, _ => []
  end.
(* bit t = "t is a valid jump destination of code" *)
Definition valid_dests (code : list Z) : list bool := dests_of code (instr_starts code).
