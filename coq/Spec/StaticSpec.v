(* Specification side of C10 (EIP-214 and the EOF call instructions of EIP-7069 / EIP-7620):
   which instructions are refused in static mode, and how the static flag is inherited. *)
From Coq Require Import ZArith List Bool.
From RevmV Require Import Spec.GateSpec.
Import ListNotations.
Local Open Scope Z_scope.

(* instructions that change state: refused outright in static mode *)
Definition mutating (b : Z) : bool :=
  (b =? 0x55)                         (* SSTORE *)
  || (b =? 0x5d)                      (* TSTORE *)
  || ((0xa0 <=? b) && (b <=? 0xa4))   (* LOG0..LOG4 *)
  || (b =? 0xf0) || (b =? 0xf5)       (* CREATE CREATE2 *)
  || (b =? 0xff)                      (* SELFDESTRUCT *)
  || (b =? 0xec).                     (* EOFCREATE *)

(* instructions that are refused in static mode only when they carry a non-zero value *)
Definition value_call (b : Z) : bool := (b =? 0xf1) || (b =? 0xf8). (* CALL EXTCALL *)

(* classes: 9 = "state change during static call", 10 = "call with value inside static call",
   0 = static mode has no objection *)
Definition S_OK := 0. Definition S_STATE_CHANGE := 9. Definition S_VALUE_CALL := 10.
Definition static_class (b : Z) (value_nonzero : bool) : Z :=
  if mutating b then S_STATE_CHANGE
  else if value_call b && value_nonzero then S_VALUE_CALL
  else S_OK.

(* the call family and the flag the callee runs with *)
Definition call_family : list (Z * bool) :=   (* (opcode, EOF instruction?) *)
  [ (0xf1, false); (0xf2, false); (0xf4, false); (0xfa, false)   (* CALL CALLCODE DELEGATECALL STATICCALL *)
  ; (0xf8, true); (0xf9, true); (0xfb, true) ].                   (* EXTCALL EXTDELEGATECALL EXTSTATICCALL *)
Definition forces_static (b : Z) : bool := (b =? 0xfa) || (b =? 0xfb).
Definition child_is_static (parent_static : bool) (b : Z) : bool := parent_static || forces_static b.
