(* Specification side of C05, written from the EIPs / Yellow Paper, independently of the code:
   which opcode byte is an instruction in which hardfork (legacy and EOF code), and which
   addresses are precompiled contracts in which hardfork.

   Hardforks are identified by the discriminants of `SpecId`
   (crates/primitives/src/specification.rs, mainnet list); "enabled" is [f <= s]. *)
From Coq Require Import ZArith List Bool.
Import ListNotations.
Local Open Scope Z_scope.

Definition FRONTIER := 0.        Definition FRONTIER_THAWING := 1.
Definition HOMESTEAD := 2.       Definition DAO_FORK := 3.
Definition TANGERINE := 4.       Definition SPURIOUS_DRAGON := 5.
Definition BYZANTIUM := 6.       Definition CONSTANTINOPLE := 7.
Definition PETERSBURG := 8.      Definition ISTANBUL := 9.
Definition MUIR_GLACIER := 10.   Definition BERLIN := 11.
Definition LONDON := 12.         Definition ARROW_GLACIER := 13.
Definition GRAY_GLACIER := 14.   Definition MERGE := 15.
Definition SHANGHAI := 16.       Definition CANCUN := 17.
Definition PRAGUE := 18.         Definition OSAKA := 19.
Definition LATEST := 255.

(* the hardfork list of the default (mainnet) build *)
Definition specs : list Z :=
  [0; 1; 2; 3; 4; 5; 6; 7; 8; 9; 10; 11; 12; 13; 14; 15; 16; 17; 18; 19; 255].

Definition enabled (s f : Z) : bool := f <=? s.

Inductive kind := Legacy | Eof.

(* ------------------------------------------------------------------ opcodes *)

(* Instructions of legacy code: (first byte, last byte, introducing hardfork).
   0xfe (INVALID, EIP-141) is not in the table: it is the designated invalid instruction. *)
Definition legacy_table : list (Z * Z * Z) :=
  [ (0x00, 0x0b, FRONTIER)        (* STOP .. SIGNEXTEND *)
  ; (0x10, 0x1a, FRONTIER)        (* LT .. BYTE *)
  ; (0x1b, 0x1d, CONSTANTINOPLE)  (* SHL SHR SAR            EIP-145 *)
  ; (0x20, 0x20, FRONTIER)        (* KECCAK256 *)
  ; (0x30, 0x3c, FRONTIER)        (* ADDRESS .. EXTCODECOPY *)
  ; (0x3d, 0x3e, BYZANTIUM)       (* RETURNDATASIZE RETURNDATACOPY  EIP-211 *)
  ; (0x3f, 0x3f, CONSTANTINOPLE)  (* EXTCODEHASH            EIP-1052 *)
  ; (0x40, 0x45, FRONTIER)        (* BLOCKHASH .. GASLIMIT *)
  ; (0x46, 0x46, ISTANBUL)        (* CHAINID                EIP-1344 *)
  ; (0x47, 0x47, ISTANBUL)        (* SELFBALANCE            EIP-1884 *)
  ; (0x48, 0x48, LONDON)          (* BASEFEE                EIP-3198 *)
  ; (0x49, 0x49, CANCUN)          (* BLOBHASH               EIP-4844 *)
  ; (0x4a, 0x4a, CANCUN)          (* BLOBBASEFEE            EIP-7516 *)
  ; (0x50, 0x5b, FRONTIER)        (* POP .. JUMPDEST *)
  ; (0x5c, 0x5d, CANCUN)          (* TLOAD TSTORE           EIP-1153 *)
  ; (0x5e, 0x5e, CANCUN)          (* MCOPY                  EIP-5656 *)
  ; (0x5f, 0x5f, SHANGHAI)        (* PUSH0                  EIP-3855 *)
  ; (0x60, 0x7f, FRONTIER)        (* PUSH1 .. PUSH32 *)
  ; (0x80, 0x8f, FRONTIER)        (* DUP1 .. DUP16 *)
  ; (0x90, 0x9f, FRONTIER)        (* SWAP1 .. SWAP16 *)
  ; (0xa0, 0xa4, FRONTIER)        (* LOG0 .. LOG4 *)
  ; (0xf0, 0xf3, FRONTIER)        (* CREATE CALL CALLCODE RETURN *)
  ; (0xf4, 0xf4, HOMESTEAD)       (* DELEGATECALL           EIP-7 *)
  ; (0xf5, 0xf5, CONSTANTINOPLE)  (* CREATE2                EIP-1014 *)
  ; (0xfa, 0xfa, BYZANTIUM)       (* STATICCALL             EIP-214 *)
  ; (0xfd, 0xfd, BYZANTIUM)       (* REVERT                 EIP-140 *)
  ; (0xff, 0xff, FRONTIER)        (* SELFDESTRUCT *)
  ].

Fixpoint lookup (t : list (Z * Z * Z)) (b : Z) : option Z :=
  match t with
  | [] => None
  | (lo, hi, f) :: r => if (lo <=? b) && (b <=? hi) then Some f else lookup r b
  end.
Definition legacy_intro (b : Z) : option Z := lookup legacy_table b.

(* Bytes that are instructions only inside EOF containers (EIP-7692: 4200, 4750, 6206, 663,
   7480, 7620, 7069); in legacy code they stay undefined in every hardfork. *)
Definition eof_only (b : Z) : bool :=
  ((0xd0 <=? b) && (b <=? 0xd3))      (* DATALOAD DATALOADN DATASIZE DATACOPY *)
  || ((0xe0 <=? b) && (b <=? 0xe8))   (* RJUMP RJUMPI RJUMPV CALLF RETF JUMPF DUPN SWAPN EXCHANGE *)
  || (b =? 0xec) || (b =? 0xee)       (* EOFCREATE RETURNCONTRACT *)
  || (b =? 0xf7)                      (* RETURNDATALOAD *)
  || (b =? 0xf8) || (b =? 0xf9) || (b =? 0xfb). (* EXTCALL EXTDELEGATECALL EXTSTATICCALL *)

(* Legacy instructions that EOF code validation rejects (EIP-3670 / EIP-7692). *)
Definition legacy_only (b : Z) : bool :=
  existsb (Z.eqb b)
    [ 0x38; 0x39      (* CODESIZE CODECOPY *)
    ; 0x3b; 0x3c; 0x3f (* EXTCODESIZE EXTCODECOPY EXTCODEHASH *)
    ; 0x56; 0x57; 0x58 (* JUMP JUMPI PC *)
    ; 0x5a            (* GAS *)
    ; 0xf0; 0xf1; 0xf2; 0xf4; 0xf5; 0xfa (* CREATE CALL CALLCODE DELEGATECALL CREATE2 STATICCALL *)
    ; 0xff ].         (* SELFDESTRUCT *)

Definition INVALID := 0xfe.

(* "byte b is an (ordinary) instruction of code kind k in hardfork s".  The designated INVALID
   instruction is deliberately *not* introduced: its defined behaviour is the undefined one. *)
Definition introduced (s b : Z) (k : kind) : bool :=
  match k with
  | Legacy => match legacy_intro b with Some f => enabled s f | None => false end
  | Eof =>
      if legacy_only b then false
      else if eof_only b then enabled s OSAKA
      else match legacy_intro b with Some f => enabled s f | None => false end
  end.

(* Observable class of executing one instruction (the classes the reflector prints):
   0 defined | 1 known instruction of a later hardfork | 2 undefined byte | 3 EOF-only byte in
   legacy code | 4 designated INVALID | 5 legacy-only instruction rejected by EOF validation |
   6 undefined byte rejected by EOF validation.
   For EOF code the hardfork gate of the *container format* is not part of this function (EOF
   code cannot exist before OSAKA: creation transactions / EOFCREATE are gated, see C26); the
   function describes the instruction set of an EOF container in a hardfork that has EOF. *)
Definition C_DEFINED := 0.  Definition C_LATER := 1.  Definition C_UNDEFINED := 2.
Definition C_EOF_ONLY := 3. Definition C_INVALID := 4.
Definition C_EOF_REJECT_LEGACY := 5. Definition C_EOF_REJECT_UNDEFINED := 6.

Definition gate (s b : Z) (k : kind) : Z :=
  match k with
  | Legacy =>
      if b =? INVALID then C_INVALID
      else if eof_only b then C_EOF_ONLY
      else match legacy_intro b with
           | None => C_UNDEFINED
           | Some f => if enabled s f then C_DEFINED else C_LATER
           end
  | Eof =>
      if legacy_only b then C_EOF_REJECT_LEGACY
      else if b =? INVALID then C_INVALID
      else if eof_only b then C_DEFINED
      else match legacy_intro b with
           | None => C_EOF_REJECT_UNDEFINED
           | Some f => if enabled s f then C_DEFINED else C_LATER
           end
  end.

(* every class except "defined" means: executing the byte halts the frame with all gas consumed
   (or, for 5/6, the container can never be deployed) *)
Definition undefined_like (c : Z) : bool := negb (c =? C_DEFINED).

(* ------------------------------------------------------------------ precompiles *)

(* (address, introducing hardfork): Yellow Paper 1-4; EIP-198/196/197 5-8 Byzantium;
   EIP-152 9 Istanbul; EIP-4844 0x0a Cancun; EIP-2537 0x0b-0x11 Prague. *)
Definition precompile_table : list (Z * Z) :=
  [ (0x01, FRONTIER); (0x02, FRONTIER); (0x03, FRONTIER); (0x04, FRONTIER)
  ; (0x05, BYZANTIUM); (0x06, BYZANTIUM); (0x07, BYZANTIUM); (0x08, BYZANTIUM)
  ; (0x09, ISTANBUL)
  ; (0x0a, CANCUN)
  ; (0x0b, PRAGUE); (0x0c, PRAGUE); (0x0d, PRAGUE); (0x0e, PRAGUE); (0x0f, PRAGUE)
  ; (0x10, PRAGUE); (0x11, PRAGUE) ].

Definition precompiles (s : Z) : list Z :=
  map fst (filter (fun p => enabled s (snd p)) precompile_table).
Definition is_precompile (s a : Z) : bool := existsb (Z.eqb a) (precompiles s).

(* What a transaction with EMPTY call data sent to precompile [a] does, from the EIPs:
   Some (execution gas, output length) when it succeeds, None when the precompile rejects the
   empty input (the transaction halts and consumes its whole gas limit). *)
Definition precompile_on_empty (s a : Z) : option (Z * Z) :=
  if a =? 1 then Some (3000, 0)                 (* ECRECOVER: invalid signature, empty output *)
  else if a =? 2 then Some (60, 32)             (* SHA256 *)
  else if a =? 3 then Some (600, 32)            (* RIPEMD160 *)
  else if a =? 4 then Some (15, 0)              (* IDENTITY *)
  else if a =? 5 then Some ((if enabled s BERLIN then 200 else 0), 0)  (* MODEXP, EIP-198 / EIP-2565 *)
  else if a =? 6 then Some ((if enabled s ISTANBUL then 150 else 500), 64)       (* EIP-196 / EIP-1108 *)
  else if a =? 7 then Some ((if enabled s ISTANBUL then 6000 else 40000), 64)
  else if a =? 8 then Some ((if enabled s ISTANBUL then 45000 else 100000), 32)  (* empty pairing = 1 *)
  else None.                                    (* BLAKE2F (len <> 213), KZG (len <> 192), BLS12-381 *)

Definition TX_BASE_GAS := 21000.
