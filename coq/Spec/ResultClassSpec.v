(* Specification side of the InstructionResult classification, written from the documented
   layout of the enum (crates/interpreter/src/instruction_result.rs: "Success Codes" from 0x00,
   "Revert Codes" from 0x10, "Action Codes" 0x20, "Error Codes" from 0x50) and from what
   SuccessOrHalt is used for in post_execution::output (Success / Revert / Halt results, the
   rest must never reach it).  Independent of the generated table Gen/ResultClass.v. *)
From Coq Require Import ZArith List Bool.
Import ListNotations.
Local Open Scope Z_scope.

Inductive rclass := COk | CRevert | CAction | CError.

(* expected row for every variant, by name: (discriminant, class, SuccessOrHalt class)
   SuccessOrHalt class: 0 Success, 1 Revert, 2 Halt, 3 FatalExternalError, 4 Internal *)
Definition spec_rows : list (Z * rclass * Z) := [
  (0x00, COk, 4)      (* Continue: only inside the interpreter loop *);
  (0x01, COk, 0)      (* Stop *);
  (0x02, COk, 0)      (* Return *);
  (0x03, COk, 0)      (* SelfDestruct *);
  (0x04, COk, 0)      (* ReturnContract *);
  (0x10, CRevert, 1)  (* Revert *);
  (0x11, CRevert, 2)  (* CallTooDeep: gas is returned like a revert, reported as halt *);
  (0x12, CRevert, 2)  (* OutOfFunds *);
  (0x13, CRevert, 1)  (* CreateInitCodeStartingEF00 *);
  (0x14, CRevert, 1)  (* InvalidEOFInitCode *);
  (0x15, CRevert, 4)  (* InvalidExtDelegateCallTarget *);
  (0x20, CAction, 4)  (* CallOrCreate *);
  (0x50, CError, 2)   (* OutOfGas *);
  (0x51, CError, 2)   (* MemoryOOG *);
  (0x52, CError, 2)   (* MemoryLimitOOG *);
  (0x53, CError, 2)   (* PrecompileOOG *);
  (0x54, CError, 2)   (* InvalidOperandOOG *);
  (0x55, CError, 2)   (* OpcodeNotFound *);
  (0x56, CError, 2)   (* CallNotAllowedInsideStatic *);
  (0x57, CError, 2)   (* StateChangeDuringStaticCall *);
  (0x58, CError, 2)   (* InvalidFEOpcode *);
  (0x59, CError, 2)   (* InvalidJump *);
  (0x5a, CError, 2)   (* NotActivated *);
  (0x5b, CError, 2)   (* StackUnderflow *);
  (0x5c, CError, 2)   (* StackOverflow *);
  (0x5d, CError, 2)   (* OutOfOffset *);
  (0x5e, CError, 2)   (* CreateCollision *);
  (0x5f, CError, 2)   (* OverflowPayment *);
  (0x60, CError, 2)   (* PrecompileError *);
  (0x61, CError, 2)   (* NonceOverflow *);
  (0x62, CError, 2)   (* CreateContractSizeLimit *);
  (0x63, CError, 2)   (* CreateContractStartingWithEF *);
  (0x64, CError, 2)   (* CreateInitCodeSizeLimit *);
  (0x65, CError, 3)   (* FatalExternalError *);
  (0x66, CError, 2)   (* ReturnContractInNotInitEOF *);
  (0x67, CError, 2)   (* EOFOpcodeDisabledInLegacy *);
  (0x68, CError, 2)   (* EOFFunctionStackOverflow *);
  (0x69, CError, 2)   (* EofAuxDataOverflow *);
  (0x6a, CError, 2)   (* EofAuxDataTooSmall *);
  (0x6b, CError, 2)   (* InvalidEXTCALLTarget *)
].

Definition flags_of (c : rclass) : bool * bool * bool :=
  match c with
  | COk => (true, false, false)
  | CRevert => (false, true, false)
  | CAction => (false, false, false)
  | CError => (false, false, true)
  end.

Definition spec_table : list (Z * bool * bool * bool * Z) :=
  map (fun '(d, c, k) => let '(a, b, e) := flags_of c in (d, a, b, e, k)) spec_rows.
