(* Histories of account transitions and their meaning on the plain state (C16-C18).
   A transaction's output is the list of (address, TransitionAccount) that CacheState hands to
   TransitionState::add_transitions.  [trans_ok] is the boolean well-formedness predicate that
   characterises such transitions relative to the current plain state and the status the cache
   holds for the address: it is a hypothesis of the theorems and is evaluated as a monitor on
   every transition the implementation really produced (Corr/BundleCommon.v). *)
From stdpp Require Import gmap.
From Coq Require Import ZArith.
From RevmV Require Import Model.Bundle Spec.BundleSpec.
Local Open Scope Z_scope.

(* status a freshly loaded account gets (State::load_cache_account) *)
Definition load_status (o : option info) : status :=
  match o with
  | None => LoadedNotExisting
  | Some i => if info_is_empty i then LoadedEmptyEIP161 else Loaded
  end.
Definition status_at (st : gmap Z status) (p : plain) (a : Z) : status :=
  match st !! a with Some s => s | None => load_status (acc_get p a) end.

(* the (previous status, status) pairs one CacheAccount operation can produce
   (selfdestruct, touch_empty_eip161, touch_create_pre_eip161, newly_created, change /
   increment_balance / drain_balance); creation on top of [Changed] (an account that had a
   nonce or code when loaded) is excluded: the EVM refuses it as a collision *)
Definition legal_step (prev next : status) : bool :=
  match next with
  | Destroyed =>
      match prev with Loaded | LoadedEmptyEIP161 | InMemoryChange | Changed => true | _ => false end
  | DestroyedAgain | DestroyedChanged =>
      match prev with Destroyed | DestroyedChanged | DestroyedAgain => true | _ => false end
  | InMemoryChange =>
      match prev with
      | LoadedNotExisting | LoadedEmptyEIP161 | Loaded | InMemoryChange => true | _ => false end
  | Changed => match prev with Loaded | Changed => true | _ => false end
  | _ => false
  end.

Definition is_gone (s : status) : bool :=
  match s with LoadedNotExisting | Destroyed | DestroyedAgain => true | _ => false end.

Definition slots_ok (p : plain) (a : Z) (sto : storage) : bool :=
  forallb (fun ks => s_orig ks.2 =? stor_get p a ks.1) (map_to_list sto).

Definition has_code (o : option info) : bool :=
  match o with Some i => match i_code i with Some _ => true | None => false end | None => false end.

(* the byte code travels with the info: an info whose code hash is not the empty-code hash
   carries its code, unless the previous info had the same hash and no code either (a contract
   the database handed out without its code) *)
Definition code_ok (t : tacc) : bool :=
  match t_info t with
  | None => true
  | Some i =>
      (i_hash i =? KECCAK_EMPTY) || has_code (Some i)
      || match t_pinfo t with
         | Some pi => (i_hash pi =? i_hash i) && negb (has_code (Some pi))
         | None => false
         end
  end.

(* history state: plain state, status the cache holds per touched address, and whether the
   info it holds carries code *)
Record hstate := mkH { h_plain : plain; h_st : gmap Z status; h_code : gmap Z bool }.
Definition h0 (p : plain) : hstate := mkH p ∅ ∅.

(* TransOK *)
Definition trans_ok (h : hstate) (a : Z) (t : tacc) : bool :=
  let p := h_plain h in
  status_eqb (t_pstatus t) (status_at (h_st h) p a)
  && oinfo_eqb (t_pinfo t) (acc_get p a)
  && legal_step (t_pstatus t) (t_status t)
  && slots_ok p a (t_storage t)
  && match t_info t with
     | None => is_gone (t_status t) && t_wiped t && map_is_empty (t_storage t)
     | Some _ => negb (is_gone (t_status t)) && negb (t_wiped t)
     end
  && code_ok t
  && match h_code h !! a with Some b => Bool.eqb b (has_code (t_pinfo t)) | None => true end.

(* what a transition does to the plain state *)
Definition plain_step (p : plain) (a : Z) (t : tacc) : plain :=
  mkPlain
    (match t_info t with Some i => <[a := strip i]> (p_acc p) | None => delete a (p_acc p) end)
    (<[a := merge write_slot (if t_wiped t then ∅ else default ∅ (p_stor p !! a))
                  (s_pres <$> t_storage t)]> (p_stor p)).

Definition hist_step (h : hstate) (at_ : Z * tacc) : hstate :=
  mkH (plain_step (h_plain h) at_.1 at_.2) (<[at_.1 := t_status at_.2]> (h_st h))
      (<[at_.1 := has_code (t_info at_.2)]> (h_code h)).
Definition hist_run (h : hstate) (l : list (Z * tacc)) : hstate := fold_left hist_step l h.

(* every transition of the list is well formed w.r.t. the state it is applied to *)
Fixpoint hist_ok (h : hstate) (l : list (Z * tacc)) : bool :=
  match l with
  | [] => true
  | at_ :: r => trans_ok h at_.1 at_.2 && hist_ok (hist_step h at_) r
  end.

(* a history is a list of merge groups, a group a list of transactions, a transaction a list
   of (address, transition); the schedule is the grouping *)
Definition txout := list (Z * tacc).
Definition flat (groups : list (list txout)) : list (Z * tacc) := concat (concat groups).
Definition plain_after (p0 : plain) (groups : list (list txout)) : plain :=
  h_plain (hist_run (h0 p0) (flat groups)).

Definition HistOK (p0 : plain) (groups : list (list txout)) : Prop :=
  plain_wf p0 /\ plain_nocode p0 /\ hist_ok (h0 p0) (flat groups) = true.

(* the bundle the implementation builds: per group, add every transaction's transitions to
   the TransitionState, then merge it into the bundle *)
Definition group_tstate (g : list txout) : tstate := fold_left add_transitions g ∅.
Definition bundle_step (retain : bool) (ob : option bundle) (g : list txout) : option bundle :=
  match ob with
  | Some b => apply_transitions_and_create_reverts b (group_tstate g) retain
  | None => None
  end.
Definition bundle_from (retain : bool) (b : bundle) (groups : list (list txout)) : option bundle :=
  fold_left (bundle_step retain) groups (Some b).
Definition bundle_of (retain : bool) (groups : list (list txout)) : option bundle :=
  bundle_from retain bundle_empty groups.
