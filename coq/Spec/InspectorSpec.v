(* Specification side of C29: the notifications an inspector receives during one transaction
   form a well-bracketed word.  Written without reference to the model of the handlers:
   tokens, the Dyck-style grammar ([items], [tx_wb]) and a boolean stack monitor ([balanced])
   that is proved equivalent to the grammar in Proofs/InspectorProofs.v and is then run on
   traces recorded from the implementation (DESIGN 2.3). *)
From Coq Require Import ZArith List Bool.
Import ListNotations.
Local Open Scope Z_scope.

(* which pair of hooks: call/call_end, create/create_end, eofcreate/eofcreate_end *)
Inductive kind := KCall | KCreate | KEof.
Definition kind_eqb (a b : kind) : bool :=
  match a, b with KCall, KCall | KCreate, KCreate | KEof, KEof => true | _, _ => false end.
Lemma kind_eqb_eq a b : kind_eqb a b = true <-> a = b.
Proof. destruct a, b; simpl; split; intro H; try reflexivity; discriminate. Qed.

(* one token per Inspector callback; the Z of an opener / closer identifies the inputs
   (CallInputs / CreateInputs / EOFCreateInputs) the hook was given *)
Inductive token :=
| TOpen (k : kind) (i : Z)      (* Inspector::call / create / eofcreate *)
| TClose (k : kind) (i : Z)     (* Inspector::call_end / create_end / eofcreate_end *)
| TStep | TStepEnd | TLog | TSelfDestruct | TInitInterp.
Definition Call i := TOpen KCall i.       Definition CallEnd i := TClose KCall i.
Definition Create i := TOpen KCreate i.   Definition CreateEnd i := TClose KCreate i.
Definition EofCreate i := TOpen KEof i.   Definition EofCreateEnd i := TClose KEof i.

(* what may be reported for one instruction right after its step_end: the LOG and
   SELFDESTRUCT wrappers are installed around the step/step_end wrapper, so their
   notification follows the step_end of that instruction *)
Definition step_post (m : list token) : Prop := m = [] \/ m = [TLog] \/ m = [TSelfDestruct].

(* items ::= e | step items | bracket items
   step ::= Step StepEnd (e | Log | SelfDestruct)
   bracket ::= open(k,i) (e | InitInterp items) close(k,i)      -- same k, same i *)
Inductive items : list token -> Prop :=
| it_nil : items []
| it_step : forall post t, step_post post -> items t -> items (TStep :: TStepEnd :: post ++ t)
| it_br0 : forall k i t, items t -> items (TOpen k i :: TClose k i :: t)
| it_br1 : forall k i inn t, items inn -> items t ->
    items (TOpen k i :: TInitInterp :: inn ++ TClose k i :: t).

(* a whole transaction is exactly one bracket *)
Inductive tx_wb : list token -> Prop :=
| tx_br0 : forall k i, tx_wb [TOpen k i; TClose k i]
| tx_br1 : forall k i inn, items inn -> tx_wb (TOpen k i :: TInitInterp :: inn ++ [TClose k i]).

(* ---- the monitor: a stack of open brackets and a small mode ---- *)
Inductive mode :=
| MStart      (* nothing seen *)
| MOpened     (* just after an opener: initialize_interp or the matching closer must follow *)
| MIdle       (* inside a frame, between instructions *)
| MStep       (* after step: step_end must follow *)
| MAfter      (* after step_end: as MIdle, and one log / selfdestruct notification may come *)
| MDone.      (* the outermost bracket is closed: nothing may follow *)
Definition br := (kind * Z)%type.

Definition mclose (s : list br) (k : kind) (i : Z) : option (list br * mode) :=
  match s with
  | (k', i') :: s' =>
      if kind_eqb k k' && (i =? i')
      then Some (s', match s' with [] => MDone | _ => MIdle end) else None
  | [] => None
  end.

Definition mstep (s : list br) (m : mode) (t : token) : option (list br * mode) :=
  match m, t with
  | MStart, TOpen k i => Some ([(k, i)], MOpened)
  | MIdle, TOpen k i => Some ((k, i) :: s, MOpened)
  | MAfter, TOpen k i => Some ((k, i) :: s, MOpened)
  | MOpened, TInitInterp => Some (s, MIdle)
  | MOpened, TClose k i => mclose s k i
  | MIdle, TClose k i => mclose s k i
  | MAfter, TClose k i => mclose s k i
  | MIdle, TStep => Some (s, MStep)
  | MAfter, TStep => Some (s, MStep)
  | MStep, TStepEnd => Some (s, MAfter)
  | MAfter, TLog => Some (s, MIdle)
  | MAfter, TSelfDestruct => Some (s, MIdle)
  | _, _ => None
  end.

Fixpoint mrun (s : list br) (m : mode) (l : list token) : option (list br * mode) :=
  match l with
  | [] => Some (s, m)
  | t :: l' => match mstep s m t with Some (s', m') => mrun s' m' l' | None => None end
  end.

Definition balanced (l : list token) : bool :=
  match mrun [] MStart l with Some ([], MDone) => true | _ => false end.

(* counting *)
Definition is_step t := match t with TStep => true | _ => false end.
Definition is_step_end t := match t with TStepEnd => true | _ => false end.
Definition is_log t := match t with TLog => true | _ => false end.
Definition is_sd t := match t with TSelfDestruct => true | _ => false end.
Definition is_init t := match t with TInitInterp => true | _ => false end.
Definition is_open_of k i t := match t with TOpen k' i' => kind_eqb k k' && (i =? i') | _ => false end.
Definition is_close_of k i t := match t with TClose k' i' => kind_eqb k k' && (i =? i') | _ => false end.
Definition count (p : token -> bool) (l : list token) : Z := Z.of_nat (length (filter p l)).
