(* Specification side of C02: the validity rules of a transaction per hardfork, written from the
   EIPs / execution-specs over unbounded integers and *typed* transactions, independently of
   Model/Envelope.v (nothing of the model is imported).

   Forks are numbered as SpecId does (FRONTIER = 0 ... PRAGUE = 18).
     EIP-155   chain id (optional on legacy transactions, mandatory on typed ones)
     EIP-2     contract creation costs 32000 more from HOMESTEAD
     EIP-2028  non-zero calldata byte 16 instead of 68 from ISTANBUL
     EIP-2930  access lists from BERLIN (2400 per address, 1900 per storage key)
     EIP-1559  LONDON: max_fee_per_gas >= base fee, max_priority_fee_per_gas <= max_fee_per_gas,
               balance >= gas_limit * max_fee_per_gas + value
     EIP-3607  sender has no code (EIP-7702: or a delegation designator)
     EIP-2681  nonce < 2^64 - 1
     EIP-3860  SHANGHAI: initcode <= 2 * 24576 bytes, 2 gas per 32-byte word
     EIP-4844  CANCUN: blob transactions (to != nil, >= 1 blob, version byte 0x01, count <= max,
               max_fee_per_blob_gas >= blob base fee, balance covers max_fee_per_blob_gas * blob gas)
     EIP-7691  PRAGUE: at most 9 blobs (6 in CANCUN)
     EIP-7702  PRAGUE: set-code transactions (to != nil, non-empty authorization list), 25000 per tuple
     EIP-7623  PRAGUE: gas limit >= 21000 + 10 * tokens *)
From Coq Require Import ZArith List Lia Bool.
Import ListNotations.
Local Open Scope Z_scope.

Module Spec.

Definition HOMESTEAD := 2.  Definition ISTANBUL := 9.  Definition BERLIN := 11.
Definition LONDON := 12.    Definition MERGE := 15.    Definition SHANGHAI := 16.
Definition CANCUN := 17.    Definition PRAGUE := 18.

(* fields shared by all transaction types *)
Record common := mkCommon {
  nonce : Z; gas_limit : Z; to : option Z (* None = contract creation *); value : Z; data : list Z
}.
(* an access list: per entry the number of storage keys *)
Definition access_list := list Z.

Inductive typed_tx :=
| Legacy (chain_id : option Z) (gas_price : Z) (c : common)
| Eip2930 (chain_id : Z) (gas_price : Z) (c : common) (al : access_list)
| Eip1559 (chain_id : Z) (max_priority_fee max_fee : Z) (c : common) (al : access_list)
| Eip4844 (chain_id : Z) (max_priority_fee max_fee : Z) (c : common) (al : access_list)
          (max_fee_per_blob_gas : Z) (blob_version_bytes : list Z)
| Eip7702 (chain_id : Z) (max_priority_fee max_fee : Z) (c : common) (al : access_list)
          (authorization_count : Z).

Definition common_of (t : typed_tx) : common :=
  match t with
  | Legacy _ _ c | Eip2930 _ _ c _ | Eip1559 _ _ _ c _ | Eip4844 _ _ _ c _ _ _ | Eip7702 _ _ _ c _ _ => c
  end.
Definition chain_id_of (t : typed_tx) : option Z :=
  match t with
  | Legacy ci _ _ => ci
  | Eip2930 ci _ _ _ | Eip1559 ci _ _ _ _ | Eip4844 ci _ _ _ _ _ _ | Eip7702 ci _ _ _ _ _ => Some ci
  end.
(* the price cap per gas the sender commits to *)
Definition max_fee_of (t : typed_tx) : Z :=
  match t with
  | Legacy _ p _ | Eip2930 _ p _ _ => p
  | Eip1559 _ _ m _ _ | Eip4844 _ _ m _ _ _ _ | Eip7702 _ _ m _ _ _ => m
  end.
Definition priority_of (t : typed_tx) : option Z :=
  match t with
  | Legacy _ _ _ | Eip2930 _ _ _ _ => None
  | Eip1559 _ p _ _ _ | Eip4844 _ p _ _ _ _ _ | Eip7702 _ p _ _ _ _ => Some p
  end.
Definition access_list_of (t : typed_tx) : access_list :=
  match t with
  | Legacy _ _ _ => []
  | Eip2930 _ _ _ al | Eip1559 _ _ _ _ al | Eip4844 _ _ _ _ al _ _ | Eip7702 _ _ _ _ al _ => al
  end.
Definition blobs_of (t : typed_tx) : list Z :=
  match t with Eip4844 _ _ _ _ _ _ bl => bl | _ => [] end.
Definition auth_count_of (t : typed_tx) : Z :=
  match t with Eip7702 _ _ _ _ _ n => n | _ => 0 end.
Definition is_create (t : typed_tx) : bool :=
  match to (common_of t) with None => true | Some _ => false end.

(* what validity is judged against *)
Inductive code_class := NoCode | Delegation | Code.
Record context := mkCtx {
  fork : Z;
  chain : Z;                      (* the chain's id *)
  block_gas_limit : Z;
  base_fee : Z;                   (* base fee per gas (LONDON) *)
  has_prevrandao : bool;          (* header carries prevrandao (MERGE) *)
  blob_base_fee : option Z;       (* header carries excess blob gas (CANCUN) -> blob base fee *)
  max_initcode : Z;               (* 2 * max code size; 49152 on mainnet *)
  max_blobs : Z;                  (* max blobs per block of the fork: 6 CANCUN, 9 PRAGUE *)
  sender_nonce : Z; sender_balance : Z; sender_code : code_class
}.

(* ---- intrinsic gas, byte by byte *)
Definition byte_cost (f : Z) (b : Z) : Z :=
  if b =? 0 then 4 else if ISTANBUL <=? f then 16 else 68.
Definition data_cost (f : Z) (d : list Z) : Z := fold_right (fun b acc => byte_cost f b + acc) 0 d.
Definition byte_tokens (b : Z) : Z := if b =? 0 then 1 else 4.
Definition tokens (d : list Z) : Z := fold_right (fun b acc => byte_tokens b + acc) 0 d.
Definition words (len : Z) : Z := (len + 31) / 32.
Definition al_cost (al : access_list) : Z :=
  fold_right (fun keys acc => 2400 + 1900 * keys + acc) 0 al.

Definition intrinsic_gas (f : Z) (t : typed_tx) : Z :=
  let c := common_of t in
  21000
  + data_cost f (data c)
  + (if is_create t && (HOMESTEAD <=? f) then 32000 else 0)
  + (if BERLIN <=? f then al_cost (access_list_of t) else 0)
  + (if is_create t && (SHANGHAI <=? f) then 2 * words (Z.of_nat (length (data c))) else 0)
  + (if PRAGUE <=? f then 25000 * auth_count_of t else 0).
Definition floor_gas (t : typed_tx) : Z := 21000 + 10 * tokens (data (common_of t)).

Definition blob_gas (t : typed_tx) : Z := 131072 * Z.of_nat (length (blobs_of t)).
Definition max_blob_fee (t : typed_tx) : Z :=
  match t with Eip4844 _ _ _ _ _ m _ => m * blob_gas t | _ => 0 end.
(* the most the sender can be charged *)
Definition max_cost (t : typed_tx) : Z :=
  gas_limit (common_of t) * max_fee_of t + value (common_of t) + max_blob_fee t.

(* ---- the rules *)
Definition block_ok (x : context) : Prop :=
  (MERGE <= fork x -> has_prevrandao x = true) /\ (CANCUN <= fork x -> blob_base_fee x <> None).
Definition chain_id_ok (x : context) (t : typed_tx) : Prop :=
  match chain_id_of t with Some ci => ci = chain x | None => True end.
Definition gas_limit_ok (x : context) (t : typed_tx) : Prop :=
  gas_limit (common_of t) <= block_gas_limit x /\
  intrinsic_gas (fork x) t <= gas_limit (common_of t) /\
  (PRAGUE <= fork x -> floor_gas t <= gas_limit (common_of t)).
Definition access_list_ok (x : context) (t : typed_tx) : Prop :=
  fork x < BERLIN -> access_list_of t = [].
(* EIP-1559 transactions exist from LONDON (blob and set-code transactions carry their fork in
   blob_ok / set_code_ok; an EIP-2930 transaction differs from a legacy one only by its access
   list as far as TxEnv can tell, see access_list_ok) *)
Definition type_ok (x : context) (t : typed_tx) : Prop :=
  match t with Eip1559 _ _ _ _ _ => LONDON <= fork x | _ => True end.
Definition fee_ok (x : context) (t : typed_tx) : Prop :=
  LONDON <= fork x ->
  base_fee x <= max_fee_of t /\ match priority_of t with Some p => p <= max_fee_of t | None => True end.
Definition initcode_ok (x : context) (t : typed_tx) : Prop :=
  SHANGHAI <= fork x -> is_create t = true -> Z.of_nat (length (data (common_of t))) <= max_initcode x.
Definition blob_ok (x : context) (t : typed_tx) : Prop :=
  match t with
  | Eip4844 _ _ _ c _ mfb bl =>
      CANCUN <= fork x /\ to c <> None /\ bl <> [] /\ Forall (fun v => v = 1) bl /\
      Z.of_nat (length bl) <= max_blobs x /\
      match blob_base_fee x with Some bf => bf <= mfb | None => False end
  | _ => True
  end.
Definition set_code_ok (x : context) (t : typed_tx) : Prop :=
  match t with
  | Eip7702 _ _ _ c _ n => PRAGUE <= fork x /\ to c <> None /\ 0 < n
  | _ => True
  end.
Definition sender_ok (x : context) (t : typed_tx) : Prop :=
  (sender_code x = NoCode \/ (sender_code x = Delegation /\ PRAGUE <= fork x)) /\
  nonce (common_of t) = sender_nonce x /\
  sender_nonce x < 2 ^ 64 - 1 /\
  max_cost t <= sender_balance x.

Definition valid (x : context) (t : typed_tx) : Prop :=
  block_ok x /\ chain_id_ok x t /\ gas_limit_ok x t /\ access_list_ok x t /\ type_ok x t /\ fee_ok x t /\
  initcode_ok x t /\ blob_ok x t /\ set_code_ok x t /\ sender_ok x t.

(* ---- the same as a decision procedure (used as oracle by the correspondence check) *)
Definition imp (a b : bool) : bool := negb a || b.
Definition block_ok_b x := imp (MERGE <=? fork x) (has_prevrandao x) &&
  imp (CANCUN <=? fork x) (match blob_base_fee x with Some _ => true | None => false end).
Definition chain_id_ok_b x t := match chain_id_of t with Some ci => ci =? chain x | None => true end.
Definition gas_limit_ok_b x t :=
  (gas_limit (common_of t) <=? block_gas_limit x) && (intrinsic_gas (fork x) t <=? gas_limit (common_of t)) &&
  imp (PRAGUE <=? fork x) (floor_gas t <=? gas_limit (common_of t)).
Definition access_list_ok_b x t :=
  imp (fork x <? BERLIN) (match access_list_of t with [] => true | _ => false end).
Definition type_ok_b x t := match t with Eip1559 _ _ _ _ _ => LONDON <=? fork x | _ => true end.
Definition fee_ok_b x t :=
  imp (LONDON <=? fork x)
      ((base_fee x <=? max_fee_of t) && match priority_of t with Some p => p <=? max_fee_of t | None => true end).
Definition initcode_ok_b x t :=
  imp ((SHANGHAI <=? fork x) && is_create t) (Z.of_nat (length (data (common_of t))) <=? max_initcode x).
Definition blob_ok_b x t :=
  match t with
  | Eip4844 _ _ _ c _ mfb bl =>
      (CANCUN <=? fork x) && (match to c with Some _ => true | None => false end) &&
      (match bl with [] => false | _ => true end) && forallb (fun v => v =? 1) bl &&
      (Z.of_nat (length bl) <=? max_blobs x) &&
      match blob_base_fee x with Some bf => bf <=? mfb | None => false end
  | _ => true
  end.
Definition set_code_ok_b x t :=
  match t with
  | Eip7702 _ _ _ c _ n => (PRAGUE <=? fork x) && (match to c with Some _ => true | None => false end) && (0 <? n)
  | _ => true
  end.
Definition sender_ok_b x t :=
  (match sender_code x with NoCode => true | Delegation => PRAGUE <=? fork x | Code => false end) &&
  (nonce (common_of t) =? sender_nonce x) && (sender_nonce x <? 2 ^ 64 - 1) &&
  (max_cost t <=? sender_balance x).
Definition valid_b x t :=
  block_ok_b x && chain_id_ok_b x t && gas_limit_ok_b x t && access_list_ok_b x t && type_ok_b x t && fee_ok_b x t &&
  initcode_ok_b x t && blob_ok_b x t && set_code_ok_b x t && sender_ok_b x t.

Lemma imp_spec a b : imp a b = true <-> (a = true -> b = true).
Proof. destruct a, b; cbn; intuition congruence. Qed.

Lemma valid_b_spec x t : valid_b x t = true <-> valid x t.
Proof.
  unfold valid_b, valid. rewrite !andb_true_iff.
  assert (B : block_ok_b x = true <-> block_ok x).
  { unfold block_ok_b, block_ok. rewrite andb_true_iff, !imp_spec, !Z.leb_le.
    destruct (blob_base_fee x); intuition congruence. }
  assert (C : chain_id_ok_b x t = true <-> chain_id_ok x t).
  { unfold chain_id_ok_b, chain_id_ok. destruct (chain_id_of t); [apply Z.eqb_eq | tauto]. }
  assert (G : gas_limit_ok_b x t = true <-> gas_limit_ok x t).
  { unfold gas_limit_ok_b, gas_limit_ok. rewrite !andb_true_iff, imp_spec, !Z.leb_le. tauto. }
  assert (A : access_list_ok_b x t = true <-> access_list_ok x t).
  { unfold access_list_ok_b, access_list_ok. rewrite imp_spec, Z.ltb_lt.
    destruct (access_list_of t); intuition congruence. }
  assert (TY : type_ok_b x t = true <-> type_ok x t).
  { unfold type_ok_b, type_ok. destruct t; try tauto. apply Z.leb_le. }
  assert (F : fee_ok_b x t = true <-> fee_ok x t).
  { unfold fee_ok_b, fee_ok. rewrite imp_spec, andb_true_iff, !Z.leb_le.
    destruct (priority_of t); rewrite ?Z.leb_le; tauto. }
  assert (I : initcode_ok_b x t = true <-> initcode_ok x t).
  { unfold initcode_ok_b, initcode_ok. rewrite imp_spec, andb_true_iff, !Z.leb_le. tauto. }
  assert (BL : blob_ok_b x t = true <-> blob_ok x t).
  { unfold blob_ok_b, blob_ok. destruct t; try tauto.
    rewrite !andb_true_iff, !Z.leb_le, forallb_forall, Forall_forall.
    assert (E : (forall v, In v blob_version_bytes -> (v =? 1) = true) <->
                (forall v, In v blob_version_bytes -> v = 1)).
    { split; intros H v Hv; specialize (H v Hv); [apply Z.eqb_eq | apply Z.eqb_eq]; exact H. }
    rewrite E. destruct (to c), blob_version_bytes, (blob_base_fee x); rewrite ?Z.leb_le;
      intuition congruence. }
  assert (S7 : set_code_ok_b x t = true <-> set_code_ok x t).
  { unfold set_code_ok_b, set_code_ok. destruct t; try tauto.
    rewrite !andb_true_iff, Z.leb_le, Z.ltb_lt. destruct (to c); intuition congruence. }
  assert (SE : sender_ok_b x t = true <-> sender_ok x t).
  { unfold sender_ok_b, sender_ok. rewrite !andb_true_iff, Z.eqb_eq, Z.ltb_lt, Z.leb_le.
    destruct (sender_code x); rewrite ?Z.leb_le; intuition congruence. }
  tauto.
Qed.

End Spec.
