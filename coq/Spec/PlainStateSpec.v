(* The plain reference state of C15: a map  address -> {info, storage}  plus a code table, and
   how committed changes update it. Written from the property / EIP-161 / EIP-6780 text and
   independent of the cache model (only the shared vocabulary of AcctStatus and the EVM-output
   record types are used). Storage is a total function (absent slot = 0). *)
From RevmV Require Import Model.AcctStatus Model.StateDb.
Local Open Scope Z_scope.

Record rplain := mkR { r_info : info; r_storage : Z -> Z }.

Definition ref_basic (r : option rplain) : option info := option_map r_info r.
Definition ref_storage (r : option rplain) (k : Z) : Z :=
  match r with Some q => r_storage q k | None => 0 end.

(* write the present value of every listed slot *)
Definition write_slots (l : list eslot) (f : Z -> Z) : Z -> Z :=
  fun k => match find (fun s => s_key s =? k) l with Some s => s_present s | None => f k end.

(* one account record of a transaction's output:
   - not touched: nothing happened to the account;
   - selfdestructed: the account is gone (with its storage);
   - touched and empty while state clearing is active: removed (EIP-161);
   - otherwise the info is replaced; a created account starts from empty storage; the listed
     slots take their present values. *)
Definition spec_commit (clear : bool) (r : option rplain) (e : eacc) : option rplain :=
  if negb (e_touched e) then r
  else if e_selfdestructed e then None
  else if clear && info_is_empty (e_info e) then None
  else Some (mkR (e_info e)
                 (write_slots (e_storage e) (if e_created e then (fun _ => 0) else ref_storage r))).

(* withdrawal-style credit: saturating at 2^256-1; crediting 0 does nothing; a missing account
   is materialised *)
Definition spec_increment (r : option rplain) (n : Z) : option rplain :=
  if n =? 0 then r
  else match r with
       | Some q => Some (mkR (add_balance_sat (r_info q) n) (r_storage q))
       | None => Some (mkR (add_balance_sat info_default n) (fun _ => 0))
       end.

(* DAO-style drain: balance := 0; a missing account is materialised as an empty account (what
   go-ethereum's SetBalance does; only relevant before Spurious Dragon) *)
Definition spec_drain (r : option rplain) : option rplain :=
  match r with
  | Some q => Some (mkR (set_balance (r_info q) 0) (r_storage q))
  | None => Some (mkR (set_balance info_default 0) (fun _ => 0))
  end.

(* ---- whole state *)
Record rstate := mkRS { rs_acc : Z -> option rplain; rs_code : Z -> Z }.

Definition upd {A} (f : Z -> A) (a : Z) (v : A) : Z -> A := fun x => if x =? a then v else f x.

Definition ref_of_dbacc (d : dbacc) : rplain :=
  mkR (d_info d) (fun k => match sget k (d_storage d) with Some v => v | None => 0 end).
Definition ref_of_db (D : db) : rstate :=
  mkRS (fun a => option_map ref_of_dbacc (aget a (db_accounts D))) (db_code D).

(* code carried inline by a committed info is known from then on *)
Definition spec_note_code (c : Z -> Z) (e : eacc) : Z -> Z :=
  if e_touched e && negb (e_selfdestructed e) then
    match i_code (e_info e) with
    | Some b => if b =? 1 then c else upd c (i_code_hash (e_info e)) b
    | None => c
    end
  else c.

Fixpoint rs_commit (clear : bool) (s : rstate) (l : list (Z * eacc)) : rstate :=
  match l with
  | [] => s
  | (a, e) :: r =>
    rs_commit clear (mkRS (upd (rs_acc s) a (spec_commit clear (rs_acc s a) e))
                          (spec_note_code (rs_code s) e)) r
  end.
Fixpoint rs_increment (s : rstate) (l : list (Z * Z)) : rstate :=
  match l with
  | [] => s
  | (a, n) :: r => rs_increment (mkRS (upd (rs_acc s) a (spec_increment (rs_acc s a) n)) (rs_code s)) r
  end.
Fixpoint rs_drain (s : rstate) (l : list Z) : rstate :=
  match l with
  | [] => s
  | a :: r => rs_drain (mkRS (upd (rs_acc s) a (spec_drain (rs_acc s a))) (rs_code s)) r
  end.

(* ---- well-formedness of one EVM-output account record w.r.t. the reference account before
   the commit. This is the hypothesis of the C15 theorems AND a monitor evaluated on every real
   EVM output in the correspondence run.
   [evm_out_core]: everything except the clause about storage on accounts without code and
   nonce ([evm_out_no_orphan_storage], the F15/F17 class). *)
Definition has_cn (i : info) : bool := negb (has_no_code_and_nonce i).
(* the storage of an output is a map: every key occurs once *)
Fixpoint keys_distinctb (l : list eslot) : bool :=
  match l with
  | [] => true
  | s :: r => negb (existsb (fun t => s_key t =? s_key s) r) && keys_distinctb r
  end.

Definition evm_out_core (clear : bool) (r : option rplain) (e : eacc) : bool :=
  if negb (e_touched e) then true
  else if e_selfdestructed e then true
  else
    negb (i_code_hash (e_info e) =? 0) && keys_distinctb (e_storage e)
    && (if e_created e then
          (* a created account starts from zero storage, and is not empty once EIP-161 is active
             (its nonce is 1) *)
          forallb (fun s => s_orig s =? 0) (e_storage e)
          && negb (clear && info_is_empty (e_info e))
        else
          (* original values are the current view *)
          forallb (fun s => s_orig s =? ref_storage r (s_key s)) (e_storage e)
          (* code and nonce never disappear, a non-empty account does not become empty *)
          && match r with
             | Some q => (if has_cn (r_info q) then has_cn (e_info e) else true)
                         && (if info_is_empty (r_info q) then true else negb (info_is_empty (e_info e)))
             | None => true
             end).

(* an account that has neither code nor nonce is left without storage *)
Definition evm_out_no_orphan_storage (e : eacc) : bool :=
  if e_touched e && negb (e_selfdestructed e) && has_no_code_and_nonce (e_info e)
  then forallb (fun s => s_present s =? 0) (e_storage e) else true.

Definition EvmOutOK (clear : bool) (r : option rplain) (e : eacc) : bool :=
  evm_out_core clear r e && evm_out_no_orphan_storage e.

(* the database side of the same class (F15): no storage under an account without code and
   nonce; code hashes are canonical (never the zero hash) *)
Definition db_acc_core (d : dbacc) : bool := negb (i_code_hash (d_info d) =? 0).
Definition db_acc_no_orphan_storage (d : dbacc) : bool :=
  if has_no_code_and_nonce (d_info d) then forallb (fun kv => snd kv =? 0) (d_storage d) else true.
